(* PromotionProofs.v — lemmas about model/Promotion.v (C04). *)
From Verif Require Import model.Base model.Promotion.
From Coq Require Import Qabs Qround Lqa Sorting.Sorted ZifyBool.
From Verif Require model.Rung proofs.RungProofs.
From Coq Require Strings.String.

Ltac inv H := inversion H; subst; clear H.

(* destruct the scrutinee of the first match found in hypothesis H *)
Ltac break_in H :=
  match type of H with
  | context [match ?x with _ => _ end] =>
      match type of x with
      | sumbool _ _ => destruct x
      | _ => let E := fresh "E" in destruct x eqn:E
      end
  end.
Ltac break_goal :=
  match goal with
  | |- context [match ?x with _ => _ end] => let E := fresh "E" in destruct x eqn:E
  end.
(* destruct a scrutinee that does not itself contain a match *)
Ltac break_inner :=
  match goal with
  | |- context [match ?x with _ => _ end] =>
      lazymatch x with
      | context [match _ with _ => _ end] => fail
      | _ => let E := fresh "E" in destruct x eqn:E
      end
  end.

(* ---- generic list facts --------------------------------------------------- *)
Lemma nth_error_set_nth_eq {A} : forall (l : list A) n x y, nth_error l n = Some y ->
  nth_error (set_nth n x l) n = Some x.
Proof. induction l as [|a l IH]; intros [|n] x y H; simpl in *; try discriminate; eauto. Qed.

Lemma nth_error_set_nth_neq {A} : forall (l : list A) n m x, n <> m ->
  nth_error (set_nth n x l) m = nth_error l m.
Proof.
  induction l as [|a l IH]; intros [|n] [|m] x H; simpl in *; try reflexivity; try congruence.
  apply IH. congruence.
Qed.

Lemma set_nth_length {A} : forall (l : list A) n x, length (set_nth n x l) = length l.
Proof. induction l as [|a l IH]; intros [|n] x; simpl; auto. Qed.

Lemma map_set_nth {A B} (f : A -> B) : forall (l : list A) n x y, nth_error l n = Some y -> f x = f y ->
  map f (set_nth n x l) = map f l.
Proof.
  induction l as [|a l IH]; intros [|n] x y H Hf; simpl in *; try discriminate; auto.
  - inv H. congruence.
  - f_equal. eauto.
Qed.

Lemma In_set_nth {A} : forall (l : list A) n x z, In z (set_nth n x l) -> z = x \/ In z l.
Proof.
  induction l as [|a l IH]; intros [|n] x z H; simpl in *; auto.
  - destruct H; auto.
  - destruct H; auto. apply IH in H. tauto.
Qed.

Lemma In_remove_nth {A} : forall (l : list A) n z, In z (remove_nth n l) -> In z l.
Proof.
  induction l as [|a l IH]; intros [|n] z H; simpl in *; auto.
  destruct H; auto. right. eauto.
Qed.

(* ---- association lists ------------------------------------------------------ *)
Lemma lookup_update_eq {A} : forall (l : list (Z * A)) k v, lookup k (update k v l) = Some v.
Proof.
  induction l as [|[k' v'] l IH]; intros k v; simpl.
  - rewrite Z.eqb_refl. reflexivity.
  - destruct (Z.eqb k k') eqn:E; simpl; rewrite ?Z.eqb_refl, ?E; auto.
Qed.

Lemma lookup_update_neq {A} : forall (l : list (Z * A)) k k' v, k' <> k -> lookup k' (update k v l) = lookup k' l.
Proof.
  induction l as [|[k0 v0] l IH]; intros k k' v H; simpl.
  - destruct (Z.eqb k' k) eqn:E; auto. lia.
  - destruct (Z.eqb k k0) eqn:E; simpl.
    + assert (k = k0) by lia. subst. destruct (Z.eqb k' k0) eqn:E2; auto. lia.
    + destruct (Z.eqb k' k0); auto.
Qed.

Lemma lookup_remove_eq {A} : forall (l : list (Z * A)) k, lookup k (remove_key k l) = None.
Proof.
  induction l as [|[k0 v0] l IH]; intros k; simpl; auto.
  destruct (Z.eqb k k0) eqn:E; simpl; rewrite ?E; auto.
Qed.

Lemma lookup_remove_neq {A} : forall (l : list (Z * A)) k k', k' <> k -> lookup k' (remove_key k l) = lookup k' l.
Proof.
  induction l as [|[k0 v0] l IH]; intros k k' H; simpl; auto.
  destruct (Z.eqb k k0) eqn:E; simpl.
  - assert (k = k0) by lia. subst. destruct (Z.eqb k' k0) eqn:E2; auto. lia.
  - destruct (Z.eqb k' k0); auto.
Qed.

(* ---- order on metrics --------------------------------------------------------- *)
Lemma Qltb_false a b : Qltb a b = false <-> b <= a.
Proof.
  unfold Qltb. rewrite negb_false_iff. apply Qle_bool_iff.
Qed.
Lemma Qleb_false a b : Qleb a b = false <-> b < a.
Proof.
  unfold Qleb. split; intro H.
  - apply Qnot_le_lt. intro Hle. apply Qle_bool_iff in Hle. congruence.
  - destruct (Qle_bool a b) eqn:E; auto. apply Qle_bool_iff in E. exfalso. eapply Qlt_not_le; eauto.
Qed.

(* "y is not strictly better than x" *)
Definition nb (md : mode) (x y : entry) : Prop := better_lt md (e_metric y) (e_metric x) = false.
Definition sorted (md : mode) (l : list entry) : Prop := StronglySorted (nb md) l.

Lemma better_lt_le md a b : better_lt md a b = false <-> better_le md b a = true.
Proof. destruct md; simpl; rewrite Qltb_false, Qleb_le; tauto. Qed.

Lemma better_lt_asym md a b : better_lt md a b = true -> better_lt md b a = false.
Proof.
  destruct md; simpl; rewrite Qltb_lt, Qltb_false; apply Qlt_le_weak.
Qed.

Lemma nb_trans md x y z : nb md x y -> nb md y z -> nb md x z.
Proof.
  unfold nb. destruct md; simpl; rewrite !Qltb_false; intros; eapply Qle_trans; eauto.
Qed.

Lemma In_insert md e : forall l z, In z (insert md e l) <-> z = e \/ In z l.
Proof.
  induction l as [|x r IH]; intros z; simpl.
  - intuition.
  - destruct (better_lt md (e_metric e) (e_metric x)); simpl; [intuition|].
    rewrite IH. intuition.
Qed.

Lemma insert_sorted md e : forall l, sorted md l -> sorted md (insert md e l).
Proof.
  induction l as [|x r IH]; intros Hs; simpl.
  - constructor; constructor.
  - inv Hs. destruct (better_lt md (e_metric e) (e_metric x)) eqn:E.
    + constructor; [constructor; assumption|].
      assert (Hex : nb md e x) by (apply better_lt_asym; exact E).
      constructor; [exact Hex|].
      rewrite Forall_forall in *. intros z Hz. eapply nb_trans; eauto.
    + constructor; [apply IH; assumption|].
      rewrite Forall_forall in *. intros z Hz. apply In_insert in Hz as [->|Hz]; [exact E | auto].
Qed.

Lemma remove_nth_sorted md : forall l n, sorted md l -> sorted md (remove_nth n l).
Proof.
  induction l as [|x r IH]; intros [|n] Hs; simpl; auto.
  - inv Hs. assumption.
  - inv Hs. constructor; [apply IH; assumption|].
    rewrite Forall_forall in *. intros z Hz. apply In_remove_nth in Hz. auto.
Qed.

Lemma sorted_nth md : forall l i j x y, sorted md l -> (i <= j)%nat ->
  nth_error l i = Some x -> nth_error l j = Some y -> nb md x y.
Proof.
  induction l as [|a l IH]; intros [|i] [|j] x y Hs Hij Hx Hy; simpl in *; try discriminate; try lia.
  - inv Hx. inv Hy. unfold nb. destruct md; simpl; apply Qltb_false; apply Qle_refl.
  - inv Hx. inv Hs. rewrite Forall_forall in H2. apply H2. eapply nth_error_In; eauto.
  - inv Hs. apply (IH i j x y); auto. lia.
Qed.

(* ---- find_first ------------------------------------------------------------- *)
Lemma find_first_some {A} (f : A -> bool) : forall l p0 e pos, find_first f l p0 = Some (e, pos) ->
  exists k, pos = (p0 + k)%nat /\ nth_error l k = Some e /\ f e = true /\
            forall k' e', (k' < k)%nat -> nth_error l k' = Some e' -> f e' = false.
Proof.
  induction l as [|x r IH]; intros p0 e pos H; simpl in *; [discriminate|].
  destruct (f x) eqn:E.
  - inv H. exists 0%nat. split; [lia|]. split; [reflexivity|]. split; [exact E|]. intros; lia.
  - apply IH in H as [k [-> [Hn [Hf Hb]]]]. exists (S k). split; [lia|]. split; [exact Hn|]. split; [exact Hf|].
    intros [|k'] e' Hk He'; simpl in *; [inv He'; exact E | eapply Hb; eauto; lia].
Qed.

Lemma find_first_none {A} (f : A -> bool) : forall l p0, find_first f l p0 = None ->
  forall e, In e l -> f e = false.
Proof.
  induction l as [|x r IH]; intros p0 H e Hin; simpl in *; [tauto|].
  destruct (f x) eqn:E; [discriminate|]. destruct Hin as [->|Hin]; eauto.
Qed.

(* ---- the promotion rule on one rung -------------------------------------------- *)
Definition thr_of (r : rung) : Q := sum_costs (r_data r) * r_q r.
(* cost of the k+1 best entries, summed in rung order *)
Definition cost_prefix (l : list entry) (k : nat) : Q := sum_costs (firstn (S k) l).

(* the variant's promotion rule for the entry at position [pos]: satisfied at least up to the
   Boundary region / satisfied strictly outside the Boundary region *)
Definition rule_ok (cfg : config) (r : rung) (pos : nat) (e : entry) : Prop :=
  match c_variant cfg with
  | VCost => (1 < length (r_data r))%nat /\
             forall k, (k <= pos)%nat -> le3 (c_tol cfg) (cost_prefix (r_data r) k) (thr_of r) <> No
  | _ => exists c, quantile (c_mode cfg) r = Some c /\ within (c_mode cfg) (c_tol cfg) (e_metric e) c <> No
  end.
Definition rule_yes (cfg : config) (r : rung) (pos : nat) (e : entry) : Prop :=
  match c_variant cfg with
  | VCost => (1 < length (r_data r))%nat /\
             forall k, (k <= pos)%nat -> le3 (c_tol cfg) (cost_prefix (r_data r) k) (thr_of r) = Yes
  | _ => exists c, quantile (c_mode cfg) r = Some c /\ within (c_mode cfg) (c_tol cfg) (e_metric e) c = Yes
  end.
(* [thr]: RUSH thresholds in force (irrelevant for the other variants) *)
Definition eligible_ok (cfg : config) (thr : list (Z * Q)) (r : rung) (pos : nat) (e : entry) : Prop :=
  nth_error (r_data r) pos = Some e /\ admissible cfg thr (r_level r) e = true /\ rule_ok cfg r pos e.
Definition eligible_yes (cfg : config) (thr : list (Z * Q)) (r : rung) (pos : nat) (e : entry) : Prop :=
  nth_error (r_data r) pos = Some e /\ admissible cfg thr (r_level r) e = true /\ rule_yes cfg r pos e.

Lemma accept_true d b : accept d b = true -> d <> No.
Proof. destruct d; simpl; congruence. Qed.
Lemma accept_false d b : accept d b = false -> d <> Yes.
Proof. destruct d; simpl; congruence. Qed.

Lemma within_mono md tol m m0 c : better_lt md m m0 = false ->
  within md tol m c = Yes -> within md tol m0 c = Yes.
Proof.
  unfold within, near. intros Hb H.
  destruct (Qleb (Qabs (m - c)) (tol * Qabs c)) eqn:En; [discriminate|].
  destruct (better_le md m c) eqn:Ele; [|discriminate].
  apply Qleb_false in En.
  destruct md; cbn [better_lt better_le] in *; apply Qltb_false in Hb; apply Qleb_le in Ele.
  - assert (Hn : Qleb (Qabs (m0 - c)) (tol * Qabs c) = false).
    { apply Qleb_false.
      assert (E1 : Qabs (m - c) == - (m - c)) by (apply Qabs_neg; lra).
      assert (E2 : Qabs (m0 - c) == - (m0 - c)) by (apply Qabs_neg; lra).
      rewrite E1 in En. rewrite E2. lra. }
    rewrite Hn. assert (Hl : Qleb m0 c = true) by (apply Qleb_le; lra). rewrite Hl. reflexivity.
  - assert (Hn : Qleb (Qabs (m0 - c)) (tol * Qabs c) = false).
    { apply Qleb_false.
      assert (E1 : Qabs (m - c) == m - c) by (apply Qabs_pos; lra).
      assert (E2 : Qabs (m0 - c) == m0 - c) by (apply Qabs_pos; lra).
      rewrite E1 in En. rewrite E2. lra. }
    rewrite Hn. assert (Hl : Qleb c m0 = true) by (apply Qleb_le; lra). rewrite Hl. reflexivity.
Qed.

Lemma admissible_ext cfg thr thr0 lvl e : lookup lvl thr = lookup lvl thr0 ->
  admissible cfg thr lvl e = admissible cfg thr0 lvl e.
Proof. unfold admissible. intros ->. reflexivity. Qed.

Lemma admissible_unprom cfg thr lvl e : admissible cfg thr lvl e = true -> e_prom e = false.
Proof. unfold admissible. intro H. apply andb_true_iff in H as [H _]. destruct (e_prom e); auto; discriminate. Qed.

(* cost scan *)
Lemma sum_costs_snoc l e : sum_costs (l ++ [e]) = sum_costs l + e_cost e.
Proof. unfold sum_costs. rewrite fold_left_app. reflexivity. Qed.

Lemma firstn_S_app {A} : forall (pre l : list A) (e : A),
  firstn (S (length pre)) (pre ++ e :: l) = pre ++ [e].
Proof.
  induction pre as [|a pre IH]; intros l e; simpl; [reflexivity|]. f_equal. apply IH.
Qed.

Lemma nth_error_app_mid {A} (pre l : list A) e : nth_error (pre ++ e :: l) (length pre) = Some e.
Proof. rewrite nth_error_app2 by lia. rewrite Nat.sub_diag. reflexivity. Qed.

Lemma cost_scan_some tol b thr data : forall l pre t p,
  data = pre ++ l ->
  cost_scan tol b thr l (sum_costs pre) (length pre) = Some (t, p) ->
  exists e, nth_error data p = Some e /\ e_id e = t /\ e_prom e = false /\ (length pre <= p)%nat /\
    (forall k, (length pre <= k <= p)%nat -> le3 tol (cost_prefix data k) thr <> No) /\
    (forall k e', (length pre <= k < p)%nat -> nth_error data k = Some e' -> e_prom e' = true).
Proof.
  induction l as [|x rest IH]; intros pre t p Hd H; simpl in H; [discriminate|].
  assert (Hpre : cost_prefix data (length pre) = sum_costs pre + e_cost x).
  { unfold cost_prefix. rewrite Hd, firstn_S_app. apply sum_costs_snoc. }
  destruct (accept (le3 tol (sum_costs pre + e_cost x) thr) b) eqn:Ea; simpl in H; [|discriminate].
  destruct (e_prom x) eqn:Ep; simpl in H.
  - assert (Hd' : data = (pre ++ [x]) ++ rest) by (rewrite <- app_assoc; exact Hd).
    rewrite <- sum_costs_snoc in H.
    replace (S (length pre)) with (length (pre ++ [x])) in H by (rewrite app_length; simpl; lia).
    destruct (IH _ _ _ Hd' H) as [e [Hn [Hid [Hp [Hle [Hk Hb]]]]]].
    rewrite app_length in *; simpl in *.
    exists e. repeat split; auto; try lia.
    + intros k Hk'. destruct (Nat.eq_dec k (length pre)) as [->|Hne].
      * rewrite Hpre. eapply accept_true; eauto.
      * apply Hk. lia.
    + intros k e' Hk' He'. destruct (Nat.eq_dec k (length pre)) as [->|Hne].
      * rewrite Hd, nth_error_app_mid in He'. inv He'. exact Ep.
      * eapply Hb; eauto. lia.
  - injection H as Ht Hp'. subst t p. exists x.
    split; [rewrite Hd; apply nth_error_app_mid|].
    split; [reflexivity|]. split; [exact Ep|]. split; [lia|]. split.
    + intros k Hk'. assert (Hk2 : k = length pre) by lia. rewrite Hk2, Hpre. eapply accept_true; eauto.
    + intros; lia.
Qed.

Lemma cost_scan_none tol b thr data : forall l pre,
  data = pre ++ l ->
  cost_scan tol b thr l (sum_costs pre) (length pre) = None ->
  forall p e, (length pre <= p)%nat -> nth_error data p = Some e -> e_prom e = false ->
    exists k, (length pre <= k <= p)%nat /\ le3 tol (cost_prefix data k) thr <> Yes.
Proof.
  induction l as [|x rest IH]; intros pre Hd H p e Hp Hn Hprom.
  - rewrite Hd, app_nil_r in Hn. assert (Hlt : (p < length pre)%nat) by (apply nth_error_Some; congruence). lia.
  - simpl in H.
    assert (Hpre : cost_prefix data (length pre) = sum_costs pre + e_cost x).
    { unfold cost_prefix. rewrite Hd, firstn_S_app. apply sum_costs_snoc. }
    destruct (accept (le3 tol (sum_costs pre + e_cost x) thr) b) eqn:Ea; simpl in H.
    + destruct (e_prom x) eqn:Ep; simpl in H; [|discriminate].
      assert (Hd' : data = (pre ++ [x]) ++ rest) by (rewrite <- app_assoc; exact Hd).
      rewrite <- sum_costs_snoc in H.
      replace (S (length pre)) with (length (pre ++ [x])) in H by (rewrite app_length; simpl; lia).
      destruct (Nat.eq_dec p (length pre)) as [->|Hne].
      * rewrite Hd, nth_error_app_mid in Hn. inv Hn. congruence.
      * destruct (IH _ Hd' H p e) as [k [Hk Hle]]; auto.
        { rewrite app_length; simpl; lia. }
        rewrite app_length in Hk; simpl in Hk. exists k. split; [lia|exact Hle].
    + exists (length pre). split; [lia|]. rewrite Hpre. eapply accept_false; eauto.
Qed.

(* what a hit of _find_promotable_trial guarantees: the entry at [pos] is trial [t], satisfies the
   rule (up to Boundary) and is the first admissible entry of the rung *)
Definition hit_ok (cfg : config) (thr0 : list (Z * Q)) (r : rung) (t : Z) (pos : nat) : Prop :=
  exists e, eligible_ok cfg thr0 r pos e /\ e_id e = t /\
    forall pos' e', nth_error (r_data r) pos' = Some e' -> admissible cfg thr0 (r_level r) e' = true ->
      (pos <= pos')%nat.
Definition none_yes (cfg : config) (thr0 : list (Z * Q)) (r : rung) : Prop :=
  forall pos e, ~ eligible_yes cfg thr0 r pos e.

Lemma cost_variant_admissible cfg thr lvl e : c_variant cfg = VCost ->
  admissible cfg thr lvl e = negb (e_prom e).
Proof. unfold admissible. intros ->. apply andb_true_r. Qed.

Lemma find_promotable_sound cfg thr thr0 r b thr' t pos :
  lookup (r_level r) thr = lookup (r_level r) thr0 ->
  find_promotable cfg thr r b = (thr', Some (t, pos)) -> hit_ok cfg thr0 r t pos.
Proof.
  intros Hl H. unfold find_promotable in H.
  assert (Hext : forall e, admissible cfg thr (r_level r) e = admissible cfg thr0 (r_level r) e)
    by (intro; apply admissible_ext; exact Hl).
  destruct (c_variant cfg) eqn:Ev.
  1,2,4: unfold find_promotable_metric in H;
    destruct (quantile (c_mode cfg) r) as [c|] eqn:Eq; [|discriminate];
    destruct (find_first (admissible cfg thr (r_level r)) (r_data r) 0) as [[e p]|] eqn:Ef; [|discriminate];
    destruct (accept (within (c_mode cfg) (c_tol cfg) (e_metric e) c) b) eqn:Ea; [|discriminate];
    injection H as _ Ht Hp; subst t p;
    apply find_first_some in Ef as [k [Hk [Hn [Ha Hb]]]]; simpl in Hk; subst k;
    exists e; (split; [|split; [reflexivity|]]);
    [ split; [exact Hn|]; split; [rewrite <- Hext; exact Ha|];
      unfold rule_ok; rewrite Ev; exists c; split; [exact Eq|]; eapply accept_true; eauto
    | intros pos' e' Hn' Ha'; rewrite <- Hext in Ha';
      destruct (Nat.lt_ge_cases pos' pos) as [Hlt|Hge]; [|exact Hge];
      rewrite (Hb _ _ Hlt Hn') in Ha'; discriminate ].
  (* cost variant *)
  injection H as _ H. unfold find_promotable_cost in H.
  destruct (1 <? length (r_data r))%nat eqn:El; [|discriminate].
  apply (cost_scan_some _ _ _ (r_data r) (r_data r) [] t pos eq_refl) in H.
  destruct H as [e [Hn [Hid [Hp [_ [Hk Hb]]]]]].
  exists e. split; [|split; [exact Hid|]].
  - split; [exact Hn|]. split; [rewrite cost_variant_admissible by exact Ev; rewrite Hp; reflexivity|].
    unfold rule_ok. rewrite Ev. split; [apply Nat.ltb_lt; exact El|].
    intros k Hk'. apply Hk. simpl. lia.
  - intros pos' e' Hn' Ha'. rewrite cost_variant_admissible in Ha' by exact Ev.
    destruct (Nat.lt_ge_cases pos' pos) as [Hlt|Hge]; [|exact Hge].
    rewrite (Hb pos' e') in Ha'; [discriminate| simpl; lia | exact Hn'].
Qed.

Lemma find_promotable_complete cfg thr thr0 r b thr' :
  sorted (c_mode cfg) (r_data r) ->
  lookup (r_level r) thr = lookup (r_level r) thr0 ->
  find_promotable cfg thr r b = (thr', None) -> none_yes cfg thr0 r.
Proof.
  intros Hs Hl H pos e [Hn [Ha Hy]]. unfold find_promotable in H.
  rewrite <- (admissible_ext cfg thr thr0 _ _ Hl) in Ha.
  unfold rule_yes in Hy.
  destruct (c_variant cfg) eqn:Ev.
  1,2,4: destruct Hy as [c [Hq Hw]]; unfold find_promotable_metric in H; rewrite Hq in H;
    destruct (find_first (admissible cfg thr (r_level r)) (r_data r) 0) as [[e0 p0]|] eqn:Ef;
    [ destruct (accept (within (c_mode cfg) (c_tol cfg) (e_metric e0) c) b) eqn:Ea; [discriminate|];
      apply find_first_some in Ef as [k [Hk [Hn0 [Ha0 Hb]]]]; simpl in Hk; subst k;
      apply accept_false in Ea; apply Ea;
      apply (within_mono _ _ (e_metric e)); [|exact Hw];
      destruct (Nat.lt_ge_cases pos p0) as [Hlt|Hge];
      [ rewrite (Hb _ _ Hlt Hn) in Ha; discriminate
      | exact (sorted_nth _ _ _ _ _ _ Hs Hge Hn0 Hn) ]
    | apply find_first_none with (e := e) in Ef; [congruence | eapply nth_error_In; eauto] ].
  (* cost variant *)
  destruct Hy as [Hlen Hy]. injection H as _ H. unfold find_promotable_cost in H.
  apply Nat.ltb_lt in Hlen. rewrite Hlen in H.
  rewrite cost_variant_admissible in Ha by exact Ev.
  destruct (cost_scan_none _ _ _ (r_data r) (r_data r) [] eq_refl H pos e) as [k [Hk Hne]]; auto.
  - simpl; lia.
  - destruct (e_prom e); [discriminate|reflexivity].
  - apply Hne. apply Hy. lia.
Qed.

Lemma find_promotable_frame cfg thr r b l : l <> r_level r ->
  lookup l (fst (find_promotable cfg thr r b)) = lookup l thr.
Proof.
  intro Hne. unfold find_promotable, find_promotable_metric.
  destruct (c_variant cfg) eqn:Ev; simpl; auto;
    destruct (quantile (c_mode cfg) r); simpl; auto;
    destruct (find_first (admissible cfg thr (r_level r)) (r_data r) 0) as [[e p]|]; simpl; auto;
    destruct (accept _ b); simpl; unfold rush_update; rewrite Ev; auto;
    destruct (e_id e <? c_nthr cfg)%Z; auto; apply lookup_update_neq; exact Hne.
Qed.

(* ---- the scan over rungs (on_task_schedule) ---------------------------------- *)
Lemma last_cons_default {A} : forall (l : list A) a d, last (a :: l) d = last l a.
Proof.
  induction l as [|x l IH]; intros a d; [reflexivity|].
  change (last (a :: x :: l) d) with (last (x :: l) d). rewrite !IH. reflexivity.
Qed.

Lemma scan_spec cfg cap b thr0 : forall rungs j next thr,
  (forall r, In r rungs -> lookup (r_level r) thr = lookup (r_level r) thr0) ->
  NoDup (map r_level rungs) ->
  Forall (fun r => sorted (c_mode cfg) (r_data r)) rungs ->
  match scan cfg cap b rungs j next thr with
  | (_, Some (j', t, pos, level, nxt)) =>
      exists pre r post, rungs = pre ++ r :: post /\ j' = (j + length pre)%nat /\ level = r_level r /\
        (r_level r < cap)%Z /\ nxt = last (map r_level pre) next /\ hit_ok cfg thr0 r t pos /\
        forall r', In r' pre -> (r_level r' < cap)%Z -> none_yes cfg thr0 r'
  | (_, None) => forall r', In r' rungs -> (r_level r' < cap)%Z -> none_yes cfg thr0 r'
  end.
Proof.
  induction rungs as [|r rest IH]; intros j next thr Hl Hnd Hs; simpl.
  - intros r' [].
  - inv Hnd. inv Hs.
    assert (Hl_r : lookup (r_level r) thr = lookup (r_level r) thr0) by (apply Hl; left; reflexivity).
    destruct (r_level r <? cap)%Z eqn:Ec.
    + destruct (find_promotable cfg thr r (bres_at b (r_level r))) as [thr' res] eqn:Ef.
      destruct res as [[t pos]|].
      * exists [], r, rest. simpl.
        split; [reflexivity|]. split; [lia|]. split; [reflexivity|]. split; [lia|]. split; [reflexivity|].
        split; [eapply find_promotable_sound; eauto|]. intros r' [].
      * assert (Hl' : forall r2, In r2 rest -> lookup (r_level r2) thr' = lookup (r_level r2) thr0).
        { intros r2 Hin. rewrite <- (Hl r2) by (right; exact Hin).
          replace thr' with (fst (find_promotable cfg thr r (bres_at b (r_level r)))) by (rewrite Ef; reflexivity).
          apply find_promotable_frame. intro Heq. apply H1. rewrite <- Heq. apply in_map. exact Hin. }
        specialize (IH (S j) (r_level r) thr' Hl' H2 H4).
        assert (Hr : none_yes cfg thr0 r) by (eapply find_promotable_complete; eauto).
        destruct (scan cfg cap b rest (S j) (r_level r) thr') as [thr2 [[[[[j' t] pos] level] nxt]|]].
        -- destruct IH as [pre [r1 [post [Hrest [Hj [Hlev [Hcap [Hnxt [Hhit Hpre]]]]]]]]].
           exists (r :: pre), r1, post. subst rest. simpl length.
           split; [reflexivity|]. split; [lia|]. split; [exact Hlev|]. split; [exact Hcap|].
           split; [change (map r_level (r :: pre)) with (r_level r :: map r_level pre);
                   rewrite last_cons_default; exact Hnxt|].
           split; [exact Hhit|]. intros r' [<-|Hin] Hc; auto.
        -- intros r' [<-|Hin] Hc; auto.
    + assert (Hl' : forall r2, In r2 rest -> lookup (r_level r2) thr = lookup (r_level r2) thr0)
        by (intros; apply Hl; right; assumption).
      specialize (IH (S j) (r_level r) thr Hl' H2 H4).
      destruct (scan cfg cap b rest (S j) (r_level r) thr) as [thr2 [[[[[j' t] pos] level] nxt]|]].
      * destruct IH as [pre [r1 [post [Hrest [Hj [Hlev [Hcap [Hnxt [Hhit Hpre]]]]]]]]].
        exists (r :: pre), r1, post. subst rest. simpl length.
        split; [reflexivity|]. split; [lia|]. split; [exact Hlev|]. split; [exact Hcap|].
        split; [change (map r_level (r :: pre)) with (r_level r :: map r_level pre);
                rewrite last_cons_default; exact Hnxt|].
        split; [exact Hhit|]. intros r' [<-|Hin] Hc; [lia|auto].
      * intros r' [<-|Hin] Hc; [lia|auto].
Qed.

(* ---- how the rung systems of a state evolve ------------------------------------ *)
Inductive rs_trans (cfg : config) : rsys -> rsys -> Prop :=
| T_refl rs : rs_trans cfg rs rs
| T_sched rs b rs' p : rs_on_task_schedule cfg rs b = Ok (rs', p) -> rs_trans cfg rs rs'
| T_remove rs t : rs_trans cfg rs (rs_on_task_remove rs t)
| T_add_new rs t skip : rs_trans cfg rs (rs_on_task_add_new cfg rs t skip)
| T_add_resumed rs t ms rf rs' : rs_on_task_add_resumed rs t ms rf = Ok rs' -> rs_trans cfg rs rs'
| T_report rs t r m c eps rs' info :
    rs_on_task_report cfg rs t r m c eps = Ok (rs', info) -> rs_trans cfg rs rs'
| T_trans a b c : rs_trans cfg a b -> rs_trans cfg b c -> rs_trans cfg a c.

Definition sys_rel (cfg : config) (sys sys' : list rsys) : Prop :=
  length sys' = length sys /\
  forall s rs', nth_error sys' s = Some rs' -> exists rs, nth_error sys s = Some rs /\ rs_trans cfg rs rs'.

Lemma sys_rel_refl cfg sys : sys_rel cfg sys sys.
Proof. split; [reflexivity|]. intros s rs' H. exists rs'. split; [exact H|constructor]. Qed.

Lemma sys_rel_trans cfg a b c : sys_rel cfg a b -> sys_rel cfg b c -> sys_rel cfg a c.
Proof.
  intros [L1 H1] [L2 H2]. split; [congruence|]. intros s rs' H.
  destruct (H2 _ _ H) as [rs1 [Hb Ht1]]. destruct (H1 _ _ Hb) as [rs0 [Ha Ht0]].
  exists rs0. split; [exact Ha|]. eapply T_trans; eauto.
Qed.

Lemma sys_rel_set_nth cfg sys s rs rs' : nth_error sys s = Some rs -> rs_trans cfg rs rs' ->
  sys_rel cfg sys (set_nth s rs' sys).
Proof.
  intros Hn Ht. split; [apply set_nth_length|]. intros s' r' H.
  destruct (Nat.eq_dec s s') as [<-|Hne].
  - rewrite (nth_error_set_nth_eq _ _ _ _ Hn) in H. inv H. eauto.
  - rewrite nth_error_set_nth_neq in H by exact Hne. exists r'. split; [exact H|constructor].
Qed.

Lemma cleanup_sys_rel cfg st t d : sys_rel cfg (st_sys st) (st_sys (cleanup cfg st t d)).
Proof.
  unfold cleanup. destruct (lookup t (st_task st)) as [br|]; simpl; [|apply sys_rel_refl].
  destruct (nth_error (st_sys st) (fst (sys_of cfg br))) as [rs|] eqn:E; simpl; [|apply sys_rel_refl].
  eapply sys_rel_set_nth; eauto. constructor.
Qed.

Lemma suggest_sys_rel cfg st n br b got st' o :
  suggest cfg st n br b got = Ok (st', o) -> sys_rel cfg (st_sys st) (st_sys st').
Proof.
  unfold suggest. intro H. destruct (sys_of cfg br) as [sid skip].
  destruct (nth_error (st_sys st) sid) as [rs|] eqn:En; [|discriminate].
  destruct (rs_on_task_schedule cfg rs b) as [[rs1 [[[[j t] rf] ms]|]]|] eqn:Es; [| |discriminate].
  - destruct (rs_on_task_add_resumed rs1 t ms rf) as [rs2|] eqn:Ea; [|discriminate].
    destruct (lookup t (st_active st)); [|discriminate].
    destruct (decision_eqb (ti_dec t0) CONTINUE); [discriminate|]. inv H. simpl.
    eapply sys_rel_set_nth; eauto. eapply T_trans; [eapply T_sched; eauto|eapply T_add_resumed; eauto].
  - destruct (negb got).
    + inv H. simpl. eapply sys_rel_set_nth; eauto. eapply T_sched; eauto.
    + destruct (lookup n (st_active st)); [discriminate|]. inv H. simpl.
      eapply sys_rel_set_nth; eauto. eapply T_trans; [eapply T_sched; eauto|]. constructor.
Qed.

Lemma on_trial_result_sys_rel cfg st t r m c eps st' d :
  on_trial_result cfg st t r m c eps = Ok (st', d) -> sys_rel cfg (st_sys st) (st_sys st').
Proof.
  unfold on_trial_result. intro H.
  destruct (r <? 1)%Z; [discriminate|].
  destruct (lookup t (st_active st)) as [ti|]; [|discriminate].
  destruct (negb (decision_eqb (ti_dec ti) CONTINUE)); [inv H; apply sys_rel_refl|].
  destruct (lookup t (st_task st)) as [br|]; [|discriminate].
  destruct (nth_error (st_sys st) (fst (sys_of cfg br))) as [rs|] eqn:En; [|discriminate].
  match type of H with context [match ?X with Ok _ => _ | Err _ => _ end] =>
    assert (Hrep : forall rs' info, X = Ok (rs', info) -> rs_trans cfg rs rs') end.
  { intros rs' info Hx. destruct (r <? c_max_t cfg)%Z; [eapply T_report; eauto | inv Hx; constructor]. }
  match type of H with context [match ?X with Ok _ => _ | Err _ => _ end] =>
    destruct X as [[rs' info]|] eqn:Ex; [|discriminate] end.
  specialize (Hrep _ _ eq_refl).
  assert (Hsys : sys_rel cfg (st_sys st) (set_nth (fst (sys_of cfg br)) rs' (st_sys st)))
    by (eapply sys_rel_set_nth; eauto).
  repeat (break_in H; try discriminate); inv H; simpl; try exact Hsys;
    (eapply sys_rel_trans; [exact Hsys|]; apply (cleanup_sys_rel cfg (mkS _ _ _ _))).
Qed.

Lemma step_sys_rel cfg st ev st' o : step cfg st ev = Ok (st', o) -> sys_rel cfg (st_sys st) (st_sys st').
Proof.
  destruct ev; simpl; intro H.
  - eapply suggest_sys_rel; eauto.
  - inv H. apply sys_rel_refl.
  - destruct (on_trial_result cfg st t resource metric cost eps) as [[st1 d]|] eqn:E; [|discriminate].
    inv H. eapply on_trial_result_sys_rel; eauto.
  - inv H. apply cleanup_sys_rel.
  - destruct (lookup t (st_active st)); [|discriminate]. inv H. apply cleanup_sys_rel.
  - inv H. apply cleanup_sys_rel.
Qed.

Lemma run_from_sys_rel cfg : forall evs st st' os,
  run_from cfg st evs = Ok (st', os) -> sys_rel cfg (st_sys st) (st_sys st').
Proof.
  induction evs as [|ev evs IH]; intros st st' os H; simpl in H.
  - inv H. apply sys_rel_refl.
  - destruct (step cfg st ev) as [[st1 o]|] eqn:Es; [|discriminate].
    destruct (run_from cfg st1 evs) as [[st2 os2]|] eqn:Er; [|discriminate]. inv H.
    eapply sys_rel_trans; [eapply step_sys_rel; eauto | eapply IH; eauto].
Qed.

(* ---- shape of the atomic rung-system transitions --------------------------------- *)
Definition promoted_rung (md : mode) (r : rung) (pos : nat) (e : entry) : rung :=
  mkR (r_level r) (r_q r) (insert md (set_prom e) (remove_nth pos (r_data r))).
Definition added_rung (md : mode) (r : rung) (e : entry) : rung :=
  mkR (r_level r) (r_q r) (insert md e (r_data r)).

Lemma sched_shape cfg rs b rs' p : rs_on_task_schedule cfg rs b = Ok (rs', p) ->
  rs_running rs' = rs_running rs /\ rs_idx rs' = rs_idx rs /\ rs_cap rs' = rs_cap rs /\
  ((p = None /\ rs_rungs rs' = rs_rungs rs /\
    exists thr', scan cfg (eff_max cfg rs) b (rs_rungs rs) 0 (c_max_t cfg) (rs_thr rs) = (thr', None)) \/
   exists j t from nxt pos r e thr',
     p = Some (j, t, from, nxt) /\
     scan cfg (eff_max cfg rs) b (rs_rungs rs) 0 (c_max_t cfg) (rs_thr rs) = (thr', Some (j, t, pos, from, nxt)) /\
     nth_error (rs_rungs rs) j = Some r /\ nth_error (r_data r) pos = Some e /\ e_prom e = false /\
     rs_rungs rs' = set_nth j (promoted_rung (c_mode cfg) r pos e) (rs_rungs rs)).
Proof.
  unfold rs_on_task_schedule. intro H.
  destruct (scan cfg (eff_max cfg rs) b (rs_rungs rs) 0 (c_max_t cfg) (rs_thr rs))
    as [thr' [[[[[j t] pos] level] nxt]|]] eqn:Es.
  - destruct (nth_error (rs_rungs rs) j) as [r|] eqn:En; [|discriminate].
    unfold mark_as_promoted in H. destruct (nth_error (r_data r) pos) as [e|] eqn:Ee; [|discriminate].
    destruct (e_prom e) eqn:Ep; [discriminate|]. inv H. simpl.
    repeat split; auto. right. exists j, t, level, nxt, pos, r, e, thr'. repeat split; auto.
  - inv H. simpl. repeat split; auto. left. repeat split; auto. eauto.
Qed.

Lemma rung_pos_spec level : forall l i p, rung_pos level l i = Some p ->
  exists k rg, p = (i + k)%nat /\ nth_error l k = Some rg /\ r_level rg = level.
Proof.
  induction l as [|x l IH]; intros i p H; simpl in H; [discriminate|].
  destruct (r_level x =? level)%Z eqn:E.
  - inv H. exists 0%nat, x. repeat split; [lia|lia].
  - apply IH in H as [k [rg [-> [Hn Hl]]]]. exists (S k), rg. repeat split; auto. lia.
Qed.

Lemma promo_report_shape cfg rs t r m c rs' info : promo_on_task_report cfg rs t r m c = Ok (rs', info) ->
  rs_running rs' = rs_running rs /\ rs_thr rs' = rs_thr rs /\ rs_idx rs' = rs_idx rs /\ rs_cap rs' = rs_cap rs /\
  (rs_rungs rs' = rs_rungs rs \/
   exists p rg, nth_error (rs_rungs rs) p = Some rg /\ in_rung t rg = false /\ r_level rg = r /\
     ri_reached info = true /\
     rs_rungs rs' = set_nth p (added_rung (c_mode cfg) rg (mkE t m c false)) (rs_rungs rs)).
Proof.
  unfold promo_on_task_report. intro H.
  destruct (lookup t (rs_running rs)) as [[ms rf]|]; [|discriminate].
  destruct (ms <=? r)%Z; [|inv H; repeat split; auto].
  destruct (negb (r =? ms)%Z) eqn:Eeq; [discriminate|].
  assert (r = ms) by (destruct (r =? ms)%Z eqn:E; [lia|discriminate]). subst ms.
  destruct (rung_pos r (rs_rungs rs) 0) as [p|] eqn:Ep; [|inv H; repeat split; auto].
  destruct (nth_error (rs_rungs rs) p) as [rg|] eqn:En; [|discriminate].
  destruct (in_rung t rg) eqn:Ein; [discriminate|]. inv H. simpl.
  repeat split; auto. right. exists p, rg. repeat split; auto.
  apply rung_pos_spec in Ep as [k [rg' [Hk [Hn Hl]]]]. simpl in Hk. subst k. congruence.
Qed.

Lemma update_epsilon_fields rs orc rs2 : update_epsilon rs orc = Ok rs2 ->
  rs_rungs rs2 = rs_rungs rs /\ rs_running rs2 = rs_running rs /\ rs_thr rs2 = rs_thr rs /\
  rs_idx rs2 = rs_idx rs /\ rs_cap rs2 = rs_cap rs.
Proof.
  unfold update_epsilon. intro H. destruct (noisy_distances rs orc) as [[[|d ds]|e]|]; inv H; repeat split; reflexivity.
Qed.

Lemma raise_cap_fields cfg rs rs3 : pasha_raise_cap cfg rs = Ok rs3 ->
  rs_rungs rs3 = rs_rungs rs /\ rs_running rs3 = rs_running rs /\ rs_thr rs3 = rs_thr rs.
Proof.
  unfold pasha_raise_cap. intro H. destruct (rs_idx rs <? length (rs_rungs rs))%nat.
  - destruct (py_nth (rs_levels rs) (Z.of_nat (S (rs_idx rs)) - 1)); inv H. repeat split; reflexivity.
  - inv H. repeat split; reflexivity.
Qed.

(* what the PASHA part of on_task_report does after the superclass call: rs1 -> (epsilon) rs2 -> rs3 *)
Lemma pasha_after_inv cfg rs1 t r m orc rs3 : pasha_after_report cfg rs1 t r m orc = Ok rs3 ->
  exists rs2, update_epsilon (set_hist rs1 (add_result (rs_hist rs1) t r m)) orc = Ok rs2 /\
    rs_rungs rs2 = rs_rungs rs1 /\ rs_running rs2 = rs_running rs1 /\ rs_thr rs2 = rs_thr rs1 /\
    rs_idx rs2 = rs_idx rs1 /\ rs_cap rs2 = rs_cap rs1 /\
    ((pasha_increase cfg rs2 (h_eps (rs_hist rs2)) = true /\ pasha_raise_cap cfg rs2 = Ok rs3) \/
     (pasha_increase cfg rs2 (h_eps (rs_hist rs2)) = false /\ rs3 = rs2)).
Proof.
  unfold pasha_after_report. intro H.
  destruct (update_epsilon (set_hist rs1 (add_result (rs_hist rs1) t r m)) orc) as [rs2|] eqn:Eu; [|discriminate].
  exists rs2. split; [reflexivity|].
  apply update_epsilon_fields in Eu as [H1 [H2 [H3 [H4 H5]]]]. simpl in *.
  repeat (split; [assumption|]).
  destruct (pasha_increase cfg rs2 (h_eps (rs_hist rs2))); [left|right; inv H]; auto.
Qed.

Lemma report_shape cfg rs t r m c eps rs' info : rs_on_task_report cfg rs t r m c eps = Ok (rs', info) ->
  exists rs1, promo_on_task_report cfg rs t r m c = Ok (rs1, info) /\
    rs_rungs rs' = rs_rungs rs1 /\ rs_running rs' = rs_running rs1 /\ rs_thr rs' = rs_thr rs1 /\
    (c_variant cfg <> VPasha -> rs' = rs1).
Proof.
  unfold rs_on_task_report, pasha_on_task_report. intro H.
  destruct (c_variant cfg) eqn:Ev; try (exists rs'; repeat split; auto; fail).
  destruct (promo_on_task_report cfg rs t r m c) as [[rs1 info1]|]; [|discriminate].
  destruct (pasha_after_report cfg rs1 t r m eps) as [rs3|] eqn:Ea; [|discriminate]. inv H.
  exists rs1. split; [reflexivity|].
  apply pasha_after_inv in Ea as [rs2 [_ [H1 [H2 [H3 [_ [_ [[_ Hr]|[_ ->]]]]]]]]].
  - apply raise_cap_fields in Hr as [G1 [G2 G3]]. repeat split; congruence.
  - repeat split; congruence.
Qed.

(* ---- invariant A: rung levels are static, rung data stays sorted ------------------- *)
Definition rs_wf (cfg : config) (lv : list Z) (rs : rsys) : Prop :=
  map r_level (rs_rungs rs) = lv /\ Forall (fun r => sorted (c_mode cfg) (r_data r)) (rs_rungs rs).

Lemma Forall_set_nth {A} (P : A -> Prop) : forall l n x, Forall P l -> P x -> Forall P (set_nth n x l).
Proof.
  induction l as [|a l IH]; intros [|n] x Hl Hx; simpl; auto; inv Hl; constructor; auto.
Qed.
Lemma Forall_nth_error {A} (P : A -> Prop) l n x : Forall P l -> nth_error l n = Some x -> P x.
Proof. intros H Hn. rewrite Forall_forall in H. apply H. eapply nth_error_In; eauto. Qed.

Lemma rs_trans_wf cfg lv rs rs' : rs_trans cfg rs rs' -> rs_wf cfg lv rs -> rs_wf cfg lv rs'.
Proof.
  intro Ht. induction Ht as [rs|rs b rs' p H|rs t|rs t skip|rs t ms rf rs' H|rs t r m c eps rs' info H|a b c H1 IH1 H2 IH2];
    intros [Hl Hs]; [split; auto| | | | | |apply IH2; apply IH1; split; auto].
  - apply sched_shape in H as [_ [_ [_ [[_ [Hr _]]|[j [t [from [nxt [pos [r [e [thr' [_ [_ [Hn [He [_ Hr]]]]]]]]]]]]]]]]].
    + split; rewrite Hr; auto.
    + split; rewrite Hr.
      * rewrite <- Hl. eapply map_set_nth; eauto.
      * apply Forall_set_nth; auto. simpl. apply insert_sorted. apply remove_nth_sorted.
        eapply (Forall_nth_error _ _ _ _ Hs Hn).
  - split; auto.
  - split; auto.
  - unfold rs_on_task_add_resumed in H. destruct (rf <? ms)%Z; inv H. split; auto.
  - apply report_shape in H as [rs1 [Hp [Hr _]]].
    apply promo_report_shape in Hp as [_ [_ [_ [_ [Hr1|[p [rg [Hn [_ [_ [_ Hr1]]]]]]]]]]].
    + split; rewrite Hr, Hr1; auto.
    + split; rewrite Hr, Hr1.
      * rewrite <- Hl. eapply map_set_nth; eauto.
      * apply Forall_set_nth; auto. simpl. apply insert_sorted. eapply (Forall_nth_error _ _ _ _ Hs Hn).
Qed.

Definition static_levels (cfg : config) (s : nat) : list Z := rev (map fst (skipn s (c_rungs cfg))).

Lemma nth_error_map_seq {A} (f : nat -> A) : forall n a s x,
  nth_error (map f (seq a n)) s = Some x -> x = f (a + s)%nat /\ (s < n)%nat.
Proof.
  induction n as [|n IH]; intros a [|s] x H; simpl in *; try discriminate.
  - inv H. split; [f_equal; lia|lia].
  - apply IH in H as [-> Hs]. split; [f_equal; lia|lia].
Qed.

Lemma init_sys cfg s rs : nth_error (st_sys (init cfg)) s = Some rs ->
  rs = mk_sys cfg (skipn s (c_rungs cfg)) /\ (s < num_systems cfg)%nat.
Proof. simpl. intro H. apply nth_error_map_seq in H. simpl in H. exact H. Qed.

Lemma mk_sys_wf cfg lv : rs_wf cfg (rev (map fst lv)) (mk_sys cfg lv).
Proof.
  unfold mk_sys, rs_wf. simpl. split.
  - rewrite map_rev, map_map. reflexivity.
  - apply Forall_rev. apply Forall_forall. intros r Hr. apply in_map_iff in Hr as [p [<- _]]. simpl. constructor.
Qed.

(* a reachable rung system is related to its initial version *)
Lemma reach_sys cfg evs st os s rs : run cfg evs = Ok (st, os) -> nth_error (st_sys st) s = Some rs ->
  (s < num_systems cfg)%nat /\ rs_trans cfg (mk_sys cfg (skipn s (c_rungs cfg))) rs.
Proof.
  intros Hrun Hn. apply run_from_sys_rel in Hrun as [_ Hrel].
  destruct (Hrel _ _ Hn) as [rs0 [H0 Ht]]. apply init_sys in H0 as [-> Hs]. auto.
Qed.

Lemma reach_wf cfg evs st os s rs : run cfg evs = Ok (st, os) -> nth_error (st_sys st) s = Some rs ->
  rs_wf cfg (static_levels cfg s) rs.
Proof.
  intros Hrun Hn. destruct (reach_sys _ _ _ _ _ _ Hrun Hn) as [_ Ht].
  eapply rs_trans_wf; eauto. apply mk_sys_wf.
Qed.

(* configuration: rung levels strictly increasing and below max_t *)
Definition cfg_wf (cfg : config) : Prop :=
  StronglySorted Z.lt (c_levels cfg) /\ Forall (fun l => (l < c_max_t cfg)%Z) (c_levels cfg).

Lemma sorted_lt_skipn : forall (l : list Z) s, StronglySorted Z.lt l -> StronglySorted Z.lt (skipn s l).
Proof.
  induction l as [|a l IH]; intros [|s] H; simpl; auto. inv H. auto.
Qed.
Lemma sorted_lt_nodup : forall l : list Z, StronglySorted Z.lt l -> NoDup l.
Proof.
  induction 1; constructor; auto. intro Hin. rewrite Forall_forall in H0. apply H0 in Hin. lia.
Qed.
Lemma map_fst_skipn {A B} : forall (l : list (A * B)) s, map fst (skipn s l) = skipn s (map fst l).
Proof. induction l as [|a l IH]; intros [|s]; simpl; auto. Qed.

Lemma static_levels_nodup cfg s : cfg_wf cfg -> NoDup (static_levels cfg s).
Proof.
  intros [Hs _]. unfold static_levels. apply NoDup_rev. rewrite map_fst_skipn.
  apply sorted_lt_nodup. apply sorted_lt_skipn. exact Hs.
Qed.

(* ---- C04 eligibility -------------------------------------------------------------- *)
(* the level a trial promoted from rung position j runs to *)
Definition next_above (cfg : config) (rungs : list rung) (j : nat) : Z :=
  match j with
  | O => c_max_t cfg
  | S j' => match nth_error rungs j' with Some r => r_level r | None => c_max_t cfg end
  end.

Lemma last_pre_next_above cfg : forall (pre : list rung) r post,
  last (map r_level pre) (c_max_t cfg) = next_above cfg (pre ++ r :: post) (length pre).
Proof.
  intros pre r post. destruct pre as [|a pre0] using rev_ind; [reflexivity|].
  rewrite map_app. simpl map. rewrite last_last. rewrite app_length. simpl length.
  rewrite Nat.add_1_r. simpl. rewrite <- app_assoc. simpl. rewrite nth_error_app_mid. reflexivity.
Qed.

Lemma eligibility_sound cfg evs st os n br b got st' t mra s j from nxt :
  cfg_wf cfg -> run cfg evs = Ok (st, os) ->
  suggest cfg st n br b got = Ok (st', OResume t mra s j from nxt) ->
  exists rs r pos e,
    s = fst (sys_of cfg br) /\ nth_error (st_sys st) s = Some rs /\ nth_error (rs_rungs rs) j = Some r /\
    r_level r = from /\ (from < eff_max cfg rs)%Z /\
    eligible_ok cfg (rs_thr rs) r pos e /\ e_id e = t /\ e_prom e = false /\
    (forall e', In e' (r_data r) -> admissible cfg (rs_thr rs) from e' = true ->
                better_lt (c_mode cfg) (e_metric e') (e_metric e) = false) /\
    (forall j' r', (j' < j)%nat -> nth_error (rs_rungs rs) j' = Some r' ->
                   (r_level r' < eff_max cfg rs)%Z -> none_yes cfg (rs_thr rs) r') /\
    nxt = next_above cfg (rs_rungs rs) j /\ mra = (if c_mra cfg then Some nxt else None).
Proof.
  intros Hcfg Hrun H. unfold suggest in H. destruct (sys_of cfg br) as [sid skip] eqn:Esys.
  destruct (nth_error (st_sys st) sid) as [rs|] eqn:En; [|discriminate].
  destruct (rs_on_task_schedule cfg rs b) as [[rs1 [[[[j0 t0] rf] ms]|]]|] eqn:Es; [| |discriminate].
  2: { destruct (negb got); [inv H|]. destruct (lookup n (st_active st)); inv H. }
  unfold rs_on_task_add_resumed in H. destruct (rf <? ms)%Z; [|discriminate].
  destruct (lookup t0 (st_active st)) as [ti|]; [|discriminate].
  destruct (decision_eqb (ti_dec ti) CONTINUE); [discriminate|]. inv H.
  destruct (reach_wf _ _ _ _ _ _ Hrun En) as [Hlv Hsorted].
  assert (Hnd : NoDup (map r_level (rs_rungs rs))) by (rewrite Hlv; apply static_levels_nodup; exact Hcfg).
  apply sched_shape in Es as [_ [_ [_ [[Hp _]|[j1 [t1 [from1 [nxt1 [pos [r [e [thr' [Hp [Hscan [Hnj [Hne [Hprom _]]]]]]]]]]]]]]]]];
    [discriminate|]. inv Hp.
  pose proof (scan_spec cfg (eff_max cfg rs) b (rs_thr rs) (rs_rungs rs) 0 (c_max_t cfg) (rs_thr rs)
                (fun _ _ => eq_refl) Hnd Hsorted) as Hspec.
  rewrite Hscan in Hspec.
  destruct Hspec as [pre [r1 [post [Hrungs [Hj [Hlev [Hcap [Hnxt [Hhit Hpre]]]]]]]]].
  simpl in Hj. subst.
  assert (r1 = r) by (rewrite Hrungs, nth_error_app_mid in Hnj; congruence). subst r1.
  destruct Hhit as [e1 [Hel [Hid Hfirst]]].
  assert (Hel' := Hel). destruct Hel' as [Hn1 [Ha1 _]].
  exists rs, r, pos, e1. simpl.
  split; [reflexivity|]. split; [exact En|]. split; [exact Hnj|]. split; [auto|].
  split; [exact Hcap|]. split; [exact Hel|]. split; [exact Hid|].
  split; [eapply admissible_unprom; eauto|]. split; [|split; [|split]].
  - intros e' Hin Ha'. apply In_nth_error in Hin as [pos' Hn'].
    specialize (Hfirst _ _ Hn' Ha').
    exact (sorted_nth _ _ _ _ _ _ (Forall_nth_error _ _ _ _ Hsorted Hnj) Hfirst Hn1 Hn').
  - intros j' r' Hj' Hn' Hc. apply Hpre; [|exact Hc].
    rewrite Hrungs in Hn'. rewrite nth_error_app1 in Hn' by exact Hj'. eapply nth_error_In; eauto.
  - rewrite Hrungs. apply last_pre_next_above.
  - reflexivity.
Qed.

Lemma eligibility_complete cfg evs st os n br b got st' o :
  cfg_wf cfg -> run cfg evs = Ok (st, os) ->
  suggest cfg st n br b got = Ok (st', o) ->
  (forall t mra s j from nxt, o <> OResume t mra s j from nxt) ->
  forall rs r, nth_error (st_sys st) (fst (sys_of cfg br)) = Some rs -> In r (rs_rungs rs) ->
    (r_level r < eff_max cfg rs)%Z -> none_yes cfg (rs_thr rs) r.
Proof.
  intros Hcfg Hrun H Hno rs r En Hin Hc. unfold suggest in H.
  destruct (sys_of cfg br) as [sid skip] eqn:Esys. simpl in En. rewrite En in H.
  destruct (rs_on_task_schedule cfg rs b) as [[rs1 [[[[j0 t0] rf] ms]|]]|] eqn:Es; [| |discriminate].
  { unfold rs_on_task_add_resumed in H. destruct (rf <? ms)%Z; [|discriminate].
    destruct (lookup t0 (st_active st)) as [ti|]; [|discriminate].
    destruct (decision_eqb (ti_dec ti) CONTINUE); [discriminate|]. inv H. exfalso. eapply Hno; eauto. }
  destruct (reach_wf _ _ _ _ _ _ Hrun En) as [Hlv Hsorted].
  assert (Hnd : NoDup (map r_level (rs_rungs rs))) by (rewrite Hlv; apply static_levels_nodup; exact Hcfg).
  apply sched_shape in Es as [_ [_ [_ [[_ [_ [thr' Hscan]]]|[j1 [t1 [from1 [nxt1 [pos [r1 [e [thr' [Hp _]]]]]]]]]]]]];
    [|discriminate].
  pose proof (scan_spec cfg (eff_max cfg rs) b (rs_thr rs) (rs_rungs rs) 0 (c_max_t cfg) (rs_thr rs)
                (fun _ _ => eq_refl) Hnd Hsorted) as Hspec.
  rewrite Hscan in Hspec. apply Hspec; auto.
Qed.

(* ---- resource cap -------------------------------------------------------------------- *)
Lemma ss_snoc {A} (R : A -> A -> Prop) : forall l a, StronglySorted R l -> Forall (fun x => R x a) l ->
  StronglySorted R (l ++ [a]).
Proof.
  induction l as [|x l IH]; intros a Hs Hf; simpl.
  - constructor; constructor.
  - inv Hs. inv Hf. constructor; [apply IH; assumption|].
    apply Forall_app. split; [assumption|constructor; [assumption|constructor]].
Qed.

Lemma ss_rev_gt : forall l : list Z, StronglySorted Z.lt l -> StronglySorted Z.gt (rev l).
Proof.
  induction 1; simpl; [constructor|]. apply ss_snoc; [assumption|].
  apply Forall_rev. rewrite Forall_forall in *. intros x Hx. apply H0 in Hx. lia.
Qed.

Lemma ss_gt_nth : forall (l : list Z) i j x y, StronglySorted Z.gt l -> (i < j)%nat ->
  nth_error l i = Some x -> nth_error l j = Some y -> (y < x)%Z.
Proof.
  induction l as [|a l IH]; intros [|i] [|j] x y Hs Hij Hx Hy; simpl in *; try discriminate; try lia.
  - inv Hx. inv Hs. rewrite Forall_forall in H2. apply nth_error_In in Hy. apply H2 in Hy. lia.
  - inv Hs. apply (IH i j x y); auto. lia.
Qed.

Lemma In_skipn {A} : forall (l : list A) s x, In x (skipn s l) -> In x l.
Proof. induction l as [|a l IH]; intros [|s] x H; simpl in *; auto. right. eauto. Qed.

Lemma static_levels_in cfg s x : In x (static_levels cfg s) -> In x (c_levels cfg).
Proof.
  unfold static_levels, c_levels. intro H. apply in_rev in H. rewrite map_fst_skipn in H.
  eapply In_skipn; eauto.
Qed.

Lemma static_levels_desc cfg s : cfg_wf cfg -> StronglySorted Z.gt (static_levels cfg s).
Proof.
  intros [Hs _]. unfold static_levels. apply ss_rev_gt. rewrite map_fst_skipn. apply sorted_lt_skipn. exact Hs.
Qed.

Definition is_level (cfg : config) (v : Z) : Prop := In v (c_levels cfg) \/ v = c_max_t cfg.

Lemma is_level_le cfg v : cfg_wf cfg -> is_level cfg v -> (v <= c_max_t cfg)%Z.
Proof.
  intros [_ Hf] [Hin| ->]; [|lia]. rewrite Forall_forall in Hf. apply Hf in Hin. lia.
Qed.

Lemma first_milestone_level cfg s rs skip : rs_wf cfg (static_levels cfg s) rs ->
  is_level cfg (first_milestone cfg rs skip).
Proof.
  intros [Hl _]. unfold first_milestone.
  destruct (skip <? length (rs_rungs rs))%nat; [|right; reflexivity].
  destruct (nth_error (rs_rungs rs) (length (rs_rungs rs) - (skip + 1))) as [r|] eqn:E; [|right; reflexivity].
  left. eapply static_levels_in. rewrite <- Hl. apply in_map. eapply nth_error_In; eauto.
Qed.

Lemma next_above_level cfg s rs j : rs_wf cfg (static_levels cfg s) rs ->
  is_level cfg (next_above cfg (rs_rungs rs) j).
Proof.
  intros [Hl _]. unfold next_above. destruct j as [|j']; [right; reflexivity|].
  destruct (nth_error (rs_rungs rs) j') as [r|] eqn:E; [|right; reflexivity].
  left. eapply static_levels_in. rewrite <- Hl. apply in_map. eapply nth_error_In; eauto.
Qed.

(* every config[max_resource_attr] handed out is a rung level or max_t, and <= max_t *)
Lemma resource_cap cfg evs st os n br b got st' o v :
  cfg_wf cfg -> run cfg evs = Ok (st, os) -> suggest cfg st n br b got = Ok (st', o) ->
  (exists t, o = OStart t (Some v)) \/ (exists t s j from nxt, o = OResume t (Some v) s j from nxt) ->
  is_level cfg v /\ (v <= c_max_t cfg)%Z.
Proof.
  intros Hcfg Hrun H Ho.
  assert (Hlev : is_level cfg v); [|split; [exact Hlev|apply is_level_le; assumption]].
  destruct Ho as [[t ->]|[t [s [j [from [nxt ->]]]]]].
  - unfold suggest in H. destruct (sys_of cfg br) as [sid skip].
    destruct (nth_error (st_sys st) sid) as [rs|] eqn:En; [|discriminate].
    destruct (rs_on_task_schedule cfg rs b) as [[rs1 [[[[j0 t0] rf] ms]|]]|] eqn:Es; [| |discriminate].
    + destruct (rs_on_task_add_resumed rs1 t0 ms rf); [|discriminate].
      destruct (lookup t0 (st_active st)); [|discriminate].
      destruct (decision_eqb (ti_dec t1) CONTINUE); inv H.
    + destruct (negb got); [inv H|]. destruct (lookup n (st_active st)); [discriminate|].
      injection H as _ _ Hm. destruct (c_mra cfg); [|discriminate]. injection Hm as <-.
      eapply first_milestone_level. eapply rs_trans_wf; [eapply T_sched; eauto|].
      eapply reach_wf; eauto.
  - destruct (eligibility_sound _ _ _ _ _ _ _ _ _ _ _ _ _ _ _ Hcfg Hrun H)
      as [rs [r [pos [e [_ [En [_ [_ [_ [_ [_ [_ [_ [_ [Hnxt Hmra]]]]]]]]]]]]]]].
    destruct (c_mra cfg); [|discriminate]. injection Hmra as ->. rewrite Hnxt.
    eapply next_above_level. eapply reach_wf; eauto.
Qed.

(* PASHA: current_max_t is max_t or one of the system's rung levels; tied to current_rung_idx *)
Definition cap_inv (cfg : config) (rs : rsys) : Prop :=
  let len := length (rs_rungs rs) in
  ((len <= rs_idx rs)%nat /\ rs_cap rs = c_max_t cfg) \/
  ((1 <= rs_idx rs <= len)%nat /\ py_nth (rs_levels rs) (Z.of_nat (rs_idx rs) - 1) = Some (rs_cap rs)) \/
  (rs_idx rs = 0%nat /\ len = 1%nat /\ In (rs_cap rs) (rs_levels rs)).

Lemma py_nth_nonneg {A} (l : list A) (i : nat) : py_nth l (Z.of_nat i) = nth_error l i.
Proof.
  unfold py_nth. destruct (Z.of_nat i <? 0)%Z eqn:E; [lia|].
  destruct ((0 <=? Z.of_nat i)%Z && (Z.of_nat i <? Z.of_nat (length l))%Z) eqn:E2.
  - rewrite Nat2Z.id. reflexivity.
  - symmetry. apply nth_error_None. lia.
Qed.

Lemma mk_sys_cap_inv cfg lv : cap_inv cfg (mk_sys cfg lv).
Proof.
  unfold cap_inv, mk_sys, rs_levels. simpl. rewrite rev_length, map_length.
  rewrite map_rev, rev_involutive, map_map. simpl.
  change (map (fun x : Z * Q => fst x) lv) with (map fst lv).
  destruct lv as [|a [|a' lv']].
  - left. simpl. split; [lia|reflexivity].
  - right. right. simpl. split; [reflexivity|]. split; [reflexivity|]. left. reflexivity.
  - right. left. remember (a :: a' :: lv') as l.
    assert (Hlen : (2 <= length l)%nat) by (subst l; simpl; lia). clear Heql.
    remember (Nat.min (length l - 1) 2) as k.
    assert (Hk : (1 <= k <= 2)%nat /\ (k <= length l - 1)%nat) by (subst k; lia).
    split; [lia|].
    replace (Z.of_nat k - 1)%Z with (Z.of_nat (k - 1)) by lia.
    rewrite py_nth_nonneg.
    destruct (nth_error (map fst l) (k - 1)) as [c|] eqn:E; [reflexivity|].
    apply nth_error_None in E. rewrite map_length in E. lia.
Qed.

Lemma asc_nth : forall (l : list Z) i j x y, StronglySorted Z.lt l -> (i < j)%nat ->
  nth_error l i = Some x -> nth_error l j = Some y -> (x < y)%Z.
Proof.
  induction l as [|a l IH]; intros [|i] [|j] x y Hs Hij Hx Hy; simpl in *; try discriminate; try lia.
  - inv Hx. inv Hs. rewrite Forall_forall in H2. apply nth_error_In in Hy. apply H2 in Hy. lia.
  - inv Hs. apply (IH i j x y); auto. lia.
Qed.

Lemma rev_static_levels cfg s : rev (static_levels cfg s) = map fst (skipn s (c_rungs cfg)).
Proof. unfold static_levels. apply rev_involutive. Qed.

Lemma promo_report_wf cfg lv rs t r m c rs1 info1 : promo_on_task_report cfg rs t r m c = Ok (rs1, info1) ->
  rs_wf cfg lv rs -> rs_wf cfg lv rs1.
Proof.
  intros Hp [Hl Hs].
  apply promo_report_shape in Hp as [_ [_ [_ [_ [Hr1|[p [rg [Hn [_ [_ [_ Hr1]]]]]]]]]]].
  - split; rewrite Hr1; auto.
  - split; rewrite Hr1.
    + rewrite <- Hl. eapply map_set_nth; eauto.
    + apply Forall_set_nth; auto. simpl. apply insert_sorted. eapply (Forall_nth_error _ _ _ _ Hs Hn).
Qed.

Lemma rs_wf_levels cfg s rs : rs_wf cfg (static_levels cfg s) rs ->
  rs_levels rs = map fst (skipn s (c_rungs cfg)) /\ length (rs_rungs rs) = length (skipn s (c_rungs cfg)).
Proof.
  intros [Hl _]. unfold rs_levels. rewrite Hl, rev_static_levels. split; [reflexivity|].
  rewrite <- (map_length r_level), Hl. unfold static_levels. rewrite rev_length, map_length. reflexivity.
Qed.

(* raising the resource level (only done when the ranking changed) *)
Lemma raise_cap_spec cfg s rs rs3 : cfg_wf cfg -> rs_wf cfg (static_levels cfg s) rs -> cap_inv cfg rs ->
  pasha_increase cfg rs (h_eps (rs_hist rs)) = true -> pasha_raise_cap cfg rs = Ok rs3 ->
  cap_inv cfg rs3 /\ (rs_cap rs <= rs_cap rs3)%Z /\ ((rs_cap rs < rs_cap rs3)%Z <-> (rs_cap rs < c_max_t cfg)%Z).
Proof.
  intros Hcfg Hwf1 Hi1 Einc H. unfold pasha_raise_cap in H.
  destruct (rs_wf_levels _ _ _ Hwf1) as [Hlv1 Hlen1].
  assert (Hasc : StronglySorted Z.lt (rs_levels rs)).
  { rewrite Hlv1, map_fst_skipn. apply sorted_lt_skipn. apply Hcfg. }
  assert (Hbelow : forall x, In x (rs_levels rs) -> (x < c_max_t cfg)%Z).
  { intros x Hx. rewrite Hlv1, map_fst_skipn in Hx. apply In_skipn in Hx.
    destruct Hcfg as [_ Hf]. rewrite Forall_forall in Hf. apply Hf. exact Hx. }
  destruct (rs_idx rs <? length (rs_rungs rs))%nat eqn:Elt.
  - apply Nat.ltb_lt in Elt.
    destruct (py_nth (rs_levels rs) (Z.of_nat (S (rs_idx rs)) - 1)) as [cnew|] eqn:Enew; [|discriminate].
    inv H. unfold cap_inv, rs_levels in *. cbn [rs_rungs rs_idx rs_cap].
    replace (Z.of_nat (S (rs_idx rs)) - 1)%Z with (Z.of_nat (rs_idx rs)) in * by lia.
    assert (Hnew := Enew). rewrite py_nth_nonneg in Hnew.
    assert (Hcnew : (cnew < c_max_t cfg)%Z) by (apply Hbelow; eapply nth_error_In; eauto).
    destruct Hi1 as [[Hge _]|[[Hrange Hold]|[Hz [Hone _]]]]; [lia| |].
    + replace (Z.of_nat (rs_idx rs) - 1)%Z with (Z.of_nat (rs_idx rs - 1)) in Hold by lia.
      rewrite py_nth_nonneg in Hold.
      assert (rs_cap rs < cnew)%Z by (eapply (asc_nth _ (rs_idx rs - 1) (rs_idx rs)); eauto; lia).
      split; [|split; [lia|split; lia]].
      right. left. split; [lia|].
      replace (Z.of_nat (S (rs_idx rs)) - 1)%Z with (Z.of_nat (rs_idx rs)) by lia. exact Enew.
    + (* idx = 0 with a single rung: there is only one ranking, no increase *)
      exfalso. unfold pasha_increase, ranking_of in Einc. rewrite Hz in Einc.
      unfold py_nth in Einc. rewrite Hone in Einc. simpl in Einc.
      destruct (rs_rungs rs) as [|x [|y l]]; simpl in *; try discriminate; destruct (r_data x); discriminate.
  - apply Nat.ltb_ge in Elt. inv H. unfold cap_inv, rs_levels in *. cbn [rs_rungs rs_idx rs_cap].
    split; [left; split; [exact Elt|reflexivity]|].
    destruct Hi1 as [[_ Hmax]|[[Hrange Hold]|[Hz [Hone _]]]]; [rewrite Hmax; split; [lia|split; lia]| |lia].
    replace (Z.of_nat (rs_idx rs) - 1)%Z with (Z.of_nat (rs_idx rs - 1)) in Hold by lia.
    rewrite py_nth_nonneg in Hold. apply nth_error_In in Hold. apply Hbelow in Hold. split; [lia|split; lia].
Qed.

Lemma rs_trans_cap cfg s rs rs' : cfg_wf cfg -> rs_trans cfg rs rs' ->
  rs_wf cfg (static_levels cfg s) rs -> cap_inv cfg rs ->
  cap_inv cfg rs' /\ (rs_cap rs <= rs_cap rs')%Z.
Proof.
  intros Hcfg Ht. induction Ht as [rs|rs b rs' p H|rs t|rs t skip|rs t ms rf rs' H|rs t r m c eps rs' info H|a b c H1 IH1 H2 IH2];
    intros Hwf Hinv.
  - split; [exact Hinv|lia].
  - assert (Hwf' : rs_wf cfg (static_levels cfg s) rs') by (eapply rs_trans_wf; [eapply T_sched; eauto|exact Hwf]).
    apply sched_shape in H as [_ [Hi [Hc _]]].
    destruct (rs_wf_levels _ _ _ Hwf) as [Hlv Hlen]. destruct (rs_wf_levels _ _ _ Hwf') as [Hlv' Hlen'].
    unfold cap_inv in *. rewrite Hi, Hc, Hlv', Hlen'. rewrite Hlv, Hlen in Hinv.
    split; [exact Hinv|lia].
  - split; [exact Hinv|simpl; lia].
  - split; [exact Hinv|simpl; lia].
  - unfold rs_on_task_add_resumed in H. destruct (rf <? ms)%Z; inv H. split; [exact Hinv|simpl; lia].
  - unfold rs_on_task_report in H.
    assert (Hpromo : forall rs1 info1, promo_on_task_report cfg rs t r m c = Ok (rs1, info1) ->
              cap_inv cfg rs1 /\ rs_cap rs1 = rs_cap rs /\ rs_wf cfg (static_levels cfg s) rs1).
    { intros rs1 info1 Hp. assert (Hwf1 := promo_report_wf _ _ _ _ _ _ _ _ _ Hp Hwf).
      apply promo_report_shape in Hp as [_ [_ [Hi [Hc _]]]].
      destruct (rs_wf_levels _ _ _ Hwf) as [Hlv Hlen]. destruct (rs_wf_levels _ _ _ Hwf1) as [Hlv1 Hlen1].
      split; [|split; [exact Hc|exact Hwf1]].
      unfold cap_inv in *. rewrite Hi, Hc, Hlv1, Hlen1. rewrite Hlv, Hlen in Hinv. exact Hinv. }
    destruct (c_variant cfg);
      try (destruct (Hpromo _ _ H) as [Hi1 [Hc1 _]]; split; [exact Hi1|lia]).
    unfold pasha_on_task_report in H.
    destruct (promo_on_task_report cfg rs t r m c) as [[rs1 info1]|]; [|discriminate].
    destruct (Hpromo _ _ eq_refl) as [Hi1 [Hc1 Hwf1]]. clear Hpromo. rewrite <- Hc1.
    destruct (pasha_after_report cfg rs1 t r m eps) as [rs3|] eqn:Ea; [|discriminate]. inv H.
    apply pasha_after_inv in Ea as [rs2 [_ [H1 [H2 [H3 [H4 [H5 Hcase]]]]]]].
    assert (Hwf2 : rs_wf cfg (static_levels cfg s) rs2) by (destruct Hwf1; split; congruence).
    assert (Hi2 : cap_inv cfg rs2).
    { unfold cap_inv, rs_levels in *. rewrite H1, H4, H5. exact Hi1. }
    rewrite <- H5.
    destruct Hcase as [[Hinc Hraise]|[_ ->]]; [|split; [exact Hi2|lia]].
    destruct (raise_cap_spec cfg s rs2 rs' Hcfg Hwf2 Hi2 Hinc Hraise) as [G1 [G2 _]]. split; assumption.
  - destruct (IH1 Hwf Hinv) as [Hi1 Hle1].
    assert (Hwf1 : rs_wf cfg (static_levels cfg s) b) by (eapply rs_trans_wf; eauto).
    destruct (IH2 Hwf1 Hi1) as [Hi2 Hle2]. split; [exact Hi2|lia].
Qed.

Lemma py_nth_In {A} (l : list A) i x : py_nth l i = Some x -> In x l.
Proof.
  unfold py_nth. destruct ((0 <=? (if (i <? 0)%Z then (i + Z.of_nat (length l))%Z else i))%Z &&
                           ((if (i <? 0)%Z then (i + Z.of_nat (length l))%Z else i) <? Z.of_nat (length l))%Z);
    [|discriminate]. apply nth_error_In.
Qed.

Lemma cap_level cfg rs : cap_inv cfg rs -> rs_cap rs = c_max_t cfg \/ In (rs_cap rs) (rs_levels rs).
Proof.
  intros [[_ H]|[[_ H]|[_ [_ H]]]]; [left; exact H|right; eapply py_nth_In; eauto|right; exact H].
Qed.

Lemma reach_cap_inv cfg evs st os s rs : cfg_wf cfg -> run cfg evs = Ok (st, os) ->
  nth_error (st_sys st) s = Some rs -> cap_inv cfg rs.
Proof.
  intros Hcfg Hrun Hn. destruct (reach_sys _ _ _ _ _ _ Hrun Hn) as [_ Ht].
  eapply (rs_trans_cap cfg s); eauto; [apply mk_sys_wf|apply mk_sys_cap_inv].
Qed.

(* current_max_t never decreases, whatever the next call is *)
Lemma pasha_cap_monotone cfg evs st os ev st' o s rs rs' :
  cfg_wf cfg -> run cfg evs = Ok (st, os) -> step cfg st ev = Ok (st', o) ->
  nth_error (st_sys st) s = Some rs -> nth_error (st_sys st') s = Some rs' ->
  (rs_cap rs <= rs_cap rs')%Z.
Proof.
  intros Hcfg Hrun Hstep Hn Hn'.
  apply step_sys_rel in Hstep as [_ Hrel]. destruct (Hrel _ _ Hn') as [rs0 [H0 Ht]].
  assert (rs0 = rs) by congruence. subst rs0.
  eapply (rs_trans_cap cfg s); eauto; [eapply reach_wf; eauto | eapply reach_cap_inv; eauto].
Qed.

(* a resumed trial never runs beyond the cap in force (PASHA: current_max_t) *)
Lemma resume_below_cap cfg evs st os n br b got st' t mra s j from nxt rs :
  cfg_wf cfg -> run cfg evs = Ok (st, os) ->
  suggest cfg st n br b got = Ok (st', OResume t mra s j from nxt) ->
  nth_error (st_sys st) s = Some rs -> (nxt <= eff_max cfg rs)%Z.
Proof.
  intros Hcfg Hrun H Hn.
  destruct (eligibility_sound _ _ _ _ _ _ _ _ _ _ _ _ _ _ _ Hcfg Hrun H)
    as [rs0 [r [pos [e [_ [En [Hnj [Hfrom [Hlt [_ [_ [_ [_ [_ [Hnxt _]]]]]]]]]]]]]]].
  assert (rs0 = rs) by congruence. subst rs0.
  assert (Hwf := reach_wf _ _ _ _ _ _ Hrun Hn).
  assert (Hlev : is_level cfg nxt) by (rewrite Hnxt; eapply next_above_level; eauto).
  unfold eff_max in *. destruct (c_variant cfg); try (apply is_level_le; assumption).
  destruct (cap_level _ _ (reach_cap_inv _ _ _ _ _ _ Hcfg Hrun Hn)) as [Hc|Hc];
    [rewrite Hc; apply is_level_le; assumption|].
  unfold rs_levels in Hc. apply in_rev in Hc. apply In_nth_error in Hc as [k Hk].
  destruct Hwf as [Hl _].
  assert (Hdesc : StronglySorted Z.gt (map r_level (rs_rungs rs))) by (rewrite Hl; apply static_levels_desc; exact Hcfg).
  assert (Hj : nth_error (map r_level (rs_rungs rs)) j = Some from) by (rewrite nth_error_map, Hnj; simpl; congruence).
  assert (Hkj : (k < j)%nat).
  { destruct (Nat.lt_ge_cases k j) as [|Hge]; [assumption|]. exfalso.
    destruct (Nat.eq_dec k j) as [->|Hne]; [rewrite Hk in Hj; inv Hj; lia|].
    assert (rs_cap rs < from)%Z; [|lia]. eapply (ss_gt_nth _ j k); eauto. lia. }
  rewrite Hnxt. unfold next_above. destruct j as [|j']; [lia|].
  destruct (nth_error (rs_rungs rs) j') as [r'|] eqn:Er'.
  - assert (Hj' : nth_error (map r_level (rs_rungs rs)) j' = Some (r_level r')) by (rewrite nth_error_map, Er'; reflexivity).
    destruct (Nat.eq_dec k j') as [->|Hne]; [rewrite Hk in Hj'; inv Hj'; lia|].
    assert (r_level r' < rs_cap rs)%Z; [|lia]. eapply (ss_gt_nth _ k j'); eauto. lia.
  - apply nth_error_None in Er'. assert (S j' < length (rs_rungs rs))%nat by (apply nth_error_Some; congruence). lia.
Qed.

(* ---- pause exactly at the milestone --------------------------------------------------- *)
Definition info_spec (r ms : Z) (rf : option Z) (info : report_info) : Prop :=
  (r <= ms)%Z /\ ri_reached info = (r =? ms)%Z /\ ri_continues info = negb (r =? ms)%Z /\
  ri_ignore info = match rf with Some f => (r <=? f)%Z | None => false end.

Lemma promo_result_cases cfg rs t r m c ms rf : lookup t (rs_running rs) = Some (ms, rf) ->
  match promo_on_task_report cfg rs t r m c with
  | Ok (rs', info) => info_spec r ms rf info
  | Err e => e = ESkipped <-> (ms < r)%Z
  end.
Proof.
  intro Hl. unfold promo_on_task_report, info_spec. rewrite Hl.
  destruct (ms <=? r)%Z eqn:Ele.
  - destruct (r =? ms)%Z eqn:Eeq; simpl.
    + assert (r = ms) by lia. subst r.
      destruct (rung_pos ms (rs_rungs rs) 0) as [p|]; simpl; [|repeat split; auto; lia].
      destruct (nth_error (rs_rungs rs) p) as [rg|]; [|split; [discriminate|lia]].
      destruct (in_rung t rg); [split; [discriminate|lia]|]. simpl. repeat split; auto; lia.
    + split; [lia|reflexivity].
  - simpl. assert (Hne : (r =? ms)%Z = false) by lia. rewrite Hne. repeat split; auto; lia.
Qed.

Lemma crossing_err row1 row2 cond : forall pes opp e, crossing row1 row2 cond pes opp = Err e -> e = EKey.
Proof.
  induction pes as [|pe rest IH]; intros opp e H; simpl in H; [discriminate|].
  destruct (lookup pe row1); [|inv H; reflexivity]. destruct (lookup pe row2); [|inv H; reflexivity].
  match type of H with (if ?b then _ else _) = _ => destruct b end; [discriminate|eauto].
Qed.

Lemma eps_pairs_err h epoch : forall ps seen acc e, eps_pairs h epoch ps seen acc = Err e -> e = EKey.
Proof.
  induction ps as [|[a b] rest IH]; intros seen acc e H; simpl in H; [discriminate|].
  set (c1 := if str_leb a b then a else b) in *. set (c2 := if str_leb a b then b else a) in *.
  destruct (mem_pair (c1, c2) seen); [eauto|].
  destruct (lookup c1 (h_results h)) as [row1|]; [|inv H; reflexivity].
  destruct (lookup c2 (h_results h)) as [row2|]; [|inv H; reflexivity].
  destruct (lookup epoch row1) as [p1|]; [|inv H; reflexivity].
  destruct (lookup epoch row2) as [p2|]; [|inv H; reflexivity].
  destruct (crossing row1 row2 (Qltb p2 p1) (zrange_down (epoch - 1) 0) false) eqn:Ec.
  - eauto.
  - inv H. eapply crossing_err; eauto.
Qed.

Lemma eps_epochs_err h orders : forall eps seen acc e, eps_epochs h orders eps seen acc = Err e -> e = EKey.
Proof.
  induction eps as [|ep rest IH]; intros seen acc e H; simpl in H; [discriminate|].
  destruct (lookup ep (h_epochs h)) as [trials|]; [|inv H; reflexivity].
  destruct (1 <? length trials)%nat; [|eauto].
  match type of H with context [eps_pairs h ep ?ps seen acc] => destruct (eps_pairs h ep ps seen acc) as [[seen' acc']|e'] eqn:Ep end.
  - eauto.
  - inv H. eapply eps_pairs_err; eauto.
Qed.

Lemma pasha_after_err cfg rs1 t r m orc e : pasha_after_report cfg rs1 t r m orc = Err e -> e = EKey \/ e = EIndex.
Proof.
  unfold pasha_after_report. intro H.
  destruct (update_epsilon (set_hist rs1 (add_result (rs_hist rs1) t r m)) orc) as [rs2|e0] eqn:Eu.
  - destruct (pasha_increase cfg rs2 (h_eps (rs_hist rs2))); [|discriminate].
    unfold pasha_raise_cap in H. right.
    destruct (rs_idx rs2 <? length (rs_rungs rs2))%nat; [|discriminate].
    destruct (py_nth (rs_levels rs2) (Z.of_nat (S (rs_idx rs2)) - 1)); [discriminate|]. inv H. reflexivity.
  - inv H. left. unfold update_epsilon in Eu.
    destruct (noisy_distances (set_hist rs1 (add_result (rs_hist rs1) t r m)) orc) as [[[|d ds]|e0]|] eqn:En;
      try discriminate. inv Eu.
    unfold noisy_distances in En.
    match type of En with context [match ?X with Some _ => _ | None => _ end] => destruct X; [|discriminate] end.
    match type of En with context [match ?X with Some _ => _ | None => _ end] => destruct X; [|discriminate] end.
    inv En. eapply eps_epochs_err; eauto.
Qed.

Lemma report_result_cases cfg rs t r m c eps ms rf : lookup t (rs_running rs) = Some (ms, rf) ->
  match rs_on_task_report cfg rs t r m c eps with
  | Ok (rs', info) => info_spec r ms rf info
  | Err e => e = ESkipped <-> (ms < r)%Z
  end.
Proof.
  intro Hl. pose proof (promo_result_cases cfg rs t r m c ms rf Hl) as Hp.
  unfold rs_on_task_report. destruct (c_variant cfg); try exact Hp.
  unfold pasha_on_task_report.
  destruct (promo_on_task_report cfg rs t r m c) as [[rs1 info]|e]; [|exact Hp].
  assert (Hle : (r <= ms)%Z) by apply Hp.
  destruct (pasha_after_report cfg rs1 t r m eps) as [rs3|e] eqn:Ea; [exact Hp|].
  apply pasha_after_err in Ea as [->| ->]; (split; [discriminate|lia]).
Qed.

(* running[t] = (milestone, resume_from) always has resume_from < milestone *)
Definition run_inv (rs : rsys) : Prop :=
  forall t ms rf, lookup t (rs_running rs) = Some (ms, Some rf) -> (rf < ms)%Z.

Lemma rs_trans_run_inv cfg rs rs' : rs_trans cfg rs rs' -> run_inv rs -> run_inv rs'.
Proof.
  intro Ht. induction Ht as [rs|rs b rs' p H|rs t|rs t skip|rs t ms rf rs' H|rs t r m c eps rs' info H|a b c H1 IH1 H2 IH2];
    intro Hinv; auto.
  - apply sched_shape in H as [Hr _]. unfold run_inv. rewrite Hr. exact Hinv.
  - intros t' ms rf. simpl. destruct (Z.eq_dec t' t) as [->|Hne].
    + rewrite lookup_remove_eq. discriminate.
    + rewrite lookup_remove_neq by exact Hne. apply Hinv.
  - intros t' ms rf. simpl. destruct (Z.eq_dec t' t) as [->|Hne].
    + rewrite lookup_update_eq. discriminate.
    + rewrite lookup_update_neq by exact Hne. apply Hinv.
  - unfold rs_on_task_add_resumed in H. destruct (rf <? ms)%Z eqn:E; inv H.
    intros t' ms' rf'. simpl. destruct (Z.eq_dec t' t) as [->|Hne].
    + rewrite lookup_update_eq. intro Hx. inv Hx. lia.
    + rewrite lookup_update_neq by exact Hne. apply Hinv.
  - apply report_shape in H as [rs1 [Hp [_ [Hr _]]]].
    apply promo_report_shape in Hp as [Hr1 _]. unfold run_inv. rewrite Hr, Hr1. exact Hinv.
Qed.

Lemma reach_run_inv cfg evs st os s rs : run cfg evs = Ok (st, os) ->
  nth_error (st_sys st) s = Some rs -> run_inv rs.
Proof.
  intros Hrun Hn. destruct (reach_sys _ _ _ _ _ _ Hrun Hn) as [_ Ht].
  eapply rs_trans_run_inv; eauto. intros t ms rf H. discriminate.
Qed.

Definition expected_decision (cfg : config) (r ms : Z) : decision :=
  if (c_max_t cfg <=? r)%Z then STOP else if (r =? ms)%Z then PAUSE else CONTINUE.

Lemma pause_at_milestone_step cfg evs st os t r m c eps ti br rs ms rf :
  run cfg evs = Ok (st, os) ->
  lookup t (st_active st) = Some ti -> ti_dec ti = CONTINUE -> lookup t (st_task st) = Some br ->
  nth_error (st_sys st) (fst (sys_of cfg br)) = Some rs -> lookup t (rs_running rs) = Some (ms, rf) ->
  (1 <= r)%Z ->
  match on_trial_result cfg st t r m c eps with
  | Ok (st', d) => ((r <= ms)%Z \/ (c_max_t cfg <= r)%Z) /\ d = expected_decision cfg r ms
  | Err e => e = ESkipped <-> (ms < r < c_max_t cfg)%Z
  end.
Proof.
  intros Hrun Ha Hd Ht Hn Hl Hr.
  assert (HK := reach_run_inv _ _ _ _ _ _ Hrun Hn).
  unfold on_trial_result, expected_decision.
  assert (E1 : (r <? 1)%Z = false) by lia. rewrite E1, Ha, Hd. simpl negb. cbv iota. rewrite Ht, Hn.
  destruct (r <? c_max_t cfg)%Z eqn:Emax.
  - assert (E2 : (c_max_t cfg <=? r)%Z = false) by lia. rewrite E2.
    pose proof (report_result_cases cfg rs t r m
                  (if c_cost cfg then c + match lookup t (st_off st) with Some o => o | None => 0 end else c)
                  eps ms rf Hl) as Hrep.
    destruct (rs_on_task_report cfg rs t r m _ eps) as [[rs' info]|e].
    + destruct Hrep as [Hle [Hreached [Hcont Hign]]].
      assert (Hign' : (r =? ms)%Z = true -> ri_ignore info = false).
      { intro Heq. rewrite Hign. destruct rf as [f|]; [|reflexivity]. apply HK in Hl. lia. }
      destruct (r =? ms)%Z eqn:Eeq.
      * rewrite (Hign' eq_refl). rewrite Hreached, Hcont. simpl negb.
        repeat (break_inner; try (split; [discriminate|lia]); try (split; [left; lia|reflexivity])).
      * rewrite Hreached, Hcont. simpl negb.
        repeat (break_inner; try (split; [discriminate|lia]); try (split; [left; lia|reflexivity])).
    + rewrite Hrep. lia.
  - assert (E2 : (c_max_t cfg <=? r)%Z = true) by lia. rewrite E2. simpl.
    repeat (break_inner; try (split; [discriminate|lia]); try (split; [right; lia|reflexivity])).
Qed.

(* ---- promoted at most once ---------------------------------------------------------------- *)
Definition ids (l : list entry) : list Z := map e_id l.
Definition ids_nodup (rs : rsys) : Prop := Forall (fun r => NoDup (ids (r_data r))) (rs_rungs rs).

Lemma in_data_ids t l : in_data t l = true <-> In t (ids l).
Proof.
  unfold in_data, ids. rewrite existsb_exists, in_map_iff. split.
  - intros [e [Hin He]]. exists e. split; [lia|exact Hin].
  - intros [e [He Hin]]. exists e. split; [exact Hin|lia].
Qed.

Lemma ids_insert md e : forall l x, In x (ids (insert md e l)) <-> x = e_id e \/ In x (ids l).
Proof.
  intros l x. unfold ids. rewrite !in_map_iff. split.
  - intros [y [<- Hy]]. apply In_insert in Hy as [->|Hy]; [left; reflexivity|right; eauto].
  - intros [->|[y [<- Hy]]]; [exists e|exists y]; (split; [reflexivity|apply In_insert; auto]).
Qed.

Lemma nodup_insert md e : forall l, NoDup (ids l) -> ~ In (e_id e) (ids l) -> NoDup (ids (insert md e l)).
Proof.
  induction l as [|x r IH]; intros Hnd Hnin; simpl.
  - constructor; [intros []|constructor].
  - destruct (better_lt md (e_metric e) (e_metric x)); simpl.
    + constructor; assumption.
    + inv Hnd. constructor.
      * intro Hin. apply ids_insert in Hin as [Heq|Hin]; [apply Hnin; left; congruence|contradiction].
      * apply IH; [assumption|]. intro Hin. apply Hnin. right. exact Hin.
Qed.

Lemma nodup_remove_nth : forall l n e, NoDup (ids l) -> nth_error l n = Some e ->
  NoDup (ids (remove_nth n l)) /\ ~ In (e_id e) (ids (remove_nth n l)).
Proof.
  induction l as [|x r IH]; intros [|n] e Hnd Hn; simpl in *; try discriminate.
  - inv Hn. inv Hnd. split; assumption.
  - inv Hnd. destruct (IH _ _ H2 Hn) as [Hnd' Hnin]. split.
    + constructor; [|exact Hnd']. intro Hin. apply H1. unfold ids in *. apply in_map_iff in Hin as [y [Hy Hin]].
      apply in_map_iff. exists y. split; [exact Hy|eapply In_remove_nth; eauto].
    + intros [Heq|Hin]; [|contradiction]. apply H1. rewrite Heq. apply in_map. eapply nth_error_In; eauto.
Qed.

Lemma rs_trans_ids_nodup cfg rs rs' : rs_trans cfg rs rs' -> ids_nodup rs -> ids_nodup rs'.
Proof.
  intro Ht. induction Ht as [rs|rs b rs' p H|rs t|rs t skip|rs t ms rf rs' H|rs t r m c eps rs' info H|a b c H1 IH1 H2 IH2];
    intro Hinv; auto.
  - apply sched_shape in H as [_ [_ [_ [[_ [Hr _]]|[j [t [from [nxt [pos [r [e [thr' [_ [_ [Hn [He [_ Hr]]]]]]]]]]]]]]]]];
      unfold ids_nodup; rewrite Hr; [exact Hinv|].
    apply Forall_set_nth; [exact Hinv|]. simpl.
    destruct (nodup_remove_nth _ _ _ (Forall_nth_error _ _ _ _ Hinv Hn) He) as [Hnd Hnin].
    apply nodup_insert; assumption.
  - unfold rs_on_task_add_resumed in H. destruct (rf <? ms)%Z; inv H. exact Hinv.
  - apply report_shape in H as [rs1 [Hp [Hr _]]].
    apply promo_report_shape in Hp as [_ [_ [_ [_ [Hr1|[p [rg [Hn [Hin [_ [_ Hr1]]]]]]]]]]];
      unfold ids_nodup; rewrite Hr, Hr1; [exact Hinv|].
    apply Forall_set_nth; [exact Hinv|]. simpl.
    apply nodup_insert; [exact (Forall_nth_error _ _ _ _ Hinv Hn)|]. simpl.
    intro Hc. apply in_data_ids in Hc. unfold in_rung in Hin. congruence.
Qed.

Lemma mk_sys_ids_nodup cfg lv : ids_nodup (mk_sys cfg lv).
Proof.
  unfold ids_nodup, mk_sys. simpl. apply Forall_rev. apply Forall_forall. intros r Hr.
  apply in_map_iff in Hr as [p [<- _]]. simpl. constructor.
Qed.

(* trial t holds an entry at rung position j and every entry of t there is marked as promoted *)
Definition promoted_at (rs : rsys) (j : nat) (t : Z) : Prop :=
  exists r, nth_error (rs_rungs rs) j = Some r /\ In t (ids (r_data r)) /\
            forall e, In e (r_data r) -> e_id e = t -> e_prom e = true.

Lemma In_remove_nth_other {A} : forall (l : list A) n x y, In x l -> nth_error l n = Some y -> x <> y ->
  In x (remove_nth n l).
Proof.
  induction l as [|a l IH]; intros [|n] x y Hin Hn Hne; simpl in *; try contradiction.
  - inv Hn. destruct Hin as [->|Hin]; [congruence|exact Hin].
  - destruct Hin as [->|Hin]; [left; reflexivity|right; eauto].
Qed.

Lemma rs_trans_promoted_at cfg rs rs' j t : rs_trans cfg rs rs' -> promoted_at rs j t -> promoted_at rs' j t.
Proof.
  intro Ht. induction Ht as [rs|rs b rs' p H|rs t0|rs t0 skip|rs t0 ms rf rs' H|rs t0 r0 m c eps rs' info H|a b c H1 IH1 H2 IH2];
    intro Hinv; auto.
  - destruct Hinv as [r [Hn [Hin Hall]]].
    apply sched_shape in H as [_ [_ [_ [[_ [Hr _]]|[j1 [t1 [from [nxt [pos [r1 [e1 [thr' [_ [_ [Hn1 [He1 [Hp1 Hr]]]]]]]]]]]]]]]]];
      unfold promoted_at; rewrite Hr; [exists r; auto|].
    destruct (Nat.eq_dec j1 j) as [->|Hne].
    + assert (r1 = r) by congruence. subst r1.
      rewrite (nth_error_set_nth_eq _ _ _ _ Hn). eexists. split; [reflexivity|]. simpl. split.
      * apply ids_insert. unfold ids in Hin. apply in_map_iff in Hin as [e [He Hine]].
        destruct (e_prom e) eqn:Ep.
        -- right. unfold ids. apply in_map_iff. exists e. split; [exact He|].
           eapply In_remove_nth_other; eauto. intro Heq. subst e. congruence.
        -- rewrite (Hall _ Hine He) in Ep. discriminate.
      * intros e Hine He. apply In_insert in Hine as [->|Hine]; [reflexivity|].
        apply Hall; [eapply In_remove_nth; eauto|exact He].
    + rewrite nth_error_set_nth_neq by exact Hne. exists r. auto.
  - unfold rs_on_task_add_resumed in H. destruct (rf <? ms)%Z; inv H. exact Hinv.
  - destruct Hinv as [r [Hn [Hin Hall]]].
    apply report_shape in H as [rs1 [Hp [Hr _]]].
    apply promo_report_shape in Hp as [_ [_ [_ [_ [Hr1|[p [rg [Hnp [Hnin [_ [_ Hr1]]]]]]]]]]];
      unfold promoted_at; rewrite Hr, Hr1; [exists r; auto|].
    destruct (Nat.eq_dec p j) as [->|Hne].
    + assert (rg = r) by congruence. subst rg.
      rewrite (nth_error_set_nth_eq _ _ _ _ Hn). eexists. split; [reflexivity|]. simpl. split.
      * apply ids_insert. right. exact Hin.
      * intros e Hine He. apply In_insert in Hine as [->|Hine]; [|apply Hall; assumption].
        simpl in He. subst t0. exfalso. apply in_data_ids in Hin. unfold in_rung in Hnin. congruence.
    + rewrite nth_error_set_nth_neq by exact Hne. exists r. auto.
Qed.

Lemma run_from_app cfg : forall a st st1 os1 b st2 os2,
  run_from cfg st a = Ok (st1, os1) -> run_from cfg st1 b = Ok (st2, os2) ->
  run_from cfg st (a ++ b) = Ok (st2, os1 ++ os2).
Proof.
  induction a as [|ev a IH]; intros st st1 os1 b st2 os2 Ha Hb; simpl in *.
  - inv Ha. exact Hb.
  - destruct (step cfg st ev) as [[st' o]|]; [|discriminate].
    destruct (run_from cfg st' a) as [[st'' os'']|] eqn:E; [|discriminate]. inv Ha.
    rewrite (IH _ _ _ _ _ _ E Hb). reflexivity.
Qed.

Lemma reach_ids_nodup cfg evs st os s rs : run cfg evs = Ok (st, os) ->
  nth_error (st_sys st) s = Some rs -> ids_nodup rs.
Proof.
  intros Hrun Hn. destruct (reach_sys _ _ _ _ _ _ Hrun Hn) as [_ Ht].
  eapply rs_trans_ids_nodup; eauto. apply mk_sys_ids_nodup.
Qed.

(* right after a resume of t from rung position j of system s, t is marked as promoted there *)
Lemma resume_marks cfg evs st os n br b got st' t mra s j from nxt :
  cfg_wf cfg -> run cfg evs = Ok (st, os) ->
  suggest cfg st n br b got = Ok (st', OResume t mra s j from nxt) ->
  exists rs', nth_error (st_sys st') s = Some rs' /\ promoted_at rs' j t.
Proof.
  intros Hcfg Hrun H.
  destruct (eligibility_sound _ _ _ _ _ _ _ _ _ _ _ _ _ _ _ Hcfg Hrun H)
    as [rs [r [pos [e [Hs [En [Hnj [_ [_ [[Hne _] [Hid [Hprom _]]]]]]]]]]]].
  assert (Hnd := reach_ids_nodup _ _ _ _ _ _ Hrun En).
  unfold suggest in H. destruct (sys_of cfg br) as [sid skip]. simpl in Hs. subst sid.
  rewrite En in H.
  destruct (rs_on_task_schedule cfg rs b) as [[rs1 [[[[j0 t0] rf] ms]|]]|] eqn:Es; [| |discriminate].
  2: { destruct (negb got); [inv H|]. destruct (lookup n (st_active st)); inv H. }
  destruct (rs_on_task_add_resumed rs1 t0 ms rf) as [rs2|] eqn:Ea; [|discriminate].
  destruct (lookup t0 (st_active st)) as [ti|]; [|discriminate].
  destruct (decision_eqb (ti_dec ti) CONTINUE); [discriminate|]. inv H. simpl.
  rewrite (nth_error_set_nth_eq _ _ _ _ En). eexists. split; [reflexivity|].
  unfold rs_on_task_add_resumed in Ea. break_in Ea; inv Ea.
  apply sched_shape in Es as [_ [_ [_ [[Hp _]|[j1 [t1 [from1 [nxt1 [pos1 [r1 [e1 [thr' [Hp [Hscan [Hn1 [He1 [Hp1 Hr]]]]]]]]]]]]]]]]];
    [discriminate|]. inv Hp.
  assert (r1 = r) by congruence. subst r1.
  unfold promoted_at. simpl. rewrite Hr. rewrite (nth_error_set_nth_eq _ _ _ _ Hnj).
  eexists. split; [reflexivity|]. simpl.
  (* the entry found by the scan is the one at [pos] *)
  pose proof (reach_wf _ _ _ _ _ _ Hrun En) as [Hlv Hsorted].
  assert (Hndl : NoDup (map r_level (rs_rungs rs))) by (rewrite Hlv; apply static_levels_nodup; exact Hcfg).
  pose proof (scan_spec cfg (eff_max cfg rs) b (rs_thr rs) (rs_rungs rs) 0 (c_max_t cfg) (rs_thr rs)
                (fun _ _ => eq_refl) Hndl Hsorted) as Hspec.
  rewrite Hscan in Hspec. destruct Hspec as [pre [r2 [post [Hrungs [Hj [_ [_ [_ [[e2 [[Hn2 _] [Hid2 _]]] _]]]]]]]]].
  simpl in Hj. subst j1. assert (r2 = r) by (rewrite Hrungs, nth_error_app_mid in Hnj; congruence). subst r2.
  assert (e2 = e1) by congruence. subst e2.
  destruct (nodup_remove_nth _ _ _ (Forall_nth_error _ _ _ _ Hnd Hnj) He1) as [_ Hnin].
  split.
  - apply ids_insert. left. simpl. congruence.
  - intros x Hx Hidx. apply In_insert in Hx as [->|Hx]; [reflexivity|].
    exfalso. apply Hnin. rewrite Hid2, <- Hidx. apply in_map. exact Hx.
Qed.

Lemma promoted_once cfg evs1 st1 os1 n1 br1 b1 g1 st1' t m1 s j f1 x1 evs2 st2 os2 n2 br2 b2 g2 st2' t' m2 f2 x2 :
  cfg_wf cfg -> run cfg evs1 = Ok (st1, os1) ->
  suggest cfg st1 n1 br1 b1 g1 = Ok (st1', OResume t m1 s j f1 x1) ->
  run_from cfg st1' evs2 = Ok (st2, os2) ->
  suggest cfg st2 n2 br2 b2 g2 = Ok (st2', OResume t' m2 s j f2 x2) ->
  t' <> t.
Proof.
  intros Hcfg Hrun1 Hs1 Hrun2 Hs2 Heq. subst t'.
  destruct (resume_marks _ _ _ _ _ _ _ _ _ _ _ _ _ _ _ Hcfg Hrun1 Hs1) as [rs1' [Hn1 Hprom]].
  assert (Hrun : run cfg (evs1 ++ Suggest n1 br1 b1 g1 :: evs2) = Ok (st2, os1 ++ OResume t m1 s j f1 x1 :: os2)).
  { unfold run. eapply run_from_app; [exact Hrun1|]. simpl. rewrite Hs1, Hrun2. reflexivity. }
  destruct (eligibility_sound _ _ _ _ _ _ _ _ _ _ _ _ _ _ _ Hcfg Hrun Hs2)
    as [rs [r [pos [e [_ [En [Hnj [_ [_ [[Hne _] [Hid [Hp _]]]]]]]]]]]].
  apply run_from_sys_rel in Hrun2 as [_ Hrel]. destruct (Hrel _ _ En) as [rs0 [H0 Ht]].
  assert (rs0 = rs1') by congruence. subst rs0.
  destruct (rs_trans_promoted_at _ _ _ _ _ Ht Hprom) as [r' [Hn' [_ Hall]]].
  assert (r' = r) by congruence. subst r'.
  rewrite (Hall e) in Hp; [discriminate| eapply nth_error_In; eauto | exact Hid].
Qed.

(* ---- a resumed trial is not running ---------------------------------------------------------- *)
Lemma resume_not_running cfg st n br b got st' t mra s j from nxt :
  suggest cfg st n br b got = Ok (st', OResume t mra s j from nxt) ->
  (exists ti, lookup t (st_active st) = Some ti /\ ti_dec ti <> CONTINUE) /\
  (exists ti', lookup t (st_active st') = Some ti' /\ ti_dec ti' = CONTINUE).
Proof.
  unfold suggest. intro H. destruct (sys_of cfg br) as [sid skip].
  destruct (nth_error (st_sys st) sid) as [rs|]; [|discriminate].
  destruct (rs_on_task_schedule cfg rs b) as [[rs1 [[[[j0 t0] rf] ms]|]]|]; [| |discriminate].
  2: { destruct (negb got); [inv H|]. destruct (lookup n (st_active st)); inv H. }
  destruct (rs_on_task_add_resumed rs1 t0 ms rf) as [rs2|]; [|discriminate].
  destruct (lookup t0 (st_active st)) as [ti|] eqn:El; [|discriminate].
  destruct (decision_eqb (ti_dec ti) CONTINUE) eqn:Ed; [discriminate|]. inv H. split.
  - exists ti. split; [exact El|]. intro Hc. rewrite Hc in Ed. discriminate.
  - simpl. eexists. split; [apply lookup_update_eq|reflexivity].
Qed.

Ltac break_inner_in H :=
  match type of H with
  | context [match ?x with _ => _ end] =>
      lazymatch x with
      | context [match _ with _ => _ end] => fail
      | _ => let E := fresh "E" in destruct x eqn:E
      end
  end.

(* ======================================================================================== *)
(* Second part: state-level invariants (trace-level pause theorem, resumes only paused)        *)
(* ======================================================================================== *)

(* ---- explicit shape of the scheduler-level transitions ------------------------------------- *)
Lemma suggest_shape cfg st n br b got st' o :
  suggest cfg st n br b got = Ok (st', o) ->
  exists rs rs1 p, nth_error (st_sys st) (fst (sys_of cfg br)) = Some rs /\
    rs_on_task_schedule cfg rs b = Ok (rs1, p) /\
    match p with
    | Some (j, t, rf, ms) =>
        (rf < ms)%Z /\ exists ti, lookup t (st_active st) = Some ti /\ ti_dec ti <> CONTINUE /\
        st' = mkS (set_nth (fst (sys_of cfg br)) (set_running rs1 (update t (ms, Some rf) (rs_running rs1))) (st_sys st))
                  (update t br (st_task st)) (update t (mkTI CONTINUE (ti_lur ti)) (st_active st)) (st_off st) /\
        o = OResume t (if c_mra cfg then Some ms else None) (fst (sys_of cfg br)) j rf ms
    | None =>
        (got = false /\ o = ONoSuggestion /\
         st' = mkS (set_nth (fst (sys_of cfg br)) rs1 (st_sys st)) (st_task st) (st_active st) (st_off st)) \/
        (got = true /\ lookup n (st_active st) = None /\
         o = OStart n (if c_mra cfg then Some (first_milestone cfg rs1 (snd (sys_of cfg br))) else None) /\
         st' = mkS (set_nth (fst (sys_of cfg br)) (rs_on_task_add_new cfg rs1 n (snd (sys_of cfg br))) (st_sys st))
                   (update n br (st_task st)) (update n (mkTI CONTINUE None) (st_active st)) (st_off st))
    end.
Proof.
  unfold suggest. intro H. destruct (sys_of cfg br) as [sid skip]. simpl.
  destruct (nth_error (st_sys st) sid) as [rs|] eqn:En; [|discriminate].
  destruct (rs_on_task_schedule cfg rs b) as [[rs1 [[[[j t] rf] ms]|]]|] eqn:Es; [| |discriminate].
  - exists rs, rs1, (Some (j, t, rf, ms)). split; [reflexivity|]. split; [exact Es|].
    unfold rs_on_task_add_resumed in H. destruct (rf <? ms)%Z eqn:Elt; [|discriminate].
    destruct (lookup t (st_active st)) as [ti|] eqn:El; [|discriminate].
    destruct (decision_eqb (ti_dec ti) CONTINUE) eqn:Ed; [discriminate|]. inv H.
    split; [lia|]. exists ti. split; [reflexivity|]. split; [|split; reflexivity].
    intro Hc. rewrite Hc in Ed. discriminate.
  - exists rs, rs1, None. split; [reflexivity|]. split; [exact Es|].
    destruct got; simpl in H.
    + destruct (lookup n (st_active st)) eqn:El; [discriminate|]. inv H. right. repeat split; reflexivity.
    + inv H. left. repeat split; reflexivity.
Qed.

Definition report_outcome (cfg : config) (rs : rsys) (t r : Z) (m total : Q) (eps : oracle) : result (rsys * report_info) :=
  if (r <? c_max_t cfg)%Z then rs_on_task_report cfg rs t r m total eps else Ok (rs, mkInfo false true false).
Definition total_cost (cfg : config) (st : state) (t : Z) (c : Q) : Q :=
  if c_cost cfg then c + match lookup t (st_off st) with Some o => o | None => 0 end else c.

Lemma on_trial_result_shape cfg st t r m c eps st' d :
  on_trial_result cfg st t r m c eps = Ok (st', d) ->
  (1 <= r)%Z /\ exists ti, lookup t (st_active st) = Some ti /\
  ((ti_dec ti <> CONTINUE /\ st' = st /\ d = ti_dec ti) \/
   (ti_dec ti = CONTINUE /\ exists br rs rs' info off' lur',
      lookup t (st_task st) = Some br /\ nth_error (st_sys st) (fst (sys_of cfg br)) = Some rs /\
      report_outcome cfg rs t r m (total_cost cfg st t c) eps = Ok (rs', info) /\
      let sys' := set_nth (fst (sys_of cfg br)) rs' (st_sys st) in
      let st1 := mkS sys' (st_task st) (update t (mkTI CONTINUE lur') (st_active st)) off' in
      ((ri_ignore info = true /\ st' = mkS sys' (st_task st) (st_active st) off' /\ d = CONTINUE) \/
       (ri_ignore info = false /\ ri_continues info = true /\ st' = st1 /\ d = CONTINUE) \/
       (ri_ignore info = false /\ ri_continues info = false /\ st' = cleanup cfg st1 t d /\
        d = if (c_max_t cfg <=? r)%Z then STOP else PAUSE)))).
Proof.
  unfold on_trial_result. intro H.
  destruct (r <? 1)%Z eqn:E1; [discriminate|]. split; [lia|].
  destruct (lookup t (st_active st)) as [ti|]; [|discriminate]. exists ti. split; [reflexivity|].
  destruct (decision_eqb (ti_dec ti) CONTINUE) eqn:Ed; simpl in H.
  2: { inv H. left. split; [|split; reflexivity]. intro Hc. rewrite Hc in Ed. discriminate. }
  right. split; [destruct (ti_dec ti); try discriminate; reflexivity|].
  destruct (lookup t (st_task st)) as [br|] eqn:Etask; [|discriminate].
  destruct (nth_error (st_sys st) (fst (sys_of cfg br))) as [rs|] eqn:Esys; [|discriminate].
  fold (total_cost cfg st t c) in H. fold (report_outcome cfg rs t r m (total_cost cfg st t c) eps) in H.
  destruct (report_outcome cfg rs t r m (total_cost cfg st t c) eps) as [[rs' info]|] eqn:Eout; [|discriminate].
  match type of H with context [match ?X with Ok off' => _ | Err e => Err e end] =>
    destruct X as [off'|]; [|discriminate] end.
  destruct (ri_ignore info) eqn:Ei.
  - inv H. exists br, rs, rs', info, off', None. split; [reflexivity|]. split; [exact Esys|]. split; [exact Eout|].
    left. repeat (split; [first [assumption|reflexivity]|]); first [assumption|reflexivity].
  - match type of H with context [match ?X with Ok lur' => _ | Err e => Err e end] =>
      destruct X as [lur'|]; [|discriminate] end.
    exists br, rs, rs', info, off', lur'. split; [reflexivity|]. split; [exact Esys|]. split; [exact Eout|].
    destruct (ri_continues info) eqn:Ec.
    + inv H. right. left. repeat (split; [first [assumption|reflexivity]|]); first [assumption|reflexivity].
    + inv H. right. right. repeat (split; [first [assumption|reflexivity]|]); first [assumption|reflexivity].
Qed.

(* _cleanup_trial, componentwise *)
Lemma cleanup_active cfg st t d t' :
  lookup t' (st_active (cleanup cfg st t d)) =
  if Z.eqb t' t then match lookup t (st_active st) with Some ti => Some (mkTI d (ti_lur ti)) | None => None end
  else lookup t' (st_active st).
Proof.
  unfold cleanup. destruct (lookup t (st_task st)); simpl;
    (destruct (Z.eqb t' t) eqn:E; [assert (t' = t) by lia; subst t'|assert (t' <> t) by lia]);
    destruct (lookup t (st_active st)) eqn:El; simpl; rewrite ?lookup_update_eq, ?El; auto;
    rewrite lookup_update_neq by assumption; reflexivity.
Qed.

Lemma cleanup_task cfg st t d t' :
  lookup t' (st_task (cleanup cfg st t d)) = if Z.eqb t' t then None else lookup t' (st_task st).
Proof.
  unfold cleanup. destruct (lookup t (st_task st)) eqn:El; simpl;
    (destruct (Z.eqb t' t) eqn:E; [assert (t' = t) by lia; subst t'|assert (t' <> t) by lia]); auto.
  - apply lookup_remove_eq.
  - apply lookup_remove_neq. assumption.
Qed.

Lemma cleanup_off cfg st t d : st_off (cleanup cfg st t d) = st_off st.
Proof. unfold cleanup. destruct (lookup t (st_task st)); reflexivity. Qed.

Lemma cleanup_sys cfg st t d :
  ((lookup t (st_task st) = None \/
    exists br, lookup t (st_task st) = Some br /\ nth_error (st_sys st) (fst (sys_of cfg br)) = None) /\
   st_sys (cleanup cfg st t d) = st_sys st) \/
  exists br rs, lookup t (st_task st) = Some br /\ nth_error (st_sys st) (fst (sys_of cfg br)) = Some rs /\
    st_sys (cleanup cfg st t d) = set_nth (fst (sys_of cfg br)) (rs_on_task_remove rs t) (st_sys st).
Proof.
  unfold cleanup. destruct (lookup t (st_task st)) as [br|]; simpl; [|left; auto].
  destruct (nth_error (st_sys st) (fst (sys_of cfg br))) as [rs|] eqn:E; [|left; split; [right; eauto|reflexivity]].
  right. exists br, rs. auto.
Qed.

(* ---- induction over reachable states ---------------------------------------------------------- *)
Lemma run_from_snoc_inv cfg : forall evs st ev st' os', run_from cfg st (evs ++ [ev]) = Ok (st', os') ->
  exists st1 os1 o, run_from cfg st evs = Ok (st1, os1) /\ step cfg st1 ev = Ok (st', o) /\ os' = os1 ++ [o].
Proof.
  induction evs as [|e evs IH]; intros st ev st' os' H; simpl in *.
  - destruct (step cfg st ev) as [[st1 o]|] eqn:Es; [|discriminate]. inv H.
    exists st, [], o. auto.
  - destruct (step cfg st e) as [[st1 o1]|] eqn:Es; [|discriminate].
    destruct (run_from cfg st1 (evs ++ [ev])) as [[st2 os2]|] eqn:Er; [|discriminate]. inv H.
    destruct (IH _ _ _ _ Er) as [st3 [os3 [o [Hr [Hs Ho]]]]]. rewrite Hr.
    exists st3, (o1 :: os3), o. subst os2. auto.
Qed.

Lemma reach_ind cfg (P : state -> Prop) :
  P (init cfg) ->
  (forall evs st os ev st' o, run cfg evs = Ok (st, os) -> P st -> step cfg st ev = Ok (st', o) -> P st') ->
  forall evs st os, run cfg evs = Ok (st, os) -> P st.
Proof.
  intros H0 Hstep evs. induction evs as [|ev evs IH] using rev_ind; intros st os H.
  - inv H. exact H0.
  - apply run_from_snoc_inv in H as [st1 [os1 [o [Hr [Hs _]]]]]. eapply Hstep; eauto.
Qed.

(* ---- which entry the scan returns; on_task_schedule never raises ------------------------------ *)
Lemma find_promotable_id cfg thr r b thr' t pos : find_promotable cfg thr r b = (thr', Some (t, pos)) ->
  exists e, nth_error (r_data r) pos = Some e /\ e_id e = t /\ e_prom e = false.
Proof.
  unfold find_promotable, find_promotable_metric, find_promotable_cost. intro H.
  destruct (c_variant cfg) eqn:Ev.
  1,2,4: destruct (quantile (c_mode cfg) r); [|discriminate];
    destruct (find_first (admissible cfg thr (r_level r)) (r_data r) 0) as [[e p]|] eqn:Ef; [|discriminate];
    destruct (accept _ b); [|discriminate]; inv H;
    apply find_first_some in Ef as [k [Hk [Hn [Ha _]]]]; simpl in Hk; subst k;
    exists e; split; [exact Hn|]; split; [reflexivity|]; eapply admissible_unprom; eauto.
  injection H as _ H. destruct (1 <? length (r_data r))%nat; [|discriminate].
  apply (cost_scan_some _ _ _ (r_data r) (r_data r) [] t pos eq_refl) in H.
  destruct H as [e [Hn [Hid [Hp _]]]]. exists e. auto.
Qed.

Lemma scan_id cfg cap b : forall rungs j0 next thr thr' j t pos lvl nxt,
  scan cfg cap b rungs j0 next thr = (thr', Some (j, t, pos, lvl, nxt)) ->
  exists k r e, j = (j0 + k)%nat /\ nth_error rungs k = Some r /\ lvl = r_level r /\
    nth_error (r_data r) pos = Some e /\ e_id e = t /\ e_prom e = false.
Proof.
  induction rungs as [|r rest IH]; intros j0 next thr thr' j t pos lvl nxt H; simpl in H; [discriminate|].
  destruct (r_level r <? cap)%Z.
  - destruct (find_promotable cfg thr r (bres_at b (r_level r))) as [thr1 [[t1 p1]|]] eqn:Ef.
    + inv H. apply find_promotable_id in Ef as [e [Hn [Hid Hp]]].
      exists 0%nat, r, e. split; [lia|]. repeat split; auto.
    + apply IH in H as [k [r1 [e [Hj [Hn Hrest]]]]]. exists (S k), r1, e. split; [lia|]. split; [exact Hn|exact Hrest].
  - apply IH in H as [k [r1 [e [Hj [Hn Hrest]]]]]. exists (S k), r1, e. split; [lia|]. split; [exact Hn|exact Hrest].
Qed.

Lemma sched_ok cfg rs b : exists rs' p, rs_on_task_schedule cfg rs b = Ok (rs', p).
Proof.
  unfold rs_on_task_schedule.
  destruct (scan cfg (eff_max cfg rs) b (rs_rungs rs) 0 (c_max_t cfg) (rs_thr rs))
    as [thr' [[[[[j t] pos] lvl] nxt]|]] eqn:Es; [|eauto].
  apply scan_id in Es as [k [r [e [Hj [Hn [_ [He [_ Hp]]]]]]]]. simpl in Hj. subst k.
  rewrite Hn. unfold mark_as_promoted. rewrite He, Hp. eauto.
Qed.

Lemma sched_shape_id cfg rs b rs' j t from nxt : rs_on_task_schedule cfg rs b = Ok (rs', Some (j, t, from, nxt)) ->
  exists pos r e, nth_error (rs_rungs rs) j = Some r /\ nth_error (r_data r) pos = Some e /\ e_id e = t /\
    e_prom e = false /\ r_level r = from /\
    rs_rungs rs' = set_nth j (promoted_rung (c_mode cfg) r pos e) (rs_rungs rs).
Proof.
  intro H. apply sched_shape in H as [_ [_ [_ [[Hp _]|[j1 [t1 [from1 [nxt1 [pos [r [e [thr' [Hp [Hscan [Hn [He [Hprom Hr]]]]]]]]]]]]]]]]];
    [discriminate|]. inv Hp.
  apply scan_id in Hscan as [k [r2 [e2 [Hj [Hn2 [Hl [He2 [Hid _]]]]]]]]. simpl in Hj. subst k.
  assert (r2 = r) by congruence. subst r2. assert (e2 = e) by congruence. subst e2.
  exists pos, r, e. repeat split; auto.
Qed.

(* ---- counting the unpromoted entries of a trial ------------------------------------------------- *)
Definition umatch (t : Z) (e : entry) : bool := Z.eqb (e_id e) t && negb (e_prom e).
Definition ucount_data (t : Z) (l : list entry) : nat := length (filter (umatch t) l).
Definition ucount_rs (t : Z) (rs : rsys) : nat := list_sum (map (fun r => ucount_data t (r_data r)) (rs_rungs rs)).
Definition ucount (t : Z) (st : state) : nat := list_sum (map (ucount_rs t) (st_sys st)).
Definition b2n (b : bool) : nat := if b then 1%nat else 0%nat.

Lemma ucount_insert md t e : forall l, ucount_data t (insert md e l) = (b2n (umatch t e) + ucount_data t l)%nat.
Proof.
  unfold ucount_data. induction l as [|x r IH]; simpl.
  - destruct (umatch t e); reflexivity.
  - destruct (better_lt md (e_metric e) (e_metric x)); simpl.
    + destruct (umatch t e); simpl; reflexivity.
    + destruct (umatch t x); simpl; rewrite IH; lia.
Qed.

Lemma ucount_remove_nth t : forall l n e, nth_error l n = Some e ->
  (ucount_data t (remove_nth n l) + b2n (umatch t e))%nat = ucount_data t l.
Proof.
  unfold ucount_data. induction l as [|x r IH]; intros [|n] e H; simpl in *; try discriminate.
  - inv H. destruct (umatch t e); simpl; lia.
  - specialize (IH _ _ H). destruct (umatch t x); simpl; lia.
Qed.

Lemma list_sum_set_nth {A} (f : A -> nat) : forall l n x y, nth_error l n = Some y ->
  (list_sum (map f (set_nth n x l)) + f y)%nat = (list_sum (map f l) + f x)%nat.
Proof.
  induction l as [|a l IH]; intros [|n] x y H; simpl in *; try discriminate.
  - inv H. lia.
  - specialize (IH _ x _ H). lia.
Qed.

Lemma umatch_set_prom t e : umatch t (set_prom e) = false.
Proof. unfold umatch. simpl. apply andb_false_r. Qed.

Lemma sched_count cfg rs b rs' p t : rs_on_task_schedule cfg rs b = Ok (rs', p) ->
  (ucount_rs t rs' + match p with Some (_, t0, _, _) => b2n (Z.eqb t0 t) | None => 0 end)%nat = ucount_rs t rs.
Proof.
  intro H. destruct p as [[[[j t0] from] nxt]|].
  - apply sched_shape_id in H as [pos [r [e [Hn [He [Hid [Hp [_ Hr]]]]]]]].
    unfold ucount_rs. rewrite Hr.
    pose proof (list_sum_set_nth (fun r => ucount_data t (r_data r)) _ _ (promoted_rung (c_mode cfg) r pos e) _ Hn) as Hs.
    simpl in Hs. rewrite ucount_insert, umatch_set_prom in Hs. simpl in Hs.
    pose proof (ucount_remove_nth t _ _ _ He) as Hrm.
    assert (Hm : umatch t e = Z.eqb t0 t).
    { unfold umatch. rewrite Hid, Hp. simpl. apply andb_true_r. }
    rewrite Hm in Hrm. lia.
  - apply sched_shape in H as [_ [_ [_ [[_ [Hr _]]|[j1 [t1 [from1 [nxt1 [pos [r [e [thr' [Hp _]]]]]]]]]]]]]; [|discriminate].
    unfold ucount_rs. rewrite Hr. lia.
Qed.

Lemma report_count cfg rs t r m c eps rs' info t' : rs_on_task_report cfg rs t r m c eps = Ok (rs', info) ->
  ucount_rs t' rs' = ucount_rs t' rs \/
  (ri_reached info = true /\ ucount_rs t' rs' = (ucount_rs t' rs + b2n (Z.eqb t t'))%nat).
Proof.
  intro H. apply report_shape in H as [rs1 [Hp [Hr _]]].
  apply promo_report_shape in Hp as [_ [_ [_ [_ [Hr1|[p [rg [Hn [_ [_ [Hreach Hr1]]]]]]]]]]];
    unfold ucount_rs; rewrite Hr, Hr1; [left; reflexivity|].
  right. split; [exact Hreach|].
  pose proof (list_sum_set_nth (fun r => ucount_data t' (r_data r)) _ _ (added_rung (c_mode cfg) rg (mkE t m c false)) _ Hn) as Hs.
  simpl in Hs. rewrite ucount_insert in Hs. unfold umatch in Hs. simpl in Hs. rewrite andb_true_r in Hs. lia.
Qed.

Lemma ucount_set_nth t st sid rs rs' task active off : nth_error (st_sys st) sid = Some rs ->
  (ucount t (mkS (set_nth sid rs' (st_sys st)) task active off) + ucount_rs t rs)%nat = (ucount t st + ucount_rs t rs')%nat.
Proof. intro H. unfold ucount. simpl. apply list_sum_set_nth. exact H. Qed.

Lemma ucount_cleanup cfg st t d t' : ucount t' (cleanup cfg st t d) = ucount t' st.
Proof.
  unfold ucount. destruct (cleanup_sys cfg st t d) as [[_ ->]|[br [rs [_ [Hn ->]]]]]; [reflexivity|].
  pose proof (list_sum_set_nth (ucount_rs t') _ _ (rs_on_task_remove rs t) _ Hn) as Hs.
  assert (ucount_rs t' (rs_on_task_remove rs t) = ucount_rs t' rs) by reflexivity. lia.
Qed.

(* ---- invariant: a running trial has no unpromoted entry, any other trial at most one ------------ *)
(* tuner protocol: on_trial_complete / on_trial_error are only called for trials that are running *)
Definition proto_ok (st : state) (ev : event) : Prop :=
  match ev with
  | Complete t | Fail t => exists ti, lookup t (st_active st) = Some ti /\ ti_dec ti = CONTINUE
  | _ => True
  end.

(* [strict = true]: additionally (under the tuner protocol) a trial holding an unpromoted entry is PAUSEd *)
Definition U_inv (strict : bool) (st : state) : Prop :=
  forall t, match lookup t (st_active st) with
            | None => ucount t st = 0%nat
            | Some ti => (ti_dec ti = CONTINUE -> ucount t st = 0%nat) /\ (ucount t st <= 1)%nat /\
                         (strict = true -> (1 <= ucount t st)%nat -> ti_dec ti = PAUSE)
            end.

Lemma U_same_counts strict st st' t0 : U_inv strict st ->
  (forall t, ucount t st' = ucount t st) ->
  (forall t, t <> t0 -> lookup t (st_active st') = lookup t (st_active st)) ->
  match lookup t0 (st_active st') with
  | None => lookup t0 (st_active st) = None
  | Some ti' => exists ti, lookup t0 (st_active st) = Some ti /\ (ti_dec ti' = CONTINUE -> ti_dec ti = CONTINUE) /\
                  (ti_dec ti' = ti_dec ti \/ ti_dec ti' = PAUSE \/ (strict = true -> ti_dec ti = CONTINUE))
  end ->
  U_inv strict st'.
Proof.
  intros HU Hc Hother H0 t. rewrite Hc. destruct (Z.eq_dec t t0) as [->|Hne].
  - specialize (HU t0). destruct (lookup t0 (st_active st')) as [ti'|].
    + destruct H0 as [ti [Hl [Hd Hp]]]. rewrite Hl in HU. destruct HU as [H1 [H2 H3]].
      split; [auto|]. split; [exact H2|]. intros Hs Hge.
      destruct Hp as [Hp|[Hp|Hp]]; [rewrite Hp; auto|exact Hp|]. specialize (H1 (Hp Hs)). lia.
    + rewrite H0 in HU. exact HU.
  - rewrite Hother by exact Hne. apply HU.
Qed.

Lemma report_reached cfg rs t r m c eps rs' info : rs_on_task_report cfg rs t r m c eps = Ok (rs', info) ->
  ri_reached info = true -> run_inv rs -> ri_continues info = false /\ ri_ignore info = false.
Proof.
  intros H Hreach HK.
  destruct (lookup t (rs_running rs)) as [[ms rf]|] eqn:El.
  - pose proof (report_result_cases cfg rs t r m c eps ms rf El) as Hc. rewrite H in Hc.
    destruct Hc as [_ [Hr [Hcont Hign]]]. rewrite Hreach in Hr. rewrite <- Hr in Hcont. split; [exact Hcont|].
    rewrite Hign. destruct rf as [f|]; [|reflexivity]. apply HK in El. lia.
  - apply report_shape in H as [rs1 [Hp _]]. unfold promo_on_task_report in Hp. rewrite El in Hp. discriminate.
Qed.

Lemma U_step strict cfg evs st os ev st' o : run cfg evs = Ok (st, os) -> U_inv strict st ->
  (strict = true -> proto_ok st ev) -> step cfg st ev = Ok (st', o) -> U_inv strict st'.
Proof.
  intros Hrun HU Hproto Hstep. destruct ev as [n br b got|t|t r m c eps|t|t|t]; simpl in Hstep.
  - (* suggest *)
    apply suggest_shape in Hstep as [rs [rs1 [p [Hn [Hs Hp]]]]].
    assert (Hcount : forall t' x task active off,
      (ucount t' (mkS (set_nth (fst (sys_of cfg br)) (set_running rs1 x) (st_sys st)) task active off)
       + match p with Some (_, t0, _, _) => b2n (Z.eqb t0 t') | None => 0 end)%nat = ucount t' st).
    { intros t' x task active off.
      pose proof (ucount_set_nth t' st _ rs (set_running rs1 x) task active off Hn) as H1.
      pose proof (sched_count cfg rs b rs1 p t' Hs) as H2.
      assert (ucount_rs t' (set_running rs1 x) = ucount_rs t' rs1) by reflexivity. lia. }
    destruct p as [[[[j t] rf] ms]|].
    + destruct Hp as [_ [ti [Hl [Hd [-> _]]]]]. intro t'.
      specialize (Hcount t' (update t (ms, Some rf) (rs_running rs1)) (update t br (st_task st))
                         (update t (mkTI CONTINUE (ti_lur ti)) (st_active st)) (st_off st)).
      specialize (HU t'). simpl st_active. destruct (Z.eq_dec t' t) as [->|Hne].
      * rewrite lookup_update_eq. rewrite Hl in HU. rewrite Z.eqb_refl in Hcount. simpl in Hcount.
        destruct HU as [_ [HU _]]. simpl. split; [intros _; lia|]. split; [lia|]. intros _ Hge. lia.
      * rewrite lookup_update_neq by exact Hne. assert (Ht : (t =? t')%Z = false) by lia. rewrite Ht in Hcount.
        simpl in Hcount. rewrite Nat.add_0_r in Hcount. rewrite Hcount. exact HU.
    + destruct Hp as [[_ [_ ->]]|[_ [Hl [_ ->]]]].
      * replace rs1 with (set_running rs1 (rs_running rs1)) by (destruct rs1; reflexivity).
        intro t'. specialize (Hcount t' (rs_running rs1) (st_task st) (st_active st) (st_off st)).
        simpl in Hcount. rewrite Nat.add_0_r in Hcount. rewrite Hcount. apply HU.
      * intro t'. unfold rs_on_task_add_new.
        specialize (Hcount t' (update n (first_milestone cfg rs1 (snd (sys_of cfg br)), None) (rs_running rs1))
                           (update n br (st_task st)) (update n (mkTI CONTINUE None) (st_active st)) (st_off st)).
        simpl in Hcount. rewrite Nat.add_0_r in Hcount. rewrite Hcount. simpl st_active.
        specialize (HU t'). destruct (Z.eq_dec t' n) as [->|Hne].
        -- rewrite lookup_update_eq. rewrite Hl in HU. simpl. split; [intros _; lia|]. split; [lia|]. intros _ Hge. lia.
        -- rewrite lookup_update_neq by exact Hne. exact HU.
  - inv Hstep. exact HU.
  - (* report *)
    destruct (on_trial_result cfg st t r m c eps) as [[st1 d]|] eqn:E; [|discriminate]. inv Hstep.
    apply on_trial_result_shape in E as [_ [ti [Hl [[_ [-> _]]|[Hd [br [rs [rs' [info [off' [lur' [Ht [Hn [Hout Hcases]]]]]]]]]]]]]];
      [exact HU|].
    assert (HK := reach_run_inv _ _ _ _ _ _ Hrun Hn).
    assert (Hcnt : forall t' task active off,
       ucount t' (mkS (set_nth (fst (sys_of cfg br)) rs' (st_sys st)) task active off) = ucount t' st \/
       (ri_continues info = false /\ ri_ignore info = false /\ (r <? c_max_t cfg)%Z = true /\
        ucount t' (mkS (set_nth (fst (sys_of cfg br)) rs' (st_sys st)) task active off) = (ucount t' st + b2n (Z.eqb t t'))%nat)).
    { intros t' task active off.
      pose proof (ucount_set_nth t' st _ rs rs' task active off Hn) as H1.
      unfold report_outcome in Hout. destruct (r <? c_max_t cfg)%Z.
      - destruct (report_count _ _ _ _ _ _ _ _ _ t' Hout) as [Hc|[Hreach Hc]].
        + left. lia.
        + right. destruct (report_reached _ _ _ _ _ _ _ _ _ Hout Hreach HK) as [Hcont Hign].
          split; [exact Hcont|]. split; [exact Hign|]. split; [reflexivity|]. lia.
      - inv Hout. left. lia. }
    specialize (HU t) as HUt. rewrite Hl in HUt. destruct HUt as [HUt0 _]. specialize (HUt0 Hd).
    destruct Hcases as [[Hign [-> _]]|[[Hign [Hcont [-> _]]]|[Hign [Hcont [-> Hdd]]]]].
    + (* ignored *)
      apply (U_same_counts strict st _ t); auto.
      * intro t'. destruct (Hcnt t' (st_task st) (st_active st) off') as [Hc|[_ [Hi _]]]; [exact Hc|congruence].
      * simpl. rewrite Hl. exists ti. split; [reflexivity|]. split; [auto|]. left. reflexivity.
    + apply (U_same_counts strict st _ t); auto.
      * intro t'. destruct (Hcnt t' (st_task st) (update t (mkTI CONTINUE lur') (st_active st)) off') as [Hc|[Hc' _]];
          [exact Hc|congruence].
      * intros t' Hne. simpl. apply lookup_update_neq. exact Hne.
      * simpl. rewrite lookup_update_eq. exists ti. split; [exact Hl|]. split; [auto|]. left. simpl. congruence.
    + (* paused / stopped *)
      intro t'. rewrite ucount_cleanup, cleanup_active. simpl st_active. rewrite lookup_update_eq.
      assert (Hdne : d <> CONTINUE) by (rewrite Hdd; destruct (c_max_t cfg <=? r)%Z; discriminate).
      destruct (Hcnt t' (st_task st) (update t (mkTI CONTINUE lur') (st_active st)) off') as [Hc|[_ [_ [Hlt Hc]]]]; rewrite Hc.
      * specialize (HU t'). destruct (Z.eqb t' t) eqn:Et.
        -- assert (t' = t) by lia. subst t'. simpl. split; [intro; contradiction|]. split; [lia|]. intros _ Hge. lia.
        -- rewrite lookup_update_neq by lia. exact HU.
      * specialize (HU t'). destruct (Z.eqb t' t) eqn:Et.
        -- assert (t' = t) by lia. subst t'. rewrite Z.eqb_refl. simpl. split; [intro; contradiction|]. split; [lia|].
           intros _ _. rewrite Hdd. assert (Hle : (c_max_t cfg <=? r)%Z = false) by lia. rewrite Hle. reflexivity.
        -- rewrite lookup_update_neq by lia. assert (Ht' : (t =? t')%Z = false) by lia. rewrite Ht'. simpl.
           rewrite Nat.add_0_r. exact HU.
  - (* remove *)
    inv Hstep. apply (U_same_counts strict st _ t); auto.
    + intro t'. apply ucount_cleanup.
    + intros t' Hne. rewrite cleanup_active. assert (Ht' : (t' =? t)%Z = false) by lia. rewrite Ht'. reflexivity.
    + rewrite cleanup_active, Z.eqb_refl. destruct (lookup t (st_active st)) as [ti|]; [|reflexivity].
      exists ti. split; [reflexivity|]. simpl. split; [discriminate|]. right. left. reflexivity.
  - destruct (lookup t (st_active st)) as [ti0|] eqn:El0; [|discriminate]. inv Hstep.
    apply (U_same_counts strict st _ t); auto.
    + intro t'. apply ucount_cleanup.
    + intros t' Hne. rewrite cleanup_active. assert (Ht' : (t' =? t)%Z = false) by lia. rewrite Ht'. reflexivity.
    + rewrite cleanup_active, Z.eqb_refl, El0. exists ti0. split; [reflexivity|]. simpl. split; [discriminate|].
      right. right. intro Hs. destruct (Hproto Hs) as [ti1 [Hl1 Hd1]]. congruence.
  - inv Hstep. apply (U_same_counts strict st _ t); auto.
    + intro t'. apply ucount_cleanup.
    + intros t' Hne. rewrite cleanup_active. assert (Ht' : (t' =? t)%Z = false) by lia. rewrite Ht'. reflexivity.
    + rewrite cleanup_active, Z.eqb_refl. destruct (lookup t (st_active st)) as [ti|] eqn:El0; [|reflexivity].
      exists ti. split; [reflexivity|]. simpl. split; [discriminate|].
      right. right. intro Hs. destruct (Hproto Hs) as [ti1 [Hl1 Hd1]]. congruence.
Qed.

Lemma list_sum_zero {A} (f : A -> nat) : forall l, (forall x, In x l -> f x = 0%nat) -> list_sum (map f l) = 0%nat.
Proof. induction l as [|a l IH]; intros H; simpl; [reflexivity|]. rewrite (H a), IH; auto; [|left; reflexivity]. intros; apply H; right; assumption. Qed.

Lemma U_init strict cfg : U_inv strict (init cfg).
Proof.
  intro t. simpl. unfold ucount. simpl. apply list_sum_zero. intros rs Hin.
  apply in_map_iff in Hin as [s [<- _]]. unfold ucount_rs, mk_sys. simpl.
  apply list_sum_zero. intros r Hr. apply in_rev in Hr. apply in_map_iff in Hr as [p [<- _]]. reflexivity.
Qed.

(* an event list that follows the protocol of [proto_ok] along the run from [st] *)
Fixpoint proto_from (cfg : config) (st : state) (evs : list event) : Prop :=
  match evs with
  | [] => True
  | ev :: rest => proto_ok st ev /\
                  match step cfg st ev with Ok (st', _) => proto_from cfg st' rest | Err _ => True end
  end.

Lemma proto_snoc cfg : forall evs st ev, proto_from cfg st (evs ++ [ev]) ->
  proto_from cfg st evs /\ (forall st1 os1, run_from cfg st evs = Ok (st1, os1) -> proto_ok st1 ev).
Proof.
  induction evs as [|e evs IH]; intros st ev H; simpl in *.
  - split; [exact I|]. intros st1 os1 Hr. inv Hr. apply H.
  - destruct H as [H0 H]. destruct (step cfg st e) as [[st' o]|] eqn:Es.
    + apply IH in H as [H1 H2]. split; [split; assumption|].
      intros st1 os1 Hr. destruct (run_from cfg st' evs) as [[st2 os2]|] eqn:Er; [|discriminate]. inv Hr. eauto.
    + split; [split; [assumption|exact I]|]. intros st1 os1 Hr. discriminate.
Qed.

Lemma reach_U cfg : forall evs st os, run cfg evs = Ok (st, os) -> U_inv false st.
Proof.
  apply reach_ind; [apply U_init|]. intros evs st os ev st' o Hrun HU Hstep.
  eapply U_step; eauto. discriminate.
Qed.

Lemma reach_U_strict cfg : forall evs st os, proto_from cfg (init cfg) evs -> run cfg evs = Ok (st, os) -> U_inv true st.
Proof.
  induction evs as [|ev evs IH] using rev_ind; intros st os Hp H.
  - inv H. apply U_init.
  - apply proto_snoc in Hp as [Hp Hok]. apply run_from_snoc_inv in H as [st1 [os1 [o [Hr [Hs _]]]]].
    eapply U_step; eauto.
Qed.

Lemma list_sum_ge {A} (f : A -> nat) : forall l n x, nth_error l n = Some x -> (f x <= list_sum (map f l))%nat.
Proof. induction l as [|a l IH]; intros [|n] x H; simpl in *; try discriminate; [inv H; lia|]. specialize (IH _ _ H). lia. Qed.

Lemma ucount_ge st s rs j r pos e : nth_error (st_sys st) s = Some rs -> nth_error (rs_rungs rs) j = Some r ->
  nth_error (r_data r) pos = Some e -> e_prom e = false -> (1 <= ucount (e_id e) st)%nat.
Proof.
  intros Hs Hj Hp Hprom.
  pose proof (list_sum_ge (ucount_rs (e_id e)) _ _ _ Hs) as H1.
  pose proof (list_sum_ge (fun r => ucount_data (e_id e) (r_data r)) _ _ _ Hj) as H2.
  assert (H3 : (1 <= ucount_data (e_id e) (r_data r))%nat).
  { unfold ucount_data. apply nth_error_In in Hp.
    assert (Hin : In e (filter (umatch (e_id e)) (r_data r))).
    { apply filter_In. split; [exact Hp|]. unfold umatch. rewrite Z.eqb_refl, Hprom. reflexivity. }
    destruct (filter (umatch (e_id e)) (r_data r)); [destruct Hin|simpl; lia]. }
  unfold ucount, ucount_rs in *. lia.
Qed.

(* ---- the assertions of _promote_trial / on_task_add / _mark_as_promoted never fail ------------------- *)
Lemma suggest_no_assert cfg evs st os n br b got :
  cfg_wf cfg -> run cfg evs = Ok (st, os) -> suggest cfg st n br b got <> Err EAssert.
Proof.
  intros Hcfg Hrun. unfold suggest. destruct (sys_of cfg br) as [sid skip] eqn:Esys.
  destruct (nth_error (st_sys st) sid) as [rs|] eqn:En; [|discriminate].
  destruct (sched_ok cfg rs b) as [rs1 [p Hs]]. rewrite Hs.
  destruct p as [[[[j t] rf] ms]|].
  2: { destruct (negb got); [discriminate|]. destruct (lookup n (st_active st)); discriminate. }
  (* resume_from < milestone *)
  assert (Hlt : (rf < ms)%Z).
  { destruct (reach_wf _ _ _ _ _ _ Hrun En) as [Hlv Hsorted].
    assert (Hnd : NoDup (map r_level (rs_rungs rs))) by (rewrite Hlv; apply static_levels_nodup; exact Hcfg).
    assert (Hs2 := Hs).
    apply sched_shape in Hs2 as [_ [_ [_ [[Hp _]|[j1 [t1 [from1 [nxt1 [pos1 [r1 [e1 [thr' [Hp [Hscan _]]]]]]]]]]]]]]; [discriminate|].
    injection Hp as Hj1 Ht1 Hf1 Hn1. subst j1 t1 from1 nxt1.
    pose proof (scan_spec cfg (eff_max cfg rs) b (rs_thr rs) (rs_rungs rs) 0 (c_max_t cfg) (rs_thr rs)
                  (fun _ _ => eq_refl) Hnd Hsorted) as Hspec.
    rewrite Hscan in Hspec. destruct Hspec as [pre [r2 [post [Hrungs [Hj [Hl2 [_ [Hnxt _]]]]]]]].
    simpl in Hj. rewrite Hnxt, (last_pre_next_above cfg pre r2 post), <- Hrungs.
    assert (Hdesc : StronglySorted Z.gt (map r_level (rs_rungs rs))) by (rewrite Hlv; apply static_levels_desc; exact Hcfg).
    assert (Hjl : nth_error (map r_level (rs_rungs rs)) (length pre) = Some rf).
    { rewrite nth_error_map, Hrungs, nth_error_app_mid. simpl. congruence. }
    unfold next_above. destruct (length pre) as [|j'] eqn:Elen.
    - assert (Hin : In rf (c_levels cfg)).
      { eapply static_levels_in. rewrite <- Hlv. eapply nth_error_In; eauto. }
      destruct Hcfg as [_ Hf]. rewrite Forall_forall in Hf. apply Hf in Hin. lia.
    - destruct (nth_error (rs_rungs rs) j') as [r'|] eqn:Er'.
      + assert (Hj' : nth_error (map r_level (rs_rungs rs)) j' = Some (r_level r')) by (rewrite nth_error_map, Er'; reflexivity).
        eapply (ss_gt_nth _ j' (S j')); eauto.
      + apply nth_error_None in Er'.
        assert (S j' < length (map r_level (rs_rungs rs)))%nat by (apply nth_error_Some; congruence).
        rewrite map_length in *. lia. }
  assert (Hs' := Hs). apply sched_shape_id in Hs' as [pos [r [e [Hnj [Hne [Hid [Hprom [Hlev _]]]]]]]].
  unfold rs_on_task_add_resumed. assert (E : (rf <? ms)%Z = true) by lia. rewrite E.
  (* the trial is known and not running *)
  pose proof (reach_U _ _ _ _ Hrun t) as HU.
  assert (Hge : (1 <= ucount t st)%nat) by (rewrite <- Hid; eapply ucount_ge; eauto).
  destruct (lookup t (st_active st)) as [ti|]; [|lia].
  destruct HU as [HU0 _]. destruct (decision_eqb (ti_dec ti) CONTINUE) eqn:Ed; [|discriminate].
  assert (ti_dec ti = CONTINUE) by (destruct (ti_dec ti); try discriminate; reflexivity).
  specialize (HU0 H). lia.
Qed.

Lemma promo_err_kinds cfg rs t r m c e : promo_on_task_report cfg rs t r m c = Err e -> e <> EAssert.
Proof.
  unfold promo_on_task_report. intro H.
  repeat (break_in H; try discriminate); inv H; discriminate.
Qed.

Lemma report_err_kinds cfg rs t r m c eps e : rs_on_task_report cfg rs t r m c eps = Err e -> e <> EAssert.
Proof.
  unfold rs_on_task_report, pasha_on_task_report. intro H.
  destruct (c_variant cfg); try (eapply promo_err_kinds; eauto; fail).
  destruct (promo_on_task_report cfg rs t r m c) as [[rs1 info]|e1] eqn:Ep.
  - destruct (pasha_after_report cfg rs1 t r m eps) as [rs3|e2] eqn:Ea; [discriminate|]. inv H.
    apply pasha_after_err in Ea as [->| ->]; discriminate.
  - inv H. eapply promo_err_kinds; eauto.
Qed.

Lemma on_trial_result_no_assert cfg st t r m c eps : on_trial_result cfg st t r m c eps <> Err EAssert.
Proof.
  unfold on_trial_result. intro H.
  destruct (r <? 1)%Z; [discriminate|].
  destruct (lookup t (st_active st)) as [ti|]; [|discriminate].
  destruct (negb (decision_eqb (ti_dec ti) CONTINUE)); [discriminate|].
  destruct (lookup t (st_task st)) as [br|]; [|discriminate].
  destruct (nth_error (st_sys st) (fst (sys_of cfg br))) as [rs|]; [|discriminate].
  match type of H with context [match ?X with Ok _ => _ | Err _ => _ end] =>
    destruct X as [[rs' info]|e] eqn:Ex end.
  - repeat (break_inner_in H; try discriminate).
  - inv H. destruct (r <? c_max_t cfg)%Z; [|discriminate]. eapply report_err_kinds; eauto.
Qed.

Lemma run_from_snoc_err cfg : forall evs st ev e, run_from cfg st (evs ++ [ev]) = Err e ->
  run_from cfg st evs = Err e \/ exists st1 os1, run_from cfg st evs = Ok (st1, os1) /\ step cfg st1 ev = Err e.
Proof.
  induction evs as [|e0 evs IH]; intros st ev e H; simpl in *.
  - right. exists st, []. split; [reflexivity|]. destruct (step cfg st ev) as [[st1 o]|]; [discriminate|congruence].
  - destruct (step cfg st e0) as [[st1 o1]|] eqn:Es; [|left; exact H].
    destruct (run_from cfg st1 (evs ++ [ev])) as [[st2 os2]|] eqn:Er; [discriminate|]. inv H.
    apply IH in Er as [Er|[st3 [os3 [Hr Hs]]]].
    + left. rewrite Er. reflexivity.
    + right. rewrite Hr. eauto.
Qed.

(* no event sequence makes an assertion of _promote_trial / on_task_add / _mark_as_promoted fail *)
Lemma run_no_assert cfg : cfg_wf cfg -> forall evs, run cfg evs <> Err EAssert.
Proof.
  intros Hcfg evs. induction evs as [|ev evs IH] using rev_ind; [discriminate|].
  intro H. apply run_from_snoc_err in H as [H|[st1 [os1 [Hr Hs]]]]; [exact (IH H)|].
  destruct ev; simpl in Hs; try discriminate.
  - eapply suggest_no_assert; eauto.
  - destruct (on_trial_result cfg st1 t resource metric cost eps) as [[st2 d]|e] eqn:E; [discriminate|].
    inv Hs. eapply on_trial_result_no_assert; eauto.
  - destruct (lookup t (st_active st1)); discriminate.
Qed.

(* ---- invariant: _task_info / _running hold exactly the running trials ---------------------------- *)
Definition R_inv (cfg : config) (st : state) : Prop :=
  (forall t br, lookup t (st_task st) = Some br ->
     exists ti, lookup t (st_active st) = Some ti /\ ti_dec ti = CONTINUE) /\
  (forall t s rs x, nth_error (st_sys st) s = Some rs -> lookup t (rs_running rs) = Some x ->
     exists br, lookup t (st_task st) = Some br /\ fst (sys_of cfg br) = s).

Lemma nth_set_nth_cases {A} (l : list A) sid (x : A) s y old : nth_error l sid = Some old ->
  nth_error (set_nth sid x l) s = Some y -> (s = sid /\ y = x) \/ (s <> sid /\ nth_error l s = Some y).
Proof.
  intros Ho H. destruct (Nat.eq_dec sid s) as [->|Hne].
  - rewrite (nth_error_set_nth_eq _ _ _ _ Ho) in H. inv H. left. auto.
  - rewrite nth_error_set_nth_neq in H by exact Hne. right. split; [congruence|exact H].
Qed.

Lemma R_sys_same cfg st sid rs rs' active' off' : R_inv cfg st ->
  nth_error (st_sys st) sid = Some rs -> rs_running rs' = rs_running rs ->
  (forall t br, lookup t (st_task st) = Some br -> exists ti, lookup t active' = Some ti /\ ti_dec ti = CONTINUE) ->
  R_inv cfg (mkS (set_nth sid rs' (st_sys st)) (st_task st) active' off').
Proof.
  intros [Ra Rb] Hn Hrun Hact. split; simpl; [exact Hact|].
  intros t s rs0 x Hs Hl. destruct (nth_set_nth_cases _ _ _ _ _ _ Hn Hs) as [[-> ->]|[_ Hs']].
  - rewrite Hrun in Hl. eapply Rb; eauto.
  - eapply Rb; eauto.
Qed.

Lemma R_add cfg st sid rs rs1 t br x l : R_inv cfg st ->
  nth_error (st_sys st) sid = Some rs -> rs_running rs1 = rs_running rs ->
  lookup t (st_task st) = None -> fst (sys_of cfg br) = sid ->
  R_inv cfg (mkS (set_nth sid (set_running rs1 (update t x (rs_running rs1))) (st_sys st))
                 (update t br (st_task st)) (update t (mkTI CONTINUE l) (st_active st)) (st_off st)).
Proof.
  intros [Ra Rb] Hn Hrun Hnone Hsid. split; simpl.
  - intros t' br' Hl. destruct (Z.eq_dec t' t) as [->|Hne].
    + rewrite lookup_update_eq. eauto.
    + rewrite lookup_update_neq by exact Hne. rewrite lookup_update_neq in Hl by exact Hne. eauto.
  - intros t' s rs0 x' Hs Hl. destruct (nth_set_nth_cases _ _ _ _ _ _ Hn Hs) as [[-> ->]|[Hne Hs']].
    + simpl in Hl. destruct (Z.eq_dec t' t) as [->|Hnet].
      * exists br. rewrite lookup_update_eq. auto.
      * rewrite lookup_update_neq by exact Hnet. rewrite lookup_update_neq in Hl by exact Hnet. rewrite Hrun in Hl. eapply Rb; eauto.
    + destruct (Z.eq_dec t' t) as [->|Hnet].
      * destruct (Rb _ _ _ _ Hs' Hl) as [br0 [Hbr0 _]]. congruence.
      * rewrite lookup_update_neq by exact Hnet. eapply Rb; eauto.
Qed.

Lemma R_cleanup cfg st t d : R_inv cfg st -> d <> CONTINUE -> R_inv cfg (cleanup cfg st t d).
Proof.
  intros [Ra Rb] Hd. split.
  - intros t' br Hl. rewrite cleanup_task in Hl. rewrite cleanup_active.
    destruct (Z.eqb t' t); [discriminate|]. eauto.
  - intros t' s rs0 x Hs Hl. rewrite cleanup_task.
    destruct (cleanup_sys cfg st t d) as [[Hwhy Heq]|[br [rs [Ht [Hn Heq]]]]]; rewrite Heq in Hs.
    + destruct (Rb _ _ _ _ Hs Hl) as [br0 [Hbr0 Hsid]]. destruct (Z.eqb t' t) eqn:Et; [|eauto].
      assert (t' = t) by lia. subst t'. exfalso.
      destruct Hwhy as [Hnone|[br1 [Hbr1 Hnth]]]; [congruence|].
      assert (br1 = br0) by congruence. subst br1. rewrite Hsid in Hnth. congruence.
    + destruct (nth_set_nth_cases _ _ _ _ _ _ Hn Hs) as [[-> ->]|[Hne Hs']].
      * simpl in Hl. destruct (Z.eqb t' t) eqn:Et.
        -- assert (t' = t) by lia. subst t'. rewrite lookup_remove_eq in Hl. discriminate.
        -- rewrite lookup_remove_neq in Hl by lia. eapply Rb; eauto.
      * destruct (Rb _ _ _ _ Hs' Hl) as [br0 [Hbr0 Hsid]]. destruct (Z.eqb t' t) eqn:Et; [|eauto].
        assert (t' = t) by lia. subst t'. congruence.
Qed.

Lemma R_task_none cfg st t : R_inv cfg st ->
  (forall ti, lookup t (st_active st) = Some ti -> ti_dec ti <> CONTINUE) ->
  lookup t (st_task st) = None /\ forall s rs, nth_error (st_sys st) s = Some rs -> lookup t (rs_running rs) = None.
Proof.
  intros [Ra Rb] Hd.
  assert (Hnone : lookup t (st_task st) = None).
  { destruct (lookup t (st_task st)) as [br|] eqn:E; [|reflexivity].
    destruct (Ra _ _ E) as [ti [Hl Hc]]. exfalso. eapply Hd; eauto. }
  split; [exact Hnone|]. intros s rs Hs. destruct (lookup t (rs_running rs)) as [x|] eqn:E; [|reflexivity].
  destruct (Rb _ _ _ _ Hs E) as [br [Hbr _]]. congruence.
Qed.

Lemma R_step cfg st ev st' o : R_inv cfg st -> step cfg st ev = Ok (st', o) -> R_inv cfg st'.
Proof.
  intros HR Hstep. destruct ev as [n br b got|t|t r m c eps|t|t|t]; simpl in Hstep.
  - apply suggest_shape in Hstep as [rs [rs1 [p [Hn [Hs Hp]]]]].
    assert (Hrun : rs_running rs1 = rs_running rs) by (apply sched_shape in Hs; apply Hs).
    destruct p as [[[[j t] rf] ms]|].
    + destruct Hp as [_ [ti [Hl [Hd [-> _]]]]].
      apply (R_add cfg st _ rs); auto.
      apply (R_task_none cfg st t HR). intros ti' Hl'. congruence.
    + destruct Hp as [[_ [_ ->]]|[_ [Hl [_ ->]]]].
      * apply (R_sys_same cfg st _ rs); auto. apply HR.
      * unfold rs_on_task_add_new. apply (R_add cfg st _ rs); auto.
        apply (R_task_none cfg st n HR). intros ti' Hl'. congruence.
  - inv Hstep. exact HR.
  - destruct (on_trial_result cfg st t r m c eps) as [[st1 d]|] eqn:E; [|discriminate]. inv Hstep.
    apply on_trial_result_shape in E as [_ [ti [Hl [[_ [-> _]]|[Hd [br [rs [rs' [info [off' [lur' [Ht [Hn [Hout Hcases]]]]]]]]]]]]]];
      [exact HR|].
    assert (Hrun : rs_running rs' = rs_running rs).
    { unfold report_outcome in Hout. destruct (r <? c_max_t cfg)%Z; [|inv Hout; reflexivity].
      apply report_shape in Hout as [rs1 [Hp [_ [Hr _]]]]. apply promo_report_shape in Hp as [Hr1 _]. congruence. }
    assert (HR1 : forall off, R_inv cfg (mkS (set_nth (fst (sys_of cfg br)) rs' (st_sys st)) (st_task st)
                                    (update t (mkTI CONTINUE lur') (st_active st)) off)).
    { intro off. apply (R_sys_same cfg st _ rs); auto. intros t' br' Hl'.
      destruct (Z.eq_dec t' t) as [->|Hne]; [rewrite lookup_update_eq; eauto|].
      rewrite lookup_update_neq by exact Hne. destruct HR as [Ra _]. eauto. }
    destruct Hcases as [[_ [-> _]]|[[_ [_ [-> _]]]|[_ [_ [-> Hdd]]]]].
    + apply (R_sys_same cfg st _ rs); auto. apply HR.
    + apply HR1.
    + apply R_cleanup; [apply HR1|]. rewrite Hdd. destruct (c_max_t cfg <=? r)%Z; discriminate.
  - inv Hstep. apply R_cleanup; [exact HR|discriminate].
  - destruct (lookup t (st_active st)); [|discriminate]. inv Hstep. apply R_cleanup; [exact HR|discriminate].
  - inv Hstep. apply R_cleanup; [exact HR|discriminate].
Qed.

Lemma R_init cfg : R_inv cfg (init cfg).
Proof.
  split; simpl; [intros; discriminate|]. intros t s rs x Hs Hl.
  apply nth_error_map_seq in Hs as [-> _]. simpl in Hl. discriminate.
Qed.

Lemma reach_R cfg : forall evs st os, run cfg evs = Ok (st, os) -> R_inv cfg st.
Proof.
  apply reach_ind; [apply R_init|]. intros evs st os ev st' o _ HR Hstep. eapply R_step; eauto.
Qed.

(* C04 resumes only paused: full statement *)
Lemma resumes_only_paused cfg evs st os n br b got st' t mra s j from nxt :
  cfg_wf cfg -> run cfg evs = Ok (st, os) ->
  suggest cfg st n br b got = Ok (st', OResume t mra s j from nxt) ->
  (exists ti, lookup t (st_active st) = Some ti /\ ti_dec ti <> CONTINUE /\
              (proto_from cfg (init cfg) evs -> ti_dec ti = PAUSE)) /\
  lookup t (st_task st) = None /\
  (forall s' rs, nth_error (st_sys st) s' = Some rs -> lookup t (rs_running rs) = None).
Proof.
  intros Hcfg Hrun H.
  destruct (resume_not_running _ _ _ _ _ _ _ _ _ _ _ _ _ H) as [[ti [Hl Hd]] _].
  assert (HR := reach_R _ _ _ _ Hrun).
  destruct (R_task_none cfg st t HR) as [Htask Hrunning]; [intros ti' Hl'; congruence|].
  split; [|split; assumption].
  exists ti. split; [exact Hl|]. split; [exact Hd|]. intro Hproto.
  pose proof (reach_U_strict _ _ _ _ Hproto Hrun t) as HU. rewrite Hl in HU. destruct HU as [_ [_ HU]].
  apply HU; [reflexivity|].
  destruct (eligibility_sound _ _ _ _ _ _ _ _ _ _ _ _ _ _ _ Hcfg Hrun H)
    as [rs [r [pos [e [_ [En [Hnj [_ [_ [[Hne _] [Hid [Hp _]]]]]]]]]]]].
  rewrite <- Hid. eapply ucount_ge; eauto.
Qed.

(* ---- consecutive reporting never skips a milestone ------------------------------------------------- *)
(* (milestone, resume_from) of a trial that is running with complete bookkeeping *)
Definition view (cfg : config) (st : state) (t : Z) : option (Z * option Z) :=
  match lookup t (st_active st), lookup t (st_task st) with
  | Some ti, Some br =>
      if decision_eqb (ti_dec ti) CONTINUE then
        match nth_error (st_sys st) (fst (sys_of cfg br)) with
        | Some rs => lookup t (rs_running rs)
        | None => None
        end
      else None
  | _, _ => None
  end.

Definition run_of (t : Z) (sys : list rsys) (s : nat) : option (option (Z * option Z)) :=
  option_map (fun rs => lookup t (rs_running rs)) (nth_error sys s).

Lemma view_ext cfg st st' t :
  option_map ti_dec (lookup t (st_active st')) = option_map ti_dec (lookup t (st_active st)) ->
  lookup t (st_task st') = lookup t (st_task st) ->
  (forall s, run_of t (st_sys st') s = run_of t (st_sys st) s) -> view cfg st' t = view cfg st t.
Proof.
  intros Ha Ht Hs. unfold view. rewrite Ht.
  destruct (lookup t (st_active st')) as [ti'|], (lookup t (st_active st)) as [ti|]; simpl in Ha; try discriminate;
    [|reflexivity].
  injection Ha as Ha. rewrite Ha.
  destruct (lookup t (st_task st)) as [br|]; [|reflexivity].
  destruct (decision_eqb (ti_dec ti) CONTINUE); [|reflexivity].
  specialize (Hs (fst (sys_of cfg br))). unfold run_of in Hs.
  destruct (nth_error (st_sys st') (fst (sys_of cfg br))), (nth_error (st_sys st) (fst (sys_of cfg br)));
    simpl in Hs; congruence.
Qed.

Lemma run_of_set_nth t sys sid rs rs' s : nth_error sys sid = Some rs ->
  lookup t (rs_running rs') = lookup t (rs_running rs) -> run_of t (set_nth sid rs' sys) s = run_of t sys s.
Proof.
  intros Hn Hl. unfold run_of. destruct (Nat.eq_dec sid s) as [<-|Hne].
  - rewrite (nth_error_set_nth_eq _ _ _ _ Hn), Hn. simpl. congruence.
  - rewrite nth_error_set_nth_neq by exact Hne. reflexivity.
Qed.

Lemma view_cleanup_other cfg st t d t' : t' <> t -> view cfg (cleanup cfg st t d) t' = view cfg st t'.
Proof.
  intro Hne. apply view_ext.
  - rewrite cleanup_active. assert (E : (t' =? t)%Z = false) by lia. rewrite E. reflexivity.
  - rewrite cleanup_task. assert (E : (t' =? t)%Z = false) by lia. rewrite E. reflexivity.
  - intro s. destruct (cleanup_sys cfg st t d) as [[_ ->]|[br [rs [_ [Hn ->]]]]]; [reflexivity|].
    apply (run_of_set_nth _ _ _ rs); [exact Hn|]. simpl. apply lookup_remove_neq. exact Hne.
Qed.

Lemma view_cleanup_self cfg st t d : view cfg (cleanup cfg st t d) t = None.
Proof.
  unfold view. rewrite cleanup_task, Z.eqb_refl. destruct (lookup t (st_active (cleanup cfg st t d))); reflexivity.
Qed.

Lemma view_some cfg st t ms rf : view cfg st t = Some (ms, rf) ->
  exists ti br rs, lookup t (st_active st) = Some ti /\ ti_dec ti = CONTINUE /\ lookup t (st_task st) = Some br /\
    nth_error (st_sys st) (fst (sys_of cfg br)) = Some rs /\ lookup t (rs_running rs) = Some (ms, rf).
Proof.
  unfold view. intro H. destruct (lookup t (st_active st)) as [ti|] eqn:Ea; [|discriminate].
  destruct (lookup t (st_task st)) as [br|] eqn:Et; [|discriminate].
  destruct (decision_eqb (ti_dec ti) CONTINUE) eqn:Ed; [|discriminate].
  destruct (nth_error (st_sys st) (fst (sys_of cfg br))) as [rs|] eqn:En; [|discriminate].
  exists ti, br, rs. split; [reflexivity|]. split; [destruct (ti_dec ti); try discriminate; reflexivity|].
  split; [reflexivity|]. split; [exact En|exact H].
Qed.

Lemma view_intro cfg st t ti br rs : lookup t (st_active st) = Some ti -> ti_dec ti = CONTINUE ->
  lookup t (st_task st) = Some br -> nth_error (st_sys st) (fst (sys_of cfg br)) = Some rs ->
  view cfg st t = lookup t (rs_running rs).
Proof. intros Ha Hd Ht Hn. unfold view. rewrite Ha, Ht, Hd, Hn. reflexivity. Qed.

Definition lastv (t : Z) (last : list (Z * Z)) : Z := match lookup t last with Some v => v | None => 0%Z end.
Lemma lastv_update_eq t v last : lastv t (update t v last) = v.
Proof. unfold lastv. rewrite lookup_update_eq. reflexivity. Qed.
Lemma lastv_update_neq t t' v last : t' <> t -> lastv t' (update t v last) = lastv t' last.
Proof. intro H. unfold lastv. rewrite lookup_update_neq by exact H. reflexivity. Qed.

Definition is_running (st : state) (t : Z) : bool :=
  match lookup t (st_active st) with Some ti => decision_eqb (ti_dec ti) CONTINUE | None => false end.

(* consecutive reporting: a running trial's report is one above its previous report in this run; a new
   trial starts at 1; a resumed trial continues after resume_from (checkpoint) or restarts at 1
   (no checkpointing) — chosen per resume.  [last] is the ghost map trial -> last reported level *)
Definition report_ok (st : state) (last : list (Z * Z)) (ev : event) : Prop :=
  match ev with
  | Report t r _ _ _ => is_running st t = true -> r = (lastv t last + 1)%Z
  | _ => True
  end.
Fixpoint consecutive (cfg : config) (st : state) (last : list (Z * Z)) (evs : list event) : Prop :=
  match evs with
  | [] => True
  | ev :: rest =>
      report_ok st last ev /\
      match step cfg st ev with
      | Err _ => True
      | Ok (st', o) =>
          match ev, o with
          | Report t r _ _ _, _ => consecutive cfg st' (update t r last) rest
          | _, OStart t _ => consecutive cfg st' (update t 0%Z last) rest
          | _, OResume t _ _ _ from _ =>
              consecutive cfg st' (update t 0%Z last) rest \/ consecutive cfg st' (update t from last) rest
          | _, _ => consecutive cfg st' last rest
          end
      end
  end.

Definition G_inv (cfg : config) (st : state) (last : list (Z * Z)) : Prop :=
  forall t ms rf, view cfg st t = Some (ms, rf) -> (lastv t last < ms)%Z.

(* rung levels are positive *)
Definition cfg_pos (cfg : config) : Prop := Forall (fun l => (1 <= l)%Z) (c_levels cfg) /\ (1 <= c_max_t cfg)%Z.

Lemma is_level_pos cfg v : cfg_pos cfg -> is_level cfg v -> (1 <= v)%Z.
Proof. intros [Hf Hm] [Hin| ->]; [|exact Hm]. rewrite Forall_forall in Hf. auto. Qed.

Lemma G_update_other cfg st st' last t v :
  (forall t', t' <> t -> view cfg st' t' = view cfg st t') ->
  (forall ms rf, view cfg st' t = Some (ms, rf) -> (v < ms)%Z) ->
  G_inv cfg st last -> G_inv cfg st' (update t v last).
Proof.
  intros Hother Hself HG t' ms rf Hv. destruct (Z.eq_dec t' t) as [->|Hne].
  - rewrite lastv_update_eq. eauto.
  - rewrite lastv_update_neq by exact Hne. rewrite Hother in Hv by exact Hne. eauto.
Qed.

Lemma G_same cfg st st' last :
  (forall t', view cfg st' t' = view cfg st t' \/ view cfg st' t' = None) ->
  G_inv cfg st last -> G_inv cfg st' last.
Proof. intros H HG t ms rf Hv. destruct (H t) as [He|He]; rewrite He in Hv; [eauto|discriminate]. Qed.

Lemma rung_level_pos cfg s rs j r : cfg_pos cfg -> rs_wf cfg (static_levels cfg s) rs ->
  nth_error (rs_rungs rs) j = Some r -> (1 <= r_level r)%Z.
Proof.
  intros [Hf _] [Hl _] Hn. rewrite Forall_forall in Hf. apply Hf. eapply static_levels_in. rewrite <- Hl.
  apply in_map. eapply nth_error_In; eauto.
Qed.

Definition G_post (cfg : config) (st' : state) (last : list (Z * Z)) (ev : event) (o : output) : Prop :=
  match ev, o with
  | Report t r _ _ _, _ => G_inv cfg st' (update t r last)
  | _, OStart t _ => G_inv cfg st' (update t 0%Z last)
  | _, OResume t _ _ _ from _ => G_inv cfg st' (update t 0%Z last) /\ G_inv cfg st' (update t from last)
  | _, _ => G_inv cfg st' last
  end.

Lemma G_step cfg evs st os last ev st' o : cfg_wf cfg -> cfg_pos cfg -> run cfg evs = Ok (st, os) ->
  G_inv cfg st last -> report_ok st last ev -> step cfg st ev = Ok (st', o) -> G_post cfg st' last ev o.
Proof.
  intros Hcfg Hpos Hrun HG Hok Hstep. destruct ev as [n br b got|t|t r m c eps|t|t|t]; simpl in Hstep.
  - (* suggest *)
    apply suggest_shape in Hstep as [rs [rs1 [p [Hn [Hs Hp]]]]].
    assert (Hwf := reach_wf _ _ _ _ _ _ Hrun Hn).
    assert (Hwf1 : rs_wf cfg (static_levels cfg (fst (sys_of cfg br))) rs1)
      by (eapply rs_trans_wf; [eapply T_sched; eauto|exact Hwf]).
    assert (Hrun1 : rs_running rs1 = rs_running rs) by (apply sched_shape in Hs; apply Hs).
    set (sid := fst (sys_of cfg br)) in *.
    assert (Hview_new : forall t x l t', t' <> t ->
      view cfg (mkS (set_nth sid (set_running rs1 (update t x (rs_running rs1))) (st_sys st))
                    (update t br (st_task st)) (update t (mkTI CONTINUE l) (st_active st)) (st_off st)) t'
      = view cfg st t').
    { intros t x l t' Hne. apply view_ext; simpl.
      - rewrite lookup_update_neq by exact Hne. reflexivity.
      - rewrite lookup_update_neq by exact Hne. reflexivity.
      - intro s. apply (run_of_set_nth _ _ _ rs); [exact Hn|]. simpl.
        rewrite lookup_update_neq by exact Hne. congruence. }
    assert (Hview_self : forall t x l,
      view cfg (mkS (set_nth sid (set_running rs1 (update t x (rs_running rs1))) (st_sys st))
                    (update t br (st_task st)) (update t (mkTI CONTINUE l) (st_active st)) (st_off st)) t = Some x).
    { intros t x l. unfold view. simpl. rewrite !lookup_update_eq. simpl. fold sid.
      rewrite (nth_error_set_nth_eq _ _ _ _ Hn). simpl. apply lookup_update_eq. }
    destruct p as [[[[j t] rf] ms]|].
    + destruct Hp as [Hlt [ti [Hl [Hd [-> ->]]]]]. simpl.
      apply sched_shape_id in Hs as [pos [r [e [Hnj [_ [_ [_ [Hlev _]]]]]]]].
      assert (Hrf : (1 <= rf)%Z) by (rewrite <- Hlev; exact (rung_level_pos cfg _ rs j r Hpos Hwf Hnj)).
      split; (apply (G_update_other cfg st); [intros t' Hne; apply Hview_new; exact Hne| |exact HG]);
        intros ms' rf' Hv; rewrite Hview_self in Hv; inv Hv; lia.
    + destruct Hp as [[_ [-> ->]]|[_ [Hl [-> ->]]]]; simpl.
      * apply (G_same cfg st); [|exact HG]. intro t'. left. apply view_ext; simpl; auto.
        intro s. apply (run_of_set_nth _ _ _ rs); [exact Hn|]. congruence.
      * unfold rs_on_task_add_new. apply (G_update_other cfg st); [intros t' Hne; apply Hview_new; exact Hne| |exact HG].
        intros ms' rf' Hv. rewrite Hview_self in Hv. inv Hv.
        assert (1 <= first_milestone cfg rs1 (snd (sys_of cfg br)))%Z; [|lia].
        apply (is_level_pos cfg); [exact Hpos|]. exact (first_milestone_level cfg _ rs1 _ Hwf1).
  - inv Hstep. exact HG.
  - (* report *)
    destruct (on_trial_result cfg st t r m c eps) as [[st1 d]|] eqn:E; [|discriminate]. inv Hstep. simpl.
    apply on_trial_result_shape in E as [_ [ti [Hl [[Hd [-> _]]|[Hd [br [rs [rs' [info [off' [lur' [Ht [Hn [Hout Hcases]]]]]]]]]]]]]].
    { apply (G_update_other cfg st); [reflexivity| |exact HG]. intros ms rf Hv. apply view_some in Hv as [ti' [_ [_ [Hl' [Hd' _]]]]]. congruence. }
    assert (HK := reach_run_inv _ _ _ _ _ _ Hrun Hn).
    assert (Hr : r = (lastv t last + 1)%Z).
    { apply Hok. unfold is_running. rewrite Hl, Hd. reflexivity. }
    assert (Hrun' : rs_running rs' = rs_running rs).
    { unfold report_outcome in Hout. destruct (r <? c_max_t cfg)%Z; [|inv Hout; reflexivity].
      apply report_shape in Hout as [rs1 [Hp [_ [Hr' _]]]]. apply promo_report_shape in Hp as [Hr1 _]. congruence. }
    assert (Hview : forall active off' t', option_map ti_dec (lookup t' active) = option_map ti_dec (lookup t' (st_active st)) ->
              view cfg (mkS (set_nth (fst (sys_of cfg br)) rs' (st_sys st)) (st_task st) active off') t' = view cfg st t').
    { intros active off'' t' Ha. apply view_ext; simpl; auto.
      intro s. apply (run_of_set_nth _ _ _ rs); [exact Hn|]. congruence. }
    assert (Hact1 : forall t', option_map ti_dec (lookup t' (update t (mkTI CONTINUE lur') (st_active st)))
                             = option_map ti_dec (lookup t' (st_active st))).
    { intro t'. destruct (Z.eq_dec t' t) as [->|Hne].
      - rewrite lookup_update_eq, Hl. simpl. congruence.
      - rewrite lookup_update_neq by exact Hne. reflexivity. }
    assert (Hvt : view cfg st t = lookup t (rs_running rs)) by (eapply view_intro; eauto).
    assert (Hbelow : ri_ignore info = true \/ ri_continues info = true ->
                     forall ms rf, view cfg st t = Some (ms, rf) -> (r < ms)%Z).
    { intros Hor ms rf Hv. rewrite Hvt in Hv. unfold report_outcome in Hout.
      destruct (r <? c_max_t cfg)%Z.
      - pose proof (report_result_cases cfg rs t r m (total_cost cfg st t c) eps ms rf Hv) as Hc.
        rewrite Hout in Hc. destruct Hc as [Hle [_ [Hcont Hign]]]. destruct Hor as [Hi|Hc'].
        + rewrite Hi in Hign. destruct rf as [f|]; [|discriminate]. apply HK in Hv. lia.
        + rewrite Hc' in Hcont. destruct (r =? ms)%Z eqn:Eeq; [discriminate|]. lia.
      - inv Hout. simpl in Hor. destruct Hor; discriminate. }
    destruct Hcases as [[Hign [-> _]]|[[Hign [Hcont [-> _]]]|[Hign [Hcont [-> Hdd]]]]].
    + apply (G_update_other cfg st); [| |exact HG].
      * intros t' Hne. apply Hview. reflexivity.
      * intros ms rf Hv. rewrite Hview in Hv by reflexivity. eapply Hbelow; eauto.
    + apply (G_update_other cfg st); [| |exact HG].
      * intros t' Hne. apply Hview. apply Hact1.
      * intros ms rf Hv. rewrite Hview in Hv by apply Hact1. eapply Hbelow; eauto.
    + apply (G_update_other cfg st); [| |exact HG].
      * intros t' Hne. rewrite view_cleanup_other by exact Hne. apply Hview. apply Hact1.
      * intros ms rf Hv. rewrite view_cleanup_self in Hv. discriminate.
  - inv Hstep. simpl. apply (G_same cfg st); [|exact HG]. intro t'.
    destruct (Z.eq_dec t' t) as [->|Hne]; [right; apply view_cleanup_self|left; apply view_cleanup_other; exact Hne].
  - destruct (lookup t (st_active st)); [|discriminate]. inv Hstep. simpl. apply (G_same cfg st); [|exact HG]. intro t'.
    destruct (Z.eq_dec t' t) as [->|Hne]; [right; apply view_cleanup_self|left; apply view_cleanup_other; exact Hne].
  - inv Hstep. simpl. apply (G_same cfg st); [|exact HG]. intro t'.
    destruct (Z.eq_dec t' t) as [->|Hne]; [right; apply view_cleanup_self|left; apply view_cleanup_other; exact Hne].
Qed.

Lemma suggest_not_skipped cfg st n br b got : suggest cfg st n br b got <> Err ESkipped.
Proof.
  unfold suggest. destruct (sys_of cfg br) as [sid skip].
  destruct (nth_error (st_sys st) sid) as [rs|]; [|discriminate].
  destruct (sched_ok cfg rs b) as [rs1 [p Hs]]. rewrite Hs.
  destruct p as [[[[j t] rf] ms]|].
  - unfold rs_on_task_add_resumed. destruct (rf <? ms)%Z; [|discriminate].
    destruct (lookup t (st_active st)) as [ti|]; [|discriminate].
    destruct (decision_eqb (ti_dec ti) CONTINUE); discriminate.
  - destruct (negb got); [discriminate|]. destruct (lookup n (st_active st)); discriminate.
Qed.

Lemma report_skipped cfg rs t r m c eps : rs_on_task_report cfg rs t r m c eps = Err ESkipped ->
  exists ms rf, lookup t (rs_running rs) = Some (ms, rf) /\ (ms < r)%Z.
Proof.
  intro H. destruct (lookup t (rs_running rs)) as [[ms rf]|] eqn:El.
  - pose proof (report_result_cases cfg rs t r m c eps ms rf El) as Hc. rewrite H in Hc.
    exists ms, rf. split; [reflexivity|]. apply Hc. reflexivity.
  - exfalso. unfold rs_on_task_report, pasha_on_task_report, promo_on_task_report in H. rewrite El in H.
    destruct (c_variant cfg); discriminate.
Qed.

Lemma on_trial_result_skipped cfg st t r m c eps : on_trial_result cfg st t r m c eps = Err ESkipped ->
  is_running st t = true /\ exists ms rf, view cfg st t = Some (ms, rf) /\ (ms < r)%Z.
Proof.
  unfold on_trial_result, is_running, view. intro H.
  destruct (r <? 1)%Z; [discriminate|].
  destruct (lookup t (st_active st)) as [ti|]; [|discriminate].
  destruct (decision_eqb (ti_dec ti) CONTINUE) eqn:Ed; simpl in H; [|discriminate].
  split; [reflexivity|].
  destruct (lookup t (st_task st)) as [br|]; [|discriminate].
  destruct (nth_error (st_sys st) (fst (sys_of cfg br))) as [rs|]; [|discriminate].
  match type of H with context [match ?X with Ok _ => _ | Err _ => _ end] =>
    destruct X as [[rs' info]|e] eqn:Ex end.
  - exfalso. repeat (break_inner_in H; try discriminate).
  - inv H. destruct (r <? c_max_t cfg)%Z; [|discriminate]. eapply report_skipped; eauto.
Qed.

Lemma step_skipped cfg st ev : step cfg st ev = Err ESkipped ->
  exists t r m c eps ms rf, ev = Report t r m c eps /\ is_running st t = true /\
    view cfg st t = Some (ms, rf) /\ (ms < r)%Z.
Proof.
  destruct ev as [n br b got|t|t r m c eps|t|t|t]; simpl; intro H; try discriminate.
  - exfalso. eapply suggest_not_skipped; eauto.
  - destruct (on_trial_result cfg st t r m c eps) as [[st1 d]|e] eqn:E; [discriminate|]. inv H.
    apply on_trial_result_skipped in E as [Hr [ms [rf [Hv Hlt]]]].
    exists t, r, m, c, eps, ms, rf. auto.
  - destruct (lookup t (st_active st)); discriminate.
Qed.

Lemma no_skip_from cfg : cfg_wf cfg -> cfg_pos cfg -> forall evs2 evs1 st os1 last,
  run cfg evs1 = Ok (st, os1) -> G_inv cfg st last -> consecutive cfg st last evs2 ->
  run_from cfg st evs2 <> Err ESkipped.
Proof.
  intros Hcfg Hpos. induction evs2 as [|ev rest IH]; intros evs1 st os1 last Hrun HG Hcons; simpl; [discriminate|].
  simpl in Hcons. destruct Hcons as [Hok Hcons].
  destruct (step cfg st ev) as [[st' o]|e] eqn:Es.
  - assert (Hrun' : run cfg (evs1 ++ [ev]) = Ok (st', os1 ++ [o])).
    { unfold run. eapply run_from_app; [exact Hrun|]. simpl. rewrite Es. reflexivity. }
    pose proof (G_step _ _ _ _ _ _ _ _ Hcfg Hpos Hrun HG Hok Es) as Hpost.
    assert (Hgo : forall last', G_inv cfg st' last' -> consecutive cfg st' last' rest -> run_from cfg st' rest <> Err ESkipped)
      by (intros; eapply IH; eauto).
    assert (Hrest : run_from cfg st' rest <> Err ESkipped).
    { unfold G_post in Hpost.
      destruct ev as [n br b got|t|t r m c eps|t|t|t];
        try (destruct o; try (eapply Hgo; eauto; fail));
        try (destruct Hpost as [H0 H1]; destruct Hcons as [Hc|Hc]; eapply Hgo; eauto; fail).
      all: try (eapply Hgo; eauto; fail).
      all: destruct Hpost as [H0 H1]; destruct Hcons as [Hc|Hc]; [exact (Hgo _ H0 Hc)|exact (Hgo _ H1 Hc)]. }
    destruct (run_from cfg st' rest) as [[st'' os'']|e] eqn:Er; [discriminate|].
    intro Hx. inv Hx. apply Hrest. reflexivity.
  - intro Hx. inv Hx. apply step_skipped in Es as [t [r [m [c [eps [ms [rf [-> [Hr [Hv Hlt]]]]]]]]]].
    simpl in Hok. specialize (Hok Hr). specialize (HG _ _ _ Hv). lia.
Qed.

(* the trace-level statement *)
Lemma no_skipped_milestone cfg evs : cfg_wf cfg -> cfg_pos cfg ->
  consecutive cfg (init cfg) [] evs -> run cfg evs <> Err ESkipped.
Proof.
  intros Hcfg Hpos Hcons. apply (no_skip_from cfg Hcfg Hpos evs [] (init cfg) [] []); auto.
  intros t ms rf Hv. unfold view in Hv. simpl in Hv. discriminate.
Qed.

(* ---- Rung.quantile is numpy.quantile(method="linear") ------------------------------------------ *)
(* textbook definition on an ascending list a, 0 <= q <= 1: h = (n-1) q, i = floor h, g = h - i,
   a[i] + g (a[i+1] - a[i]) *)
Definition np_quantile (a : list Q) (q : Q) : Q :=
  let h := inject_Z (Z.of_nat (length a) - 1) * q in
  let i := Qfloor h in
  let g := h - inject_Z i in
  nth (Z.to_nat i) a 0 + g * (nth (Z.to_nat i + 1) a 0 - nth (Z.to_nat i) a 0).

(* the metric values of a rung in increasing order (rung data is kept best first) *)
Definition asc_metrics (md : mode) (l : list entry) : list Q :=
  match md with Min => map e_metric l | Max => rev (map e_metric l) end.

Lemma floor_unique x z : inject_Z z <= x -> x < inject_Z (z + 1) -> Qfloor x = z.
Proof.
  intros Hlo Hhi.
  assert (H1 : (z <= Qfloor x)%Z) by (rewrite <- (Qfloor_Z z); apply Qfloor_resp_le; exact Hlo).
  assert (H2 : (Qfloor x < z + 1)%Z).
  { rewrite Zlt_Qlt. eapply Qle_lt_trans; [apply Qfloor_le|exact Hhi]. }
  lia.
Qed.

Lemma Qfloor_plus1 x : Qfloor (x + 1) = (Qfloor x + 1)%Z.
Proof.
  apply floor_unique.
  - rewrite inject_Z_plus. change (inject_Z 1) with 1. pose proof (Qfloor_le x). lra.
  - rewrite !inject_Z_plus. change (inject_Z 1) with 1. pose proof (Qlt_floor x) as H.
    rewrite inject_Z_plus in H. change (inject_Z 1) with 1 in H. lra.
Qed.

Lemma metric_at_nth l k : metric_at l k = nth k (map e_metric l) 0.
Proof.
  unfold metric_at. revert k. induction l as [|x l IH]; intros [|k]; simpl; auto.
Qed.

Lemma quantile_is_numpy_linear md r :
  (2 <= length (r_data r))%nat -> 0 < r_q r -> r_q r < 1 ->
  exists c, quantile md r = Some c /\
            c == np_quantile (asc_metrics md (r_data r)) (match md with Min => r_q r | Max => 1 - r_q r end).
Proof.
  intros Hlen Hq0 Hq1. unfold quantile.
  assert (E : (length (r_data r) <? 2)%nat = false) by (apply Nat.ltb_ge; exact Hlen). rewrite E.
  eexists. split; [reflexivity|].
  set (n := length (r_data r)) in *.
  set (q := match md with Min => r_q r | Max => 1 - r_q r end).
  assert (Hq : 0 < q /\ q < 1) by (subst q; destruct md; split; lra).
  set (h := inject_Z (Z.of_nat n - 1) * q).
  assert (Hn1 : 1 <= inject_Z (Z.of_nat n - 1)).
  { change 1 with (inject_Z 1). rewrite <- Zle_Qle. lia. }
  assert (Hh0 : 0 <= h) by (subst h; nra).
  assert (Hh1 : h < inject_Z (Z.of_nat n - 1)) by (subst h; nra).
  assert (Hi0 : (0 <= Qfloor h)%Z).
  { rewrite <- (Qfloor_Z 0). apply Qfloor_resp_le. exact Hh0. }
  assert (Hi1 : (Qfloor h < Z.of_nat n - 1)%Z).
  { rewrite Zlt_Qlt. eapply Qle_lt_trans; [apply Qfloor_le|exact Hh1]. }
  assert (Hlen_asc : length (asc_metrics md (r_data r)) = n).
  { unfold asc_metrics. destruct md; rewrite ?rev_length, map_length; reflexivity. }
  unfold np_quantile. rewrite Hlen_asc. fold h.
  assert (Hvirt : Qfloor (inject_Z (Z.of_nat n - 1) * match md with Min => r_q r | Max => 1 - r_q r end + 1)
                  = (Qfloor h + 1)%Z) by (fold q; fold h; apply Qfloor_plus1).
  destruct md; cbn [asc_metrics]; fold q in Hvirt |- *; fold h in Hvirt |- *; rewrite Hvirt; rewrite !metric_at_nth.
  - replace (Z.to_nat (Qfloor h + 1 - 1)) with (Z.to_nat (Qfloor h)) by lia.
    rewrite inject_Z_plus. change (inject_Z 1) with 1. ring.
  - set (i := Qfloor h) in *.
    assert (Hrev : forall k, (k < n)%nat -> nth k (rev (map e_metric (r_data r))) 0 = nth (n - S k) (map e_metric (r_data r)) 0).
    { intros k Hk. rewrite rev_nth by (rewrite map_length; exact Hk). rewrite map_length. reflexivity. }
    rewrite (Hrev (Z.to_nat i)) by lia. rewrite (Hrev (Z.to_nat i + 1)%nat) by lia.
    replace (Z.to_nat (Z.of_nat n - (i + 1) - 1)) with (n - S (Z.to_nat i + 1))%nat by lia.
    replace (n - S (Z.to_nat i + 1) + 1)%nat with (n - S (Z.to_nat i))%nat by lia.
    rewrite inject_Z_plus. change (inject_Z 1) with 1. ring.
Qed.

(* and the list handed to the textbook formula is indeed ascending when the rung is sorted best first *)
Lemma ss_rev_flip {A} (R : A -> A -> Prop) : forall l, StronglySorted R l -> StronglySorted (fun x y => R y x) (rev l).
Proof.
  induction 1; simpl; [constructor|]. apply ss_snoc; [assumption|]. apply Forall_rev. exact H0.
Qed.

Lemma asc_metrics_sorted md l : sorted md l -> StronglySorted Qle (asc_metrics md l).
Proof.
  intro Hs.
  assert (Hmap : forall R : Q -> Q -> Prop, (forall x y, nb md x y -> R (e_metric x) (e_metric y)) ->
                 StronglySorted R (map e_metric l)).
  { intros R HR. induction Hs; simpl; constructor; auto.
    rewrite Forall_forall in *. intros y Hy. apply in_map_iff in Hy as [e [<- He]]. auto. }
  destruct md; simpl.
  - apply Hmap. intros x y H. unfold nb in H. simpl in H. apply Qltb_false in H. exact H.
  - apply (ss_rev_flip (fun a b => b <= a)). apply Hmap. intros x y H. unfold nb in H. simpl in H.
    apply Qltb_false in H. exact H.
Qed.

(* ---- boolean versions of [consecutive] / [proto_from], used by the correspondence driver to check that
        the sequences a protocol-following harness produces satisfy the hypotheses of the trace theorems ---- *)
Definition report_ok_b (st : state) (last : list (Z * Z)) (ev : event) : bool :=
  match ev with
  | Report t r _ _ _ => if is_running st t then Z.eqb r (lastv t last + 1) else true
  | _ => true
  end.
(* [ckpt]: resumed trials continue after resume_from (true) or restart at 1 (false) *)
Fixpoint consecutive_b (cfg : config) (ckpt : bool) (st : state) (last : list (Z * Z)) (evs : list event) : bool :=
  match evs with
  | [] => true
  | ev :: rest =>
      report_ok_b st last ev &&
      match step cfg st ev with
      | Err _ => true
      | Ok (st', o) =>
          match ev, o with
          | Report t r _ _ _, _ => consecutive_b cfg ckpt st' (update t r last) rest
          | _, OStart t _ => consecutive_b cfg ckpt st' (update t 0%Z last) rest
          | _, OResume t _ _ _ from _ =>
              consecutive_b cfg ckpt st' (update t (if ckpt then from else 0%Z) last) rest
          | _, _ => consecutive_b cfg ckpt st' last rest
          end
      end
  end.

Lemma consecutive_b_sound cfg ckpt : forall evs st last,
  consecutive_b cfg ckpt st last evs = true -> consecutive cfg st last evs.
Proof.
  induction evs as [|ev rest IH]; intros st last H; simpl in *; [exact I|].
  apply andb_true_iff in H as [Hok H]. split.
  - destruct ev; simpl in *; auto. intro Hr. rewrite Hr in Hok. lia.
  - destruct (step cfg st ev) as [[st' o]|]; [|exact I].
    destruct ev; destruct o; auto.
    all: destruct ckpt; auto.
Qed.

Definition proto_ok_b (st : state) (ev : event) : bool :=
  match ev with
  | Complete t | Fail t => is_running st t
  | _ => true
  end.
Fixpoint proto_b (cfg : config) (st : state) (evs : list event) : bool :=
  match evs with
  | [] => true
  | ev :: rest => proto_ok_b st ev &&
                  match step cfg st ev with Ok (st', _) => proto_b cfg st' rest | Err _ => true end
  end.

Lemma proto_b_sound cfg : forall evs st, proto_b cfg st evs = true -> proto_from cfg st evs.
Proof.
  induction evs as [|ev rest IH]; intros st H; simpl in *; [exact I|].
  apply andb_true_iff in H as [Hok H]. split.
  - destruct ev; simpl in *; auto; unfold is_running in Hok;
      (destruct (lookup t (st_active st)) as [ti|]; [|discriminate]); exists ti; (split; [reflexivity|]);
      destruct (ti_dec ti); try discriminate; reflexivity.
  - destruct (step cfg st ev) as [[st' o]|]; auto.
Qed.

(* ---- PASHA: current_max_t increases exactly when the soft ranking of the top two rungs differs ------- *)
(* declarative reading of the groups of _evaluate_soft_ranking: trial t is in the group of the entry at
   position i of the (best first) previous ranking P iff it is that entry, or an entry further down
   reachable without meeting an entry worse than P[i] by more than eps, or an entry further up reachable
   without meeting an entry better than P[i] by more than eps *)
(* t occurs in l before the first entry that is [far] *)
Definition close_run (far : Q -> bool) (l : list entry) (t : Z) : Prop :=
  exists j y, nth_error l j = Some y /\ e_id y = t /\
    forall k z, (k <= j)%nat -> nth_error l k = Some z -> far (e_metric z) = false.
Definition in_group (md : mode) (eps : Q) (P : list entry) (i : nat) (t : Z) : Prop :=
  exists x, nth_error P i = Some x /\
    (e_id x = t \/
     close_run (far_worse md eps (e_metric x)) (skipn (S i) P) t \/        (* walking down from i+1 *)
     close_run (far_better md eps (e_metric x)) (rev (firstn i P)) t).     (* walking up from i-1 *)

Lemma take_close_spec far t : forall l,
  In t (take_close far l) <-> close_run far l t.
Proof.
  unfold close_run. induction l as [|a l IH]; simpl.
  - split; [intros []|]. intros [j [y [H _]]]. destruct j; discriminate.
  - destruct (far (e_metric a)) eqn:Ea; simpl.
    + split; [intros []|]. intros [j [y [Hn [_ Hall]]]].
      specialize (Hall 0%nat a (Nat.le_0_l j) eq_refl). congruence.
    + rewrite IH. split.
      * intros [<-|[j [y [Hn [Hid Hall]]]]].
        -- exists 0%nat, a. split; [reflexivity|]. split; [reflexivity|].
           intros k z Hk Hz. destruct k; [|inversion Hk]. simpl in Hz. inv Hz. exact Ea.
        -- exists (S j), y. split; [exact Hn|]. split; [exact Hid|].
           intros [|k] z Hk Hz; simpl in Hz; [inv Hz; exact Ea|]. apply (Hall k z); [lia|exact Hz].
      * intros [[|j] [y [Hn [Hid Hall]]]]; simpl in Hn.
        -- inv Hn. left. reflexivity.
        -- right. exists j, y. split; [exact Hn|]. split; [exact Hid|].
           intros k z Hk Hz. apply (Hall (S k) z); [lia|exact Hz].
Qed.

(* the groups computed by the loop, with the entries already passed in [before_rev] *)
Lemma soft_groups_nth md eps : forall l before_rev i x,
  nth_error l i = Some x ->
  exists g, nth_error (soft_groups md eps before_rev l) i = Some g /\
    forall t, mem_Z t g = true <->
      (e_id x = t \/ In t (take_close (far_worse md eps (e_metric x)) (skipn (S i) l)) \/
       In t (take_close (far_better md eps (e_metric x)) (rev (firstn i l) ++ before_rev))).
Proof.
  induction l as [|a l IH]; intros before_rev [|i] x Hn; simpl in Hn; try discriminate.
  - inv Hn. simpl. eexists. split; [reflexivity|]. intro t.
    assert (Hmem : forall (l0 : list Z), mem_Z t l0 = true <-> In t l0).
    { induction l0 as [|z l0 IH0]; simpl; [split; [discriminate|intros []]|].
      rewrite orb_true_iff, IH0. split; (intros [H|H]; [left; lia|right; exact H]). }
    rewrite Hmem. simpl. rewrite in_app_iff. tauto.
  - destruct (IH (a :: before_rev) i x Hn) as [g [Hg Hspec]]. exists g. split; [exact Hg|].
    intro t. rewrite Hspec. simpl. rewrite <- app_assoc. simpl. tauto.
Qed.

Lemma soft_groups_length md eps : forall l before_rev, length (soft_groups md eps before_rev l) = length l.
Proof. induction l as [|a l IH]; intros b; simpl; auto. Qed.

(* the soft ranking is kept: the trial at every position of the top ranking belongs to the group of the
   entry at the same position of the previous ranking (restricted to trials of the top rung) *)
Definition soft_consistent (md : mode) (eps : Q) (top P : list entry) : Prop :=
  forall i x, nth_error top i = Some x -> in_group md eps P i (e_id x).

Lemma check_top_spec : forall top groups,
  check_top top groups = true <->
  forall i x, nth_error top i = Some x -> exists g, nth_error groups i = Some g /\ mem_Z (e_id x) g = true.
Proof.
  induction top as [|a top IH]; intros groups; simpl.
  - split; [|reflexivity]. intros _ [|i] x H; discriminate.
  - destruct groups as [|g gs].
    + split; [discriminate|]. intro H. destruct (H 0%nat a eq_refl) as [g [Hg _]]. discriminate.
    + destruct (mem_Z (e_id a) g) eqn:Em.
      * rewrite IH. split.
        -- intros H [|i] x Hx; simpl in *; [inv Hx; eauto|eauto].
        -- intros H i x Hx. apply (H (S i) x). exact Hx.
      * split; [discriminate|]. intro H. destruct (H 0%nat a eq_refl) as [g' [Hg Hm]]. simpl in Hg. inv Hg. congruence.
Qed.

Lemma soft_check_spec md eps top P :
  check_top top (soft_groups md eps [] P) = true <-> soft_consistent md eps top P.
Proof.
  rewrite check_top_spec. unfold soft_consistent, in_group. split; intros H i x Hx.
  - destruct (H i x Hx) as [g [Hg Hm]].
    destruct (nth_error P i) as [p|] eqn:Ep.
    + destruct (soft_groups_nth md eps P [] i p Ep) as [g' [Hg' Hspec]].
      assert (g' = g) by congruence. subst g'. exists p. split; [reflexivity|].
      apply Hspec in Hm. rewrite app_nil_r in Hm. rewrite !take_close_spec in Hm. exact Hm.
    + exfalso. apply nth_error_None in Ep. rewrite <- (soft_groups_length md eps P []) in Ep.
      apply nth_error_None in Ep. congruence.
  - destruct (H i x Hx) as [p [Ep Hin]].
    destruct (soft_groups_nth md eps P [] i p Ep) as [g [Hg Hspec]]. exists g. split; [exact Hg|].
    apply Hspec. rewrite app_nil_r. rewrite !take_close_spec. exact Hin.
Qed.

(* the ranking of the top two rungs changed *)
Definition ranking_changed (cfg : config) (rs : rsys) (eps : Q) : Prop :=
  exists top prev, ranking_of rs (- Z.of_nat (rs_idx rs)) = Some top /\
    ranking_of rs (- Z.of_nat (rs_idx rs) + 1) = Some prev /\
    let P := filter (fun e => in_data (e_id e) (r_data top)) (r_data prev) in
    ~ soft_consistent (c_mode cfg) (if (length P <? 2)%nat then 0 else eps) (r_data top) P.

Lemma pasha_increase_spec cfg rs eps : pasha_increase cfg rs eps = true <-> ranking_changed cfg rs eps.
Proof.
  unfold pasha_increase, ranking_changed.
  destruct (ranking_of rs (- Z.of_nat (rs_idx rs))) as [top|];
    [|split; [discriminate|intros [t [p [H _]]]; discriminate]].
  destruct (ranking_of rs (- Z.of_nat (rs_idx rs) + 1)) as [prev|];
    [|split; [discriminate|intros [t [p [_ [H _]]]]; discriminate]].
  rewrite negb_true_iff. split.
  - intro H. exists top, prev. split; [reflexivity|]. split; [reflexivity|]. simpl.
    rewrite <- soft_check_spec. congruence.
  - intros [t [p [Ht [Hp Hn]]]]. inv Ht. inv Hp. simpl in Hn. rewrite <- soft_check_spec in Hn.
    destruct (check_top _ _); [exfalso; apply Hn; reflexivity|reflexivity].
Qed.

Lemma pasha_cap_increase_iff cfg s rs t r m c orc rs' info :
  cfg_wf cfg -> c_variant cfg = VPasha -> rs_wf cfg (static_levels cfg s) rs -> cap_inv cfg rs ->
  rs_on_task_report cfg rs t r m c orc = Ok (rs', info) ->
  exists rs1 rs2, promo_on_task_report cfg rs t r m c = Ok (rs1, info) /\
    update_epsilon (set_hist rs1 (add_result (rs_hist rs1) t r m)) orc = Ok rs2 /\
    rs_rungs rs2 = rs_rungs rs1 /\
    ((rs_cap rs < rs_cap rs')%Z <->
       ranking_changed cfg rs2 (h_eps (rs_hist rs2)) /\ (rs_cap rs < c_max_t cfg)%Z) /\
    (~ ranking_changed cfg rs2 (h_eps (rs_hist rs2)) -> rs' = rs2).
Proof.
  intros Hcfg Hv Hwf Hinv H. unfold rs_on_task_report in H. rewrite Hv in H. unfold pasha_on_task_report in H.
  destruct (promo_on_task_report cfg rs t r m c) as [[rs1 info1]|] eqn:Ep; [|discriminate].
  assert (Hwf1 := promo_report_wf _ _ _ _ _ _ _ _ _ Ep Hwf).
  assert (Hshape := Ep). apply promo_report_shape in Hshape as [_ [_ [Hi [Hc _]]]].
  destruct (rs_wf_levels _ _ _ Hwf) as [Hlv Hlen]. destruct (rs_wf_levels _ _ _ Hwf1) as [Hlv1 Hlen1].
  assert (Hi1 : cap_inv cfg rs1).
  { unfold cap_inv in *. rewrite Hi, Hc, Hlv1, Hlen1. rewrite Hlv, Hlen in Hinv. exact Hinv. }
  destruct (pasha_after_report cfg rs1 t r m orc) as [rs3|] eqn:Ea; [|discriminate]. inv H.
  apply pasha_after_inv in Ea as [rs2 [Hu [H1 [H2 [H3 [H4 [H5 Hcase]]]]]]].
  assert (Hwf2 : rs_wf cfg (static_levels cfg s) rs2) by (destruct Hwf1; split; congruence).
  assert (Hi2 : cap_inv cfg rs2).
  { unfold cap_inv, rs_levels in *. rewrite H1, H4, H5. exact Hi1. }
  exists rs1, rs2. split; [reflexivity|]. split; [exact Hu|]. split; [exact H1|].
  rewrite <- Hc, <- H5.
  pose proof (pasha_increase_spec cfg rs2 (h_eps (rs_hist rs2))) as Hspec.
  destruct Hcase as [[Hinc Hraise]|[Hinc ->]].
  - destruct (raise_cap_spec cfg s rs2 rs' Hcfg Hwf2 Hi2 Hinc Hraise) as [_ [_ Hiff]].
    assert (Hch : ranking_changed cfg rs2 (h_eps (rs_hist rs2))) by (apply Hspec; exact Hinc).
    split; [tauto|]. intro Hn. contradiction.
  - split; [|reflexivity]. split; [lia|]. intros [Hch _]. apply Hspec in Hch. congruence.
Qed.

(* for every reachable state *)
Lemma pasha_cap_increase_reach cfg evs st os s rs t r m c orc rs' info :
  cfg_wf cfg -> c_variant cfg = VPasha -> run cfg evs = Ok (st, os) -> nth_error (st_sys st) s = Some rs ->
  rs_on_task_report cfg rs t r m c orc = Ok (rs', info) ->
  exists rs1 rs2, promo_on_task_report cfg rs t r m c = Ok (rs1, info) /\
    update_epsilon (set_hist rs1 (add_result (rs_hist rs1) t r m)) orc = Ok rs2 /\
    rs_rungs rs2 = rs_rungs rs1 /\
    ((rs_cap rs < rs_cap rs')%Z <->
       ranking_changed cfg rs2 (h_eps (rs_hist rs2)) /\ (rs_cap rs < c_max_t cfg)%Z) /\
    (~ ranking_changed cfg rs2 (h_eps (rs_hist rs2)) -> rs' = rs2).
Proof.
  intros Hcfg Hv Hrun Hn H. eapply pasha_cap_increase_iff; eauto.
  - eapply reach_wf; eauto.
  - eapply reach_cap_inv; eauto.
Qed.

(* epsilon only ever becomes the percentile oracle's value, and only when some pair of learning curves
   crossed and crossed back ([noisy_distances] non-empty) *)
Lemma update_epsilon_spec rs orc rs2 : update_epsilon rs orc = Ok rs2 ->
  (rs2 = rs /\ (noisy_distances rs orc = None \/ noisy_distances rs orc = Some (Ok []))) \/
  (exists d ds, noisy_distances rs orc = Some (Ok (d :: ds)) /\ h_eps (rs_hist rs2) = o_pct orc /\
     h_results (rs_hist rs2) = h_results (rs_hist rs) /\ h_epochs (rs_hist rs2) = h_epochs (rs_hist rs)).
Proof.
  unfold update_epsilon. intro H. destruct (noisy_distances rs orc) as [[[|d ds]|e]|]; inv H; auto.
  right. exists d, ds. auto.
Qed.

(* ==== milestones of running trials: own rung level or max_t, and never beyond the cap =============== *)
Definition ML_entry (cfg : config) (rs : rsys) (ms : Z) (rf : option Z) : Prop :=
  (In ms (map r_level (rs_rungs rs)) \/ ms = c_max_t cfg) /\ (rf <> None -> (ms <= eff_max cfg rs)%Z).
Definition ML_rs (cfg : config) (rs : rsys) : Prop :=
  forall t ms rf, lookup t (rs_running rs) = Some (ms, rf) -> ML_entry cfg rs ms rf.
Definition ML_inv (cfg : config) (st : state) : Prop :=
  forall s rs, nth_error (st_sys st) s = Some rs -> ML_rs cfg rs.

Lemma ML_rs_mono cfg rs rs' : ML_rs cfg rs -> rs_running rs' = rs_running rs ->
  map r_level (rs_rungs rs') = map r_level (rs_rungs rs) -> (eff_max cfg rs <= eff_max cfg rs')%Z -> ML_rs cfg rs'.
Proof.
  intros H Hr Hl Hc t ms rf Hlk. rewrite Hr in Hlk. destruct (H _ _ _ Hlk) as [H1 H2].
  split; [rewrite Hl; exact H1|]. intro Hn. specialize (H2 Hn). lia.
Qed.

Lemma ML_rs_remove cfg rs t : ML_rs cfg rs -> ML_rs cfg (rs_on_task_remove rs t).
Proof.
  intros H t' ms rf Hlk. simpl in Hlk. destruct (Z.eq_dec t' t) as [->|Hne].
  - rewrite lookup_remove_eq in Hlk. discriminate.
  - rewrite lookup_remove_neq in Hlk by exact Hne. exact (H _ _ _ Hlk).
Qed.

Lemma ML_rs_add cfg rs t ms rf : ML_rs cfg rs -> ML_entry cfg rs ms rf ->
  ML_rs cfg (set_running rs (update t (ms, rf) (rs_running rs))).
Proof.
  intros H He t' ms' rf' Hlk. simpl in Hlk. destruct (Z.eq_dec t' t) as [->|Hne].
  - rewrite lookup_update_eq in Hlk. inv Hlk. exact He.
  - rewrite lookup_update_neq in Hlk by exact Hne. exact (H _ _ _ Hlk).
Qed.

Lemma ML_set cfg st sid rs rs' task active off : ML_inv cfg st -> nth_error (st_sys st) sid = Some rs ->
  ML_rs cfg rs' -> ML_inv cfg (mkS (set_nth sid rs' (st_sys st)) task active off).
Proof.
  intros H Hn Hrs s r Hs. simpl in Hs.
  destruct (nth_set_nth_cases _ _ _ _ _ _ Hn Hs) as [[-> ->]|[_ Hs']]; [exact Hrs|eauto].
Qed.

Lemma ML_cleanup cfg st t d : ML_inv cfg st -> ML_inv cfg (cleanup cfg st t d).
Proof.
  intros H s r Hs. destruct (cleanup_sys cfg st t d) as [[_ Heq]|[br [rs [_ [Hn Heq]]]]]; rewrite Heq in Hs; [eauto|].
  destruct (nth_set_nth_cases _ _ _ _ _ _ Hn Hs) as [[-> ->]|[_ Hs']]; [|eauto].
  apply ML_rs_remove. eauto.
Qed.

Lemma eff_max_same cfg rs rs' : rs_cap rs' = rs_cap rs -> eff_max cfg rs' = eff_max cfg rs.
Proof. unfold eff_max. intros ->. reflexivity. Qed.

Lemma next_above_own cfg rungs j : In (next_above cfg rungs j) (map r_level rungs) \/ next_above cfg rungs j = c_max_t cfg.
Proof.
  unfold next_above. destruct j as [|j']; [right; reflexivity|].
  destruct (nth_error rungs j') as [r|] eqn:E; [|right; reflexivity]. left. apply in_map. eapply nth_error_In; eauto.
Qed.

Lemma first_milestone_own cfg rs skip :
  In (first_milestone cfg rs skip) (map r_level (rs_rungs rs)) \/ first_milestone cfg rs skip = c_max_t cfg.
Proof.
  unfold first_milestone. destruct (skip <? length (rs_rungs rs))%nat; [|right; reflexivity].
  destruct (nth_error (rs_rungs rs) (length (rs_rungs rs) - (skip + 1))) as [r|] eqn:E; [|right; reflexivity].
  left. apply in_map. eapply nth_error_In; eauto.
Qed.

Lemma ML_step cfg evs st os ev st' o : cfg_wf cfg -> run cfg evs = Ok (st, os) -> ML_inv cfg st ->
  step cfg st ev = Ok (st', o) -> ML_inv cfg st'.
Proof.
  intros Hcfg Hrun HM Hstep. assert (Hstep0 := Hstep).
  destruct ev as [n br b got|t|t r m c eps|t|t|t]; simpl in Hstep.
  - (* suggest *)
    apply suggest_shape in Hstep as [rs [rs1 [p [Hn [Hs Hp]]]]].
    assert (Hwf := reach_wf _ _ _ _ _ _ Hrun Hn).
    assert (Hwf1 : rs_wf cfg (static_levels cfg (fst (sys_of cfg br))) rs1)
      by (eapply rs_trans_wf; [eapply T_sched; eauto|exact Hwf]).
    assert (Hsh := Hs). apply sched_shape in Hsh as [Hrun1 [_ [Hcap1 _]]].
    assert (HM1 : ML_rs cfg rs1).
    { apply (ML_rs_mono cfg rs); [eauto|exact Hrun1| |rewrite (eff_max_same _ _ _ Hcap1); lia].
      destruct Hwf as [-> _]. destruct Hwf1 as [-> _]. reflexivity. }
    destruct p as [[[[j t] rf] ms]|].
    + destruct Hp as [Hlt [ti [Hl [Hd [-> Ho]]]]]. eapply ML_set; eauto.
      apply ML_rs_add; [exact HM1|]. split.
      * (* the target is the next rung level of this rung system, or max_t *)
        subst o. destruct (eligibility_sound _ _ _ _ _ _ _ _ _ _ _ _ _ _ _ Hcfg Hrun Hstep0)
          as [rs0 [r0 [pos [e [_ [En [_ [_ [_ [_ [_ [_ [_ [_ [Hnxt _]]]]]]]]]]]]]]].
        assert (rs0 = rs) by congruence. subst rs0. rewrite Hnxt.
        destruct Hwf as [Hl0 _]. destruct Hwf1 as [Hl1 _]. rewrite Hl1, <- Hl0. apply next_above_own.
      * intros _. subst o. rewrite (eff_max_same _ _ _ Hcap1).
        eapply resume_below_cap; eauto.
    + destruct Hp as [[_ [_ ->]]|[_ [Hl [_ ->]]]].
      * eapply ML_set; eauto.
      * eapply ML_set; eauto. unfold rs_on_task_add_new. apply ML_rs_add; [exact HM1|].
        split; [apply first_milestone_own|intro Hc; congruence].
  - inv Hstep. exact HM.
  - (* report *)
    destruct (on_trial_result cfg st t r m c eps) as [[st1 d]|] eqn:E; [|discriminate]. inv Hstep.
    apply on_trial_result_shape in E as [_ [ti [Hl [[_ [-> _]]|[Hd [br [rs [rs' [info [off' [lur' [Ht [Hn [Hout Hcases]]]]]]]]]]]]]];
      [exact HM|].
    assert (Hwf := reach_wf _ _ _ _ _ _ Hrun Hn).
    assert (Htr : rs_trans cfg rs rs').
    { unfold report_outcome in Hout. destruct (r <? c_max_t cfg)%Z; [eapply T_report; eauto|inv Hout; constructor]. }
    assert (Hwf' := rs_trans_wf _ _ _ _ Htr Hwf).
    assert (Hcapinv := reach_cap_inv _ _ _ _ _ _ Hcfg Hrun Hn).
    destruct (rs_trans_cap cfg _ rs rs' Hcfg Htr Hwf Hcapinv) as [_ Hcap].
    assert (Hrun' : rs_running rs' = rs_running rs).
    { unfold report_outcome in Hout. destruct (r <? c_max_t cfg)%Z; [|inv Hout; reflexivity].
      apply report_shape in Hout as [rs1 [Hp [_ [Hr' _]]]]. apply promo_report_shape in Hp as [Hr1 _]. congruence. }
    assert (HM' : ML_rs cfg rs').
    { apply (ML_rs_mono cfg rs); [eauto|exact Hrun'| |].
      - destruct Hwf as [-> _]. destruct Hwf' as [-> _]. reflexivity.
      - unfold eff_max. destruct (c_variant cfg); lia. }
    destruct Hcases as [[_ [-> _]]|[[_ [_ [-> _]]]|[_ [_ [-> _]]]]].
    + eapply ML_set; eauto.
    + eapply ML_set; eauto.
    + apply ML_cleanup. eapply ML_set; eauto.
  - inv Hstep. apply ML_cleanup. exact HM.
  - destruct (lookup t (st_active st)); [|discriminate]. inv Hstep. apply ML_cleanup. exact HM.
  - inv Hstep. apply ML_cleanup. exact HM.
Qed.

Lemma ML_init cfg : ML_inv cfg (init cfg).
Proof.
  intros s rs Hs t ms rf Hl. apply nth_error_map_seq in Hs as [-> _]. simpl in Hl. discriminate.
Qed.

(* every milestone a running trial has been given is a rung level of its own rung system or max_t, and a
   resumed trial's milestone never exceeds the cap in force NOW (PASHA: current_max_t) *)
Lemma reach_ML cfg : cfg_wf cfg -> forall evs st os, run cfg evs = Ok (st, os) -> ML_inv cfg st.
Proof.
  intro Hcfg. apply reach_ind; [apply ML_init|]. intros. eapply ML_step; eauto.
Qed.

(* a new trial of the lowest bracket (skip_rungs = 0: bracket 0, or one rung system per bracket) is never
   told to run beyond the cap either *)
Lemma start_below_cap cfg evs st os n br b got st' t mra rs :
  cfg_wf cfg -> run cfg evs = Ok (st, os) -> suggest cfg st n br b got = Ok (st', OStart t mra) ->
  snd (sys_of cfg br) = 0%nat -> nth_error (st_sys st) (fst (sys_of cfg br)) = Some rs ->
  (first_milestone cfg rs 0 <= eff_max cfg rs)%Z /\
  mra = (if c_mra cfg then Some (first_milestone cfg rs 0) else None).
Proof.
  intros Hcfg Hrun H Hskip Hn.
  apply suggest_shape in H as [rs0 [rs1 [p [Hn0 [Hs Hp]]]]]. assert (rs0 = rs) by congruence. subst rs0.
  destruct p as [[[[j t0] rf] ms]|]; [destruct Hp as [_ [ti [_ [_ [_ Ho]]]]]; discriminate|].
  destruct Hp as [[_ [Ho _]]|[_ [_ [Ho _]]]]; [discriminate|]. inv Ho. rewrite Hskip.
  assert (Hwf := reach_wf _ _ _ _ _ _ Hrun Hn).
  assert (Hwf1 : rs_wf cfg (static_levels cfg (fst (sys_of cfg br))) rs1)
    by (eapply rs_trans_wf; [eapply T_sched; eauto|exact Hwf]).
  assert (Hfm : first_milestone cfg rs1 0 = first_milestone cfg rs 0).
  { unfold first_milestone. destruct Hwf as [Hl _]. destruct Hwf1 as [Hl1 _].
    assert (Hlen : length (rs_rungs rs1) = length (rs_rungs rs)).
    { rewrite <- (map_length r_level (rs_rungs rs1)), Hl1, <- Hl, map_length. reflexivity. }
    rewrite Hlen. destruct (0 <? length (rs_rungs rs))%nat; [|reflexivity].
    assert (Hnth : forall k, option_map r_level (nth_error (rs_rungs rs1) k) = option_map r_level (nth_error (rs_rungs rs) k)).
    { intro k. rewrite <- !nth_error_map, Hl1, <- Hl. reflexivity. }
    specialize (Hnth (length (rs_rungs rs) - (0 + 1))%nat).
    destruct (nth_error (rs_rungs rs1) _), (nth_error (rs_rungs rs) _); simpl in Hnth; congruence. }
  rewrite Hfm. split; [|reflexivity].
  assert (Hlev : is_level cfg (first_milestone cfg rs 0)) by (eapply first_milestone_level; eauto).
  unfold eff_max. destruct (c_variant cfg); try (apply is_level_le; assumption).
  destruct (cap_level _ _ (reach_cap_inv _ _ _ _ _ _ Hcfg Hrun Hn)) as [Hc|Hc];
    [rewrite Hc; apply is_level_le; assumption|].
  unfold rs_levels in Hc. apply in_rev in Hc. apply In_nth_error in Hc as [k Hk].
  destruct Hwf as [Hl _].
  assert (Hdesc : StronglySorted Z.gt (map r_level (rs_rungs rs))) by (rewrite Hl; apply static_levels_desc; exact Hcfg).
  assert (Hklt : (k < length (rs_rungs rs))%nat) by (rewrite <- (map_length r_level); apply nth_error_Some; congruence).
  unfold first_milestone. assert (E : (0 <? length (rs_rungs rs))%nat = true) by (apply Nat.ltb_lt; lia). rewrite E.
  destruct (nth_error (rs_rungs rs) (length (rs_rungs rs) - (0 + 1))) as [r|] eqn:Er.
  - assert (Hj : nth_error (map r_level (rs_rungs rs)) (length (rs_rungs rs) - (0 + 1)) = Some (r_level r))
      by (rewrite nth_error_map, Er; reflexivity).
    destruct (Nat.eq_dec k (length (rs_rungs rs) - (0 + 1))) as [->|Hne]; [rewrite Hk in Hj; inv Hj; lia|].
    assert (r_level r < rs_cap rs)%Z; [|lia]. eapply (ss_gt_nth _ k (length (rs_rungs rs) - (0 + 1))); eauto. lia.
  - apply nth_error_None in Er. lia.
Qed.

(* ==== a report at the milestone is recorded at that rung of the trial's rung system =================== *)
Lemma rung_pos_none level : forall l i, rung_pos level l i = None -> ~ In level (map r_level l).
Proof.
  induction l as [|x l IH]; intros i H; simpl in *; [tauto|].
  destruct (r_level x =? level)%Z eqn:E; [discriminate|]. intros [Heq|Hin]; [lia|eapply IH; eauto].
Qed.

Lemma promo_registers cfg rs t ms rf m c rs' info :
  lookup t (rs_running rs) = Some (ms, rf) -> In ms (map r_level (rs_rungs rs)) ->
  promo_on_task_report cfg rs t ms m c = Ok (rs', info) ->
  exists p rg, nth_error (rs_rungs rs) p = Some rg /\ r_level rg = ms /\ in_rung t rg = false /\
    rs_rungs rs' = set_nth p (added_rung (c_mode cfg) rg (mkE t m c false)) (rs_rungs rs).
Proof.
  intros Hl Hin H. unfold promo_on_task_report in H. rewrite Hl in H.
  assert (E1 : (ms <=? ms)%Z = true) by lia. assert (E2 : negb (ms =? ms)%Z = false) by (rewrite Z.eqb_refl; reflexivity).
  rewrite E1, E2 in H.
  destruct (rung_pos ms (rs_rungs rs) 0) as [p|] eqn:Ep; [|exfalso; eapply rung_pos_none; eauto].
  destruct (nth_error (rs_rungs rs) p) as [rg|] eqn:En; [|discriminate].
  destruct (in_rung t rg) eqn:Ein; [discriminate|]. inv H. simpl.
  apply rung_pos_spec in Ep as [k [rg' [Hk [Hn Hlv]]]]. simpl in Hk. subst k.
  assert (rg' = rg) by congruence. subst rg'. exists p, rg. auto.
Qed.

Lemma In_set_nth_self {A} : forall (l : list A) n x y, nth_error l n = Some y -> In x (set_nth n x l).
Proof. induction l as [|a l IH]; intros [|n] x y H; simpl in *; try discriminate; [left; reflexivity|right; eauto]. Qed.

Lemma report_recorded cfg evs st os t r m c eps ti br rs rf st' d :
  cfg_wf cfg -> run cfg evs = Ok (st, os) ->
  lookup t (st_active st) = Some ti -> ti_dec ti = CONTINUE -> lookup t (st_task st) = Some br ->
  nth_error (st_sys st) (fst (sys_of cfg br)) = Some rs -> lookup t (rs_running rs) = Some (r, rf) ->
  (1 <= r < c_max_t cfg)%Z ->
  on_trial_result cfg st t r m c eps = Ok (st', d) ->
  d = PAUSE /\
  exists rs' rg, nth_error (st_sys st') (fst (sys_of cfg br)) = Some rs' /\ In rg (rs_rungs rs') /\
    r_level rg = r /\ In (mkE t m (total_cost cfg st t c) false) (r_data rg).
Proof.
  intros Hcfg Hrun Ha Hd Ht Hn Hl Hr H.
  (* the decision *)
  pose proof (pause_at_milestone_step cfg evs st os t r m c eps ti br rs r rf Hrun Ha Hd Ht Hn Hl) as Hp.
  rewrite H in Hp. destruct Hp as [_ Hdec]; [lia|].
  unfold expected_decision in Hdec. assert (E1 : (c_max_t cfg <=? r)%Z = false) by lia. rewrite E1, Z.eqb_refl in Hdec.
  split; [exact Hdec|].
  (* the milestone is a rung level of this rung system *)
  destruct (reach_ML cfg Hcfg _ _ _ Hrun _ _ Hn _ _ _ Hl) as [[Hin|Hmax] _]; [|lia].
  apply on_trial_result_shape in H as [_ [ti' [Ha' [[Hd' _]|[_ [br' [rs0 [rs' [info [off' [lur' [Ht' [Hn' [Hout Hcases]]]]]]]]]]]]]];
    [congruence|].
  assert (br' = br) by congruence. subst br'. assert (rs0 = rs) by congruence. subst rs0.
  unfold report_outcome in Hout. assert (E2 : (r <? c_max_t cfg)%Z = true) by lia. rewrite E2 in Hout.
  apply report_shape in Hout as [rs1 [Hpromo [Hrungs _]]].
  destruct (promo_registers _ _ _ _ _ _ _ _ _ Hl Hin Hpromo) as [p [rg [Hnp [Hlv [_ Hr1]]]]].
  assert (Hentry : exists rg', In rg' (rs_rungs rs') /\ r_level rg' = r /\
                     In (mkE t m (total_cost cfg st t c) false) (r_data rg')).
  { exists (added_rung (c_mode cfg) rg (mkE t m (total_cost cfg st t c) false)).
    split; [rewrite Hrungs, Hr1; eapply In_set_nth_self; eauto|]. split; [exact Hlv|].
    simpl. apply In_insert. left. reflexivity. }
  destruct Hentry as [rg' [Hin' [Hlv' He]]].
  assert (Hfin : forall stx, st_sys stx = set_nth (fst (sys_of cfg br)) rs' (st_sys st) ->
            exists rs'' rg'', nth_error (st_sys stx) (fst (sys_of cfg br)) = Some rs'' /\ In rg'' (rs_rungs rs'') /\
              r_level rg'' = r /\ In (mkE t m (total_cost cfg st t c) false) (r_data rg'')).
  { intros stx Hx. exists rs', rg'. rewrite Hx, (nth_error_set_nth_eq _ _ _ _ Hn). auto. }
  destruct Hcases as [[_ [-> Hdd]]|[[_ [_ [-> Hdd]]]|[_ [_ [-> _]]]]]; try (subst d; discriminate).
  (* paused: _cleanup_trial keeps the rungs *)
  match goal with |- context [cleanup cfg ?s1 t d] => set (st1 := s1) end.
  destruct (cleanup_sys cfg st1 t d) as [[_ Heq]|[br2 [rs2 [Ht2 [Hn2 Heq]]]]].
  - apply Hfin. rewrite Heq. reflexivity.
  - simpl in Ht2. assert (br2 = br) by congruence. subst br2.
    simpl in Hn2. rewrite (nth_error_set_nth_eq _ _ _ _ Hn) in Hn2. inv Hn2.
    exists (rs_on_task_remove rs2 t), rg'. rewrite Heq. simpl.
    split; [|auto].
    apply (nth_error_set_nth_eq _ _ _ rs2). apply (nth_error_set_nth_eq _ _ _ _ Hn).
Qed.

(* ==== the Boundary class in plain arithmetic =========================================================== *)
Lemma within_classes md tol m c :
  (within md tol m c = Boundary <-> Qabs (m - c) <= tol * Qabs c) /\
  (within md tol m c = Yes <-> (~ (Qabs (m - c) <= tol * Qabs c)) /\ better_le md m c = true) /\
  (within md tol m c = No <-> (~ (Qabs (m - c) <= tol * Qabs c)) /\ better_le md m c = false).
Proof.
  unfold within, near. destruct (Qleb (Qabs (m - c)) (tol * Qabs c)) eqn:E.
  - apply Qleb_le in E. split; [tauto|]. split; (split; [discriminate|intros [Hn _]; contradiction]).
  - assert (Hn : ~ (Qabs (m - c) <= tol * Qabs c)) by (intro Hc; apply Qleb_le in Hc; congruence).
    split; [split; [destruct (better_le md m c); discriminate|intro; contradiction]|].
    destruct (better_le md m c); split; split; try discriminate; try tauto; intros [_ ?]; discriminate.
Qed.

(* with tolerance 0 the Boundary class is exactly the ties with the cutoff *)
Lemma within_tol0 md m c : within md 0 m c = Boundary <-> m == c.
Proof.
  rewrite (proj1 (within_classes md 0 m c)). split; intro H.
  - assert (H0 : Qabs (m - c) <= 0) by lra. pose proof (Qabs_nonneg (m - c)) as Hp.
    assert (H1 : m - c <= Qabs (m - c)) by apply Qle_Qabs.
    assert (H2 : - (m - c) <= Qabs (m - c)) by (rewrite <- Qabs_opp; apply Qle_Qabs).
    lra.
  - assert (E : m - c == 0) by lra. rewrite E. simpl. lra.
Qed.

(* a resumed trial's metric in arithmetic terms: no worse than the cutoff, up to tol * |cutoff| *)
Lemma within_not_no md tol m c : 0 <= tol -> within md tol m c <> No ->
  match md with Min => m <= c + tol * Qabs c | Max => c - tol * Qabs c <= m end.
Proof.
  intros Ht H. destruct (within_classes md tol m c) as [HB [HY HN]].
  pose proof (Qabs_nonneg c) as Hc.
  destruct (within md tol m c) eqn:Ew; [| congruence |].
  - destruct (proj1 HY eq_refl) as [_ Hle]. destruct md; simpl in Hle; apply Qleb_le in Hle; nra.
  - pose proof (proj1 HB eq_refl) as Hb.
    assert (H1 : m - c <= Qabs (m - c)) by apply Qle_Qabs.
    assert (H2 : - (m - c) <= Qabs (m - c)) by (rewrite <- Qabs_opp; apply Qle_Qabs).
    destruct md; lra.
Qed.

Lemma rule_ok_arith cfg r pos e : c_variant cfg <> VCost -> 0 <= c_tol cfg -> rule_ok cfg r pos e ->
  exists c, quantile (c_mode cfg) r = Some c /\
    match c_mode cfg with
    | Min => e_metric e <= c + c_tol cfg * Qabs c
    | Max => c - c_tol cfg * Qabs c <= e_metric e
    end.
Proof.
  intros Hv Ht H. unfold rule_ok in H.
  destruct (c_variant cfg) eqn:Ev; try congruence; destruct H as [c [Hq Hw]]; exists c; (split; [exact Hq|]);
    apply within_not_no; assumption.
Qed.

(* ==== constructor layer ================================================================================ *)
Lemma mk_quantiles_length : forall levels max_t, length (Rung.mk_quantiles levels max_t) = length levels.
Proof. induction levels as [|x r IH]; intros m; simpl; auto. Qed.

Lemma map_fst_combine {A B} : forall (l : list A) (l' : list B), length l = length l' -> map fst (combine l l') = l.
Proof. induction l as [|a l IH]; intros [|b l'] H; simpl in *; try discriminate; auto. f_equal. apply IH. lia. Qed.

(* the documented rule for the maximum resource *)
Definition documented_max (k : ctor) (v : Z) : Prop :=
  k_max_t k = Some v \/
  (k_max_t k = None /\ exists a, k_mra k = Some a /\ Rung.MaxT.cs_getval (k_cspace k) a = Some v) \/
  (k_max_t k = None /\ (k_mra k = None \/ exists a, k_mra k = Some a /\ Rung.MaxT.cs_getval (k_cspace k) a = None) /\
   Rung.MaxT.first_some (k_cspace k) Rung.MaxT.default_max_t_names = Some v).

Lemma make_config_inv k cfg : make_config k = Some cfg ->
  exists levels, Rung.MaxT.infer_max_resource_level (k_max_t k) (k_mra k) (k_cspace k) = Some (c_max_t cfg) /\
    Rung.sh_rung_levels (k_rung_levels k) (k_grace k) (k_rf k) (k_incr k) (c_max_t cfg) = Some levels /\
    c_levels cfg = levels /\ c_variant cfg = k_variant k /\ c_mode cfg = k_mode k /\
    c_mra cfg = (match k_mra k with Some _ => true | None => false end).
Proof.
  unfold make_config. intro H.
  destruct (Rung.MaxT.infer_max_resource_level (k_max_t k) (k_mra k) (k_cspace k)) as [max_t|]; [|discriminate].
  destruct (Rung.sh_rung_levels (k_rung_levels k) (k_grace k) (k_rf k) (k_incr k) max_t) as [[|l0 ls]|] eqn:E;
    try discriminate.
  remember (l0 :: ls) as levels eqn:Hlv. clear Hlv.
  inv H. exists levels. unfold c_levels. cbn [c_max_t c_rungs c_variant c_mode c_mra].
  repeat split; auto. apply map_fst_combine. symmetry. apply mk_quantiles_length.
Qed.

Lemma make_config_wf k cfg : make_config k = Some cfg -> cfg_wf cfg /\ cfg_pos cfg.
Proof.
  intro H. apply make_config_inv in H as [levels [_ [Hl [Hc _]]]].
  destruct (RungProofs.sh_rung_levels_wf _ _ _ _ _ _ Hl) as [[Hs Hf] Hne].
  unfold cfg_wf, cfg_pos. rewrite Hc. rewrite Forall_forall in Hf.
  split; [split; [exact Hs|apply Forall_forall; intros x Hx; apply Hf in Hx; lia]|].
  split; [apply Forall_forall; intros x Hx; apply Hf in Hx; lia|].
  destruct levels as [|x r]; [congruence|]. specialize (Hf x (or_introl eq_refl)). lia.
Qed.

Lemma make_config_max_t k cfg : make_config k = Some cfg -> documented_max k (c_max_t cfg).
Proof.
  intro H. apply make_config_inv in H as [levels [Hi _]]. unfold documented_max.
  unfold Rung.MaxT.infer_max_resource_level in Hi.
  destruct (k_max_t k) as [v|]; [left; congruence|]. right.
  destruct (k_mra k) as [a|]; simpl in Hi.
  - destruct (Rung.MaxT.cs_getval (k_cspace k) a) as [v|] eqn:Eg.
    + left. split; [reflexivity|]. exists a. split; [reflexivity|]. congruence.
    + right. split; [reflexivity|]. split; [right; exists a; auto|exact Hi].
  - right. split; [reflexivity|]. split; [left; reflexivity|exact Hi].
Qed.

(* never more than the documented maximum: every config[max_resource_attr] value handed out by a scheduler
   built from constructor arguments k is at most the documented maximum, and a report at or beyond it is
   answered STOP *)
Lemma ctor_resource_cap k cfg evs st os n br b got st' o v :
  make_config k = Some cfg -> run cfg evs = Ok (st, os) -> suggest cfg st n br b got = Ok (st', o) ->
  (exists t, o = OStart t (Some v)) \/ (exists t s j from nxt, o = OResume t (Some v) s j from nxt) ->
  exists vmax, documented_max k vmax /\ (v <= vmax)%Z.
Proof.
  intros Hk Hrun Hs Ho. exists (c_max_t cfg). split; [apply make_config_max_t; exact Hk|].
  destruct (make_config_wf _ _ Hk) as [Hwf _].
  exact (proj2 (resource_cap _ _ _ _ _ _ _ _ _ _ _ Hwf Hrun Hs Ho)).
Qed.

Lemma ctor_stop_at_max k cfg evs st os t r m c eps ti br rs ms rf st' d :
  make_config k = Some cfg -> run cfg evs = Ok (st, os) ->
  lookup t (st_active st) = Some ti -> ti_dec ti = CONTINUE -> lookup t (st_task st) = Some br ->
  nth_error (st_sys st) (fst (sys_of cfg br)) = Some rs -> lookup t (rs_running rs) = Some (ms, rf) ->
  (1 <= r)%Z -> on_trial_result cfg st t r m c eps = Ok (st', d) ->
  forall vmax, documented_max k vmax -> c_max_t cfg = vmax -> ((vmax <= r)%Z <-> d = STOP).
Proof.
  intros Hk Hrun Ha Hd Ht Hn Hl Hr H vmax _ Hv.
  pose proof (pause_at_milestone_step cfg evs st os t r m c eps ti br rs ms rf Hrun Ha Hd Ht Hn Hl Hr) as Hp.
  rewrite H in Hp. destruct Hp as [_ ->]. unfold expected_decision. rewrite Hv.
  destruct (vmax <=? r)%Z eqn:E; [split; [reflexivity|lia]|].
  split; [lia|]. destruct (r =? ms)%Z; discriminate.
Qed.

(* ==== what the config of a suggestion says is what the rung system waits for ============================= *)
Lemma suggestion_target_stored cfg st n br b got st' o :
  suggest cfg st n br b got = Ok (st', o) ->
  match o with
  | OResume t mra s j from nxt =>
      s = fst (sys_of cfg br) /\ mra = (if c_mra cfg then Some nxt else None) /\
      lookup t (st_task st') = Some br /\
      exists rs', nth_error (st_sys st') s = Some rs' /\ lookup t (rs_running rs') = Some (nxt, Some from)
  | OStart t mra =>
      lookup t (st_task st') = Some br /\
      exists rs' ms, nth_error (st_sys st') (fst (sys_of cfg br)) = Some rs' /\
        lookup t (rs_running rs') = Some (ms, None) /\ mra = (if c_mra cfg then Some ms else None)
  | _ => True
  end.
Proof.
  intro H. apply suggest_shape in H as [rs [rs1 [p [Hn [Hs Hp]]]]].
  destruct p as [[[[j t] rf] ms]|].
  - destruct Hp as [_ [ti [_ [_ [-> ->]]]]]. simpl.
    split; [reflexivity|]. split; [reflexivity|]. split; [apply lookup_update_eq|].
    eexists. split; [eapply nth_error_set_nth_eq; eauto|]. simpl. apply lookup_update_eq.
  - destruct Hp as [[_ [-> _]]|[_ [_ [-> ->]]]]; [exact I|]. simpl.
    split; [apply lookup_update_eq|]. eexists. eexists.
    split; [eapply nth_error_set_nth_eq; eauto|]. simpl. split; [apply lookup_update_eq|reflexivity].
Qed.

(* a trial promoted from the top rung is told to run to max_t *)
Lemma top_rung_promotes_to_max_t cfg evs st os n br b got st' t mra s from nxt :
  cfg_wf cfg -> run cfg evs = Ok (st, os) ->
  suggest cfg st n br b got = Ok (st', OResume t mra s 0%nat from nxt) ->
  nxt = c_max_t cfg /\ mra = (if c_mra cfg then Some (c_max_t cfg) else None).
Proof.
  intros Hcfg Hrun H.
  destruct (eligibility_sound _ _ _ _ _ _ _ _ _ _ _ _ _ _ _ Hcfg Hrun H)
    as [rs [r [pos [e [_ [_ [_ [_ [_ [_ [_ [_ [_ [_ [Hnxt Hmra]]]]]]]]]]]]]]].
  simpl in Hnxt. subst nxt. auto.
Qed.
