(* PromotionProofs.v — lemmas about model/Promotion.v (C04). *)
From Verif Require Import model.Base model.Promotion.
From Coq Require Import Qabs Qround Lqa Sorting.Sorted ZifyBool.

Ltac inv H := inversion H; subst; clear H.

(* destruct the scrutinee of the first match found in hypothesis H *)
Ltac break_in H :=
  match type of H with
  | context [match ?x with _ => _ end] =>
      match type of x with
      | sumbool _ _ => destruct x
      | _ => let E := fresh "E" in destruct x eqn:E
      end
  end.
Ltac break_goal :=
  match goal with
  | |- context [match ?x with _ => _ end] => let E := fresh "E" in destruct x eqn:E
  end.
(* destruct a scrutinee that does not itself contain a match *)
Ltac break_inner :=
  match goal with
  | |- context [match ?x with _ => _ end] =>
      lazymatch x with
      | context [match _ with _ => _ end] => fail
      | _ => let E := fresh "E" in destruct x eqn:E
      end
  end.

(* ---- generic list facts --------------------------------------------------- *)
Lemma nth_error_set_nth_eq {A} : forall (l : list A) n x y, nth_error l n = Some y ->
  nth_error (set_nth n x l) n = Some x.
Proof. induction l as [|a l IH]; intros [|n] x y H; simpl in *; try discriminate; eauto. Qed.

Lemma nth_error_set_nth_neq {A} : forall (l : list A) n m x, n <> m ->
  nth_error (set_nth n x l) m = nth_error l m.
Proof.
  induction l as [|a l IH]; intros [|n] [|m] x H; simpl in *; try reflexivity; try congruence.
  apply IH. congruence.
Qed.

Lemma set_nth_length {A} : forall (l : list A) n x, length (set_nth n x l) = length l.
Proof. induction l as [|a l IH]; intros [|n] x; simpl; auto. Qed.

Lemma map_set_nth {A B} (f : A -> B) : forall (l : list A) n x y, nth_error l n = Some y -> f x = f y ->
  map f (set_nth n x l) = map f l.
Proof.
  induction l as [|a l IH]; intros [|n] x y H Hf; simpl in *; try discriminate; auto.
  - inv H. congruence.
  - f_equal. eauto.
Qed.

Lemma In_set_nth {A} : forall (l : list A) n x z, In z (set_nth n x l) -> z = x \/ In z l.
Proof.
  induction l as [|a l IH]; intros [|n] x z H; simpl in *; auto.
  - destruct H; auto.
  - destruct H; auto. apply IH in H. tauto.
Qed.

Lemma In_remove_nth {A} : forall (l : list A) n z, In z (remove_nth n l) -> In z l.
Proof.
  induction l as [|a l IH]; intros [|n] z H; simpl in *; auto.
  destruct H; auto. right. eauto.
Qed.

(* ---- association lists ------------------------------------------------------ *)
Lemma lookup_update_eq {A} : forall (l : list (Z * A)) k v, lookup k (update k v l) = Some v.
Proof.
  induction l as [|[k' v'] l IH]; intros k v; simpl.
  - rewrite Z.eqb_refl. reflexivity.
  - destruct (Z.eqb k k') eqn:E; simpl; rewrite ?Z.eqb_refl, ?E; auto.
Qed.

Lemma lookup_update_neq {A} : forall (l : list (Z * A)) k k' v, k' <> k -> lookup k' (update k v l) = lookup k' l.
Proof.
  induction l as [|[k0 v0] l IH]; intros k k' v H; simpl.
  - destruct (Z.eqb k' k) eqn:E; auto. lia.
  - destruct (Z.eqb k k0) eqn:E; simpl.
    + assert (k = k0) by lia. subst. destruct (Z.eqb k' k0) eqn:E2; auto. lia.
    + destruct (Z.eqb k' k0); auto.
Qed.

Lemma lookup_remove_eq {A} : forall (l : list (Z * A)) k, lookup k (remove_key k l) = None.
Proof.
  induction l as [|[k0 v0] l IH]; intros k; simpl; auto.
  destruct (Z.eqb k k0) eqn:E; simpl; rewrite ?E; auto.
Qed.

Lemma lookup_remove_neq {A} : forall (l : list (Z * A)) k k', k' <> k -> lookup k' (remove_key k l) = lookup k' l.
Proof.
  induction l as [|[k0 v0] l IH]; intros k k' H; simpl; auto.
  destruct (Z.eqb k k0) eqn:E; simpl.
  - assert (k = k0) by lia. subst. destruct (Z.eqb k' k0) eqn:E2; auto. lia.
  - destruct (Z.eqb k' k0); auto.
Qed.

(* ---- order on metrics --------------------------------------------------------- *)
Lemma Qltb_false a b : Qltb a b = false <-> b <= a.
Proof.
  unfold Qltb. rewrite negb_false_iff. apply Qle_bool_iff.
Qed.
Lemma Qleb_false a b : Qleb a b = false <-> b < a.
Proof.
  unfold Qleb. split; intro H.
  - apply Qnot_le_lt. intro Hle. apply Qle_bool_iff in Hle. congruence.
  - destruct (Qle_bool a b) eqn:E; auto. apply Qle_bool_iff in E. exfalso. eapply Qlt_not_le; eauto.
Qed.

(* "y is not strictly better than x" *)
Definition nb (md : mode) (x y : entry) : Prop := better_lt md (e_metric y) (e_metric x) = false.
Definition sorted (md : mode) (l : list entry) : Prop := StronglySorted (nb md) l.

Lemma better_lt_le md a b : better_lt md a b = false <-> better_le md b a = true.
Proof. destruct md; simpl; rewrite Qltb_false, Qleb_le; tauto. Qed.

Lemma better_lt_asym md a b : better_lt md a b = true -> better_lt md b a = false.
Proof.
  destruct md; simpl; rewrite Qltb_lt, Qltb_false; apply Qlt_le_weak.
Qed.

Lemma nb_trans md x y z : nb md x y -> nb md y z -> nb md x z.
Proof.
  unfold nb. destruct md; simpl; rewrite !Qltb_false; intros; eapply Qle_trans; eauto.
Qed.

Lemma In_insert md e : forall l z, In z (insert md e l) <-> z = e \/ In z l.
Proof.
  induction l as [|x r IH]; intros z; simpl.
  - intuition.
  - destruct (better_lt md (e_metric e) (e_metric x)); simpl; [intuition|].
    rewrite IH. intuition.
Qed.

Lemma insert_sorted md e : forall l, sorted md l -> sorted md (insert md e l).
Proof.
  induction l as [|x r IH]; intros Hs; simpl.
  - constructor; constructor.
  - inv Hs. destruct (better_lt md (e_metric e) (e_metric x)) eqn:E.
    + constructor; [constructor; assumption|].
      assert (Hex : nb md e x) by (apply better_lt_asym; exact E).
      constructor; [exact Hex|].
      rewrite Forall_forall in *. intros z Hz. eapply nb_trans; eauto.
    + constructor; [apply IH; assumption|].
      rewrite Forall_forall in *. intros z Hz. apply In_insert in Hz as [->|Hz]; [exact E | auto].
Qed.

Lemma remove_nth_sorted md : forall l n, sorted md l -> sorted md (remove_nth n l).
Proof.
  induction l as [|x r IH]; intros [|n] Hs; simpl; auto.
  - inv Hs. assumption.
  - inv Hs. constructor; [apply IH; assumption|].
    rewrite Forall_forall in *. intros z Hz. apply In_remove_nth in Hz. auto.
Qed.

Lemma sorted_nth md : forall l i j x y, sorted md l -> (i <= j)%nat ->
  nth_error l i = Some x -> nth_error l j = Some y -> nb md x y.
Proof.
  induction l as [|a l IH]; intros [|i] [|j] x y Hs Hij Hx Hy; simpl in *; try discriminate; try lia.
  - inv Hx. inv Hy. unfold nb. destruct md; simpl; apply Qltb_false; apply Qle_refl.
  - inv Hx. inv Hs. rewrite Forall_forall in H2. apply H2. eapply nth_error_In; eauto.
  - inv Hs. apply (IH i j x y); auto. lia.
Qed.

(* ---- find_first ------------------------------------------------------------- *)
Lemma find_first_some {A} (f : A -> bool) : forall l p0 e pos, find_first f l p0 = Some (e, pos) ->
  exists k, pos = (p0 + k)%nat /\ nth_error l k = Some e /\ f e = true /\
            forall k' e', (k' < k)%nat -> nth_error l k' = Some e' -> f e' = false.
Proof.
  induction l as [|x r IH]; intros p0 e pos H; simpl in *; [discriminate|].
  destruct (f x) eqn:E.
  - inv H. exists 0%nat. split; [lia|]. split; [reflexivity|]. split; [exact E|]. intros; lia.
  - apply IH in H as [k [-> [Hn [Hf Hb]]]]. exists (S k). split; [lia|]. split; [exact Hn|]. split; [exact Hf|].
    intros [|k'] e' Hk He'; simpl in *; [inv He'; exact E | eapply Hb; eauto; lia].
Qed.

Lemma find_first_none {A} (f : A -> bool) : forall l p0, find_first f l p0 = None ->
  forall e, In e l -> f e = false.
Proof.
  induction l as [|x r IH]; intros p0 H e Hin; simpl in *; [tauto|].
  destruct (f x) eqn:E; [discriminate|]. destruct Hin as [->|Hin]; eauto.
Qed.

(* ---- the promotion rule on one rung -------------------------------------------- *)
Definition thr_of (r : rung) : Q := sum_costs (r_data r) * r_q r.
(* cost of the k+1 best entries, summed in rung order *)
Definition cost_prefix (l : list entry) (k : nat) : Q := sum_costs (firstn (S k) l).

(* the variant's promotion rule for the entry at position [pos]: satisfied at least up to the
   Boundary region / satisfied strictly outside the Boundary region *)
Definition rule_ok (cfg : config) (r : rung) (pos : nat) (e : entry) : Prop :=
  match c_variant cfg with
  | VCost => (1 < length (r_data r))%nat /\
             forall k, (k <= pos)%nat -> le3 (c_tol cfg) (cost_prefix (r_data r) k) (thr_of r) <> No
  | _ => exists c, quantile (c_mode cfg) r = Some c /\ within (c_mode cfg) (c_tol cfg) (e_metric e) c <> No
  end.
Definition rule_yes (cfg : config) (r : rung) (pos : nat) (e : entry) : Prop :=
  match c_variant cfg with
  | VCost => (1 < length (r_data r))%nat /\
             forall k, (k <= pos)%nat -> le3 (c_tol cfg) (cost_prefix (r_data r) k) (thr_of r) = Yes
  | _ => exists c, quantile (c_mode cfg) r = Some c /\ within (c_mode cfg) (c_tol cfg) (e_metric e) c = Yes
  end.
(* [thr]: RUSH thresholds in force (irrelevant for the other variants) *)
Definition eligible_ok (cfg : config) (thr : list (Z * Q)) (r : rung) (pos : nat) (e : entry) : Prop :=
  nth_error (r_data r) pos = Some e /\ admissible cfg thr (r_level r) e = true /\ rule_ok cfg r pos e.
Definition eligible_yes (cfg : config) (thr : list (Z * Q)) (r : rung) (pos : nat) (e : entry) : Prop :=
  nth_error (r_data r) pos = Some e /\ admissible cfg thr (r_level r) e = true /\ rule_yes cfg r pos e.

Lemma accept_true d b : accept d b = true -> d <> No.
Proof. destruct d; simpl; congruence. Qed.
Lemma accept_false d b : accept d b = false -> d <> Yes.
Proof. destruct d; simpl; congruence. Qed.

Lemma within_mono md tol m m0 c : better_lt md m m0 = false ->
  within md tol m c = Yes -> within md tol m0 c = Yes.
Proof.
  unfold within, near. intros Hb H.
  destruct (Qleb (Qabs (m - c)) (tol * Qabs c)) eqn:En; [discriminate|].
  destruct (better_le md m c) eqn:Ele; [|discriminate].
  apply Qleb_false in En.
  destruct md; cbn [better_lt better_le] in *; apply Qltb_false in Hb; apply Qleb_le in Ele.
  - assert (Hn : Qleb (Qabs (m0 - c)) (tol * Qabs c) = false).
    { apply Qleb_false.
      assert (E1 : Qabs (m - c) == - (m - c)) by (apply Qabs_neg; lra).
      assert (E2 : Qabs (m0 - c) == - (m0 - c)) by (apply Qabs_neg; lra).
      rewrite E1 in En. rewrite E2. lra. }
    rewrite Hn. assert (Hl : Qleb m0 c = true) by (apply Qleb_le; lra). rewrite Hl. reflexivity.
  - assert (Hn : Qleb (Qabs (m0 - c)) (tol * Qabs c) = false).
    { apply Qleb_false.
      assert (E1 : Qabs (m - c) == m - c) by (apply Qabs_pos; lra).
      assert (E2 : Qabs (m0 - c) == m0 - c) by (apply Qabs_pos; lra).
      rewrite E1 in En. rewrite E2. lra. }
    rewrite Hn. assert (Hl : Qleb c m0 = true) by (apply Qleb_le; lra). rewrite Hl. reflexivity.
Qed.

Lemma admissible_ext cfg thr thr0 lvl e : lookup lvl thr = lookup lvl thr0 ->
  admissible cfg thr lvl e = admissible cfg thr0 lvl e.
Proof. unfold admissible. intros ->. reflexivity. Qed.

Lemma admissible_unprom cfg thr lvl e : admissible cfg thr lvl e = true -> e_prom e = false.
Proof. unfold admissible. intro H. apply andb_true_iff in H as [H _]. destruct (e_prom e); auto; discriminate. Qed.

(* cost scan *)
Lemma sum_costs_snoc l e : sum_costs (l ++ [e]) = sum_costs l + e_cost e.
Proof. unfold sum_costs. rewrite fold_left_app. reflexivity. Qed.

Lemma firstn_S_app {A} : forall (pre l : list A) (e : A),
  firstn (S (length pre)) (pre ++ e :: l) = pre ++ [e].
Proof.
  induction pre as [|a pre IH]; intros l e; simpl; [reflexivity|]. f_equal. apply IH.
Qed.

Lemma nth_error_app_mid {A} (pre l : list A) e : nth_error (pre ++ e :: l) (length pre) = Some e.
Proof. rewrite nth_error_app2 by lia. rewrite Nat.sub_diag. reflexivity. Qed.

Lemma cost_scan_some tol b thr data : forall l pre t p,
  data = pre ++ l ->
  cost_scan tol b thr l (sum_costs pre) (length pre) = Some (t, p) ->
  exists e, nth_error data p = Some e /\ e_id e = t /\ e_prom e = false /\ (length pre <= p)%nat /\
    (forall k, (length pre <= k <= p)%nat -> le3 tol (cost_prefix data k) thr <> No) /\
    (forall k e', (length pre <= k < p)%nat -> nth_error data k = Some e' -> e_prom e' = true).
Proof.
  induction l as [|x rest IH]; intros pre t p Hd H; simpl in H; [discriminate|].
  assert (Hpre : cost_prefix data (length pre) = sum_costs pre + e_cost x).
  { unfold cost_prefix. rewrite Hd, firstn_S_app. apply sum_costs_snoc. }
  destruct (accept (le3 tol (sum_costs pre + e_cost x) thr) b) eqn:Ea; simpl in H; [|discriminate].
  destruct (e_prom x) eqn:Ep; simpl in H.
  - assert (Hd' : data = (pre ++ [x]) ++ rest) by (rewrite <- app_assoc; exact Hd).
    rewrite <- sum_costs_snoc in H.
    replace (S (length pre)) with (length (pre ++ [x])) in H by (rewrite app_length; simpl; lia).
    destruct (IH _ _ _ Hd' H) as [e [Hn [Hid [Hp [Hle [Hk Hb]]]]]].
    rewrite app_length in *; simpl in *.
    exists e. repeat split; auto; try lia.
    + intros k Hk'. destruct (Nat.eq_dec k (length pre)) as [->|Hne].
      * rewrite Hpre. eapply accept_true; eauto.
      * apply Hk. lia.
    + intros k e' Hk' He'. destruct (Nat.eq_dec k (length pre)) as [->|Hne].
      * rewrite Hd, nth_error_app_mid in He'. inv He'. exact Ep.
      * eapply Hb; eauto. lia.
  - injection H as Ht Hp'. subst t p. exists x.
    split; [rewrite Hd; apply nth_error_app_mid|].
    split; [reflexivity|]. split; [exact Ep|]. split; [lia|]. split.
    + intros k Hk'. assert (Hk2 : k = length pre) by lia. rewrite Hk2, Hpre. eapply accept_true; eauto.
    + intros; lia.
Qed.

Lemma cost_scan_none tol b thr data : forall l pre,
  data = pre ++ l ->
  cost_scan tol b thr l (sum_costs pre) (length pre) = None ->
  forall p e, (length pre <= p)%nat -> nth_error data p = Some e -> e_prom e = false ->
    exists k, (length pre <= k <= p)%nat /\ le3 tol (cost_prefix data k) thr <> Yes.
Proof.
  induction l as [|x rest IH]; intros pre Hd H p e Hp Hn Hprom.
  - rewrite Hd, app_nil_r in Hn. assert (Hlt : (p < length pre)%nat) by (apply nth_error_Some; congruence). lia.
  - simpl in H.
    assert (Hpre : cost_prefix data (length pre) = sum_costs pre + e_cost x).
    { unfold cost_prefix. rewrite Hd, firstn_S_app. apply sum_costs_snoc. }
    destruct (accept (le3 tol (sum_costs pre + e_cost x) thr) b) eqn:Ea; simpl in H.
    + destruct (e_prom x) eqn:Ep; simpl in H; [|discriminate].
      assert (Hd' : data = (pre ++ [x]) ++ rest) by (rewrite <- app_assoc; exact Hd).
      rewrite <- sum_costs_snoc in H.
      replace (S (length pre)) with (length (pre ++ [x])) in H by (rewrite app_length; simpl; lia).
      destruct (Nat.eq_dec p (length pre)) as [->|Hne].
      * rewrite Hd, nth_error_app_mid in Hn. inv Hn. congruence.
      * destruct (IH _ Hd' H p e) as [k [Hk Hle]]; auto.
        { rewrite app_length; simpl; lia. }
        rewrite app_length in Hk; simpl in Hk. exists k. split; [lia|exact Hle].
    + exists (length pre). split; [lia|]. rewrite Hpre. eapply accept_false; eauto.
Qed.

(* what a hit of _find_promotable_trial guarantees: the entry at [pos] is trial [t], satisfies the
   rule (up to Boundary) and is the first admissible entry of the rung *)
Definition hit_ok (cfg : config) (thr0 : list (Z * Q)) (r : rung) (t : Z) (pos : nat) : Prop :=
  exists e, eligible_ok cfg thr0 r pos e /\ e_id e = t /\
    forall pos' e', nth_error (r_data r) pos' = Some e' -> admissible cfg thr0 (r_level r) e' = true ->
      (pos <= pos')%nat.
Definition none_yes (cfg : config) (thr0 : list (Z * Q)) (r : rung) : Prop :=
  forall pos e, ~ eligible_yes cfg thr0 r pos e.

Lemma cost_variant_admissible cfg thr lvl e : c_variant cfg = VCost ->
  admissible cfg thr lvl e = negb (e_prom e).
Proof. unfold admissible. intros ->. apply andb_true_r. Qed.

Lemma find_promotable_sound cfg thr thr0 r b thr' t pos :
  lookup (r_level r) thr = lookup (r_level r) thr0 ->
  find_promotable cfg thr r b = (thr', Some (t, pos)) -> hit_ok cfg thr0 r t pos.
Proof.
  intros Hl H. unfold find_promotable in H.
  assert (Hext : forall e, admissible cfg thr (r_level r) e = admissible cfg thr0 (r_level r) e)
    by (intro; apply admissible_ext; exact Hl).
  destruct (c_variant cfg) eqn:Ev.
  1,2,4: unfold find_promotable_metric in H;
    destruct (quantile (c_mode cfg) r) as [c|] eqn:Eq; [|discriminate];
    destruct (find_first (admissible cfg thr (r_level r)) (r_data r) 0) as [[e p]|] eqn:Ef; [|discriminate];
    destruct (accept (within (c_mode cfg) (c_tol cfg) (e_metric e) c) b) eqn:Ea; [|discriminate];
    injection H as _ Ht Hp; subst t p;
    apply find_first_some in Ef as [k [Hk [Hn [Ha Hb]]]]; simpl in Hk; subst k;
    exists e; (split; [|split; [reflexivity|]]);
    [ split; [exact Hn|]; split; [rewrite <- Hext; exact Ha|];
      unfold rule_ok; rewrite Ev; exists c; split; [exact Eq|]; eapply accept_true; eauto
    | intros pos' e' Hn' Ha'; rewrite <- Hext in Ha';
      destruct (Nat.lt_ge_cases pos' pos) as [Hlt|Hge]; [|exact Hge];
      rewrite (Hb _ _ Hlt Hn') in Ha'; discriminate ].
  (* cost variant *)
  injection H as _ H. unfold find_promotable_cost in H.
  destruct (1 <? length (r_data r))%nat eqn:El; [|discriminate].
  apply (cost_scan_some _ _ _ (r_data r) (r_data r) [] t pos eq_refl) in H.
  destruct H as [e [Hn [Hid [Hp [_ [Hk Hb]]]]]].
  exists e. split; [|split; [exact Hid|]].
  - split; [exact Hn|]. split; [rewrite cost_variant_admissible by exact Ev; rewrite Hp; reflexivity|].
    unfold rule_ok. rewrite Ev. split; [apply Nat.ltb_lt; exact El|].
    intros k Hk'. apply Hk. simpl. lia.
  - intros pos' e' Hn' Ha'. rewrite cost_variant_admissible in Ha' by exact Ev.
    destruct (Nat.lt_ge_cases pos' pos) as [Hlt|Hge]; [|exact Hge].
    rewrite (Hb pos' e') in Ha'; [discriminate| simpl; lia | exact Hn'].
Qed.

Lemma find_promotable_complete cfg thr thr0 r b thr' :
  sorted (c_mode cfg) (r_data r) ->
  lookup (r_level r) thr = lookup (r_level r) thr0 ->
  find_promotable cfg thr r b = (thr', None) -> none_yes cfg thr0 r.
Proof.
  intros Hs Hl H pos e [Hn [Ha Hy]]. unfold find_promotable in H.
  rewrite <- (admissible_ext cfg thr thr0 _ _ Hl) in Ha.
  unfold rule_yes in Hy.
  destruct (c_variant cfg) eqn:Ev.
  1,2,4: destruct Hy as [c [Hq Hw]]; unfold find_promotable_metric in H; rewrite Hq in H;
    destruct (find_first (admissible cfg thr (r_level r)) (r_data r) 0) as [[e0 p0]|] eqn:Ef;
    [ destruct (accept (within (c_mode cfg) (c_tol cfg) (e_metric e0) c) b) eqn:Ea; [discriminate|];
      apply find_first_some in Ef as [k [Hk [Hn0 [Ha0 Hb]]]]; simpl in Hk; subst k;
      apply accept_false in Ea; apply Ea;
      apply (within_mono _ _ (e_metric e)); [|exact Hw];
      destruct (Nat.lt_ge_cases pos p0) as [Hlt|Hge];
      [ rewrite (Hb _ _ Hlt Hn) in Ha; discriminate
      | exact (sorted_nth _ _ _ _ _ _ Hs Hge Hn0 Hn) ]
    | apply find_first_none with (e := e) in Ef; [congruence | eapply nth_error_In; eauto] ].
  (* cost variant *)
  destruct Hy as [Hlen Hy]. injection H as _ H. unfold find_promotable_cost in H.
  apply Nat.ltb_lt in Hlen. rewrite Hlen in H.
  rewrite cost_variant_admissible in Ha by exact Ev.
  destruct (cost_scan_none _ _ _ (r_data r) (r_data r) [] eq_refl H pos e) as [k [Hk Hne]]; auto.
  - simpl; lia.
  - destruct (e_prom e); [discriminate|reflexivity].
  - apply Hne. apply Hy. lia.
Qed.

Lemma find_promotable_frame cfg thr r b l : l <> r_level r ->
  lookup l (fst (find_promotable cfg thr r b)) = lookup l thr.
Proof.
  intro Hne. unfold find_promotable, find_promotable_metric.
  destruct (c_variant cfg) eqn:Ev; simpl; auto;
    destruct (quantile (c_mode cfg) r); simpl; auto;
    destruct (find_first (admissible cfg thr (r_level r)) (r_data r) 0) as [[e p]|]; simpl; auto;
    destruct (accept _ b); simpl; unfold rush_update; rewrite Ev; auto;
    destruct (e_id e <? c_nthr cfg)%Z; auto; apply lookup_update_neq; exact Hne.
Qed.

(* ---- the scan over rungs (on_task_schedule) ---------------------------------- *)
Lemma last_cons_default {A} : forall (l : list A) a d, last (a :: l) d = last l a.
Proof.
  induction l as [|x l IH]; intros a d; [reflexivity|].
  change (last (a :: x :: l) d) with (last (x :: l) d). rewrite !IH. reflexivity.
Qed.

Lemma scan_spec cfg cap b thr0 : forall rungs j next thr,
  (forall r, In r rungs -> lookup (r_level r) thr = lookup (r_level r) thr0) ->
  NoDup (map r_level rungs) ->
  Forall (fun r => sorted (c_mode cfg) (r_data r)) rungs ->
  match scan cfg cap b rungs j next thr with
  | (_, Some (j', t, pos, level, nxt)) =>
      exists pre r post, rungs = pre ++ r :: post /\ j' = (j + length pre)%nat /\ level = r_level r /\
        (r_level r < cap)%Z /\ nxt = last (map r_level pre) next /\ hit_ok cfg thr0 r t pos /\
        forall r', In r' pre -> (r_level r' < cap)%Z -> none_yes cfg thr0 r'
  | (_, None) => forall r', In r' rungs -> (r_level r' < cap)%Z -> none_yes cfg thr0 r'
  end.
Proof.
  induction rungs as [|r rest IH]; intros j next thr Hl Hnd Hs; simpl.
  - intros r' [].
  - inv Hnd. inv Hs.
    assert (Hl_r : lookup (r_level r) thr = lookup (r_level r) thr0) by (apply Hl; left; reflexivity).
    destruct (r_level r <? cap)%Z eqn:Ec.
    + destruct (find_promotable cfg thr r b) as [thr' res] eqn:Ef.
      destruct res as [[t pos]|].
      * exists [], r, rest. simpl.
        split; [reflexivity|]. split; [lia|]. split; [reflexivity|]. split; [lia|]. split; [reflexivity|].
        split; [eapply find_promotable_sound; eauto|]. intros r' [].
      * assert (Hl' : forall r2, In r2 rest -> lookup (r_level r2) thr' = lookup (r_level r2) thr0).
        { intros r2 Hin. rewrite <- (Hl r2) by (right; exact Hin).
          replace thr' with (fst (find_promotable cfg thr r b)) by (rewrite Ef; reflexivity).
          apply find_promotable_frame. intro Heq. apply H1. rewrite <- Heq. apply in_map. exact Hin. }
        specialize (IH (S j) (r_level r) thr' Hl' H2 H4).
        assert (Hr : none_yes cfg thr0 r) by (eapply find_promotable_complete; eauto).
        destruct (scan cfg cap b rest (S j) (r_level r) thr') as [thr2 [[[[[j' t] pos] level] nxt]|]].
        -- destruct IH as [pre [r1 [post [Hrest [Hj [Hlev [Hcap [Hnxt [Hhit Hpre]]]]]]]]].
           exists (r :: pre), r1, post. subst rest. simpl length.
           split; [reflexivity|]. split; [lia|]. split; [exact Hlev|]. split; [exact Hcap|].
           split; [change (map r_level (r :: pre)) with (r_level r :: map r_level pre);
                   rewrite last_cons_default; exact Hnxt|].
           split; [exact Hhit|]. intros r' [<-|Hin] Hc; auto.
        -- intros r' [<-|Hin] Hc; auto.
    + assert (Hl' : forall r2, In r2 rest -> lookup (r_level r2) thr = lookup (r_level r2) thr0)
        by (intros; apply Hl; right; assumption).
      specialize (IH (S j) (r_level r) thr Hl' H2 H4).
      destruct (scan cfg cap b rest (S j) (r_level r) thr) as [thr2 [[[[[j' t] pos] level] nxt]|]].
      * destruct IH as [pre [r1 [post [Hrest [Hj [Hlev [Hcap [Hnxt [Hhit Hpre]]]]]]]]].
        exists (r :: pre), r1, post. subst rest. simpl length.
        split; [reflexivity|]. split; [lia|]. split; [exact Hlev|]. split; [exact Hcap|].
        split; [change (map r_level (r :: pre)) with (r_level r :: map r_level pre);
                rewrite last_cons_default; exact Hnxt|].
        split; [exact Hhit|]. intros r' [<-|Hin] Hc; [lia|auto].
      * intros r' [<-|Hin] Hc; [lia|auto].
Qed.

(* ---- how the rung systems of a state evolve ------------------------------------ *)
Inductive rs_trans (cfg : config) : rsys -> rsys -> Prop :=
| T_refl rs : rs_trans cfg rs rs
| T_sched rs b rs' p : rs_on_task_schedule cfg rs b = Ok (rs', p) -> rs_trans cfg rs rs'
| T_remove rs t : rs_trans cfg rs (rs_on_task_remove rs t)
| T_add_new rs t skip : rs_trans cfg rs (rs_on_task_add_new cfg rs t skip)
| T_add_resumed rs t ms rf rs' : rs_on_task_add_resumed rs t ms rf = Ok rs' -> rs_trans cfg rs rs'
| T_report rs t r m c eps rs' info :
    rs_on_task_report cfg rs t r m c eps = Ok (rs', info) -> rs_trans cfg rs rs'
| T_trans a b c : rs_trans cfg a b -> rs_trans cfg b c -> rs_trans cfg a c.

Definition sys_rel (cfg : config) (sys sys' : list rsys) : Prop :=
  length sys' = length sys /\
  forall s rs', nth_error sys' s = Some rs' -> exists rs, nth_error sys s = Some rs /\ rs_trans cfg rs rs'.

Lemma sys_rel_refl cfg sys : sys_rel cfg sys sys.
Proof. split; [reflexivity|]. intros s rs' H. exists rs'. split; [exact H|constructor]. Qed.

Lemma sys_rel_trans cfg a b c : sys_rel cfg a b -> sys_rel cfg b c -> sys_rel cfg a c.
Proof.
  intros [L1 H1] [L2 H2]. split; [congruence|]. intros s rs' H.
  destruct (H2 _ _ H) as [rs1 [Hb Ht1]]. destruct (H1 _ _ Hb) as [rs0 [Ha Ht0]].
  exists rs0. split; [exact Ha|]. eapply T_trans; eauto.
Qed.

Lemma sys_rel_set_nth cfg sys s rs rs' : nth_error sys s = Some rs -> rs_trans cfg rs rs' ->
  sys_rel cfg sys (set_nth s rs' sys).
Proof.
  intros Hn Ht. split; [apply set_nth_length|]. intros s' r' H.
  destruct (Nat.eq_dec s s') as [<-|Hne].
  - rewrite (nth_error_set_nth_eq _ _ _ _ Hn) in H. inv H. eauto.
  - rewrite nth_error_set_nth_neq in H by exact Hne. exists r'. split; [exact H|constructor].
Qed.

Lemma cleanup_sys_rel cfg st t d : sys_rel cfg (st_sys st) (st_sys (cleanup cfg st t d)).
Proof.
  unfold cleanup. destruct (lookup t (st_task st)) as [br|]; simpl; [|apply sys_rel_refl].
  destruct (nth_error (st_sys st) (fst (sys_of cfg br))) as [rs|] eqn:E; simpl; [|apply sys_rel_refl].
  eapply sys_rel_set_nth; eauto. constructor.
Qed.

Lemma suggest_sys_rel cfg st n br b got st' o :
  suggest cfg st n br b got = Ok (st', o) -> sys_rel cfg (st_sys st) (st_sys st').
Proof.
  unfold suggest. intro H. destruct (sys_of cfg br) as [sid skip].
  destruct (nth_error (st_sys st) sid) as [rs|] eqn:En; [|discriminate].
  destruct (rs_on_task_schedule cfg rs b) as [[rs1 [[[[j t] rf] ms]|]]|] eqn:Es; [| |discriminate].
  - destruct (rs_on_task_add_resumed rs1 t ms rf) as [rs2|] eqn:Ea; [|discriminate].
    destruct (lookup t (st_active st)); [|discriminate].
    destruct (decision_eqb (ti_dec t0) CONTINUE); [discriminate|]. inv H. simpl.
    eapply sys_rel_set_nth; eauto. eapply T_trans; [eapply T_sched; eauto|eapply T_add_resumed; eauto].
  - destruct (negb got).
    + inv H. simpl. eapply sys_rel_set_nth; eauto. eapply T_sched; eauto.
    + destruct (lookup n (st_active st)); [discriminate|]. inv H. simpl.
      eapply sys_rel_set_nth; eauto. eapply T_trans; [eapply T_sched; eauto|]. constructor.
Qed.

Lemma on_trial_result_sys_rel cfg st t r m c eps st' d :
  on_trial_result cfg st t r m c eps = Ok (st', d) -> sys_rel cfg (st_sys st) (st_sys st').
Proof.
  unfold on_trial_result. intro H.
  destruct (r <? 1)%Z; [discriminate|].
  destruct (lookup t (st_active st)) as [ti|]; [|discriminate].
  destruct (negb (decision_eqb (ti_dec ti) CONTINUE)); [inv H; apply sys_rel_refl|].
  destruct (lookup t (st_task st)) as [br|]; [|discriminate].
  destruct (nth_error (st_sys st) (fst (sys_of cfg br))) as [rs|] eqn:En; [|discriminate].
  match type of H with context [match ?X with Ok _ => _ | Err _ => _ end] =>
    assert (Hrep : forall rs' info, X = Ok (rs', info) -> rs_trans cfg rs rs') end.
  { intros rs' info Hx. destruct (r <? c_max_t cfg)%Z; [eapply T_report; eauto | inv Hx; constructor]. }
  match type of H with context [match ?X with Ok _ => _ | Err _ => _ end] =>
    destruct X as [[rs' info]|] eqn:Ex; [|discriminate] end.
  specialize (Hrep _ _ eq_refl).
  assert (Hsys : sys_rel cfg (st_sys st) (set_nth (fst (sys_of cfg br)) rs' (st_sys st)))
    by (eapply sys_rel_set_nth; eauto).
  repeat (break_in H; try discriminate); inv H; simpl; try exact Hsys;
    (eapply sys_rel_trans; [exact Hsys|]; apply (cleanup_sys_rel cfg (mkS _ _ _ _))).
Qed.

Lemma step_sys_rel cfg st ev st' o : step cfg st ev = Ok (st', o) -> sys_rel cfg (st_sys st) (st_sys st').
Proof.
  destruct ev; simpl; intro H.
  - eapply suggest_sys_rel; eauto.
  - inv H. apply sys_rel_refl.
  - destruct (on_trial_result cfg st t resource metric cost eps) as [[st1 d]|] eqn:E; [|discriminate].
    inv H. eapply on_trial_result_sys_rel; eauto.
  - inv H. apply cleanup_sys_rel.
  - destruct (lookup t (st_active st)); [|discriminate]. inv H. apply cleanup_sys_rel.
  - inv H. apply cleanup_sys_rel.
Qed.

Lemma run_from_sys_rel cfg : forall evs st st' os,
  run_from cfg st evs = Ok (st', os) -> sys_rel cfg (st_sys st) (st_sys st').
Proof.
  induction evs as [|ev evs IH]; intros st st' os H; simpl in H.
  - inv H. apply sys_rel_refl.
  - destruct (step cfg st ev) as [[st1 o]|] eqn:Es; [|discriminate].
    destruct (run_from cfg st1 evs) as [[st2 os2]|] eqn:Er; [|discriminate]. inv H.
    eapply sys_rel_trans; [eapply step_sys_rel; eauto | eapply IH; eauto].
Qed.

(* ---- shape of the atomic rung-system transitions --------------------------------- *)
Definition promoted_rung (md : mode) (r : rung) (pos : nat) (e : entry) : rung :=
  mkR (r_level r) (r_q r) (insert md (set_prom e) (remove_nth pos (r_data r))).
Definition added_rung (md : mode) (r : rung) (e : entry) : rung :=
  mkR (r_level r) (r_q r) (insert md e (r_data r)).

Lemma sched_shape cfg rs b rs' p : rs_on_task_schedule cfg rs b = Ok (rs', p) ->
  rs_running rs' = rs_running rs /\ rs_idx rs' = rs_idx rs /\ rs_cap rs' = rs_cap rs /\
  ((p = None /\ rs_rungs rs' = rs_rungs rs /\
    exists thr', scan cfg (eff_max cfg rs) b (rs_rungs rs) 0 (c_max_t cfg) (rs_thr rs) = (thr', None)) \/
   exists j t from nxt pos r e thr',
     p = Some (j, t, from, nxt) /\
     scan cfg (eff_max cfg rs) b (rs_rungs rs) 0 (c_max_t cfg) (rs_thr rs) = (thr', Some (j, t, pos, from, nxt)) /\
     nth_error (rs_rungs rs) j = Some r /\ nth_error (r_data r) pos = Some e /\ e_prom e = false /\
     rs_rungs rs' = set_nth j (promoted_rung (c_mode cfg) r pos e) (rs_rungs rs)).
Proof.
  unfold rs_on_task_schedule. intro H.
  destruct (scan cfg (eff_max cfg rs) b (rs_rungs rs) 0 (c_max_t cfg) (rs_thr rs))
    as [thr' [[[[[j t] pos] level] nxt]|]] eqn:Es.
  - destruct (nth_error (rs_rungs rs) j) as [r|] eqn:En; [|discriminate].
    unfold mark_as_promoted in H. destruct (nth_error (r_data r) pos) as [e|] eqn:Ee; [|discriminate].
    destruct (e_prom e) eqn:Ep; [discriminate|]. inv H. simpl.
    repeat split; auto. right. exists j, t, level, nxt, pos, r, e, thr'. repeat split; auto.
  - inv H. simpl. repeat split; auto. left. repeat split; auto. eauto.
Qed.

Lemma rung_pos_spec level : forall l i p, rung_pos level l i = Some p ->
  exists k rg, p = (i + k)%nat /\ nth_error l k = Some rg /\ r_level rg = level.
Proof.
  induction l as [|x l IH]; intros i p H; simpl in H; [discriminate|].
  destruct (r_level x =? level)%Z eqn:E.
  - inv H. exists 0%nat, x. repeat split; [lia|lia].
  - apply IH in H as [k [rg [-> [Hn Hl]]]]. exists (S k), rg. repeat split; auto. lia.
Qed.

Lemma promo_report_shape cfg rs t r m c rs' info : promo_on_task_report cfg rs t r m c = Ok (rs', info) ->
  rs_running rs' = rs_running rs /\ rs_thr rs' = rs_thr rs /\ rs_idx rs' = rs_idx rs /\ rs_cap rs' = rs_cap rs /\
  (rs_rungs rs' = rs_rungs rs \/
   exists p rg, nth_error (rs_rungs rs) p = Some rg /\ in_rung t rg = false /\ r_level rg = r /\
     ri_reached info = true /\
     rs_rungs rs' = set_nth p (added_rung (c_mode cfg) rg (mkE t m c false)) (rs_rungs rs)).
Proof.
  unfold promo_on_task_report. intro H.
  destruct (lookup t (rs_running rs)) as [[ms rf]|]; [|discriminate].
  destruct (ms <=? r)%Z; [|inv H; repeat split; auto].
  destruct (negb (r =? ms)%Z) eqn:Eeq; [discriminate|].
  assert (r = ms) by (destruct (r =? ms)%Z eqn:E; [lia|discriminate]). subst ms.
  destruct (rung_pos r (rs_rungs rs) 0) as [p|] eqn:Ep; [|inv H; repeat split; auto].
  destruct (nth_error (rs_rungs rs) p) as [rg|] eqn:En; [|discriminate].
  destruct (in_rung t rg) eqn:Ein; [discriminate|]. inv H. simpl.
  repeat split; auto. right. exists p, rg. repeat split; auto.
  apply rung_pos_spec in Ep as [k [rg' [Hk [Hn Hl]]]]. simpl in Hk. subst k. congruence.
Qed.

Lemma report_shape cfg rs t r m c eps rs' info : rs_on_task_report cfg rs t r m c eps = Ok (rs', info) ->
  exists rs1, promo_on_task_report cfg rs t r m c = Ok (rs1, info) /\
    rs_rungs rs' = rs_rungs rs1 /\ rs_running rs' = rs_running rs1 /\ rs_thr rs' = rs_thr rs1 /\
    (c_variant cfg <> VPasha -> rs' = rs1).
Proof.
  unfold rs_on_task_report, pasha_on_task_report. intro H.
  destruct (c_variant cfg) eqn:Ev; try (exists rs'; repeat split; auto; fail).
  destruct (promo_on_task_report cfg rs t r m c) as [[rs1 info1]|]; [|discriminate].
  destruct (pasha_increase cfg rs1 eps) as [[|]|]; [| |discriminate].
  - destruct (rs_idx rs1 <? length (rs_rungs rs1))%nat.
    + destruct (py_nth (rs_levels rs1) (Z.of_nat (S (rs_idx rs1)) - 1)); [|discriminate].
      inv H. exists rs1. repeat split; auto. congruence.
    + inv H. exists rs1. repeat split; auto. congruence.
  - inv H. exists rs'. repeat split; auto.
Qed.

(* ---- invariant A: rung levels are static, rung data stays sorted ------------------- *)
Definition rs_wf (cfg : config) (lv : list Z) (rs : rsys) : Prop :=
  map r_level (rs_rungs rs) = lv /\ Forall (fun r => sorted (c_mode cfg) (r_data r)) (rs_rungs rs).

Lemma Forall_set_nth {A} (P : A -> Prop) : forall l n x, Forall P l -> P x -> Forall P (set_nth n x l).
Proof.
  induction l as [|a l IH]; intros [|n] x Hl Hx; simpl; auto; inv Hl; constructor; auto.
Qed.
Lemma Forall_nth_error {A} (P : A -> Prop) l n x : Forall P l -> nth_error l n = Some x -> P x.
Proof. intros H Hn. rewrite Forall_forall in H. apply H. eapply nth_error_In; eauto. Qed.

Lemma rs_trans_wf cfg lv rs rs' : rs_trans cfg rs rs' -> rs_wf cfg lv rs -> rs_wf cfg lv rs'.
Proof.
  intro Ht. induction Ht as [rs|rs b rs' p H|rs t|rs t skip|rs t ms rf rs' H|rs t r m c eps rs' info H|a b c H1 IH1 H2 IH2];
    intros [Hl Hs]; [split; auto| | | | | |apply IH2; apply IH1; split; auto].
  - apply sched_shape in H as [_ [_ [_ [[_ [Hr _]]|[j [t [from [nxt [pos [r [e [thr' [_ [_ [Hn [He [_ Hr]]]]]]]]]]]]]]]]].
    + split; rewrite Hr; auto.
    + split; rewrite Hr.
      * rewrite <- Hl. eapply map_set_nth; eauto.
      * apply Forall_set_nth; auto. simpl. apply insert_sorted. apply remove_nth_sorted.
        eapply (Forall_nth_error _ _ _ _ Hs Hn).
  - split; auto.
  - split; auto.
  - unfold rs_on_task_add_resumed in H. destruct (rf <? ms)%Z; inv H. split; auto.
  - apply report_shape in H as [rs1 [Hp [Hr _]]].
    apply promo_report_shape in Hp as [_ [_ [_ [_ [Hr1|[p [rg [Hn [_ [_ [_ Hr1]]]]]]]]]]].
    + split; rewrite Hr, Hr1; auto.
    + split; rewrite Hr, Hr1.
      * rewrite <- Hl. eapply map_set_nth; eauto.
      * apply Forall_set_nth; auto. simpl. apply insert_sorted. eapply (Forall_nth_error _ _ _ _ Hs Hn).
Qed.

Definition static_levels (cfg : config) (s : nat) : list Z := rev (map fst (skipn s (c_rungs cfg))).

Lemma nth_error_map_seq {A} (f : nat -> A) : forall n a s x,
  nth_error (map f (seq a n)) s = Some x -> x = f (a + s)%nat /\ (s < n)%nat.
Proof.
  induction n as [|n IH]; intros a [|s] x H; simpl in *; try discriminate.
  - inv H. split; [f_equal; lia|lia].
  - apply IH in H as [-> Hs]. split; [f_equal; lia|lia].
Qed.

Lemma init_sys cfg s rs : nth_error (st_sys (init cfg)) s = Some rs ->
  rs = mk_sys cfg (skipn s (c_rungs cfg)) /\ (s < num_systems cfg)%nat.
Proof. simpl. intro H. apply nth_error_map_seq in H. simpl in H. exact H. Qed.

Lemma mk_sys_wf cfg lv : rs_wf cfg (rev (map fst lv)) (mk_sys cfg lv).
Proof.
  unfold mk_sys, rs_wf. simpl. split.
  - rewrite map_rev, map_map. reflexivity.
  - apply Forall_rev. apply Forall_forall. intros r Hr. apply in_map_iff in Hr as [p [<- _]]. simpl. constructor.
Qed.

(* a reachable rung system is related to its initial version *)
Lemma reach_sys cfg evs st os s rs : run cfg evs = Ok (st, os) -> nth_error (st_sys st) s = Some rs ->
  (s < num_systems cfg)%nat /\ rs_trans cfg (mk_sys cfg (skipn s (c_rungs cfg))) rs.
Proof.
  intros Hrun Hn. apply run_from_sys_rel in Hrun as [_ Hrel].
  destruct (Hrel _ _ Hn) as [rs0 [H0 Ht]]. apply init_sys in H0 as [-> Hs]. auto.
Qed.

Lemma reach_wf cfg evs st os s rs : run cfg evs = Ok (st, os) -> nth_error (st_sys st) s = Some rs ->
  rs_wf cfg (static_levels cfg s) rs.
Proof.
  intros Hrun Hn. destruct (reach_sys _ _ _ _ _ _ Hrun Hn) as [_ Ht].
  eapply rs_trans_wf; eauto. apply mk_sys_wf.
Qed.

(* configuration: rung levels strictly increasing and below max_t *)
Definition cfg_wf (cfg : config) : Prop :=
  StronglySorted Z.lt (c_levels cfg) /\ Forall (fun l => (l < c_max_t cfg)%Z) (c_levels cfg).

Lemma sorted_lt_skipn : forall (l : list Z) s, StronglySorted Z.lt l -> StronglySorted Z.lt (skipn s l).
Proof.
  induction l as [|a l IH]; intros [|s] H; simpl; auto. inv H. auto.
Qed.
Lemma sorted_lt_nodup : forall l : list Z, StronglySorted Z.lt l -> NoDup l.
Proof.
  induction 1; constructor; auto. intro Hin. rewrite Forall_forall in H0. apply H0 in Hin. lia.
Qed.
Lemma map_fst_skipn {A B} : forall (l : list (A * B)) s, map fst (skipn s l) = skipn s (map fst l).
Proof. induction l as [|a l IH]; intros [|s]; simpl; auto. Qed.

Lemma static_levels_nodup cfg s : cfg_wf cfg -> NoDup (static_levels cfg s).
Proof.
  intros [Hs _]. unfold static_levels. apply NoDup_rev. rewrite map_fst_skipn.
  apply sorted_lt_nodup. apply sorted_lt_skipn. exact Hs.
Qed.

(* ---- C04 eligibility -------------------------------------------------------------- *)
(* the level a trial promoted from rung position j runs to *)
Definition next_above (cfg : config) (rungs : list rung) (j : nat) : Z :=
  match j with
  | O => c_max_t cfg
  | S j' => match nth_error rungs j' with Some r => r_level r | None => c_max_t cfg end
  end.

Lemma last_pre_next_above cfg : forall (pre : list rung) r post,
  last (map r_level pre) (c_max_t cfg) = next_above cfg (pre ++ r :: post) (length pre).
Proof.
  intros pre r post. destruct pre as [|a pre0] using rev_ind; [reflexivity|].
  rewrite map_app. simpl map. rewrite last_last. rewrite app_length. simpl length.
  rewrite Nat.add_1_r. simpl. rewrite <- app_assoc. simpl. rewrite nth_error_app_mid. reflexivity.
Qed.

Lemma eligibility_sound cfg evs st os n br b got st' t mra s j from nxt :
  cfg_wf cfg -> run cfg evs = Ok (st, os) ->
  suggest cfg st n br b got = Ok (st', OResume t mra s j from nxt) ->
  exists rs r pos e,
    s = fst (sys_of cfg br) /\ nth_error (st_sys st) s = Some rs /\ nth_error (rs_rungs rs) j = Some r /\
    r_level r = from /\ (from < eff_max cfg rs)%Z /\
    eligible_ok cfg (rs_thr rs) r pos e /\ e_id e = t /\ e_prom e = false /\
    (forall e', In e' (r_data r) -> admissible cfg (rs_thr rs) from e' = true ->
                better_lt (c_mode cfg) (e_metric e') (e_metric e) = false) /\
    (forall j' r', (j' < j)%nat -> nth_error (rs_rungs rs) j' = Some r' ->
                   (r_level r' < eff_max cfg rs)%Z -> none_yes cfg (rs_thr rs) r') /\
    nxt = next_above cfg (rs_rungs rs) j /\ mra = (if c_mra cfg then Some nxt else None).
Proof.
  intros Hcfg Hrun H. unfold suggest in H. destruct (sys_of cfg br) as [sid skip] eqn:Esys.
  destruct (nth_error (st_sys st) sid) as [rs|] eqn:En; [|discriminate].
  destruct (rs_on_task_schedule cfg rs b) as [[rs1 [[[[j0 t0] rf] ms]|]]|] eqn:Es; [| |discriminate].
  2: { destruct (negb got); [inv H|]. destruct (lookup n (st_active st)); inv H. }
  unfold rs_on_task_add_resumed in H. destruct (rf <? ms)%Z; [|discriminate].
  destruct (lookup t0 (st_active st)) as [ti|]; [|discriminate].
  destruct (decision_eqb (ti_dec ti) CONTINUE); [discriminate|]. inv H.
  destruct (reach_wf _ _ _ _ _ _ Hrun En) as [Hlv Hsorted].
  assert (Hnd : NoDup (map r_level (rs_rungs rs))) by (rewrite Hlv; apply static_levels_nodup; exact Hcfg).
  apply sched_shape in Es as [_ [_ [_ [[Hp _]|[j1 [t1 [from1 [nxt1 [pos [r [e [thr' [Hp [Hscan [Hnj [Hne [Hprom _]]]]]]]]]]]]]]]]];
    [discriminate|]. inv Hp.
  pose proof (scan_spec cfg (eff_max cfg rs) b (rs_thr rs) (rs_rungs rs) 0 (c_max_t cfg) (rs_thr rs)
                (fun _ _ => eq_refl) Hnd Hsorted) as Hspec.
  rewrite Hscan in Hspec.
  destruct Hspec as [pre [r1 [post [Hrungs [Hj [Hlev [Hcap [Hnxt [Hhit Hpre]]]]]]]]].
  simpl in Hj. subst.
  assert (r1 = r) by (rewrite Hrungs, nth_error_app_mid in Hnj; congruence). subst r1.
  destruct Hhit as [e1 [Hel [Hid Hfirst]]].
  assert (Hel' := Hel). destruct Hel' as [Hn1 [Ha1 _]].
  exists rs, r, pos, e1. simpl.
  split; [reflexivity|]. split; [exact En|]. split; [exact Hnj|]. split; [auto|].
  split; [exact Hcap|]. split; [exact Hel|]. split; [exact Hid|].
  split; [eapply admissible_unprom; eauto|]. split; [|split; [|split]].
  - intros e' Hin Ha'. apply In_nth_error in Hin as [pos' Hn'].
    specialize (Hfirst _ _ Hn' Ha').
    exact (sorted_nth _ _ _ _ _ _ (Forall_nth_error _ _ _ _ Hsorted Hnj) Hfirst Hn1 Hn').
  - intros j' r' Hj' Hn' Hc. apply Hpre; [|exact Hc].
    rewrite Hrungs in Hn'. rewrite nth_error_app1 in Hn' by exact Hj'. eapply nth_error_In; eauto.
  - rewrite Hrungs. apply last_pre_next_above.
  - reflexivity.
Qed.

Lemma eligibility_complete cfg evs st os n br b got st' o :
  cfg_wf cfg -> run cfg evs = Ok (st, os) ->
  suggest cfg st n br b got = Ok (st', o) ->
  (forall t mra s j from nxt, o <> OResume t mra s j from nxt) ->
  forall rs r, nth_error (st_sys st) (fst (sys_of cfg br)) = Some rs -> In r (rs_rungs rs) ->
    (r_level r < eff_max cfg rs)%Z -> none_yes cfg (rs_thr rs) r.
Proof.
  intros Hcfg Hrun H Hno rs r En Hin Hc. unfold suggest in H.
  destruct (sys_of cfg br) as [sid skip] eqn:Esys. simpl in En. rewrite En in H.
  destruct (rs_on_task_schedule cfg rs b) as [[rs1 [[[[j0 t0] rf] ms]|]]|] eqn:Es; [| |discriminate].
  { unfold rs_on_task_add_resumed in H. destruct (rf <? ms)%Z; [|discriminate].
    destruct (lookup t0 (st_active st)) as [ti|]; [|discriminate].
    destruct (decision_eqb (ti_dec ti) CONTINUE); [discriminate|]. inv H. exfalso. eapply Hno; eauto. }
  destruct (reach_wf _ _ _ _ _ _ Hrun En) as [Hlv Hsorted].
  assert (Hnd : NoDup (map r_level (rs_rungs rs))) by (rewrite Hlv; apply static_levels_nodup; exact Hcfg).
  apply sched_shape in Es as [_ [_ [_ [[_ [_ [thr' Hscan]]]|[j1 [t1 [from1 [nxt1 [pos [r1 [e [thr' [Hp _]]]]]]]]]]]]];
    [|discriminate].
  pose proof (scan_spec cfg (eff_max cfg rs) b (rs_thr rs) (rs_rungs rs) 0 (c_max_t cfg) (rs_thr rs)
                (fun _ _ => eq_refl) Hnd Hsorted) as Hspec.
  rewrite Hscan in Hspec. apply Hspec; auto.
Qed.

(* ---- resource cap -------------------------------------------------------------------- *)
Lemma ss_snoc {A} (R : A -> A -> Prop) : forall l a, StronglySorted R l -> Forall (fun x => R x a) l ->
  StronglySorted R (l ++ [a]).
Proof.
  induction l as [|x l IH]; intros a Hs Hf; simpl.
  - constructor; constructor.
  - inv Hs. inv Hf. constructor; [apply IH; assumption|].
    apply Forall_app. split; [assumption|constructor; [assumption|constructor]].
Qed.

Lemma ss_rev_gt : forall l : list Z, StronglySorted Z.lt l -> StronglySorted Z.gt (rev l).
Proof.
  induction 1; simpl; [constructor|]. apply ss_snoc; [assumption|].
  apply Forall_rev. rewrite Forall_forall in *. intros x Hx. apply H0 in Hx. lia.
Qed.

Lemma ss_gt_nth : forall (l : list Z) i j x y, StronglySorted Z.gt l -> (i < j)%nat ->
  nth_error l i = Some x -> nth_error l j = Some y -> (y < x)%Z.
Proof.
  induction l as [|a l IH]; intros [|i] [|j] x y Hs Hij Hx Hy; simpl in *; try discriminate; try lia.
  - inv Hx. inv Hs. rewrite Forall_forall in H2. apply nth_error_In in Hy. apply H2 in Hy. lia.
  - inv Hs. apply (IH i j x y); auto. lia.
Qed.

Lemma In_skipn {A} : forall (l : list A) s x, In x (skipn s l) -> In x l.
Proof. induction l as [|a l IH]; intros [|s] x H; simpl in *; auto. right. eauto. Qed.

Lemma static_levels_in cfg s x : In x (static_levels cfg s) -> In x (c_levels cfg).
Proof.
  unfold static_levels, c_levels. intro H. apply in_rev in H. rewrite map_fst_skipn in H.
  eapply In_skipn; eauto.
Qed.

Lemma static_levels_desc cfg s : cfg_wf cfg -> StronglySorted Z.gt (static_levels cfg s).
Proof.
  intros [Hs _]. unfold static_levels. apply ss_rev_gt. rewrite map_fst_skipn. apply sorted_lt_skipn. exact Hs.
Qed.

Definition is_level (cfg : config) (v : Z) : Prop := In v (c_levels cfg) \/ v = c_max_t cfg.

Lemma is_level_le cfg v : cfg_wf cfg -> is_level cfg v -> (v <= c_max_t cfg)%Z.
Proof.
  intros [_ Hf] [Hin| ->]; [|lia]. rewrite Forall_forall in Hf. apply Hf in Hin. lia.
Qed.

Lemma first_milestone_level cfg s rs skip : rs_wf cfg (static_levels cfg s) rs ->
  is_level cfg (first_milestone cfg rs skip).
Proof.
  intros [Hl _]. unfold first_milestone.
  destruct (skip <? length (rs_rungs rs))%nat; [|right; reflexivity].
  destruct (nth_error (rs_rungs rs) (length (rs_rungs rs) - (skip + 1))) as [r|] eqn:E; [|right; reflexivity].
  left. eapply static_levels_in. rewrite <- Hl. apply in_map. eapply nth_error_In; eauto.
Qed.

Lemma next_above_level cfg s rs j : rs_wf cfg (static_levels cfg s) rs ->
  is_level cfg (next_above cfg (rs_rungs rs) j).
Proof.
  intros [Hl _]. unfold next_above. destruct j as [|j']; [right; reflexivity|].
  destruct (nth_error (rs_rungs rs) j') as [r|] eqn:E; [|right; reflexivity].
  left. eapply static_levels_in. rewrite <- Hl. apply in_map. eapply nth_error_In; eauto.
Qed.

(* every config[max_resource_attr] handed out is a rung level or max_t, and <= max_t *)
Lemma resource_cap cfg evs st os n br b got st' o v :
  cfg_wf cfg -> run cfg evs = Ok (st, os) -> suggest cfg st n br b got = Ok (st', o) ->
  (exists t, o = OStart t (Some v)) \/ (exists t s j from nxt, o = OResume t (Some v) s j from nxt) ->
  is_level cfg v /\ (v <= c_max_t cfg)%Z.
Proof.
  intros Hcfg Hrun H Ho.
  assert (Hlev : is_level cfg v); [|split; [exact Hlev|apply is_level_le; assumption]].
  destruct Ho as [[t ->]|[t [s [j [from [nxt ->]]]]]].
  - unfold suggest in H. destruct (sys_of cfg br) as [sid skip].
    destruct (nth_error (st_sys st) sid) as [rs|] eqn:En; [|discriminate].
    destruct (rs_on_task_schedule cfg rs b) as [[rs1 [[[[j0 t0] rf] ms]|]]|] eqn:Es; [| |discriminate].
    + destruct (rs_on_task_add_resumed rs1 t0 ms rf); [|discriminate].
      destruct (lookup t0 (st_active st)); [|discriminate].
      destruct (decision_eqb (ti_dec t1) CONTINUE); inv H.
    + destruct (negb got); [inv H|]. destruct (lookup n (st_active st)); [discriminate|].
      injection H as _ _ Hm. destruct (c_mra cfg); [|discriminate]. injection Hm as <-.
      eapply first_milestone_level. eapply rs_trans_wf; [eapply T_sched; eauto|].
      eapply reach_wf; eauto.
  - destruct (eligibility_sound _ _ _ _ _ _ _ _ _ _ _ _ _ _ _ Hcfg Hrun H)
      as [rs [r [pos [e [_ [En [_ [_ [_ [_ [_ [_ [_ [_ [Hnxt Hmra]]]]]]]]]]]]]]].
    destruct (c_mra cfg); [|discriminate]. injection Hmra as ->. rewrite Hnxt.
    eapply next_above_level. eapply reach_wf; eauto.
Qed.

(* PASHA: current_max_t is max_t or one of the system's rung levels; tied to current_rung_idx *)
Definition cap_inv (cfg : config) (rs : rsys) : Prop :=
  let len := length (rs_rungs rs) in
  ((len <= rs_idx rs)%nat /\ rs_cap rs = c_max_t cfg) \/
  ((1 <= rs_idx rs <= len)%nat /\ py_nth (rs_levels rs) (Z.of_nat (rs_idx rs) - 1) = Some (rs_cap rs)) \/
  (rs_idx rs = 0%nat /\ len = 1%nat /\ In (rs_cap rs) (rs_levels rs)).

Lemma py_nth_nonneg {A} (l : list A) (i : nat) : py_nth l (Z.of_nat i) = nth_error l i.
Proof.
  unfold py_nth. destruct (Z.of_nat i <? 0)%Z eqn:E; [lia|].
  destruct ((0 <=? Z.of_nat i)%Z && (Z.of_nat i <? Z.of_nat (length l))%Z) eqn:E2.
  - rewrite Nat2Z.id. reflexivity.
  - symmetry. apply nth_error_None. lia.
Qed.

Lemma mk_sys_cap_inv cfg lv : cap_inv cfg (mk_sys cfg lv).
Proof.
  unfold cap_inv, mk_sys, rs_levels. simpl. rewrite rev_length, map_length.
  rewrite map_rev, rev_involutive, map_map. simpl.
  change (map (fun x : Z * Q => fst x) lv) with (map fst lv).
  destruct lv as [|a [|a' lv']].
  - left. simpl. split; [lia|reflexivity].
  - right. right. simpl. split; [reflexivity|]. split; [reflexivity|]. left. reflexivity.
  - right. left. remember (a :: a' :: lv') as l.
    assert (Hlen : (2 <= length l)%nat) by (subst l; simpl; lia). clear Heql.
    remember (Nat.min (length l - 1) 2) as k.
    assert (Hk : (1 <= k <= 2)%nat /\ (k <= length l - 1)%nat) by (subst k; lia).
    split; [lia|].
    replace (Z.of_nat k - 1)%Z with (Z.of_nat (k - 1)) by lia.
    rewrite py_nth_nonneg.
    destruct (nth_error (map fst l) (k - 1)) as [c|] eqn:E; [reflexivity|].
    apply nth_error_None in E. rewrite map_length in E. lia.
Qed.

Lemma asc_nth : forall (l : list Z) i j x y, StronglySorted Z.lt l -> (i < j)%nat ->
  nth_error l i = Some x -> nth_error l j = Some y -> (x < y)%Z.
Proof.
  induction l as [|a l IH]; intros [|i] [|j] x y Hs Hij Hx Hy; simpl in *; try discriminate; try lia.
  - inv Hx. inv Hs. rewrite Forall_forall in H2. apply nth_error_In in Hy. apply H2 in Hy. lia.
  - inv Hs. apply (IH i j x y); auto. lia.
Qed.

Lemma rev_static_levels cfg s : rev (static_levels cfg s) = map fst (skipn s (c_rungs cfg)).
Proof. unfold static_levels. apply rev_involutive. Qed.

Lemma promo_report_wf cfg lv rs t r m c rs1 info1 : promo_on_task_report cfg rs t r m c = Ok (rs1, info1) ->
  rs_wf cfg lv rs -> rs_wf cfg lv rs1.
Proof.
  intros Hp [Hl Hs].
  apply promo_report_shape in Hp as [_ [_ [_ [_ [Hr1|[p [rg [Hn [_ [_ [_ Hr1]]]]]]]]]]].
  - split; rewrite Hr1; auto.
  - split; rewrite Hr1.
    + rewrite <- Hl. eapply map_set_nth; eauto.
    + apply Forall_set_nth; auto. simpl. apply insert_sorted. eapply (Forall_nth_error _ _ _ _ Hs Hn).
Qed.

Lemma rs_wf_levels cfg s rs : rs_wf cfg (static_levels cfg s) rs ->
  rs_levels rs = map fst (skipn s (c_rungs cfg)) /\ length (rs_rungs rs) = length (skipn s (c_rungs cfg)).
Proof.
  intros [Hl _]. unfold rs_levels. rewrite Hl, rev_static_levels. split; [reflexivity|].
  rewrite <- (map_length r_level), Hl. unfold static_levels. rewrite rev_length, map_length. reflexivity.
Qed.

Lemma rs_trans_cap cfg s rs rs' : cfg_wf cfg -> rs_trans cfg rs rs' ->
  rs_wf cfg (static_levels cfg s) rs -> cap_inv cfg rs ->
  cap_inv cfg rs' /\ (rs_cap rs <= rs_cap rs')%Z.
Proof.
  intros Hcfg Ht. induction Ht as [rs|rs b rs' p H|rs t|rs t skip|rs t ms rf rs' H|rs t r m c eps rs' info H|a b c H1 IH1 H2 IH2];
    intros Hwf Hinv.
  - split; [exact Hinv|lia].
  - assert (Hwf' : rs_wf cfg (static_levels cfg s) rs') by (eapply rs_trans_wf; [eapply T_sched; eauto|exact Hwf]).
    apply sched_shape in H as [_ [Hi [Hc _]]].
    destruct (rs_wf_levels _ _ _ Hwf) as [Hlv Hlen]. destruct (rs_wf_levels _ _ _ Hwf') as [Hlv' Hlen'].
    unfold cap_inv in *. rewrite Hi, Hc, Hlv', Hlen'. rewrite Hlv, Hlen in Hinv.
    split; [exact Hinv|lia].
  - split; [exact Hinv|simpl; lia].
  - split; [exact Hinv|simpl; lia].
  - unfold rs_on_task_add_resumed in H. destruct (rf <? ms)%Z; inv H. split; [exact Hinv|simpl; lia].
  - unfold rs_on_task_report in H.
    assert (Hpromo : forall rs1 info1, promo_on_task_report cfg rs t r m c = Ok (rs1, info1) ->
              cap_inv cfg rs1 /\ rs_cap rs1 = rs_cap rs /\ rs_wf cfg (static_levels cfg s) rs1).
    { intros rs1 info1 Hp. assert (Hwf1 := promo_report_wf _ _ _ _ _ _ _ _ _ Hp Hwf).
      apply promo_report_shape in Hp as [_ [_ [Hi [Hc _]]]].
      destruct (rs_wf_levels _ _ _ Hwf) as [Hlv Hlen]. destruct (rs_wf_levels _ _ _ Hwf1) as [Hlv1 Hlen1].
      split; [|split; [exact Hc|exact Hwf1]].
      unfold cap_inv in *. rewrite Hi, Hc, Hlv1, Hlen1. rewrite Hlv, Hlen in Hinv. exact Hinv. }
    destruct (c_variant cfg);
      try (destruct (Hpromo _ _ H) as [Hi1 [Hc1 _]]; split; [exact Hi1|lia]).
    unfold pasha_on_task_report in H.
    destruct (promo_on_task_report cfg rs t r m c) as [[rs1 info1]|]; [|discriminate].
    destruct (Hpromo _ _ eq_refl) as [Hi1 [Hc1 Hwf1]]. clear Hpromo. rewrite <- Hc1.
    destruct (pasha_increase cfg rs1 eps) as [[|]|] eqn:Einc; [| |discriminate].
    2: { inv H. split; [exact Hi1|lia]. }
    destruct (rs_wf_levels _ _ _ Hwf1) as [Hlv1 Hlen1].
    assert (Hasc : StronglySorted Z.lt (rs_levels rs1)).
    { rewrite Hlv1, map_fst_skipn. apply sorted_lt_skipn. apply Hcfg. }
    assert (Hbelow : forall x, In x (rs_levels rs1) -> (x < c_max_t cfg)%Z).
    { intros x Hx. rewrite Hlv1, map_fst_skipn in Hx. apply In_skipn in Hx.
      destruct Hcfg as [_ Hf]. rewrite Forall_forall in Hf. apply Hf. exact Hx. }
    assert (Hlenlv : length (rs_levels rs1) = length (rs_rungs rs1)).
    { unfold rs_levels. rewrite rev_length, map_length. reflexivity. }
    destruct (rs_idx rs1 <? length (rs_rungs rs1))%nat eqn:Elt.
    + apply Nat.ltb_lt in Elt.
      destruct (py_nth (rs_levels rs1) (Z.of_nat (S (rs_idx rs1)) - 1)) as [cnew|] eqn:Enew; [|discriminate].
      inv H. unfold cap_inv, rs_levels in *. cbn [rs_rungs rs_idx rs_cap].
      replace (Z.of_nat (S (rs_idx rs1)) - 1)%Z with (Z.of_nat (rs_idx rs1)) in * by lia.
      split.
      * right. left. split; [lia|]. replace (Z.of_nat (S (rs_idx rs1)) - 1)%Z with (Z.of_nat (rs_idx rs1)) by lia.
        exact Enew.
      * rewrite py_nth_nonneg in Enew.
        destruct Hi1 as [[Hge _]|[[Hrange Hold]|[Hz [Hone _]]]]; [lia| |].
        -- replace (Z.of_nat (rs_idx rs1) - 1)%Z with (Z.of_nat (rs_idx rs1 - 1)) in Hold by lia.
           rewrite py_nth_nonneg in Hold.
           assert (rs_cap rs1 < cnew)%Z; [|lia].
           eapply (asc_nth _ (rs_idx rs1 - 1) (rs_idx rs1)); eauto. lia.
        -- (* idx = 0 with a single rung: the rankings raise IndexError *)
           exfalso. unfold pasha_increase in Einc. rewrite Hz in Einc.
           unfold py_nth in Einc. rewrite Hone in Einc. simpl in Einc.
           destruct (rs_rungs rs1) as [|x [|y l]]; simpl in *; try discriminate.
    + apply Nat.ltb_ge in Elt. inv H. unfold cap_inv, rs_levels in *. cbn [rs_rungs rs_idx rs_cap]. split.
      * left. split; [exact Elt|reflexivity].
      * destruct Hi1 as [[_ ->]|[[Hrange Hold]|[Hz [Hone _]]]]; [lia| |lia].
        replace (Z.of_nat (rs_idx rs1) - 1)%Z with (Z.of_nat (rs_idx rs1 - 1)) in Hold by lia.
        rewrite py_nth_nonneg in Hold. apply nth_error_In in Hold. apply Hbelow in Hold. lia.
  - destruct (IH1 Hwf Hinv) as [Hi1 Hle1].
    assert (Hwf1 : rs_wf cfg (static_levels cfg s) b) by (eapply rs_trans_wf; eauto).
    destruct (IH2 Hwf1 Hi1) as [Hi2 Hle2]. split; [exact Hi2|lia].
Qed.

Lemma py_nth_In {A} (l : list A) i x : py_nth l i = Some x -> In x l.
Proof.
  unfold py_nth. destruct ((0 <=? (if (i <? 0)%Z then (i + Z.of_nat (length l))%Z else i))%Z &&
                           ((if (i <? 0)%Z then (i + Z.of_nat (length l))%Z else i) <? Z.of_nat (length l))%Z);
    [|discriminate]. apply nth_error_In.
Qed.

Lemma cap_level cfg rs : cap_inv cfg rs -> rs_cap rs = c_max_t cfg \/ In (rs_cap rs) (rs_levels rs).
Proof.
  intros [[_ H]|[[_ H]|[_ [_ H]]]]; [left; exact H|right; eapply py_nth_In; eauto|right; exact H].
Qed.

Lemma reach_cap_inv cfg evs st os s rs : cfg_wf cfg -> run cfg evs = Ok (st, os) ->
  nth_error (st_sys st) s = Some rs -> cap_inv cfg rs.
Proof.
  intros Hcfg Hrun Hn. destruct (reach_sys _ _ _ _ _ _ Hrun Hn) as [_ Ht].
  eapply (rs_trans_cap cfg s); eauto; [apply mk_sys_wf|apply mk_sys_cap_inv].
Qed.

(* current_max_t never decreases, whatever the next call is *)
Lemma pasha_cap_monotone cfg evs st os ev st' o s rs rs' :
  cfg_wf cfg -> run cfg evs = Ok (st, os) -> step cfg st ev = Ok (st', o) ->
  nth_error (st_sys st) s = Some rs -> nth_error (st_sys st') s = Some rs' ->
  (rs_cap rs <= rs_cap rs')%Z.
Proof.
  intros Hcfg Hrun Hstep Hn Hn'.
  apply step_sys_rel in Hstep as [_ Hrel]. destruct (Hrel _ _ Hn') as [rs0 [H0 Ht]].
  assert (rs0 = rs) by congruence. subst rs0.
  eapply (rs_trans_cap cfg s); eauto; [eapply reach_wf; eauto | eapply reach_cap_inv; eauto].
Qed.

(* a resumed trial never runs beyond the cap in force (PASHA: current_max_t) *)
Lemma resume_below_cap cfg evs st os n br b got st' t mra s j from nxt rs :
  cfg_wf cfg -> run cfg evs = Ok (st, os) ->
  suggest cfg st n br b got = Ok (st', OResume t mra s j from nxt) ->
  nth_error (st_sys st) s = Some rs -> (nxt <= eff_max cfg rs)%Z.
Proof.
  intros Hcfg Hrun H Hn.
  destruct (eligibility_sound _ _ _ _ _ _ _ _ _ _ _ _ _ _ _ Hcfg Hrun H)
    as [rs0 [r [pos [e [_ [En [Hnj [Hfrom [Hlt [_ [_ [_ [_ [_ [Hnxt _]]]]]]]]]]]]]]].
  assert (rs0 = rs) by congruence. subst rs0.
  assert (Hwf := reach_wf _ _ _ _ _ _ Hrun Hn).
  assert (Hlev : is_level cfg nxt) by (rewrite Hnxt; eapply next_above_level; eauto).
  unfold eff_max in *. destruct (c_variant cfg); try (apply is_level_le; assumption).
  destruct (cap_level _ _ (reach_cap_inv _ _ _ _ _ _ Hcfg Hrun Hn)) as [Hc|Hc];
    [rewrite Hc; apply is_level_le; assumption|].
  unfold rs_levels in Hc. apply in_rev in Hc. apply In_nth_error in Hc as [k Hk].
  destruct Hwf as [Hl _].
  assert (Hdesc : StronglySorted Z.gt (map r_level (rs_rungs rs))) by (rewrite Hl; apply static_levels_desc; exact Hcfg).
  assert (Hj : nth_error (map r_level (rs_rungs rs)) j = Some from) by (rewrite nth_error_map, Hnj; simpl; congruence).
  assert (Hkj : (k < j)%nat).
  { destruct (Nat.lt_ge_cases k j) as [|Hge]; [assumption|]. exfalso.
    destruct (Nat.eq_dec k j) as [->|Hne]; [rewrite Hk in Hj; inv Hj; lia|].
    assert (rs_cap rs < from)%Z; [|lia]. eapply (ss_gt_nth _ j k); eauto. lia. }
  rewrite Hnxt. unfold next_above. destruct j as [|j']; [lia|].
  destruct (nth_error (rs_rungs rs) j') as [r'|] eqn:Er'.
  - assert (Hj' : nth_error (map r_level (rs_rungs rs)) j' = Some (r_level r')) by (rewrite nth_error_map, Er'; reflexivity).
    destruct (Nat.eq_dec k j') as [->|Hne]; [rewrite Hk in Hj'; inv Hj'; lia|].
    assert (r_level r' < rs_cap rs)%Z; [|lia]. eapply (ss_gt_nth _ k j'); eauto. lia.
  - apply nth_error_None in Er'. assert (S j' < length (rs_rungs rs))%nat by (apply nth_error_Some; congruence). lia.
Qed.

(* ---- pause exactly at the milestone --------------------------------------------------- *)
Definition info_spec (r ms : Z) (rf : option Z) (info : report_info) : Prop :=
  (r <= ms)%Z /\ ri_reached info = (r =? ms)%Z /\ ri_continues info = negb (r =? ms)%Z /\
  ri_ignore info = match rf with Some f => (r <=? f)%Z | None => false end.

Lemma promo_result_cases cfg rs t r m c ms rf : lookup t (rs_running rs) = Some (ms, rf) ->
  match promo_on_task_report cfg rs t r m c with
  | Ok (rs', info) => info_spec r ms rf info
  | Err e => e = ESkipped <-> (ms < r)%Z
  end.
Proof.
  intro Hl. unfold promo_on_task_report, info_spec. rewrite Hl.
  destruct (ms <=? r)%Z eqn:Ele.
  - destruct (r =? ms)%Z eqn:Eeq; simpl.
    + assert (r = ms) by lia. subst r.
      destruct (rung_pos ms (rs_rungs rs) 0) as [p|]; simpl; [|repeat split; auto; lia].
      destruct (nth_error (rs_rungs rs) p) as [rg|]; [|split; [discriminate|lia]].
      destruct (in_rung t rg); [split; [discriminate|lia]|]. simpl. repeat split; auto; lia.
    + split; [lia|reflexivity].
  - simpl. assert (Hne : (r =? ms)%Z = false) by lia. rewrite Hne. repeat split; auto; lia.
Qed.

Lemma check_top_err top groups e : check_top top groups = Err e -> e = EIndex.
Proof.
  revert groups. induction top as [|x top IH]; intros groups H; simpl in H; [discriminate|].
  destruct groups as [|g gs]; [inv H; reflexivity|]. destruct (mem_Z (e_id x) g); [eauto|discriminate].
Qed.

Lemma pasha_increase_err cfg rs eps e : pasha_increase cfg rs eps = Err e -> e = EIndex.
Proof.
  unfold pasha_increase. intro H.
  destruct (py_nth (rs_rungs rs) (- Z.of_nat (rs_idx rs))) as [top|]; [|inv H; reflexivity].
  destruct (py_nth (rs_rungs rs) (- Z.of_nat (rs_idx rs) + 1)) as [prev|]; [|inv H; reflexivity].
  destruct (r_data top); [discriminate|]. destruct (r_data prev); [discriminate|].
  match type of H with context [check_top ?a ?b] => destruct (check_top a b) eqn:E end; [discriminate|].
  inv H. eapply check_top_err; eauto.
Qed.

Lemma report_result_cases cfg rs t r m c eps ms rf : lookup t (rs_running rs) = Some (ms, rf) ->
  match rs_on_task_report cfg rs t r m c eps with
  | Ok (rs', info) => info_spec r ms rf info
  | Err e => e = ESkipped <-> (ms < r)%Z
  end.
Proof.
  intro Hl. pose proof (promo_result_cases cfg rs t r m c ms rf Hl) as Hp.
  unfold rs_on_task_report. destruct (c_variant cfg); try exact Hp.
  unfold pasha_on_task_report.
  destruct (promo_on_task_report cfg rs t r m c) as [[rs1 info]|e]; [|exact Hp].
  assert (Hle : (r <= ms)%Z) by apply Hp.
  destruct (pasha_increase cfg rs1 eps) as [[|]|e] eqn:Ei.
  - destruct (rs_idx rs1 <? length (rs_rungs rs1))%nat; [|exact Hp].
    destruct (py_nth (rs_levels rs1) (Z.of_nat (S (rs_idx rs1)) - 1)); [exact Hp|].
    split; [discriminate|lia].
  - exact Hp.
  - apply pasha_increase_err in Ei. subst e. split; [discriminate|lia].
Qed.

(* running[t] = (milestone, resume_from) always has resume_from < milestone *)
Definition run_inv (rs : rsys) : Prop :=
  forall t ms rf, lookup t (rs_running rs) = Some (ms, Some rf) -> (rf < ms)%Z.

Lemma rs_trans_run_inv cfg rs rs' : rs_trans cfg rs rs' -> run_inv rs -> run_inv rs'.
Proof.
  intro Ht. induction Ht as [rs|rs b rs' p H|rs t|rs t skip|rs t ms rf rs' H|rs t r m c eps rs' info H|a b c H1 IH1 H2 IH2];
    intro Hinv; auto.
  - apply sched_shape in H as [Hr _]. unfold run_inv. rewrite Hr. exact Hinv.
  - intros t' ms rf. simpl. destruct (Z.eq_dec t' t) as [->|Hne].
    + rewrite lookup_remove_eq. discriminate.
    + rewrite lookup_remove_neq by exact Hne. apply Hinv.
  - intros t' ms rf. simpl. destruct (Z.eq_dec t' t) as [->|Hne].
    + rewrite lookup_update_eq. discriminate.
    + rewrite lookup_update_neq by exact Hne. apply Hinv.
  - unfold rs_on_task_add_resumed in H. destruct (rf <? ms)%Z eqn:E; inv H.
    intros t' ms' rf'. simpl. destruct (Z.eq_dec t' t) as [->|Hne].
    + rewrite lookup_update_eq. intro Hx. inv Hx. lia.
    + rewrite lookup_update_neq by exact Hne. apply Hinv.
  - apply report_shape in H as [rs1 [Hp [_ [Hr _]]]].
    apply promo_report_shape in Hp as [Hr1 _]. unfold run_inv. rewrite Hr, Hr1. exact Hinv.
Qed.

Lemma reach_run_inv cfg evs st os s rs : run cfg evs = Ok (st, os) ->
  nth_error (st_sys st) s = Some rs -> run_inv rs.
Proof.
  intros Hrun Hn. destruct (reach_sys _ _ _ _ _ _ Hrun Hn) as [_ Ht].
  eapply rs_trans_run_inv; eauto. intros t ms rf H. discriminate.
Qed.

Definition expected_decision (cfg : config) (r ms : Z) : decision :=
  if (c_max_t cfg <=? r)%Z then STOP else if (r =? ms)%Z then PAUSE else CONTINUE.

Lemma pause_at_milestone_step cfg evs st os t r m c eps ti br rs ms rf :
  run cfg evs = Ok (st, os) ->
  lookup t (st_active st) = Some ti -> ti_dec ti = CONTINUE -> lookup t (st_task st) = Some br ->
  nth_error (st_sys st) (fst (sys_of cfg br)) = Some rs -> lookup t (rs_running rs) = Some (ms, rf) ->
  (1 <= r)%Z ->
  match on_trial_result cfg st t r m c eps with
  | Ok (st', d) => ((r <= ms)%Z \/ (c_max_t cfg <= r)%Z) /\ d = expected_decision cfg r ms
  | Err e => e = ESkipped <-> (ms < r < c_max_t cfg)%Z
  end.
Proof.
  intros Hrun Ha Hd Ht Hn Hl Hr.
  assert (HK := reach_run_inv _ _ _ _ _ _ Hrun Hn).
  unfold on_trial_result, expected_decision.
  assert (E1 : (r <? 1)%Z = false) by lia. rewrite E1, Ha, Hd. simpl negb. cbv iota. rewrite Ht, Hn.
  destruct (r <? c_max_t cfg)%Z eqn:Emax.
  - assert (E2 : (c_max_t cfg <=? r)%Z = false) by lia. rewrite E2.
    pose proof (report_result_cases cfg rs t r m
                  (if c_cost cfg then c + match lookup t (st_off st) with Some o => o | None => 0 end else c)
                  eps ms rf Hl) as Hrep.
    destruct (rs_on_task_report cfg rs t r m _ eps) as [[rs' info]|e].
    + destruct Hrep as [Hle [Hreached [Hcont Hign]]].
      assert (Hign' : (r =? ms)%Z = true -> ri_ignore info = false).
      { intro Heq. rewrite Hign. destruct rf as [f|]; [|reflexivity]. apply HK in Hl. lia. }
      destruct (r =? ms)%Z eqn:Eeq.
      * rewrite (Hign' eq_refl). rewrite Hreached, Hcont. simpl negb.
        repeat (break_inner; try (split; [discriminate|lia]); try (split; [left; lia|reflexivity])).
      * rewrite Hreached, Hcont. simpl negb.
        repeat (break_inner; try (split; [discriminate|lia]); try (split; [left; lia|reflexivity])).
    + rewrite Hrep. lia.
  - assert (E2 : (c_max_t cfg <=? r)%Z = true) by lia. rewrite E2. simpl.
    repeat (break_inner; try (split; [discriminate|lia]); try (split; [right; lia|reflexivity])).
Qed.

(* ---- promoted at most once ---------------------------------------------------------------- *)
Definition ids (l : list entry) : list Z := map e_id l.
Definition ids_nodup (rs : rsys) : Prop := Forall (fun r => NoDup (ids (r_data r))) (rs_rungs rs).

Lemma in_data_ids t l : in_data t l = true <-> In t (ids l).
Proof.
  unfold in_data, ids. rewrite existsb_exists, in_map_iff. split.
  - intros [e [Hin He]]. exists e. split; [lia|exact Hin].
  - intros [e [He Hin]]. exists e. split; [exact Hin|lia].
Qed.

Lemma ids_insert md e : forall l x, In x (ids (insert md e l)) <-> x = e_id e \/ In x (ids l).
Proof.
  intros l x. unfold ids. rewrite !in_map_iff. split.
  - intros [y [<- Hy]]. apply In_insert in Hy as [->|Hy]; [left; reflexivity|right; eauto].
  - intros [->|[y [<- Hy]]]; [exists e|exists y]; (split; [reflexivity|apply In_insert; auto]).
Qed.

Lemma nodup_insert md e : forall l, NoDup (ids l) -> ~ In (e_id e) (ids l) -> NoDup (ids (insert md e l)).
Proof.
  induction l as [|x r IH]; intros Hnd Hnin; simpl.
  - constructor; [intros []|constructor].
  - destruct (better_lt md (e_metric e) (e_metric x)); simpl.
    + constructor; assumption.
    + inv Hnd. constructor.
      * intro Hin. apply ids_insert in Hin as [Heq|Hin]; [apply Hnin; left; congruence|contradiction].
      * apply IH; [assumption|]. intro Hin. apply Hnin. right. exact Hin.
Qed.

Lemma nodup_remove_nth : forall l n e, NoDup (ids l) -> nth_error l n = Some e ->
  NoDup (ids (remove_nth n l)) /\ ~ In (e_id e) (ids (remove_nth n l)).
Proof.
  induction l as [|x r IH]; intros [|n] e Hnd Hn; simpl in *; try discriminate.
  - inv Hn. inv Hnd. split; assumption.
  - inv Hnd. destruct (IH _ _ H2 Hn) as [Hnd' Hnin]. split.
    + constructor; [|exact Hnd']. intro Hin. apply H1. unfold ids in *. apply in_map_iff in Hin as [y [Hy Hin]].
      apply in_map_iff. exists y. split; [exact Hy|eapply In_remove_nth; eauto].
    + intros [Heq|Hin]; [|contradiction]. apply H1. rewrite Heq. apply in_map. eapply nth_error_In; eauto.
Qed.

Lemma rs_trans_ids_nodup cfg rs rs' : rs_trans cfg rs rs' -> ids_nodup rs -> ids_nodup rs'.
Proof.
  intro Ht. induction Ht as [rs|rs b rs' p H|rs t|rs t skip|rs t ms rf rs' H|rs t r m c eps rs' info H|a b c H1 IH1 H2 IH2];
    intro Hinv; auto.
  - apply sched_shape in H as [_ [_ [_ [[_ [Hr _]]|[j [t [from [nxt [pos [r [e [thr' [_ [_ [Hn [He [_ Hr]]]]]]]]]]]]]]]]];
      unfold ids_nodup; rewrite Hr; [exact Hinv|].
    apply Forall_set_nth; [exact Hinv|]. simpl.
    destruct (nodup_remove_nth _ _ _ (Forall_nth_error _ _ _ _ Hinv Hn) He) as [Hnd Hnin].
    apply nodup_insert; assumption.
  - unfold rs_on_task_add_resumed in H. destruct (rf <? ms)%Z; inv H. exact Hinv.
  - apply report_shape in H as [rs1 [Hp [Hr _]]].
    apply promo_report_shape in Hp as [_ [_ [_ [_ [Hr1|[p [rg [Hn [Hin [_ [_ Hr1]]]]]]]]]]];
      unfold ids_nodup; rewrite Hr, Hr1; [exact Hinv|].
    apply Forall_set_nth; [exact Hinv|]. simpl.
    apply nodup_insert; [exact (Forall_nth_error _ _ _ _ Hinv Hn)|]. simpl.
    intro Hc. apply in_data_ids in Hc. unfold in_rung in Hin. congruence.
Qed.

Lemma mk_sys_ids_nodup cfg lv : ids_nodup (mk_sys cfg lv).
Proof.
  unfold ids_nodup, mk_sys. simpl. apply Forall_rev. apply Forall_forall. intros r Hr.
  apply in_map_iff in Hr as [p [<- _]]. simpl. constructor.
Qed.

(* trial t holds an entry at rung position j and every entry of t there is marked as promoted *)
Definition promoted_at (rs : rsys) (j : nat) (t : Z) : Prop :=
  exists r, nth_error (rs_rungs rs) j = Some r /\ In t (ids (r_data r)) /\
            forall e, In e (r_data r) -> e_id e = t -> e_prom e = true.

Lemma In_remove_nth_other {A} : forall (l : list A) n x y, In x l -> nth_error l n = Some y -> x <> y ->
  In x (remove_nth n l).
Proof.
  induction l as [|a l IH]; intros [|n] x y Hin Hn Hne; simpl in *; try contradiction.
  - inv Hn. destruct Hin as [->|Hin]; [congruence|exact Hin].
  - destruct Hin as [->|Hin]; [left; reflexivity|right; eauto].
Qed.

Lemma rs_trans_promoted_at cfg rs rs' j t : rs_trans cfg rs rs' -> promoted_at rs j t -> promoted_at rs' j t.
Proof.
  intro Ht. induction Ht as [rs|rs b rs' p H|rs t0|rs t0 skip|rs t0 ms rf rs' H|rs t0 r0 m c eps rs' info H|a b c H1 IH1 H2 IH2];
    intro Hinv; auto.
  - destruct Hinv as [r [Hn [Hin Hall]]].
    apply sched_shape in H as [_ [_ [_ [[_ [Hr _]]|[j1 [t1 [from [nxt [pos [r1 [e1 [thr' [_ [_ [Hn1 [He1 [Hp1 Hr]]]]]]]]]]]]]]]]];
      unfold promoted_at; rewrite Hr; [exists r; auto|].
    destruct (Nat.eq_dec j1 j) as [->|Hne].
    + assert (r1 = r) by congruence. subst r1.
      rewrite (nth_error_set_nth_eq _ _ _ _ Hn). eexists. split; [reflexivity|]. simpl. split.
      * apply ids_insert. unfold ids in Hin. apply in_map_iff in Hin as [e [He Hine]].
        destruct (e_prom e) eqn:Ep.
        -- right. unfold ids. apply in_map_iff. exists e. split; [exact He|].
           eapply In_remove_nth_other; eauto. intro Heq. subst e. congruence.
        -- rewrite (Hall _ Hine He) in Ep. discriminate.
      * intros e Hine He. apply In_insert in Hine as [->|Hine]; [reflexivity|].
        apply Hall; [eapply In_remove_nth; eauto|exact He].
    + rewrite nth_error_set_nth_neq by exact Hne. exists r. auto.
  - unfold rs_on_task_add_resumed in H. destruct (rf <? ms)%Z; inv H. exact Hinv.
  - destruct Hinv as [r [Hn [Hin Hall]]].
    apply report_shape in H as [rs1 [Hp [Hr _]]].
    apply promo_report_shape in Hp as [_ [_ [_ [_ [Hr1|[p [rg [Hnp [Hnin [_ [_ Hr1]]]]]]]]]]];
      unfold promoted_at; rewrite Hr, Hr1; [exists r; auto|].
    destruct (Nat.eq_dec p j) as [->|Hne].
    + assert (rg = r) by congruence. subst rg.
      rewrite (nth_error_set_nth_eq _ _ _ _ Hn). eexists. split; [reflexivity|]. simpl. split.
      * apply ids_insert. right. exact Hin.
      * intros e Hine He. apply In_insert in Hine as [->|Hine]; [|apply Hall; assumption].
        simpl in He. subst t0. exfalso. apply in_data_ids in Hin. unfold in_rung in Hnin. congruence.
    + rewrite nth_error_set_nth_neq by exact Hne. exists r. auto.
Qed.

Lemma run_from_app cfg : forall a st st1 os1 b st2 os2,
  run_from cfg st a = Ok (st1, os1) -> run_from cfg st1 b = Ok (st2, os2) ->
  run_from cfg st (a ++ b) = Ok (st2, os1 ++ os2).
Proof.
  induction a as [|ev a IH]; intros st st1 os1 b st2 os2 Ha Hb; simpl in *.
  - inv Ha. exact Hb.
  - destruct (step cfg st ev) as [[st' o]|]; [|discriminate].
    destruct (run_from cfg st' a) as [[st'' os'']|] eqn:E; [|discriminate]. inv Ha.
    rewrite (IH _ _ _ _ _ _ E Hb). reflexivity.
Qed.

Lemma reach_ids_nodup cfg evs st os s rs : run cfg evs = Ok (st, os) ->
  nth_error (st_sys st) s = Some rs -> ids_nodup rs.
Proof.
  intros Hrun Hn. destruct (reach_sys _ _ _ _ _ _ Hrun Hn) as [_ Ht].
  eapply rs_trans_ids_nodup; eauto. apply mk_sys_ids_nodup.
Qed.

(* right after a resume of t from rung position j of system s, t is marked as promoted there *)
Lemma resume_marks cfg evs st os n br b got st' t mra s j from nxt :
  cfg_wf cfg -> run cfg evs = Ok (st, os) ->
  suggest cfg st n br b got = Ok (st', OResume t mra s j from nxt) ->
  exists rs', nth_error (st_sys st') s = Some rs' /\ promoted_at rs' j t.
Proof.
  intros Hcfg Hrun H.
  destruct (eligibility_sound _ _ _ _ _ _ _ _ _ _ _ _ _ _ _ Hcfg Hrun H)
    as [rs [r [pos [e [Hs [En [Hnj [_ [_ [[Hne _] [Hid [Hprom _]]]]]]]]]]]].
  assert (Hnd := reach_ids_nodup _ _ _ _ _ _ Hrun En).
  unfold suggest in H. destruct (sys_of cfg br) as [sid skip]. simpl in Hs. subst sid.
  rewrite En in H.
  destruct (rs_on_task_schedule cfg rs b) as [[rs1 [[[[j0 t0] rf] ms]|]]|] eqn:Es; [| |discriminate].
  2: { destruct (negb got); [inv H|]. destruct (lookup n (st_active st)); inv H. }
  destruct (rs_on_task_add_resumed rs1 t0 ms rf) as [rs2|] eqn:Ea; [|discriminate].
  destruct (lookup t0 (st_active st)) as [ti|]; [|discriminate].
  destruct (decision_eqb (ti_dec ti) CONTINUE); [discriminate|]. inv H. simpl.
  rewrite (nth_error_set_nth_eq _ _ _ _ En). eexists. split; [reflexivity|].
  unfold rs_on_task_add_resumed in Ea. break_in Ea; inv Ea.
  apply sched_shape in Es as [_ [_ [_ [[Hp _]|[j1 [t1 [from1 [nxt1 [pos1 [r1 [e1 [thr' [Hp [Hscan [Hn1 [He1 [Hp1 Hr]]]]]]]]]]]]]]]]];
    [discriminate|]. inv Hp.
  assert (r1 = r) by congruence. subst r1.
  unfold promoted_at. simpl. rewrite Hr. rewrite (nth_error_set_nth_eq _ _ _ _ Hnj).
  eexists. split; [reflexivity|]. simpl.
  (* the entry found by the scan is the one at [pos] *)
  pose proof (reach_wf _ _ _ _ _ _ Hrun En) as [Hlv Hsorted].
  assert (Hndl : NoDup (map r_level (rs_rungs rs))) by (rewrite Hlv; apply static_levels_nodup; exact Hcfg).
  pose proof (scan_spec cfg (eff_max cfg rs) b (rs_thr rs) (rs_rungs rs) 0 (c_max_t cfg) (rs_thr rs)
                (fun _ _ => eq_refl) Hndl Hsorted) as Hspec.
  rewrite Hscan in Hspec. destruct Hspec as [pre [r2 [post [Hrungs [Hj [_ [_ [_ [[e2 [[Hn2 _] [Hid2 _]]] _]]]]]]]]].
  simpl in Hj. subst j1. assert (r2 = r) by (rewrite Hrungs, nth_error_app_mid in Hnj; congruence). subst r2.
  assert (e2 = e1) by congruence. subst e2.
  destruct (nodup_remove_nth _ _ _ (Forall_nth_error _ _ _ _ Hnd Hnj) He1) as [_ Hnin].
  split.
  - apply ids_insert. left. simpl. congruence.
  - intros x Hx Hidx. apply In_insert in Hx as [->|Hx]; [reflexivity|].
    exfalso. apply Hnin. rewrite Hid2, <- Hidx. apply in_map. exact Hx.
Qed.

Lemma promoted_once cfg evs1 st1 os1 n1 br1 b1 g1 st1' t m1 s j f1 x1 evs2 st2 os2 n2 br2 b2 g2 st2' t' m2 f2 x2 :
  cfg_wf cfg -> run cfg evs1 = Ok (st1, os1) ->
  suggest cfg st1 n1 br1 b1 g1 = Ok (st1', OResume t m1 s j f1 x1) ->
  run_from cfg st1' evs2 = Ok (st2, os2) ->
  suggest cfg st2 n2 br2 b2 g2 = Ok (st2', OResume t' m2 s j f2 x2) ->
  t' <> t.
Proof.
  intros Hcfg Hrun1 Hs1 Hrun2 Hs2 Heq. subst t'.
  destruct (resume_marks _ _ _ _ _ _ _ _ _ _ _ _ _ _ _ Hcfg Hrun1 Hs1) as [rs1' [Hn1 Hprom]].
  assert (Hrun : run cfg (evs1 ++ Suggest n1 br1 b1 g1 :: evs2) = Ok (st2, os1 ++ OResume t m1 s j f1 x1 :: os2)).
  { unfold run. eapply run_from_app; [exact Hrun1|]. simpl. rewrite Hs1, Hrun2. reflexivity. }
  destruct (eligibility_sound _ _ _ _ _ _ _ _ _ _ _ _ _ _ _ Hcfg Hrun Hs2)
    as [rs [r [pos [e [_ [En [Hnj [_ [_ [[Hne _] [Hid [Hp _]]]]]]]]]]]].
  apply run_from_sys_rel in Hrun2 as [_ Hrel]. destruct (Hrel _ _ En) as [rs0 [H0 Ht]].
  assert (rs0 = rs1') by congruence. subst rs0.
  destruct (rs_trans_promoted_at _ _ _ _ _ Ht Hprom) as [r' [Hn' [_ Hall]]].
  assert (r' = r) by congruence. subst r'.
  rewrite (Hall e) in Hp; [discriminate| eapply nth_error_In; eauto | exact Hid].
Qed.

(* ---- a resumed trial is not running ---------------------------------------------------------- *)
Lemma resume_not_running cfg st n br b got st' t mra s j from nxt :
  suggest cfg st n br b got = Ok (st', OResume t mra s j from nxt) ->
  (exists ti, lookup t (st_active st) = Some ti /\ ti_dec ti <> CONTINUE) /\
  (exists ti', lookup t (st_active st') = Some ti' /\ ti_dec ti' = CONTINUE).
Proof.
  unfold suggest. intro H. destruct (sys_of cfg br) as [sid skip].
  destruct (nth_error (st_sys st) sid) as [rs|]; [|discriminate].
  destruct (rs_on_task_schedule cfg rs b) as [[rs1 [[[[j0 t0] rf] ms]|]]|]; [| |discriminate].
  2: { destruct (negb got); [inv H|]. destruct (lookup n (st_active st)); inv H. }
  destruct (rs_on_task_add_resumed rs1 t0 ms rf) as [rs2|]; [|discriminate].
  destruct (lookup t0 (st_active st)) as [ti|] eqn:El; [|discriminate].
  destruct (decision_eqb (ti_dec ti) CONTINUE) eqn:Ed; [discriminate|]. inv H. split.
  - exists ti. split; [exact El|]. intro Hc. rewrite Hc in Ed. discriminate.
  - simpl. eexists. split; [apply lookup_update_eq|reflexivity].
Qed.

