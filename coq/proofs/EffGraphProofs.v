(* EffGraphProofs.v — generic lemmas about model/EffGraph.v (proved once, independent of the generated facts):
   [reach_b] is sound and complete w.r.t. the inductive [Reach]; [check_b] decides [NoReachableEffect]. *)
From Coq Require Import List Bool Arith PArith String FSets.FSetPositive Lia.
From Verif Require Import model.EffGraph.
Import ListNotations.

Lemma memp_spec x l : memp x l = true <-> In x l.
Proof.
  unfold memp. rewrite existsb_exists. split.
  - intros [y [Hy He]]. apply Pos.eqb_eq in He. subst. exact Hy.
  - intro H. exists x. split; [exact H | apply Pos.eqb_refl].
Qed.

Lemma lits_on_spec off ls : lits_on off ls = true <-> (forall l, In l ls -> ~ In l off).
Proof.
  unfold lits_on. rewrite forallb_forall. split; intros H l Hl.
  - specialize (H l Hl). rewrite negb_true_iff in H. intro Hin. apply memp_spec in Hin. congruence.
  - rewrite negb_true_iff. destruct (memp l off) eqn:E; [|reflexivity].
    apply memp_spec in E. exfalso. exact (H l Hl E).
Qed.

Lemma mem_add_same x V : PS.mem x (PS.add x V) = true.
Proof. apply PS.mem_1. apply PS.add_1. reflexivity. Qed.

Lemma mem_add_mono x y V : PS.mem y V = true -> PS.mem y (PS.add x V) = true.
Proof. intro H. apply PS.mem_1. apply PS.add_2. exact H. Qed.

Lemma mem_add_inv x y V : PS.mem y (PS.add x V) = true -> y = x \/ PS.mem y V = true.
Proof.
  intro H. destruct (Pos.eq_dec x y) as [->|Hn]; [left; reflexivity|].
  right. apply PS.mem_1. apply (@PS.add_3 V x y Hn). exact H.
Qed.

Lemma mem_empty x : PS.mem x PS.empty = false.
Proof.
  destruct (PS.mem x PS.empty) eqn:E; [|reflexivity]. exfalso. exact (PS.empty_1 E).
Qed.

Definition stepf (off : list positive) := fun (V : PS.t) (e : edge) =>
  if fires off V e then PS.add (dst e) V else V.

Lemma step_unfold g off V : step g off V = fold_left (stepf off) g V.
Proof. reflexivity. Qed.

Lemma fold_step_mono off g : forall V x, PS.mem x V = true -> PS.mem x (fold_left (stepf off) g V) = true.
Proof.
  induction g as [|e g IH]; intros V x H; [exact H|].
  cbn [fold_left]. apply IH. unfold stepf. destruct (fires off V e); [apply mem_add_mono|]; exact H.
Qed.

Lemma step_mono g off V x : PS.mem x V = true -> PS.mem x (step g off V) = true.
Proof. rewrite step_unfold. apply fold_step_mono. Qed.

Lemma iter_mono fuel g off : forall V x, PS.mem x V = true -> PS.mem x (iter fuel g off V) = true.
Proof.
  induction fuel as [|k IH]; intros V x H; [exact H|].
  cbn [iter]. destruct (PS.equal (step g off V) V); [exact H|].
  apply IH. apply step_mono. exact H.
Qed.

Lemma fires_spec off V a b c ls :
  fires off V (a, b, c, ls) = true <->
  PS.mem a V = true /\ PS.mem c V = true /\ (forall l, In l ls -> ~ In l off).
Proof.
  unfold fires. rewrite !andb_true_iff, lits_on_spec. tauto.
Qed.

Section Sound.
  Variables (g : list edge) (off roots : list positive).

  Lemma fold_step_sound g' :
    (forall e, In e g' -> In e g) ->
    forall V, (forall x, PS.mem x V = true -> Reach g off roots x) ->
    forall x, PS.mem x (fold_left (stepf off) g' V) = true -> Reach g off roots x.
  Proof.
    induction g' as [|e g' IH]; intros Hsub V HV x Hx; [exact (HV x Hx)|].
    cbn [fold_left] in Hx. apply (IH (fun e' He' => Hsub e' (or_intror He')) (stepf off V e)); [|exact Hx].
    intros y Hy. unfold stepf in Hy. destruct (fires off V e) eqn:Hf; [|exact (HV y Hy)].
    destruct (mem_add_inv _ _ _ Hy) as [->|Hy']; [|exact (HV y Hy')].
    destruct e as [[[a b] c] ls]. apply fires_spec in Hf. destruct Hf as [Ha [Hc Hl]].
    cbn [dst]. apply (Reach_edge g off roots a b c ls); [apply Hsub; left; reflexivity | exact Hl | exact (HV a Ha) | exact (HV c Hc)].
  Qed.

  Lemma step_sound V :
    (forall x, PS.mem x V = true -> Reach g off roots x) ->
    forall x, PS.mem x (step g off V) = true -> Reach g off roots x.
  Proof. rewrite step_unfold. apply fold_step_sound. intros e He; exact He. Qed.

  Lemma iter_sound fuel : forall V,
    (forall x, PS.mem x V = true -> Reach g off roots x) ->
    forall x, PS.mem x (iter fuel g off V) = true -> Reach g off roots x.
  Proof.
    induction fuel as [|k IH]; intros V HV x Hx; [exact (HV x Hx)|].
    cbn [iter] in Hx. destruct (PS.equal (step g off V) V); [exact (HV x Hx)|].
    apply (IH (step g off V)); [apply step_sound; exact HV | exact Hx].
  Qed.

  Lemma fold_add_spec (l : list positive) : forall acc x,
    PS.mem x (fold_left (fun V r => PS.add r V) l acc) = true <-> In x l \/ PS.mem x acc = true.
  Proof.
    induction l as [|r l IH]; intros acc x; cbn [fold_left In].
    - tauto.
    - rewrite IH. split.
      + intros [H|H]; [tauto|]. destruct (mem_add_inv _ _ _ H) as [->|H']; tauto.
      + intros [[->|H]|H]; [right; apply mem_add_same | tauto | right; apply mem_add_mono; exact H].
  Qed.

  Lemma init_spec x : PS.mem x (init roots) = true <-> In x roots \/ x = TOP.
  Proof.
    unfold init. rewrite fold_add_spec. split.
    - intros [H|H]; [tauto|]. destruct (mem_add_inv _ _ _ H) as [->|H']; [tauto|].
      rewrite mem_empty in H'. discriminate.
    - intros [H| ->]; [tauto|]. right. apply mem_add_same.
  Qed.

  Lemma init_sound x : PS.mem x (init roots) = true -> Reach g off roots x.
  Proof.
    intro H. apply init_spec in H. destruct H as [H| ->]; [apply Reach_root; exact H | apply Reach_top].
  Qed.

  (* everything the executable iteration finds is reachable (any fuel) *)
  Lemma reach_set_sound x : PS.mem x (reach_set g off roots) = true -> Reach g off roots x.
  Proof. unfold reach_set. apply iter_sound. exact init_sound. Qed.

  (* a closed set that contains the roots contains everything reachable *)
  Lemma closed_complete V :
    closed_b g off V = true -> (forall r, In r roots -> PS.mem r V = true) -> PS.mem TOP V = true ->
    forall x, Reach g off roots x -> PS.mem x V = true.
  Proof.
    intros Hc Hr Ht x HR. induction HR as [|r Hin|a b c ls Hin Hl _ IHa _ IHc]; [exact Ht | exact (Hr r Hin) |].
    unfold closed_b in Hc. rewrite forallb_forall in Hc. specialize (Hc _ Hin).
    assert (Hf : fires off V (a, b, c, ls) = true) by (apply fires_spec; auto).
    rewrite Hf in Hc. cbn in Hc. exact Hc.
  Qed.

  Lemma reach_set_has_roots : (forall r, In r roots -> PS.mem r (reach_set g off roots) = true) /\
                              PS.mem TOP (reach_set g off roots) = true.
  Proof.
    split; [intros r Hr|]; unfold reach_set; apply iter_mono; apply init_spec; tauto.
  Qed.

  Lemma reach_set_complete x :
    closed_b g off (reach_set g off roots) = true -> Reach g off roots x -> PS.mem x (reach_set g off roots) = true.
  Proof.
    intros Hc. destruct reach_set_has_roots as [Hr Ht]. apply closed_complete; assumption.
  Qed.

  (* ---- a round that changes nothing leaves a closed set ------------------------------------------- *)
  Lemma fires_mono V W e :
    (forall x, PS.mem x V = true -> PS.mem x W = true) -> fires off V e = true -> fires off W e = true.
  Proof.
    destruct e as [[[a b] c] ls]. intros Hsub Hf. apply fires_spec in Hf. destruct Hf as [Ha [Hc Hl]].
    apply fires_spec. auto.
  Qed.

  Lemma fold_step_fires e g' : forall V0 V,
    (forall x, PS.mem x V0 = true -> PS.mem x V = true) -> In e g' -> fires off V0 e = true ->
    PS.mem (dst e) (fold_left (stepf off) g' V) = true.
  Proof.
    induction g' as [|e' g' IH]; intros V0 V Hsub Hin Hf; [destruct Hin|].
    cbn [fold_left]. destruct Hin as [->|Hin].
    - apply fold_step_mono. unfold stepf. rewrite (fires_mono V0 V e Hsub Hf). apply mem_add_same.
    - apply (IH V0); [|exact Hin|exact Hf]. intros x Hx. unfold stepf.
      destruct (fires off V e'); [apply mem_add_mono|]; apply Hsub; exact Hx.
  Qed.

  Lemma stable_closed V : PS.equal (step g off V) V = true -> closed_b g off V = true.
  Proof.
    intro He. apply PS.equal_2 in He. unfold closed_b. apply forallb_forall. intros e Hin.
    destruct (fires off V e) eqn:Hf; [|reflexivity]. cbn.
    apply He. rewrite step_unfold. apply (fold_step_fires e g V V); auto.
  Qed.

  (* ---- the fuel of [reach_set] always suffices -------------------------------------------------------- *)
  (* a node that a round adds is the target of some edge *)
  Lemma fold_step_new g' : forall V x,
    PS.mem x (fold_left (stepf off) g' V) = true -> PS.mem x V = true \/ exists e, In e g' /\ dst e = x.
  Proof.
    induction g' as [|e g' IH]; intros V x Hx; [left; exact Hx|].
    cbn [fold_left] in Hx. destruct (IH _ _ Hx) as [H|[e' [Hin He']]].
    - unfold stepf in H. destruct (fires off V e); [|left; exact H].
      destruct (mem_add_inv _ _ _ H) as [->|H']; [right; exists e; split; [left; reflexivity|reflexivity] | left; exact H'].
    - right. exists e'. split; [right; exact Hin | exact He'].
  Qed.

  Lemma filter_len_le {A} (p p' : A -> bool) l :
    (forall x, In x l -> p' x = true -> p x = true) -> List.length (filter p' l) <= List.length (filter p l).
  Proof.
    induction l as [|a l IH]; intro H; [apply le_n|]. cbn [filter].
    assert (IH' := IH (fun x Hx => H x (or_intror Hx))).
    destruct (p' a) eqn:E'; destruct (p a) eqn:E; cbn [List.length]; try lia.
    rewrite (H a (or_introl eq_refl) E') in E. discriminate.
  Qed.

  Lemma filter_len_eq {A} (p p' : A -> bool) l :
    (forall x, In x l -> p' x = true -> p x = true) -> List.length (filter p' l) = List.length (filter p l) ->
    forall x, In x l -> p' x = p x.
  Proof.
    induction l as [|a l IH]; intros H Hlen x Hx; [destruct Hx|].
    assert (Hle := filter_len_le p p' l (fun y Hy => H y (or_intror Hy))).
    cbn [filter] in Hlen.
    destruct (p' a) eqn:E'; destruct (p a) eqn:E; cbn [List.length] in Hlen.
    - destruct Hx as [->|Hx]; [congruence|]. apply IH; auto. intros y Hy; apply H; right; exact Hy.
    - rewrite (H a (or_introl eq_refl) E') in E. discriminate.
    - lia.
    - destruct Hx as [->|Hx]; [congruence|]. apply IH; auto. intros y Hy; apply H; right; exact Hy.
  Qed.

  Definition pending (V : PS.t) : nat := List.length (filter (fun e => negb (PS.mem (dst e) V)) g).

  Lemma pending_step V :
    PS.equal (step g off V) V = false -> pending (step g off V) < pending V.
  Proof.
    intro Hne. unfold pending.
    set (p := fun e => negb (PS.mem (dst e) V)). set (p' := fun e => negb (PS.mem (dst e) (step g off V))).
    assert (Himp : forall e, In e g -> p' e = true -> p e = true).
    { intros e _ H. unfold p, p' in *. rewrite negb_true_iff in *.
      destruct (PS.mem (dst e) V) eqn:E; [|reflexivity]. rewrite (step_mono g off V _ E) in H. discriminate. }
    assert (Hle := filter_len_le p p' g Himp).
    destruct (Nat.eq_dec (List.length (filter p' g)) (List.length (filter p g))) as [Heq|Hneq]; [|lia].
    exfalso. assert (Hpt := filter_len_eq p p' g Himp Heq).
    assert (HE : PS.Equal (step g off V) V).
    { intro x. split; intro Hx; [|apply step_mono; exact Hx].
      rewrite step_unfold in Hx. destruct (fold_step_new g V x Hx) as [H|[e [Hin He]]]; [exact H|].
      specialize (Hpt e Hin). unfold p, p' in Hpt. rewrite He in Hpt.
      rewrite <- step_unfold in Hx. unfold PS.In in *. rewrite Hx in Hpt. cbn in Hpt.
      destruct (PS.mem x V) eqn:E; [reflexivity | cbn in Hpt; discriminate]. }
    apply PS.equal_1 in HE. congruence.
  Qed.

  Lemma iter_closed fuel : forall V, pending V < fuel -> closed_b g off (iter fuel g off V) = true.
  Proof.
    induction fuel as [|k IH]; intros V Hp; [lia|].
    cbn [iter]. destruct (PS.equal (step g off V) V) eqn:He.
    - apply stable_closed. exact He.
    - apply IH. pose proof (pending_step V He). lia.
  Qed.

  Lemma pending_le V : pending V <= List.length g.
  Proof.
    unfold pending. generalize (fun e : edge => negb (PS.mem (dst e) V)). intro p.
    induction g as [|a l IH]; [apply le_n|]. cbn [filter List.length]. destruct (p a); cbn [List.length]; lia.
  Qed.

  Lemma reach_set_closed : closed_b g off (reach_set g off roots) = true.
  Proof. unfold reach_set. apply iter_closed. pose proof (pending_le (init roots)). lia. Qed.
End Sound.

(* ---- reach_b: sound always; complete whenever the computed set is closed (decided by computation) --- *)
Theorem reach_b_sound g off roots b : reach_b g off roots b = true -> Reach g off roots b.
Proof.
  unfold reach_b. intro H. apply andb_true_iff in H. destruct H as [_ H]. apply reach_set_sound. exact H.
Qed.

Theorem reach_b_complete g off roots b :
  closed_b g off (reach_set g off roots) = true -> Reach g off roots b -> reach_b g off roots b = true.
Proof.
  intros Hc HR. unfold reach_b. rewrite Hc. cbn. apply reach_set_complete; assumption.
Qed.

Theorem reach_b_sound_complete g off roots :
  closed_b g off (reach_set g off roots) = true ->
  forall b, reach_b g off roots b = true <-> Reach g off roots b.
Proof.
  intros Hc b. split; [apply reach_b_sound | apply reach_b_complete; exact Hc].
Qed.

(* the unconditional statement: the fuel 1 + |edges| always suffices *)
Theorem reach_b_iff g off roots b : reach_b g off roots b = true <-> Reach g off roots b.
Proof. apply reach_b_sound_complete. apply reach_set_closed. Qed.

(* ---- effect check ---------------------------------------------------------------------------------------- *)
Lemma eff_eqb_eq a b : eff_eqb a b = true -> a = b.
Proof. destruct a, b; cbn; intro H; try reflexivity; discriminate. Qed.

Lemma allowed_spec allow nm e : allowed allow nm e = true -> In (nm, e) allow.
Proof.
  unfold allowed. rewrite existsb_exists. intros [[nm' e'] [Hin H]]. cbn in H.
  apply andb_true_iff in H. destruct H as [H1 H2]. apply String.eqb_eq in H1. apply eff_eqb_eq in H2.
  subst. exact Hin.
Qed.

Theorem check_sound g effs off roots forb allow :
  check_b g effs off roots forb allow = true -> NoReachableEffect g effs off roots forb allow.
Proof.
  unfold check_b. intro H. apply andb_true_iff in H. destruct H as [Hc Hb].
  intros f e ls nm Hin HR Hl Hf.
  destruct (allowed allow nm e) eqn:Ha; [apply allowed_spec; exact Ha|]. exfalso.
  assert (Hbad : In (f, e, ls, nm) (bad_sites g effs off roots forb allow)).
  { unfold bad_sites. apply filter_In. split; [exact Hin|]. unfold site_bad.
    rewrite (reach_set_complete g off roots f Hc HR).
    rewrite (proj2 (lits_on_spec off ls) Hl). rewrite Hf, Ha. reflexivity. }
  destruct (bad_sites g effs off roots forb allow); [destruct Hbad | discriminate].
Qed.

(* the converse direction for sites: a site reported bad is a real counterexample to the property *)
Theorem bad_site_refutes g effs off roots forb allow s :
  In s (bad_sites g effs off roots forb allow) -> ~ NoReachableEffect g effs off roots forb allow.
Proof.
  unfold bad_sites. intros Hin HN. apply filter_In in Hin. destruct Hin as [Hin Hb].
  destruct s as [[[f e] ls] nm]. unfold site_bad in Hb.
  apply andb_true_iff in Hb. destruct Hb as [Hb Hna]. apply andb_true_iff in Hb. destruct Hb as [Hb Hf].
  apply andb_true_iff in Hb. destruct Hb as [Hm Hl].
  apply reach_set_sound in Hm. pose proof (proj1 (lits_on_spec off ls) Hl) as Hl2.
  specialize (HN f e ls nm Hin Hm Hl2 Hf).
  assert (allowed allow nm e = true).
  { unfold allowed. apply existsb_exists. exists (nm, e). split; [exact HN|]. cbn.
    rewrite String.eqb_refl. destruct e; reflexivity. }
  rewrite H in Hna. discriminate.
Qed.

(* ---- justified traces stay inside [Reach]; hence the effect theorems cover everything that ran ------------ *)
Lemma justified_reach g off roots tr :
  Justified g off roots tr -> forall x, In x tr -> Reach g off roots x.
Proof.
  induction 1 as [|x tr _ IH Hx]; intros y Hy; [destruct Hy|].
  destruct Hy as [<-|Hy]; [|exact (IH y Hy)].
  destruct Hx as [->|[Hr|[a [c [ls [Hin [Hl [Ha Hc]]]]]]]].
  - apply Reach_top.
  - apply Reach_root; exact Hr.
  - apply (Reach_edge g off roots a x c ls Hin Hl).
    + destruct Ha as [->|Ha]; [apply Reach_top | exact (IH a Ha)].
    + destruct Hc as [->|Hc]; [apply Reach_top | exact (IH c Hc)].
Qed.

Theorem justified_trace_effects g effs off roots forb allow tr :
  NoReachableEffect g effs off roots forb allow -> Justified g off roots tr ->
  forall f e ls nm, In f tr -> In (f, e, ls, nm) effs -> (forall l, In l ls -> ~ In l off) -> forb e = true ->
    In (nm, e) allow.
Proof.
  intros HN HJ f e ls nm Hf Hin Hl Hfo. apply (HN f e ls nm Hin (justified_reach g off roots tr HJ f Hf) Hl Hfo).
Qed.
