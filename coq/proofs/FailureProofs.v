(* FailureProofs.v — lemmas about model/Failure.v and the failure paths of model/SearcherData.v (C13). *)
From Coq Require Import ZArith List Bool Lia ZifyBool QArith.
From Verif Require Import model.Base model.SearcherData model.Failure proofs.SearcherDataProofs.
Import ListNotations.
Open Scope Z_scope.

(* ------------------------------------------------------------------ *)
(* (1) tuner dispatch: exactly one on_trial_error per badly ended run   *)
(* ------------------------------------------------------------------ *)
Definition is_error (t : Z) (c : call) : bool := match c with CError t' => t' =? t | _ => false end.
Lemma count_error_app t l c : count_error t (l ++ [c]) = (count_error t l + (if is_error t c then 1 else 0))%nat.
Proof.
  unfold count_error. fold (is_error t). rewrite filter_app, app_length. cbn. destruct (is_error t c); reflexivity.
Qed.

Lemma results_loop_no_error t statuses results : forall ps,
  count_error t (calls (results_loop statuses results ps)) = count_error t (calls ps).
Proof.
  induction results as [|[t' d] rest IH]; intro ps; cbn [results_loop]; [reflexivity|].
  destruct (lookup t' (done ps)); [apply IH|]. rewrite IH. destruct d; cbn [calls]; rewrite ?count_error_app; cbn; lia.
Qed.

Lemma status_loop_stopped statuses : forall ps, sched_stopped (status_loop statuses ps) = sched_stopped ps.
Proof.
  induction statuses as [|[t st] rest IH]; intro ps; cbn [status_loop]; [reflexivity|]. rewrite IH.
  destruct st; try reflexivity. destruct (mem_Z t (sched_stopped ps)); reflexivity.
Qed.

Lemma lookup_notin {A} t (l : list (Z * A)) : ~ In t (map fst l) -> lookup t l = None.
Proof.
  induction l as [|[k v] l IH]; cbn; [reflexivity|]. intro H. destruct (k =? t) eqn:E; [exfalso; apply H; left; lia|].
  apply IH. intro Hin. apply H. right. exact Hin.
Qed.

Lemma lookup_set_key_same {A} t (v : A) l : lookup t (set_key t v l) = Some v.
Proof. induction l as [|[k w] l IH]; cbn; [rewrite Z.eqb_refl; reflexivity|]. destruct (k =? t) eqn:E; cbn; rewrite E; auto. Qed.
Lemma lookup_set_key_other {A} t t' (v : A) l : t' <> t -> lookup t' (set_key t v l) = lookup t' l.
Proof.
  intro Hne. induction l as [|[k w] l IH]; cbn; [destruct (t =? t') eqn:E; [lia | reflexivity]|].
  destruct (k =? t) eqn:E; cbn; destruct (k =? t') eqn:E2; auto; lia.
Qed.
(* processing the entry of another trial changes neither the scheduler-stopped set nor what is known about t *)
Definition head_step (t' : Z) (st : status) (ps : poll_state) : poll_state :=
  match st with
  | S_Completed =>
      {| done := set_key t' match lookup t' (done ps) with Some S_Paused => S_Paused | _ => S_Completed end (done ps);
         sched_stopped := sched_stopped ps;
         calls := match lookup t' (done ps) with None => calls ps ++ [CComplete t'] | Some _ => calls ps end |}
  | S_Failed =>
      {| done := set_key t' S_Failed (done ps); sched_stopped := sched_stopped ps;
         calls := match lookup t' (done ps) with None => calls ps ++ [CError t'] | Some _ => calls ps end |}
  | S_Stopped =>
      if mem_Z t' (sched_stopped ps) then ps
      else {| done := set_key t' S_Stopped (done ps); sched_stopped := sched_stopped ps; calls := calls ps ++ [CError t'] |}
  | _ => ps
  end.
Lemma status_loop_cons t' st rest ps : status_loop ((t', st) :: rest) ps = status_loop rest (head_step t' st ps).
Proof. destruct st; reflexivity. Qed.
Lemma head_step_stopped t' st ps : sched_stopped (head_step t' st ps) = sched_stopped ps.
Proof. destruct st; try reflexivity. cbn. destruct (mem_Z t' (sched_stopped ps)); reflexivity. Qed.
Lemma head_step_other t t' st ps : t <> t' -> lookup t (done (head_step t' st ps)) = lookup t (done ps).
Proof.
  intro Hne. destruct st; cbn; rewrite ?lookup_set_key_other; auto.
  destruct (mem_Z t' (sched_stopped ps)); cbn; rewrite ?lookup_set_key_other; auto.
Qed.
Lemma head_step_count_other t t' st ps : t <> t' -> count_error t (calls (head_step t' st ps)) = count_error t (calls ps).
Proof.
  intro Hne. assert (E : (t' =? t) = false) by lia.
  destruct st; cbn [head_step calls]; try reflexivity.
  - destruct (lookup t' (done ps)); cbn [calls]; rewrite ?count_error_app; cbn [is_error]; lia.
  - destruct (lookup t' (done ps)); cbn [calls]; rewrite ?count_error_app; cbn [is_error]; rewrite ?E; lia.
  - destruct (mem_Z t' (sched_stopped ps)); cbn [calls]; rewrite ?count_error_app; cbn [is_error]; rewrite ?E; lia.
Qed.
Lemma ended_badly_ext statuses ps ps' t : sched_stopped ps' = sched_stopped ps -> lookup t (done ps') = lookup t (done ps) ->
  ended_badly statuses ps' t = ended_badly statuses ps t.
Proof. intros H1 H2. unfold ended_badly, decided. rewrite H1, H2. reflexivity. Qed.

Lemma status_loop_count t statuses : forall ps, NoDup (map fst statuses) ->
  count_error t (calls (status_loop statuses ps)) =
  (count_error t (calls ps) + (if ended_badly statuses ps t then 1 else 0))%nat.
Proof.
  induction statuses as [|[t' st] rest IH]; intros ps Hnd.
  - cbn. lia.
  - rewrite status_loop_cons. cbn in Hnd. inversion Hnd as [|? ? Hni Hnd']; subst. rewrite (IH _ Hnd').
    destruct (Z.eq_dec t t') as [<-|Hne].
    + (* the entry of t itself; t does not occur in the rest *)
      assert (Hrest : ended_badly rest (head_step t st ps) t = false).
      { unfold ended_badly. rewrite (lookup_notin t rest Hni). reflexivity. }
      rewrite Hrest. unfold ended_badly, decided. cbn [lookup]. rewrite Z.eqb_refl.
      destruct st; cbn [head_step calls negb]; try lia.
      * destruct (lookup t (done ps)); cbn [calls]; rewrite ?count_error_app; cbn [is_error]; lia.
      * destruct (lookup t (done ps)); cbn [calls negb]; rewrite ?count_error_app; cbn [is_error]; rewrite ?Z.eqb_refl; lia.
      * destruct (mem_Z t (sched_stopped ps)); cbn [calls negb]; rewrite ?count_error_app; cbn [is_error]; rewrite ?Z.eqb_refl; lia.
    + rewrite (head_step_count_other t t' st ps Hne).
      rewrite (ended_badly_ext rest ps (head_step t' st ps) t (head_step_stopped _ _ _) (head_step_other t t' st ps Hne)).
      unfold ended_badly at 2. cbn [lookup]. assert (E : (t' =? t) = false) by lia. rewrite E. reflexivity.
Qed.

Lemma notified_once statuses results ss t : NoDup (map fst statuses) ->
  count_error t (calls (update_running_trials statuses results ss)) =
  if ended_badly statuses (results_loop statuses results {| done := []; sched_stopped := ss; calls := [] |}) t
  then 1%nat else 0%nat.
Proof.
  intro Hnd. unfold update_running_trials. rewrite (status_loop_count t statuses _ Hnd), results_loop_no_error. cbn. reflexivity.
Qed.

(* a trial whose run ended badly is in done_trials afterwards (it leaves the running set) *)
Lemma status_loop_done_mono t statuses : forall ps, lookup t (done ps) <> None -> lookup t (done (status_loop statuses ps)) <> None.
Proof.
  induction statuses as [|[t' st] rest IH]; intros ps H; [exact H|]. rewrite status_loop_cons. apply IH.
  destruct (Z.eq_dec t t') as [<-|Hne]; [|rewrite head_step_other; auto].
  destruct st; cbn; rewrite ?lookup_set_key_same; try exact H; try discriminate.
  destruct (mem_Z t (sched_stopped ps)); cbn; rewrite ?lookup_set_key_same; [exact H | discriminate].
Qed.
Lemma status_loop_done t statuses : forall ps, NoDup (map fst statuses) ->
  ended_badly statuses ps t = true -> lookup t (done (status_loop statuses ps)) <> None.
Proof.
  induction statuses as [|[t' st] rest IH]; intros ps Hnd H; [discriminate|]. rewrite status_loop_cons.
  cbn in Hnd. inversion Hnd as [|? ? Hni Hnd']; subst.
  destruct (Z.eq_dec t t') as [<-|Hne].
  - apply status_loop_done_mono. unfold ended_badly in H. cbn [lookup] in H. rewrite Z.eqb_refl in H.
    destruct st; try discriminate; cbn.
    + rewrite lookup_set_key_same. discriminate.
    + apply negb_true_iff in H. rewrite H. cbn. rewrite lookup_set_key_same. discriminate.
  - apply (IH _ Hnd'). rewrite (ended_badly_ext rest ps (head_step t' st ps) t (head_step_stopped _ _ _) (head_step_other t t' st ps Hne)).
    unfold ended_badly in H. cbn [lookup] in H. assert (E : (t' =? t) = false) by lia. rewrite E in H. exact H.
Qed.

(* failure limit: more than max_failures failed trials => the run ends with an error naming a failed trial *)
Lemma handle_failure_names ds : (0 < num_failed ds)%nat -> exists t, handle_failure ds = Some t /\ lookup t ds <> None /\ In (t, S_Failed) ds.
Proof.
  induction ds as [|[t st] ds IH]; cbn; [lia|]. unfold num_failed. cbn [filter snd].
  destruct (status_eqb st S_Failed) eqn:E.
  - intros _. exists t. split; [reflexivity|]. rewrite Z.eqb_refl. split; [discriminate|]. left. destruct st; try discriminate. reflexivity.
  - intro H. destruct (IH H) as [t' [A [B C]]]. exists t'. split; [exact A|]. split; [|right; exact C].
    destruct (t =? t'); [discriminate | exact B].
Qed.
Lemma limit_names max_failures ds : (max_failures < num_failed ds)%nat ->
  exists t, run_end max_failures ds = Some t /\ In (t, S_Failed) ds.
Proof.
  intro H. unfold run_end. assert (E : Nat.ltb max_failures (num_failed ds) = true) by (apply Nat.ltb_lt; exact H).
  rewrite E. destruct (handle_failure_names ds) as [t [A [_ C]]]; [lia | eauto].
Qed.
Lemma limit_not_reached max_failures ds : (num_failed ds <= max_failures)%nat -> run_end max_failures ds = None.
Proof. intro H. unfold run_end. assert (E : Nat.ltb max_failures (num_failed ds) = false) by (apply Nat.ltb_ge; exact H). rewrite E. reflexivity. Qed.

(* ------------------------------------------------------------------ *)
(* (3) asynchronous Hyperband + GP searcher: frame of on_trial_error     *)
(* ------------------------------------------------------------------ *)
Definition cfg0 : config := {| rung_levels := []; max_t := 1; pol := Rungs; myopic := false; sty := SearcherData.Stopping; maximize := false; reward_const := 1 |}.
Lemma async_frame st t t' : t' <> t ->
  let st' := on_trial_error st t in
  find t' (trials st') = find t' (trials st) /\
  (forall r c, In ((t', r), c) (obs (srch st')) <-> In ((t', r), c) (obs (srch st))) /\
  (forall p, In (t', p) (pend (srch st')) <-> In (t', p) (pend (srch st))).
Proof.
  intro Hne. cbn zeta.
  destruct (step_same_for cfg0 eq_refl st (Fail t) (on_trial_error st t) None t' eq_refl Hne) as [[A [B _]] C].
  auto.
Qed.
Lemma async_own st t :
  let st' := on_trial_error st t in
  (forall p, ~ In (t, p) (pend (srch st'))) /\ In t (failed (srch st')) /\ obs (srch st') = obs (srch st) /\
  (forall rec, find t (trials st) = Some rec -> exists rec', find t (trials st') = Some rec' /\ dec rec' = STOP /\ in_rungs rec' = in_rungs rec).
Proof.
  cbn zeta. split; [apply error_clears|].
  assert (HF : In t (failed (evaluation_failed (srch st) t))).
  { unfold evaluation_failed, mark_failed. cbn [failed cleanup_pending]. destruct (mem_Z t (failed (srch st))) eqn:E.
    - apply mem_Z_In. exact E.
    - apply in_or_app. right. left. reflexivity. }
  unfold on_trial_error. destruct (find t (trials st)) as [rec|] eqn:Hf; cbn [srch trials]; (split; [exact HF|]); (split; [reflexivity|]).
  - intros rec0 E. inversion E; subst. eexists. split; [apply find_upd_same|]. split; reflexivity.
  - intros rec0 E. discriminate.
Qed.

(* the failed list only grows: a failed trial's configuration stays in the exclusion list *)
Lemma register_all_failed t rs : forall s s', register_all s t rs = Ok s' -> failed s' = failed s.
Proof.
  induction rs as [|r rs IH]; intros s s'; cbn; [intro H; inversion H; reflexivity|].
  destruct (register_pending s t r) as [s1|] eqn:E; cbn; [|discriminate]. intro H. rewrite (IH _ _ H).
  unfold register_pending, append_pending in E. destruct (is_pending s t r); [inversion E; reflexivity|].
  destruct (is_labeled s t r); [discriminate|]. inversion E. reflexivity.
Qed.
Lemma report_core_failed_eq cfg st t0 r v cont st' d : report_core cfg st t0 r v cont = Ok (st', d) -> failed (srch st') = failed (srch st).
Proof.
  unfold report_core. destruct (on_trial_result cfg st t0 r v cont) as [[st1 d1]|] eqn:E; cbn [bind]; [|discriminate].
  intro H. inversion H; subst. assert (H1 : failed (srch st1) = failed (srch st)).
  { unfold on_trial_result in E. destruct (find t0 (trials st)) as [rec|]; [|discriminate].
    destruct (dec rec); try (inversion E; subst; reflexivity).
    destruct (on_task_report cfg rec r cont) as [[rec1 ti]|]; cbn [bind] in E; [|discriminate].
    destruct (ignore_data ti); [inversion E; subst; reflexivity|].
    destruct (update_searcher _ _ _ _ _ _) as [[du s1]|] eqn:EU; cbn [bind] in E; [|discriminate].
    destruct (lur_step _ _ _) as [[du2 rec3]|]; cbn [bind] in E; [|discriminate]. inversion E; subst. cbn [srch].
    assert (Hs1 : failed s1 = failed (srch st)).
    { unfold update_searcher in EU.
      destruct (if fst (us_plan cfg r ti) then us_internal cfg (srch st) rec1 t0 else Ok (srch st)) as [sa|] eqn:EA; cbn [bind] in EU; [|discriminate].
      destruct (register_all sa t0 _) as [sb|] eqn:EB; cbn [bind] in EU; [|discriminate]. inversion EU; subst.
      rewrite (register_all_failed _ _ _ _ EB). destruct (fst (us_plan cfg r ti)); [|inversion EA; reflexivity].
      unfold us_internal in EA. destruct (pol cfg); try (inversion EA; reflexivity).
      destruct (reported rec1) as [[? ?]|]; [|inversion EA; reflexivity]. destruct (negb _); [|inversion EA; reflexivity].
      unfold remove_case in EA. destruct (is_labeled _ _ _); [inversion EA; reflexivity | discriminate]. }
    destruct du2; cbn [label failed]; exact Hs1. }
  destruct d1; auto; unfold on_trial_remove; destruct (find t0 (trials st1)); auto.
Qed.

Lemma step_failed_mono cfg st e st' d t : step cfg st e = Ok (st', d) -> In t (failed (srch st)) -> In t (failed (srch st')).
Proof.
  destruct e as [t0 b|t0 r v cont|t0 b|t0 r v|t0|t0 r v]; cbn [step];
    try (intros H Hin; rewrite (report_core_failed_eq _ _ _ _ _ _ _ _ H); exact Hin).
  - unfold on_start. destruct (find t0 (trials st)); [discriminate|]. destruct (register_all _ _ _) as [s1|] eqn:E; cbn [bind]; [|discriminate].
    intro H. inversion H; subst. cbn. rewrite (register_all_failed _ _ _ _ E). auto.
  - unfold on_resume. destruct (sty cfg); [discriminate|]. destruct (find t0 (trials st)); [|discriminate].
    destruct (paused_at _ _); [|discriminate]. destruct (negb _); [discriminate|]. destruct (decision_eqb _ _); [discriminate|].
    destruct (register_all _ _ _) as [s1|] eqn:E; cbn [bind]; [|discriminate].
    intro H. inversion H; subst. cbn. rewrite (register_all_failed _ _ _ _ E). auto.
  - unfold on_trial_complete. destruct (find t0 (trials st)) as [rec|]; cbn [bind]; [|discriminate]. intro H. inversion H; subst.
    cbn. destruct (lur rec) as [l|]; auto. destruct (l <? r); auto.
  - intro H. inversion H; subst. intro Hin. unfold on_trial_error.
    assert (In t (failed (evaluation_failed (srch st) t0))).
    { unfold evaluation_failed, mark_failed. cbn. destruct (mem_Z t0 (failed (srch st))); [exact Hin | apply in_or_app; left; exact Hin]. }
    destruct (find t0 (trials st)); exact H0.
Qed.
Lemma run_failed_mono cfg h : forall st st' t, run cfg st h = Ok st' -> In t (failed (srch st)) -> In t (failed (srch st')).
Proof.
  induction h as [|e h IH]; intros st st' t; cbn [run]; [intro H; inversion H; subst; auto|].
  destruct (step cfg st e) as [[st1 d]|] eqn:E; cbn [bind]; [|discriminate]. intros H Hin. eapply IH; eauto. eapply step_failed_mono; eauto.
Qed.

(* ------------------------------------------------------------------ *)
(* (2) synchronous bracket                                              *)
(* ------------------------------------------------------------------ *)
Lemma write_slot_nth_same l : forall pos x, (pos < length l)%nat -> nth_error (write_slot l pos x) pos = Some x.
Proof. induction l as [|y l IH]; intros [|pos] x H; cbn in *; try lia; [reflexivity | apply IH; lia]. Qed.
Lemma write_slot_nth_other l : forall pos x j, j <> pos -> nth_error (write_slot l pos x) j = nth_error l j.
Proof.
  induction l as [|y l IH]; intros [|pos] x [|j] H; cbn; try reflexivity; try congruence. apply IH. congruence.
Qed.
Lemma write_slot_length l : forall pos x, length (write_slot l pos x) = length l.
Proof. induction l as [|y l IH]; intros [|pos] x; cbn; auto. Qed.
Lemma set_nth_same {A} (l : list A) : forall i x, (i < length l)%nat -> nth_error (set_nth l i x) i = Some x.
Proof. induction l as [|y l IH]; intros [|i] x H; cbn in *; try lia; [reflexivity | apply IH; lia]. Qed.
Lemma set_nth_other {A} (l : list A) : forall i x j, j <> i -> nth_error (set_nth l i x) j = nth_error l j.
Proof. induction l as [|y l IH]; intros [|i] x [|j] H; cbn; try reflexivity; try congruence. apply IH. congruence. Qed.
Lemma lookup_filter_other {A} t t' (l : list (Z * A)) : t' <> t ->
  lookup t' (filter (fun e => negb (fst e =? t)) l) = lookup t' l.
Proof.
  intro Hne. induction l as [|[k v] l IH]; cbn; [reflexivity|]. destruct (k =? t) eqn:E; cbn.
  - destruct (k =? t') eqn:E2; [lia | exact IH].
  - destruct (k =? t'); [reflexivity | exact IH].
Qed.
Lemma lookup_filter_same {A} t (l : list (Z * A)) : lookup t (filter (fun e => negb (fst e =? t)) l) = None.
Proof.
  induction l as [|[k v] l IH]; cbn; [reflexivity|]. destruct (k =? t) eqn:E; cbn; [exact IH | rewrite E; exact IH].
Qed.

Section BracketProofs.
Variable promote : list slot -> nat -> list Z.

Lemma bracket_on_result_rung b r b' rung ms m :
  bracket_on_result promote b r = SOk b' -> cur b = Some (rung, ms) -> s_metric r = Some m ->
  rung_at b' (s_rung r) = Some (write_slot rung (s_index r) (s_trial r, Some m)) /\ (s_index r < length rung)%nat.
Proof.
  unfold bracket_on_result. intros H Hc Hm. rewrite Hc, Hm in H.
  destruct (negb (Nat.eqb (s_rung r) (current_rung b))) eqn:E1; [discriminate|].
  destruct (negb (Nat.ltb (s_index r) (first_free b))); [discriminate|]. destruct (negb (s_level r =? ms)); [discriminate|].
  destruct (nth_error rung (s_index r)) as [[tid mv]|] eqn:EN; [|discriminate].
  assert (HL : (s_index r < length rung)%nat) by (apply nth_error_Some; congruence). split; [|exact HL].
  destruct (match tid with Some t' => _ | None => false end); [discriminate|]. destruct mv; [discriminate|].
  apply negb_false_iff, Nat.eqb_eq in E1. unfold current_rung in E1. unfold rung_at. rewrite E1.
  set (rung' := write_slot rung (s_index r) (s_trial r, Some m)) in *.
  destruct (Nat.leb (length rung') (first_free b) && Nat.eqb (num_pending rung' (first_free b)) 0).
  - destruct (future b) as [|[size lvl] fut]; inversion H; subst; cbn [rungs_done];
      rewrite nth_error_app2, Nat.sub_diag by lia; reflexivity.
  - inversion H; subst. cbn [rungs_done cur].
    assert (EN2 : nth_error (rungs_done b) (length (rungs_done b)) = None) by (apply nth_error_None; lia).
    rewrite EN2, Nat.eqb_refl. reflexivity.
Qed.

Lemma bracket_on_result_total b sl m : slot_valid b sl = true ->
  exists b', bracket_on_result promote b {| s_rung := s_rung sl; s_level := s_level sl; s_index := s_index sl;
                                           s_trial := s_trial sl; s_metric := Some m |} = SOk b'.
Proof.
  unfold slot_valid, bracket_on_result. destruct (cur b) as [[rung ms]|]; [|discriminate]. cbn [s_rung s_level s_index s_trial s_metric].
  intro H. apply andb_true_iff in H as [H H4]. apply andb_true_iff in H as [H H3]. apply andb_true_iff in H as [H1 H2].
  rewrite H1, H2, H3. cbn [negb]. destruct (nth_error rung (s_index sl)) as [[tid mv]|]; [|discriminate].
  destruct mv; [discriminate|]. destruct tid as [t'|].
  - rewrite H4. cbn [negb]. destruct (_ && _); [destruct (future b) as [|[? ?] ?]|]; eauto.
  - destruct (_ && _); [destruct (future b) as [|[? ?] ?]|]; eauto.
Qed.

Lemma sync_error_frame st t st' bid sl b rung ms :
  sync_on_trial_error promote st t = SOk st' -> lookup t (pending_slot st) = Some (bid, sl) ->
  nth_error (brackets st) bid = Some b -> cur b = Some (rung, ms) ->
  (forall bid', bid' <> bid -> nth_error (brackets st') bid' = nth_error (brackets st) bid') /\
  (exists b', nth_error (brackets st') bid = Some b' /\
              rung_at b' (s_rung sl) = Some (write_slot rung (s_index sl) (s_trial sl, Some MNaN)) /\
              (s_index sl < length rung)%nat) /\
  (forall t', t' <> t -> lookup t' (pending_slot st') = lookup t' (pending_slot st)) /\
  lookup t (pending_slot st') = None.
Proof.
  unfold sync_on_trial_error. intros H Hl Hb Hc. rewrite Hl, Hb in H.
  destruct (bracket_on_result promote b _) as [b'|] eqn:E; [|discriminate]. inversion H; subst. cbn [brackets pending_slot].
  split; [intros bid' Hne; apply set_nth_other; exact Hne|].
  split.
  - exists b'. split; [apply set_nth_same; apply nth_error_Some; congruence|].
    destruct (bracket_on_result_rung _ _ _ _ _ MNaN E Hc eq_refl) as [A B]. cbn in A, B. auto.
  - split; [intros t' Hne; apply lookup_filter_other; exact Hne | apply lookup_filter_same].
Qed.

Lemma sync_error_total st t bid sl b : lookup t (pending_slot st) = Some (bid, sl) ->
  nth_error (brackets st) bid = Some b -> slot_valid b sl = true -> exists st', sync_on_trial_error promote st t = SOk st'.
Proof.
  intros Hl Hb Hv. unfold sync_on_trial_error. rewrite Hl, Hb.
  destruct (bracket_on_result_total b sl MNaN Hv) as [b' E]. rewrite E. eauto.
Qed.
Lemma sync_error_unknown st t : lookup t (pending_slot st) = None -> sync_on_trial_error promote st t = SOk st.
Proof. intro H. unfold sync_on_trial_error. rewrite H. reflexivity. Qed.
End BracketProofs.

(* ------------------------------------------------------------------ *)
(* (4) a failed trial is never resumed (asynchronous promotion)          *)
(* ------------------------------------------------------------------ *)
(* the failure is signalled for a trial that is running (the usual case: status failed of a
   trial for which the scheduler's last answer was CONTINUE) *)
Definition fail_running (st : state) (e : event) : bool :=
  match e with
  | Fail t => match find t (trials st) with Some rec => decision_eqb (dec rec) CONTINUE | None => false end
  | _ => true
  end.
Fixpoint legal_hist_fr (cfg : config) (st : state) (h : list event) : Prop :=
  match h with
  | [] => True
  | e :: h' => legal_b cfg st e = true /\ fail_running st e = true /\
               match step cfg st e with Ok (st', _) => legal_hist_fr cfg st' h' | Error _ => True end
  end.
Lemma legal_hist_fr_legal cfg h : forall st, legal_hist_fr cfg st h -> legal_hist cfg st h.
Proof.
  induction h as [|e h IH]; intros st H; cbn in *; [exact I|]. destruct H as [A [_ C]]. split; [exact A|].
  destruct (step cfg st e) as [[st' d]|]; [apply IH; exact C | exact I].
Qed.

Lemma step_failed_eq cfg st e st' d : step cfg st e = Ok (st', d) -> (forall t, e <> Fail t) -> failed (srch st') = failed (srch st).
Proof.
  destruct e as [t0 b|t0 r v cont|t0 b|t0 r v|t0|t0 r v]; cbn [step]; intros H Hnf;
    try (exact (report_core_failed_eq _ _ _ _ _ _ _ _ H)).
  - unfold on_start in H. destruct (find t0 (trials st)); [discriminate|]. destruct (register_all _ _ _) as [s1|] eqn:E; cbn [bind] in H; [|discriminate].
    inversion H; subst. cbn. apply (register_all_failed _ _ _ _ E).
  - unfold on_resume in H. destruct (sty cfg); [discriminate|]. destruct (find t0 (trials st)); [|discriminate].
    destruct (paused_at _ _); [|discriminate]. destruct (negb _); [discriminate|]. destruct (decision_eqb _ _); [discriminate|].
    destruct (register_all _ _ _) as [s1|] eqn:E; cbn [bind] in H; [|discriminate].
    inversion H; subst. cbn. apply (register_all_failed _ _ _ _ E).
  - unfold on_trial_complete in H. destruct (find t0 (trials st)) as [rec|]; cbn [bind] in H; [|discriminate]. inversion H; subst.
    cbn. destruct (lur rec) as [l|]; auto. destruct (l <? r); auto.
  - exfalso. apply (Hnf t0). reflexivity.
Qed.

Definition FailedIdle (cfg : config) (st : state) : Prop :=
  forall t, In t (failed (srch st)) ->
    exists rec, find t (trials st) = Some rec /\ dec rec <> CONTINUE /\
                (sty cfg = Promotion -> forall L p, In (L, p) (in_rungs rec) -> p = true).

Lemma FailedIdle_no_resume cfg st t b : FailedIdle cfg st -> In t (failed (srch st)) -> legal_b cfg st (Resume t b) = false.
Proof.
  intros HJ Hin. destruct (HJ t Hin) as [rec [Hf [Hd Hp]]]. cbn [legal_b]. destruct (sty cfg) eqn:HS; [reflexivity|].
  rewrite Hf. destruct (existsb (fun e : Z * bool => negb (snd e)) (in_rungs rec)) eqn:E; [|apply andb_false_r].
  apply existsb_exists in E as [[L p] [Hi Hn]]. rewrite (Hp eq_refl L p Hi) in Hn. discriminate.
Qed.

Lemma step_FailedIdle cfg st e st' d : wf_config cfg = true -> Inv cfg st -> FailedIdle cfg st ->
  legal_b cfg st e = true -> fail_running st e = true -> step cfg st e = Ok (st', d) -> FailedIdle cfg st'.
Proof.
  intros WF HI HJ Hl Hfr HS t Hin.
  assert (Hcase : (e = Fail t /\ ~ In t (failed (srch st))) \/ In t (failed (srch st))).
  { destruct e as [t0 b|t0 r v cont|t0 b|t0 r v|t0|t0 r v];
      try (right; rewrite <- (step_failed_eq _ _ _ _ _ HS); [exact Hin | intros; discriminate]).
    cbn [step] in HS. inversion HS; subst. unfold on_trial_error in Hin.
    assert (Hin' : In t (failed (evaluation_failed (srch st) t0))) by (destruct (find t0 (trials st)); exact Hin).
    unfold evaluation_failed, mark_failed in Hin'. cbn [failed cleanup_pending] in Hin'.
    destruct (mem_Z t0 (failed (srch st))) eqn:EM; [right; exact Hin'|].
    apply in_app_or in Hin' as [H|[<-|[]]]; [right; exact H|].
    left. split; [reflexivity|]. intro H. apply mem_Z_In in H. congruence. }
  destruct Hcase as [[-> Hnew]|Hold].
  - (* the trial that fails now: it was running, so every rung entry of it is marked promoted *)
    cbn [fail_running] in Hfr. destruct (find t (trials st)) as [rec|] eqn:Hf; [|discriminate].
    assert (Hd : dec rec = CONTINUE) by (destruct (dec rec); cbn in Hfr; congruence).
    cbn [step] in HS. inversion HS; subst. unfold on_trial_error. rewrite Hf. cbn [trials].
    exists (cleanup_rec rec STOP). split; [apply find_upd_same|]. split; [cbn; discriminate|].
    intros HP L p Hi. cbn in Hi. destruct HI as [_ [_ Hall]]. specialize (Hall t). rewrite Hf in Hall.
    destruct (g_rungs _ _ _ _ _ Hall HP L p Hi) as [_ [_ C]]. destruct p; [reflexivity|]. destruct (C eq_refl) as [C1 _]. congruence.
  - destruct (HJ t Hold) as [rec [Hf [Hd Hp]]].
    destruct (Z.eq_dec t (trial_of e)) as [Heq|Hne].
    + (* no event other than a further failure is legal for a failed trial *)
      destruct e as [t0 b|t0 r v cont|t0 b|t0 r v|t0|t0 r v]; cbn [trial_of] in Heq; subst t0; cbn [legal_b] in Hl.
      6:{ (* a late report of the failed trial: still not running, rung entries untouched *)
          destruct (own_late cfg st t r v rec HI Hf Hd) as [ES [_ _]]. rewrite ES in HS. inversion HS; subst.
          unfold on_trial_remove. rewrite Hf. cbn [trials]. exists (cleanup_rec rec PAUSE).
          split; [apply find_upd_same|]. split; [cbn; discriminate | exact Hp]. }
      * rewrite Hf in Hl. discriminate.
      * rewrite Hf in Hl. apply andb_true_iff in Hl as [Hl _]. destruct (dec rec); cbn in Hl; congruence.
      * rewrite (FailedIdle_no_resume cfg st t b HJ Hold) in Hl || (pose proof (FailedIdle_no_resume cfg st t b HJ Hold) as HN; cbn [legal_b] in HN; rewrite HN in Hl). discriminate.
      * rewrite Hf in Hl. apply andb_true_iff in Hl as [Hl _]. destruct (dec rec); cbn in Hl; congruence.
      * cbn [fail_running] in Hfr. rewrite Hf in Hfr. destruct (dec rec); cbn in Hfr; congruence.
    + destruct (step_same_for cfg WF st e st' d t HS) as [_ HF]; [destruct e; exact Hne|]. rewrite HF. eauto.
Qed.

Lemma run_FailedIdle cfg h : wf_config cfg = true -> forall st, Inv cfg st -> FailedIdle cfg st -> legal_hist_fr cfg st h ->
  forall st', run cfg st h = Ok st' -> FailedIdle cfg st'.
Proof.
  intro WF. induction h as [|e h IH]; intros st HI HJ HL st'; cbn [run]; [intro H; inversion H; subst; exact HJ|].
  cbn [legal_hist_fr] in HL. destruct HL as [Hl [Hfr HL]].
  destruct (step_inv cfg WF st e HI Hl) as [st1 [d [E HI1]]]. rewrite E in *. cbn [bind]. intro HR.
  apply (IH st1 HI1 (step_FailedIdle cfg st e st1 d WF HI HJ Hl Hfr E) HL st' HR).
Qed.

Lemma failed_not_resumed cfg h st : wf_config cfg = true -> legal_hist_fr cfg init h -> run cfg init h = Ok st ->
  forall t b, In t (failed (srch st)) -> legal_b cfg st (Resume t b) = false.
Proof.
  intros WF HL HR t b Hin. apply FailedIdle_no_resume; [|exact Hin].
  eapply (run_FailedIdle cfg h WF init); eauto; [apply Inv_init | intros t' []].
Qed.

(* ------------------------------------------------------------------ *)
(* (5) done_trials_statuses accumulates over the polls                   *)
(* ------------------------------------------------------------------ *)
Lemma update_dict_notin t new : forall acc, ~ In t (map fst new) -> lookup t (update_dict acc new) = lookup t acc.
Proof.
  induction new as [|[k s] new IH]; intros acc H; cbn; [reflexivity|]. cbn in H.
  rewrite IH by tauto. apply lookup_set_key_other. intro E. apply H. left. congruence.
Qed.
Lemma update_dict_in t s new : forall acc, NoDup (map fst new) -> In (t, s) new -> lookup t (update_dict acc new) = Some s.
Proof.
  induction new as [|[k s'] new IH]; intros acc Hnd Hin; [destruct Hin|]. cbn in Hnd. inversion Hnd as [|? ? Hni Hnd']; subst. cbn.
  destruct Hin as [E|Hin].
  - inversion E; subst. rewrite update_dict_notin by exact Hni. apply lookup_set_key_same.
  - apply IH; assumption.
Qed.
Lemma fold_update_notin t post : forall acc, (forall d, In d post -> ~ In t (map fst d)) ->
  lookup t (fold_left update_dict post acc) = lookup t acc.
Proof.
  induction post as [|d post IH]; intros acc H; cbn; [reflexivity|].
  rewrite IH by (intros d' Hd'; apply H; right; exact Hd'). apply update_dict_notin. apply H. left. reflexivity.
Qed.
Lemma lookup_In {A} t (v : A) l : lookup t l = Some v -> In (t, v) l.
Proof.
  induction l as [|[k w] l IH]; cbn; [discriminate|]. destruct (k =? t) eqn:E.
  - intro H. inversion H; subst. left. f_equal. lia.
  - intro H. right. auto.
Qed.
(* a failure seen in some poll is still in the dict handed to _handle_failure at the end, unless the
   same trial finishes again in a later poll *)
Lemma failure_remembered t pre d post : NoDup (map fst d) -> In (t, S_Failed) d ->
  (forall d', In d' post -> ~ In t (map fst d')) ->
  In (t, S_Failed) (accumulate (pre ++ d :: post)) /\ (0 < num_failed (accumulate (pre ++ d :: post)))%nat.
Proof.
  intros Hnd Hin Hpost. unfold accumulate. rewrite fold_left_app. cbn [fold_left].
  assert (HL : lookup t (fold_left update_dict post (update_dict (fold_left update_dict pre []) d)) = Some S_Failed).
  { rewrite (fold_update_notin t post _ Hpost). apply update_dict_in; assumption. }
  apply lookup_In in HL. split; [exact HL|]. unfold num_failed.
  assert (In (t, S_Failed) (filter (fun e : Z * status => status_eqb (snd e) S_Failed)
            (fold_left update_dict post (update_dict (fold_left update_dict pre []) d)))) by (apply filter_In; split; [exact HL | reflexivity]).
  destruct (filter _ _); [destruct H | cbn; lia].
Qed.

(* ------------------------------------------------------------------ *)
(* (2b) the synchronous scheduler shell never raises                     *)
(* ------------------------------------------------------------------ *)
Fixpoint somes {A} (l : list (option A)) : list A :=
  match l with [] => [] | Some x :: r => x :: somes r | None :: r => somes r end.
Lemma In_somes {A} (x : A) l : In x (somes l) <-> In (Some x) l.
Proof.
  induction l as [|[y|] l IH]; cbn; [tauto | |].
  - rewrite IH. split; [intros [->|H]; auto | intros [E|H]; [inversion E; auto | auto]].
  - rewrite IH. split; [auto | intros [E|H]; [discriminate | auto]].
Qed.
Lemma somes_nth_inj {A} (l : list (option A)) : NoDup (somes l) -> forall i j x,
  nth_error l i = Some (Some x) -> nth_error l j = Some (Some x) -> i = j.
Proof.
  induction l as [|[y|] l IH]; cbn; intros Hnd i j x Hi Hj.
  - destruct i; discriminate.
  - inversion Hnd as [|? ? Hni Hnd']; subst. destruct i as [|i], j as [|j]; cbn in *; auto.
    + inversion Hi; subst. exfalso. apply Hni. apply In_somes. eapply nth_error_In; eauto.
    + inversion Hj; subst. exfalso. apply Hni. apply In_somes. eapply nth_error_In; eauto.
    + f_equal. eapply IH; eauto.
  - destruct i as [|i], j as [|j]; cbn in *; try discriminate. f_equal. eapply IH; eauto.
Qed.

Lemma NoDup_app_remove_l {A} (l l' : list A) : NoDup (l ++ l') -> NoDup l'.
Proof. induction l as [|a l IH]; cbn; [auto|]. intro H. inversion H; auto. Qed.
Lemma NoDup_app_remove_r {A} (l l' : list A) : NoDup (l ++ l') -> NoDup l.
Proof.
  induction l as [|a l IH]; cbn; [constructor|]. intro H. inversion H as [|? ? Hni Hnd]; subst.
  constructor; [intro Hin; apply Hni; apply in_or_app; left; exact Hin | auto].
Qed.

Definition cur_trials (b : bracket) : list Z :=
  match cur b with Some (rung, _) => somes (map fst rung) | None => [] end.

Lemma flat_map_set_nth_same {A B} (f : A -> list B) l : forall i x y,
  nth_error l i = Some x -> f y = f x -> flat_map f (set_nth l i y) = flat_map f l.
Proof.
  induction l as [|a l IH]; intros [|i] x y H E; cbn in *; try discriminate.
  - inversion H; subst. rewrite E. reflexivity.
  - f_equal. eapply IH; eauto.
Qed.
Lemma flat_map_set_nth_In {A B} (f : A -> list B) l : forall i x y z,
  nth_error l i = Some x -> In z (flat_map f (set_nth l i y)) -> In z (f y) \/ In z (flat_map f l).
Proof.
  induction l as [|a l IH]; intros [|i] x y z H Hin; cbn in *; try discriminate.
  - apply in_app_or in Hin as [Hin|Hin]; [left; exact Hin | right; apply in_or_app; right; exact Hin].
  - apply in_app_or in Hin as [Hin|Hin]; [right; apply in_or_app; left; exact Hin|].
    destruct (IH i x y z H Hin) as [H1|H1]; [left; exact H1 | right; apply in_or_app; right; exact H1].
Qed.
(* replacing one component by a duplicate-free list whose new elements are new everywhere *)
Lemma flat_map_set_nth_nodup {A B} (f : A -> list B) l : forall i x y,
  NoDup (flat_map f l) -> nth_error l i = Some x -> NoDup (f y) ->
  (forall z, In z (f y) -> In z (f x) \/ ~ In z (flat_map f l)) ->
  NoDup (flat_map f (set_nth l i y)).
Proof.
  induction l as [|a l IH]; intros [|i] x y Hnd H Hy Hnew; cbn in *; try discriminate.
  - inversion H; subst a. clear H. revert Hnd Hnew. generalize (flat_map f l) as rest. intros rest Hnd Hnew.
    apply NoDup_app_remove_l in Hnd as Hrest.
    assert (Hdis : forall z, In z (f y) -> ~ In z rest).
    { intros z Hz Hr. destruct (Hnew z Hz) as [Hx|Hn]; [|apply Hn; apply in_or_app; right; exact Hr].
      clear - Hnd Hx Hr. induction (f x) as [|w fx IHf]; [destruct Hx|]. cbn in Hnd. inversion Hnd as [|? ? Hni Hnd']; subst.
      destruct Hx as [->|Hx]; [apply Hni; apply in_or_app; right; exact Hr | auto]. }
    clear Hnew Hnd. induction (f y) as [|w fy IHf]; cbn; [exact Hrest|]. inversion Hy as [|? ? Hni Hy']; subst. constructor.
    + intro Hin. apply in_app_or in Hin as [Hin|Hin]; [auto | apply (Hdis w); [left; reflexivity | exact Hin]].
    + apply IHf; [exact Hy' | intros z Hz; apply Hdis; right; exact Hz].
  - assert (Ha : NoDup (f a)) by (eapply NoDup_app_remove_r; eauto).
    assert (Hl : NoDup (flat_map f l)) by (eapply NoDup_app_remove_l; eauto).
    assert (Hnew' : forall z, In z (f y) -> In z (f x) \/ ~ In z (flat_map f l)).
    { intros z Hz. destruct (Hnew z Hz) as [H1|H1]; [left; exact H1 | right; intro H2; apply H1; apply in_or_app; right; exact H2]. }
    specialize (IH i x y Hl H Hy Hnew').
    (* elements of f a are not in the new tail *)
    assert (Hdis : forall z, In z (f a) -> ~ In z (flat_map f (set_nth l i y))).
    { intros z Hz Hin. destruct (flat_map_set_nth_In f l i x y z H Hin) as [H1|H1].
      - destruct (Hnew z H1) as [H2|H2].
        + (* z in f a and in f x (a component of l): contradicts NoDup *)
          assert (In z (flat_map f l)) by (apply in_flat_map; exists x; split; [eapply nth_error_In; eauto | exact H2]).
          clear - Hnd Hz H0. induction (f a) as [|w fa IHf]; [destruct Hz|]. cbn in Hnd. inversion Hnd as [|? ? Hni Hnd']; subst.
          destruct Hz as [->|Hz]; [apply Hni; apply in_or_app; right; exact H0 | auto].
        + apply H2. apply in_or_app. left. exact Hz.
      - clear - Hnd Hz H1. induction (f a) as [|w fa IHf]; [destruct Hz|]. cbn in Hnd. inversion Hnd as [|? ? Hni Hnd']; subst.
        destruct Hz as [->|Hz]; [apply Hni; apply in_or_app; right; exact H1 | auto]. }
    clear - Ha IH Hdis. induction (f a) as [|w fa IHf]; cbn; [exact IH|]. inversion Ha as [|? ? Hni Ha']; subst. constructor.
    + intro Hin. apply in_app_or in Hin as [Hin|Hin]; [auto | apply (Hdis w); [left; reflexivity | exact Hin]].
    + apply IHf; [exact Ha' | intros z Hz; apply Hdis; right; exact Hz].
Qed.
(* an element occurs in one component only *)
Lemma flat_map_nodup_component {A B} (f : A -> list B) l : NoDup (flat_map f l) -> forall i j x y z,
  nth_error l i = Some x -> nth_error l j = Some y -> In z (f x) -> In z (f y) -> i = j.
Proof.
  induction l as [|a l IH]; intros Hnd i j x y z Hi Hj Hx Hy; [destruct i; discriminate|].
  cbn in Hnd. assert (Hl : NoDup (flat_map f l)) by (eapply NoDup_app_remove_l; eauto).
  assert (Hdis : forall w, In w (f a) -> ~ In w (flat_map f l)).
  { clear - Hnd. intros w Hw Hin. induction (f a) as [|u fa IHf]; [destruct Hw|]. cbn in Hnd. inversion Hnd as [|? ? Hni Hnd']; subst.
    destruct Hw as [->|Hw]; [apply Hni; apply in_or_app; right; exact Hin | auto]. }
  destruct i as [|i], j as [|j]; cbn in *; auto.
  - inversion Hi; subst. exfalso. apply (Hdis z Hx). apply in_flat_map. exists y. split; [eapply nth_error_In; eauto | exact Hy].
  - inversion Hj; subst. exfalso. apply (Hdis z Hy). apply in_flat_map. exists x. split; [eapply nth_error_In; eauto | exact Hx].
  - f_equal. eapply IH; eauto.
Qed.
Lemma flat_map_nodup_each {A B} (f : A -> list B) l : NoDup (flat_map f l) -> forall i x, nth_error l i = Some x -> NoDup (f x).
Proof.
  induction l as [|a l IH]; intros Hnd i x Hi; [destruct i; discriminate|]. cbn in Hnd. destruct i as [|i]; cbn in Hi.
  - inversion Hi; subst. eapply NoDup_app_remove_r; eauto.
  - eapply IH; eauto. eapply NoDup_app_remove_l; eauto.
Qed.

Lemma somes_map_none n : somes (map fst (repeat ((None, None) : slot) n)) = [].
Proof. induction n; cbn; auto. Qed.
Lemma somes_map_promoted l : somes (map fst (map (fun t : Z => ((Some t, None) : slot)) l)) = l.
Proof. induction l; cbn; congruence. Qed.

Lemma slot_valid_inv b sl : slot_valid b sl = true ->
  exists rung ms tid, cur b = Some (rung, ms) /\ s_rung sl = current_rung b /\ (s_index sl < first_free b)%nat /\
    s_level sl = ms /\ nth_error rung (s_index sl) = Some (tid, None) /\ (forall t', tid = Some t' -> s_trial sl = Some t').
Proof.
  unfold slot_valid. destruct (cur b) as [[rung ms]|]; [|discriminate]. intro H.
  apply andb_true_iff in H as [H H4]. apply andb_true_iff in H as [H H3]. apply andb_true_iff in H as [H1 H2].
  destruct (nth_error rung (s_index sl)) as [[tid mv]|] eqn:EN; [|discriminate]. destruct mv; [discriminate|].
  exists rung, ms, tid. repeat split; auto; try lia. intros t' ->. destruct (s_trial sl) as [x|]; cbn in H4; [|discriminate].
  f_equal. lia.
Qed.

Lemma num_pending_pos (rung : list slot) : forall ff j tr, (j < ff)%nat -> nth_error rung j = Some (tr, None) -> num_pending rung ff <> 0%nat.
Proof.
  unfold num_pending. induction rung as [|x rung IH]; intros ff j tr Hj Hn; [destruct j; discriminate|].
  destruct ff as [|ff]; [lia|]. cbn [firstn filter]. destruct j as [|j]; cbn in Hn.
  - inversion Hn; subst. cbn. discriminate.
  - destruct (match snd x with None => true | Some _ => false end); cbn; [discriminate|]. eapply IH; [|eauto]. lia.
Qed.

Lemma write_trials (rung : list slot) : forall idx tid tr m,
  nth_error rung idx = Some (tid, None) -> (forall t', tid = Some t' -> tr = Some t') ->
  let l := somes (map fst rung) in
  let l' := somes (map fst (write_slot rung idx (tr, m))) in
  (forall z, In z l' -> In z l \/ (tid = None /\ tr = Some z)) /\
  (NoDup l -> (forall t, tr = Some t -> tid = None -> ~ In t l) -> NoDup l').
Proof.
  induction rung as [|[a mv] rung IH]; intros [|idx] tid tr m Hn Hc; cbn in Hn; try discriminate.
  - inversion Hn; subst a mv. cbn. destruct tid as [t'|].
    + rewrite (Hc t' eq_refl). cbn. split; [intros z H; left; exact H | auto].
    + destruct tr as [t|]; cbn.
      * split; [intros z [<-|H]; [right; auto | left; exact H]|]. intros Hnd Hnew. constructor; [apply Hnew; auto | exact Hnd].
      * split; [intros z H; left; exact H | auto].
  - destruct (IH idx tid tr m Hn Hc) as [A B]. cbn. destruct a as [t0|]; cbn.
    + split.
      * intros z [<-|H]; [left; left; reflexivity|]. destruct (A z H) as [H1|H1]; [left; right; exact H1 | right; exact H1].
      * intros Hnd Hnew. inversion Hnd as [|? ? Hni Hnd']; subst. constructor.
        -- intro Hin. destruct (A t0 Hin) as [H1|[H1 H2]]; [exact (Hni H1)|]. apply (Hnew t0 H2 H1). left. reflexivity.
        -- apply B; [exact Hnd' | intros t Ht Hti Hin; apply (Hnew t Ht Hti); right; exact Hin].
    + split; [exact A | exact B].
Qed.

Lemma Forall_set_nth {A} (P : A -> Prop) l : forall i y, Forall P l -> P y -> Forall P (set_nth l i y).
Proof.
  induction l as [|a l IH]; intros [|i] y H Hy; cbn; auto; inversion H; subst; constructor; auto.
Qed.
Lemma set_nth_length {A} (l : list A) : forall i y, length (set_nth l i y) = length l.
Proof. induction l as [|a l IH]; intros [|i] y; cbn; auto. Qed.

Lemma advance_spec bs : forall fuel p0, (length bs <= p0 + fuel)%nat -> (p0 < length bs)%nat ->
  let p' := advance_primary bs p0 fuel in
  (p0 <= p' < length bs)%nat /\ (forall bp, nth_error bs p' = Some bp -> is_complete bp = true -> p' = (length bs - 1)%nat).
Proof.
  induction fuel as [|f IH]; intros p0 H1 H2; [lia|]. cbn [advance_primary].
  destruct (nth_error bs p0) as [b0|] eqn:E0; [|apply nth_error_None in E0; lia].
  destruct (is_complete b0 && Nat.ltb p0 (length bs - 1)) eqn:EC.
  - apply andb_true_iff in EC as [_ EC]. apply Nat.ltb_lt in EC. destruct (IH (S p0) ltac:(lia) ltac:(lia)) as [A B].
    split; [lia | exact B].
  - split; [lia|]. intros bp Hbp Hc. rewrite E0 in Hbp. inversion Hbp; subst bp. rewrite Hc in EC. cbn in EC.
    apply Nat.ltb_ge in EC. lia.
Qed.
Lemma advance_le bs j bj : nth_error bs j = Some bj -> is_complete bj = false ->
  forall fuel p0, (p0 <= j)%nat -> (advance_primary bs p0 fuel <= j)%nat.
Proof.
  intros Hj Hc. induction fuel as [|f IH]; intros p0 Hp; cbn [advance_primary]; [exact Hp|].
  destruct (nth_error bs p0) as [b0|] eqn:E0; [|exact Hp].
  destruct (is_complete b0 && Nat.ltb p0 (length bs - 1)) eqn:EC; [|exact Hp].
  apply IH. destruct (Nat.eq_dec p0 j) as [->|Hne]; [|lia]. rewrite Hj in E0. inversion E0; subst b0. rewrite Hc in EC. discriminate.
Qed.


Arguments MOk {A} a.
Arguments MError {A} e.

Section ShellProofs.
Variable promote : list slot -> nat -> list Z.
Variable bracket_rungs : list (list (nat * Z)).
Hypothesis promote_ok : forall rung n, (NoDup (somes (map fst rung)) -> NoDup (promote rung n)) /\
                                       forall t, In t (promote rung n) -> In (Some t) (map fst rung).
Hypothesis rungs_ok : bracket_rungs <> [] /\
  Forall (fun rs => exists size lvl fut, rs = (size, lvl) :: fut /\ (0 < size)%nat) bracket_rungs.

(* what bracket_on_result does for a valid slot *)
Definition written (b : bracket) (rung : list slot) (ms : Z) (idx : nat) (x : slot) (b' : bracket) : Prop :=
  let rung' := write_slot rung idx x in
  let cond := Nat.leb (length rung') (first_free b) && Nat.eqb (num_pending rung' (first_free b)) 0 in
  (cond = false /\ b' = {| rungs_done := rungs_done b; cur := Some (rung', ms); future := future b; first_free := first_free b |}) \/
  (cond = true /\ future b = [] /\
     b' = {| rungs_done := rungs_done b ++ [(rung', ms)]; cur := None; future := []; first_free := 0 |}) \/
  (cond = true /\ exists size lvl fut, future b = (size, lvl) :: fut /\
     b' = {| rungs_done := rungs_done b ++ [(rung', ms)];
             cur := Some (map (fun t => (Some t, None)) (promote rung' size), lvl); future := fut; first_free := 0 |}).

Lemma bor_valid b sl tr mv : slot_valid b (with_trial sl tr None) = true ->
  exists rung ms b', cur b = Some (rung, ms) /\ bracket_on_result promote b (with_trial sl tr (Some mv)) = SOk b' /\
                     written b rung ms (s_index sl) (tr, Some mv) b'.
Proof.
  intro Hv. destruct (slot_valid_inv _ _ Hv) as [rung [ms [tid [Hc [H1 [H2 [H3 [H4 H5]]]]]]]]. cbn in H1, H2, H3, H4, H5.
  exists rung, ms. unfold bracket_on_result, written. rewrite Hc. cbn [with_trial s_rung s_index s_level s_trial s_metric].
  assert (E1 : negb (Nat.eqb (s_rung sl) (current_rung b)) = false) by (rewrite H1, Nat.eqb_refl; reflexivity).
  assert (E2 : negb (Nat.ltb (s_index sl) (first_free b)) = false) by (apply negb_false_iff; apply Nat.ltb_lt; exact H2).
  assert (E3 : negb (s_level sl =? ms) = false) by lia.
  rewrite E1, E2, E3, H4.
  assert (E4 : match tid with Some t' => negb (opt_eqb Z.eqb tr (Some t')) | None => false end = false).
  { destruct tid as [t'|]; [|reflexivity]. rewrite (H5 t' eq_refl). cbn. rewrite Z.eqb_refl. reflexivity. }
  rewrite E4.
  destruct (Nat.leb _ _ && Nat.eqb _ 0) eqn:EC.
  - destruct (future b) as [|[size lvl] fut] eqn:EF; eexists; (split; [reflexivity|]); (split; [reflexivity|]).
    + right. left. auto.
    + right. right. split; [reflexivity|]. exists size, lvl, fut. auto.
  - eexists. split; [reflexivity|]. split; [reflexivity|]. left. auto.
Qed.

Definition bracket_wf (b : bracket) : Prop :=
  match cur b with
  | None => True
  | Some (rung, _) => (first_free b <= length rung)%nat /\
                      forall i tr mv, (first_free b <= i)%nat -> nth_error rung i = Some (tr, mv) -> mv = None
  end.

Definition entry_ok (bs : list bracket) (p : nat) (e : Z * (nat * slot_in_rung)) : Prop :=
  exists b, nth_error bs (fst (snd e)) = Some b /\ slot_valid b (snd (snd e)) = true /\ (p <= fst (snd e))%nat /\
            s_trial (snd (snd e)) = Some (fst e) /\
            (In (fst e) (flat_map cur_trials bs) ->
             exists rung ms, cur b = Some (rung, ms) /\ nth_error rung (s_index (snd (snd e))) = Some (Some (fst e), None)).

Definition loc (e : Z * (nat * slot_in_rung)) : nat * nat := (fst (snd e), s_index (snd (snd e))).

Lemma cur_trials_new rs : cur_trials (new_bracket rs) = [].
Proof. destruct rs as [|[size lvl] fut]; unfold cur_trials; cbn; [reflexivity | apply somes_map_none]. Qed.
Lemma bracket_wf_new rs : bracket_wf (new_bracket rs).
Proof.
  destruct rs as [|[size lvl] fut]; unfold bracket_wf; cbn; [exact I|]. split; [lia|].
  intros i tr mv _ H. apply nth_error_In in H. apply repeat_spec in H. inversion H. reflexivity.
Qed.
Lemma alltrials_create bs : flat_map cur_trials (create_new_bracket bracket_rungs bs) = flat_map cur_trials bs.
Proof. unfold create_new_bracket. rewrite flat_map_app. cbn. rewrite cur_trials_new, app_nil_r. reflexivity. Qed.

(* the written bracket: trials, well-formedness *)
Lemma written_trials b rung ms idx tid tr mv b' :
  cur b = Some (rung, ms) -> nth_error rung idx = Some (tid, None) -> (forall t', tid = Some t' -> tr = Some t') ->
  written b rung ms idx (tr, Some mv) b' ->
  (forall z, In z (cur_trials b') -> In z (cur_trials b) \/ (tid = None /\ tr = Some z)) /\
  (NoDup (cur_trials b) -> (forall t, tr = Some t -> tid = None -> ~ In t (cur_trials b)) -> NoDup (cur_trials b')).
Proof.
  intros Hc Hn Hcons Hw. destruct (write_trials rung idx tid tr (Some mv) Hn Hcons) as [A B].
  assert (Hcb : cur_trials b = somes (map fst rung)) by (unfold cur_trials; rewrite Hc; reflexivity).
  rewrite Hcb. unfold written in Hw.
  destruct Hw as [[_ ->]|[[_ [_ ->]]|[_ [size [lvl [fut [_ ->]]]]]]]; unfold cur_trials; cbn [cur].
  - split; [exact A | exact B].
  - split; [intros z [] | intros; constructor].
  - rewrite somes_map_promoted. destruct (promote_ok (write_slot rung idx (tr, Some mv)) size) as [P1 P2]. split.
    + intros z Hz. apply A. apply In_somes. apply P2. exact Hz.
    + intros Hnd Hnw. apply P1. apply B; assumption.
Qed.

Lemma written_wf b rung ms idx x b' : cur b = Some (rung, ms) -> bracket_wf b -> (idx < first_free b)%nat ->
  written b rung ms idx x b' -> bracket_wf b'.
Proof.
  intros Hc Hwf Hidx Hw. unfold bracket_wf in *. rewrite Hc in Hwf. destruct Hwf as [W1 W2]. unfold written in Hw.
  destruct Hw as [[_ ->]|[[_ [_ ->]]|[_ [size [lvl [fut [_ ->]]]]]]]; cbn [cur first_free].
  - rewrite write_slot_length. split; [exact W1|]. intros i tr mv Hi Hn. rewrite write_slot_nth_other in Hn by lia. eauto.
  - exact I.
  - split; [lia|]. intros i tr mv _ Hn. apply nth_error_In in Hn. apply in_map_iff in Hn as [t [E _]]. inversion E. reflexivity.
Qed.

(* another valid slot of the same bracket, at a different position, stays valid (and the rung cannot complete) *)
Lemma written_other_valid b rung ms idx x b' sl2 : cur b = Some (rung, ms) -> written b rung ms idx x b' ->
  slot_valid b sl2 = true -> s_index sl2 <> idx ->
  slot_valid b' sl2 = true /\ cur b' = Some (write_slot rung idx x, ms).
Proof.
  intros Hc Hw Hv Hne. destruct (slot_valid_inv _ _ Hv) as [rung0 [ms0 [tid [Hc0 [H1 [H2 [H3 [H4 H5]]]]]]]].
  rewrite Hc in Hc0. inversion Hc0; subst rung0 ms0. clear Hc0.
  assert (Hnp : num_pending (write_slot rung idx x) (first_free b) <> 0%nat).
  { apply (num_pending_pos _ _ (s_index sl2) tid); [exact H2 | rewrite write_slot_nth_other by exact Hne; exact H4]. }
  unfold written in Hw.
  assert (Hcond : Nat.leb (length (write_slot rung idx x)) (first_free b) && Nat.eqb (num_pending (write_slot rung idx x) (first_free b)) 0 = false).
  { apply andb_false_iff. right. apply Nat.eqb_neq. exact Hnp. }
  destruct Hw as [[_ ->]|[[E _]|[E _]]]; [|congruence|congruence].
  split; [|cbn [cur]; congruence]. unfold slot_valid in *. cbn [cur first_free]. rewrite Hc in Hv. unfold current_rung in *. cbn [rungs_done].
  rewrite write_slot_nth_other by exact Hne. exact Hv.
Qed.

(* ---- the core: reporting a result for a valid slot ------------------- *)
Lemma result_preserves bs p (P' : list (Z * (nat * slot_in_rung))) bid b sl tr mv bound :
  NoDup (flat_map cur_trials bs) -> Forall (entry_ok bs p) P' -> Forall bracket_wf bs -> (p < length bs)%nat ->
  nth_error bs bid = Some b -> slot_valid b (with_trial sl tr None) = true -> (p <= bid)%nat ->
  (forall e, In e P' -> loc e <> (bid, s_index sl)) ->
  (forall t, tr = Some t -> ~ In t (map fst P') /\ t < bound /\
     (In t (flat_map cur_trials bs) -> exists rung ms, cur b = Some (rung, ms) /\ nth_error rung (s_index sl) = Some (Some t, None))) ->
  (forall t, In t (flat_map cur_trials bs) -> t < bound) ->
  exists m', manager_on_result promote bracket_rungs {| m_brackets := bs; m_primary := p |} bid (with_trial sl tr (Some mv)) = MOk m' /\
    NoDup (flat_map cur_trials (m_brackets m')) /\ Forall (entry_ok (m_brackets m') (m_primary m')) P' /\
    Forall bracket_wf (m_brackets m') /\ (m_primary m' < length (m_brackets m'))%nat /\
    (forall t, In t (flat_map cur_trials (m_brackets m')) -> t < bound).
Proof.
  intros Hnd Hent Hwf Hp Hb Hv Hpb Hloc Htr Hbd.
  assert (Hbid : (bid < length bs)%nat) by (apply nth_error_Some; congruence).
  destruct (bor_valid b sl tr mv Hv) as [rung [ms [b' [Hc [Ebor Hw]]]]].
  destruct (slot_valid_inv _ _ Hv) as [rung0 [ms0 [tid [Hc0 [H1 [H2 [_ [H4 H5]]]]]]]].
  rewrite Hc in Hc0. inversion Hc0; subst rung0 ms0. clear Hc0. cbn [with_trial s_rung s_index s_level s_trial] in H1, H2, H4, H5.
  assert (Hcons : forall t', tid = Some t' -> tr = Some t') by exact H5.
  destruct (written_trials b rung ms (s_index sl) tid tr mv b' Hc H4 Hcons Hw) as [TA TB].
  set (bs1 := set_nth bs bid b').
  assert (Hb1 : nth_error bs1 bid = Some b') by (apply set_nth_same; exact Hbid).
  assert (Hlen1 : length bs1 = length bs) by apply set_nth_length.
  (* trials after the write *)
  assert (Hnew : forall t, tr = Some t -> tid = None -> ~ In t (flat_map cur_trials bs)).
  { intros t Et Etid Hin. destruct (Htr t Et) as [_ [_ H]]. destruct (H Hin) as [rg [m0 [E1 E2]]]. rewrite Hc in E1. inversion E1; subst.
    rewrite H4 in E2. discriminate. }
  assert (Hin_b : forall z, In z (cur_trials b) -> In z (flat_map cur_trials bs)).
  { intros z Hz. apply in_flat_map. exists b. split; [eapply nth_error_In; eauto | exact Hz]. }
  assert (Hnd1 : NoDup (flat_map cur_trials bs1)).
  { apply (flat_map_set_nth_nodup cur_trials bs bid b b' Hnd Hb).
    - apply TB; [eapply flat_map_nodup_each; eauto|]. intros t Et Etid Hin. apply (Hnew t Et Etid). apply Hin_b. exact Hin.
    - intros z Hz. destruct (TA z Hz) as [H|[E1 E2]]; [left; exact H | right; apply Hnew; assumption]. }
  assert (Hsub1 : forall z, In z (flat_map cur_trials bs1) -> In z (flat_map cur_trials bs) \/ tr = Some z).
  { intros z Hz. destruct (flat_map_set_nth_In cur_trials bs bid b b' z Hb Hz) as [H|H]; [|left; exact H].
    destruct (TA z H) as [H0|[_ H0]]; [left; apply Hin_b; exact H0 | right; exact H0]. }
  assert (Hbd1 : forall t, In t (flat_map cur_trials bs1) -> t < bound).
  { intros t Ht. destruct (Hsub1 t Ht) as [H|H]; [apply Hbd; exact H | apply (Htr t H)]. }
  assert (Hwf1 : Forall bracket_wf bs1).
  { apply Forall_set_nth; [exact Hwf|]. eapply written_wf; eauto. rewrite Forall_forall in Hwf. apply Hwf. eapply nth_error_In; eauto. }
  (* every remaining pending entry is fine w.r.t. bs1 *)
  assert (Hent1 : forall e, In e P' -> exists b2, nth_error bs1 (fst (snd e)) = Some b2 /\ slot_valid b2 (snd (snd e)) = true /\
            is_complete b2 = false /\ (p <= fst (snd e))%nat /\ s_trial (snd (snd e)) = Some (fst e) /\
            (In (fst e) (flat_map cur_trials bs1) ->
             exists rg m0, cur b2 = Some (rg, m0) /\ nth_error rg (s_index (snd (snd e))) = Some (Some (fst e), None))).
  { intros e He. rewrite Forall_forall in Hent. destruct (Hent e He) as [b2 [E1 [E2 [E3 [E4 E5]]]]].
    assert (Hne_t : tr <> Some (fst e)).
    { intro Et. destruct (Htr _ Et) as [Hk _]. apply Hk. apply in_map. exact He. }
    assert (E5' : In (fst e) (flat_map cur_trials bs1) -> exists rg m0, cur b2 = Some (rg, m0) /\ nth_error rg (s_index (snd (snd e))) = Some (Some (fst e), None)).
    { intro Hin. destruct (Hsub1 _ Hin) as [H|H]; [auto | congruence]. }
    destruct (Nat.eq_dec (fst (snd e)) bid) as [Eb|Eb].
    - rewrite Eb in *. rewrite Hb in E1. inversion E1; subst b2. clear E1.
      assert (Hidx : s_index (snd (snd e)) <> s_index sl).
      { intro Ei. apply (Hloc e He). unfold loc. rewrite Eb, Ei. reflexivity. }
      destruct (written_other_valid b rung ms (s_index sl) (tr, Some mv) b' (snd (snd e)) Hc Hw E2 Hidx) as [V1 V2].
      exists b'. split; [exact Hb1|]. split; [exact V1|]. split; [unfold is_complete; rewrite V2; reflexivity|].
      split; [exact E3|]. split; [exact E4|]. intro Hin. destruct (E5' Hin) as [rg [m0 [C1 C2]]]. rewrite Hc in C1. inversion C1; subst rg m0.
      exists (write_slot rung (s_index sl) (tr, Some mv)), ms. split; [exact V2|]. rewrite write_slot_nth_other by exact Hidx. exact C2.
    - exists b2. split; [unfold bs1; rewrite set_nth_other by exact Eb; exact E1|]. split; [exact E2|].
      split; [destruct (slot_valid_inv _ _ E2) as [rg [m0 [? [C _]]]]; unfold is_complete; rewrite C; reflexivity|].
      split; [exact E3|]. split; [exact E4 | exact E5']. }
  (* now the manager part *)
  unfold manager_on_result. cbn [m_brackets m_primary].
  assert (EG : negb (Nat.leb p bid && Nat.ltb bid (length bs)) = false).
  { apply negb_false_iff. apply andb_true_iff. split; [apply Nat.leb_le; exact Hpb | apply Nat.ltb_lt; exact Hbid]. }
  rewrite EG, Hb, Ebor. fold bs1.
  (* final packaging for a given final bracket list (bs1 or bs1 + new bracket) and primary *)
  assert (Hpack : forall bsF pF, (bsF = bs1 \/ bsF = create_new_bracket bracket_rungs bs1) ->
            (pF < length bsF)%nat -> (forall e, In e P' -> (pF <= fst (snd e))%nat) ->
            NoDup (flat_map cur_trials bsF) /\ Forall (entry_ok bsF pF) P' /\ Forall bracket_wf bsF /\ (pF < length bsF)%nat /\
            (forall t, In t (flat_map cur_trials bsF) -> t < bound)).
  { intros bsF pF HF HpF Hle.
    assert (Etr : flat_map cur_trials bsF = flat_map cur_trials bs1) by (destruct HF as [->| ->]; [reflexivity | apply alltrials_create]).
    rewrite Etr. split; [exact Hnd1|]. split.
    - apply Forall_forall. intros e He. destruct (Hent1 e He) as [b2 [E1 [E2 [_ [E3 [E4 E5]]]]]]. exists b2.
      split.
      + destruct HF as [->| ->]; [exact E1|]. unfold create_new_bracket. rewrite nth_error_app1; [exact E1 | apply nth_error_Some; congruence].
      + split; [exact E2|]. split; [apply Hle; exact He|]. split; [exact E4|]. rewrite Etr. exact E5.
    - split; [|split; [exact HpF | exact Hbd1]]. destruct HF as [->| ->]; [exact Hwf1|].
      unfold create_new_bracket. apply Forall_app. split; [exact Hwf1 | constructor; [apply bracket_wf_new | constructor]]. }
  destruct (Nat.eqb bid p) eqn:Ebp.
  - apply Nat.eqb_eq in Ebp. subst bid.
    destruct (advance_spec bs1 (length bs1) p ltac:(lia) ltac:(lia)) as [[A1 A2] A3].
    set (p' := advance_primary bs1 p (length bs1)) in *.
    assert (Hle' : forall e, In e P' -> (p' <= fst (snd e))%nat).
    { intros e He. destruct (Hent1 e He) as [b2 [E1 [_ [E3 [E4 _]]]]]. exact (advance_le bs1 _ b2 E1 E3 _ p E4). }
    destruct (nth_error bs1 p') as [bp|] eqn:Ebp'; [|apply nth_error_None in Ebp'; lia].
    destruct (is_complete bp) eqn:Ecp.
    + (* the primary bracket (and all later ones) are complete: a new bracket becomes primary; nothing is pending *)
      eexists. split; [reflexivity|]. cbn [m_brackets m_primary]. apply Hpack; [right; reflexivity | unfold create_new_bracket; rewrite app_length; cbn; lia|].
      intros e He. exfalso. destruct (Hent1 e He) as [b2 [E1 [_ [E3 [E4 _]]]]]. specialize (Hle' e He).
      specialize (A3 bp eq_refl Ecp). assert (Hlt : (fst (snd e) < length bs1)%nat) by (apply nth_error_Some; congruence).
      assert (fst (snd e) = p') by lia. rewrite H in E1. rewrite Ebp' in E1. inversion E1; subst. congruence.
    + eexists. split; [reflexivity|]. cbn [m_brackets m_primary]. apply Hpack; [left; reflexivity | lia | exact Hle'].
  - eexists. split; [reflexivity|]. cbn [m_brackets m_primary]. apply Hpack; [left; reflexivity | lia|].
    intros e He. destruct (Hent1 e He) as [b2 [_ [_ [_ [E4 _]]]]]. exact E4.
Qed.

(* ---- handing out a slot ----------------------------------------------- *)
Lemma next_free_slot_spec b sl b' : next_free_slot b = Some (sl, b') ->
  exists rung ms tid0 mv0, cur b = Some (rung, ms) /\ nth_error rung (first_free b) = Some (tid0, mv0) /\
    sl = {| s_rung := current_rung b; s_level := ms; s_index := first_free b; s_trial := tid0; s_metric := None |} /\
    b' = {| rungs_done := rungs_done b; cur := cur b; future := future b; first_free := S (first_free b) |}.
Proof.
  unfold next_free_slot. destruct (cur b) as [[rung ms]|] eqn:Hc; [|discriminate].
  destruct (nth_error rung (first_free b)) as [[tid0 mv0]|] eqn:En; [|discriminate]. intro H. inversion H; subst.
  exists rung, ms, tid0, mv0. auto.
Qed.

Lemma entry_ok_app bs x p e : entry_ok bs p e -> cur_trials x = [] -> entry_ok (bs ++ [x]) p e.
Proof.
  intros [b [E1 [E2 [E3 [E4 E5]]]]] Hx. exists b. split; [rewrite nth_error_app1; [exact E1 | apply nth_error_Some; congruence]|].
  split; [exact E2|]. split; [exact E3|]. split; [exact E4|]. rewrite flat_map_app. cbn. rewrite Hx, app_nil_r. exact E5.
Qed.

Lemma handout_preserves bs0 p (P : list (Z * (nat * slot_in_rung))) bid b sl b' :
  Forall (entry_ok bs0 p) P -> Forall bracket_wf bs0 -> nth_error bs0 bid = Some b -> next_free_slot b = Some (sl, b') ->
  let bs3 := set_nth bs0 bid b' in
  flat_map cur_trials bs3 = flat_map cur_trials bs0 /\ Forall (entry_ok bs3 p) P /\ Forall bracket_wf bs3 /\
  nth_error bs3 bid = Some b' /\ (forall e, In e P -> loc e <> (bid, s_index sl)) /\
  exists rung ms, cur b' = Some (rung, ms) /\ cur b = Some (rung, ms) /\ s_index sl = first_free b /\
    nth_error rung (s_index sl) = Some (s_trial sl, None) /\
    (forall tr, (forall t', s_trial sl = Some t' -> tr = Some t') -> slot_valid b' (with_trial sl tr None) = true) /\
    (forall e, In e P -> fst (snd e) = bid -> (s_index (snd (snd e)) < s_index sl)%nat).
Proof.
  intros Hent Hwf Hb Hn. cbn zeta. destruct (next_free_slot_spec _ _ _ Hn) as [rung [ms [tid0 [mv0 [Hc [En [-> ->]]]]]]].
  assert (Hbid : (bid < length bs0)%nat) by (apply nth_error_Some; congruence).
  assert (Hwfb : bracket_wf b) by (rewrite Forall_forall in Hwf; apply Hwf; eapply nth_error_In; eauto).
  unfold bracket_wf in Hwfb. rewrite Hc in Hwfb. destruct Hwfb as [W1 W2].
  assert (Hmv : mv0 = None) by (eapply W2; [|exact En]; lia). subst mv0.
  assert (Hff : (first_free b < length rung)%nat) by (apply nth_error_Some; congruence).
  set (b' := {| rungs_done := rungs_done b; cur := cur b; future := future b; first_free := S (first_free b) |}).
  assert (Hidx : forall e, In e P -> fst (snd e) = bid -> (s_index (snd (snd e)) < first_free b)%nat).
  { intros e He Eb. rewrite Forall_forall in Hent. destruct (Hent e He) as [b2 [E1 [E2 _]]]. rewrite Eb, Hb in E1. inversion E1; subst b2.
    destruct (slot_valid_inv _ _ E2) as [? [? [? [_ [_ [H _]]]]]]. exact H. }
  split; [apply (flat_map_set_nth_same cur_trials bs0 bid b b' Hb); unfold cur_trials; reflexivity|].
  split.
  { apply Forall_forall. intros e He. rewrite Forall_forall in Hent. destruct (Hent e He) as [b2 [E1 [E2 [E3 [E4 E5]]]]].
    assert (Etr : flat_map cur_trials (set_nth bs0 bid b') = flat_map cur_trials bs0)
      by (apply (flat_map_set_nth_same cur_trials bs0 bid b b' Hb); unfold cur_trials; reflexivity).
    destruct (Nat.eq_dec (fst (snd e)) bid) as [Eb|Eb].
    - rewrite Eb, Hb in E1. inversion E1; subst b2. exists b'. split; [rewrite Eb; apply set_nth_same; exact Hbid|].
      split.
      + destruct (slot_valid_inv _ _ E2) as [rg [m0 [tid [C1 [C2 [C3 [C4 [C5 C6]]]]]]]]. unfold slot_valid in *. cbn [cur first_free b'].
        rewrite C1 in *. unfold current_rung in *. cbn [rungs_done b'].
        apply andb_true_iff in E2 as [E2 X4]. apply andb_true_iff in E2 as [E2 X3]. apply andb_true_iff in E2 as [X1 X2].
        rewrite X1, X3, X4. assert (X2' : Nat.ltb (s_index (snd (snd e))) (S (first_free b)) = true) by (apply Nat.ltb_lt; lia).
        rewrite X2'. reflexivity.
      + split; [exact E3|]. split; [exact E4|]. rewrite Etr. exact E5.
    - exists b2. split; [rewrite set_nth_other by exact Eb; exact E1|]. split; [exact E2|]. split; [exact E3|]. split; [exact E4|].
      rewrite Etr. exact E5. }
  split.
  { apply Forall_set_nth; [exact Hwf|]. unfold bracket_wf. cbn [cur first_free b']. rewrite Hc. split; [lia|].
    intros i tr mv Hi H. eapply W2; [|exact H]. lia. }
  split; [apply set_nth_same; exact Hbid|].
  split.
  { intros e He El. unfold loc in El. inversion El as [[E1 E2]]. cbn in E2. specialize (Hidx e He E1). lia. }
  exists rung, ms. cbn [cur b' s_index s_trial]. split; [exact Hc|]. split; [exact Hc|]. split; [reflexivity|]. split; [exact En|].
  split.
  - intros tr Hcons. unfold slot_valid. cbn [cur b' first_free with_trial s_rung s_index s_level s_trial]. rewrite Hc.
    unfold current_rung. cbn [rungs_done]. rewrite Nat.eqb_refl, Z.eqb_refl, En.
    assert (X : Nat.ltb (first_free b) (S (first_free b)) = true) by (apply Nat.ltb_lt; lia). rewrite X. cbn [andb].
    destruct tid0 as [t'|]; [|reflexivity]. rewrite (Hcons t' eq_refl). cbn. apply Z.eqb_refl.
  - intros e He Eb. cbn. apply Hidx; assumption.
Qed.

Lemma nth_error_skipn' {A} (l : list A) : forall n i, nth_error (skipn n l) i = nth_error l (n + i).
Proof. induction l as [|a l IH]; intros [|n] i; cbn; auto. destruct i; reflexivity. Qed.

Lemma scan_free_spec l : forall i bid sl b', scan_free l i = Some (bid, sl, b') ->
  exists b, (i <= bid)%nat /\ nth_error l (bid - i) = Some b /\ next_free_slot b = Some (sl, b').
Proof.
  induction l as [|b l IH]; intros i bid sl b' H; cbn in H; [discriminate|].
  destruct (next_free_slot b) as [[sl0 b0]|] eqn:E.
  - inversion H; subst. exists b. rewrite Nat.sub_diag. auto.
  - destruct (IH (S i) bid sl b' H) as [b2 [A [B C]]]. exists b2. split; [lia|]. split; [|exact C].
    replace (bid - i)%nat with (S (bid - S i)) by lia. exact B.
Qed.

Lemma created_has_slot n : exists sl b', next_free_slot (new_bracket (nth (Nat.modulo n (length bracket_rungs)) bracket_rungs [])) = Some (sl, b').
Proof.
  destruct rungs_ok as [Hne Hall]. assert (Hlen : (0 < length bracket_rungs)%nat) by (destruct bracket_rungs; [congruence | cbn; lia]).
  assert (Hin : In (nth (Nat.modulo n (length bracket_rungs)) bracket_rungs []) bracket_rungs).
  { apply nth_In. apply Nat.mod_upper_bound. lia. }
  rewrite Forall_forall in Hall. destruct (Hall _ Hin) as [size [lvl [fut [E Hs]]]]. rewrite E.
  unfold next_free_slot, new_bracket. cbn [cur first_free]. destruct size as [|size]; [lia|]. cbn. eauto.
Qed.

Record SInv (st : shell) (bound : Z) : Prop := {
  si_nodup : NoDup (flat_map cur_trials (m_brackets (sh_mgr st)));
  si_entries : Forall (entry_ok (m_brackets (sh_mgr st)) (m_primary (sh_mgr st))) (sh_pending st);
  si_keys : NoDup (map fst (sh_pending st));
  si_locs : NoDup (map loc (sh_pending st));
  si_bound_tr : forall t, In t (flat_map cur_trials (m_brackets (sh_mgr st))) -> t < bound;
  si_bound_keys : forall t, In t (map fst (sh_pending st)) -> t < bound;
  si_wf : Forall bracket_wf (m_brackets (sh_mgr st));
  si_primary : (m_primary (sh_mgr st) < length (m_brackets (sh_mgr st)))%nat
}.

Lemma NoDup_map_inj {A B} (f : A -> B) l : NoDup (map f l) -> forall a b, In a l -> In b l -> f a = f b -> a = b.
Proof.
  induction l as [|x l IH]; intros Hnd a b Ha Hb E; [destruct Ha|]. cbn in Hnd. inversion Hnd as [|? ? Hni Hnd']; subst.
  destruct Ha as [->|Ha], Hb as [->|Hb]; auto.
  - exfalso. apply Hni. rewrite E. apply in_map. exact Hb.
  - exfalso. apply Hni. rewrite <- E. apply in_map. exact Ha.
Qed.
Lemma lookup_None_notin {A} t (l : list (Z * A)) : lookup t l = None -> ~ In t (map fst l).
Proof.
  induction l as [|[k v] l IH]; cbn; [tauto|]. destruct (k =? t) eqn:E; [discriminate|]. intros H [H1|H1]; [lia | exact (IH H H1)].
Qed.

(* a pending job delivers its result (a metric value or NaN for a failed job) *)
Lemma finish_entry st bound t bid sl mv : SInv st bound -> In (t, (bid, sl)) (sh_pending st) ->
  exists m', manager_on_result promote bracket_rungs (sh_mgr st) bid (with_trial sl (s_trial sl) (Some mv)) = MOk m' /\
    SInv {| sh_mgr := m'; sh_pending := filter (fun e => negb (fst e =? t)) (sh_pending st) |} bound.
Proof.
  intros [I1 I2 I3 I4 I5 I6 I7 I8] Hin. destruct (sh_mgr st) as [bs p] eqn:Em. cbn [m_brackets m_primary] in *.
  set (P' := filter (fun e : Z * (nat * slot_in_rung) => negb (fst e =? t)) (sh_pending st)).
  assert (HP' : forall e, In e P' -> In e (sh_pending st) /\ fst e <> t).
  { intros e He. apply filter_In in He as [A B]. split; [exact A | apply negb_true_iff in B; lia]. }
  rewrite Forall_forall in I2. destruct (I2 _ Hin) as [b [E1 [E2 [E3 [E4 E5]]]]]. cbn [fst snd] in E1, E2, E3, E4, E5.
  destruct (result_preserves bs p P' bid b sl (s_trial sl) mv bound) as [m' [R0 [R1 [R2 [R3 [R4 R5]]]]]]; auto.
  - apply Forall_forall. intros e He. apply I2. apply HP'. exact He.
  - intros e He El. destruct (HP' e He) as [A B]. apply B.
    assert (e = (t, (bid, sl))) by (eapply (NoDup_map_inj loc); eauto). subst e. reflexivity.
  - intros t0 Et. rewrite E4 in Et. inversion Et; subst t0. split; [|split].
    + intro Hk. apply in_map_iff in Hk as [e [Ek He]]. destruct (HP' e He) as [_ B]. congruence.
    + apply I6. apply in_map_iff. exists (t, (bid, sl)). auto.
    + exact E5.
  - exists m'. split; [exact R0|]. constructor; cbn [sh_mgr sh_pending]; auto.
    + apply NoDup_map_filter. exact I3.
    + apply NoDup_map_filter. exact I4.
    + intros t0 Ht0. apply I6. apply in_map_iff in Ht0 as [e [Ek He]]. apply in_map_iff. exists e. split; [exact Ek | apply HP'; exact He].
Qed.

Lemma next_job_ok st bound : SInv st bound ->
  exists m' bid sl b', next_job bracket_rungs (sh_mgr st) = MOk (m', bid, sl) /\ m_primary m' = m_primary (sh_mgr st) /\
    NoDup (flat_map cur_trials (m_brackets m')) /\ (forall t, In t (flat_map cur_trials (m_brackets m')) -> t < bound) /\
    Forall (entry_ok (m_brackets m') (m_primary m')) (sh_pending st) /\ Forall bracket_wf (m_brackets m') /\
    (m_primary m' < length (m_brackets m'))%nat /\ (m_primary m' <= bid)%nat /\
    nth_error (m_brackets m') bid = Some b' /\ (forall e, In e (sh_pending st) -> loc e <> (bid, s_index sl)) /\
    exists rung ms, cur b' = Some (rung, ms) /\ nth_error rung (s_index sl) = Some (s_trial sl, None) /\
      (forall tr, (forall t', s_trial sl = Some t' -> tr = Some t') -> slot_valid b' (with_trial sl tr None) = true) /\
      (forall e, In e (sh_pending st) -> fst (snd e) = bid -> (s_index (snd (snd e)) < s_index sl)%nat).
Proof.
  intros [I1 I2 I3 I4 I5 I6 I7 I8]. destruct (sh_mgr st) as [bs p] eqn:Em. cbn [m_brackets m_primary] in *.
  unfold next_job. cbn [m_brackets m_primary].
  (* common continuation once a bracket with a free slot is known *)
  assert (Hgo : forall bs0 bid b sl b', NoDup (flat_map cur_trials bs0) -> (forall t, In t (flat_map cur_trials bs0) -> t < bound) ->
            Forall (entry_ok bs0 p) (sh_pending st) -> Forall bracket_wf bs0 -> (p < length bs0)%nat -> (p <= bid)%nat ->
            nth_error bs0 bid = Some b -> next_free_slot b = Some (sl, b') ->
            let m' := {| m_brackets := set_nth bs0 bid b'; m_primary := p |} in
            m_primary m' = p /\
            NoDup (flat_map cur_trials (m_brackets m')) /\ (forall t, In t (flat_map cur_trials (m_brackets m')) -> t < bound) /\
            Forall (entry_ok (m_brackets m') (m_primary m')) (sh_pending st) /\ Forall bracket_wf (m_brackets m') /\
            (m_primary m' < length (m_brackets m'))%nat /\ (m_primary m' <= bid)%nat /\
            nth_error (m_brackets m') bid = Some b' /\ (forall e, In e (sh_pending st) -> loc e <> (bid, s_index sl)) /\
            exists rung ms, cur b' = Some (rung, ms) /\ nth_error rung (s_index sl) = Some (s_trial sl, None) /\
              (forall tr, (forall t', s_trial sl = Some t' -> tr = Some t') -> slot_valid b' (with_trial sl tr None) = true) /\
              (forall e, In e (sh_pending st) -> fst (snd e) = bid -> (s_index (snd (snd e)) < s_index sl)%nat)).
  { intros bs0 bid b sl b' N0 B0 E0 W0 P0 Pb Hb Hn. cbn zeta. cbn [m_brackets m_primary].
    destruct (handout_preserves bs0 p (sh_pending st) bid b sl b' E0 W0 Hb Hn) as [H1 [H2 [H3 [H4 [H5 [rung [ms [C1 [_ [_ [C4 [C5 C6]]]]]]]]]]]].
    split; [reflexivity|]. rewrite H1. split; [exact N0|]. split; [exact B0|]. split; [exact H2|]. split; [exact H3|].
    split; [rewrite set_nth_length; exact P0|]. split; [exact Pb|]. split; [exact H4|]. split; [exact H5|].
    exists rung, ms. auto. }
  destruct (scan_free (skipn p bs) p) as [[[bid sl] b']|] eqn:Es.
  - destruct (scan_free_spec _ _ _ _ _ Es) as [b [A [B C]]].
    assert (Hb : nth_error bs bid = Some b).
    { rewrite nth_error_skipn' in B. replace (p + (bid - p))%nat with bid in B by lia. exact B. }
    exists {| m_brackets := set_nth bs bid b'; m_primary := p |}, bid, sl, b'. split; [reflexivity|].
    apply (Hgo bs bid b sl b'); auto.
  - set (bs2 := create_new_bracket bracket_rungs bs). set (bid := length bs).
    assert (Hb : nth_error bs2 bid = Some (new_bracket (nth (Nat.modulo (length bs) (length bracket_rungs)) bracket_rungs []))).
    { unfold bs2, create_new_bracket, bid. rewrite nth_error_app2 by lia. rewrite Nat.sub_diag. reflexivity. }
    rewrite Hb. destruct (created_has_slot (length bs)) as [sl [b' Hn]]. rewrite Hn.
    exists {| m_brackets := set_nth bs2 bid b'; m_primary := p |}, bid, sl, b'. split; [reflexivity|].
    apply (Hgo bs2 bid (new_bracket (nth (Nat.modulo (length bs) (length bracket_rungs)) bracket_rungs [])) sl b'); auto.
    + unfold bs2. rewrite alltrials_create. exact I1.
    + unfold bs2. rewrite alltrials_create. exact I5.
    + unfold bs2, create_new_bracket. apply Forall_forall. intros e He. rewrite Forall_forall in I2.
      apply entry_ok_app; [apply I2; exact He | apply cur_trials_new].
    + unfold bs2, create_new_bracket. apply Forall_app. split; [exact I7 | constructor; [apply bracket_wf_new | constructor]].
    + unfold bs2, create_new_bracket. rewrite app_length. cbn. lia.
    + unfold bid. lia.
Qed.

Lemma NoDup_snoc {A} (l : list A) x : NoDup l -> ~ In x l -> NoDup (l ++ [x]).
Proof.
  induction l as [|a l IH]; cbn; intros Hnd Hni; [constructor; [tauto | constructor]|].
  inversion Hnd as [|? ? Ha Hl]; subst. constructor.
  - intro Hin. apply in_app_or in Hin as [Hin|[->|[]]]; [exact (Ha Hin) | apply Hni; left; reflexivity].
  - apply IH; [exact Hl | intro H; apply Hni; right; exact H].
Qed.

(* a new pending entry for the slot just handed out *)
Lemma add_entry st bound m' bid sl0 b' k bound' :
  SInv st bound -> bound <= bound' -> k < bound' -> ~ In k (map fst (sh_pending st)) ->
  NoDup (flat_map cur_trials (m_brackets m')) -> (forall t, In t (flat_map cur_trials (m_brackets m')) -> t < bound) ->
  Forall (entry_ok (m_brackets m') (m_primary m')) (sh_pending st) -> Forall bracket_wf (m_brackets m') ->
  (m_primary m' < length (m_brackets m'))%nat -> (m_primary m' <= bid)%nat ->
  nth_error (m_brackets m') bid = Some b' -> (forall e, In e (sh_pending st) -> loc e <> (bid, s_index sl0)) ->
  slot_valid b' sl0 = true -> s_trial sl0 = Some k ->
  (In k (flat_map cur_trials (m_brackets m')) ->
     exists rung ms, cur b' = Some (rung, ms) /\ nth_error rung (s_index sl0) = Some (Some k, None)) ->
  SInv {| sh_mgr := m'; sh_pending := sh_pending st ++ [(k, (bid, sl0))] |} bound'.
Proof.
  intros [I1 I2 I3 I4 I5 I6 I7 I8] Hbb Hk Hnk N B E W P Pb Hb Hloc Hv Etr Hcond.
  constructor; cbn [sh_mgr sh_pending]; auto.
  - apply Forall_app. split; [exact E|]. constructor; [|constructor]. exists b'. cbn [fst snd].
    split; [exact Hb|]. split; [exact Hv|]. split; [exact Pb|]. split; [exact Etr | exact Hcond].
  - rewrite map_app. cbn. apply NoDup_snoc; assumption.
  - rewrite map_app. cbn. apply NoDup_snoc; [exact I4|]. intro Hin. apply in_map_iff in Hin as [e [E1 E2]].
    apply (Hloc e E2). rewrite E1. unfold loc. reflexivity.
  - intros t Ht. specialize (B t Ht). lia.
  - intros t Ht. rewrite map_app in Ht. apply in_app_or in Ht as [Ht|[<-|[]]]; [specialize (I6 t Ht); lia | exact Hk].
Qed.

Theorem shell_step_ok st bound e : SInv st bound -> slegal st bound e = true ->
  exists st', shell_step promote bracket_rungs st e = MOk st' /\ SInv st' (next_bound bracket_rungs st bound e).
Proof.
  intros HI Hl. destruct e as [tid ok|t r v|t]; cbn [shell_step next_bound slegal] in *.
  - (* suggest *)
    destruct (next_job_ok st bound HI) as [m' [bid [sl [b' [Ej [Ep [N [B [E [W [P [Pb [Hb [Hloc [rung [ms [C1 [C2 [C3 C4]]]]]]]]]]]]]]]]]]].
    rewrite Ej. destruct (s_trial sl) as [t'|] eqn:Et.
    + (* a paused trial is resumed: it cannot be pending already *)
      assert (Hin_t' : In t' (flat_map cur_trials (m_brackets m'))).
      { apply in_flat_map. exists b'. split; [eapply nth_error_In; eauto|]. unfold cur_trials. rewrite C1. apply In_somes.
        apply nth_error_In in C2. apply (in_map fst) in C2. exact C2. }
      destruct (lookup t' (sh_pending st)) as [[bid2 sl2]|] eqn:ELk.
      * exfalso. apply lookup_In in ELk. rewrite Forall_forall in E. destruct (E _ ELk) as [b2 [E1 [E2 [E3 [E4 E5]]]]].
        cbn [fst snd] in E1, E2, E3, E4, E5. destruct (E5 Hin_t') as [rg [m0 [D1 D2]]].
        assert (bid2 = bid).
        { eapply (flat_map_nodup_component cur_trials (m_brackets m') N bid2 bid b2 b' t'); eauto.
          - unfold cur_trials. rewrite D1. apply In_somes. apply nth_error_In in D2. apply (in_map fst) in D2. exact D2.
          - unfold cur_trials. rewrite C1. apply In_somes. apply nth_error_In in C2. apply (in_map fst) in C2. exact C2. }
        subst bid2. rewrite Hb in E1. inversion E1; subst b2. rewrite C1 in D1. inversion D1; subst rg m0.
        assert (Hnd_r : NoDup (somes (map fst rung))).
        { pose proof (flat_map_nodup_each cur_trials _ N bid b' Hb) as H. unfold cur_trials in H. rewrite C1 in H. exact H. }
        assert (s_index sl2 = s_index sl).
        { assert (X1 : nth_error (map fst rung) (s_index sl2) = Some (Some t')) by (apply (map_nth_error fst _ _ D2)).
          assert (X2 : nth_error (map fst rung) (s_index sl) = Some (Some t')).
          { rewrite (map_nth_error fst _ _ C2). cbn. rewrite ?Et. reflexivity. }
          exact (somes_nth_inj (map fst rung) Hnd_r _ _ t' X1 X2). }
        specialize (C4 _ ELk eq_refl). cbn [fst snd] in C4. lia.
      * eexists. split; [reflexivity|].
        assert (Hv : slot_valid b' sl = true).
        { pose proof (C3 (Some t')) as X. unfold slot_valid in *. cbn [with_trial s_rung s_index s_level s_trial] in X.
          rewrite ?Et. apply X. intros x Hx. congruence. }
        apply (add_entry st bound m' bid sl b' t' bound HI); auto; try lia.
        -- apply lookup_None_notin. exact ELk.
        -- intros _. exists rung, ms. auto.
    + destruct ok.
      * (* a new trial *)
        assert (Hnk : ~ In tid (map fst (sh_pending st))) by (intro H; pose proof (si_bound_keys _ _ HI tid H); lia).
        destruct (lookup tid (sh_pending st)) as [x|] eqn:ELk; [exfalso; destruct x; apply lookup_In in ELk; apply Hnk; apply in_map_iff; eexists; split; [|exact ELk]; reflexivity|].
        eexists. split; [reflexivity|].
        apply (add_entry st bound m' bid (with_trial sl (Some tid) None) b' tid (tid + 1) HI); auto; try lia.
        -- apply C3. intros x Hx. discriminate.
        -- intro Hin. specialize (B tid Hin). lia.
      * (* the searcher has no configuration: the slot is reported as failed *)
        destruct m' as [bs' p']. cbn [m_brackets m_primary] in *.
        assert (Hv0 : slot_valid b' (with_trial sl None None) = true) by (apply C3; intros x Hx; discriminate).
        assert (Htr0 : forall t, @None Z = Some t -> ~ In t (map fst (sh_pending st)) /\ t < bound /\
                   (In t (flat_map cur_trials bs') -> exists rung ms, cur b' = Some (rung, ms) /\ nth_error rung (s_index sl) = Some (Some t, None)))
          by (intros t Ht; discriminate).
        destruct (result_preserves bs' p' (sh_pending st) bid b' sl None MNaN bound N E W P Hb Hv0 Pb Hloc Htr0 B) as [m'' [R0 [R1 [R2 [R3 [R4 R5]]]]]].
        rewrite R0. eexists. split; [reflexivity|]. destruct HI as [I1 I2 I3 I4 I5 I6 I7 I8].
        constructor; cbn [sh_mgr sh_pending]; auto.
        -- intros t Ht. specialize (R5 t Ht). lia.
        -- intros t Ht. specialize (I6 t Ht). lia.
  - (* report *)
    destruct (lookup t (sh_pending st)) as [[bid sl]|] eqn:ELk; [|exists st; auto].
    pose proof (lookup_In _ _ _ ELk) as Hin. pose proof (si_entries _ _ HI) as I2. rewrite Forall_forall in I2.
    destruct (I2 _ Hin) as [b [_ [_ [_ [E4 _]]]]]. cbn [fst snd] in E4. rewrite E4. cbn [opt_eqb]. rewrite Z.eqb_refl. cbn [negb].
    destruct (s_level sl <=? r) eqn:ELv; [|exists st; auto].
    assert (Er : negb (r =? s_level sl) = false) by lia. rewrite Er.
    destruct (finish_entry st bound t bid sl (MVal v) HI Hin) as [m' [R0 R1]]. rewrite E4 in R0. rewrite R0. eauto.
  - (* failure *)
    destruct (lookup t (sh_pending st)) as [[bid sl]|] eqn:ELk; [|exists st; auto].
    pose proof (lookup_In _ _ _ ELk) as Hin.
    destruct (finish_entry st bound t bid sl MNaN HI Hin) as [m' [R0 R1]]. rewrite R0. eauto.
Qed.

Lemma SInv_init : SInv (shell_init bracket_rungs) 0.
Proof.
  unfold shell_init. constructor; cbn [sh_mgr sh_pending m_brackets m_primary].
  - rewrite alltrials_create. constructor.
  - constructor.
  - constructor.
  - constructor.
  - rewrite alltrials_create. intros t [].
  - intros t [].
  - unfold create_new_bracket. cbn. constructor; [apply bracket_wf_new | constructor].
  - unfold create_new_bracket. cbn. lia.
Qed.

Theorem shell_run_ok h : forall st bound, SInv st bound -> slegal_hist promote bracket_rungs st bound h ->
  exists st', shell_run promote bracket_rungs st h = MOk st'.
Proof.
  induction h as [|e h IH]; intros st bound HI HL; cbn [shell_run]; [eauto|].
  cbn [slegal_hist] in HL. destruct HL as [Hl HL]. destruct (shell_step_ok st bound e HI Hl) as [st' [E HI']].
  rewrite E in *. eapply IH; eauto.
Qed.
End ShellProofs.

(* ------------------------------------------------------------------ *)
(* (6) config_for_trial covers every trial the searcher state mentions: *)
(*     the state handed to the surrogate can always be constructed       *)
(* ------------------------------------------------------------------ *)
Lemma step_known cfg st e st' d : wf_config cfg = true -> step cfg st e = Ok (st', d) ->
  forall t, find t (trials st) <> None -> find t (trials st') <> None.
Proof.
  intros WF HS t Ht. destruct (Z.eq_dec t (trial_of e)) as [->|Hne].
  2:{ destruct (step_same_for cfg WF st e st' d t HS) as [_ HF]; [destruct e; exact Hne|]. rewrite HF. exact Ht. }
  assert (Hcore : forall st0 t0 r v cont, trials st0 = trials st -> report_core cfg st0 t0 r v cont = Ok (st', d) ->
            find t0 (trials st) <> None -> find t0 (trials st') <> None).
  { intros st0 t0 r v cont Etr HC Hk. unfold report_core in HC.
    destruct (on_trial_result cfg st0 t0 r v cont) as [[st1 d1]|] eqn:E; cbn [bind] in HC; [|discriminate].
    inversion HC; subst. assert (H1 : find t0 (trials st1) <> None).
    { unfold on_trial_result in E. rewrite Etr in E. destruct (find t0 (trials st)) as [rec|] eqn:EF; [|discriminate].
      destruct (dec rec); try (inversion E; subst; rewrite Etr; congruence).
      destruct (on_task_report cfg rec r cont) as [[rec1 ti]|]; cbn [bind] in E; [|discriminate].
      destruct (ignore_data ti); [inversion E; subst; cbn; rewrite find_upd_same; discriminate|].
      destruct (update_searcher _ _ _ _ _ _) as [[du s1]|]; cbn [bind] in E; [|discriminate].
      destruct (lur_step _ _ _) as [[du2 rec3]|]; cbn [bind] in E; [|discriminate].
      inversion E; subst; cbn; rewrite find_upd_same; discriminate. }
    destruct d1; auto; unfold on_trial_remove; destruct (find t0 (trials st1)) eqn:EF; try congruence; cbn; rewrite find_upd_same; discriminate. }
  destruct e as [t0 b|t0 r v cont|t0 b|t0 r v|t0|t0 r v]; cbn [trial_of step] in *.
  - unfold on_start in HS. destruct (find t0 (trials st)); [discriminate | congruence].
  - eapply Hcore; [|exact HS|exact Ht]. reflexivity.
  - unfold on_resume in HS. destruct (sty cfg); [discriminate|]. destruct (find t0 (trials st)) as [rec|]; [|discriminate].
    destruct (paused_at _ _); [|discriminate]. destruct (negb _); [discriminate|]. destruct (decision_eqb _ _); [discriminate|].
    destruct (register_all _ _ _); cbn [bind] in HS; [|discriminate]. inversion HS; subst. cbn. rewrite find_upd_same. discriminate.
  - unfold on_trial_complete in HS. destruct (find t0 (trials st)) as [rec|]; cbn [bind] in HS; [|discriminate]. inversion HS; subst.
    cbn. rewrite find_upd_same. discriminate.
  - inversion HS; subst. unfold on_trial_error. destruct (find t0 (trials st)) eqn:EF; [|congruence]. cbn. rewrite find_upd_same. discriminate.
  - eapply Hcore; [|exact HS|exact Ht]. reflexivity.
Qed.

Lemma step_failed_subset cfg st e st' d t : step cfg st e = Ok (st', d) -> In t (failed (srch st')) -> In t (failed (srch st)) \/ e = Fail t.
Proof.
  intros HS Hin. destruct e as [t0 b|t0 r v cont|t0 b|t0 r v|t0|t0 r v];
    try (left; rewrite <- (step_failed_eq _ _ _ _ _ HS); [exact Hin | intros; discriminate]).
  cbn [step] in HS. inversion HS; subst. unfold on_trial_error in Hin.
  assert (Hin' : In t (failed (evaluation_failed (srch st) t0))) by (destruct (find t0 (trials st)); exact Hin).
  unfold evaluation_failed, mark_failed in Hin'. cbn [failed cleanup_pending] in Hin'.
  destruct (mem_Z t0 (failed (srch st))); [left; exact Hin'|].
  apply in_app_or in Hin' as [H|[<-|[]]]; [left; exact H | right; reflexivity].
Qed.

Definition FailedKnown (st : state) : Prop := forall t, In t (failed (srch st)) -> find t (trials st) <> None.

Lemma run_failed_known cfg h : wf_config cfg = true -> forall st, FailedKnown st -> legal_hist cfg st h ->
  forall st', run cfg st h = Ok st' -> FailedKnown st'.
Proof.
  intro WF. induction h as [|e h IH]; intros st HK HL st'; cbn [run]; [intro H; inversion H; subst; exact HK|].
  cbn [legal_hist] in HL. destruct HL as [Hl HL]. destruct (step cfg st e) as [[st1 d]|] eqn:E; cbn [bind]; [|discriminate].
  apply IH; [|exact HL]. intros t Ht. destruct (step_failed_subset _ _ _ _ _ _ E Ht) as [H|H].
  - apply (step_known cfg st e st1 d WF E). apply HK. exact H.
  - subst e. apply (step_known cfg st (Fail t) st1 d WF E). cbn [legal_b] in Hl. destruct (find t (trials st)); [discriminate | discriminate].
Qed.

(* config_for_trial (keys = the trials the scheduler has started) covers observed, pending and failed trials *)
Lemma legal_covers cfg h st : wf_config cfg = true -> legal_hist cfg init h -> run cfg init h = Ok st ->
  check_trial_ids (map fst (trials st)) (srch st) = true.
Proof.
  intros WF HL HR. apply check_trial_ids_spec. intros t Ht.
  pose proof (legal_run_inv _ _ _ WF HL HR) as [_ [_ Hall]]. specialize (Hall t).
  assert (HK : FailedKnown st) by (eapply (run_failed_known cfg h WF init); eauto; intros x []).
  destruct (find t (trials st)) as [rec|] eqn:Hf; [eapply find_Some_keys; eauto|]. exfalso.
  destruct Hall as [A [B _]]. unfold state_trials in Ht. apply in_app_or in Ht as [Ht|Ht].
  - apply in_map_iff in Ht as [[[t0 r] c] [E Hin]]. cbn in E. subst t0. exact (A r c Hin).
  - apply in_app_or in Ht as [Ht|Ht].
    + apply in_map_iff in Ht as [[t0 p] [E Hin]]. cbn in E. subst t0. exact (B p Hin).
    + apply (HK t Ht). exact Hf.
Qed.

(* the state the surrogate is fitted to, for every legal history and every down-sampling choice *)
Lemma fitted_data cfg h st choose cap : wf_config cfg = true -> legal_hist cfg init h -> run cfg init h = Ok st -> choose_ok choose ->
  exists s', cap_state choose cap (map fst (trials st)) (srch st) = Some (map fst (trials st), s') /\
    length (obs s') = Nat.min (length (obs (srch st))) cap /\
    pend s' = pend (srch st) /\ failed s' = failed (srch st) /\
    ((length (obs (srch st)) <= cap)%nat -> obs s' = obs (srch st)) /\
    NoDup (map fst (obs s')) /\
    forall t r c, In ((t, r), c) (obs s') ->
      In ((t, r), c) (obs (srch st)) /\ exists v, lookup_rep (t, r) (first_reports h []) = Some v /\ (c == crit cfg v)%Q.
Proof.
  intros WF HL HR Hch. destruct (obs_equal_first_report cfg h st WF HL HR) as [Hnd Hval].
  destruct (cap_state_spec choose cap _ (srch st) Hch (legal_covers cfg h st WF HL HR)) as [s' [E [A [B [C [D [F G]]]]]]].
  exists s'. split; [exact E|]. split; [exact B|]. split; [exact C|]. split; [exact D|]. split; [exact F|]. split; [exact (G Hnd)|].
  intros t r c Hin. split; [apply A; exact Hin | apply Hval; apply A; exact Hin].
Qed.

(* ------------------------------------------------------------------ *)
(* (7) failures the backend has shown to the loop are counted             *)
(* ------------------------------------------------------------------ *)
Lemma set_key_keys {A} t (v : A) l : NoDup (map fst l) -> NoDup (map fst (set_key t v l)) /\
  forall k, In k (map fst (set_key t v l)) <-> k = t \/ In k (map fst l).
Proof.
  induction l as [|[k w] l IH]; cbn; intro H.
  - split; [constructor; [tauto | constructor] | intro k; intuition].
  - inversion H as [|? ? Hni Hnd]; subst. destruct (k =? t) eqn:E; cbn.
    + assert (k = t) by lia. subst. split; [constructor; assumption | intro k; intuition].
    + destruct (IH Hnd) as [X Y]. split.
      * constructor; [rewrite Y; intros [->|Hin]; [lia | tauto] | exact X].
      * intro k0. rewrite Y. intuition.
Qed.
Lemma results_loop_nodup statuses results : forall ps, NoDup (map fst (done ps)) -> NoDup (map fst (done (results_loop statuses results ps))).
Proof.
  induction results as [|[t d] rest IH]; intros ps H; cbn [results_loop]; [exact H|].
  destruct (lookup t (done ps)); [apply IH; exact H|]. apply IH. destruct d; cbn [done]; try exact H; apply set_key_keys; exact H.
Qed.
Lemma head_step_nodup t st ps : NoDup (map fst (done ps)) -> NoDup (map fst (done (head_step t st ps))).
Proof.
  intro H. destruct st; cbn; try exact H; try (apply set_key_keys; exact H).
  destruct (mem_Z t (sched_stopped ps)); cbn; [exact H | apply set_key_keys; exact H].
Qed.
Lemma status_loop_nodup statuses : forall ps, NoDup (map fst (done ps)) -> NoDup (map fst (done (status_loop statuses ps))).
Proof.
  induction statuses as [|[t st] rest IH]; intros ps H; [exact H|]. rewrite status_loop_cons. apply IH. apply head_step_nodup. exact H.
Qed.
Lemma poll_done_nodup p : NoDup (map fst (poll_done p)).
Proof.
  destruct p as [[sts res] ss]. unfold poll_done, update_running_trials. apply status_loop_nodup. apply results_loop_nodup. constructor.
Qed.

Lemma status_loop_lookup_other t statuses : forall ps, ~ In t (map fst statuses) ->
  lookup t (done (status_loop statuses ps)) = lookup t (done ps).
Proof.
  induction statuses as [|[t' st] rest IH]; intros ps H; [reflexivity|]. rewrite status_loop_cons. cbn in H.
  rewrite IH by tauto. apply head_step_other. intro E. apply H. left. congruence.
Qed.
(* a trial the backend shows as failed is recorded as failed for this poll, whatever the scheduler answered
   for its new results in the same batch *)
Lemma poll_failed_recorded statuses results ss t : NoDup (map fst statuses) -> In (t, S_Failed) statuses ->
  lookup t (poll_done (statuses, results, ss)) = Some S_Failed.
Proof.
  unfold poll_done, update_running_trials. generalize (results_loop statuses results {| done := []; sched_stopped := ss; calls := [] |}).
  induction statuses as [|[t' st] rest IH]; intros ps Hnd Hin; [destruct Hin|]. rewrite status_loop_cons.
  cbn in Hnd. inversion Hnd as [|? ? Hni Hnd']; subst. destruct Hin as [E|Hin].
  - inversion E; subst. rewrite (status_loop_lookup_other t rest _ Hni). cbn. apply lookup_set_key_same.
  - apply IH; assumption.
Qed.

Lemma update_dict_nodup new : forall acc, NoDup (map fst acc) -> NoDup (map fst (update_dict acc new)).
Proof. induction new as [|[t s] new IH]; intros acc H; cbn; [exact H|]. apply IH. apply set_key_keys. exact H. Qed.
Lemma accumulate_nodup dones : NoDup (map fst (accumulate dones)).
Proof.
  unfold accumulate. assert (H : NoDup (map fst (@nil (Z * status)))) by constructor. revert H. generalize (@nil (Z * status)).
  induction dones as [|d dones IH]; intros acc H; cbn; [exact H|]. apply IH. apply update_dict_nodup. exact H.
Qed.

Lemma failed_count_lower (F : list Z) ds : NoDup F -> (forall t, In t F -> In (t, S_Failed) ds) -> (length F <= num_failed ds)%nat.
Proof.
  intros HF Hin. unfold num_failed. rewrite <- (map_length (fun t => (t, S_Failed)) F). apply NoDup_incl_length.
  - clear Hin. induction F as [|a F IH]; cbn; [constructor|]. inversion HF; subst. constructor; [|auto].
    intro H. apply in_map_iff in H as [x [E Hx]]. inversion E; subst. tauto.
  - intros x Hx. apply in_map_iff in Hx as [t [<- Ht]]. apply filter_In. split; [apply Hin; exact Ht | reflexivity].
Qed.

(* ground truth: [F] = distinct trials the backend showed as failed in some poll and that do not finish again in a
   later poll (a failed trial that is resumed is the subject of finding F-C13-1) *)
Definition shown_failed_last (polls : list poll_in) (t : Z) : Prop :=
  exists pre sts res ss post, polls = pre ++ (sts, res, ss) :: post /\ NoDup (map fst sts) /\ In (t, S_Failed) sts /\
    forall p, In p post -> ~ In t (map fst (poll_done p)).

Lemma shown_failure_in_dict polls t : shown_failed_last polls t -> In (t, S_Failed) (accumulate (map poll_done polls)).
Proof.
  intros [pre [sts [res [ss [post [-> [Hnd [Hin Hpost]]]]]]]]. rewrite map_app. cbn [map].
  apply (failure_remembered t (map poll_done pre) (poll_done (sts, res, ss)) (map poll_done post)).
  - apply poll_done_nodup.
  - apply lookup_In. apply poll_failed_recorded; assumption.
  - intros d Hd. apply in_map_iff in Hd as [p [<- Hp]]. apply Hpost. exact Hp.
Qed.

Lemma ground_truth_limit polls (F : list Z) mf : NoDup F -> (forall t, In t F -> shown_failed_last polls t) ->
  (length F <= num_failed (accumulate (map poll_done polls)))%nat /\
  ((mf < length F)%nat -> exists t', tuner_end mf polls = Some t' /\ In (t', S_Failed) (accumulate (map poll_done polls))).
Proof.
  intros HF HS. assert (HL : (length F <= num_failed (accumulate (map poll_done polls)))%nat).
  { apply failed_count_lower; [exact HF|]. intros t Ht. apply shown_failure_in_dict. apply HS. exact Ht. }
  split; [exact HL|]. intro Hmf. unfold tuner_end. apply limit_names. lia.
Qed.

(* ------------------------------------------------------------------ *)
(* (8) a failed job frees its slot: the rung completes once every other  *)
(*     job of the rung has reported or failed (no waiting for ever)       *)
(* ------------------------------------------------------------------ *)
Lemma num_pending_zero (rung : list slot) : forall ff, (forall i s, nth_error rung i = Some s -> snd s <> None) -> num_pending rung ff = 0%nat.
Proof.
  unfold num_pending. induction rung as [|x rung IH]; intros ff H; [destruct ff; reflexivity|].
  destruct ff as [|ff]; [reflexivity|]. cbn [firstn filter].
  pose proof (H 0%nat x eq_refl) as Hx. destruct (snd x) eqn:E; [|congruence].
  apply IH. intros i s Hs. apply (H (S i) s Hs).
Qed.

Section RungCompletes.
Variable promote : list slot -> nat -> list Z.
(* the last open slot of a fully handed-out rung receives its result -- a metric value or NaN for a failed job --:
   the rung is complete, the bracket moves on (next rung opened by the promotion rule, or bracket finished) *)
Lemma last_result_completes_rung b sl tr mv rung ms :
  slot_valid b (with_trial sl tr None) = true -> cur b = Some (rung, ms) -> (length rung <= first_free b)%nat ->
  (forall i s, i <> s_index sl -> nth_error rung i = Some s -> snd s <> None) ->
  exists b', bracket_on_result promote b (with_trial sl tr (Some mv)) = SOk b' /\
    rungs_done b' = rungs_done b ++ [(write_slot rung (s_index sl) (tr, Some mv), ms)] /\
    first_free b' = 0%nat /\
    match future b with
    | [] => cur b' = None
    | (size, lvl) :: _ => cur b' = Some (map (fun t => (Some t, None)) (promote (write_slot rung (s_index sl) (tr, Some mv)) size), lvl)
    end.
Proof.
  intros Hv Hc Hlen Hall. destruct (bor_valid promote b sl tr mv Hv) as [rung0 [ms0 [b' [Hc0 [E Hw]]]]].
  rewrite Hc in Hc0. inversion Hc0; subst rung0 ms0. exists b'. split; [exact E|].
  set (rung' := write_slot rung (s_index sl) (tr, Some mv)) in *.
  assert (Hcond : Nat.leb (length rung') (first_free b) && Nat.eqb (num_pending rung' (first_free b)) 0 = true).
  { apply andb_true_iff. split; [apply Nat.leb_le; unfold rung'; rewrite write_slot_length; exact Hlen|].
    apply Nat.eqb_eq. apply num_pending_zero. intros i s Hs. unfold rung' in Hs.
    destruct (Nat.eq_dec i (s_index sl)) as [->|Hne].
    - destruct (slot_valid_inv _ _ Hv) as [rg [m0 [tid [C1 [_ [_ [_ [C5 _]]]]]]]]. rewrite Hc in C1. inversion C1; subst.
      cbn [with_trial s_index] in C5. rewrite write_slot_nth_same in Hs by (apply nth_error_Some; congruence). inversion Hs. cbn. discriminate.
    - rewrite write_slot_nth_other in Hs by exact Hne. eapply Hall; eauto. }
  unfold written in Hw. fold rung' in Hw. destruct Hw as [[Ef _]|[[_ [Ef ->]]|[_ [size [lvl [fut [Ef ->]]]]]]]; [congruence | |];
    cbn [rungs_done first_free cur]; rewrite Ef; auto.
Qed.
End RungCompletes.
