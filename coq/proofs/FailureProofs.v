(* FailureProofs.v — lemmas about model/Failure.v and the failure paths of model/SearcherData.v (C13). *)
From Coq Require Import ZArith List Bool Lia ZifyBool QArith.
From Verif Require Import model.Base model.SearcherData model.Failure proofs.SearcherDataProofs.
Import ListNotations.
Open Scope Z_scope.

(* ------------------------------------------------------------------ *)
(* (1) tuner dispatch: exactly one on_trial_error per badly ended run   *)
(* ------------------------------------------------------------------ *)
Definition is_error (t : Z) (c : call) : bool := match c with CError t' => t' =? t | _ => false end.
Lemma count_error_app t l c : count_error t (l ++ [c]) = (count_error t l + (if is_error t c then 1 else 0))%nat.
Proof.
  unfold count_error. fold (is_error t). rewrite filter_app, app_length. cbn. destruct (is_error t c); reflexivity.
Qed.

Lemma results_loop_no_error t statuses results : forall ps,
  count_error t (calls (results_loop statuses results ps)) = count_error t (calls ps).
Proof.
  induction results as [|[t' d] rest IH]; intro ps; cbn [results_loop]; [reflexivity|].
  destruct (lookup t' (done ps)); [apply IH|]. rewrite IH. destruct d; cbn [calls]; rewrite ?count_error_app; cbn; lia.
Qed.

Lemma status_loop_stopped statuses : forall ps, sched_stopped (status_loop statuses ps) = sched_stopped ps.
Proof.
  induction statuses as [|[t st] rest IH]; intro ps; cbn [status_loop]; [reflexivity|]. rewrite IH.
  destruct st; try reflexivity. destruct (mem_Z t (sched_stopped ps)); reflexivity.
Qed.

Lemma lookup_notin {A} t (l : list (Z * A)) : ~ In t (map fst l) -> lookup t l = None.
Proof.
  induction l as [|[k v] l IH]; cbn; [reflexivity|]. intro H. destruct (k =? t) eqn:E; [exfalso; apply H; left; lia|].
  apply IH. intro Hin. apply H. right. exact Hin.
Qed.

Lemma lookup_set_key_same {A} t (v : A) l : lookup t (set_key t v l) = Some v.
Proof. induction l as [|[k w] l IH]; cbn; [rewrite Z.eqb_refl; reflexivity|]. destruct (k =? t) eqn:E; cbn; rewrite E; auto. Qed.
Lemma lookup_set_key_other {A} t t' (v : A) l : t' <> t -> lookup t' (set_key t v l) = lookup t' l.
Proof.
  intro Hne. induction l as [|[k w] l IH]; cbn; [destruct (t =? t') eqn:E; [lia | reflexivity]|].
  destruct (k =? t) eqn:E; cbn; destruct (k =? t') eqn:E2; auto; lia.
Qed.
(* processing the entry of another trial changes neither the scheduler-stopped set nor what is known about t *)
Definition head_step (t' : Z) (st : status) (ps : poll_state) : poll_state :=
  match st with
  | S_Completed =>
      {| done := set_key t' match lookup t' (done ps) with Some S_Paused => S_Paused | _ => S_Completed end (done ps);
         sched_stopped := sched_stopped ps;
         calls := match lookup t' (done ps) with None => calls ps ++ [CComplete t'] | Some _ => calls ps end |}
  | S_Failed =>
      {| done := set_key t' S_Failed (done ps); sched_stopped := sched_stopped ps;
         calls := match lookup t' (done ps) with None => calls ps ++ [CError t'] | Some _ => calls ps end |}
  | S_Stopped =>
      if mem_Z t' (sched_stopped ps) then ps
      else {| done := set_key t' S_Stopped (done ps); sched_stopped := sched_stopped ps; calls := calls ps ++ [CError t'] |}
  | _ => ps
  end.
Lemma status_loop_cons t' st rest ps : status_loop ((t', st) :: rest) ps = status_loop rest (head_step t' st ps).
Proof. destruct st; reflexivity. Qed.
Lemma head_step_stopped t' st ps : sched_stopped (head_step t' st ps) = sched_stopped ps.
Proof. destruct st; try reflexivity. cbn. destruct (mem_Z t' (sched_stopped ps)); reflexivity. Qed.
Lemma head_step_other t t' st ps : t <> t' -> lookup t (done (head_step t' st ps)) = lookup t (done ps).
Proof.
  intro Hne. destruct st; cbn; rewrite ?lookup_set_key_other; auto.
  destruct (mem_Z t' (sched_stopped ps)); cbn; rewrite ?lookup_set_key_other; auto.
Qed.
Lemma head_step_count_other t t' st ps : t <> t' -> count_error t (calls (head_step t' st ps)) = count_error t (calls ps).
Proof.
  intro Hne. assert (E : (t' =? t) = false) by lia.
  destruct st; cbn [head_step calls]; try reflexivity.
  - destruct (lookup t' (done ps)); cbn [calls]; rewrite ?count_error_app; cbn [is_error]; lia.
  - destruct (lookup t' (done ps)); cbn [calls]; rewrite ?count_error_app; cbn [is_error]; rewrite ?E; lia.
  - destruct (mem_Z t' (sched_stopped ps)); cbn [calls]; rewrite ?count_error_app; cbn [is_error]; rewrite ?E; lia.
Qed.
Lemma ended_badly_ext statuses ps ps' t : sched_stopped ps' = sched_stopped ps -> lookup t (done ps') = lookup t (done ps) ->
  ended_badly statuses ps' t = ended_badly statuses ps t.
Proof. intros H1 H2. unfold ended_badly, decided. rewrite H1, H2. reflexivity. Qed.

Lemma status_loop_count t statuses : forall ps, NoDup (map fst statuses) ->
  count_error t (calls (status_loop statuses ps)) =
  (count_error t (calls ps) + (if ended_badly statuses ps t then 1 else 0))%nat.
Proof.
  induction statuses as [|[t' st] rest IH]; intros ps Hnd.
  - cbn. lia.
  - rewrite status_loop_cons. cbn in Hnd. inversion Hnd as [|? ? Hni Hnd']; subst. rewrite (IH _ Hnd').
    destruct (Z.eq_dec t t') as [<-|Hne].
    + (* the entry of t itself; t does not occur in the rest *)
      assert (Hrest : ended_badly rest (head_step t st ps) t = false).
      { unfold ended_badly. rewrite (lookup_notin t rest Hni). reflexivity. }
      rewrite Hrest. unfold ended_badly, decided. cbn [lookup]. rewrite Z.eqb_refl.
      destruct st; cbn [head_step calls negb]; try lia.
      * destruct (lookup t (done ps)); cbn [calls]; rewrite ?count_error_app; cbn [is_error]; lia.
      * destruct (lookup t (done ps)); cbn [calls negb]; rewrite ?count_error_app; cbn [is_error]; rewrite ?Z.eqb_refl; lia.
      * destruct (mem_Z t (sched_stopped ps)); cbn [calls negb]; rewrite ?count_error_app; cbn [is_error]; rewrite ?Z.eqb_refl; lia.
    + rewrite (head_step_count_other t t' st ps Hne).
      rewrite (ended_badly_ext rest ps (head_step t' st ps) t (head_step_stopped _ _ _) (head_step_other t t' st ps Hne)).
      unfold ended_badly at 2. cbn [lookup]. assert (E : (t' =? t) = false) by lia. rewrite E. reflexivity.
Qed.

Lemma notified_once statuses results ss t : NoDup (map fst statuses) ->
  count_error t (calls (update_running_trials statuses results ss)) =
  if ended_badly statuses (results_loop statuses results {| done := []; sched_stopped := ss; calls := [] |}) t
  then 1%nat else 0%nat.
Proof.
  intro Hnd. unfold update_running_trials. rewrite (status_loop_count t statuses _ Hnd), results_loop_no_error. cbn. reflexivity.
Qed.

(* a trial whose run ended badly is in done_trials afterwards (it leaves the running set) *)
Lemma status_loop_done_mono t statuses : forall ps, lookup t (done ps) <> None -> lookup t (done (status_loop statuses ps)) <> None.
Proof.
  induction statuses as [|[t' st] rest IH]; intros ps H; [exact H|]. rewrite status_loop_cons. apply IH.
  destruct (Z.eq_dec t t') as [<-|Hne]; [|rewrite head_step_other; auto].
  destruct st; cbn; rewrite ?lookup_set_key_same; try exact H; try discriminate.
  destruct (mem_Z t (sched_stopped ps)); cbn; rewrite ?lookup_set_key_same; [exact H | discriminate].
Qed.
Lemma status_loop_done t statuses : forall ps, NoDup (map fst statuses) ->
  ended_badly statuses ps t = true -> lookup t (done (status_loop statuses ps)) <> None.
Proof.
  induction statuses as [|[t' st] rest IH]; intros ps Hnd H; [discriminate|]. rewrite status_loop_cons.
  cbn in Hnd. inversion Hnd as [|? ? Hni Hnd']; subst.
  destruct (Z.eq_dec t t') as [<-|Hne].
  - apply status_loop_done_mono. unfold ended_badly in H. cbn [lookup] in H. rewrite Z.eqb_refl in H.
    destruct st; try discriminate; cbn.
    + rewrite lookup_set_key_same. discriminate.
    + apply negb_true_iff in H. rewrite H. cbn. rewrite lookup_set_key_same. discriminate.
  - apply (IH _ Hnd'). rewrite (ended_badly_ext rest ps (head_step t' st ps) t (head_step_stopped _ _ _) (head_step_other t t' st ps Hne)).
    unfold ended_badly in H. cbn [lookup] in H. assert (E : (t' =? t) = false) by lia. rewrite E in H. exact H.
Qed.

(* failure limit: more than max_failures failed trials => the run ends with an error naming a failed trial *)
Lemma handle_failure_names ds : (0 < num_failed ds)%nat -> exists t, handle_failure ds = Some t /\ lookup t ds <> None /\ In (t, S_Failed) ds.
Proof.
  induction ds as [|[t st] ds IH]; cbn; [lia|]. unfold num_failed. cbn [filter snd].
  destruct (status_eqb st S_Failed) eqn:E.
  - intros _. exists t. split; [reflexivity|]. rewrite Z.eqb_refl. split; [discriminate|]. left. destruct st; try discriminate. reflexivity.
  - intro H. destruct (IH H) as [t' [A [B C]]]. exists t'. split; [exact A|]. split; [|right; exact C].
    destruct (t =? t'); [discriminate | exact B].
Qed.
Lemma limit_names max_failures ds : (max_failures < num_failed ds)%nat ->
  exists t, run_end max_failures ds = Some t /\ In (t, S_Failed) ds.
Proof.
  intro H. unfold run_end. assert (E : Nat.ltb max_failures (num_failed ds) = true) by (apply Nat.ltb_lt; exact H).
  rewrite E. destruct (handle_failure_names ds) as [t [A [_ C]]]; [lia | eauto].
Qed.
Lemma limit_not_reached max_failures ds : (num_failed ds <= max_failures)%nat -> run_end max_failures ds = None.
Proof. intro H. unfold run_end. assert (E : Nat.ltb max_failures (num_failed ds) = false) by (apply Nat.ltb_ge; exact H). rewrite E. reflexivity. Qed.

(* ------------------------------------------------------------------ *)
(* (3) asynchronous Hyperband + GP searcher: frame of on_trial_error     *)
(* ------------------------------------------------------------------ *)
Definition cfg0 : config := {| rung_levels := []; max_t := 1; pol := Rungs; myopic := false; sty := SearcherData.Stopping; maximize := false |}.
Lemma async_frame st t t' : t' <> t ->
  let st' := on_trial_error st t in
  find t' (trials st') = find t' (trials st) /\
  (forall r c, In ((t', r), c) (obs (srch st')) <-> In ((t', r), c) (obs (srch st))) /\
  (forall p, In (t', p) (pend (srch st')) <-> In (t', p) (pend (srch st))).
Proof.
  intro Hne. cbn zeta.
  destruct (step_same_for cfg0 eq_refl st (Fail t) (on_trial_error st t) None t' eq_refl Hne) as [[A [B _]] C].
  auto.
Qed.
Lemma async_own st t :
  let st' := on_trial_error st t in
  (forall p, ~ In (t, p) (pend (srch st'))) /\ In t (failed (srch st')) /\ obs (srch st') = obs (srch st) /\
  (forall rec, find t (trials st) = Some rec -> exists rec', find t (trials st') = Some rec' /\ dec rec' = STOP /\ in_rungs rec' = in_rungs rec).
Proof.
  cbn zeta. split; [apply error_clears|].
  assert (HF : In t (failed (evaluation_failed (srch st) t))).
  { unfold evaluation_failed, mark_failed. cbn [failed cleanup_pending]. destruct (mem_Z t (failed (srch st))) eqn:E.
    - apply mem_Z_In. exact E.
    - apply in_or_app. right. left. reflexivity. }
  unfold on_trial_error. destruct (find t (trials st)) as [rec|] eqn:Hf; cbn [srch trials]; (split; [exact HF|]); (split; [reflexivity|]).
  - intros rec0 E. inversion E; subst. eexists. split; [apply find_upd_same|]. split; reflexivity.
  - intros rec0 E. discriminate.
Qed.

(* the failed list only grows: a failed trial's configuration stays in the exclusion list *)
Lemma register_all_failed t rs : forall s s', register_all s t rs = Ok s' -> failed s' = failed s.
Proof.
  induction rs as [|r rs IH]; intros s s'; cbn; [intro H; inversion H; reflexivity|].
  destruct (register_pending s t r) as [s1|] eqn:E; cbn; [|discriminate]. intro H. rewrite (IH _ _ H).
  unfold register_pending, append_pending in E. destruct (is_pending s t r); [inversion E; reflexivity|].
  destruct (is_labeled s t r); [discriminate|]. inversion E. reflexivity.
Qed.
Lemma step_failed_mono cfg st e st' d t : step cfg st e = Ok (st', d) -> In t (failed (srch st)) -> In t (failed (srch st')).
Proof.
  destruct e as [t0 b|t0 r v cont|t0 b|t0 r v|t0]; cbn [step].
  - unfold on_start. destruct (find t0 (trials st)); [discriminate|]. destruct (register_all _ _ _) as [s1|] eqn:E; cbn [bind]; [|discriminate].
    intro H. inversion H; subst. cbn. rewrite (register_all_failed _ _ _ _ E). auto.
  - set (st0 := {| srch := srch st; trials := trials st; reps := _ |}).
    destruct (on_trial_result cfg st0 t0 r v cont) as [[st1 d1]|] eqn:E; cbn [bind]; [|discriminate].
    intros H Hin. inversion H; subst. assert (H1 : In t (failed (srch st1))).
    { unfold on_trial_result in E. destruct (find t0 (trials st0)) as [rec|]; [|discriminate].
      destruct (dec rec); try (inversion E; subst; exact Hin).
      destruct (on_task_report cfg rec r cont) as [[rec1 ti]|]; cbn [bind] in E; [|discriminate].
      destruct (ignore_data ti); [inversion E; subst; exact Hin|].
      destruct (update_searcher _ _ _ _ _ _) as [[du s1]|] eqn:EU; cbn [bind] in E; [|discriminate].
      destruct (lur_step _ _ _) as [[du2 rec3]|]; cbn [bind] in E; [|discriminate]. inversion E; subst. cbn [srch].
      assert (Hs1 : failed s1 = failed (srch st)).
      { unfold update_searcher in EU. cbn [srch st0] in EU.
        destruct (if fst (us_plan cfg r ti) then us_internal cfg (srch st) rec1 t0 else Ok (srch st)) as [sa|] eqn:EA; cbn [bind] in EU; [|discriminate].
        destruct (register_all sa t0 _) as [sb|] eqn:EB; cbn [bind] in EU; [|discriminate]. inversion EU; subst.
        rewrite (register_all_failed _ _ _ _ EB). destruct (fst (us_plan cfg r ti)); [|inversion EA; reflexivity].
        unfold us_internal in EA. destruct (pol cfg); try (inversion EA; reflexivity).
        destruct (reported rec1) as [[? ?]|]; [|inversion EA; reflexivity]. destruct (negb _); [|inversion EA; reflexivity].
        unfold remove_case in EA. destruct (is_labeled _ _ _); [inversion EA; reflexivity | discriminate]. }
      destruct du2; cbn [label failed]; rewrite Hs1; exact Hin. }
    destruct d1; auto; unfold on_trial_remove; destruct (find t0 (trials st1)); auto.
  - unfold on_resume. destruct (sty cfg); [discriminate|]. destruct (find t0 (trials st)); [|discriminate].
    destruct (paused_at _ _); [|discriminate]. destruct (negb _); [discriminate|]. destruct (decision_eqb _ _); [discriminate|].
    destruct (register_all _ _ _) as [s1|] eqn:E; cbn [bind]; [|discriminate].
    intro H. inversion H; subst. cbn. rewrite (register_all_failed _ _ _ _ E). auto.
  - unfold on_trial_complete. destruct (find t0 (trials st)) as [rec|]; cbn [bind]; [|discriminate]. intro H. inversion H; subst.
    cbn. destruct (lur rec) as [l|]; auto. destruct (l <? r); auto.
  - intro H. inversion H; subst. intro Hin. unfold on_trial_error.
    assert (In t (failed (evaluation_failed (srch st) t0))).
    { unfold evaluation_failed, mark_failed. cbn. destruct (mem_Z t0 (failed (srch st))); [exact Hin | apply in_or_app; left; exact Hin]. }
    destruct (find t0 (trials st)); exact H0.
Qed.
Lemma run_failed_mono cfg h : forall st st' t, run cfg st h = Ok st' -> In t (failed (srch st)) -> In t (failed (srch st')).
Proof.
  induction h as [|e h IH]; intros st st' t; cbn [run]; [intro H; inversion H; subst; auto|].
  destruct (step cfg st e) as [[st1 d]|] eqn:E; cbn [bind]; [|discriminate]. intros H Hin. eapply IH; eauto. eapply step_failed_mono; eauto.
Qed.

(* ------------------------------------------------------------------ *)
(* (2) synchronous bracket                                              *)
(* ------------------------------------------------------------------ *)
Lemma write_slot_nth_same l : forall pos x, (pos < length l)%nat -> nth_error (write_slot l pos x) pos = Some x.
Proof. induction l as [|y l IH]; intros [|pos] x H; cbn in *; try lia; [reflexivity | apply IH; lia]. Qed.
Lemma write_slot_nth_other l : forall pos x j, j <> pos -> nth_error (write_slot l pos x) j = nth_error l j.
Proof.
  induction l as [|y l IH]; intros [|pos] x [|j] H; cbn; try reflexivity; try congruence. apply IH. congruence.
Qed.
Lemma write_slot_length l : forall pos x, length (write_slot l pos x) = length l.
Proof. induction l as [|y l IH]; intros [|pos] x; cbn; auto. Qed.
Lemma set_nth_same {A} (l : list A) : forall i x, (i < length l)%nat -> nth_error (set_nth l i x) i = Some x.
Proof. induction l as [|y l IH]; intros [|i] x H; cbn in *; try lia; [reflexivity | apply IH; lia]. Qed.
Lemma set_nth_other {A} (l : list A) : forall i x j, j <> i -> nth_error (set_nth l i x) j = nth_error l j.
Proof. induction l as [|y l IH]; intros [|i] x [|j] H; cbn; try reflexivity; try congruence. apply IH. congruence. Qed.
Lemma lookup_filter_other {A} t t' (l : list (Z * A)) : t' <> t ->
  lookup t' (filter (fun e => negb (fst e =? t)) l) = lookup t' l.
Proof.
  intro Hne. induction l as [|[k v] l IH]; cbn; [reflexivity|]. destruct (k =? t) eqn:E; cbn.
  - destruct (k =? t') eqn:E2; [lia | exact IH].
  - destruct (k =? t'); [reflexivity | exact IH].
Qed.
Lemma lookup_filter_same {A} t (l : list (Z * A)) : lookup t (filter (fun e => negb (fst e =? t)) l) = None.
Proof.
  induction l as [|[k v] l IH]; cbn; [reflexivity|]. destruct (k =? t) eqn:E; cbn; [exact IH | rewrite E; exact IH].
Qed.

Section BracketProofs.
Variable promote : list slot -> nat -> list Z.

Lemma bracket_on_result_rung b r b' rung ms m :
  bracket_on_result promote b r = SOk b' -> cur b = Some (rung, ms) -> s_metric r = Some m ->
  rung_at b' (s_rung r) = Some (write_slot rung (s_index r) (s_trial r, Some m)) /\ (s_index r < length rung)%nat.
Proof.
  unfold bracket_on_result. intros H Hc Hm. rewrite Hc, Hm in H.
  destruct (negb (Nat.eqb (s_rung r) (current_rung b))) eqn:E1; [discriminate|].
  destruct (negb (Nat.ltb (s_index r) (first_free b))); [discriminate|]. destruct (negb (s_level r =? ms)); [discriminate|].
  destruct (nth_error rung (s_index r)) as [[tid mv]|] eqn:EN; [|discriminate].
  assert (HL : (s_index r < length rung)%nat) by (apply nth_error_Some; congruence). split; [|exact HL].
  destruct (match tid with Some t' => _ | None => false end); [discriminate|]. destruct mv; [discriminate|].
  apply negb_false_iff, Nat.eqb_eq in E1. unfold current_rung in E1. unfold rung_at. rewrite E1.
  set (rung' := write_slot rung (s_index r) (s_trial r, Some m)) in *.
  destruct (Nat.leb (length rung') (first_free b) && Nat.eqb (num_pending rung' (first_free b)) 0).
  - destruct (future b) as [|[size lvl] fut]; inversion H; subst; cbn [rungs_done];
      rewrite nth_error_app2, Nat.sub_diag by lia; reflexivity.
  - inversion H; subst. cbn [rungs_done cur].
    assert (EN2 : nth_error (rungs_done b) (length (rungs_done b)) = None) by (apply nth_error_None; lia).
    rewrite EN2, Nat.eqb_refl. reflexivity.
Qed.

Lemma bracket_on_result_total b sl m : slot_valid b sl = true ->
  exists b', bracket_on_result promote b {| s_rung := s_rung sl; s_level := s_level sl; s_index := s_index sl;
                                           s_trial := s_trial sl; s_metric := Some m |} = SOk b'.
Proof.
  unfold slot_valid, bracket_on_result. destruct (cur b) as [[rung ms]|]; [|discriminate]. cbn [s_rung s_level s_index s_trial s_metric].
  intro H. apply andb_true_iff in H as [H H4]. apply andb_true_iff in H as [H H3]. apply andb_true_iff in H as [H1 H2].
  rewrite H1, H2, H3. cbn [negb]. destruct (nth_error rung (s_index sl)) as [[tid mv]|]; [|discriminate].
  destruct mv; [discriminate|]. destruct tid as [t'|].
  - rewrite H4. cbn [negb]. destruct (_ && _); [destruct (future b) as [|[? ?] ?]|]; eauto.
  - destruct (_ && _); [destruct (future b) as [|[? ?] ?]|]; eauto.
Qed.

Lemma sync_error_frame st t st' bid sl b rung ms :
  sync_on_trial_error promote st t = SOk st' -> lookup t (pending_slot st) = Some (bid, sl) ->
  nth_error (brackets st) bid = Some b -> cur b = Some (rung, ms) ->
  (forall bid', bid' <> bid -> nth_error (brackets st') bid' = nth_error (brackets st) bid') /\
  (exists b', nth_error (brackets st') bid = Some b' /\
              rung_at b' (s_rung sl) = Some (write_slot rung (s_index sl) (s_trial sl, Some MNaN)) /\
              (s_index sl < length rung)%nat) /\
  (forall t', t' <> t -> lookup t' (pending_slot st') = lookup t' (pending_slot st)) /\
  lookup t (pending_slot st') = None.
Proof.
  unfold sync_on_trial_error. intros H Hl Hb Hc. rewrite Hl, Hb in H.
  destruct (bracket_on_result promote b _) as [b'|] eqn:E; [|discriminate]. inversion H; subst. cbn [brackets pending_slot].
  split; [intros bid' Hne; apply set_nth_other; exact Hne|].
  split.
  - exists b'. split; [apply set_nth_same; apply nth_error_Some; congruence|].
    destruct (bracket_on_result_rung _ _ _ _ _ MNaN E Hc eq_refl) as [A B]. cbn in A, B. auto.
  - split; [intros t' Hne; apply lookup_filter_other; exact Hne | apply lookup_filter_same].
Qed.

Lemma sync_error_total st t bid sl b : lookup t (pending_slot st) = Some (bid, sl) ->
  nth_error (brackets st) bid = Some b -> slot_valid b sl = true -> exists st', sync_on_trial_error promote st t = SOk st'.
Proof.
  intros Hl Hb Hv. unfold sync_on_trial_error. rewrite Hl, Hb.
  destruct (bracket_on_result_total b sl MNaN Hv) as [b' E]. rewrite E. eauto.
Qed.
Lemma sync_error_unknown st t : lookup t (pending_slot st) = None -> sync_on_trial_error promote st t = SOk st.
Proof. intro H. unfold sync_on_trial_error. rewrite H. reflexivity. Qed.
End BracketProofs.

(* ------------------------------------------------------------------ *)
(* (4) a failed trial is never resumed (asynchronous promotion)          *)
(* ------------------------------------------------------------------ *)
(* the failure is signalled for a trial that is running (the usual case: status failed of a
   trial for which the scheduler's last answer was CONTINUE) *)
Definition fail_running (st : state) (e : event) : bool :=
  match e with
  | Fail t => match find t (trials st) with Some rec => decision_eqb (dec rec) CONTINUE | None => false end
  | _ => true
  end.
Fixpoint legal_hist_fr (cfg : config) (st : state) (h : list event) : Prop :=
  match h with
  | [] => True
  | e :: h' => legal_b cfg st e = true /\ fail_running st e = true /\
               match step cfg st e with Ok (st', _) => legal_hist_fr cfg st' h' | Error _ => True end
  end.
Lemma legal_hist_fr_legal cfg h : forall st, legal_hist_fr cfg st h -> legal_hist cfg st h.
Proof.
  induction h as [|e h IH]; intros st H; cbn in *; [exact I|]. destruct H as [A [_ C]]. split; [exact A|].
  destruct (step cfg st e) as [[st' d]|]; [apply IH; exact C | exact I].
Qed.

Lemma step_failed_eq cfg st e st' d : step cfg st e = Ok (st', d) -> (forall t, e <> Fail t) -> failed (srch st') = failed (srch st).
Proof.
  destruct e as [t0 b|t0 r v cont|t0 b|t0 r v|t0]; cbn [step]; intros H Hnf.
  - unfold on_start in H. destruct (find t0 (trials st)); [discriminate|]. destruct (register_all _ _ _) as [s1|] eqn:E; cbn [bind] in H; [|discriminate].
    inversion H; subst. cbn. apply (register_all_failed _ _ _ _ E).
  - set (st0 := {| srch := srch st; trials := trials st; reps := _ |}) in H.
    destruct (on_trial_result cfg st0 t0 r v cont) as [[st1 d1]|] eqn:E; cbn [bind] in H; [|discriminate].
    inversion H; subst. assert (H1 : failed (srch st1) = failed (srch st)).
    { unfold on_trial_result in E. destruct (find t0 (trials st0)) as [rec|]; [|discriminate].
      destruct (dec rec); try (inversion E; subst; reflexivity).
      destruct (on_task_report cfg rec r cont) as [[rec1 ti]|]; cbn [bind] in E; [|discriminate].
      destruct (ignore_data ti); [inversion E; subst; reflexivity|].
      destruct (update_searcher _ _ _ _ _ _) as [[du s1]|] eqn:EU; cbn [bind] in E; [|discriminate].
      destruct (lur_step _ _ _) as [[du2 rec3]|]; cbn [bind] in E; [|discriminate]. inversion E; subst. cbn [srch].
      assert (Hs1 : failed s1 = failed (srch st)).
      { unfold update_searcher in EU. cbn [srch st0] in EU.
        destruct (if fst (us_plan cfg r ti) then us_internal cfg (srch st) rec1 t0 else Ok (srch st)) as [sa|] eqn:EA; cbn [bind] in EU; [|discriminate].
        destruct (register_all sa t0 _) as [sb|] eqn:EB; cbn [bind] in EU; [|discriminate]. inversion EU; subst.
        rewrite (register_all_failed _ _ _ _ EB). destruct (fst (us_plan cfg r ti)); [|inversion EA; reflexivity].
        unfold us_internal in EA. destruct (pol cfg); try (inversion EA; reflexivity).
        destruct (reported rec1) as [[? ?]|]; [|inversion EA; reflexivity]. destruct (negb _); [|inversion EA; reflexivity].
        unfold remove_case in EA. destruct (is_labeled _ _ _); [inversion EA; reflexivity | discriminate]. }
      destruct du2; cbn [label failed]; exact Hs1. }
    destruct d1; auto; unfold on_trial_remove; destruct (find t0 (trials st1)); auto.
  - unfold on_resume in H. destruct (sty cfg); [discriminate|]. destruct (find t0 (trials st)); [|discriminate].
    destruct (paused_at _ _); [|discriminate]. destruct (negb _); [discriminate|]. destruct (decision_eqb _ _); [discriminate|].
    destruct (register_all _ _ _) as [s1|] eqn:E; cbn [bind] in H; [|discriminate].
    inversion H; subst. cbn. apply (register_all_failed _ _ _ _ E).
  - unfold on_trial_complete in H. destruct (find t0 (trials st)) as [rec|]; cbn [bind] in H; [|discriminate]. inversion H; subst.
    cbn. destruct (lur rec) as [l|]; auto. destruct (l <? r); auto.
  - exfalso. apply (Hnf t0). reflexivity.
Qed.

Definition FailedIdle (cfg : config) (st : state) : Prop :=
  forall t, In t (failed (srch st)) ->
    exists rec, find t (trials st) = Some rec /\ dec rec <> CONTINUE /\
                (sty cfg = Promotion -> forall L p, In (L, p) (in_rungs rec) -> p = true).

Lemma FailedIdle_no_resume cfg st t b : FailedIdle cfg st -> In t (failed (srch st)) -> legal_b cfg st (Resume t b) = false.
Proof.
  intros HJ Hin. destruct (HJ t Hin) as [rec [Hf [Hd Hp]]]. cbn [legal_b]. destruct (sty cfg) eqn:HS; [reflexivity|].
  rewrite Hf. destruct (existsb (fun e : Z * bool => negb (snd e)) (in_rungs rec)) eqn:E; [|apply andb_false_r].
  apply existsb_exists in E as [[L p] [Hi Hn]]. rewrite (Hp eq_refl L p Hi) in Hn. discriminate.
Qed.

Lemma step_FailedIdle cfg st e st' d : wf_config cfg = true -> Inv cfg st -> FailedIdle cfg st ->
  legal_b cfg st e = true -> fail_running st e = true -> step cfg st e = Ok (st', d) -> FailedIdle cfg st'.
Proof.
  intros WF HI HJ Hl Hfr HS t Hin.
  assert (Hcase : (e = Fail t /\ ~ In t (failed (srch st))) \/ In t (failed (srch st))).
  { destruct e as [t0 b|t0 r v cont|t0 b|t0 r v|t0];
      try (right; rewrite <- (step_failed_eq _ _ _ _ _ HS); [exact Hin | intros; discriminate]).
    cbn [step] in HS. inversion HS; subst. unfold on_trial_error in Hin.
    assert (Hin' : In t (failed (evaluation_failed (srch st) t0))) by (destruct (find t0 (trials st)); exact Hin).
    unfold evaluation_failed, mark_failed in Hin'. cbn [failed cleanup_pending] in Hin'.
    destruct (mem_Z t0 (failed (srch st))) eqn:EM; [right; exact Hin'|].
    apply in_app_or in Hin' as [H|[<-|[]]]; [right; exact H|].
    left. split; [reflexivity|]. intro H. apply mem_Z_In in H. congruence. }
  destruct Hcase as [[-> Hnew]|Hold].
  - (* the trial that fails now: it was running, so every rung entry of it is marked promoted *)
    cbn [fail_running] in Hfr. destruct (find t (trials st)) as [rec|] eqn:Hf; [|discriminate].
    assert (Hd : dec rec = CONTINUE) by (destruct (dec rec); cbn in Hfr; congruence).
    cbn [step] in HS. inversion HS; subst. unfold on_trial_error. rewrite Hf. cbn [trials].
    exists (cleanup_rec rec STOP). split; [apply find_upd_same|]. split; [cbn; discriminate|].
    intros HP L p Hi. cbn in Hi. destruct HI as [_ [_ Hall]]. specialize (Hall t). rewrite Hf in Hall.
    destruct (g_rungs _ _ _ _ _ Hall HP L p Hi) as [_ [_ C]]. destruct p; [reflexivity|]. destruct (C eq_refl) as [C1 _]. congruence.
  - destruct (HJ t Hold) as [rec [Hf [Hd Hp]]].
    destruct (Z.eq_dec t (trial_of e)) as [Heq|Hne].
    + (* no event other than a further failure is legal for a failed trial *)
      destruct e as [t0 b|t0 r v cont|t0 b|t0 r v|t0]; cbn [trial_of] in Heq; subst t0; cbn [legal_b] in Hl.
      * rewrite Hf in Hl. discriminate.
      * rewrite Hf in Hl. apply andb_true_iff in Hl as [Hl _]. destruct (dec rec); cbn in Hl; congruence.
      * rewrite (FailedIdle_no_resume cfg st t b HJ Hold) in Hl || (pose proof (FailedIdle_no_resume cfg st t b HJ Hold) as HN; cbn [legal_b] in HN; rewrite HN in Hl). discriminate.
      * rewrite Hf in Hl. apply andb_true_iff in Hl as [Hl _]. destruct (dec rec); cbn in Hl; congruence.
      * cbn [fail_running] in Hfr. rewrite Hf in Hfr. destruct (dec rec); cbn in Hfr; congruence.
    + destruct (step_same_for cfg WF st e st' d t HS) as [_ HF]; [destruct e; exact Hne|]. rewrite HF. eauto.
Qed.

Lemma run_FailedIdle cfg h : wf_config cfg = true -> forall st, Inv cfg st -> FailedIdle cfg st -> legal_hist_fr cfg st h ->
  forall st', run cfg st h = Ok st' -> FailedIdle cfg st'.
Proof.
  intro WF. induction h as [|e h IH]; intros st HI HJ HL st'; cbn [run]; [intro H; inversion H; subst; exact HJ|].
  cbn [legal_hist_fr] in HL. destruct HL as [Hl [Hfr HL]].
  destruct (step_inv cfg WF st e HI Hl) as [st1 [d [E HI1]]]. rewrite E in *. cbn [bind]. intro HR.
  apply (IH st1 HI1 (step_FailedIdle cfg st e st1 d WF HI HJ Hl Hfr E) HL st' HR).
Qed.

Lemma failed_not_resumed cfg h st : wf_config cfg = true -> legal_hist_fr cfg init h -> run cfg init h = Ok st ->
  forall t b, In t (failed (srch st)) -> legal_b cfg st (Resume t b) = false.
Proof.
  intros WF HL HR t b Hin. apply FailedIdle_no_resume; [|exact Hin].
  eapply (run_FailedIdle cfg h WF init); eauto; [apply Inv_init | intros t' []].
Qed.

(* ------------------------------------------------------------------ *)
(* (5) done_trials_statuses accumulates over the polls                   *)
(* ------------------------------------------------------------------ *)
Lemma update_dict_notin t new : forall acc, ~ In t (map fst new) -> lookup t (update_dict acc new) = lookup t acc.
Proof.
  induction new as [|[k s] new IH]; intros acc H; cbn; [reflexivity|]. cbn in H.
  rewrite IH by tauto. apply lookup_set_key_other. intro E. apply H. left. congruence.
Qed.
Lemma update_dict_in t s new : forall acc, NoDup (map fst new) -> In (t, s) new -> lookup t (update_dict acc new) = Some s.
Proof.
  induction new as [|[k s'] new IH]; intros acc Hnd Hin; [destruct Hin|]. cbn in Hnd. inversion Hnd as [|? ? Hni Hnd']; subst. cbn.
  destruct Hin as [E|Hin].
  - inversion E; subst. rewrite update_dict_notin by exact Hni. apply lookup_set_key_same.
  - apply IH; assumption.
Qed.
Lemma fold_update_notin t post : forall acc, (forall d, In d post -> ~ In t (map fst d)) ->
  lookup t (fold_left update_dict post acc) = lookup t acc.
Proof.
  induction post as [|d post IH]; intros acc H; cbn; [reflexivity|].
  rewrite IH by (intros d' Hd'; apply H; right; exact Hd'). apply update_dict_notin. apply H. left. reflexivity.
Qed.
Lemma lookup_In {A} t (v : A) l : lookup t l = Some v -> In (t, v) l.
Proof.
  induction l as [|[k w] l IH]; cbn; [discriminate|]. destruct (k =? t) eqn:E.
  - intro H. inversion H; subst. left. f_equal. lia.
  - intro H. right. auto.
Qed.
(* a failure seen in some poll is still in the dict handed to _handle_failure at the end, unless the
   same trial finishes again in a later poll *)
Lemma failure_remembered t pre d post : NoDup (map fst d) -> In (t, S_Failed) d ->
  (forall d', In d' post -> ~ In t (map fst d')) ->
  In (t, S_Failed) (accumulate (pre ++ d :: post)) /\ (0 < num_failed (accumulate (pre ++ d :: post)))%nat.
Proof.
  intros Hnd Hin Hpost. unfold accumulate. rewrite fold_left_app. cbn [fold_left].
  assert (HL : lookup t (fold_left update_dict post (update_dict (fold_left update_dict pre []) d)) = Some S_Failed).
  { rewrite (fold_update_notin t post _ Hpost). apply update_dict_in; assumption. }
  apply lookup_In in HL. split; [exact HL|]. unfold num_failed.
  assert (In (t, S_Failed) (filter (fun e : Z * status => status_eqb (snd e) S_Failed)
            (fold_left update_dict post (update_dict (fold_left update_dict pre []) d)))) by (apply filter_In; split; [exact HL | reflexivity]).
  destruct (filter _ _); [destruct H | cbn; lia].
Qed.
