(* CholBackwardProofs.v — the hand-written backward passes of custom_op.py
   (model/CholBackward.v, MathComp matrices over an arbitrary field of
   characteristic <> 2) are the adjoints of the differentials of the forward maps.
   Purely algebraic: no limits, no real-number axioms. *)
From mathcomp Require Import all_ssreflect all_algebra.
From Verif Require Import model.CholBackward.
Set Implicit Arguments.
Unset Strict Implicit.
Unset Printing Implicit Defensive.
Import GRing.Theory.
Local Open Scope ring_scope.

Section P.
Variable F : fieldType.
Variable n : nat.
Implicit Types (L X M A : 'M[F]_n).

Lemma copyltuE M i j : copyltu M i j = if (j <= i)%N then M i j else M j i.
Proof.
  rewrite /copyltu /tril /tril1 !mxE.
  case: (ltngtP j i) => h; rewrite ?addr0 ?add0r //.
Qed.

Lemma copyltu_sym M : (copyltu M)^T = copyltu M.
Proof.
  apply/matrixP => i j; rewrite mxE !copyltuE.
  case: (ltngtP i j) => h //. by have -> : i = j by apply: val_inj.
Qed.

Lemma trig_diag_neq0 L : is_trig_mx L -> L \in unitmx -> forall i, L i i != 0.
Proof.
  move=> Ht; rewrite unitmxE unitfE (det_trig Ht) => /prodf_neq0 H i; exact: H.
Qed.

Lemma trig_mul A X : is_trig_mx A -> is_trig_mx X -> is_trig_mx (A *m X).
Proof.
  move=> /is_trig_mxP HA /is_trig_mxP HX; apply/is_trig_mxP => i j ij.
  rewrite mxE big1 // => k _.
  case: (leqP k i) => h.
  - by rewrite (HX k j) ?mulr0 //; apply: leq_ltn_trans ij.
  - by rewrite (HA i k) ?mul0r.
Qed.

Lemma trig_inv L : is_trig_mx L -> L \in unitmx -> is_trig_mx (invmx L).
Proof.
  move=> Ht Hu. have Hd := trig_diag_neq0 Ht Hu. move/is_trig_mxP: Ht => Ht.
  set X := invmx L.
  have HLX : L *m X = 1%:M by rewrite /X mulmxV.
  have H : forall m (i : 'I_n), (i < m)%N -> forall j : 'I_n, (i < j)%N -> X i j = 0.
  { elim=> [//|m IH] i. rewrite ltnS leq_eqVlt => /orP[/eqP Him | /IH //] j ij.
    have E : (L *m X) i j = L i i * X i j.
    { rewrite mxE (bigD1 i) //= big1 ?addr0 // => k kni.
      case: (ltngtP k i) => h.
      - by rewrite (IH k) ?mulr0 // -?Him //; apply: ltn_trans ij.
      - by rewrite (Ht i k) ?mul0r.
      - by move/eqP: kni; case; apply: val_inj. }
    move: E. rewrite HLX mxE. have -> : (i == j) = false by apply/negbTE; rewrite neq_ltn ij.
    rewrite mulr0n => /esym /eqP. rewrite mulf_eq0 (negbTE (Hd i)) /= => /eqP. by []. }
  apply/is_trig_mxP => i j ij. exact: (H i.+1 i (ltnSn i) j ij).
Qed.

(* tr(copyltu M * X) = tr(M^T * X) for lower-triangular X *)
Lemma tr_copyltu M X : is_trig_mx X -> \tr (copyltu M *m X) = \tr (M^T *m X).
Proof.
  move=> /is_trig_mxP HX. rewrite /mxtrace. apply: eq_bigr => i _.
  rewrite !mxE. apply: eq_bigr => j _. rewrite copyltuE !mxE.
  case: (ltngtP j i) => h //.
  - by rewrite (HX j i) ?mulr0.
  - by have -> : i = j by apply: val_inj.
Qed.

Lemma chol_backwardE L Lbar : L \in unitmx ->
  chol_backward L Lbar = 2%:R^-1 *: ((invmx L)^T *m copyltu (L^T *m Lbar) *m invmx L).
Proof.
  move=> Hu. rewrite /chol_backward /solve_lT /=.
  by rewrite trmx_mul copyltu_sym trmx_inv trmxK mulmxA -trmx_inv.
Qed.

Lemma chol_backward_sym L Lbar : L \in unitmx -> (chol_backward L Lbar)^T = chol_backward L Lbar.
Proof.
  move=> Hu. rewrite (chol_backwardE _ Hu) linearZ /=. congr (_ *: _).
  by rewrite !trmx_mul trmxK copyltu_sym mulmxA.
Qed.

Theorem chol_backward_adjoint L Lbar dL :
  (2%:R : F) != 0 -> is_trig_mx L -> L \in unitmx -> is_trig_mx dL ->
  inner Lbar dL = inner (chol_backward L Lbar) (dL *m L^T + L *m dL^T).
Proof.
  move=> H2 Ht Hu Hd. rewrite /inner (chol_backward_sym _ Hu).
  set A := chol_backward L Lbar.
  have HA : A^T = A by apply: chol_backward_sym.
  rewrite mulmxDr linearD /=.
  have -> : \tr (A *m (L *m dL^T)) = \tr (A *m (dL *m L^T)).
  { rewrite -mxtrace_tr !trmx_mul !trmxK HA. by rewrite mxtrace_mulC mulmxA. }
  rewrite -mulr2n -mulr_natr.
  rewrite /A (chol_backwardE _ Hu). set P := copyltu _.
  rewrite -scalemxAl linearZ /= mulrAC mulVf // mul1r.
  rewrite mulmxA [in RHS]mxtrace_mulC !mulmxA.
  rewrite -trmx_mul mulVmx // trmx1 mul1mx.
  rewrite -mulmxA /P (tr_copyltu _ (trig_mul (trig_inv Ht Hu) Hd)).
  by rewrite trmx_mul trmxK mulmxA -(mulmxA Lbar^T) mulmxV // mulmx1.
Qed.

(* the forward map is affine: its differential at any point is (dX, ds) |-> dX + ds I *)
Lemma addjitter_differential X dX (s ds jit : F) :
  addjitter (X + dX) (s + ds) jit - addjitter X s jit = dX + ds%:M.
Proof.
  rewrite /addjitter (addrAC s ds jit) (raddfD (scalar_mx_additive _ _)) /=.
  by rewrite addrACA [X + _ + _]addrC addrK.
Qed.

Theorem addjitter_vjp_adjoint (G dX : 'M[F]_n) (ds : F) :
  inner G (dX + ds%:M) = inner (addjitter_vjp G).1 dX + (addjitter_vjp G).2 * ds.
Proof.
  rewrite /inner /addjitter_vjp /= mulmxDr linearD /=. congr (_ + _).
  by rewrite mul_mx_scalar linearZ /= mxtrace_tr mulrC.
Qed.

(* every symmetric perturbation dA of A = L L^T is the image of a lower-triangular dL:
   the adjoint identity therefore determines <Abar, dA> for ALL symmetric dA *)
Definition half_tril (S : 'M[F]_n) : 'M[F]_n :=
  \matrix_(i, j) (if (j < i)%N then S i j else if i == j then 2%:R^-1 * S i i else 0).

Lemma half_tril_trig S : is_trig_mx (half_tril S).
Proof.
  apply/is_trig_mxP => i j ij. rewrite mxE ltnNge (ltnW ij) /=.
  by rewrite (negbTE (_ : i != j)) // neq_ltn ij.
Qed.

Lemma half_tril_sum S : (2%:R : F) != 0 -> S^T = S -> half_tril S + (half_tril S)^T = S.
Proof.
  move=> H2 HS. apply/matrixP => i j. rewrite !mxE.
  case: (ltngtP j i) => h.
  - by rewrite (negbTE (_ : j != i)) ?addr0 // neq_ltn h.
  - rewrite (negbTE (_ : i != j)) ?add0r; last by rewrite neq_ltn h.
    by rewrite -[in RHS]HS mxE.
  - have -> : j = i by apply: val_inj. rewrite eqxx -mulrDl.
    have -> : (2%:R^-1 + 2%:R^-1 : F) = 1 by rewrite -mulr2n -(mulr_natr (2%:R^-1) 2) mulVf.
    by rewrite mul1r.
Qed.

Theorem chol_differential_exists L dA :
  (2%:R : F) != 0 -> is_trig_mx L -> L \in unitmx -> dA^T = dA ->
  exists dL, is_trig_mx dL /\ dA = dL *m L^T + L *m dL^T.
Proof.
  move=> H2 Ht Hu Hs.
  set S := invmx L *m dA *m (invmx L)^T.
  have HS : S^T = S by rewrite /S !trmx_mul trmxK Hs mulmxA.
  exists (L *m half_tril S). split; first exact: (trig_mul Ht (half_tril_trig S)).
  rewrite trmx_mul -!mulmxA -mulmxDr -mulmxDl (half_tril_sum H2 HS).
  rewrite /S !mulmxA mulmxV // mul1mx -mulmxA -trmx_mul mulmxV // trmx1 mulmx1. by [].
Qed.
(* the retry loop of AddJitterOp returns x shifted by ONE member of the documented jitter
   sequence (the one of the first successful attempt): shifts of failed rounds do not accumulate *)
Lemma jitter_loop_spec (init growth : F) : init != 0 -> growth != 0 ->
  forall (oracle : seq bool) (i : nat), has id oracle ->
    jitter_loop oracle (jitter_seq init growth i) init growth = Some (jitter_seq init growth (i + find id oracle)).
Proof.
  move=> Hi Hg. elim=> [//|ok r IH] i /=.
  case: ok => /= [_|Hr]; first by rewrite addn0.
  rewrite addnS -addSn -(IH i.+1 Hr). congr (jitter_loop _ _ _ _).
  case: i => [|i] /=; first by rewrite eqxx expr0 mulr1.
  by rewrite mulf_eq0 (negbTE Hi) (negbTE (expf_neq0 _ Hg)) /= -mulrA -exprSr.
Qed.

Theorem addjitter_op_no_accumulation (X : 'M[F]_n) (sigsq init growth : F) (oracle : seq bool) :
  init != 0 -> growth != 0 -> has id oracle ->
  addjitter_op X sigsq init growth oracle =
  Some (X + (sigsq + jitter_seq init growth (find id oracle))%:M).
Proof.
  move=> Hi Hg Ho. rewrite /addjitter_op.
  by rewrite (jitter_loop_spec Hi Hg 0 Ho) /= add0n.
Qed.

Lemma addjitter_op_exhausted (X : 'M[F]_n) (sigsq init growth : F) (oracle : seq bool) :
  ~~ has id oracle -> addjitter_op X sigsq init growth oracle = None.
Proof.
  move=> Hn.
  have H : forall j, jitter_loop oracle j init growth = None.
  { elim: oracle Hn => [//|ok r IH] /=. case: ok => //= Hr j. exact: IH. }
  by rewrite /addjitter_op H.
Qed.
End P.
