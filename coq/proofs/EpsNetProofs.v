(* EpsNetProofs.v — compute_epsilon_net returns a permutation whatever the float-valued
   choices are, so the layer order used by nondominated_sort is a permutation of the
   layer (C19: discharges the hypothesis of c19_sort_layers for the code's own algorithm). *)
From Verif Require Import model.Base model.Pareto.
From Coq Require Import Permutation Lia.
Local Open Scope nat_scope.

Lemma remove_nat_In x y l : In y (remove_nat x l) <-> In y l /\ y <> x.
Proof.
  induction l as [|z l IH]; simpl; [tauto|].
  destruct (Nat.eqb_spec z x) as [E|E]; simpl; rewrite IH; split.
  - intros [H1 H2]; split; [right|]; assumption.
  - intros [[H1|H1] H2]; [subst; contradiction | split; assumption].
  - intros [H1|[H1 H2]]; [subst; split; [left; reflexivity|assumption] | split; [right|]; assumption].
  - intros [[H1|H1] H2]; [left; assumption | right; split; assumption].
Qed.

Lemma remove_nat_NoDup x l : NoDup l -> NoDup (remove_nat x l).
Proof.
  induction 1 as [|z l Hz Hl IH]; simpl; [constructor|].
  destruct (Nat.eqb_spec z x); [exact IH|].
  constructor; [|exact IH]. rewrite remove_nat_In. tauto.
Qed.

Lemma remove_nat_perm x l : NoDup l -> In x l -> Permutation l (x :: remove_nat x l).
Proof.
  induction 1 as [|z l Hz Hl IH]; simpl; intros Hin; [contradiction|].
  destruct (Nat.eqb_spec z x) as [E|E].
  - subst z. assert (R : remove_nat x l = l).
    { clear - Hz. induction l as [|y l IH]; simpl; [reflexivity|].
      destruct (Nat.eqb_spec y x) as [E|E]; [subst; exfalso; apply Hz; left; reflexivity|].
      f_equal. apply IH. intros H; apply Hz; right; exact H. }
    rewrite R. apply Permutation_refl.
  - destruct Hin as [Hin|Hin]; [contradiction|].
    eapply Permutation_trans; [apply perm_skip, IH, Hin | apply perm_swap].
Qed.

Lemma remove_nat_length x l : In x l -> length (remove_nat x l) < length l.
Proof.
  induction l as [|z l IH]; simpl; intros Hin; [contradiction|].
  destruct (Nat.eqb_spec z x) as [E|E].
  - clear. induction l as [|y l IH]; simpl; [lia|]. destruct (Nat.eqb y x); simpl; lia.
  - destruct Hin as [Hin|Hin]; [contradiction|]. simpl. specialize (IH Hin). lia.
Qed.

(* the contract of the oracle: argmax over a non-empty array is a valid position *)
Definition choose_ok (choose : list nat -> list nat -> nat) : Prop :=
  forall order rem, rem <> [] -> In (choose order rem) rem.

Lemma en_loop_perm choose : choose_ok choose ->
  forall fuel order rem all, NoDup rem -> length rem <= fuel ->
    Permutation (order ++ rem) all -> Permutation (en_loop choose order rem fuel) all.
Proof.
  intros Hc. induction fuel as [|f IH]; intros order rem all Hnd Hlen Hp.
  - destruct rem; [|simpl in Hlen; lia]. simpl. rewrite app_nil_r in Hp. exact Hp.
  - destruct rem as [|r0 rem]; cbn [en_loop]; [rewrite app_nil_r in Hp; exact Hp|].
    set (c := choose order (r0 :: rem)).
    assert (Hin : In c (r0 :: rem)) by (apply Hc; discriminate).
    apply IH.
    + apply remove_nat_NoDup; exact Hnd.
    + pose proof (remove_nat_length c (r0 :: rem) Hin) as L. lia.
    + eapply Permutation_trans; [|exact Hp].
      rewrite <- app_assoc. apply Permutation_app_head. cbn [app].
      apply Permutation_sym. apply (remove_nat_perm c (r0 :: rem) Hnd Hin).
Qed.

Lemma epsilon_net_order_perm seed choose n :
  choose_ok choose -> seed < n -> Permutation (epsilon_net_order seed choose n) (seq 0 n).
Proof.
  intros Hc Hs. unfold epsilon_net_order.
  assert (Hin : In seed (seq 0 n)) by (apply in_seq; lia).
  apply en_loop_perm; [exact Hc | apply remove_nat_NoDup, seq_NoDup | |].
  - pose proof (remove_nat_length seed (seq 0 n) Hin) as L. rewrite seq_length in L. lia.
  - simpl. apply Permutation_sym, remove_nat_perm; [apply seq_NoDup | exact Hin].
Qed.

Lemma pos_of_spec i l : In i l -> pos_of i l < length l /\ nth (pos_of i l) l O = i.
Proof.
  induction l as [|x l IH]; simpl; intros Hin; [contradiction|].
  destruct (Nat.eqb_spec x i) as [E|E]; [split; [lia|exact E]|].
  destruct Hin as [Hin|Hin]; [contradiction|]. destruct (IH Hin) as [H1 H2]. split; [lia|exact H2].
Qed.

Lemma NoDup_map_inj_on {A B} (f : A -> B) l :
  (forall x y, In x l -> In y l -> f x = f y -> x = y) -> NoDup l -> NoDup (map f l).
Proof.
  intros Hinj Hnd. induction Hnd as [|x l Hx Hl IH]; simpl; [constructor|].
  constructor.
  - intros Hm. apply in_map_iff in Hm. destruct Hm as [y [Hy1 Hy2]].
    assert (y = x) by (apply Hinj; [right; exact Hy2 | left; reflexivity | exact Hy1]).
    subst y. contradiction.
  - apply IH. intros a b Ha Hb. apply Hinj; right; assumption.
Qed.

Lemma ranks_of_order_perm order n :
  Permutation order (seq 0 n) -> Permutation (ranks_of_order order n) (seq 0 n).
Proof.
  intros Hp. unfold ranks_of_order.
  assert (Hlen : length order = n) by (rewrite (Permutation_length Hp); apply seq_length).
  assert (Hall : forall i, In i (seq 0 n) -> In i order)
    by (intros i Hi; eapply Permutation_in; [apply Permutation_sym; exact Hp | exact Hi]).
  apply NoDup_Permutation_bis.
  - apply NoDup_map_inj_on; [|apply seq_NoDup].
    intros x y Hx Hy E.
    destruct (pos_of_spec x order (Hall x Hx)) as [_ Ex].
    destruct (pos_of_spec y order (Hall y Hy)) as [_ Ey].
    rewrite <- Ex, <- Ey, E. reflexivity.
  - rewrite map_length. lia.
  - intros r Hr. apply in_map_iff in Hr. destruct Hr as [i [Hi1 Hi2]].
    destruct (pos_of_spec i order (Hall i Hi2)) as [Hlt _]. apply in_seq. lia.
Qed.

Lemma compute_epsilon_net_perm seed choose n :
  choose_ok choose -> seed < n -> Permutation (compute_epsilon_net seed choose n) (seq 0 n).
Proof.
  intros Hc Hs. apply ranks_of_order_perm, epsilon_net_order_perm; assumption.
Qed.

(* the returned ranks invert the greedy order: item order[r] gets rank r *)
Lemma compute_epsilon_net_inverts seed choose n r :
  choose_ok choose -> seed < n -> r < n ->
  nth (nth r (epsilon_net_order seed choose n) O) (compute_epsilon_net seed choose n) O = r.
Proof.
  intros Hc Hs Hr.
  pose proof (epsilon_net_order_perm seed choose n Hc Hs) as Hp.
  set (order := epsilon_net_order seed choose n) in *.
  assert (Hlen : length order = n) by (rewrite (Permutation_length Hp); apply seq_length).
  assert (Hnd : NoDup order) by (eapply Permutation_NoDup; [apply Permutation_sym; exact Hp | apply seq_NoDup]).
  assert (Hin : In (nth r order O) order) by (apply nth_In; lia).
  assert (Hlt : nth r order O < n).
  { assert (H : In (nth r order O) (seq 0 n)) by (eapply Permutation_in; [exact Hp | exact Hin]).
    apply in_seq in H. lia. }
  unfold compute_epsilon_net, ranks_of_order. fold order.
  rewrite (nth_indep _ O (pos_of O order)) by (rewrite map_length, seq_length; exact Hlt).
  rewrite (map_nth (fun i => pos_of i order) (seq 0 n) O), seq_nth by exact Hlt. simpl.
  destruct (pos_of_spec _ _ Hin) as [H1 H2].
  apply (proj1 (NoDup_nth order O) Hnd); [lia | lia | exact H2].
Qed.

Lemma map_nth_seq (l : list nat) : map (fun r => nth r l O) (seq 0 (length l)) = l.
Proof.
  induction l as [|a l IH]; simpl; [reflexivity|]. f_equal.
  rewrite <- seq_shift, map_map. simpl. exact IH.
Qed.

Lemma eps_layer_perm seedf choosef :
  (forall front, front <> [] -> seedf front < length front) ->
  (forall front, choose_ok (choosef front)) ->
  forall front, Permutation (eps_layer seedf choosef front) front.
Proof.
  intros Hs Hc front. unfold eps_layer. destruct front as [|a l] eqn:E; [constructor|].
  rewrite <- E.
  apply (Permutation_trans (l' := map (fun r => nth r front O) (seq 0 (length front))));
    [|rewrite map_nth_seq; apply Permutation_refl].
  apply Permutation_map, compute_epsilon_net_perm; [apply Hc|].
  apply Hs. rewrite E. discriminate.
Qed.
