(* PickleFacts.v — the pickle half of C16 (DESIGN.md section 6 C16, c16_pickle_identity_<S>), from the SAME generated
   facts as C11 (gen/EffFacts.v, regenerated from the repository's current source by harness/translate_effects.py;
   a manifest that uses this file needs "pre_build": ["translate_effects"]).

   For every scheduler configuration S that runs here:
   * c16_pickle_identity_S: no class that reachable code of S mentions (over-approximation of the classes in S's
     object graph; a class node reaches every dunder method along its MRO) defines __getstate__ / __setstate__ /
     __reduce__ / __reduce_ex__ / __copy__ / __deepcopy__ / __getnewargs__ (effect CustomPickle) -- the allow-list
     is EMPTY -- so dill.dumps/loads of the scheduler uses the default protocol for every syne_tune object in it:
     an object-graph copy of instance state;
   * c16_no_shared_state_write_S: no reachable run-time write to module-level or class-level state (which the
     default protocol would not carry over), except -- GP searchers only -- the gluon block-name counters.
   Closed by [check_sound] + [vm_compute]; finite domain = the generated lists, stated in each theorem.
   Outside the analysis: classes of other packages (numpy RandomState pickles its full state through its own
   __reduce__), closures / lambdas stored in attributes (dill serialises them by value). *)
From Coq Require Import List PArith String.
From Verif Require Import model.EffGraph proofs.EffGraphProofs gen.EffFacts.
Import ListNotations.
Open Scope string_scope.

Ltac by_check := apply check_sound; vm_compute; reflexivity.

Definition allow_no_hook : list (string * eff) := [].
(* check_and_merge_defaults(options, mandatory, default_options, ..) is handed the module-level _DEFAULT_OPTIONS of
   the scheduler module; its only write into an object derived from its parameters is `result_dict[kd] = vd` for
   keys kd MISSING from result_dict, where result_dict is either the dict passed by the caller (not module-level)
   or the default's own nested dict (then every key kd is present: no write).  The entry names the callee, the
   parameter and the mutating expression, so a different mutation of the defaults is not covered. *)
Definition allow_default_imputation : list (string * eff) := [
  ("syne_tune.optimizer.schedulers.fifo.FIFOScheduler.__init__/1 check_and_merge_defaults(default_options): result_dict[...] = ...", ModuleGlobalWrite);
  ("syne_tune.optimizer.schedulers.hyperband.HyperbandScheduler.__init__/1 check_and_merge_defaults(default_options): result_dict[...] = ...", ModuleGlobalWrite);
  ("syne_tune.optimizer.schedulers.pbt.PopulationBasedTraining.__init__/1 check_and_merge_defaults(default_options): result_dict[...] = ...", ModuleGlobalWrite);
  ("syne_tune.optimizer.schedulers.synchronous.dehb.DifferentialEvolutionHyperbandScheduler._create_internal/1 check_and_merge_defaults(default_options): result_dict[...] = ...", ModuleGlobalWrite);
  ("syne_tune.optimizer.schedulers.synchronous.hyperband.SynchronousHyperbandScheduler._create_internal/1 check_and_merge_defaults(default_options): result_dict[...] = ...", ModuleGlobalWrite);
  ("syne_tune.optimizer.schedulers.synchronous.hyperband_impl.GeometricDifferentialEvolutionHyperbandScheduler.__init__/1 check_and_merge_defaults(default_options): result_dict[...] = ...", ModuleGlobalWrite);
  ("syne_tune.optimizer.schedulers.synchronous.hyperband_impl.SynchronousGeometricHyperbandScheduler.__init__/1 check_and_merge_defaults(default_options): result_dict[...] = ...", ModuleGlobalWrite)
].
(* (name kept for the re-export in props/C16.v) the only reachable writes are the harmless default imputations *)
Definition allow_no_write : list (string * eff) := allow_default_imputation.
(* process-global block-name counters of the GP parameter blocks (names only; restored objects keep their names) *)
Definition allow_gluon_counters : list (string * eff) := [
  ("syne_tune.optimizer.schedulers.searchers.bayesopt.gpautograd.gluon.NameManager.__enter__/2", ClassAttrWrite);
  ("syne_tune.optimizer.schedulers.searchers.bayesopt.gpautograd.gluon.NameManager.__exit__/1", ClassAttrWrite);
  ("syne_tune.optimizer.schedulers.searchers.bayesopt.gpautograd.gluon._BlockScope.__enter__/1", ClassAttrWrite);
  ("syne_tune.optimizer.schedulers.searchers.bayesopt.gpautograd.gluon._BlockScope.__exit__/1", ClassAttrWrite);
  ("syne_tune.optimizer.schedulers.searchers.bayesopt.gpautograd.gluon._BlockScope.create/2", ClassAttrWrite)
] ++ allow_default_imputation.

Theorem c16_pickle_identity_fifo_random :
  NoReachableEffect edges effs off_fifo_random roots_fifo_random pickle_hook allow_no_hook.
Proof. by_check. Qed.
Theorem c16_no_shared_state_write_fifo_random :
  NoReachableEffect edges effs off_fifo_random roots_fifo_random shared_write allow_no_write.
Proof. by_check. Qed.

Theorem c16_pickle_identity_fifo_grid :
  NoReachableEffect edges effs off_fifo_grid roots_fifo_grid pickle_hook allow_no_hook.
Proof. by_check. Qed.
Theorem c16_no_shared_state_write_fifo_grid :
  NoReachableEffect edges effs off_fifo_grid roots_fifo_grid shared_write allow_no_write.
Proof. by_check. Qed.

Theorem c16_pickle_identity_fifo_rea :
  NoReachableEffect edges effs off_fifo_rea roots_fifo_rea pickle_hook allow_no_hook.
Proof. by_check. Qed.
Theorem c16_no_shared_state_write_fifo_rea :
  NoReachableEffect edges effs off_fifo_rea roots_fifo_rea shared_write allow_no_write.
Proof. by_check. Qed.

Theorem c16_pickle_identity_hyperband_random :
  NoReachableEffect edges effs off_hyperband_random roots_hyperband_random pickle_hook allow_no_hook.
Proof. by_check. Qed.
Theorem c16_no_shared_state_write_hyperband_random :
  NoReachableEffect edges effs off_hyperband_random roots_hyperband_random shared_write allow_no_write.
Proof. by_check. Qed.

Theorem c16_pickle_identity_synchb_random :
  NoReachableEffect edges effs off_synchb_random roots_synchb_random pickle_hook allow_no_hook.
Proof. by_check. Qed.
Theorem c16_no_shared_state_write_synchb_random :
  NoReachableEffect edges effs off_synchb_random roots_synchb_random shared_write allow_no_write.
Proof. by_check. Qed.

Theorem c16_pickle_identity_dehb :
  NoReachableEffect edges effs off_dehb roots_dehb pickle_hook allow_no_hook.
Proof. by_check. Qed.
Theorem c16_no_shared_state_write_dehb :
  NoReachableEffect edges effs off_dehb roots_dehb shared_write allow_no_write.
Proof. by_check. Qed.

Theorem c16_pickle_identity_pbt :
  NoReachableEffect edges effs off_pbt roots_pbt pickle_hook allow_no_hook.
Proof. by_check. Qed.
Theorem c16_no_shared_state_write_pbt :
  NoReachableEffect edges effs off_pbt roots_pbt shared_write allow_no_write.
Proof. by_check. Qed.

Theorem c16_pickle_identity_msr :
  NoReachableEffect edges effs off_msr roots_msr pickle_hook allow_no_hook.
Proof. by_check. Qed.
Theorem c16_no_shared_state_write_msr :
  NoReachableEffect edges effs off_msr roots_msr shared_write allow_no_write.
Proof. by_check. Qed.

Theorem c16_pickle_identity_fifo_bayesopt :
  NoReachableEffect edges effs off_fifo_bayesopt roots_fifo_bayesopt pickle_hook allow_no_hook.
Proof. by_check. Qed.
Theorem c16_no_shared_state_write_fifo_bayesopt :
  NoReachableEffect edges effs off_fifo_bayesopt roots_fifo_bayesopt shared_write allow_gluon_counters.
Proof. by_check. Qed.

Theorem c16_pickle_identity_hyperband_bayesopt :
  NoReachableEffect edges effs off_hyperband_bayesopt roots_hyperband_bayesopt pickle_hook allow_no_hook.
Proof. by_check. Qed.
Theorem c16_no_shared_state_write_hyperband_bayesopt :
  NoReachableEffect edges effs off_hyperband_bayesopt roots_hyperband_bayesopt shared_write allow_gluon_counters.
Proof. by_check. Qed.

Theorem c16_pickle_identity_hyperband_hypertune :
  NoReachableEffect edges effs off_hyperband_hypertune roots_hyperband_hypertune pickle_hook allow_no_hook.
Proof. by_check. Qed.
Theorem c16_no_shared_state_write_hyperband_hypertune :
  NoReachableEffect edges effs off_hyperband_hypertune roots_hyperband_hypertune shared_write allow_gluon_counters.
Proof. by_check. Qed.

Theorem c16_pickle_identity_hyperband_dyhpo :
  NoReachableEffect edges effs off_hyperband_dyhpo roots_hyperband_dyhpo pickle_hook allow_no_hook.
Proof. by_check. Qed.
Theorem c16_no_shared_state_write_hyperband_dyhpo :
  NoReachableEffect edges effs off_hyperband_dyhpo roots_hyperband_dyhpo shared_write allow_gluon_counters.
Proof. by_check. Qed.

Theorem c16_pickle_identity_synchb_bayesopt :
  NoReachableEffect edges effs off_synchb_bayesopt roots_synchb_bayesopt pickle_hook allow_no_hook.
Proof. by_check. Qed.
Theorem c16_no_shared_state_write_synchb_bayesopt :
  NoReachableEffect edges effs off_synchb_bayesopt roots_synchb_bayesopt shared_write allow_gluon_counters.
Proof. by_check. Qed.

(* non-vacuity of the check itself (independent of the repository): a reachable class with a pickle hook is
   reported; on the real facts the same is exercised on every C11 run by the driver's mutation self-test
   (a __getstate__ injected into RandomSeedGenerator makes check_b ... pickle_hook [] = false). *)
Example c16_pickle_check_detects :
  check_b [(2, 3, 1, []); (3, 4, 1, [])]%positive [(4%positive, CustomPickle, [], "m.C.__getstate__/1")] [] [2%positive]
          pickle_hook allow_no_hook = false /\
  check_b [(2, 3, 1, []); (3, 4, 5, [])]%positive [(4%positive, CustomPickle, [], "m.C.__getstate__/1")] [] [2%positive]
          pickle_hook allow_no_hook = true.
Proof. vm_compute. split; reflexivity. Qed.
