(* DomainRProofs.v — lemmas about model/DomainR.v (property C07, log / reverse-log scaling over
   the Coq reals).  The facts about ln / exp the Q development could only assume ([sc_good],
   [sc_sample_good] of DomainProofs.v) are PROVED here for LogScaling and ReverseLogScaling. *)
From Coq Require Import Reals ZArith Bool Lra Lia.
From Verif Require Import model.DomainR.
From Verif Require model.Domain.
Open Scope R_scope.

(* ---- clip ---- *)
Lemma Rclip_bounds x lo hi : lo <= hi -> lo <= Rclip x lo hi <= hi.
Proof. intro H. unfold Rclip. destruct (Rlt_dec x lo); destruct (Rlt_dec hi _); lra. Qed.
Lemma Rclip_id x lo hi : lo <= x <= hi -> Rclip x lo hi = x.
Proof. intro H. unfold Rclip. destruct (Rlt_dec x lo); [lra|]. destruct (Rlt_dec hi x); [lra|reflexivity]. Qed.

(* ---- rounding ---- *)
Lemma Rfloor_spec x : IZR (Rfloor x) <= x < IZR (Rfloor x) + 1.
Proof. unfold Rfloor. rewrite minus_IZR. destruct (archimed x). lra. Qed.
Lemma round_heR_near x : x - 1 / 2 <= IZR (round_heR x) <= x + 1 / 2.
Proof.
  pose proof (Rfloor_spec x) as Hf. unfold round_heR.
  destruct (Rlt_dec (x - IZR (Rfloor x)) (1 / 2)); [lra|].
  destruct (Rlt_dec (1 / 2) (x - IZR (Rfloor x))); [rewrite plus_IZR; lra|].
  destruct (Z.even (Rfloor x)); [|rewrite plus_IZR]; lra.
Qed.
Lemma round_heR_lb x z : IZR z - 1 / 2 < x -> (z <= round_heR x)%Z.
Proof.
  intro H. destruct (round_heR_near x) as [H1 _].
  assert (IZR (z - 1) < IZR (round_heR x)) as H3 by (rewrite minus_IZR; lra).
  apply lt_IZR in H3. lia.
Qed.
Lemma round_heR_ub x z : x < IZR z + 1 / 2 -> (round_heR x <= z)%Z.
Proof.
  intro H. destruct (round_heR_near x) as [_ H1].
  assert (IZR (round_heR x) < IZR (z + 1)) as H3 by (rewrite plus_IZR; lra).
  apply lt_IZR in H3. lia.
Qed.
Lemma round_heR_IZR z : round_heR (IZR z) = z.
Proof. apply Z.le_antisymm; [apply round_heR_ub | apply round_heR_lb]; lra. Qed.
Lemma round_heR_in x lo hi : IZR lo <= x <= IZR hi -> (lo <= round_heR x <= hi)%Z.
Proof. intros [H1 H2]. split; [apply round_heR_lb | apply round_heR_ub]; lra. Qed.

(* ---- what the theorems need from a scaling on [lo, hi] ---- *)
Definition sc_goodR (sc : scalingR) (lo hi : R) : Prop :=
  (forall y, lo <= y <= hi -> from_intR sc (to_intR sc y) = y) /\
  (forall y, lo <= y <= hi -> to_intR sc lo <= to_intR sc y <= to_intR sc hi) /\
  (forall y, lo <= y <= hi -> sc_domR sc y = true).
Definition sc_monoR (sc : scalingR) : Prop := forall a b, a <= b -> from_intR sc a <= from_intR sc b.

(* ... and the three scalings of scaling.py HAVE them *)
Lemma ln_le_le x y : 0 < x -> x <= y -> ln x <= ln y.
Proof. intros Hx H. destruct H as [H|H]; [left; apply ln_increasing; assumption | right; rewrite H; reflexivity]. Qed.
Lemma exp_le_le x y : x <= y -> exp x <= exp y.
Proof. intro H. destruct H as [H|H]; [left; apply exp_increasing; assumption | right; rewrite H; reflexivity]. Qed.

Lemma linearR_good lo hi : sc_goodR linearR lo hi.
Proof. split; [|split]; simpl; intros; try lra; reflexivity. Qed.
Lemma linearR_mono : sc_monoR linearR.
Proof. intros a b H. exact H. Qed.
Lemma logR_good lo hi : 0 < lo -> sc_goodR logR lo hi.
Proof.
  intro Hlo. split; [|split]; simpl; intros y Hy.
  - apply exp_ln. lra.
  - split; apply ln_le_le; lra.
  - destruct (Rlt_dec 0 y); [reflexivity | lra].
Qed.
Lemma logR_mono : sc_monoR logR.
Proof. intros a b H. simpl. apply exp_le_le. exact H. Qed.
Lemma revlogR_good lo hi : 0 <= lo -> hi < 1 -> sc_goodR revlogR lo hi.
Proof.
  intros Hlo Hhi. split; [|split]; simpl; intros y Hy.
  - rewrite Ropp_involutive, exp_ln by lra. lra.
  - split; apply Ropp_le_contravar; apply ln_le_le; lra.
  - destruct (Rle_dec 0 y); [|lra]. destruct (Rlt_dec y 1); [reflexivity | lra].
Qed.
Lemma revlogR_mono : sc_monoR revlogR.
Proof.
  intros a b H. simpl. assert (exp (- b) <= exp (- a)) by (apply exp_le_le; lra). lra.
Qed.

(* the scalings that exist, on the domains their constructors accept *)
Inductive real_scaling : scalingR -> R -> R -> Prop :=
| RS_linear lo hi : real_scaling linearR lo hi
| RS_log lo hi : 0 < lo -> real_scaling logR lo hi
| RS_revlog lo hi : 0 <= lo -> hi < 1 -> real_scaling revlogR lo hi.
Lemma real_scaling_good sc lo hi : real_scaling sc lo hi -> sc_goodR sc lo hi /\ sc_monoR sc.
Proof.
  intros [l h|l h H|l h H1 H2].
  - split; [apply linearR_good | apply linearR_mono].
  - split; [apply logR_good; assumption | apply logR_mono].
  - split; [apply revlogR_good; assumption | apply revlogR_mono].
Qed.

(* ---- decode membership: any scaling ---- *)
Lemma cont_decode_memberR eps r v x :
  rc_lo r <= rc_hi r -> cont_from_ndR eps r v = Some x -> rc_lo r <= x <= rc_hi r.
Proof.
  unfold cont_from_ndR, scale_from_zero_oneR. intros H E.
  destruct (Rle_dec (- eps) v); [|discriminate]. destruct (Rle_dec v (1 + eps)); [|discriminate].
  injection E as <-. destruct (Rlt_dec 0 _); [apply Rclip_bounds; assumption | lra].
Qed.
Lemma cont_decode_totalR eps r v : 0 <= eps -> 0 <= v <= 1 -> exists x, cont_from_ndR eps r v = Some x.
Proof.
  intros He Hv. unfold cont_from_ndR, scale_from_zero_oneR.
  destruct (Rle_dec (- eps) v); [|lra]. destruct (Rle_dec v (1 + eps)); [|lra]. eexists. reflexivity.
Qed.
Lemma int_decode_memberR eps r v z :
  (ri_lo r <= ri_hi r)%Z -> int_from_ndR eps r v = Some z -> (ri_lo r <= z <= ri_hi r)%Z.
Proof.
  unfold int_from_ndR. intros H E. destruct (cont_from_ndR eps (ri_cont eps r) v); [|discriminate].
  injection E as <-. unfold round_to_intR, Domain.Zclip. lia.
Qed.
Lemma int_decode_totalR eps r v : 0 <= eps -> 0 <= v <= 1 -> exists z, int_from_ndR eps r v = Some z.
Proof.
  intros He Hv. unfold int_from_ndR. destruct (cont_decode_totalR eps (ri_cont eps r) v He Hv) as [x ->].
  eexists. reflexivity.
Qed.

(* ---- round trip ---- *)
Lemma cont_roundtripR eps r x :
  0 <= eps -> sc_goodR (rc_sc r) (rc_lo r) (rc_hi r) -> rc_lo r <= x <= rc_hi r ->
  exists e, cont_to_ndR eps r x = Some e /\ 0 <= e <= 1 /\ cont_from_ndR eps r e = Some x.
Proof.
  intros He (Hinv & Hmono & Hdom) Hx.
  unfold cont_to_ndR, cont_from_ndR, scale_from_zero_oneR, rc_lo_i, rc_hi_i.
  set (sc := rc_sc r) in *. set (lo := rc_lo r) in *. set (hi := rc_hi r) in *.
  destruct (Rle_dec (lo - eps) x); [|lra]. destruct (Rle_dec x (hi + eps)); [|lra].
  assert (lo <= hi) as Hlh by lra.
  destruct (Hmono hi ltac:(lra)) as [Hlu _]. destruct (Hmono x Hx) as [Hx1 Hx2].
  destruct (Req_EM_T (to_intR sc hi) (to_intR sc lo)) as [E|E].
  - exists 0. split; [reflexivity|]. split; [lra|].
    destruct (Rle_dec (- eps) 0); [|lra]. destruct (Rle_dec 0 (1 + eps)); [|lra].
    destruct (Rlt_dec 0 (to_intR sc hi - to_intR sc lo)); [lra|].
    f_equal. rewrite <- (Hinv x Hx), <- (Hinv lo ltac:(lra)). f_equal. lra.
  - assert (to_intR sc lo < to_intR sc hi) as Hlt by lra.
    rewrite (Hdom x Hx).
    set (e := (to_intR sc x - to_intR sc lo) / (to_intR sc hi - to_intR sc lo)).
    assert (0 <= e <= 1) as Hr.
    { unfold e. split.
      - apply Rmult_le_pos; [lra|]. left. apply Rinv_0_lt_compat. lra.
      - apply (Rmult_le_reg_r (to_intR sc hi - to_intR sc lo)); [lra|].
        unfold Rdiv. rewrite Rmult_assoc, Rinv_l by lra. lra. }
    rewrite (Rclip_id e 0 1 Hr). exists e. split; [reflexivity|]. split; [exact Hr|].
    destruct (Rle_dec (- eps) e); [|lra]. destruct (Rle_dec e (1 + eps)); [|lra].
    destruct (Rlt_dec 0 (to_intR sc hi - to_intR sc lo)); [|lra].
    f_equal.
    replace (e * (to_intR sc hi - to_intR sc lo) + to_intR sc lo) with (to_intR sc x)
      by (unfold e; field; lra).
    rewrite (Hinv x Hx). apply Rclip_id. exact Hx.
Qed.

Lemma int_roundtripR eps r x :
  0 < eps < 1 / 2 -> sc_goodR (ri_sc r) (rc_lo (ri_cont eps r)) (rc_hi (ri_cont eps r)) ->
  (ri_lo r <= x <= ri_hi r)%Z ->
  exists e, int_to_ndR eps r x = Some e /\ 0 <= e <= 1 /\ int_from_ndR eps r e = Some x.
Proof.
  intros He Hg [Hx1 Hx2]. apply IZR_le in Hx1. apply IZR_le in Hx2.
  destruct (cont_roundtripR eps (ri_cont eps r) (IZR x)) as (e & E1 & E2 & E3).
  - lra.
  - exact Hg.
  - simpl. lra.
  - exists e. unfold int_to_ndR, int_from_ndR. rewrite E1, E3. simpl.
    repeat split; try apply E2. unfold round_to_intR. rewrite round_heR_IZR.
    unfold Domain.Zclip. apply le_IZR in Hx1. apply le_IZR in Hx2. f_equal. lia.
Qed.

(* ---- active sub-range ---- *)
Lemma cont_activeR eps r a b v x :
  0 <= eps -> sc_goodR (rc_sc r) (rc_lo r) (rc_hi r) -> sc_monoR (rc_sc r) -> crangeR_ok r ->
  cont_boundsR eps r = Some (a, b) -> a <= v <= b -> cont_from_ndR eps r v = Some x ->
  0 <= a /\ b <= 1 /\ rc_alo r <= x <= rc_ahi r.
Proof.
  intros He (Hinv & Hmono & Hdom) Hmf (_ & _ & Hlh & Hahi & Halo & Haa) Hb Hv Hx.
  unfold cont_boundsR, cont_to_ndR, rc_lo_i, rc_hi_i in Hb.
  unfold cont_from_ndR, scale_from_zero_oneR, rc_lo_i, rc_hi_i in Hx.
  set (sc := rc_sc r) in *. set (lo := rc_lo r) in *. set (hi := rc_hi r) in *.
  set (alo := rc_alo r) in *. set (ahi := rc_ahi r) in *.
  destruct (Rle_dec (lo - eps) alo); [|lra]. destruct (Rle_dec alo (hi + eps)); [|lra].
  destruct (Rle_dec (lo - eps) ahi); [|lra]. destruct (Rle_dec ahi (hi + eps)); [|lra].
  destruct (Rle_dec (- eps) v); [|discriminate]. destruct (Rle_dec v (1 + eps)); [|discriminate].
  injection Hx as <-.
  destruct (Hmono hi ltac:(lra)) as [Hlu _].
  destruct (Hmono alo ltac:(lra)) as [Ha1 Ha2]. destruct (Hmono ahi ltac:(lra)) as [Hb1 Hb2].
  destruct (Req_EM_T (to_intR sc hi) (to_intR sc lo)) as [E|E].
  - injection Hb as <- <-.
    destruct (Rlt_dec 0 (to_intR sc hi - to_intR sc lo)); [lra|].
    (* to hi = to lo forces hi = lo, hence alo = ahi = lo *)
    assert (hi = lo) as Ehl.
    { rewrite <- (Hinv hi ltac:(lra)), <- (Hinv lo ltac:(lra)). f_equal. exact E. }
    repeat split; lra.
  - assert (to_intR sc lo < to_intR sc hi) as Hlt by lra.
    rewrite (Hdom alo ltac:(lra)), (Hdom ahi ltac:(lra)) in Hb.
    set (d := to_intR sc hi - to_intR sc lo) in *.
    assert (0 < d) as Hd by (unfold d; lra).
    assert (forall t, to_intR sc lo <= t <= to_intR sc hi -> 0 <= (t - to_intR sc lo) / d <= 1) as Hratio.
    { intros t Ht. split.
      - apply Rmult_le_pos; [lra|]. left. apply Rinv_0_lt_compat. exact Hd.
      - apply (Rmult_le_reg_r d); [exact Hd|]. unfold Rdiv. rewrite Rmult_assoc, Rinv_l by lra. unfold d. lra. }
    rewrite (Rclip_id _ 0 1 (Hratio _ (conj Ha1 Ha2))), (Rclip_id _ 0 1 (Hratio _ (conj Hb1 Hb2))) in Hb.
    injection Hb as <- <-.
    split; [apply Hratio; lra|]. split; [apply Hratio; lra|].
    destruct (Rlt_dec 0 d); [|lra].
    destruct Hv as [Hv1 Hv2].
    assert (to_intR sc alo <= v * d + to_intR sc lo <= to_intR sc ahi) as Hin.
    { pose proof (Rmult_le_compat_r d _ _ (Rlt_le _ _ Hd) Hv1) as P1.
      pose proof (Rmult_le_compat_r d _ _ (Rlt_le _ _ Hd) Hv2) as P2.
      unfold Rdiv in P1, P2. rewrite Rmult_assoc, Rinv_l, Rmult_1_r in P1 by lra.
      rewrite Rmult_assoc, Rinv_l, Rmult_1_r in P2 by lra. lra. }
    destruct Hin as [Hin1 Hin2].
    pose proof (Hmf _ _ Hin1) as Q1. pose proof (Hmf _ _ Hin2) as Q2.
    rewrite (Hinv alo ltac:(lra)) in Q1. rewrite (Hinv ahi ltac:(lra)) in Q2.
    rewrite Rclip_id; lra.
Qed.

Lemma int_activeR eps r a b v z :
  0 < eps < 1 / 2 -> sc_goodR (ri_sc r) (rc_lo (ri_cont eps r)) (rc_hi (ri_cont eps r)) ->
  sc_monoR (ri_sc r) -> crangeR_ok (ri_cont eps r) ->
  int_boundsR eps r = Some (a, b) -> a <= v <= b -> int_from_ndR eps r v = Some z ->
  0 <= a /\ b <= 1 /\ (ri_alo r <= z <= ri_ahi r)%Z.
Proof.
  intros He Hg Hm Hok Hb Hv Hz. unfold int_from_ndR in Hz.
  destruct (cont_from_ndR eps (ri_cont eps r) v) as [x|] eqn:Ex; [|discriminate]. injection Hz as <-.
  destruct (cont_activeR eps (ri_cont eps r) a b v x) as (Ha & Hb' & Hx); auto; try lra.
  split; [exact Ha|]. split; [exact Hb'|]. simpl in Hx.
  destruct Hok as (_ & _ & _ & Hahi & Halo & _). simpl in Hahi, Halo.
  assert (ri_lo r <= ri_alo r)%Z by (apply le_IZR; lra).
  assert (ri_ahi r <= ri_hi r)%Z by (apply le_IZR; lra).
  assert (ri_alo r <= round_heR x)%Z by (apply round_heR_lb; lra).
  assert (round_heR x <= ri_ahi r)%Z by (apply round_heR_ub; lra).
  unfold round_to_intR, Domain.Zclip. lia.
Qed.

(* ---- samplers ---- *)
Lemma sample_float_scR_member sc lo hi u : lo <= hi -> lo <= sample_float_scR sc lo hi u <= hi.
Proof. intro H. unfold sample_float_scR. apply Rclip_bounds. exact H. Qed.
(* ... and the clip is inactive in real arithmetic: the sample IS from(to lo + (to hi - to lo) u) *)
Lemma sample_float_scR_unclipped sc lo hi u :
  lo <= hi -> sc_goodR sc lo hi -> sc_monoR sc -> 0 <= u <= 1 ->
  sample_float_scR sc lo hi u = from_intR sc (to_intR sc lo + (to_intR sc hi - to_intR sc lo) * u).
Proof.
  intros Hl (Hinv & Hmono & _) Hm Hu. unfold sample_float_scR. apply Rclip_id.
  destruct (Hmono hi ltac:(lra)) as [Hlu _].
  set (a := to_intR sc lo) in *. set (b := to_intR sc hi) in *.
  assert (a <= a + (b - a) * u <= b) as [H1 H2].
  { split.
    - assert (0 <= (b - a) * u) by (apply Rmult_le_pos; lra). lra.
    - assert ((b - a) * u <= (b - a) * 1) by (apply Rmult_le_compat_l; lra). lra. }
  pose proof (Hm _ _ H1) as Q1. pose proof (Hm _ _ H2) as Q2.
  subst a b. rewrite (Hinv lo ltac:(lra)) in Q1. rewrite (Hinv hi ltac:(lra)) in Q2. lra.
Qed.
(* Integer._LogUniform has NO clip: membership rests on exp (ln x) = x and monotonicity of exp *)
Lemma sample_int_logR_member lo hi u :
  (1 <= lo <= hi)%Z -> 0 <= u <= 1 -> (lo <= sample_int_logR lo hi u <= hi)%Z.
Proof.
  intros [H1 H2] Hu. unfold sample_int_logR. rewrite round_heR_IZR.
  apply IZR_le in H1. apply IZR_le in H2.
  set (a := ln (IZR lo)). set (b := ln (IZR hi)).
  assert (a <= b) as Hab by (apply ln_le_le; lra).
  assert (a <= a + (b - a) * u <= b) as [P1 P2].
  { split.
    - assert (0 <= (b - a) * u) by (apply Rmult_le_pos; lra). lra.
    - assert ((b - a) * u <= (b - a) * 1) by (apply Rmult_le_compat_l; lra). lra. }
  apply exp_le_le in P1. apply exp_le_le in P2.
  subst a b. rewrite exp_ln in P1 by lra. rewrite exp_ln in P2 by lra.
  apply round_heR_in. lra.
Qed.

(* ---- finite range with float values: linear AND log scaling ---- *)
(* the other inverse: to (from t) = t on the internal interval (ln (exp t) = t) *)
Lemma real_scaling_inv2 sc lo hi : real_scaling sc lo hi ->
  forall t, to_intR sc (from_intR sc t) = t.
Proof.
  intros [l h|l h H|l h H1 H2] t; simpl.
  - reflexivity.
  - apply ln_exp.
  - replace (1 - (1 - exp (- t))) with (exp (- t)) by ring. rewrite ln_exp. ring.
Qed.

Lemma rf_grid_in r i : real_scaling (rf_sc r) (rf_lo r) (rf_hi r) -> rf_lo r <= rf_hi r ->
  (0 <= i < rf_size r)%Z ->
  rf_lo_i r <= IZR i * rf_step r + rf_lo_i r <= rf_hi_i r /\ 0 <= rf_step r.
Proof.
  intros Hs Hlh Hi. destruct (real_scaling_good _ _ _ Hs) as [(Hinv & Hmono & Hdom) Hm].
  destruct (Hmono (rf_hi r) ltac:(lra)) as [Hlu _]. fold (rf_lo_i r) (rf_hi_i r) in Hlu.
  unfold rf_step. destruct (Z.ltb 1 (rf_size r)) eqn:En.
  - apply Z.ltb_lt in En.
    assert (0 < IZR (rf_size r - 1)) as Hn by (apply IZR_lt; lia).
    set (step := (rf_hi_i r - rf_lo_i r) / IZR (rf_size r - 1)).
    assert (0 <= step) as Hst. { unfold step. apply Rmult_le_pos; [lra|]. left. apply Rinv_0_lt_compat. exact Hn. }
    assert (step * IZR (rf_size r - 1) = rf_hi_i r - rf_lo_i r) as Est by (unfold step; field; lra).
    assert (0 <= IZR i) as Hi0 by (apply IZR_le; lia).
    assert (IZR i <= IZR (rf_size r - 1)) as Hi1 by (apply IZR_le; lia).
    pose proof (Rmult_le_compat_r step _ _ Hst Hi1). pose proof (Rmult_le_pos _ _ Hi0 Hst).
    split; [|exact Hst]. lra.
  - split; [|lra]. lra.
Qed.

(* every listed value round-trips EXACTLY, for linear, log and reverse-log finite ranges
   (finrange / logfinrange with float values) *)
Lemma fr_roundtripR eps r i :
  0 < eps < 1 / 2 -> real_scaling (rf_sc r) (rf_lo r) (rf_hi r) -> rf_lo r <= rf_hi r ->
  (0 <= i < rf_size r)%Z ->
  exists e, fr_to_ndR eps r (fr_map_from_intR r i) = Some e /\ 0 <= e <= 1 /\
            fr_from_ndR eps r e = Some (fr_map_from_intR r i).
Proof.
  intros He Hs Hlh Hi.
  destruct (real_scaling_good _ _ _ Hs) as [(Hinv & Hmono & Hdom) Hm].
  destruct (rf_grid_in r i Hs Hlh Hi) as [Hg Hst].
  destruct (rf_grid_in r 0 Hs Hlh ltac:(lia)) as [Hg0 _].
  (* the grid point is inside [lo, hi] *)
  assert (forall t, rf_lo_i r <= t <= rf_hi_i r -> rf_lo r <= from_intR (rf_sc r) t <= rf_hi r) as Hfrom.
  { intros t [T1 T2]. pose proof (Hm _ _ T1) as Q1. pose proof (Hm _ _ T2) as Q2.
    unfold rf_lo_i in Q1. unfold rf_hi_i in Q2.
    rewrite (Hinv (rf_lo r) ltac:(lra)) in Q1. rewrite (Hinv (rf_hi r) ltac:(lra)) in Q2. lra. }
  assert (sc_goodR (ri_sc (rf_rint r)) (rc_lo (ri_cont eps (rf_rint r))) (rc_hi (ri_cont eps (rf_rint r)))) as Hgi
    by (apply linearR_good).
  unfold fr_to_ndR, fr_from_ndR, fr_map_to_intR.
  set (ti := IZR i * rf_step r + rf_lo_i r) in *.
  assert (fr_map_from_intR r i = from_intR (rf_sc r) ti) as Ey.
  { unfold fr_map_from_intR. fold ti. apply Rclip_id. apply Hfrom. exact Hg. }
  rewrite Ey.
  destruct (Req_EM_T (rf_step r) 0) as [E0|E0].
  - destruct (int_roundtripR eps (rf_rint r) 0%Z He Hgi) as (e & E1 & E2 & E3); [simpl; lia|].
    exists e. rewrite E1, E3. split; [reflexivity|]. split; [exact E2|]. simpl. f_equal.
    unfold fr_map_from_intR. rewrite Rclip_id by (apply Hfrom; exact Hg0).
    f_equal. unfold ti. rewrite E0. ring.
  - assert (0 < rf_step r) as Hpos by lra.
    rewrite (Rclip_id (from_intR (rf_sc r) ti) _ _ (Hfrom ti Hg)).
    rewrite (Hdom _ (Hfrom ti Hg)), (real_scaling_inv2 _ _ _ Hs ti), (Rclip_id ti _ _ Hg).
    replace ((ti - rf_lo_i r) / rf_step r) with (IZR i) by (unfold ti; field; lra).
    rewrite round_heR_IZR.
    destruct (int_roundtripR eps (rf_rint r) i He Hgi) as (e & E1 & E2 & E3); [simpl; lia|].
    exists e. rewrite E1, E3. split; [reflexivity|]. split; [exact E2|]. simpl. f_equal. exact Ey.
Qed.
