(* ReportProofs.v — lemmas about model/Report.v (framing of the metric channel,
   Reporter counter).  Closed development: no assumptions beyond Coq's logic. *)
From Verif Require Import model.Base model.Report.
From Coq Require Import Sorted.
Local Open Scope Z_scope.

(* ---- constants, computed --------------------------------------------------- *)

Definition PRE_TL : text := TAG ++ [93; 58; 32].   (* tune-metric]:<space> *)

Lemma PRE_eq : PRE = 91 :: PRE_TL.
Proof. reflexivity. Qed.

(* no-self-overlap of the tag prefix: "[" occurs in PRE only at position 0 *)
Lemma PRE_TL_no_lbk : ~ In 91 PRE_TL.
Proof.
  intro H. assert (E : existsb (Z.eqb 91) PRE_TL = true).
  { apply existsb_exists. exists 91. split; [exact H | reflexivity]. }
  vm_compute in E. discriminate.
Qed.

Lemma PRE_no_nl : mem_ch NL PRE = false.
Proof. reflexivity. Qed.

Lemma PRE_length : length PRE = 15%nat.
Proof. reflexivity. Qed.

(* ---- strip_prefix ------------------------------------------------------------ *)

Lemma strip_prefix_cons a p b t :
  strip_prefix (a :: p) (b :: t) = if Z.eqb a b then strip_prefix p t else None.
Proof. reflexivity. Qed.

Lemma strip_prefix_exact p r : strip_prefix p (p ++ r) = Some r.
Proof.
  induction p as [|a p IH]; [reflexivity|].
  rewrite <- app_comm_cons, strip_prefix_cons, Z.eqb_refl. exact IH.
Qed.

Lemma strip_prefix_sound p : forall t r, strip_prefix p t = Some r -> t = p ++ r.
Proof.
  induction p as [|a p IH]; intros t r H.
  - cbn in H. injection H as ->. reflexivity.
  - destruct t as [|b t]; [discriminate|].
    rewrite strip_prefix_cons in H. destruct (Z.eqb a b) eqn:E; [|discriminate].
    apply Z.eqb_eq in E. subst b. rewrite (IH _ _ H). reflexivity.
Qed.

Lemma strip_prefix_app_l a b : forall t r,
  strip_prefix (a ++ b) t = Some r -> exists r', strip_prefix a t = Some r'.
Proof.
  induction a as [|x a IH]; intros t r H.
  - exists t. reflexivity.
  - destruct t as [|y t]; [discriminate|].
    rewrite <- app_comm_cons, strip_prefix_cons in H. rewrite strip_prefix_cons.
    destruct (Z.eqb x y); [|discriminate]. eapply IH; eauto.
Qed.

(* if [p] does not contain [c0] and what follows [n] is empty or starts with
   [c0], a match of [p] at the start of [n ++ X] lies inside [n] *)
Lemma strip_prefix_inside p c0 X :
  ~ In c0 p -> (X = [] \/ exists Y, X = c0 :: Y) ->
  forall n r, strip_prefix p (n ++ X) = Some r -> exists r', strip_prefix p n = Some r'.
Proof.
  intros Hp HX. induction p as [|a p IH]; intros n r H.
  - exists n. reflexivity.
  - assert (Hp' : ~ In c0 p) by (intro; apply Hp; right; assumption).
    destruct n as [|b n].
    + exfalso. cbn [app] in H. destruct HX as [-> | [Y ->]]; [discriminate|].
      rewrite strip_prefix_cons in H. destruct (Z.eqb a c0) eqn:E; [|discriminate].
      apply Z.eqb_eq in E. apply Hp. left. exact E.
    + rewrite <- app_comm_cons, strip_prefix_cons in H. rewrite strip_prefix_cons.
      destruct (Z.eqb a b); [|discriminate]. eapply IH; eauto.
Qed.

(* ---- noise without the tag never matches ------------------------------------- *)

Lemma has_tag_cons c n : has_tag (c :: n) = starts_with TAG (c :: n) || has_tag n.
Proof. reflexivity. Qed.

Lemma match_here_nl r : match_here (NL :: r) = None.
Proof. reflexivity. Qed.

Lemma match_here_nil : match_here [] = None.
Proof. reflexivity. Qed.

Lemma match_here_notag c n X :
  has_tag (c :: n) = false -> (X = [] \/ exists Y, X = 91 :: Y) ->
  match_here ((c :: n) ++ X) = None.
Proof.
  intros Hn HX. unfold match_here.
  destruct (strip_prefix PRE ((c :: n) ++ X)) as [r|] eqn:E; [exfalso|reflexivity].
  rewrite PRE_eq, <- app_comm_cons, strip_prefix_cons in E.
  destruct (Z.eqb 91 c); [|discriminate].
  destruct (strip_prefix_inside PRE_TL 91 X PRE_TL_no_lbk HX n r E) as [r' E'].
  unfold PRE_TL in E'. destruct (strip_prefix_app_l _ _ _ _ E') as [r'' E''].
  rewrite has_tag_cons in Hn. apply orb_false_iff in Hn. destruct Hn as [_ Hn].
  destruct n as [|d n]; [discriminate|].
  rewrite has_tag_cons in Hn. apply orb_false_iff in Hn. destruct Hn as [Hn _].
  unfold starts_with in Hn. rewrite E'' in Hn. discriminate.
Qed.

Lemma scan_notag X : (X = [] \/ exists Y, X = 91 :: Y) ->
  forall n, has_tag n = false -> scan (n ++ X) 0 = scan X 0.
Proof.
  intros HX. induction n as [|c n IH]; intro Hn; [reflexivity|].
  assert (Hn' : has_tag n = false).
  { rewrite has_tag_cons in Hn. apply orb_false_iff in Hn. tauto. }
  pose proof (match_here_notag c n X Hn HX) as M.
  rewrite <- app_comm_cons in *. cbn [scan]. rewrite M. exact (IH Hn').
Qed.

(* ---- a report line matches with exactly its payload --------------------------- *)

Lemma upto_last_rbr_snoc q : upto_last_rbr (q ++ [RBR]) = Some q.
Proof.
  induction q as [|c q IH]; [reflexivity|].
  rewrite <- app_comm_cons. cbn [upto_last_rbr]. rewrite IH. reflexivity.
Qed.

Lemma mem_ch_app c a b : mem_ch c (a ++ b) = mem_ch c a || mem_ch c b.
Proof.
  induction a as [|x a IH]; [reflexivity|].
  rewrite <- app_comm_cons. cbn [mem_ch]. rewrite IH, orb_assoc. reflexivity.
Qed.

Lemma line_of_app p rest : mem_ch NL p = false -> line_of (p ++ NL :: rest) = p.
Proof.
  induction p as [|c p IH]; intro H.
  - reflexivity.
  - cbn [mem_ch] in H. apply orb_false_iff in H. destruct H as [H1 H2].
    rewrite <- app_comm_cons. cbn [line_of].
    rewrite Z.eqb_sym in H1. rewrite H1, (IH H2). reflexivity.
Qed.

Lemma payload_shape p : payload_shape_b p = true ->
  exists q, p = LBR :: q ++ [RBR] /\ mem_ch NL p = false.
Proof.
  unfold payload_shape_b. destruct p as [|c q]; [discriminate|]. intro H.
  apply andb_true_iff in H. destruct H as [H H3]. apply andb_true_iff in H. destruct H as [H1 H2].
  apply Z.eqb_eq in H1. apply Z.eqb_eq in H2. apply negb_true_iff in H3. subst c.
  destruct q as [|d q'] eqn:Eq; [cbn in H2; discriminate|].
  assert (Hne : d :: q' <> []) by discriminate.
  exists (removelast (d :: q')). split; [|exact H3].
  rewrite <- H2. f_equal. exact (app_removelast_last 0 Hne).
Qed.

Lemma match_here_report p rest : payload_shape_b p = true ->
  match_here (PRE ++ p ++ NL :: rest) = Some p.
Proof.
  intro Hs. destruct (payload_shape p Hs) as [q [-> Hnl]].
  unfold match_here. rewrite strip_prefix_exact, (line_of_app _ rest Hnl).
  rewrite Z.eqb_refl, upto_last_rbr_snoc. reflexivity.
Qed.

Lemma scan_skip a : forall t, scan (a ++ t) (length a) = scan t 0.
Proof.
  induction a as [|c a IH]; intro t; [reflexivity|].
  rewrite <- app_comm_cons. cbn [scan length]. apply IH.
Qed.

Lemma scan_skip_eq a t k : k = length a -> scan (a ++ t) k = scan t 0.
Proof. intros ->. apply scan_skip. Qed.

Lemma scan_report p rest : payload_shape_b p = true ->
  scan (PRE ++ p ++ NL :: rest) 0 = p :: scan rest 0.
Proof.
  intro Hs. pose proof (match_here_report p rest Hs) as M.
  rewrite PRE_eq in *. rewrite <- app_comm_cons in *. cbn [scan]. rewrite M. f_equal.
  rewrite (app_assoc PRE_TL p (NL :: rest)).
  rewrite (scan_skip_eq (PRE_TL ++ p) (NL :: rest)).
  - cbn [scan]. rewrite match_here_nl. reflexivity.
  - rewrite app_length, PRE_length. change (length PRE_TL) with 14%nat. lia.
Qed.

(* ---- framing ------------------------------------------------------------------- *)

Lemma framing_from : forall cs acc,
  noise_ok_from acc cs = true -> payloads_ok cs = true ->
  findall (acc ++ render cs) = payloads_of cs.
Proof.
  unfold findall. induction cs as [|[s|p] cs IH]; intros acc Hn Hp.
  - cbn [render noise_ok_from payloads_of] in *. apply negb_true_iff in Hn.
    rewrite (scan_notag [] (or_introl eq_refl) acc Hn). reflexivity.
  - cbn [render noise_ok_from payloads_of payloads_ok] in *.
    rewrite app_assoc. apply IH; assumption.
  - cbn [render noise_ok_from payloads_of payloads_ok] in *.
    apply andb_true_iff in Hn. destruct Hn as [Ha Hn]. apply negb_true_iff in Ha.
    apply andb_true_iff in Hp. destruct Hp as [Hs Hp].
    rewrite scan_notag; [|right; rewrite PRE_eq; eexists; reflexivity | exact Ha].
    rewrite (scan_report p (render cs) Hs). f_equal.
    exact (IH [] Hn Hp).
Qed.

Theorem framing cs :
  noise_ok cs = true -> payloads_ok cs = true -> findall (render cs) = payloads_of cs.
Proof. intros Hn Hp. exact (framing_from cs [] Hn Hp). Qed.

(* ---- readlines + "\n".join does not change what the regex finds ----------------- *)

(* every "\n" that is not the last character doubled *)
Fixpoint dbl (t : text) : text :=
  match t with
  | [] => []
  | c :: r => if Z.eqb c NL then NL :: (match r with [] => [] | _ => NL :: dbl r end)
              else c :: dbl r
  end.

Lemma readlines_nil_iff t : readlines t = [] -> t = [].
Proof.
  destruct t as [|c r]; [reflexivity|]. cbn [readlines].
  destruct (Z.eqb c NL); [discriminate|]. destruct (readlines r); discriminate.
Qed.

Lemma join_nl_cons2 l l2 ls : join_nl (l :: l2 :: ls) = l ++ NL :: join_nl (l2 :: ls).
Proof. reflexivity. Qed.

Lemma dbl_nl_cons d r : dbl (NL :: d :: r) = NL :: NL :: dbl (d :: r).
Proof. reflexivity. Qed.

Lemma join_readlines t : join_nl (readlines t) = dbl t.
Proof.
  induction t as [|c r IH]; [reflexivity|].
  destruct (Z.eqb c NL) eqn:E.
  - apply Z.eqb_eq in E. subst c. destruct r as [|d r']; [reflexivity|].
    rewrite dbl_nl_cons, <- IH.
    change (readlines (NL :: d :: r')) with ([NL] :: readlines (d :: r')).
    destruct (readlines (d :: r')) as [|l ls] eqn:El.
    + apply readlines_nil_iff in El. discriminate.
    + rewrite join_nl_cons2. reflexivity.
  - cbn [readlines dbl]. rewrite E. destruct (readlines r) as [|l ls] eqn:El.
    + apply readlines_nil_iff in El. subst r. reflexivity.
    + rewrite <- IH. destruct ls as [|l2 ls]; reflexivity.
Qed.

Lemma line_of_dbl t : line_of (dbl t) = line_of t.
Proof.
  induction t as [|c r IH]; [reflexivity|].
  cbn [dbl line_of]. destruct (Z.eqb c NL) eqn:E.
  - reflexivity.
  - cbn [line_of]. rewrite E, IH. reflexivity.
Qed.

Lemma strip_prefix_dbl p : mem_ch NL p = false ->
  forall t, strip_prefix p (dbl t) = option_map dbl (strip_prefix p t).
Proof.
  induction p as [|a p IH]; intros Hp t; [reflexivity|].
  cbn [mem_ch] in Hp. apply orb_false_iff in Hp. destruct Hp as [Ha Hp].
  destruct t as [|c r]; [reflexivity|].
  cbn [dbl]. destruct (Z.eqb c NL) eqn:E.
  - apply Z.eqb_eq in E. subst c. rewrite !strip_prefix_cons.
    rewrite Z.eqb_sym in Ha. rewrite Ha. reflexivity.
  - rewrite !strip_prefix_cons. destruct (Z.eqb a c); [apply IH; exact Hp | reflexivity].
Qed.

Lemma match_here_dbl t : match_here (dbl t) = match_here t.
Proof.
  unfold match_here. rewrite (strip_prefix_dbl PRE PRE_no_nl).
  destruct (strip_prefix PRE t) as [r|]; [|reflexivity].
  cbn [option_map]. rewrite line_of_dbl. reflexivity.
Qed.

Lemma line_of_split r : exists y, r = line_of r ++ y /\ mem_ch NL (line_of r) = false.
Proof.
  induction r as [|c r [y [IH1 IH2]]].
  - exists []. split; reflexivity.
  - cbn [line_of]. destruct (Z.eqb c NL) eqn:E.
    + exists (c :: r). split; reflexivity.
    + exists y. split.
      * rewrite <- app_comm_cons. f_equal. exact IH1.
      * cbn [mem_ch]. rewrite Z.eqb_sym, E. exact IH2.
Qed.

Lemma upto_last_rbr_split l : forall a, upto_last_rbr l = Some a -> exists b, l = a ++ RBR :: b.
Proof.
  induction l as [|c l IH]; intros a H; [discriminate|].
  cbn [upto_last_rbr] in H. destruct (upto_last_rbr l) as [a'|] eqn:E.
  - injection H as <-. destruct (IH a' eq_refl) as [b ->]. exists b. reflexivity.
  - destruct (Z.eqb c RBR) eqn:Ec; [|discriminate]. injection H as <-.
    apply Z.eqb_eq in Ec. subst c. exists l. reflexivity.
Qed.

(* a match is a piece of the text, and lies on one line *)
Lemma match_here_sound t g : match_here t = Some g ->
  exists rest, t = PRE ++ g ++ rest /\ mem_ch NL g = false.
Proof.
  unfold match_here. destruct (strip_prefix PRE t) as [r|] eqn:E; [|discriminate].
  apply strip_prefix_sound in E. destruct (line_of_split r) as [y [Hr Hnl]].
  destruct (line_of r) as [|c l] eqn:El; [discriminate|].
  destruct (Z.eqb c LBR) eqn:Ec; [|discriminate]. apply Z.eqb_eq in Ec. subst c.
  destruct (upto_last_rbr l) as [a|] eqn:Ea; [|discriminate]. intro H. injection H as <-.
  destruct (upto_last_rbr_split l a Ea) as [b ->].
  exists (b ++ y). split.
  - rewrite E. f_equal. rewrite Hr. cbn [app]. f_equal. rewrite <- !app_assoc. reflexivity.
  - cbn [mem_ch] in *. apply orb_false_iff in Hnl. destruct Hnl as [H1 H2].
    rewrite H1. cbn [orb]. rewrite mem_ch_app in *. apply orb_false_iff in H2. destruct H2 as [H2 H3].
    rewrite H2. cbn [orb mem_ch] in *. apply orb_false_iff in H3. destruct H3 as [H3 _].
    rewrite H3. reflexivity.
Qed.

Lemma scan_dbl : forall t k, mem_ch NL (firstn k t) = false -> scan (dbl t) k = scan t k.
Proof.
  induction t as [|c r IH]; intros k Hk; [reflexivity|].
  destruct k as [|k].
  - pose proof (match_here_dbl (c :: r)) as M. cbn [dbl] in *.
    destruct (Z.eqb c NL) eqn:E.
    + apply Z.eqb_eq in E. subst c. cbn [scan]. rewrite !match_here_nl.
      destruct r as [|d r'] eqn:Er; [reflexivity|]. rewrite <- Er in *.
      cbn [scan]. rewrite match_here_nl. apply IH. reflexivity.
    + cbn [scan]. rewrite M. destruct (match_here (c :: r)) as [g|] eqn:Eg.
      * f_equal. apply IH.
        destruct (match_here_sound _ _ Eg) as [rest [Ht Hg]].
        rewrite PRE_eq in Ht. rewrite <- app_comm_cons in Ht.
        assert (Hr : r = PRE_TL ++ g ++ rest) by exact (f_equal (@tl Z) Ht).
        rewrite Hr. rewrite app_assoc.
        replace (length PRE + length g - 1)%nat with (length (PRE_TL ++ g) + 0)%nat.
        2:{ rewrite app_length, PRE_length. change (length PRE_TL) with 14%nat. lia. }
        rewrite firstn_app_2. cbn [firstn]. rewrite app_nil_r, mem_ch_app, Hg.
        reflexivity.
      * apply IH. reflexivity.
  - cbn [firstn mem_ch] in Hk. apply orb_false_iff in Hk. destruct Hk as [Hc Hk].
    cbn [dbl]. rewrite Z.eqb_sym in Hc. rewrite Hc. cbn [scan]. apply IH. exact Hk.
Qed.

Theorem retrieve_readlines t : retrieve_model (readlines t) = findall t.
Proof.
  unfold retrieve_model, findall. rewrite join_readlines. apply scan_dbl. reflexivity.
Qed.

Theorem framing_lines cs :
  noise_ok cs = true -> payloads_ok cs = true ->
  retrieve_model (readlines (render cs)) = payloads_of cs.
Proof. intros. rewrite retrieve_readlines. apply framing; assumption. Qed.

(* ---- Reporter counter ------------------------------------------------------------ *)

Definition accepted_by_asserts (r : request) : bool :=
  negb (existsb (fun b => b) (rq_none r)) && negb (existsb (starts_with ST_PREFIX) (rq_keys r)).

(* None values and st_ keys: nothing printed, counter untouched *)
Lemma report_call_assert_rejects m1 m2 k r :
  accepted_by_asserts r = false -> report_call m1 m2 k r = (k, AssertionErr, []).
Proof.
  unfold accepted_by_asserts, report_call. intro H.
  destruct (existsb (fun b => b) (rq_none r)); [reflexivity|].
  destruct (existsb (starts_with ST_PREFIX) (rq_keys r)); [reflexivity | discriminate].
Qed.

(* a call prints a report line exactly when its outcome is Emitted; then the
   payload is the oracle's serialisation for the counter it read, the size was
   below the limit, and the counter moved to the successor; otherwise no report
   line reaches the stream (at most one of the two messages) *)
Lemma report_call_spec m1 m2 k r :
  match report_call m1 m2 k r with
  | (k', Emitted j, cs) =>
      j = k /\ k' = S k /\ accepted_by_asserts r = true /\
      exists p sz, rq_dump r k = Some (p, sz) /\ sz < SIZE_LIMIT /\ cs = [Report p]
  | (k', _, cs) => (cs = [] \/ cs = [Noise m1] \/ cs = [Noise m2]) /\ (k' = k \/ k' = S k)
  end.
Proof.
  unfold report_call, accepted_by_asserts.
  destruct (existsb (fun b => b) (rq_none r)); [split; auto|].
  destruct (existsb (starts_with ST_PREFIX) (rq_keys r)); [split; auto|].
  destruct (rq_dump r k) as [[p sz]|] eqn:E; [|split; auto].
  destruct (Z.ltb sz SIZE_LIMIT) eqn:L; [|split; auto].
  apply Z.ltb_lt in L. repeat split; auto. exists p, sz. auto.
Qed.

Lemma run_script_cons_say m1 m2 st s evs :
  run_script m1 m2 st (Say s :: evs) =
  let '(st', os, cs) := run_script m1 m2 st evs in (st', os, Noise s :: cs).
Proof. reflexivity. Qed.

Lemma run_script_cons_call m1 m2 st q evs :
  run_script m1 m2 st (Call q :: evs) =
  let '(st1, o, c1) := report_call m1 m2 st q in
  let '(st', os, cs) := run_script m1 m2 st1 evs in (st', o :: os, c1 ++ cs).
Proof. reflexivity. Qed.

Lemma payloads_of_app a b : payloads_of (a ++ b) = payloads_of a ++ payloads_of b.
Proof.
  induction a as [|[s|p] a IH]; [reflexivity| |]; rewrite <- app_comm_cons; cbn [payloads_of]; rewrite IH; reflexivity.
Qed.

(* the i-th payload on the stream is the serialisation of a call of the script,
   made with the i-th emitted counter value *)
Definition sent_as (evs : list event) (k : nat) (p : text) : Prop :=
  exists r sz, In (Call r) evs /\ accepted_by_asserts r = true /\
               rq_dump r k = Some (p, sz) /\ sz < SIZE_LIMIT.

Lemma sent_as_cons e evs k p : sent_as evs k p -> sent_as (e :: evs) k p.
Proof. intros [r [sz [H1 H2]]]. exists r, sz. split; [right; exact H1 | exact H2]. Qed.

Lemma Forall2_impl {A B} (P Q : A -> B -> Prop) (H : forall a b, P a b -> Q a b) :
  forall l l', Forall2 P l l' -> Forall2 Q l l'.
Proof. induction 1; constructor; auto. Qed.

Definition counter_inv (evs : list event) (k0 : nat) (res : rstate * list outcome * list chunk) : Prop :=
  let '(k', os, cs) := res in
  (k0 <= k')%nat /\
  Forall (fun k => (k0 <= k < k')%nat) (emitted_iters os) /\
  StronglySorted lt (emitted_iters os) /\
  Forall2 (sent_as evs) (emitted_iters os) (payloads_of cs).

Lemma counter_inv_skip e evs k0 k1 k' os cs o c1 :
  (k0 <= k1)%nat -> payloads_of c1 = [] -> emitted_iters [o] = [] ->
  counter_inv evs k1 (k', os, cs) -> counter_inv (e :: evs) k0 (k', o :: os, c1 ++ cs).
Proof.
  intros Hk Hc Ho [H2 [H3 [H4 H5]]]. unfold counter_inv.
  assert (Eo : emitted_iters (o :: os) = emitted_iters os).
  { destruct o; [discriminate| |]; reflexivity. }
  rewrite Eo, payloads_of_app, Hc. cbn [app]. repeat split; auto; [lia| |].
  - eapply Forall_impl; [|exact H3]. cbn. intros; lia.
  - eapply Forall2_impl; [|exact H5]. intros; apply sent_as_cons; assumption.
Qed.

Lemma payloads_of_msgs (m1 m2 : text) cs :
  cs = [] \/ cs = [Noise m1] \/ cs = [Noise m2] -> payloads_of cs = [].
Proof. intros [-> | [-> | ->]]; reflexivity. Qed.

Lemma run_script_counter m1 m2 : forall evs k0,
  counter_inv evs k0 (run_script m1 m2 k0 evs).
Proof.
  induction evs as [|[s|q] evs IH]; intro k0.
  - cbn. repeat split; auto; constructor.
  - rewrite run_script_cons_say. specialize (IH k0).
    destruct (run_script m1 m2 k0 evs) as [[k' os] cs].
    destruct IH as [H2 [H3 [H4 H5]]]. repeat split; auto.
    cbn [payloads_of]. eapply Forall2_impl; [|exact H5]. intros; apply sent_as_cons; assumption.
  - rewrite run_script_cons_call. pose proof (report_call_spec m1 m2 k0 q) as S.
    destruct (report_call m1 m2 k0 q) as [[k1 o] c1].
    destruct o as [j| |].
    + destruct S as [-> [-> [Ha [p [sz [Hd [Hsz ->]]]]]]]. specialize (IH (S k0)).
      destruct (run_script m1 m2 (S k0) evs) as [[k' os] cs].
      destruct IH as [H2 [H3 [H4 H5]]].
      cbn [emitted_iters app payloads_of counter_inv]. repeat split; auto; [lia| | |].
      * constructor; [lia|]. eapply Forall_impl; [|exact H3]. cbn. intros; lia.
      * constructor; [exact H4|]. eapply Forall_impl; [|exact H3]. cbn. intros; lia.
      * constructor.
        -- exists q, sz. split; [left; reflexivity|]. auto.
        -- eapply Forall2_impl; [|exact H5]. intros; apply sent_as_cons; assumption.
    + destruct S as [Hc Hk]. specialize (IH k1).
      destruct (run_script m1 m2 k1 evs) as [[k' os] cs].
      apply (counter_inv_skip _ _ _ k1); auto; [destruct Hk; lia | eapply payloads_of_msgs; eauto].
    + destruct S as [Hc Hk]. specialize (IH k1).
      destruct (run_script m1 m2 k1 evs) as [[k' os] cs].
      apply (counter_inv_skip _ _ _ k1); auto; [destruct Hk; lia | eapply payloads_of_msgs; eauto].
Qed.

(* when serialisation never fails the counter is dense: k0, k0+1, ... *)
Definition ser_always_ok (e : event) : Prop :=
  match e with
  | Say _ => True
  | Call r => forall k, exists p sz, rq_dump r k = Some (p, sz) /\ sz < SIZE_LIMIT
  end.

Lemma run_script_dense m1 m2 : forall evs k0, Forall ser_always_ok evs ->
  match run_script m1 m2 k0 evs with
  | (k', os, _) =>
      emitted_iters os = seq k0 (length (emitted_iters os)) /\
      k' = (k0 + length (emitted_iters os))%nat
  end.
Proof.
  induction evs as [|[s|q] evs IH]; intros k0 Hall.
  - cbn. split; [reflexivity | lia].
  - rewrite run_script_cons_say. inversion Hall; subst. specialize (IH k0 H2).
    destruct (run_script m1 m2 k0 evs) as [[k' os] cs]. exact IH.
  - rewrite run_script_cons_call. inversion Hall as [|? ? Hq Hr]; subst.
    unfold report_call.
    destruct (existsb (fun b => b) (rq_none q)).
    { specialize (IH k0 Hr). destruct (run_script m1 m2 k0 evs) as [[k' os] cs]. exact IH. }
    destruct (existsb (starts_with ST_PREFIX) (rq_keys q)).
    { specialize (IH k0 Hr). destruct (run_script m1 m2 k0 evs) as [[k' os] cs]. exact IH. }
    destruct (Hq k0) as [p [sz [Hd Hsz]]]. rewrite Hd.
    apply Z.ltb_lt in Hsz. rewrite Hsz.
    specialize (IH (S k0) Hr). destruct (run_script m1 m2 (S k0) evs) as [[k' os] cs].
    destruct IH as [IH1 IH2]. cbn [emitted_iters length seq]. split.
    + f_equal. exact IH1.
    + rewrite IH2. lia.
Qed.

(* payload shapes on the stream follow from the shape of every oracle answer *)
Definition dumps_shaped (e : event) : Prop :=
  match e with
  | Say _ => True
  | Call r => forall k p sz, rq_dump r k = Some (p, sz) -> payload_shape_b p = true
  end.

Lemma payloads_ok_app a b : payloads_ok (a ++ b) = payloads_ok a && payloads_ok b.
Proof.
  induction a as [|[s|p] a IH]; [reflexivity| |]; rewrite <- app_comm_cons; cbn [payloads_ok].
  - exact IH.
  - rewrite IH, andb_assoc. reflexivity.
Qed.

Lemma run_script_payloads_ok m1 m2 : forall evs st, Forall dumps_shaped evs ->
  payloads_ok (snd (run_script m1 m2 st evs)) = true.
Proof.
  induction evs as [|[s|q] evs IH]; intros st Hall; [reflexivity| |].
  - rewrite run_script_cons_say. inversion Hall; subst. specialize (IH st H2).
    destruct (run_script m1 m2 st evs) as [[st' os] cs]. exact IH.
  - rewrite run_script_cons_call. inversion Hall as [|? ? Hq Hr]; subst.
    assert (Hc : payloads_ok (snd (report_call m1 m2 st q)) = true).
    { unfold report_call.
      destruct (existsb (fun b => b) (rq_none q)); [reflexivity|].
      destruct (existsb (starts_with ST_PREFIX) (rq_keys q)); [reflexivity|].
      destruct (rq_dump q st) as [[p sz]|] eqn:E; [|reflexivity].
      destruct (Z.ltb sz SIZE_LIMIT); [|reflexivity].
      cbn. rewrite (Hq st p sz E). reflexivity. }
    destruct (report_call m1 m2 st q) as [[st1 o] c1]. specialize (IH st1 Hr).
    destruct (run_script m1 m2 st1 evs) as [[st' os] cs]. cbn [snd] in *.
    rewrite payloads_ok_app, Hc, IH. reflexivity.
Qed.

(* sender, stream, file reading and receiver composed *)
Theorem end_to_end m1 m2 evs k0 :
  Forall dumps_shaped evs ->
  match run_script m1 m2 k0 evs with
  | (_, os, cs) =>
      noise_ok cs = true ->
      retrieve_model (readlines (render cs)) = payloads_of cs /\
      Forall2 (sent_as evs) (emitted_iters os) (payloads_of cs) /\
      StronglySorted lt (emitted_iters os)
  end.
Proof.
  intro Hall. pose proof (run_script_payloads_ok m1 m2 evs k0 Hall) as Hp.
  pose proof (run_script_counter m1 m2 evs k0) as Hc.
  destruct (run_script m1 m2 k0 evs) as [[k' os] cs]. cbn [snd] in Hp.
  destruct Hc as [_ [_ [Hs Hf]]]. intro Hn. repeat split; auto.
  apply framing_lines; assumption.
Qed.

(* the two messages of the current source are tag-free noise *)
Lemma messages_tag_free : has_tag MSG_UNSER = false /\ has_tag MSG_LARGE = false.
Proof. split; reflexivity. Qed.

(* ---- a statement of the plan that the faithful model refutes ------------------------ *)

Definition small_request (p : text) : request :=
  {| rq_keys := [[97]]; rq_none := [false]; rq_dump := fun _ => Some (p, 100) |}.
Definition oversized_request : request :=
  {| rq_keys := [[97]]; rq_none := [false]; rq_dump := fun _ => Some ([LBR; RBR], 60049) |}.

(* "rejected reports do not advance the counter" is false for reports rejected
   by serialisation (size limit / TypeError): self.iter += 1 runs before
   _report_logger.  Witness: an oversized report, then a small one. *)
Lemma counter_dense_refuted :
  exists evs, Forall dumps_shaped evs /\
    run_script MSG_UNSER MSG_LARGE reporter_init evs =
      (2%nat, [AssertionErr; Emitted 1], [Noise MSG_LARGE; Report [LBR; RBR]]).
Proof.
  exists [Call oversized_request; Call (small_request [LBR; RBR])]. split; [|reflexivity].
  repeat constructor; cbn; intros k p sz H; injection H as <- _; reflexivity.
Qed.

(* ---- polling a growing std.out (LocalBackend drops an unterminated last line) ------- *)

(* the longest prefix of [t] that ends with a newline *)
Fixpoint complete (t : text) : text :=
  match t with
  | [] => []
  | c :: r => if Z.eqb c NL then NL :: complete r
              else match complete r with [] => [] | x => c :: x end
  end.

Lemma drop_unterminated_cons2 l l2 ls :
  drop_unterminated (l :: l2 :: ls) = l :: drop_unterminated (l2 :: ls).
Proof. reflexivity. Qed.

Lemma readlines_lines_nonempty t : Forall (fun l => l <> []) (readlines t).
Proof.
  induction t as [|c r IH]; [constructor|].
  cbn [readlines]. destruct (Z.eqb c NL).
  - constructor; [discriminate | exact IH].
  - destruct (readlines r) as [|l ls]; [repeat constructor; discriminate|].
    inversion IH; subst. constructor; [discriminate | assumption].
Qed.

Lemma ends_nl_cons c l : l <> [] -> ends_nl (c :: l) = ends_nl l.
Proof. unfold ends_nl. destruct l; [congruence | reflexivity]. Qed.

Lemma readlines_cons_nonl c r : Z.eqb c NL = false ->
  readlines (c :: r) = match readlines r with [] => [[c]] | l :: ls => (c :: l) :: ls end.
Proof. intro E. cbn [readlines]. rewrite E. reflexivity. Qed.

Lemma complete_cons_nonl c r : Z.eqb c NL = false ->
  complete (c :: r) = match complete r with [] => [] | x => c :: x end.
Proof. intro E. cbn [complete]. rewrite E. reflexivity. Qed.

Lemma drop_readlines t : drop_unterminated (readlines t) = readlines (complete t).
Proof.
  induction t as [|c r IH]; [reflexivity|].
  destruct (Z.eqb c NL) eqn:E.
  - apply Z.eqb_eq in E. subst c.
    change (readlines (NL :: r)) with ([NL] :: readlines r).
    change (complete (NL :: r)) with (NL :: complete r).
    change (readlines (NL :: complete r)) with ([NL] :: readlines (complete r)).
    rewrite <- IH. destruct (readlines r) as [|l ls]; reflexivity.
  - rewrite (readlines_cons_nonl c r E), (complete_cons_nonl c r E).
    pose proof (readlines_lines_nonempty r) as Hne.
    destruct (readlines r) as [|l ls] eqn:El.
    + cbn [drop_unterminated] in *. unfold ends_nl. cbn [last].
      rewrite E. destruct (complete r) as [|x xs] eqn:Ec; [reflexivity|].
      cbn [readlines] in IH. destruct (Z.eqb x NL); [discriminate|].
      destruct (readlines xs); discriminate.
    + inversion Hne as [|? ? Hl Hls]; subst.
      destruct ls as [|l2 ls'].
      * cbn [drop_unterminated] in *. rewrite (ends_nl_cons c l Hl).
        destruct (ends_nl l).
        -- destruct (complete r) as [|x xs] eqn:Ec; [discriminate|].
           rewrite (readlines_cons_nonl c (x :: xs) E), <- IH. reflexivity.
        -- destruct (complete r) as [|x xs] eqn:Ec; [reflexivity|].
           exfalso. cbn [readlines] in IH. destruct (Z.eqb x NL); [discriminate|].
           destruct (readlines xs); discriminate.
      * rewrite drop_unterminated_cons2 in *.
        destruct (complete r) as [|x xs] eqn:Ec; [discriminate|].
        rewrite (readlines_cons_nonl c (x :: xs) E), <- IH. reflexivity.
Qed.

Theorem poll_model_complete t : poll_model t = findall (complete t).
Proof. unfold poll_model. rewrite drop_readlines. apply retrieve_readlines. Qed.

Lemma complete_app_nl a b : complete (a ++ NL :: b) = a ++ NL :: complete b.
Proof.
  induction a as [|c a IH]; [reflexivity|].
  rewrite <- !app_comm_cons. cbn [complete]. rewrite IH.
  destruct (Z.eqb c NL) eqn:E.
  - apply Z.eqb_eq in E. subst c. reflexivity.
  - destruct a; reflexivity.
Qed.

Lemma complete_nonl w : mem_ch NL w = false -> complete w = [].
Proof.
  induction w as [|c w IH]; intro H; [reflexivity|].
  cbn [mem_ch] in H. apply orb_false_iff in H. destruct H as [H1 H2].
  cbn [complete]. rewrite Z.eqb_sym, H1, (IH H2). reflexivity.
Qed.

Lemma complete_app_nonl a w : mem_ch NL w = false -> complete (a ++ w) = complete a.
Proof.
  intro H. induction a as [|c a IH]; [exact (complete_nonl w H)|].
  rewrite <- app_comm_cons. cbn [complete]. rewrite IH. reflexivity.
Qed.

Lemma complete_prefix t : exists rest, t = complete t ++ rest.
Proof.
  induction t as [|c r [rest IH]]; [exists []; reflexivity|].
  cbn [complete]. destruct (Z.eqb c NL) eqn:E.
  - apply Z.eqb_eq in E. subst c. exists rest. rewrite <- app_comm_cons. f_equal. exact IH.
  - destruct (complete r) as [|x xs].
    + exists (c :: r). reflexivity.
    + exists rest. rewrite <- app_comm_cons. f_equal. exact IH.
Qed.

Lemma strip_prefix_app_r p : forall x b r,
  strip_prefix p x = Some r -> strip_prefix p (x ++ b) = Some (r ++ b).
Proof.
  induction p as [|a p IH]; intros x b r H.
  - cbn in *. injection H as ->. reflexivity.
  - destruct x as [|c x]; [discriminate|].
    rewrite <- app_comm_cons, strip_prefix_cons in *. destruct (Z.eqb a c); [|discriminate].
    apply IH. exact H.
Qed.

Lemma has_tag_app_l a b : has_tag (a ++ b) = false -> has_tag a = false.
Proof.
  induction a as [|c a IH]; intro H; [reflexivity|].
  rewrite <- app_comm_cons, has_tag_cons in H. apply orb_false_iff in H. destruct H as [H1 H2].
  rewrite has_tag_cons, (IH H2), orb_false_r.
  unfold starts_with in *. destruct (strip_prefix TAG (c :: a)) as [r|] eqn:E; [|reflexivity].
  rewrite app_comm_cons, (strip_prefix_app_r _ _ b _ E) in H1. discriminate.
Qed.

Lemma findall_complete_notag acc : has_tag acc = false -> findall (complete acc) = [].
Proof.
  intro H. destruct (complete_prefix acc) as [rest Hr]. rewrite Hr in H.
  apply has_tag_app_l in H. unfold findall.
  rewrite <- (app_nil_r (complete acc)). rewrite (scan_notag [] (or_introl eq_refl) _ H). reflexivity.
Qed.

Lemma noise_ok_from_acc cs : forall acc, noise_ok_from acc cs = true -> has_tag acc = false.
Proof.
  induction cs as [|[s|p] cs IH]; intros acc H; cbn [noise_ok_from] in H.
  - apply negb_true_iff in H. exact H.
  - apply IH in H. exact (has_tag_app_l _ _ H).
  - apply andb_true_iff in H. destruct H as [H _]. apply negb_true_iff in H. exact H.
Qed.

Lemma mem_ch_firstn c n : forall x, mem_ch c x = false -> mem_ch c (firstn n x) = false.
Proof.
  induction n as [|n IH]; intros x H; [reflexivity|].
  destruct x as [|d x]; [reflexivity|]. cbn [firstn mem_ch] in *.
  apply orb_false_iff in H. destruct H as [H1 H2]. rewrite H1, (IH x H2). reflexivity.
Qed.

Lemma polling_from : forall cs acc n,
  noise_ok_from acc cs = true -> payloads_ok cs = true ->
  findall (complete (acc ++ firstn n (render cs))) = delivered_upto cs n.
Proof.
  induction cs as [|[s|p] cs IH]; intros acc n Hn Hp.
  - cbn [render delivered_upto]. rewrite firstn_nil, app_nil_r.
    apply findall_complete_notag. apply negb_true_iff. exact Hn.
  - cbn [render delivered_upto noise_ok_from payloads_ok] in *. rewrite firstn_app.
    destruct (Nat.leb (length s) n) eqn:L.
    + apply Nat.leb_le in L. rewrite (firstn_all2 s L), app_assoc. apply IH; assumption.
    + apply Nat.leb_gt in L. replace (n - length s)%nat with 0%nat by lia.
      cbn [firstn]. rewrite app_nil_r.
      pose proof (noise_ok_from_acc _ _ Hn) as Ht.
      rewrite <- (firstn_skipn n s), app_assoc in Ht. apply has_tag_app_l in Ht.
      rewrite (findall_complete_notag _ Ht).
      clear. induction cs as [|[s'|p'] cs IHc]; [reflexivity| |]; cbn [delivered_upto].
      * exact IHc.
      * rewrite PRE_length. reflexivity.
  - cbn [render delivered_upto noise_ok_from payloads_ok] in *.
    apply andb_true_iff in Hn. destruct Hn as [Ha Hn]. apply negb_true_iff in Ha.
    apply andb_true_iff in Hp. destruct Hp as [Hs Hp].
    destruct (payload_shape p Hs) as [q [Hq Hnl]].
    destruct (Nat.leb (length PRE + length p + 1) n) eqn:L.
    + apply Nat.leb_le in L.
      replace (PRE ++ p ++ NL :: render cs) with ((PRE ++ p ++ [NL]) ++ render cs)
        by (rewrite <- !app_assoc; reflexivity).
      rewrite firstn_app, firstn_all2 by (rewrite !app_length; cbn [length]; lia).
      replace (n - length (PRE ++ p ++ [NL]))%nat with (n - (length PRE + length p + 1))%nat
        by (rewrite !app_length; cbn [length]; lia).
      replace (acc ++ (PRE ++ p ++ [NL]) ++ firstn (n - (length PRE + length p + 1)) (render cs))
        with ((acc ++ PRE ++ p) ++ NL :: firstn (n - (length PRE + length p + 1)) (render cs))
        by (rewrite <- !app_assoc; reflexivity).
      rewrite complete_app_nl. unfold findall. rewrite <- app_assoc.
      rewrite scan_notag; [|right; rewrite PRE_eq; eexists; reflexivity | exact Ha].
      rewrite <- app_assoc, (scan_report p _ Hs). f_equal.
      exact (IH [] _ Hn Hp).
    + apply Nat.leb_gt in L.
      replace (PRE ++ p ++ NL :: render cs) with ((PRE ++ p) ++ NL :: render cs)
        by (rewrite <- app_assoc; reflexivity).
      rewrite firstn_app. replace (n - length (PRE ++ p))%nat with 0%nat by (rewrite app_length; lia).
      cbn [firstn]. rewrite app_nil_r, complete_app_nonl.
      * apply findall_complete_notag. exact Ha.
      * apply mem_ch_firstn. rewrite mem_ch_app, PRE_no_nl, Hnl. reflexivity.
Qed.

(* one poll: whatever prefix of the stream is in std.out, LocalBackend parses
   exactly the reports whose line is completely there *)
Theorem polling_prefixes cs n :
  noise_ok cs = true -> payloads_ok cs = true ->
  poll_model (firstn n (render cs)) = delivered_upto cs n.
Proof. intros Hn Hp. rewrite poll_model_complete. exact (polling_from cs [] n Hn Hp). Qed.

Lemma delivered_upto_prefix : forall cs n, exists k, delivered_upto cs n = firstn k (payloads_of cs).
Proof.
  induction cs as [|[s|p] cs IH]; intro n; cbn [delivered_upto payloads_of].
  - exists 0%nat. reflexivity.
  - apply IH.
  - destruct (Nat.leb (length PRE + length p + 1) n).
    + destruct (IH (n - (length PRE + length p + 1))%nat) as [k Hk]. exists (S k). cbn [firstn]. f_equal. exact Hk.
    + exists 0%nat. reflexivity.
Qed.

Lemma delivered_upto_mono : forall cs n m, (n <= m)%nat ->
  exists j, delivered_upto cs n = firstn j (delivered_upto cs m).
Proof.
  induction cs as [|[s|p] cs IH]; intros n m Hnm; cbn [delivered_upto].
  - exists 0%nat. reflexivity.
  - apply IH. lia.
  - destruct (Nat.leb (length PRE + length p + 1) n) eqn:L.
    + apply Nat.leb_le in L. assert (L' : Nat.leb (length PRE + length p + 1) m = true) by (apply Nat.leb_le; lia).
      rewrite L'. destruct (IH (n - (length PRE + length p + 1))%nat (m - (length PRE + length p + 1))%nat) as [j Hj]; [lia|].
      exists (S j). cbn [firstn]. f_equal. exact Hj.
    + exists 0%nat. reflexivity.
Qed.

Lemma delivered_upto_all : forall cs n, (length (render cs) <= n)%nat -> delivered_upto cs n = payloads_of cs.
Proof.
  induction cs as [|[s|p] cs IH]; intros n H; cbn [delivered_upto payloads_of render] in *.
  - reflexivity.
  - rewrite app_length in H. apply IH. lia.
  - rewrite !app_length in H. cbn [length] in H.
    assert (L : Nat.leb (length PRE + length p + 1) n = true) by (apply Nat.leb_le; lia).
    rewrite L. f_equal. apply IH. lia.
Qed.

(* over any increasing sequence of polls the parsed lists are increasing
   prefixes of the payloads, and the poll that sees the whole text has them all *)
Theorem polling_monotone cs n m :
  noise_ok cs = true -> payloads_ok cs = true -> (n <= m)%nat ->
  (exists k, poll_model (firstn n (render cs)) = firstn k (payloads_of cs)) /\
  (exists j, poll_model (firstn n (render cs)) = firstn j (poll_model (firstn m (render cs)))) /\
  ((length (render cs) <= m)%nat -> poll_model (firstn m (render cs)) = payloads_of cs).
Proof.
  intros Hn Hp Hnm. rewrite !polling_prefixes by assumption. repeat split.
  - apply delivered_upto_prefix.
  - apply delivered_upto_mono. exact Hnm.
  - apply delivered_upto_all.
Qed.

(* the old F-C18-3 in model form: bare retrieve on a prefix cut behind a "}"
   inside a payload yields a fragment that is not a payload *)
Definition cut_witness : list chunk :=
  [Report [123; 34; 97; 34; 58; 32; 123; 34; 120; 34; 58; 32; 49; 125; 44; 32; 34; 98; 34; 58; 32; 50; 125]].
  (* {"a": {"x": 1}, "b": 2} *)

Lemma retrieve_on_cut_line_refuted :
  exists cs n g, noise_ok cs = true /\ payloads_ok cs = true /\
    findall (firstn n (render cs)) = [g] /\ ~ In g (payloads_of cs) /\
    poll_model (firstn n (render cs)) = [].
Proof.
  exists cut_witness, 29%nat, [123; 34; 97; 34; 58; 32; 123; 34; 120; 34; 58; 32; 49; 125].
  repeat split; try reflexivity.
  intros [H | []]. discriminate H.
Qed.

(* ---- order of the two reads inside one fetch ------------------------------------------ *)

(* what a worker can do: the text only grows, never beyond the final text, and
   the process has exited only when everything is written *)
Definition worker_trace (total : nat) (tr : list snapshot) : Prop :=
  forall a b, (a <= b < length tr)%nat ->
    (sn_written (nth a tr snap0) <= sn_written (nth b tr snap0) <= total)%nat /\
    (sn_exited (nth a tr snap0) = true -> sn_written (nth a tr snap0) = total).

Theorem fetch_status_first_complete cs tr i j :
  noise_ok cs = true -> payloads_ok cs = true ->
  worker_trace (length (render cs)) tr -> (i <= j < length tr)%nat ->
  fst (fetch_status_then_text cs tr i j) = true ->
  snd (fetch_status_then_text cs tr i j) = payloads_of cs.
Proof.
  intros Hn Hp Htr Hij Hex. unfold fetch_status_then_text in *. cbn [fst snd] in *.
  destruct (Htr i j Hij) as [[Hle Htot] Hdone]. specialize (Hdone Hex).
  rewrite polling_prefixes by assumption. apply delivered_upto_all. lia.
Qed.

Lemma fetch_text_first_refuted :
  exists cs tr i j, noise_ok cs = true /\ payloads_ok cs = true /\
    worker_trace (length (render cs)) tr /\ (i <= j < length tr)%nat /\
    fetch_text_then_status cs tr i j = (true, []) /\ payloads_of cs <> [].
Proof.
  exists cut_witness,
         [{| sn_written := 0; sn_exited := false |}; {| sn_written := 39; sn_exited := true |}],
         0%nat, 1%nat.
  split; [reflexivity|]. split; [reflexivity|]. split; [|split; [cbn; lia|split; [reflexivity|discriminate]]].
  intros a b Hab. cbn [length] in Hab.
  assert (Ha : a = 0%nat \/ a = 1%nat) by lia. assert (Hb : b = 0%nat \/ b = 1%nat) by lia.
  destruct Ha as [-> | ->], Hb as [-> | ->]; try lia; cbn; (split; [lia|]); intro H; try discriminate H; reflexivity.
Qed.

(* ---- wire format: ASCII-only payloads make the channel independent of the stream encoding ---- *)

Definition ascii_preserving (f : Z -> list Z) : Prop := forall c, is_ascii c = true -> f c = [c].

Lemma transcode_app f a b : transcode f (a ++ b) = transcode f a ++ transcode f b.
Proof. unfold transcode. apply flat_map_app. Qed.

Lemma transcode_ascii f t : ascii_preserving f -> ascii_text t = true -> transcode f t = t.
Proof.
  intros Hf. induction t as [|c t IH]; intro H; [reflexivity|].
  cbn [ascii_text forallb] in H. apply andb_true_iff in H. destruct H as [Hc Ht].
  unfold transcode in *. cbn [flat_map]. rewrite (Hf c Hc), (IH Ht). reflexivity.
Qed.

Lemma PRE_ascii : ascii_text PRE = true.
Proof. reflexivity. Qed.

Lemma transcode_render f cs : ascii_preserving f -> payloads_ascii cs = true ->
  transcode f (render cs) = render (map (transcode_chunk f) cs).
Proof.
  intros Hf. induction cs as [|[s|p] cs IH]; intro H; [reflexivity| |]; cbn [render map transcode_chunk payloads_ascii] in *.
  - rewrite transcode_app, (IH H). reflexivity.
  - apply andb_true_iff in H. destruct H as [Hp H].
    rewrite transcode_app, (transcode_ascii f PRE Hf PRE_ascii).
    rewrite transcode_app, (transcode_ascii f p Hf Hp).
    change (NL :: render cs) with ([NL] ++ render cs).
    rewrite transcode_app, (transcode_ascii f [NL] Hf eq_refl), (IH H). reflexivity.
Qed.

Lemma payloads_of_transcode f cs : payloads_of (map (transcode_chunk f) cs) = payloads_of cs.
Proof. induction cs as [|[s|p] cs IH]; [reflexivity| |]; cbn [map transcode_chunk payloads_of]; rewrite IH; reflexivity. Qed.

Lemma payloads_ok_transcode f cs : payloads_ok (map (transcode_chunk f) cs) = payloads_ok cs.
Proof. induction cs as [|[s|p] cs IH]; [reflexivity| |]; cbn [map transcode_chunk payloads_ok]; rewrite IH; reflexivity. Qed.

Theorem encoding_independent f cs n :
  ascii_preserving f -> payloads_ascii cs = true -> payloads_ok cs = true ->
  noise_ok (map (transcode_chunk f) cs) = true ->
  findall (transcode f (render cs)) = payloads_of cs /\
  poll_model (transcode f (render cs)) = payloads_of cs /\
  exists k, poll_model (firstn n (transcode f (render cs))) = firstn k (payloads_of cs).
Proof.
  intros Hf Ha Hp Hn. rewrite (transcode_render f cs Hf Ha).
  rewrite <- (payloads_ok_transcode f) in Hp. rewrite <- (payloads_of_transcode f cs).
  split; [exact (framing _ Hn Hp)|]. split.
  - pose proof (polling_prefixes _ (length (render (map (transcode_chunk f) cs))) Hn Hp) as H.
    rewrite firstn_all in H. rewrite H. apply delivered_upto_all. lia.
  - rewrite (polling_prefixes _ n Hn Hp). apply delivered_upto_prefix.
Qed.
