(* ReportProofs.v — lemmas about model/Report.v (framing of the metric channel,
   Reporter counter).  Closed development: no assumptions beyond Coq's logic. *)
From Verif Require Import model.Base model.Report.
From Coq Require Import Sorted.
Local Open Scope Z_scope.

(* ---- constants, computed --------------------------------------------------- *)

Definition PRE_TL : text := TAG ++ [93; 58; 32].   (* tune-metric]:<space> *)

Lemma PRE_eq : PRE = 91 :: PRE_TL.
Proof. reflexivity. Qed.

(* no-self-overlap of the tag prefix: "[" occurs in PRE only at position 0 *)
Lemma PRE_TL_no_lbk : ~ In 91 PRE_TL.
Proof.
  intro H. assert (E : existsb (Z.eqb 91) PRE_TL = true).
  { apply existsb_exists. exists 91. split; [exact H | reflexivity]. }
  vm_compute in E. discriminate.
Qed.

Lemma PRE_no_nl : mem_ch NL PRE = false.
Proof. reflexivity. Qed.

Lemma PRE_length : length PRE = 15%nat.
Proof. reflexivity. Qed.

(* ---- strip_prefix ------------------------------------------------------------ *)

Lemma strip_prefix_cons a p b t :
  strip_prefix (a :: p) (b :: t) = if Z.eqb a b then strip_prefix p t else None.
Proof. reflexivity. Qed.

Lemma strip_prefix_exact p r : strip_prefix p (p ++ r) = Some r.
Proof.
  induction p as [|a p IH]; [reflexivity|].
  rewrite <- app_comm_cons, strip_prefix_cons, Z.eqb_refl. exact IH.
Qed.

Lemma strip_prefix_sound p : forall t r, strip_prefix p t = Some r -> t = p ++ r.
Proof.
  induction p as [|a p IH]; intros t r H.
  - cbn in H. injection H as ->. reflexivity.
  - destruct t as [|b t]; [discriminate|].
    rewrite strip_prefix_cons in H. destruct (Z.eqb a b) eqn:E; [|discriminate].
    apply Z.eqb_eq in E. subst b. rewrite (IH _ _ H). reflexivity.
Qed.

Lemma strip_prefix_app_l a b : forall t r,
  strip_prefix (a ++ b) t = Some r -> exists r', strip_prefix a t = Some r'.
Proof.
  induction a as [|x a IH]; intros t r H.
  - exists t. reflexivity.
  - destruct t as [|y t]; [discriminate|].
    rewrite <- app_comm_cons, strip_prefix_cons in H. rewrite strip_prefix_cons.
    destruct (Z.eqb x y); [|discriminate]. eapply IH; eauto.
Qed.

(* if [p] does not contain [c0] and what follows [n] is empty or starts with
   [c0], a match of [p] at the start of [n ++ X] lies inside [n] *)
Lemma strip_prefix_inside p c0 X :
  ~ In c0 p -> (X = [] \/ exists Y, X = c0 :: Y) ->
  forall n r, strip_prefix p (n ++ X) = Some r -> exists r', strip_prefix p n = Some r'.
Proof.
  intros Hp HX. induction p as [|a p IH]; intros n r H.
  - exists n. reflexivity.
  - assert (Hp' : ~ In c0 p) by (intro; apply Hp; right; assumption).
    destruct n as [|b n].
    + exfalso. cbn [app] in H. destruct HX as [-> | [Y ->]]; [discriminate|].
      rewrite strip_prefix_cons in H. destruct (Z.eqb a c0) eqn:E; [|discriminate].
      apply Z.eqb_eq in E. apply Hp. left. exact E.
    + rewrite <- app_comm_cons, strip_prefix_cons in H. rewrite strip_prefix_cons.
      destruct (Z.eqb a b); [|discriminate]. eapply IH; eauto.
Qed.

(* ---- noise without the tag never matches ------------------------------------- *)

Lemma has_tag_cons c n : has_tag (c :: n) = starts_with TAG (c :: n) || has_tag n.
Proof. reflexivity. Qed.

Lemma match_here_nl r : match_here (NL :: r) = None.
Proof. reflexivity. Qed.

Lemma match_here_nil : match_here [] = None.
Proof. reflexivity. Qed.

Lemma match_here_notag c n X :
  has_tag (c :: n) = false -> (X = [] \/ exists Y, X = 91 :: Y) ->
  match_here ((c :: n) ++ X) = None.
Proof.
  intros Hn HX. unfold match_here.
  destruct (strip_prefix PRE ((c :: n) ++ X)) as [r|] eqn:E; [exfalso|reflexivity].
  rewrite PRE_eq, <- app_comm_cons, strip_prefix_cons in E.
  destruct (Z.eqb 91 c); [|discriminate].
  destruct (strip_prefix_inside PRE_TL 91 X PRE_TL_no_lbk HX n r E) as [r' E'].
  unfold PRE_TL in E'. destruct (strip_prefix_app_l _ _ _ _ E') as [r'' E''].
  rewrite has_tag_cons in Hn. apply orb_false_iff in Hn. destruct Hn as [_ Hn].
  destruct n as [|d n]; [discriminate|].
  rewrite has_tag_cons in Hn. apply orb_false_iff in Hn. destruct Hn as [Hn _].
  unfold starts_with in Hn. rewrite E'' in Hn. discriminate.
Qed.

Lemma scan_notag X : (X = [] \/ exists Y, X = 91 :: Y) ->
  forall n, has_tag n = false -> scan (n ++ X) 0 = scan X 0.
Proof.
  intros HX. induction n as [|c n IH]; intro Hn; [reflexivity|].
  assert (Hn' : has_tag n = false).
  { rewrite has_tag_cons in Hn. apply orb_false_iff in Hn. tauto. }
  pose proof (match_here_notag c n X Hn HX) as M.
  rewrite <- app_comm_cons in *. cbn [scan]. rewrite M. exact (IH Hn').
Qed.

(* ---- a report line matches with exactly its payload --------------------------- *)

Lemma upto_last_rbr_snoc q : upto_last_rbr (q ++ [RBR]) = Some q.
Proof.
  induction q as [|c q IH]; [reflexivity|].
  rewrite <- app_comm_cons. cbn [upto_last_rbr]. rewrite IH. reflexivity.
Qed.

Lemma mem_ch_app c a b : mem_ch c (a ++ b) = mem_ch c a || mem_ch c b.
Proof.
  induction a as [|x a IH]; [reflexivity|].
  rewrite <- app_comm_cons. cbn [mem_ch]. rewrite IH, orb_assoc. reflexivity.
Qed.

Lemma line_of_app p rest : mem_ch NL p = false -> line_of (p ++ NL :: rest) = p.
Proof.
  induction p as [|c p IH]; intro H.
  - reflexivity.
  - cbn [mem_ch] in H. apply orb_false_iff in H. destruct H as [H1 H2].
    rewrite <- app_comm_cons. cbn [line_of].
    rewrite Z.eqb_sym in H1. rewrite H1, (IH H2). reflexivity.
Qed.

Lemma payload_shape p : payload_shape_b p = true ->
  exists q, p = LBR :: q ++ [RBR] /\ mem_ch NL p = false.
Proof.
  unfold payload_shape_b. destruct p as [|c q]; [discriminate|]. intro H.
  apply andb_true_iff in H. destruct H as [H H3]. apply andb_true_iff in H. destruct H as [H1 H2].
  apply Z.eqb_eq in H1. apply Z.eqb_eq in H2. apply negb_true_iff in H3. subst c.
  destruct q as [|d q'] eqn:Eq; [cbn in H2; discriminate|].
  assert (Hne : d :: q' <> []) by discriminate.
  exists (removelast (d :: q')). split; [|exact H3].
  rewrite <- H2. f_equal. exact (app_removelast_last 0 Hne).
Qed.

Lemma match_here_report p rest : payload_shape_b p = true ->
  match_here (PRE ++ p ++ NL :: rest) = Some p.
Proof.
  intro Hs. destruct (payload_shape p Hs) as [q [-> Hnl]].
  unfold match_here. rewrite strip_prefix_exact, (line_of_app _ rest Hnl).
  rewrite Z.eqb_refl, upto_last_rbr_snoc. reflexivity.
Qed.

Lemma scan_skip a : forall t, scan (a ++ t) (length a) = scan t 0.
Proof.
  induction a as [|c a IH]; intro t; [reflexivity|].
  rewrite <- app_comm_cons. cbn [scan length]. apply IH.
Qed.

Lemma scan_skip_eq a t k : k = length a -> scan (a ++ t) k = scan t 0.
Proof. intros ->. apply scan_skip. Qed.

Lemma scan_report p rest : payload_shape_b p = true ->
  scan (PRE ++ p ++ NL :: rest) 0 = p :: scan rest 0.
Proof.
  intro Hs. pose proof (match_here_report p rest Hs) as M.
  rewrite PRE_eq in *. rewrite <- app_comm_cons in *. cbn [scan]. rewrite M. f_equal.
  rewrite (app_assoc PRE_TL p (NL :: rest)).
  rewrite (scan_skip_eq (PRE_TL ++ p) (NL :: rest)).
  - cbn [scan]. rewrite match_here_nl. reflexivity.
  - rewrite app_length, PRE_length. change (length PRE_TL) with 14%nat. lia.
Qed.

(* ---- framing ------------------------------------------------------------------- *)

Lemma framing_from : forall cs acc,
  noise_ok_from acc cs = true -> payloads_ok cs = true ->
  findall (acc ++ render cs) = payloads_of cs.
Proof.
  unfold findall. induction cs as [|[s|p] cs IH]; intros acc Hn Hp.
  - cbn [render noise_ok_from payloads_of] in *. apply negb_true_iff in Hn.
    rewrite (scan_notag [] (or_introl eq_refl) acc Hn). reflexivity.
  - cbn [render noise_ok_from payloads_of payloads_ok] in *.
    rewrite app_assoc. apply IH; assumption.
  - cbn [render noise_ok_from payloads_of payloads_ok] in *.
    apply andb_true_iff in Hn. destruct Hn as [Ha Hn]. apply negb_true_iff in Ha.
    apply andb_true_iff in Hp. destruct Hp as [Hs Hp].
    rewrite scan_notag; [|right; rewrite PRE_eq; eexists; reflexivity | exact Ha].
    rewrite (scan_report p (render cs) Hs). f_equal.
    exact (IH [] Hn Hp).
Qed.

Theorem framing cs :
  noise_ok cs = true -> payloads_ok cs = true -> findall (render cs) = payloads_of cs.
Proof. intros Hn Hp. exact (framing_from cs [] Hn Hp). Qed.

(* ---- readlines + "\n".join does not change what the regex finds ----------------- *)

(* every "\n" that is not the last character doubled *)
Fixpoint dbl (t : text) : text :=
  match t with
  | [] => []
  | c :: r => if Z.eqb c NL then NL :: (match r with [] => [] | _ => NL :: dbl r end)
              else c :: dbl r
  end.

Lemma readlines_nil_iff t : readlines t = [] -> t = [].
Proof.
  destruct t as [|c r]; [reflexivity|]. cbn [readlines].
  destruct (Z.eqb c NL); [discriminate|]. destruct (readlines r); discriminate.
Qed.

Lemma join_nl_cons2 l l2 ls : join_nl (l :: l2 :: ls) = l ++ NL :: join_nl (l2 :: ls).
Proof. reflexivity. Qed.

Lemma dbl_nl_cons d r : dbl (NL :: d :: r) = NL :: NL :: dbl (d :: r).
Proof. reflexivity. Qed.

Lemma join_readlines t : join_nl (readlines t) = dbl t.
Proof.
  induction t as [|c r IH]; [reflexivity|].
  destruct (Z.eqb c NL) eqn:E.
  - apply Z.eqb_eq in E. subst c. destruct r as [|d r']; [reflexivity|].
    rewrite dbl_nl_cons, <- IH.
    change (readlines (NL :: d :: r')) with ([NL] :: readlines (d :: r')).
    destruct (readlines (d :: r')) as [|l ls] eqn:El.
    + apply readlines_nil_iff in El. discriminate.
    + rewrite join_nl_cons2. reflexivity.
  - cbn [readlines dbl]. rewrite E. destruct (readlines r) as [|l ls] eqn:El.
    + apply readlines_nil_iff in El. subst r. reflexivity.
    + rewrite <- IH. destruct ls as [|l2 ls]; reflexivity.
Qed.

Lemma line_of_dbl t : line_of (dbl t) = line_of t.
Proof.
  induction t as [|c r IH]; [reflexivity|].
  cbn [dbl line_of]. destruct (Z.eqb c NL) eqn:E.
  - reflexivity.
  - cbn [line_of]. rewrite E, IH. reflexivity.
Qed.

Lemma strip_prefix_dbl p : mem_ch NL p = false ->
  forall t, strip_prefix p (dbl t) = option_map dbl (strip_prefix p t).
Proof.
  induction p as [|a p IH]; intros Hp t; [reflexivity|].
  cbn [mem_ch] in Hp. apply orb_false_iff in Hp. destruct Hp as [Ha Hp].
  destruct t as [|c r]; [reflexivity|].
  cbn [dbl]. destruct (Z.eqb c NL) eqn:E.
  - apply Z.eqb_eq in E. subst c. rewrite !strip_prefix_cons.
    rewrite Z.eqb_sym in Ha. rewrite Ha. reflexivity.
  - rewrite !strip_prefix_cons. destruct (Z.eqb a c); [apply IH; exact Hp | reflexivity].
Qed.

Lemma match_here_dbl t : match_here (dbl t) = match_here t.
Proof.
  unfold match_here. rewrite (strip_prefix_dbl PRE PRE_no_nl).
  destruct (strip_prefix PRE t) as [r|]; [|reflexivity].
  cbn [option_map]. rewrite line_of_dbl. reflexivity.
Qed.

Lemma line_of_split r : exists y, r = line_of r ++ y /\ mem_ch NL (line_of r) = false.
Proof.
  induction r as [|c r [y [IH1 IH2]]].
  - exists []. split; reflexivity.
  - cbn [line_of]. destruct (Z.eqb c NL) eqn:E.
    + exists (c :: r). split; reflexivity.
    + exists y. split.
      * rewrite <- app_comm_cons. f_equal. exact IH1.
      * cbn [mem_ch]. rewrite Z.eqb_sym, E. exact IH2.
Qed.

Lemma upto_last_rbr_split l : forall a, upto_last_rbr l = Some a -> exists b, l = a ++ RBR :: b.
Proof.
  induction l as [|c l IH]; intros a H; [discriminate|].
  cbn [upto_last_rbr] in H. destruct (upto_last_rbr l) as [a'|] eqn:E.
  - injection H as <-. destruct (IH a' eq_refl) as [b ->]. exists b. reflexivity.
  - destruct (Z.eqb c RBR) eqn:Ec; [|discriminate]. injection H as <-.
    apply Z.eqb_eq in Ec. subst c. exists l. reflexivity.
Qed.

(* a match is a piece of the text, and lies on one line *)
Lemma match_here_sound t g : match_here t = Some g ->
  exists rest, t = PRE ++ g ++ rest /\ mem_ch NL g = false.
Proof.
  unfold match_here. destruct (strip_prefix PRE t) as [r|] eqn:E; [|discriminate].
  apply strip_prefix_sound in E. destruct (line_of_split r) as [y [Hr Hnl]].
  destruct (line_of r) as [|c l] eqn:El; [discriminate|].
  destruct (Z.eqb c LBR) eqn:Ec; [|discriminate]. apply Z.eqb_eq in Ec. subst c.
  destruct (upto_last_rbr l) as [a|] eqn:Ea; [|discriminate]. intro H. injection H as <-.
  destruct (upto_last_rbr_split l a Ea) as [b ->].
  exists (b ++ y). split.
  - rewrite E. f_equal. rewrite Hr. cbn [app]. f_equal. rewrite <- !app_assoc. reflexivity.
  - cbn [mem_ch] in *. apply orb_false_iff in Hnl. destruct Hnl as [H1 H2].
    rewrite H1. cbn [orb]. rewrite mem_ch_app in *. apply orb_false_iff in H2. destruct H2 as [H2 H3].
    rewrite H2. cbn [orb mem_ch] in *. apply orb_false_iff in H3. destruct H3 as [H3 _].
    rewrite H3. reflexivity.
Qed.

Lemma scan_dbl : forall t k, mem_ch NL (firstn k t) = false -> scan (dbl t) k = scan t k.
Proof.
  induction t as [|c r IH]; intros k Hk; [reflexivity|].
  destruct k as [|k].
  - pose proof (match_here_dbl (c :: r)) as M. cbn [dbl] in *.
    destruct (Z.eqb c NL) eqn:E.
    + apply Z.eqb_eq in E. subst c. cbn [scan]. rewrite !match_here_nl.
      destruct r as [|d r'] eqn:Er; [reflexivity|]. rewrite <- Er in *.
      cbn [scan]. rewrite match_here_nl. apply IH. reflexivity.
    + cbn [scan]. rewrite M. destruct (match_here (c :: r)) as [g|] eqn:Eg.
      * f_equal. apply IH.
        destruct (match_here_sound _ _ Eg) as [rest [Ht Hg]].
        rewrite PRE_eq in Ht. rewrite <- app_comm_cons in Ht.
        assert (Hr : r = PRE_TL ++ g ++ rest) by exact (f_equal (@tl Z) Ht).
        rewrite Hr. rewrite app_assoc.
        replace (length PRE + length g - 1)%nat with (length (PRE_TL ++ g) + 0)%nat.
        2:{ rewrite app_length, PRE_length. change (length PRE_TL) with 14%nat. lia. }
        rewrite firstn_app_2. cbn [firstn]. rewrite app_nil_r, mem_ch_app, Hg.
        reflexivity.
      * apply IH. reflexivity.
  - cbn [firstn mem_ch] in Hk. apply orb_false_iff in Hk. destruct Hk as [Hc Hk].
    cbn [dbl]. rewrite Z.eqb_sym in Hc. rewrite Hc. cbn [scan]. apply IH. exact Hk.
Qed.

Theorem retrieve_readlines t : retrieve_model (readlines t) = findall t.
Proof.
  unfold retrieve_model, findall. rewrite join_readlines. apply scan_dbl. reflexivity.
Qed.

Theorem framing_lines cs :
  noise_ok cs = true -> payloads_ok cs = true ->
  retrieve_model (readlines (render cs)) = payloads_of cs.
Proof. intros. rewrite retrieve_readlines. apply framing; assumption. Qed.

(* ---- Reporter counter ------------------------------------------------------------ *)

Definition accepted_by_asserts (r : request) : bool :=
  negb (existsb (fun b => b) (rq_none r)) && negb (existsb (starts_with ST_PREFIX) (rq_keys r)).

(* None values and st_ keys: nothing printed, counter untouched *)
Lemma report_call_assert_rejects m1 m2 k r :
  accepted_by_asserts r = false -> report_call m1 m2 k r = (k, AssertionErr, []).
Proof.
  unfold accepted_by_asserts, report_call. intro H.
  destruct (existsb (fun b => b) (rq_none r)); [reflexivity|].
  destruct (existsb (starts_with ST_PREFIX) (rq_keys r)); [reflexivity | discriminate].
Qed.

(* a call prints a report line exactly when its outcome is Emitted; then the
   payload is the oracle's serialisation for the counter it read, the size was
   below the limit, and the counter moved to the successor; otherwise no report
   line reaches the stream (at most one of the two messages) *)
Lemma report_call_spec m1 m2 k r :
  match report_call m1 m2 k r with
  | (k', Emitted j, cs) =>
      j = k /\ k' = S k /\ accepted_by_asserts r = true /\
      exists p sz, rq_dump r k = Some (p, sz) /\ sz < SIZE_LIMIT /\ cs = [Report p]
  | (k', _, cs) => (cs = [] \/ cs = [Noise m1] \/ cs = [Noise m2]) /\ (k' = k \/ k' = S k)
  end.
Proof.
  unfold report_call, accepted_by_asserts.
  destruct (existsb (fun b => b) (rq_none r)); [split; auto|].
  destruct (existsb (starts_with ST_PREFIX) (rq_keys r)); [split; auto|].
  destruct (rq_dump r k) as [[p sz]|] eqn:E; [|split; auto].
  destruct (Z.ltb sz SIZE_LIMIT) eqn:L; [|split; auto].
  apply Z.ltb_lt in L. repeat split; auto. exists p, sz. auto.
Qed.

Lemma run_script_cons_say m1 m2 st s evs :
  run_script m1 m2 st (Say s :: evs) =
  let '(st', os, cs) := run_script m1 m2 st evs in (st', os, Noise s :: cs).
Proof. reflexivity. Qed.

Lemma run_script_cons_call m1 m2 st q evs :
  run_script m1 m2 st (Call q :: evs) =
  let '(st1, o, c1) := report_call m1 m2 st q in
  let '(st', os, cs) := run_script m1 m2 st1 evs in (st', o :: os, c1 ++ cs).
Proof. reflexivity. Qed.

Lemma payloads_of_app a b : payloads_of (a ++ b) = payloads_of a ++ payloads_of b.
Proof.
  induction a as [|[s|p] a IH]; [reflexivity| |]; rewrite <- app_comm_cons; cbn [payloads_of]; rewrite IH; reflexivity.
Qed.

(* the i-th payload on the stream is the serialisation of a call of the script,
   made with the i-th emitted counter value *)
Definition sent_as (evs : list event) (k : nat) (p : text) : Prop :=
  exists r sz, In (Call r) evs /\ accepted_by_asserts r = true /\
               rq_dump r k = Some (p, sz) /\ sz < SIZE_LIMIT.

Lemma sent_as_cons e evs k p : sent_as evs k p -> sent_as (e :: evs) k p.
Proof. intros [r [sz [H1 H2]]]. exists r, sz. split; [right; exact H1 | exact H2]. Qed.

Lemma Forall2_impl {A B} (P Q : A -> B -> Prop) (H : forall a b, P a b -> Q a b) :
  forall l l', Forall2 P l l' -> Forall2 Q l l'.
Proof. induction 1; constructor; auto. Qed.

Definition counter_inv (evs : list event) (k0 : nat) (res : rstate * list outcome * list chunk) : Prop :=
  let '(k', os, cs) := res in
  (k0 <= k')%nat /\
  Forall (fun k => (k0 <= k < k')%nat) (emitted_iters os) /\
  StronglySorted lt (emitted_iters os) /\
  Forall2 (sent_as evs) (emitted_iters os) (payloads_of cs).

Lemma counter_inv_skip e evs k0 k1 k' os cs o c1 :
  (k0 <= k1)%nat -> payloads_of c1 = [] -> emitted_iters [o] = [] ->
  counter_inv evs k1 (k', os, cs) -> counter_inv (e :: evs) k0 (k', o :: os, c1 ++ cs).
Proof.
  intros Hk Hc Ho [H2 [H3 [H4 H5]]]. unfold counter_inv.
  assert (Eo : emitted_iters (o :: os) = emitted_iters os).
  { destruct o; [discriminate| |]; reflexivity. }
  rewrite Eo, payloads_of_app, Hc. cbn [app]. repeat split; auto; [lia| |].
  - eapply Forall_impl; [|exact H3]. cbn. intros; lia.
  - eapply Forall2_impl; [|exact H5]. intros; apply sent_as_cons; assumption.
Qed.

Lemma payloads_of_msgs (m1 m2 : text) cs :
  cs = [] \/ cs = [Noise m1] \/ cs = [Noise m2] -> payloads_of cs = [].
Proof. intros [-> | [-> | ->]]; reflexivity. Qed.

Lemma run_script_counter m1 m2 : forall evs k0,
  counter_inv evs k0 (run_script m1 m2 k0 evs).
Proof.
  induction evs as [|[s|q] evs IH]; intro k0.
  - cbn. repeat split; auto; constructor.
  - rewrite run_script_cons_say. specialize (IH k0).
    destruct (run_script m1 m2 k0 evs) as [[k' os] cs].
    destruct IH as [H2 [H3 [H4 H5]]]. repeat split; auto.
    cbn [payloads_of]. eapply Forall2_impl; [|exact H5]. intros; apply sent_as_cons; assumption.
  - rewrite run_script_cons_call. pose proof (report_call_spec m1 m2 k0 q) as S.
    destruct (report_call m1 m2 k0 q) as [[k1 o] c1].
    destruct o as [j| |].
    + destruct S as [-> [-> [Ha [p [sz [Hd [Hsz ->]]]]]]]. specialize (IH (S k0)).
      destruct (run_script m1 m2 (S k0) evs) as [[k' os] cs].
      destruct IH as [H2 [H3 [H4 H5]]].
      cbn [emitted_iters app payloads_of counter_inv]. repeat split; auto; [lia| | |].
      * constructor; [lia|]. eapply Forall_impl; [|exact H3]. cbn. intros; lia.
      * constructor; [exact H4|]. eapply Forall_impl; [|exact H3]. cbn. intros; lia.
      * constructor.
        -- exists q, sz. split; [left; reflexivity|]. auto.
        -- eapply Forall2_impl; [|exact H5]. intros; apply sent_as_cons; assumption.
    + destruct S as [Hc Hk]. specialize (IH k1).
      destruct (run_script m1 m2 k1 evs) as [[k' os] cs].
      apply (counter_inv_skip _ _ _ k1); auto; [destruct Hk; lia | eapply payloads_of_msgs; eauto].
    + destruct S as [Hc Hk]. specialize (IH k1).
      destruct (run_script m1 m2 k1 evs) as [[k' os] cs].
      apply (counter_inv_skip _ _ _ k1); auto; [destruct Hk; lia | eapply payloads_of_msgs; eauto].
Qed.

(* when serialisation never fails the counter is dense: k0, k0+1, ... *)
Definition ser_always_ok (e : event) : Prop :=
  match e with
  | Say _ => True
  | Call r => forall k, exists p sz, rq_dump r k = Some (p, sz) /\ sz < SIZE_LIMIT
  end.

Lemma run_script_dense m1 m2 : forall evs k0, Forall ser_always_ok evs ->
  match run_script m1 m2 k0 evs with
  | (k', os, _) =>
      emitted_iters os = seq k0 (length (emitted_iters os)) /\
      k' = (k0 + length (emitted_iters os))%nat
  end.
Proof.
  induction evs as [|[s|q] evs IH]; intros k0 Hall.
  - cbn. split; [reflexivity | lia].
  - rewrite run_script_cons_say. inversion Hall; subst. specialize (IH k0 H2).
    destruct (run_script m1 m2 k0 evs) as [[k' os] cs]. exact IH.
  - rewrite run_script_cons_call. inversion Hall as [|? ? Hq Hr]; subst.
    unfold report_call.
    destruct (existsb (fun b => b) (rq_none q)).
    { specialize (IH k0 Hr). destruct (run_script m1 m2 k0 evs) as [[k' os] cs]. exact IH. }
    destruct (existsb (starts_with ST_PREFIX) (rq_keys q)).
    { specialize (IH k0 Hr). destruct (run_script m1 m2 k0 evs) as [[k' os] cs]. exact IH. }
    destruct (Hq k0) as [p [sz [Hd Hsz]]]. rewrite Hd.
    apply Z.ltb_lt in Hsz. rewrite Hsz.
    specialize (IH (S k0) Hr). destruct (run_script m1 m2 (S k0) evs) as [[k' os] cs].
    destruct IH as [IH1 IH2]. cbn [emitted_iters length seq]. split.
    + f_equal. exact IH1.
    + rewrite IH2. lia.
Qed.

(* payload shapes on the stream follow from the shape of every oracle answer *)
Definition dumps_shaped (e : event) : Prop :=
  match e with
  | Say _ => True
  | Call r => forall k p sz, rq_dump r k = Some (p, sz) -> payload_shape_b p = true
  end.

Lemma payloads_ok_app a b : payloads_ok (a ++ b) = payloads_ok a && payloads_ok b.
Proof.
  induction a as [|[s|p] a IH]; [reflexivity| |]; rewrite <- app_comm_cons; cbn [payloads_ok].
  - exact IH.
  - rewrite IH, andb_assoc. reflexivity.
Qed.

Lemma run_script_payloads_ok m1 m2 : forall evs st, Forall dumps_shaped evs ->
  payloads_ok (snd (run_script m1 m2 st evs)) = true.
Proof.
  induction evs as [|[s|q] evs IH]; intros st Hall; [reflexivity| |].
  - rewrite run_script_cons_say. inversion Hall; subst. specialize (IH st H2).
    destruct (run_script m1 m2 st evs) as [[st' os] cs]. exact IH.
  - rewrite run_script_cons_call. inversion Hall as [|? ? Hq Hr]; subst.
    assert (Hc : payloads_ok (snd (report_call m1 m2 st q)) = true).
    { unfold report_call.
      destruct (existsb (fun b => b) (rq_none q)); [reflexivity|].
      destruct (existsb (starts_with ST_PREFIX) (rq_keys q)); [reflexivity|].
      destruct (rq_dump q st) as [[p sz]|] eqn:E; [|reflexivity].
      destruct (Z.ltb sz SIZE_LIMIT); [|reflexivity].
      cbn. rewrite (Hq st p sz E). reflexivity. }
    destruct (report_call m1 m2 st q) as [[st1 o] c1]. specialize (IH st1 Hr).
    destruct (run_script m1 m2 st1 evs) as [[st' os] cs]. cbn [snd] in *.
    rewrite payloads_ok_app, Hc, IH. reflexivity.
Qed.

(* sender, stream, file reading and receiver composed *)
Theorem end_to_end m1 m2 evs k0 :
  Forall dumps_shaped evs ->
  match run_script m1 m2 k0 evs with
  | (_, os, cs) =>
      noise_ok cs = true ->
      retrieve_model (readlines (render cs)) = payloads_of cs /\
      Forall2 (sent_as evs) (emitted_iters os) (payloads_of cs) /\
      StronglySorted lt (emitted_iters os)
  end.
Proof.
  intro Hall. pose proof (run_script_payloads_ok m1 m2 evs k0 Hall) as Hp.
  pose proof (run_script_counter m1 m2 evs k0) as Hc.
  destruct (run_script m1 m2 k0 evs) as [[k' os] cs]. cbn [snd] in Hp.
  destruct Hc as [_ [_ [Hs Hf]]]. intro Hn. repeat split; auto.
  apply framing_lines; assumption.
Qed.

(* the two messages of the current source are tag-free noise *)
Lemma messages_tag_free : has_tag MSG_UNSER = false /\ has_tag MSG_LARGE = false.
Proof. split; reflexivity. Qed.

(* ---- a statement of the plan that the faithful model refutes ------------------------ *)

Definition small_request (p : text) : request :=
  {| rq_keys := [[97]]; rq_none := [false]; rq_dump := fun _ => Some (p, 100) |}.
Definition oversized_request : request :=
  {| rq_keys := [[97]]; rq_none := [false]; rq_dump := fun _ => Some ([LBR; RBR], 60049) |}.

(* "rejected reports do not advance the counter" is false for reports rejected
   by serialisation (size limit / TypeError): self.iter += 1 runs before
   _report_logger.  Witness: an oversized report, then a small one. *)
Lemma counter_dense_refuted :
  exists evs, Forall dumps_shaped evs /\
    run_script MSG_UNSER MSG_LARGE reporter_init evs =
      (2%nat, [AssertionErr; Emitted 1], [Noise MSG_LARGE; Report [LBR; RBR]]).
Proof.
  exists [Call oversized_request; Call (small_request [LBR; RBR])]. split; [|reflexivity].
  repeat constructor; cbn; intros k p sz H; injection H as <- _; reflexivity.
Qed.

(* ---- polling a growing std.out (LocalBackend drops an unterminated last line) ------- *)

(* the longest prefix of [t] that ends with a newline *)
Fixpoint complete (t : text) : text :=
  match t with
  | [] => []
  | c :: r => if Z.eqb c NL then NL :: complete r
              else match complete r with [] => [] | x => c :: x end
  end.

Lemma drop_unterminated_cons2 l l2 ls :
  drop_unterminated (l :: l2 :: ls) = l :: drop_unterminated (l2 :: ls).
Proof. reflexivity. Qed.

Lemma readlines_lines_nonempty t : Forall (fun l => l <> []) (readlines t).
Proof.
  induction t as [|c r IH]; [constructor|].
  cbn [readlines]. destruct (Z.eqb c NL).
  - constructor; [discriminate | exact IH].
  - destruct (readlines r) as [|l ls]; [repeat constructor; discriminate|].
    inversion IH; subst. constructor; [discriminate | assumption].
Qed.

Lemma ends_nl_cons c l : l <> [] -> ends_nl (c :: l) = ends_nl l.
Proof. unfold ends_nl. destruct l; [congruence | reflexivity]. Qed.

Lemma readlines_cons_nonl c r : Z.eqb c NL = false ->
  readlines (c :: r) = match readlines r with [] => [[c]] | l :: ls => (c :: l) :: ls end.
Proof. intro E. cbn [readlines]. rewrite E. reflexivity. Qed.

Lemma complete_cons_nonl c r : Z.eqb c NL = false ->
  complete (c :: r) = match complete r with [] => [] | x => c :: x end.
Proof. intro E. cbn [complete]. rewrite E. reflexivity. Qed.

Lemma drop_readlines t : drop_unterminated (readlines t) = readlines (complete t).
Proof.
  induction t as [|c r IH]; [reflexivity|].
  destruct (Z.eqb c NL) eqn:E.
  - apply Z.eqb_eq in E. subst c.
    change (readlines (NL :: r)) with ([NL] :: readlines r).
    change (complete (NL :: r)) with (NL :: complete r).
    change (readlines (NL :: complete r)) with ([NL] :: readlines (complete r)).
    rewrite <- IH. destruct (readlines r) as [|l ls]; reflexivity.
  - rewrite (readlines_cons_nonl c r E), (complete_cons_nonl c r E).
    pose proof (readlines_lines_nonempty r) as Hne.
    destruct (readlines r) as [|l ls] eqn:El.
    + cbn [drop_unterminated] in *. unfold ends_nl. cbn [last].
      rewrite E. destruct (complete r) as [|x xs] eqn:Ec; [reflexivity|].
      cbn [readlines] in IH. destruct (Z.eqb x NL); [discriminate|].
      destruct (readlines xs); discriminate.
    + inversion Hne as [|? ? Hl Hls]; subst.
      destruct ls as [|l2 ls'].
      * cbn [drop_unterminated] in *. rewrite (ends_nl_cons c l Hl).
        destruct (ends_nl l).
        -- destruct (complete r) as [|x xs] eqn:Ec; [discriminate|].
           rewrite (readlines_cons_nonl c (x :: xs) E), <- IH. reflexivity.
        -- destruct (complete r) as [|x xs] eqn:Ec; [reflexivity|].
           exfalso. cbn [readlines] in IH. destruct (Z.eqb x NL); [discriminate|].
           destruct (readlines xs); discriminate.
      * rewrite drop_unterminated_cons2 in *.
        destruct (complete r) as [|x xs] eqn:Ec; [discriminate|].
        rewrite (readlines_cons_nonl c (x :: xs) E), <- IH. reflexivity.
Qed.

Theorem poll_model_complete t : poll_model t = findall (complete t).
Proof. unfold poll_model. rewrite drop_readlines. apply retrieve_readlines. Qed.

Lemma complete_app_nl a b : complete (a ++ NL :: b) = a ++ NL :: complete b.
Proof.
  induction a as [|c a IH]; [reflexivity|].
  rewrite <- !app_comm_cons. cbn [complete]. rewrite IH.
  destruct (Z.eqb c NL) eqn:E.
  - apply Z.eqb_eq in E. subst c. reflexivity.
  - destruct a; reflexivity.
Qed.

Lemma complete_nonl w : mem_ch NL w = false -> complete w = [].
Proof.
  induction w as [|c w IH]; intro H; [reflexivity|].
  cbn [mem_ch] in H. apply orb_false_iff in H. destruct H as [H1 H2].
  cbn [complete]. rewrite Z.eqb_sym, H1, (IH H2). reflexivity.
Qed.

Lemma complete_app_nonl a w : mem_ch NL w = false -> complete (a ++ w) = complete a.
Proof.
  intro H. induction a as [|c a IH]; [exact (complete_nonl w H)|].
  rewrite <- app_comm_cons. cbn [complete]. rewrite IH. reflexivity.
Qed.

Lemma complete_prefix t : exists rest, t = complete t ++ rest.
Proof.
  induction t as [|c r [rest IH]]; [exists []; reflexivity|].
  cbn [complete]. destruct (Z.eqb c NL) eqn:E.
  - apply Z.eqb_eq in E. subst c. exists rest. rewrite <- app_comm_cons. f_equal. exact IH.
  - destruct (complete r) as [|x xs].
    + exists (c :: r). reflexivity.
    + exists rest. rewrite <- app_comm_cons. f_equal. exact IH.
Qed.

Lemma strip_prefix_app_r p : forall x b r,
  strip_prefix p x = Some r -> strip_prefix p (x ++ b) = Some (r ++ b).
Proof.
  induction p as [|a p IH]; intros x b r H.
  - cbn in *. injection H as ->. reflexivity.
  - destruct x as [|c x]; [discriminate|].
    rewrite <- app_comm_cons, strip_prefix_cons in *. destruct (Z.eqb a c); [|discriminate].
    apply IH. exact H.
Qed.

Lemma has_tag_app_l a b : has_tag (a ++ b) = false -> has_tag a = false.
Proof.
  induction a as [|c a IH]; intro H; [reflexivity|].
  rewrite <- app_comm_cons, has_tag_cons in H. apply orb_false_iff in H. destruct H as [H1 H2].
  rewrite has_tag_cons, (IH H2), orb_false_r.
  unfold starts_with in *. destruct (strip_prefix TAG (c :: a)) as [r|] eqn:E; [|reflexivity].
  rewrite app_comm_cons, (strip_prefix_app_r _ _ b _ E) in H1. discriminate.
Qed.

Lemma findall_complete_notag acc : has_tag acc = false -> findall (complete acc) = [].
Proof.
  intro H. destruct (complete_prefix acc) as [rest Hr]. rewrite Hr in H.
  apply has_tag_app_l in H. unfold findall.
  rewrite <- (app_nil_r (complete acc)). rewrite (scan_notag [] (or_introl eq_refl) _ H). reflexivity.
Qed.

Lemma noise_ok_from_acc cs : forall acc, noise_ok_from acc cs = true -> has_tag acc = false.
Proof.
  induction cs as [|[s|p] cs IH]; intros acc H; cbn [noise_ok_from] in H.
  - apply negb_true_iff in H. exact H.
  - apply IH in H. exact (has_tag_app_l _ _ H).
  - apply andb_true_iff in H. destruct H as [H _]. apply negb_true_iff in H. exact H.
Qed.

Lemma mem_ch_firstn c n : forall x, mem_ch c x = false -> mem_ch c (firstn n x) = false.
Proof.
  induction n as [|n IH]; intros x H; [reflexivity|].
  destruct x as [|d x]; [reflexivity|]. cbn [firstn mem_ch] in *.
  apply orb_false_iff in H. destruct H as [H1 H2]. rewrite H1, (IH x H2). reflexivity.
Qed.

Lemma polling_from : forall cs acc n,
  noise_ok_from acc cs = true -> payloads_ok cs = true ->
  findall (complete (acc ++ firstn n (render cs))) = delivered_upto cs n.
Proof.
  induction cs as [|[s|p] cs IH]; intros acc n Hn Hp.
  - cbn [render delivered_upto]. rewrite firstn_nil, app_nil_r.
    apply findall_complete_notag. apply negb_true_iff. exact Hn.
  - cbn [render delivered_upto noise_ok_from payloads_ok] in *. rewrite firstn_app.
    destruct (Nat.leb (length s) n) eqn:L.
    + apply Nat.leb_le in L. rewrite (firstn_all2 s L), app_assoc. apply IH; assumption.
    + apply Nat.leb_gt in L. replace (n - length s)%nat with 0%nat by lia.
      cbn [firstn]. rewrite app_nil_r.
      pose proof (noise_ok_from_acc _ _ Hn) as Ht.
      rewrite <- (firstn_skipn n s), app_assoc in Ht. apply has_tag_app_l in Ht.
      rewrite (findall_complete_notag _ Ht).
      clear. induction cs as [|[s'|p'] cs IHc]; [reflexivity| |]; cbn [delivered_upto].
      * exact IHc.
      * rewrite PRE_length. reflexivity.
  - cbn [render delivered_upto noise_ok_from payloads_ok] in *.
    apply andb_true_iff in Hn. destruct Hn as [Ha Hn]. apply negb_true_iff in Ha.
    apply andb_true_iff in Hp. destruct Hp as [Hs Hp].
    destruct (payload_shape p Hs) as [q [Hq Hnl]].
    destruct (Nat.leb (length PRE + length p + 1) n) eqn:L.
    + apply Nat.leb_le in L.
      replace (PRE ++ p ++ NL :: render cs) with ((PRE ++ p ++ [NL]) ++ render cs)
        by (rewrite <- !app_assoc; reflexivity).
      rewrite firstn_app, firstn_all2 by (rewrite !app_length; cbn [length]; lia).
      replace (n - length (PRE ++ p ++ [NL]))%nat with (n - (length PRE + length p + 1))%nat
        by (rewrite !app_length; cbn [length]; lia).
      replace (acc ++ (PRE ++ p ++ [NL]) ++ firstn (n - (length PRE + length p + 1)) (render cs))
        with ((acc ++ PRE ++ p) ++ NL :: firstn (n - (length PRE + length p + 1)) (render cs))
        by (rewrite <- !app_assoc; reflexivity).
      rewrite complete_app_nl. unfold findall. rewrite <- app_assoc.
      rewrite scan_notag; [|right; rewrite PRE_eq; eexists; reflexivity | exact Ha].
      rewrite <- app_assoc, (scan_report p _ Hs). f_equal.
      exact (IH [] _ Hn Hp).
    + apply Nat.leb_gt in L.
      replace (PRE ++ p ++ NL :: render cs) with ((PRE ++ p) ++ NL :: render cs)
        by (rewrite <- app_assoc; reflexivity).
      rewrite firstn_app. replace (n - length (PRE ++ p))%nat with 0%nat by (rewrite app_length; lia).
      cbn [firstn]. rewrite app_nil_r, complete_app_nonl.
      * apply findall_complete_notag. exact Ha.
      * apply mem_ch_firstn. rewrite mem_ch_app, PRE_no_nl, Hnl. reflexivity.
Qed.

(* one poll: whatever prefix of the stream is in std.out, LocalBackend parses
   exactly the reports whose line is completely there *)
Theorem polling_prefixes cs n :
  noise_ok cs = true -> payloads_ok cs = true ->
  poll_model (firstn n (render cs)) = delivered_upto cs n.
Proof. intros Hn Hp. rewrite poll_model_complete. exact (polling_from cs [] n Hn Hp). Qed.

Lemma delivered_upto_prefix : forall cs n, exists k, delivered_upto cs n = firstn k (payloads_of cs).
Proof.
  induction cs as [|[s|p] cs IH]; intro n; cbn [delivered_upto payloads_of].
  - exists 0%nat. reflexivity.
  - apply IH.
  - destruct (Nat.leb (length PRE + length p + 1) n).
    + destruct (IH (n - (length PRE + length p + 1))%nat) as [k Hk]. exists (S k). cbn [firstn]. f_equal. exact Hk.
    + exists 0%nat. reflexivity.
Qed.

Lemma delivered_upto_mono : forall cs n m, (n <= m)%nat ->
  exists j, delivered_upto cs n = firstn j (delivered_upto cs m).
Proof.
  induction cs as [|[s|p] cs IH]; intros n m Hnm; cbn [delivered_upto].
  - exists 0%nat. reflexivity.
  - apply IH. lia.
  - destruct (Nat.leb (length PRE + length p + 1) n) eqn:L.
    + apply Nat.leb_le in L. assert (L' : Nat.leb (length PRE + length p + 1) m = true) by (apply Nat.leb_le; lia).
      rewrite L'. destruct (IH (n - (length PRE + length p + 1))%nat (m - (length PRE + length p + 1))%nat) as [j Hj]; [lia|].
      exists (S j). cbn [firstn]. f_equal. exact Hj.
    + exists 0%nat. reflexivity.
Qed.

Lemma delivered_upto_all : forall cs n, (length (render cs) <= n)%nat -> delivered_upto cs n = payloads_of cs.
Proof.
  induction cs as [|[s|p] cs IH]; intros n H; cbn [delivered_upto payloads_of render] in *.
  - reflexivity.
  - rewrite app_length in H. apply IH. lia.
  - rewrite !app_length in H. cbn [length] in H.
    assert (L : Nat.leb (length PRE + length p + 1) n = true) by (apply Nat.leb_le; lia).
    rewrite L. f_equal. apply IH. lia.
Qed.

(* over any increasing sequence of polls the parsed lists are increasing
   prefixes of the payloads, and the poll that sees the whole text has them all *)
Theorem polling_monotone cs n m :
  noise_ok cs = true -> payloads_ok cs = true -> (n <= m)%nat ->
  (exists k, poll_model (firstn n (render cs)) = firstn k (payloads_of cs)) /\
  (exists j, poll_model (firstn n (render cs)) = firstn j (poll_model (firstn m (render cs)))) /\
  ((length (render cs) <= m)%nat -> poll_model (firstn m (render cs)) = payloads_of cs).
Proof.
  intros Hn Hp Hnm. rewrite !polling_prefixes by assumption. repeat split.
  - apply delivered_upto_prefix.
  - apply delivered_upto_mono. exact Hnm.
  - apply delivered_upto_all.
Qed.

(* the old F-C18-3 in model form: bare retrieve on a prefix cut behind a "}"
   inside a payload yields a fragment that is not a payload *)
Definition cut_witness : list chunk :=
  [Report [123; 34; 97; 34; 58; 32; 123; 34; 120; 34; 58; 32; 49; 125; 44; 32; 34; 98; 34; 58; 32; 50; 125]].
  (* {"a": {"x": 1}, "b": 2} *)

Lemma retrieve_on_cut_line_refuted :
  exists cs n g, noise_ok cs = true /\ payloads_ok cs = true /\
    findall (firstn n (render cs)) = [g] /\ ~ In g (payloads_of cs) /\
    poll_model (firstn n (render cs)) = [].
Proof.
  exists cut_witness, 29%nat, [123; 34; 97; 34; 58; 32; 123; 34; 120; 34; 58; 32; 49; 125].
  repeat split; try reflexivity.
  intros [H | []]. discriminate H.
Qed.

(* ---- order of the two reads inside one fetch ------------------------------------------ *)

(* what a worker can do: the text only grows, never beyond the final text, and
   the process has exited only when everything is written *)
Definition worker_trace (total : nat) (tr : list snapshot) : Prop :=
  forall a b, (a <= b < length tr)%nat ->
    (sn_written (nth a tr snap0) <= sn_written (nth b tr snap0) <= total)%nat /\
    (sn_exited (nth a tr snap0) = true -> sn_written (nth a tr snap0) = total).

Theorem fetch_status_first_complete cs tr i j :
  noise_ok cs = true -> payloads_ok cs = true ->
  worker_trace (length (render cs)) tr -> (i <= j < length tr)%nat ->
  fst (fetch_status_then_text cs tr i j) = true ->
  snd (fetch_status_then_text cs tr i j) = payloads_of cs.
Proof.
  intros Hn Hp Htr Hij Hex. unfold fetch_status_then_text in *. cbn [fst snd] in *.
  destruct (Htr i j Hij) as [[Hle Htot] Hdone]. specialize (Hdone Hex).
  rewrite polling_prefixes by assumption. apply delivered_upto_all. lia.
Qed.

Lemma fetch_text_first_refuted :
  exists cs tr i j, noise_ok cs = true /\ payloads_ok cs = true /\
    worker_trace (length (render cs)) tr /\ (i <= j < length tr)%nat /\
    fetch_text_then_status cs tr i j = (true, []) /\ payloads_of cs <> [].
Proof.
  exists cut_witness,
         [{| sn_written := 0; sn_exited := false |}; {| sn_written := 39; sn_exited := true |}],
         0%nat, 1%nat.
  split; [reflexivity|]. split; [reflexivity|]. split; [|split; [cbn; lia|split; [reflexivity|discriminate]]].
  intros a b Hab. cbn [length] in Hab.
  assert (Ha : a = 0%nat \/ a = 1%nat) by lia. assert (Hb : b = 0%nat \/ b = 1%nat) by lia.
  destruct Ha as [-> | ->], Hb as [-> | ->]; try lia; cbn; (split; [lia|]); intro H; try discriminate H; reflexivity.
Qed.

(* ---- wire format: ASCII-only payloads make the channel independent of the stream encoding ---- *)

Definition ascii_preserving (f : Z -> list Z) : Prop := forall c, is_ascii c = true -> f c = [c].

Lemma transcode_app f a b : transcode f (a ++ b) = transcode f a ++ transcode f b.
Proof. unfold transcode. apply flat_map_app. Qed.

Lemma transcode_ascii f t : ascii_preserving f -> ascii_text t = true -> transcode f t = t.
Proof.
  intros Hf. induction t as [|c t IH]; intro H; [reflexivity|].
  cbn [ascii_text forallb] in H. apply andb_true_iff in H. destruct H as [Hc Ht].
  unfold transcode in *. cbn [flat_map]. rewrite (Hf c Hc), (IH Ht). reflexivity.
Qed.

Lemma PRE_ascii : ascii_text PRE = true.
Proof. reflexivity. Qed.

Lemma transcode_render f cs : ascii_preserving f -> payloads_ascii cs = true ->
  transcode f (render cs) = render (map (transcode_chunk f) cs).
Proof.
  intros Hf. induction cs as [|[s|p] cs IH]; intro H; [reflexivity| |]; cbn [render map transcode_chunk payloads_ascii] in *.
  - rewrite transcode_app, (IH H). reflexivity.
  - apply andb_true_iff in H. destruct H as [Hp H].
    rewrite transcode_app, (transcode_ascii f PRE Hf PRE_ascii).
    rewrite transcode_app, (transcode_ascii f p Hf Hp).
    change (NL :: render cs) with ([NL] ++ render cs).
    rewrite transcode_app, (transcode_ascii f [NL] Hf eq_refl), (IH H). reflexivity.
Qed.

Lemma payloads_of_transcode f cs : payloads_of (map (transcode_chunk f) cs) = payloads_of cs.
Proof. induction cs as [|[s|p] cs IH]; [reflexivity| |]; cbn [map transcode_chunk payloads_of]; rewrite IH; reflexivity. Qed.

Lemma payloads_ok_transcode f cs : payloads_ok (map (transcode_chunk f) cs) = payloads_ok cs.
Proof. induction cs as [|[s|p] cs IH]; [reflexivity| |]; cbn [map transcode_chunk payloads_ok]; rewrite IH; reflexivity. Qed.

Theorem encoding_independent f cs n :
  ascii_preserving f -> payloads_ascii cs = true -> payloads_ok cs = true ->
  noise_ok (map (transcode_chunk f) cs) = true ->
  findall (transcode f (render cs)) = payloads_of cs /\
  poll_model (transcode f (render cs)) = payloads_of cs /\
  exists k, poll_model (firstn n (transcode f (render cs))) = firstn k (payloads_of cs).
Proof.
  intros Hf Ha Hp Hn. rewrite (transcode_render f cs Hf Ha).
  rewrite <- (payloads_ok_transcode f) in Hp. rewrite <- (payloads_of_transcode f cs).
  split; [exact (framing _ Hn Hp)|]. split.
  - pose proof (polling_prefixes _ (length (render (map (transcode_chunk f) cs))) Hn Hp) as H.
    rewrite firstn_all in H. rewrite H. apply delivered_upto_all. lia.
  - rewrite (polling_prefixes _ n Hn Hp). apply delivered_upto_prefix.
Qed.

(* ==== JSON layer ================================================================== *)
From Coq Require Import ZifyBool.

Section jvalue_induction.
  Variable P : jvalue -> Prop.
  Hypothesis HNull : P JNull.
  Hypothesis HBool : forall b, P (JBool b).
  Hypothesis HNum : forall t, P (JNum t).
  Hypothesis HStr : forall s, P (JStr s).
  Hypothesis HList : forall l, Forall P l -> P (JList l).
  Hypothesis HDict : forall kvs, Forall (fun kv => P (snd kv)) kvs -> P (JDict kvs).
  Fixpoint jvalue_ind2 (v : jvalue) : P v :=
    match v with
    | JNull => HNull
    | JBool b => HBool b
    | JNum t => HNum t
    | JStr s => HStr s
    | JList l => HList l ((fix go (l : list jvalue) : Forall P l :=
                             match l with
                             | [] => Forall_nil _
                             | x :: r => Forall_cons x (jvalue_ind2 x) (go r)
                             end) l)
    | JDict kvs => HDict kvs ((fix go (l : list (list Z * jvalue)) : Forall (fun kv => P (snd kv)) l :=
                                match l with
                                | [] => Forall_nil _
                                | kv :: r => Forall_cons kv (jvalue_ind2 (snd kv)) (go r)
                                end) kvs)
    end.
End jvalue_induction.

Lemma dumps_list l : dumps (JList l) = 91 :: dumps_items l ++ [93].
Proof.
  reflexivity.
Qed.

Lemma dumps_dict kvs : dumps (JDict kvs) = LBR :: dumps_pairs kvs ++ [RBR].
Proof.
  reflexivity.
Qed.

(* ASCII and not a newline *)
Definition okc (c : Z) : bool := is_ascii c && negb (Z.eqb c NL).
Definition clean (t : list Z) : bool := forallb okc t.

Lemma clean_app a b : clean (a ++ b) = clean a && clean b.
Proof. apply forallb_app. Qed.

Lemma hexdigit_ok n : 0 <= n < 16 -> okc (hexdigit n) = true.
Proof. intro H. unfold okc, is_ascii, hexdigit, NL. destruct (Z.ltb n 10) eqn:E; lia. Qed.

Lemma hex4_clean c : 0 <= c < 65536 -> clean (hex4 c) = true.
Proof.
  intro H. unfold hex4, clean. cbn [forallb].
  rewrite !hexdigit_ok; [reflexivity| | | |].
  - pose proof (Z.mod_pos_bound c 16); lia.
  - pose proof (Z.mod_pos_bound (c / 16) 16); lia.
  - pose proof (Z.mod_pos_bound (c / 256) 16); lia.
  - split; [apply Z.div_pos; lia | apply Z.div_lt_upper_bound; lia].
Qed.

Lemma esc_u_clean c : 0 <= c < 65536 -> clean (esc_u c) = true.
Proof. intro H. unfold esc_u. change (clean (92 :: 117 :: hex4 c)) with (clean (hex4 c)). apply hex4_clean; exact H. Qed.

Lemma escape_char_clean c : codepoint_ok c = true -> clean (escape_char c) = true.
Proof.
  unfold codepoint_ok. intro H. unfold escape_char.
  destruct (Z.eqb c 34); [reflexivity|]. destruct (Z.eqb c 92); [reflexivity|].
  destruct (Z.eqb c 10); [reflexivity|]. destruct (Z.eqb c 13); [reflexivity|].
  destruct (Z.eqb c 9); [reflexivity|]. destruct (Z.eqb c 8); [reflexivity|].
  destruct (Z.eqb c 12); [reflexivity|].
  destruct (Z.leb 32 c && Z.leb c 126) eqn:E1.
  - unfold clean, okc, is_ascii, NL. cbn [forallb]. lia.
  - destruct (Z.ltb c 65536) eqn:E2.
    + apply esc_u_clean. lia.
    + rewrite clean_app, !esc_u_clean; [reflexivity| |].
      * pose proof (Z.mod_pos_bound (c - 65536) 1024). lia.
      * assert (0 <= (c - 65536) / 1024 < 1024); [|lia].
        split; [apply Z.div_pos; lia | apply Z.div_lt_upper_bound; lia].
Qed.

Lemma dump_string_clean s : forallb codepoint_ok s = true -> clean (dump_string s) = true.
Proof.
  intro H. unfold dump_string. change (clean (34 :: flat_map escape_char s ++ [34])) with (clean (flat_map escape_char s ++ [34])).
  rewrite clean_app. rewrite andb_true_iff. split; [|reflexivity].
  induction s as [|c s IH]; [reflexivity|].
  cbn [forallb flat_map] in *. apply andb_true_iff in H. destruct H as [Hc Hs].
  rewrite clean_app, (escape_char_clean c Hc), (IH Hs). reflexivity.
Qed.

Lemma numchar_ok c : numchar c = true -> okc c = true.
Proof. unfold numchar, okc, is_ascii, NL. cbn [mem_ch]. lia. Qed.

Lemma numtok_clean t : numtok_ok t = true -> clean t = true.
Proof.
  unfold numtok_ok. destruct t as [|c t]; [discriminate|]. intro H.
  apply andb_true_iff in H. destruct H as [_ H]. unfold clean.
  apply forallb_forall. intros x Hx. apply numchar_ok. rewrite forallb_forall in H. apply H. exact Hx.
Qed.

(* every serialisation is ASCII-only text without a raw newline *)
Theorem dumps_clean : forall v, jwf v = true -> clean (dumps v) = true.
Proof.
  induction v as [| [|] | t | s | l IH | kvs IH] using jvalue_ind2; intro H; try reflexivity.
  - apply numtok_clean. exact H.
  - apply dump_string_clean. exact H.
  - rewrite dumps_list. change (clean (91 :: dumps_items l ++ [93])) with (clean (dumps_items l ++ [93])).
    rewrite clean_app, andb_true_iff. split; [|reflexivity]. cbn [jwf] in H.
    induction l as [|x l IHl]; [reflexivity|]. inversion IH as [|? ? Hx Hl]; subst.
    cbn [forallb] in H. apply andb_true_iff in H. destruct H as [H1 H2].
    destruct l as [|y l]; [exact (Hx H1)|].
    change (dumps_items (x :: y :: l)) with (dumps x ++ SEP_ITEM ++ dumps_items (y :: l)).
    rewrite !clean_app, (Hx H1), (IHl Hl H2). reflexivity.
  - rewrite dumps_dict. change (clean (LBR :: dumps_pairs kvs ++ [RBR])) with (clean (dumps_pairs kvs ++ [RBR])).
    rewrite clean_app, andb_true_iff. split; [|reflexivity]. cbn [jwf] in H.
    induction kvs as [|[k x] l IHl]; [reflexivity|]. inversion IH as [|? ? Hx Hl]; subst.
    cbn [forallb fst snd] in H. apply andb_true_iff in H. destruct H as [H1 H2].
    apply andb_true_iff in H1. destruct H1 as [Hk H1]. cbn [snd] in Hx.
    destruct l as [|[j y] l].
    + cbn [dumps_pairs]. rewrite !clean_app, (dump_string_clean k Hk), (Hx H1). reflexivity.
    + change (dumps_pairs ((k, x) :: (j, y) :: l))
        with (dump_string k ++ SEP_KEY ++ dumps x ++ SEP_ITEM ++ dumps_pairs ((j, y) :: l)).
      rewrite !clean_app, (dump_string_clean k Hk), (Hx H1), (IHl Hl H2). reflexivity.
Qed.

Lemma clean_ascii t : clean t = true -> ascii_text t = true /\ mem_ch NL t = false.
Proof.
  induction t as [|c t IH]; intro H; [split; reflexivity|].
  cbn [clean forallb] in H. apply andb_true_iff in H. destruct H as [Hc Ht].
  destruct (IH Ht) as [I1 I2]. unfold okc in Hc. apply andb_true_iff in Hc. destruct Hc as [Ha Hn].
  cbn [ascii_text forallb mem_ch]. unfold ascii_text in I1. rewrite Ha, I1, I2.
  split; [reflexivity|]. apply negb_true_iff in Hn. rewrite Z.eqb_sym, Hn. reflexivity.
Qed.

(* the "json.dumps facts" of c18_framing, now a theorem about the modelled serialiser *)
Theorem dumps_dict_shape kvs : jwf (JDict kvs) = true ->
  payload_shape_b (dumps (JDict kvs)) = true /\ ascii_text (dumps (JDict kvs)) = true.
Proof.
  intro H. destruct (clean_ascii _ (dumps_clean _ H)) as [Ha Hn]. split; [|exact Ha].
  rewrite dumps_dict in *. unfold payload_shape_b. rewrite Z.eqb_refl, Hn.
  rewrite last_last, Z.eqb_refl. reflexivity.
Qed.

(* ---- the Reporter on JSON values ---------------------------------------------------- *)

Definition is_digit (c : Z) : bool := Z.leb 48 c && Z.leb c 57.

Lemma dec_aux_digits : forall fuel n acc, 0 <= n -> forallb is_digit acc = true ->
  forallb is_digit (dec_aux fuel n acc) = true.
Proof.
  induction fuel as [|f IH]; intros n acc Hn Hacc; [exact Hacc|].
  cbn [dec_aux]. assert (Hd : is_digit (48 + n mod 10) = true).
  { unfold is_digit. pose proof (Z.mod_pos_bound n 10). lia. }
  destruct (Z.ltb n 10).
  - cbn [forallb]. rewrite Hd, Hacc. reflexivity.
  - apply IH; [apply Z.div_pos; lia|]. cbn [forallb]. rewrite Hd, Hacc. reflexivity.
Qed.

Lemma dec_aux_keeps_nonempty : forall fuel n acc, acc <> [] -> dec_aux fuel n acc <> [].
Proof.
  induction fuel as [|f IH]; intros n acc H; [exact H|].
  cbn [dec_aux]. destruct (Z.ltb n 10); [discriminate|]. apply IH. discriminate.
Qed.

Lemma dec_aux_nonempty : forall fuel n acc, dec_aux (S fuel) n acc <> [].
Proof.
  intros fuel n acc. cbn [dec_aux]. destruct (Z.ltb n 10); [discriminate|].
  apply dec_aux_keeps_nonempty. discriminate.
Qed.

Lemma digits_numtok t : t <> [] -> forallb is_digit t = true -> numtok_ok t = true.
Proof.
  destruct t as [|c t]; [congruence|]. intros _ H. unfold numtok_ok.
  cbn [forallb] in *. apply andb_true_iff in H. destruct H as [Hc Ht].
  assert (Hn : forall x, is_digit x = true -> numchar x = true).
  { intros x Hx. unfold is_digit in Hx. unfold numchar. rewrite Hx. reflexivity. }
  rewrite (Hn c Hc). unfold numstart. unfold is_digit in Hc. rewrite Hc. cbn [orb andb].
  apply forallb_forall. intros x Hx. apply Hn. rewrite forallb_forall in Ht. apply Ht. exact Hx.
Qed.

Lemma dec_nat_numtok k : numtok_ok (dec_nat k) = true.
Proof.
  unfold dec_nat. apply digits_numtok; [apply dec_aux_nonempty|].
  apply dec_aux_digits; [lia | reflexivity].
Qed.

Definition clock_ok (ck : clock) : bool :=
  numtok_ok (ck_timestamp ck) && numtok_ok (ck_time ck) &&
  match ck_cost ck with Some c => numtok_ok c | None => true end.
Definition kwargs_ok (kw : list (list Z * jvalue)) : bool :=
  forallb (fun kv => forallb codepoint_ok (fst kv) && jwf (snd kv)) kw.
Definition cevent_ok (e : cevent) : bool :=
  match e with CSay _ => true | CCall ck kw => clock_ok ck && kwargs_ok kw end.

Lemma report_dict_wf add_time ck kw k :
  clock_ok ck = true -> kwargs_ok kw = true -> jwf (report_dict add_time ck kw k) = true.
Proof.
  unfold clock_ok, kwargs_ok, report_dict, reserved_fields. intros Hc Hk.
  apply andb_true_iff in Hc. destruct Hc as [Hc H3]. apply andb_true_iff in Hc. destruct Hc as [H1 H2].
  cbn [jwf]. rewrite forallb_app, Hk. cbn [andb forallb fst snd jwf]. rewrite H1.
  rewrite forallb_app. cbn [forallb fst snd jwf]. rewrite dec_nat_numtok.
  destruct add_time; [|reflexivity]. cbn [forallb fst snd jwf]. rewrite H2.
  destruct (ck_cost ck); cbn [forallb fst snd jwf]; [rewrite H3|]; reflexivity.
Qed.

(* generic: a predicate that holds of every oracle answer holds of every report chunk *)
Fixpoint reports_all (P : list Z -> bool) (cs : list chunk) : bool :=
  match cs with
  | [] => true
  | Noise _ :: r => reports_all P r
  | Report p :: r => P p && reports_all P r
  end.

Lemma reports_all_app P a b : reports_all P (a ++ b) = reports_all P a && reports_all P b.
Proof.
  induction a as [|[s|p] a IH]; [reflexivity| |]; rewrite <- app_comm_cons; cbn [reports_all].
  - exact IH.
  - rewrite IH, andb_assoc. reflexivity.
Qed.

Definition dumps_sat (P : list Z -> bool) (e : event) : Prop :=
  match e with
  | Say _ => True
  | Call r => forall k p sz, rq_dump r k = Some (p, sz) -> P p = true
  end.

Lemma run_script_reports_all P m1 m2 : forall evs st, Forall (dumps_sat P) evs ->
  reports_all P (snd (run_script m1 m2 st evs)) = true.
Proof.
  induction evs as [|[s|q] evs IH]; intros st Hall; [reflexivity| |].
  - rewrite run_script_cons_say. inversion Hall; subst. specialize (IH st H2).
    destruct (run_script m1 m2 st evs) as [[st' os] cs]. exact IH.
  - rewrite run_script_cons_call. inversion Hall as [|? ? Hq Hr]; subst.
    assert (Hc : reports_all P (snd (report_call m1 m2 st q)) = true).
    { unfold report_call.
      destruct (existsb (fun b => b) (rq_none q)); [reflexivity|].
      destruct (existsb (starts_with ST_PREFIX) (rq_keys q)); [reflexivity|].
      destruct (rq_dump q st) as [[p sz]|] eqn:E; [|reflexivity].
      destruct (Z.ltb sz SIZE_LIMIT); [|reflexivity].
      cbn. rewrite (Hq st p sz E). reflexivity. }
    destruct (report_call m1 m2 st q) as [[st1 o] c1]. specialize (IH st1 Hr).
    destruct (run_script m1 m2 st1 evs) as [[st' os] cs]. cbn [snd] in *.
    rewrite reports_all_app, Hc, IH. reflexivity.
Qed.

Lemma reports_all_shape_ascii cs :
  reports_all (fun p => payload_shape_b p && ascii_text p) cs = true ->
  payloads_ok cs = true /\ payloads_ascii cs = true.
Proof.
  induction cs as [|[s|p] cs IH]; intro H; [split; reflexivity| |]; cbn [reports_all payloads_ok payloads_ascii] in *.
  - exact (IH H).
  - apply andb_true_iff in H. destruct H as [Hp H]. apply andb_true_iff in Hp. destruct Hp as [H1 H2].
    destruct (IH H) as [I1 I2]. rewrite H1, H2, I1, I2. split; reflexivity.
Qed.

Lemma to_event_sat add_time e : cevent_ok e = true ->
  dumps_sat (fun p => payload_shape_b p && ascii_text p) (to_event add_time e).
Proof.
  destruct e as [s|ck kw]; [exact (fun _ => I)|]. cbn [cevent_ok to_event dumps_sat to_request rq_dump].
  intros H k p sz E. apply andb_true_iff in H. destruct H as [Hc Hk].
  injection E as <- _. pose proof (report_dict_wf add_time ck kw k Hc Hk) as Hw.
  unfold report_dict in *. cbv beta. destruct (dumps_dict_shape _ Hw) as [H1 H2].
  apply andb_true_iff. split; [exact H1 | exact H2].
Qed.

(* which concrete call a payload on the stream is the serialisation of *)
Definition sent_concrete (add_time : bool) (cevs : list cevent) (k : nat) (p : list Z) : Prop :=
  exists ck kw, In (CCall ck kw) cevs /\
    p = dumps (report_dict add_time ck kw k) /\
    existsb is_null (map snd kw) = false /\
    existsb (starts_with ST_PREFIX) (map fst kw) = false /\
    ascii_str_sizeof p < SIZE_LIMIT.

Lemma sent_as_concrete add_time cevs k p :
  sent_as (map (to_event add_time) cevs) k p -> sent_concrete add_time cevs k p.
Proof.
  intros [r [sz [Hin [Hacc [Hd Hsz]]]]]. apply in_map_iff in Hin. destruct Hin as [e [He Hin]].
  destruct e as [s|ck kw]; [discriminate|]. cbn [to_event] in He. injection He as <-.
  exists ck, kw. cbn [to_request rq_dump rq_keys rq_none] in *. injection Hd as <- <-.
  unfold accepted_by_asserts in Hacc. cbn [rq_none rq_keys to_request] in Hacc.
  apply andb_true_iff in Hacc. destruct Hacc as [A1 A2].
  apply negb_true_iff in A1. apply negb_true_iff in A2.
  repeat split; auto.
  rewrite <- A1. clear. induction kw as [|[k' v] kw IH]; [reflexivity|]. cbn. rewrite IH. reflexivity.
Qed.

(* Reporter on JSON values + stream + LocalBackend reading + retrieve: no
   hypothesis about json.dumps is left *)
Theorem reporter_concrete add_time m1 m2 cevs k0 :
  forallb cevent_ok cevs = true ->
  match run_script m1 m2 k0 (map (to_event add_time) cevs) with
  | (_, os, cs) =>
      payloads_ok cs = true /\ payloads_ascii cs = true /\
      StronglySorted lt (emitted_iters os) /\
      Forall2 (sent_concrete add_time cevs) (emitted_iters os) (payloads_of cs) /\
      (noise_ok cs = true ->
       retrieve_model (readlines (render cs)) = payloads_of cs /\
       forall n, poll_model (firstn n (render cs)) = delivered_upto cs n)
  end.
Proof.
  intro Hok.
  assert (Hall : Forall (dumps_sat (fun p => payload_shape_b p && ascii_text p)) (map (to_event add_time) cevs)).
  { apply Forall_forall. intros e He. apply in_map_iff in He. destruct He as [c [<- Hc]].
    apply to_event_sat. rewrite forallb_forall in Hok. apply Hok. exact Hc. }
  pose proof (run_script_reports_all _ m1 m2 _ k0 Hall) as Hr.
  pose proof (run_script_counter m1 m2 (map (to_event add_time) cevs) k0) as Hc.
  destruct (run_script m1 m2 k0 (map (to_event add_time) cevs)) as [[k' os] cs]. cbn [snd] in Hr.
  destruct (reports_all_shape_ascii cs Hr) as [Hp Ha]. destruct Hc as [_ [_ [Hs Hf]]].
  split; [exact Hp|]. split; [exact Ha|]. split; [exact Hs|]. split.
  - eapply Forall2_impl; [|exact Hf]. intros a b. apply sent_as_concrete.
  - intro Hn. split; [apply framing_lines; assumption|]. intro n. apply polling_prefixes; assumption.
Qed.

(* ---- strings: json.loads undoes json.dumps' escaping -------------------------------- *)
Ltac Zify.zify_post_hook ::= Z.div_mod_to_equations.

Lemma hexval_hexdigit n : 0 <= n < 16 -> hexval (hexdigit n) = Some n.
Proof.
  intro H. unfold hexval, hexdigit. destruct (Z.ltb n 10) eqn:E.
  - replace (Z.leb 48 (48 + n) && Z.leb (48 + n) 57) with true by lia. f_equal; lia.
  - replace (Z.leb 48 (87 + n) && Z.leb (87 + n) 57) with false by lia.
    replace (Z.leb 97 (87 + n) && Z.leb (87 + n) 102) with true by lia. f_equal; lia.
Qed.

Lemma unhex4_hex4 c rest : 0 <= c < 65536 -> unhex4 (hex4 c ++ rest) = Some (c, rest).
Proof.
  intro H. unfold hex4. cbn [app unhex4].
  rewrite !hexval_hexdigit by lia. f_equal. f_equal. lia.
Qed.

(* no high surrogate immediately followed by a low surrogate (json.loads would join
   the two escapes into one character: a quirk of the stdlib, excluded) *)
Fixpoint no_surrogate_pair (s : list Z) : bool :=
  match s with
  | c :: (d :: _) as r => negb (is_high c && is_low d) && no_surrogate_pair r
  | _ => true
  end.

Definition body (s : list Z) : list Z := flat_map escape_char s.

(* the three shapes an escaped character can have *)
Lemma escape_char_cases c : codepoint_ok c = true ->
  (exists x, escape_char c = [92; x] /\ x <> 117 /\
             (Z.eqb x 34 = true /\ c = 34 \/ Z.eqb x 92 = true /\ c = 92 \/ x = 110 /\ c = 10 \/ x = 114 /\ c = 13 \/
              x = 116 /\ c = 9 \/ x = 98 /\ c = 8 \/ x = 102 /\ c = 12)) \/
  (escape_char c = [c] /\ 32 <= c <= 126 /\ c <> 34 /\ c <> 92) \/
  (escape_char c = esc_u c /\ 0 <= c < 65536) \/
  (escape_char c = esc_u (55296 + (c - 65536) / 1024) ++ esc_u (56320 + (c - 65536) mod 1024) /\ 65536 <= c < 1114112).
Proof.
  unfold codepoint_ok, escape_char. intro H.
  destruct (Z.eqb c 34) eqn:E1.
  { left; exists 34. split; [reflexivity|]. split; [lia|]. left. split; [reflexivity|lia]. }
  destruct (Z.eqb c 92) eqn:E2.
  { left; exists 92. split; [reflexivity|]. split; [lia|]. right; left. split; [reflexivity|lia]. }
  destruct (Z.eqb c 10) eqn:E3.
  { left; exists 110. split; [reflexivity|]. split; [lia|]. do 2 right; left. split; [reflexivity|lia]. }
  destruct (Z.eqb c 13) eqn:E4.
  { left; exists 114. split; [reflexivity|]. split; [lia|]. do 3 right; left. split; [reflexivity|lia]. }
  destruct (Z.eqb c 9) eqn:E5.
  { left; exists 116. split; [reflexivity|]. split; [lia|]. do 4 right; left. split; [reflexivity|lia]. }
  destruct (Z.eqb c 8) eqn:E6.
  { left; exists 98. split; [reflexivity|]. split; [lia|]. do 5 right; left. split; [reflexivity|lia]. }
  destruct (Z.eqb c 12) eqn:E7.
  { left; exists 102. split; [reflexivity|]. split; [lia|]. do 6 right. split; [reflexivity|lia]. }
  destruct (Z.leb 32 c && Z.leb c 126) eqn:E8.
  { right; left. split; [reflexivity|]. lia. }
  destruct (Z.ltb c 65536) eqn:E9; [right; right; left; split; [reflexivity|lia]|].
  right; right; right. split; [reflexivity|lia].
Qed.

(* after a lone high surrogate, what follows is not the escape of a low surrogate *)
Lemma not_low_follows {A} (X : Z -> list Z -> A) (single : A) s rest :
  forallb codepoint_ok s = true ->
  match s with d :: _ => is_low d = false | [] => True end ->
  match strip_prefix [92; 117] (body s ++ 34 :: rest) with
  | Some r3 => match unhex4 r3 with
               | Some (lo, r4) => if is_low lo then X lo r4 else single
               | None => single
               end
  | None => single
  end = single.
Proof.
  intros Hs Hd. destruct s as [|d s]; [reflexivity|].
  cbn [forallb] in Hs. apply andb_true_iff in Hs. destruct Hs as [Hc _].
  unfold body. cbn [flat_map]. rewrite <- app_assoc.
  destruct (escape_char_cases d Hc) as [[x [-> [Hx _]]] | [[-> [Hr [H34 H92]]] | [[-> Hr] | [-> Hr]]]].
  - cbn [app]. rewrite !strip_prefix_cons, Z.eqb_refl.
    destruct (Z.eqb 117 x) eqn:E; [apply Z.eqb_eq in E; congruence | reflexivity].
  - cbn [app]. rewrite strip_prefix_cons. destruct (Z.eqb 92 d) eqn:E; [apply Z.eqb_eq in E; congruence | reflexivity].
  - unfold esc_u. cbn [app]. rewrite !strip_prefix_cons, !Z.eqb_refl. cbn [strip_prefix].
    rewrite unhex4_hex4 by lia. rewrite Hd. reflexivity.
  - unfold esc_u. rewrite <- app_assoc. cbn [app]. rewrite !strip_prefix_cons, !Z.eqb_refl. cbn [strip_prefix].
    rewrite unhex4_hex4 by lia.
    replace (is_low (55296 + (d - 65536) / 1024)) with false by (unfold is_low; lia). reflexivity.
Qed.

Lemma parse_u_eq f r' :
  parse_string_body (S f) (92 :: 117 :: r') =
  match unhex4 r' with
  | Some (u, r2) =>
      let single := match parse_string_body f r2 with Some (s, rest) => Some (u :: s, rest) | None => None end in
      if is_high u then
        match strip_prefix [92; 117] r2 with
        | Some r3 =>
            match unhex4 r3 with
            | Some (lo, r4) =>
                if is_low lo then
                  match parse_string_body f r4 with
                  | Some (s, rest) => Some (65536 + (u - 55296) * 1024 + (lo - 56320) :: s, rest)
                  | None => None
                  end
                else single
            | None => single
            end
        | None => single
        end
      else single
  | None => None
  end.
Proof. reflexivity. Qed.

Theorem parse_string_roundtrip : forall s rest fuel,
  forallb codepoint_ok s = true -> no_surrogate_pair s = true -> (length s < fuel)%nat ->
  parse_string_body fuel (body s ++ 34 :: rest) = Some (s, rest).
Proof.
  induction s as [|c s IH]; intros rest fuel Hs Hp Hf.
  - destruct fuel as [|f]; [lia|]. reflexivity.
  - destruct fuel as [|f]; [cbn [length] in Hf; lia|].
    cbn [forallb] in Hs. apply andb_true_iff in Hs. destruct Hs as [Hc Hs].
    assert (Hp' : no_surrogate_pair s = true).
    { cbn [no_surrogate_pair] in Hp. destruct s; [reflexivity|]. apply andb_true_iff in Hp. tauto. }
    assert (Hf' : (length s < f)%nat) by (cbn [length] in Hf; lia).
    specialize (IH rest f Hs Hp' Hf').
    unfold body in *. cbn [flat_map]. rewrite <- app_assoc.
    destruct (escape_char_cases c Hc) as [[x [-> [Hx Hcase]]] | [[-> [Hr [H34 H92]]] | [[-> Hr] | [-> Hr]]]].
    + cbn [app parse_string_body]. rewrite IH.
      destruct Hcase as [[E ->] | [[E ->] | [[-> ->] | [[-> ->] | [[-> ->] | [[-> ->] | [-> ->]]]]]]].
      * apply Z.eqb_eq in E. subst x. reflexivity.
      * apply Z.eqb_eq in E. subst x. reflexivity.
      * reflexivity.
      * reflexivity.
      * reflexivity.
      * reflexivity.
      * reflexivity.
    + cbn [app parse_string_body].
      destruct (Z.eqb c 34) eqn:E1; [apply Z.eqb_eq in E1; congruence|].
      destruct (Z.eqb c 92) eqn:E2; [apply Z.eqb_eq in E2; congruence|].
      rewrite IH. reflexivity.
    + unfold esc_u. cbn [app]. rewrite parse_u_eq.
      rewrite unhex4_hex4 by lia. cbv zeta. rewrite IH.
      destruct (is_high c) eqn:Eh; [|reflexivity].
      apply (not_low_follows (fun lo r4 => match parse_string_body f r4 with
                                            | Some (s0, rest0) => Some (65536 + (c - 55296) * 1024 + (lo - 56320) :: s0, rest0)
                                            | None => None end) (Some (c :: s, rest)) s rest Hs).
      destruct s as [|d s']; [exact I|]. cbn [no_surrogate_pair] in Hp.
      apply andb_true_iff in Hp. destruct Hp as [Hp _]. rewrite Eh in Hp. cbn [andb] in Hp.
      apply negb_true_iff in Hp. exact Hp.
    + unfold esc_u. rewrite <- app_assoc. cbn [app]. rewrite parse_u_eq.
      rewrite unhex4_hex4 by lia. cbv zeta.
      replace (is_high (55296 + (c - 65536) / 1024)) with true by (unfold is_high; lia).
      rewrite !strip_prefix_cons, !Z.eqb_refl. cbn [strip_prefix].
      rewrite unhex4_hex4 by lia.
      replace (is_low (56320 + (c - 65536) mod 1024)) with true by (unfold is_low; lia).
      rewrite IH. do 2 f_equal. f_equal. lia.
Qed.

Lemma escape_char_nonempty c : (1 <= length (escape_char c))%nat.
Proof.
  unfold escape_char.
  repeat match goal with |- context [if ?b then _ else _] => destruct b end; cbn [length esc_u hex4 app]; lia.
Qed.

Lemma body_length s : (length s <= length (body s))%nat.
Proof.
  induction s as [|c s IH]; [reflexivity|]. unfold body in *. cbn [flat_map length].
  rewrite app_length. pose proof (escape_char_nonempty c). lia.
Qed.

(* a string value, whatever it contains (tag, braces, quotes, backslashes, newlines,
   control characters, non-ASCII, lone surrogates), comes back from loads (dumps _) *)
Theorem loads_dumps_str s :
  forallb codepoint_ok s = true -> no_surrogate_pair s = true ->
  loads (dumps (JStr s)) = Some (JStr s).
Proof.
  intros Hs Hp. unfold loads. cbn [dumps]. unfold dump_string.
  change (flat_map escape_char s) with (body s).
  remember (length ((34 :: body s ++ [34])%Z) + 1)%nat as fuel eqn:Ef.
  destruct fuel as [|f]; [cbn [length] in Ef; lia|].
  cbn [parse_value]. rewrite Z.eqb_refl.
  rewrite (parse_string_roundtrip s [] _ Hs Hp); [reflexivity|].
  rewrite app_length. pose proof (body_length s). cbn [length]. lia.
Qed.

(* ---- pause -> resume ------------------------------------------------------------------ *)

Lemma noise_ok_from_app_l : forall cs1 cs2 acc, noise_ok_from acc (cs1 ++ cs2) = true -> noise_ok_from acc cs1 = true.
Proof.
  induction cs1 as [|[s|p] cs1 IH]; intros cs2 acc H; cbn [app noise_ok_from] in *.
  - apply negb_true_iff. exact (noise_ok_from_acc _ _ H).
  - eapply IH; exact H.
  - apply andb_true_iff in H. destruct H as [H1 H2]. rewrite H1. cbn [andb]. eapply IH; exact H2.
Qed.

Lemma poll_model_all cs : noise_ok cs = true -> payloads_ok cs = true -> poll_model (render cs) = payloads_of cs.
Proof.
  intros Hn Hp. pose proof (polling_prefixes cs (length (render cs)) Hn Hp) as H.
  rewrite firstn_all in H. rewrite H. apply delivered_upto_all. lia.
Qed.

Lemma render_app a b : render (a ++ b) = render a ++ render b.
Proof.
  induction a as [|[s|p] a IH]; [reflexivity| |]; rewrite <- app_comm_cons; cbn [render]; rewrite IH.
  - rewrite app_assoc. reflexivity.
  - rewrite <- !app_assoc. reflexivity.
Qed.

(* the resumed run appends cs2 to the paused run's stream cs1 (payloads may contain the
   tag): a poll after the resume returns exactly the payloads of the new run *)
Theorem resume_delivers_new_run cs1 cs2 :
  noise_ok (cs1 ++ cs2) = true -> payloads_ok (cs1 ++ cs2) = true ->
  seen_at_resume (render cs1) = length (payloads_of cs1) /\
  poll_after_resume (render cs1) (render cs1 ++ render cs2) = payloads_of cs2.
Proof.
  intros Hn Hp. pose proof (noise_ok_from_app_l cs1 cs2 [] Hn) as Hn1.
  pose proof Hp as Hp'. rewrite payloads_ok_app in Hp'. apply andb_true_iff in Hp'. destruct Hp' as [Hp1 _].
  unfold poll_after_resume, seen_at_resume.
  rewrite (poll_model_all cs1 Hn1 Hp1). split; [reflexivity|].
  rewrite <- render_app, (poll_model_all _ Hn Hp), payloads_of_app.
  rewrite skipn_app, skipn_all, Nat.sub_diag. reflexivity.
Qed.

(* counting tag prefixes instead: a payload with the tag in a string value is counted
   twice, and the first report of the resumed run is never returned *)
Definition resume_witness_1 : list chunk :=
  [Report [123; 34; 110; 34; 58; 32; 34; 91; 116; 117; 110; 101; 45; 109; 101; 116; 114; 105; 99; 93; 58; 32; 123; 125; 34; 125]].
  (* {"n": "[tune-metric]: {}"} *)
Definition resume_witness_2 : list chunk := [Report [123; 34; 101; 34; 58; 32; 51; 125]].   (* {"e": 3} *)

Lemma resume_count_tags_refuted :
  exists cs1 cs2, noise_ok (cs1 ++ cs2) = true /\ payloads_ok (cs1 ++ cs2) = true /\
    count_pre (render cs1) = 2%nat /\ length (payloads_of cs1) = 1%nat /\
    skipn (count_pre (render cs1)) (poll_model (render cs1 ++ render cs2)) = [] /\
    payloads_of cs2 <> [].
Proof. exists resume_witness_1, resume_witness_2. repeat split; try reflexivity. discriminate. Qed.

(* ==== value-level round trip: loads (dumps v) = Some v ==================================== *)

(* the two inner loops of parse_value, with the element parser as a parameter *)
Definition parse_items (pv : list Z -> option (jvalue * list Z)) :=
  fix items (n : nat) (t : list Z) : option (list jvalue * list Z) :=
    match n with
    | O => None
    | S n' =>
        match pv t with
        | Some (x, t') =>
            match strip_prefix [93] t' with
            | Some rest => Some ([x], rest)
            | None =>
                match strip_prefix SEP_ITEM t' with
                | Some rest =>
                    match items n' rest with Some (xs, rest') => Some (x :: xs, rest') | None => None end
                | None => None
                end
            end
        | None => None
        end
    end.

Definition parse_pairs (pv : list Z -> option (jvalue * list Z)) :=
  fix pairs (n : nat) (t : list Z) : option (list (list Z * jvalue) * list Z) :=
    match n with
    | O => None
    | S n' =>
        match strip_prefix [34] t with
        | Some t1 =>
            match parse_string_body (length t1 + 1) t1 with
            | Some (k, t1') =>
                match strip_prefix SEP_KEY t1' with
                | Some t2 =>
                    match pv t2 with
                    | Some (x, t') =>
                        match strip_prefix [RBR] t' with
                        | Some rest => Some ([(k, x)], rest)
                        | None =>
                            match strip_prefix SEP_ITEM t' with
                            | Some rest =>
                                match pairs n' rest with
                                | Some (xs, rest') => Some ((k, x) :: xs, rest')
                                | None => None
                                end
                            | None => None
                            end
                        end
                    | None => None
                    end
                | None => None
                end
            | None => None
            end
        | None => None
        end
    end.

Lemma pv_str f r :
  parse_value (S f) (34 :: r) =
  match parse_string_body (length r + 1) r with Some (s, rest) => Some (JStr s, rest) | None => None end.
Proof. reflexivity. Qed.

Lemma pv_list f r :
  parse_value (S f) (91 :: r) =
  match strip_prefix [93] r with
  | Some rest => Some (JList [], rest)
  | None => match parse_items (parse_value f) (length r + 1) r with
            | Some (xs, rest) => Some (JList xs, rest)
            | None => None
            end
  end.
Proof. reflexivity. Qed.

Lemma pv_dict f r :
  parse_value (S f) (LBR :: r) =
  match strip_prefix [RBR] r with
  | Some rest => Some (JDict [], rest)
  | None => match parse_pairs (parse_value f) (length r + 1) r with
            | Some (xs, rest) => Some (JDict xs, rest)
            | None => None
            end
  end.
Proof. reflexivity. Qed.

Lemma pv_num f c r :
  numstart c = true ->
  parse_value (S f) (c :: r) =
  let '(tok, rest) := span_num (c :: r) in match tok with [] => None | _ => Some (JNum tok, rest) end.
Proof.
  intro H. unfold numstart in H. cbn [mem_ch] in H. cbn [parse_value].
  replace (Z.eqb c 34) with false by lia. replace (Z.eqb c 91) with false by lia.
  replace (Z.eqb c LBR) with false by (unfold LBR; lia). replace (Z.eqb c 110) with false by lia.
  replace (Z.eqb c 116) with false by lia. replace (Z.eqb c 102) with false by lia. reflexivity.
Qed.

(* what may follow a value: nothing, or a character that cannot continue a number token *)
Definition follow_ok (rest : list Z) : bool :=
  match rest with [] => true | c :: _ => negb (numchar c) end.

Lemma span_num_app a rest : forallb numchar a = true -> follow_ok rest = true -> span_num (a ++ rest) = (a, rest).
Proof.
  induction a as [|c a IH]; intros Ha Hr.
  - cbn [app]. destruct rest as [|d rest]; [reflexivity|]. cbn [follow_ok] in Hr.
    apply negb_true_iff in Hr. cbn [span_num]. rewrite Hr. reflexivity.
  - cbn [forallb] in Ha. apply andb_true_iff in Ha. destruct Ha as [Hc Ha].
    rewrite <- app_comm_cons. cbn [span_num]. rewrite Hc, (IH Ha Hr). reflexivity.
Qed.

(* strings and keys without an adjacent surrogate pair, at every depth *)
Fixpoint jnov (v : jvalue) : bool :=
  match v with
  | JStr s => no_surrogate_pair s
  | JList l => forallb jnov l
  | JDict kvs => forallb (fun kv => no_surrogate_pair (fst kv) && jnov (snd kv)) kvs
  | _ => true
  end.

(* the first character of a serialisation is never "]" or "}" *)
Lemma dumps_head v : jwf v = true -> exists c t, dumps v = c :: t /\ Z.eqb 93 c = false /\ Z.eqb RBR c = false.
Proof.
  destruct v as [| [|] | tok | s | l | kvs]; intro H.
  - eexists _, _. repeat split; reflexivity.
  - eexists _, _. repeat split; reflexivity.
  - eexists _, _. repeat split; reflexivity.
  - cbn [jwf] in H. unfold numtok_ok in H. destruct tok as [|c t]; [discriminate|].
    apply andb_true_iff in H. destruct H as [H _]. unfold numstart in H. cbn [mem_ch] in H.
    exists c, t. cbn [dumps]. unfold RBR. repeat split; lia.
  - eexists _, _. repeat split; reflexivity.
  - rewrite dumps_list. eexists _, _. repeat split; reflexivity.
  - rewrite dumps_dict. eexists _, _. repeat split; reflexivity.
Qed.

Lemma parse_items_ok pv rest : forall l, l <> [] ->
  (forall x, In x l -> forall rest', follow_ok rest' = true -> pv (dumps x ++ rest') = Some (x, rest')) ->
  forall n, (length l <= n)%nat ->
  parse_items pv n (dumps_items l ++ 93 :: rest) = Some (l, rest).
Proof.
  induction l as [|x l IH]; intros Hne Hpv n Hn; [congruence|].
  destruct n as [|n']; [cbn [length] in Hn; lia|].
  destruct l as [|y l'].
  - cbn [dumps_items parse_items]. rewrite (Hpv x (or_introl eq_refl) (93 :: rest) eq_refl). reflexivity.
  - change (dumps_items (x :: y :: l')) with (dumps x ++ SEP_ITEM ++ dumps_items (y :: l')).
    rewrite <- !app_assoc. cbn [parse_items].
    rewrite (Hpv x (or_introl eq_refl) (SEP_ITEM ++ dumps_items (y :: l') ++ 93 :: rest) eq_refl).
    change (strip_prefix [93] (SEP_ITEM ++ dumps_items (y :: l') ++ 93 :: rest)) with (@None (list Z)).
    rewrite strip_prefix_exact.
    fold (parse_items pv). rewrite IH; [reflexivity | discriminate | | cbn [length] in *; lia].
    intros z Hz. apply Hpv. right. exact Hz.
Qed.

Lemma parse_pairs_ok pv rest : forall kvs, kvs <> [] ->
  (forall k x, In (k, x) kvs ->
     forallb codepoint_ok k = true /\ no_surrogate_pair k = true /\
     forall rest', follow_ok rest' = true -> pv (dumps x ++ rest') = Some (x, rest')) ->
  forall n, (length kvs <= n)%nat ->
  parse_pairs pv n (dumps_pairs kvs ++ RBR :: rest) = Some (kvs, rest).
Proof.
  induction kvs as [|[k x] l IH]; intros Hne Hpv n Hn; [congruence|].
  destruct n as [|n']; [cbn [length] in Hn; lia|].
  destruct (Hpv k x (or_introl eq_refl)) as [Hk1 [Hk2 Hx]].
  assert (Hkey : forall tail, parse_string_body (length (body k ++ 34 :: tail) + 1) (body k ++ 34 :: tail) = Some (k, tail)).
  { intro tail. apply parse_string_roundtrip; [exact Hk1 | exact Hk2 |].
    rewrite app_length. pose proof (body_length k). lia. }
  destruct l as [|[j y] l'].
  - cbn [dumps_pairs]. unfold dump_string. change (flat_map escape_char k) with (body k).
    rewrite <- !app_assoc. cbn [app parse_pairs]. rewrite strip_prefix_cons, Z.eqb_refl. cbn [strip_prefix].
    rewrite <- app_assoc. cbn [app]. rewrite Hkey. rewrite strip_prefix_exact.
    rewrite (Hx (RBR :: rest) eq_refl). rewrite Z.eqb_refl. reflexivity.
  - change (dumps_pairs ((k, x) :: (j, y) :: l'))
      with (dump_string k ++ SEP_KEY ++ dumps x ++ SEP_ITEM ++ dumps_pairs ((j, y) :: l')).
    unfold dump_string at 1. change (flat_map escape_char k) with (body k).
    rewrite <- !app_assoc. cbn [app parse_pairs]. rewrite strip_prefix_cons, Z.eqb_refl. cbn [strip_prefix].
    rewrite <- app_assoc. cbn [app]. rewrite Hkey. rewrite strip_prefix_exact.
    rewrite (Hx (SEP_ITEM ++ dumps_pairs ((j, y) :: l') ++ RBR :: rest) eq_refl).
    change (strip_prefix [RBR] (SEP_ITEM ++ dumps_pairs ((j, y) :: l') ++ RBR :: rest)) with (@None (list Z)).
    rewrite strip_prefix_exact.
    fold (parse_pairs pv). rewrite IH; [reflexivity | discriminate | | cbn [length] in *; lia].
    intros k' x' Hin. apply Hpv. right. exact Hin.
Qed.

Lemma dumps_nonempty v : jwf v = true -> (1 <= length (dumps v))%nat.
Proof. intro H. destruct (dumps_head v H) as [c [t [-> _]]]. cbn [length]. lia. Qed.

Lemma dumps_items_length l : forallb jwf l = true ->
  (length l <= length (dumps_items l))%nat /\ forall x, In x l -> (length (dumps x) <= length (dumps_items l))%nat.
Proof.
  induction l as [|x l IH]; intro H; [split; [reflexivity | intros ? []]|].
  cbn [forallb] in H. apply andb_true_iff in H. destruct H as [Hx Hl].
  destruct (IH Hl) as [I1 I2]. pose proof (dumps_nonempty x Hx) as Hn.
  destruct l as [|y l'].
  - cbn [dumps_items length]. split; [lia|]. intros z [<- | []]. lia.
  - change (dumps_items (x :: y :: l')) with (dumps x ++ SEP_ITEM ++ dumps_items (y :: l')).
    rewrite !app_length. cbn [length] in *. split; [lia|].
    intros z [<- | Hz]; [lia|]. specialize (I2 z Hz). lia.
Qed.

Lemma dumps_pairs_length kvs : forallb (fun kv => forallb codepoint_ok (fst kv) && jwf (snd kv)) kvs = true ->
  (length kvs <= length (dumps_pairs kvs))%nat /\
  forall k x, In (k, x) kvs -> (length (dumps x) <= length (dumps_pairs kvs))%nat.
Proof.
  induction kvs as [|[k x] l IH]; intro H; [split; [reflexivity | intros ? ? []]|].
  cbn [forallb fst snd] in H. apply andb_true_iff in H. destruct H as [Hx Hl].
  apply andb_true_iff in Hx. destruct Hx as [_ Hx].
  destruct (IH Hl) as [I1 I2]. pose proof (dumps_nonempty x Hx) as Hn.
  destruct l as [|[j y] l'].
  - cbn [dumps_pairs length]. rewrite !app_length. split; [lia|]. intros k' z [E | []]. injection E as _ <-. lia.
  - change (dumps_pairs ((k, x) :: (j, y) :: l'))
      with (dump_string k ++ SEP_KEY ++ dumps x ++ SEP_ITEM ++ dumps_pairs ((j, y) :: l')).
    rewrite !app_length. cbn [length] in *. split; [lia|].
    intros k' z [E | Hz]; [injection E as _ <-; lia|]. specialize (I2 k' z Hz). lia.
Qed.

Theorem parse_value_roundtrip : forall v, jwf v = true -> jnov v = true ->
  forall rest fuel, follow_ok rest = true -> (length (dumps v) < fuel)%nat ->
  parse_value fuel (dumps v ++ rest) = Some (v, rest).
Proof.
  induction v as [| b | tok | s | l IH | kvs IH] using jvalue_ind2; intros Hw Hn rest fuel Hr Hf;
    (destruct fuel as [|f]; [lia|]).
  - reflexivity.
  - destruct b; reflexivity.
  - cbn [jwf] in Hw. unfold numtok_ok in Hw. destruct tok as [|c t]; [discriminate|].
    apply andb_true_iff in Hw. destruct Hw as [Hs Ha]. cbn [dumps]. rewrite <- app_comm_cons.
    rewrite (pv_num f c _ Hs). rewrite app_comm_cons, (span_num_app (c :: t) rest Ha Hr). reflexivity.
  - cbn [dumps jwf jnov] in *. unfold dump_string. change (flat_map escape_char s) with (body s).
    rewrite <- app_comm_cons, <- app_assoc. cbn [app]. rewrite pv_str.
    rewrite (parse_string_roundtrip s rest _ Hw Hn); [reflexivity|].
    rewrite app_length. pose proof (body_length s). lia.
  - rewrite dumps_list in *. rewrite <- app_comm_cons, <- app_assoc. cbn [app]. rewrite pv_list.
    cbn [jwf jnov] in Hw, Hn. destruct l as [|x l'].
    + reflexivity.
    + destruct (dumps_items_length _ Hw) as [L1 L2].
      assert (Hhd : strip_prefix [93] (dumps_items (x :: l') ++ 93 :: rest) = None).
      { assert (Hx : jwf x = true) by (cbn [forallb] in Hw; apply andb_true_iff in Hw; tauto).
        destruct (dumps_head x Hx) as [c [t [E [H93 _]]]].
        destruct l' as [|y l'']; [cbn [dumps_items]|change (dumps_items (x :: y :: l'')) with (dumps x ++ SEP_ITEM ++ dumps_items (y :: l''))];
          rewrite E; rewrite <- ?app_comm_cons; cbn [app]; rewrite strip_prefix_cons, H93; reflexivity. }
      rewrite Hhd. rewrite parse_items_ok; [reflexivity | discriminate | | rewrite app_length; cbn [length] in *; lia].
      intros z Hz rest' Hr'. rewrite Forall_forall in IH. rewrite forallb_forall in Hw, Hn.
      apply (IH z Hz (Hw z Hz) (Hn z Hz) rest' f Hr').
      specialize (L2 z Hz). cbn [length] in Hf. rewrite app_length in Hf. cbn [length] in Hf. lia.
  - rewrite dumps_dict in *. rewrite <- app_comm_cons, <- app_assoc. cbn [app]. rewrite pv_dict.
    cbn [jwf jnov] in Hw, Hn. destruct kvs as [|[k x] l'].
    + reflexivity.
    + destruct (dumps_pairs_length _ Hw) as [L1 L2].
      assert (Hhd : strip_prefix [RBR] (dumps_pairs ((k, x) :: l') ++ RBR :: rest) = None).
      { destruct l' as [|[j y] l'']; [cbn [dumps_pairs]|change (dumps_pairs ((k, x) :: (j, y) :: l''))
          with (dump_string k ++ SEP_KEY ++ dumps x ++ SEP_ITEM ++ dumps_pairs ((j, y) :: l''))];
          unfold dump_string; rewrite <- ?app_comm_cons; cbn [app]; reflexivity. }
      rewrite Hhd. rewrite parse_pairs_ok; [reflexivity | discriminate | | rewrite app_length; cbn [length] in *; lia].
      intros k' z Hz. rewrite Forall_forall in IH. rewrite forallb_forall in Hw, Hn.
      specialize (Hw _ Hz). specialize (Hn _ Hz). cbn [fst snd] in Hw, Hn.
      apply andb_true_iff in Hw. destruct Hw as [Hk1 Hz1]. apply andb_true_iff in Hn. destruct Hn as [Hk2 Hz2].
      split; [exact Hk1|]. split; [exact Hk2|]. intros rest' Hr'.
      apply (IH (k', z) Hz Hz1 Hz2 rest' f Hr').
      specialize (L2 k' z Hz). cbn [length snd] in *. rewrite app_length in Hf. cbn [length] in Hf. lia.
Qed.

Theorem loads_dumps v : jwf v = true -> jnov v = true -> loads (dumps v) = Some v.
Proof.
  intros Hw Hn. unfold loads.
  pose proof (parse_value_roundtrip v Hw Hn [] (length (dumps v) + 1) eq_refl) as H.
  rewrite app_nil_r in H. rewrite H; [reflexivity | lia].
Qed.

(* ---- every report the Reporter accepts arrives unchanged ---------------------------------- *)

Definition kwargs_nov (kw : list (list Z * jvalue)) : bool :=
  forallb (fun kv => no_surrogate_pair (fst kv) && jnov (snd kv)) kw.
Definition cevent_good (e : cevent) : bool :=
  match e with CSay _ => true | CCall ck kw => clock_ok ck && kwargs_ok kw && kwargs_nov kw end.

Lemma report_dict_nov add_time ck kw k : kwargs_nov kw = true -> jnov (report_dict add_time ck kw k) = true.
Proof.
  unfold kwargs_nov, report_dict, reserved_fields. intro H. cbn [jnov]. rewrite forallb_app, H. cbn [andb].
  destruct add_time; [destruct (ck_cost ck)|]; reflexivity.
Qed.

(* the dictionary the Reporter built for a call, with counter k: the user's entries, unchanged
   and in order, followed by the reserved fields *)
Definition built_dict (add_time : bool) (cevs : list cevent) (k : nat) (d : jvalue) : Prop :=
  exists ck kw, In (CCall ck kw) cevs /\
    d = JDict (kw ++ reserved_fields add_time ck k) /\
    existsb is_null (map snd kw) = false /\
    existsb (starts_with ST_PREFIX) (map fst kw) = false /\
    ascii_str_sizeof (dumps d) < SIZE_LIMIT.

Lemma Forall2_exists_list {A B C} (R : A -> C -> Prop) (f : B -> option C) :
  forall l ps, Forall2 (fun a p => exists d, R a d /\ f p = Some d) l ps ->
  exists ds, Forall2 R l ds /\ map f ps = map Some ds.
Proof.
  induction 1 as [|a p l ps [d [Hr Hf]] _ [ds [I1 I2]]].
  - exists []. split; [constructor | reflexivity].
  - exists (d :: ds). split; [constructor; assumption|]. cbn [map]. rewrite Hf, I2. reflexivity.
Qed.

Theorem reports_arrive_unchanged add_time m1 m2 cevs k0 :
  forallb cevent_good cevs = true ->
  match run_script m1 m2 k0 (map (to_event add_time) cevs) with
  | (_, os, cs) =>
      noise_ok cs = true ->
      StronglySorted lt (emitted_iters os) /\
      exists ds, Forall2 (built_dict add_time cevs) (emitted_iters os) ds /\
                 map loads (retrieve_model (readlines (render cs))) = map Some ds
  end.
Proof.
  intro Hg.
  assert (Hok : forallb cevent_ok cevs = true).
  { apply forallb_forall. intros e He. rewrite forallb_forall in Hg. specialize (Hg e He).
    destruct e as [s|ck kw]; [reflexivity|]. cbn [cevent_good cevent_ok] in *.
    apply andb_true_iff in Hg. tauto. }
  pose proof (reporter_concrete add_time m1 m2 cevs k0 Hok) as H.
  destruct (run_script m1 m2 k0 (map (to_event add_time) cevs)) as [[k' os] cs].
  destruct H as [_ [_ [Hs [Hf Hr]]]]. intro Hn. split; [exact Hs|].
  destruct (Hr Hn) as [-> _].
  apply Forall2_exists_list. eapply Forall2_impl; [|exact Hf].
  intros k p [ck [kw [Hin [-> [H1 [H2 H3]]]]]].
  exists (report_dict add_time ck kw k). split.
  - exists ck, kw. unfold report_dict in *. auto.
  - rewrite forallb_forall in Hg. specialize (Hg _ Hin). cbn [cevent_good] in Hg.
    apply andb_true_iff in Hg. destruct Hg as [Hg Hv]. apply andb_true_iff in Hg. destruct Hg as [Hc Hk].
    apply loads_dumps; [apply report_dict_wf; assumption | apply report_dict_nov; assumption].
Qed.

(* ---- several processes (Reporter instances) appending to one std.out ------------------------- *)

Lemma render_concat css : render (concat css) = concat (map render css).
Proof. induction css as [|cs css IH]; [reflexivity|]. cbn [concat map]. rewrite render_app, IH. reflexivity. Qed.

Lemma payloads_of_concat css : payloads_of (concat css) = concat (map payloads_of css).
Proof. induction css as [|cs css IH]; [reflexivity|]. cbn [concat map]. rewrite payloads_of_app, IH. reflexivity. Qed.

Lemma payloads_ok_concat css : forallb payloads_ok css = true -> payloads_ok (concat css) = true.
Proof.
  induction css as [|cs css IH]; intro H; [reflexivity|]. cbn [forallb concat] in *.
  apply andb_true_iff in H. destruct H as [H1 H2]. rewrite payloads_ok_app, H1, (IH H2). reflexivity.
Qed.

(* the stream and the counters of one process: a fresh Reporter, counter starting at 0 *)
Definition process_out (add_time : bool) (m1 m2 : list Z) (evs : list cevent) : list outcome * list chunk :=
  let '(_, os, cs) := run_script m1 m2 reporter_init (map (to_event add_time) evs) in (os, cs).

Theorem multi_process add_time m1 m2 (scripts : list (list cevent)) :
  forallb (forallb cevent_ok) scripts = true ->
  let outs := map (process_out add_time m1 m2) scripts in
  let css := map snd outs in
  noise_ok (concat css) = true ->
  retrieve_model (readlines (concat (map render css))) = concat (map payloads_of css) /\
  Forall (fun o => StronglySorted lt (emitted_iters (fst o))) outs.
Proof.
  intros Hok outs css Hn. split.
  - rewrite <- render_concat, <- payloads_of_concat. apply framing_lines; [exact Hn|].
    apply payloads_ok_concat. unfold css, outs. rewrite !forallb_forall in *.
    intros cs Hcs. apply in_map_iff in Hcs. destruct Hcs as [o [<- Ho]].
    apply in_map_iff in Ho. destruct Ho as [evs [<- Hevs]]. specialize (Hok evs Hevs).
    pose proof (reporter_concrete add_time m1 m2 evs reporter_init Hok) as H. unfold process_out.
    destruct (run_script m1 m2 reporter_init (map (to_event add_time) evs)) as [[k' os] cs']. cbn [snd]. tauto.
  - apply Forall_forall. intros o Ho. unfold outs in Ho. apply in_map_iff in Ho. destruct Ho as [evs [<- Hevs]].
    rewrite forallb_forall in Hok. specialize (Hok evs Hevs).
    pose proof (reporter_concrete add_time m1 m2 evs reporter_init Hok) as H. unfold process_out.
    destruct (run_script m1 m2 reporter_init (map (to_event add_time) evs)) as [[k' os] cs']. cbn [fst]. tauto.
Qed.

(* ---- retrieve does not depend on whether the lines carry their terminator -------------------- *)

Lemma strip_prefix_snoc_nl p : mem_ch NL p = false ->
  forall t, strip_prefix p (t ++ [NL]) = option_map (fun r => r ++ [NL]) (strip_prefix p t).
Proof.
  induction p as [|a p IH]; intros Hp t; [reflexivity|].
  cbn [mem_ch] in Hp. apply orb_false_iff in Hp. destruct Hp as [Ha Hp].
  destruct t as [|c t].
  - cbn [app]. rewrite strip_prefix_cons. rewrite Z.eqb_sym in Ha. rewrite Ha. reflexivity.
  - rewrite <- app_comm_cons, !strip_prefix_cons. destruct (Z.eqb a c); [apply IH; exact Hp | reflexivity].
Qed.

Lemma line_of_snoc_nl t : line_of (t ++ [NL]) = line_of t.
Proof.
  induction t as [|c t IH]; [reflexivity|]. rewrite <- app_comm_cons. cbn [line_of].
  destruct (Z.eqb c NL); [reflexivity | rewrite IH; reflexivity].
Qed.

Lemma match_here_snoc_nl t : match_here (t ++ [NL]) = match_here t.
Proof.
  unfold match_here. rewrite (strip_prefix_snoc_nl PRE PRE_no_nl).
  destruct (strip_prefix PRE t) as [r|]; [|reflexivity]. cbn [option_map]. rewrite line_of_snoc_nl. reflexivity.
Qed.

Lemma scan_snoc_nl : forall t k, scan (t ++ [NL]) k = scan t k.
Proof.
  induction t as [|c r IH]; intro k.
  - cbn [app]. destruct k; reflexivity.
  - pose proof (match_here_snoc_nl (c :: r)) as M. rewrite <- app_comm_cons in *.
    destruct k as [|k]; cbn [scan]; [|apply IH].
    rewrite M. destruct (match_here (c :: r)); [f_equal|]; apply IH.
Qed.

Lemma strip_nl_cons2 c d r : strip_nl (c :: d :: r) = c :: strip_nl (d :: r).
Proof. reflexivity. Qed.

Lemma strip_nl_cases t : t = strip_nl t \/ t = strip_nl t ++ [NL].
Proof.
  induction t as [|c t IH]; [left; reflexivity|]. destruct t as [|d t].
  - cbn [strip_nl]. destruct (Z.eqb c NL) eqn:E; [right; apply Z.eqb_eq in E; subst; reflexivity | left; reflexivity].
  - rewrite strip_nl_cons2. destruct IH as [IH | IH]; [left | right]; rewrite <- ?app_comm_cons; f_equal; exact IH.
Qed.

Lemma join_strip_readlines t : join_nl (map strip_nl (readlines t)) = strip_nl t.
Proof.
  induction t as [|c r IH]; [reflexivity|].
  pose proof (readlines_lines_nonempty r) as Hne.
  destruct (Z.eqb c NL) eqn:E.
  - apply Z.eqb_eq in E. subst c. change (readlines (NL :: r)) with ([NL] :: readlines r).
    destruct r as [|d r']; [reflexivity|]. rewrite strip_nl_cons2, <- IH.
    destruct (readlines (d :: r')) as [|l ls] eqn:El; [apply readlines_nil_iff in El; discriminate|].
    reflexivity.
  - rewrite (readlines_cons_nonl c r E). destruct (readlines r) as [|l ls] eqn:El.
    + apply readlines_nil_iff in El. subst r. cbn [map strip_nl join_nl]. rewrite E. reflexivity.
    + inversion Hne as [|? ? Hl _]; subst. destruct r as [|d r']; [discriminate El|].
      rewrite strip_nl_cons2, <- IH. destruct l as [|e l']; [congruence|].
      cbn [map]. rewrite strip_nl_cons2. destruct (map strip_nl ls); reflexivity.
Qed.

Theorem retrieve_stripped_lines t : retrieve_model (map strip_nl (readlines t)) = findall t.
Proof.
  unfold retrieve_model, findall. rewrite join_strip_readlines.
  destruct (strip_nl_cases t) as [H | H]; [rewrite <- H; reflexivity|].
  rewrite H at 2. rewrite scan_snoc_nl. reflexivity.
Qed.
