(* TunerEvalProofs.v — C12: (1) WHEN the stop condition is evaluated: before the first iteration and directly after
   on_loop_end of EVERY iteration, including the iterations in which the loop only waits for running trials (search
   space exhausted / wait_trial_completion_when_stopping); (2) the overshoot of max_num_evaluations. *)
From Verif Require Import model.Base model.Tuner proofs.TunerProofs proofs.TunerPolledProofs.
From Coq Require Import Lia.
Local Open Scope nat_scope.

Definition is_loop_end (e : event) : bool := match e with ECbLoopEnd => true | _ => false end.

(* newest first: the event recorded right after an on_loop_end is an evaluation of the stop condition *)
Fixpoint evals_ok (tr : list event) : Prop :=
  match tr with
  | e1 :: tr' => match tr' with e2 :: _ => (is_loop_end e2 = true -> is_stop e1 = true) | [] => True end /\ evals_ok tr'
  | [] => True
  end.
Definition head_ok (tr : list event) : Prop := match tr with e :: _ => is_loop_end e = false | [] => True end.

Lemma evals_app new : forall tr,
  forallb (fun e => negb (is_loop_end e)) new = true -> head_ok tr -> evals_ok tr ->
  evals_ok (new ++ tr) /\ head_ok (new ++ tr).
Proof.
  induction new as [|e new IH]; intros tr Hn Hh He; simpl app; [auto|].
  cbn [forallb] in Hn. apply andb_true_iff in Hn. destruct Hn as [H1 H2]. apply negb_true_iff in H1.
  destruct (IH tr H2 Hh He) as [A B]. split; [|exact H1].
  cbn [evals_ok]. split; [|exact A].
  destruct (new ++ tr) as [|e2 rest]; [exact I|]. simpl in B. intro Hc. rewrite B in Hc. discriminate.
Qed.

(* results returned by the most recent poll *)
Fixpoint last_fetch (tr : list event) : nat :=
  match tr with [] => 0 | ECbFetch _ rs :: _ => length rs | _ :: tr' => last_fetch tr' end.
Definition is_fetch (e : event) : bool := match e with ECbFetch _ _ => true | _ => false end.
Lemma last_fetch_app new tr : forallb (fun e => negb (is_fetch e)) new = true -> last_fetch (new ++ tr) = last_fetch tr.
Proof.
  induction new as [|e new IH]; simpl; [reflexivity|]. rewrite andb_true_iff. intros [H1 H2].
  destruct e; simpl in H1; try discriminate; auto.
Qed.

Section Eval.
Variable prm : params.
Variable o : oracles.

Definition EvInv (st : state) : Prop := evals_ok (s_trace st) /\ head_ok (s_trace st).

Lemma EvInv_ext Q st st' : (forall e, Q e = true -> is_loop_end e = false) -> ext Q st st' -> EvInv st -> EvInv st'.
Proof.
  intros HQ (new & Ht & F) [A B]. unfold EvInv. rewrite Ht. apply evals_app; auto.
  rewrite forallb_forall in *. intros e He. rewrite (HQ e (F e He)). reflexivity.
Qed.

Lemma iteration_end_EvInv st st' c : iteration_end prm o st = (st', c) -> EvInv st -> EvInv st'.
Proof.
  unfold iteration_end, stop_condition. intros H [A B]. injection H as <- _. unfold EvInv. simpl.
  repeat split; auto. destruct (s_trace st) as [|e rest]; [exact I|]. simpl in B. intro Hc. rewrite B in Hc. discriminate.
Qed.

Theorem run_loop_evals fuel st x :
  run_loop prm o fuel = (st, x) ->
  evals_ok (s_trace st) /\
  exists c f rest, s_trace st = rest ++ [EStopCond c f; ECbTuningStart].
Proof.
  unfold run_loop. destruct (stop_condition prm o (emit ECbTuningStart init_state)) as [st0 c0] eqn:E0. intro H.
  assert (H0 : s_trace st0 = [EStopCond (criterion prm (emit ECbTuningStart init_state) (o_clk o 0) || o_ext o 0)
                                (criterion prm (emit ECbTuningStart init_state) (o_clk o 0) || o_ext o 0 || too_many_failures prm (emit ECbTuningStart init_state));
                              ECbTuningStart]).
  { unfold stop_condition in E0. injection E0 as <- _. reflexivity. }
  split.
  - assert (G : EvInv st); [|apply G].
    eapply (loop_gen_inv prm o (schedule_new_tasks prm o) EvInv EvInv); [| | | | | |exact H|].
    + auto.
    + intros s s' Hi Ep. apply poll_ext in Ep. eapply EvInv_ext; [|exact Ep|exact Hi]. intros e He. destruct e; simpl in *; auto; discriminate.
    + intros s s' e Hi Ep. apply poll_ext in Ep. eapply EvInv_ext; [|exact Ep|exact Hi]. intros e0 He. destruct e0; simpl in *; auto; discriminate.
    + intros s Hi. eapply (EvInv_ext (fun e => match e with ECbSleep => true | _ => false end)); [|apply ext_emit; reflexivity|exact Hi].
      intros e He. destruct e; simpl in *; auto; discriminate.
    + intros s s' r Hi Es. apply schedule_new_tasks_ext in Es. eapply EvInv_ext; [|exact Es|exact Hi].
      intros e He. destruct e; simpl in *; auto; discriminate.
    + intros s s' c Hi Ei. eapply iteration_end_EvInv; eauto.
    + unfold EvInv. rewrite H0. simpl. repeat split; discriminate.
  - apply loop_ext in H. destruct H as (new & Ht & _). rewrite H0 in Ht. eauto.
Qed.

(* ---- max_num_evaluations --------------------------------------------------------------------------------------- *)
Definition count_eq (st st' : state) : Prop := s_count st' = s_count st.

Lemma result_step_count sd st done r st' done' : result_step o sd (st, done) r = (st', done') -> count_eq st st'.
Proof.
  unfold result_step, count_eq. destruct r as [[t idx] rep]. destruct (amem t done); [intro H; injection H as <- _; auto|].
  unfold notify_result, apply_decision, backend_stop, backend_pause.
  destruct (o_dec o _); [| |destruct (sd_status t sd)]; intro H; injection H as <- _; reflexivity.
Qed.
Lemma loop1_count sd rs : forall st done st' done', loop1 o sd rs st done = (st', done') -> count_eq st st'.
Proof.
  unfold loop1. induction rs as [|r rs IH]; intros st done st' done' H; cbn [fold_left] in H.
  - injection H as <- _. reflexivity.
  - destruct (result_step o sd (st, done) r) as [st1 done1] eqn:E1. apply result_step_count in E1. apply IH in H.
    unfold count_eq in *. congruence.
Qed.
Lemma status_step_count st done err e st' done' err' : status_step (st, done, err) e = (st', done', err') -> count_eq st st'.
Proof.
  unfold status_step, count_eq. destruct err; [intro H; injection H as <- _ _; auto|]. destruct e as [t s].
  destruct s; try (intro H; injection H as <- _ _; auto; fail).
  - destruct (s_last st t); intro H; injection H as <- _ _; auto.
    destruct (amem t done); destruct (match aget t done with Some Paused => Paused | _ => Completed end); auto.
  - intro H; injection H as <- _ _. destruct (amem t done); auto.
  - destruct (mem_nat t (s_sstopped st)); intro H; injection H as <- _ _; auto.
Qed.
Lemma loop2_count sd : forall st done err st' done' err',
  fold_left status_step sd (st, done, err) = (st', done', err') -> count_eq st st'.
Proof.
  induction sd as [|e sd IH]; intros st done err st' done' err' H; cbn [fold_left] in H.
  - injection H as <- _ _. reflexivity.
  - destruct (status_step (st, done, err) e) as [[st1 done1] err1] eqn:E1. apply status_step_count in E1. apply IH in H.
    unfold count_eq in *. congruence.
Qed.
Lemma fetch_count order st st' sd rs : fetch o order st = (st', sd, rs) -> count_eq st st'.
Proof.
  unfold fetch, count_eq. intro H.
  destruct (fold_left fetch_one order (all_trial_results o order st, [])) as [st2 rs2] eqn:E. injection H as <- _ _.
  assert (G : forall l s0 r0 s2 r2, fold_left fetch_one l (s0, r0) = (s2, r2) -> s_count s2 = s_count s0).
  { induction l as [|t l IH]; intros s0 r0 s2' r2' H; cbn [fold_left] in H; [injection H as <- _; auto|].
    destruct (fetch_one (s0, r0) t) as [s1 r1] eqn:E1. apply IH in H. rewrite H.
    unfold fetch_one in E1. destruct (b_reports (s_bt s0 t)); [injection E1 as <- _; auto|].
    destruct (hidden (b_w (s_bt s0 t))); injection E1 as <- _; auto. }
  apply G in E. rewrite E.
  assert (G2 : forall l s0, s_count (all_trial_results o l s0) = s_count s0).
  { unfold all_trial_results. induction l as [|t l IH]; intro s0; simpl; [auto|]. rewrite IH.
    unfold world_apply. destruct (active _); [|reflexivity]. destruct (o_world o (s_nw s0)). reflexivity. }
  apply G2.
Qed.
Lemma status_update_count sd rs st : s_count (status_update sd rs st) = (s_count st + Z.of_nat (length rs))%Z.
Proof.
  unfold status_update.
  assert (G : forall l s0, s_count (fold_left stats_add l s0) = (s_count s0 + Z.of_nat (length l))%Z).
  { induction l as [|r l IH]; intro s0; simpl fold_left; [simpl; lia|]. rewrite IH, stats_add_count. simpl length. lia. }
  rewrite G. reflexivity.
Qed.

(* one poll adds exactly the results it returned (or nothing, when an exception ends it) *)
Lemma poll_count_evals st st' err :
  poll prm o st = (st', err) ->
  (s_count st' = s_count st + Z.of_nat (last_fetch (s_trace st')))%Z \/ s_count st' = s_count st.
Proof.
  unfold poll. destruct (process_new_results prm o (emit ECbLoopStart st)) as [[st1 done] err1] eqn:E.
  intro H.
  assert (G : (s_count st1 = s_count st + Z.of_nat (last_fetch (s_trace st1)))%Z \/ s_count st1 = s_count st).
  { revert E. unfold process_new_results.
    set (order := poll_order (s_running (emit ECbLoopStart st)) (o_ord o (s_np (emit ECbLoopStart st)))).
    set (st0 := emit (EBFetch order) (set_np (emit ECbLoopStart st) (S (s_np (emit ECbLoopStart st))))).
    destruct (fetch o order st0) as [[st1a sd] rs] eqn:Ef. apply fetch_count in Ef.
    set (ev := ECbFetch sd (map (fun r => (fst (fst r), snd (fst r))) rs)).
    set (st1' := emit ev st1a).
    destruct (Nat.ltb (n_workers prm) (length (s_running st1'))); [intro E; injection E as <- _ _; right; unfold count_eq, st0 in Ef; simpl in *; exact Ef|].
    destruct (loop1 o sd rs st1' []) as [st2 done2] eqn:E1.
    pose proof (loop1_ext _ _ _ _ _ _ _ E1) as (n1 & T1 & F1). apply loop1_count in E1.
    destruct (loop2 sd st2 done2) as [[st3 done3] err3] eqn:E2. unfold loop2 in E2.
    pose proof (loop2_ext _ _ _ _ _ _ _ E2) as (n2 & T2 & F2). apply loop2_count in E2.
    unfold count_eq in *. unfold st1' in E1. unfold st0 in Ef. simpl in E1, Ef.
    destruct err3; intro E; injection E as <- _ _; [right; congruence|]. left.
    rewrite status_update_count.
    destruct (status_update_frame (aupdate sd done3) rs st3) as (_ & _ & _ & F4 & _). rewrite F4, T2, T1.
    rewrite !last_fetch_app.
    - unfold st1', ev. simpl. rewrite map_length, E2, E1, Ef. reflexivity.
    - rewrite forallb_forall in *. intros e He. specialize (F1 e He). destruct e; simpl in *; auto; discriminate.
    - rewrite forallb_forall in *. intros e He. specialize (F2 e He). destruct e; simpl in *; auto; discriminate. }
  destruct err1; injection H as <- _; exact G.
Qed.

(* wait=False: at loop exit the number of evaluations exceeds max_num_evaluations by at most the number of results
   the LAST poll returned *)
Theorem overshoot_evaluations v fuel st x :
  wait_completion prm = false -> c_evals prm = Some v -> (0 <= v)%Z -> run_loop prm o fuel = (st, x) ->
  (s_count st <= v + Z.of_nat (last_fetch (s_trace st)))%Z.
Proof.
  intros Hw Hv Hv0 H.
  unfold run_loop in H. destruct (stop_condition prm o (emit ECbTuningStart init_state)) as [st0 c0] eqn:E0.
  set (B := fun s : state => (s_count s <= v + Z.of_nat (last_fetch (s_trace s)))%Z).
  assert (Hquiet : forall Q s s', (forall e, Q e = true -> is_fetch e = false) -> ext Q s s' -> s_count s' = s_count s -> B s -> B s').
  { intros Q s s' HQ (new & Ht & F) Hc Hb. unfold B in *. rewrite Ht, Hc, last_fetch_app; [exact Hb|].
    rewrite forallb_forall in *. intros e He. rewrite (HQ e (F e He)). reflexivity. }
  assert (Hend : forall s s' c', iteration_end prm o s = (s', c') -> B s -> B s' /\ (c' = false -> (s_count s' <= v)%Z)).
  { intros s s' c' Ei Hb. split.
    - unfold iteration_end, stop_condition in Ei. injection Ei as <- _. unfold B in *. simpl. exact Hb.
    - intros ->. eapply evals_bound_at_false_end; eauto. }
  eapply (loop_rule prm o (fun s c => B s /\ (c = false -> (s_count s <= v)%Z))
                          (fun s c => B s) B); [| | | | |exact H|].
  - intros s c [Hb _]. exact Hb.
  - intros s c s' err [Hb Hc] Ew Ep.
    assert (Hcf : c = false) by (destruct c; [apply while_cond_true_c in Ew; congruence|reflexivity]).
    assert (Hb' : B s').
    { destruct (poll_count_evals _ _ _ Ep) as [Hcnt|Hcnt]; unfold B.
      - specialize (Hc Hcf). lia.
      - pose proof (poll_ext _ _ _ _ _ Ep) as (new & Ht & _). unfold B in Hb. specialize (Hc Hcf). lia. }
    split; intros _; exact Hb'.
  - auto.
  - intros s c ex s' c' Hb _ _ Ei. apply (Hend _ _ _ Ei).
    eapply (Hquiet (fun e => match e with ECbSleep => true | _ => false end)); [|apply ext_emit; reflexivity|reflexivity|exact Hb].
    intros e He. destruct e; simpl in *; auto; discriminate.
  - intros s c ex s2 r Hb _ Es.
    assert (Hb2 : B s2).
    { eapply (Hquiet sched_sleep_ev); [|eapply schedule_new_tasks_ext; eauto| |exact Hb].
      - intros e He. destruct e; simpl in *; auto; discriminate.
      - apply schedule_new_tasks_cases in Es. destruct Es as (s1 & Hbl & Hc).
        assert (E1 : s_count s1 = s_count s).
        { destruct Hbl as [->|[busy Hbk]]; [reflexivity|]. unfold busy_look in Hbk. injection Hbk as <- _. simpl.
          clear. generalize (seq 0 (s_ntrials s)). intro l. revert s. unfold all_trial_results.
          induction l as [|t l IH]; intro s; simpl; [reflexivity|]. rewrite IH.
          unfold world_apply. destruct (active _); [|reflexivity]. destruct (o_world o (s_nw s)). reflexivity. }
        destruct Hc as [[-> ->]|(k & _ & Hk)]; [simpl; exact E1|]. rewrite <- E1.
        clear - Hk. revert s1 s2 r Hk. induction k as [|k IH]; intros s1 s2 r Hk; simpl in Hk; [injection Hk as <- _; reflexivity|].
        destruct (ckpt_missing o s1) as [j|]; [injection Hk as <- _; reflexivity|].
        destruct (schedule_new_task o s1) as [s3 r3] eqn:E3.
        assert (Hc3 : s_count s3 = s_count s1).
        { unfold schedule_new_task in E3. destruct (o_sug o (s_ns s1)) as [|cfg ck|id cfg]; try (injection E3 as <- _; reflexivity).
          destruct (Nat.ltb id (s_ntrials s1)); [destruct (b_td _)|]; injection E3 as <- _; reflexivity. }
        destruct r3; [rewrite (IH _ _ _ Hk); exact Hc3| |]; injection Hk as <- _; exact Hc3. }
    destruct r; [intros s3 c' Ei; apply (Hend _ _ _ Ei Hb2)|intros s3 c' Ei; apply (Hend _ _ _ Ei Hb2)|exact Hb2].
  - unfold stop_condition in E0. injection E0 as <- _. unfold B. simpl. split; intros; lia.
Qed.

(* ---- failures are recorded: the status map after a poll against what the poll showed ---------------------------- *)
Lemma result_step_vals sd st done r st' done' t :
  result_step o sd (st, done) r = (st', done') -> aget t done' = Some Failed -> aget t done = Some Failed.
Proof.
  unfold result_step. destruct r as [[t0 idx] rep]. destruct (amem t0 done); [intro H; injection H as _ <-; auto|].
  destruct (notify_result o sd t0 idx st) as [[st1 s] d]. intro Ha.
  apply apply_decision_spec in Ha. destruct Ha as (_ & _ & Ha).
  assert (G : forall v, v <> Failed -> aget t (aset t0 v done) = Some Failed -> aget t done = Some Failed).
  { intros v Hv Hx. destruct (Nat.eq_dec t t0) as [->|Hne]; [rewrite aget_aset_same in Hx; congruence|].
    rewrite aget_aset_other in Hx by exact Hne. exact Hx. }
  destruct d.
  - destruct Ha as [_ ->]. auto.
  - destruct Ha as (-> & _). apply G. discriminate.
  - destruct Ha as (_ & _ & Ha). destruct s; destruct Ha as (-> & _); apply G; discriminate.
Qed.
Lemma loop1_vals sd rs t : forall st done st' done',
  loop1 o sd rs st done = (st', done') -> aget t done' = Some Failed -> aget t done = Some Failed.
Proof.
  unfold loop1. induction rs as [|r rs IH]; intros st done st' done' H Hx; cbn [fold_left] in H.
  - injection H as _ <-. exact Hx.
  - destruct (result_step o sd (st, done) r) as [st1 done1] eqn:E1. eapply result_step_vals; [exact E1|]. eapply IH; eauto.
Qed.

Lemma status_step_vals st done t0 s0 st' done' :
  status_step (st, done, None) (t0, s0) = (st', done', None) ->
  (forall t, t <> t0 -> aget t done' = aget t done) /\
  (aget t0 done <> Some Failed -> (aget t0 done' = Some Failed <-> s0 = Failed)).
Proof.
  unfold status_step.
  assert (G : forall v, (forall x, x <> t0 -> aget x (aset t0 v done) = aget x done) /\ aget t0 (aset t0 v done) = Some v).
  { intro v. split; [intros x Hx; apply aget_aset_other; exact Hx|apply aget_aset_same]. }
  destruct s0; try solve [intro H; injection H as _ <-; split; [auto|intro Hn; split; [intro Hx; contradiction|discriminate]]].
  - destruct (s_last st t0); [|discriminate]. intro H; injection H as _ <-.
    destruct (G (match aget t0 done with Some Paused => Paused | _ => Completed end)) as [G1 G2].
    split; [exact G1|]. intros _. rewrite G2. split; [|discriminate]. intro Hx. injection Hx as Hx.
    destruct (aget t0 done) as [[]|]; discriminate.
  - intro H; injection H as _ <-. destruct (G Failed) as [G1 G2]. split; [exact G1|]. intros _. rewrite G2. tauto.
  - destruct (mem_nat t0 (s_sstopped st)); intro H; injection H as _ <-.
    + split; [auto|]. intro Hn. split; [intro Hx; contradiction|discriminate].
    + destruct (G Stopped) as [G1 G2]. split; [exact G1|]. intros _. rewrite G2. split; discriminate.
Qed.

Lemma loop2_vals sd : forall st done st' done',
  fold_left status_step sd (st, done, None) = (st', done', None) -> NoDup (map fst sd) ->
  (forall t, aget t done = Some Failed -> ~ In t (map fst sd)) ->
  forall t, aget t done' = Some Failed <-> (In (t, Failed) sd \/ aget t done = Some Failed).
Proof.
  induction sd as [|e sd IH]; intros st done st' done' H Hnd Hfresh t; cbn [fold_left] in H.
  - injection H as _ <-. simpl. tauto.
  - destruct (status_step (st, done, None) e) as [[st1 done1] err1] eqn:E1.
    assert (Herr1 : err1 = None).
    { destruct err1 as [e1|]; [|reflexivity]. exfalso.
      clear - H. revert H. generalize st1 done1. induction sd as [|e' sd IH]; intros s0 d0 H; cbn [fold_left] in H; [discriminate|].
      unfold status_step at 2 in H. eapply IH; eauto. }
    subst err1. destruct e as [t0 s0]. cbn [map fst] in *. inversion Hnd as [|? ? Hni Hnd']; subst.
    destruct (status_step_vals _ _ _ _ _ _ E1) as (V1 & V2).
    assert (Hn0 : aget t0 done <> Some Failed) by (intro Hx; apply (Hfresh t0 Hx); left; reflexivity).
    specialize (V2 Hn0).
    assert (Hfresh1 : forall x, aget x done1 = Some Failed -> ~ In x (map fst sd)).
    { intros x Hx. destruct (Nat.eq_dec x t0) as [->|Hne]; [exact Hni|].
      rewrite V1 in Hx by exact Hne. intro Hin. apply (Hfresh x Hx). right. exact Hin. }
    rewrite (IH _ _ _ _ H Hnd' Hfresh1 t). cbn [In].
    destruct (Nat.eq_dec t t0) as [->|Hne].
    + rewrite V2. split.
      * intros [Hin|Hs]; [left; right; exact Hin|left; left; rewrite Hs; reflexivity].
      * intros [[Heq|Hin]|Hx]; [injection Heq as <-; right; reflexivity|left; exact Hin|contradiction].
    + rewrite V1 by exact Hne. split.
      * intros [Hin|Hx]; [left; right; exact Hin|right; exact Hx].
      * intros [[Heq|Hin]|Hx]; [injection Heq as Heq _; congruence|left; exact Hin|right; exact Hx].
Qed.

(* after a poll that raised no exception: a trial has the status-map entry Failed iff the poll listed it as Failed, or
   the poll did not list it and its entry was Failed before; [sd] is the status dictionary of the ECbFetch event *)
Theorem failures_recorded st st' done :
  process_new_results prm o st = (st', done, None) -> NoDup (s_running st) ->
  exists sd rs,
    (exists post, s_trace st' = post ++ ECbFetch sd rs :: EBFetch (map fst sd) :: s_trace st /\
                  forallb (fun e => result_ev e || status_ev e) post = true) /\
    map fst sd = poll_order (s_running st) (o_ord o (s_np st)) /\
    forall t, aget t (s_smap st') = Some Failed <->
              (In (t, Failed) sd \/ (~ In t (map fst sd) /\ aget t (s_smap st) = Some Failed)).
Proof.
  intros H Hnd. revert H. unfold process_new_results.
  set (order := poll_order (s_running st) (o_ord o (s_np st))).
  set (st0 := emit (EBFetch order) (set_np st (S (s_np st)))).
  destruct (fetch o order st0) as [[st1 sd] rs] eqn:Ef.
  apply fetch_spec in Ef. destruct Ef as (A & _ & _ & _ & _ & _ & Hsdk & _ & Hrs).
  set (ev := ECbFetch sd (map (fun r => (fst (fst r), snd (fst r))) rs)).
  set (st1' := emit ev st1).
  destruct (Nat.ltb (n_workers prm) (length (s_running st1'))); [discriminate|].
  destruct (loop1 o sd rs st1' []) as [st2 done2] eqn:E1.
  pose proof (loop1_ext _ _ _ _ _ _ _ E1) as (n1 & T1 & P1).
  pose proof (loop1_budget _ _ _ _ _ _ _ E1) as (C1 & _).
  assert (K1 : keys_ok done2 (map fst sd)).
  { eapply (loop1_keys o sd rs); [exact E1| |split; [constructor|intros x []]]. intros r Hr. rewrite Hsdk. apply Hrs. exact Hr. }
  assert (V1 : forall t, aget t done2 <> Some Failed).
  { intros t Hx. apply (loop1_vals _ _ _ _ _ _ _ E1) in Hx. discriminate. }
  destruct (loop2 sd st2 done2) as [[st3 done3] err3] eqn:E2. unfold loop2 in E2.
  pose proof (loop2_ext _ _ _ _ _ _ _ E2) as (n2 & T2 & P2).
  pose proof (loop2_budget sd _ _ _ _ _ _ _ E2) as (C2 & _).
  destruct err3; [discriminate|]. intro H. injection H as <- <-.
  assert (Hndsd : NoDup (map fst sd)) by (rewrite Hsdk; apply poll_order_NoDup; exact Hnd).
  pose proof (loop2_vals _ _ _ _ _ E2 Hndsd (fun t Hx => False_ind _ (V1 t Hx))) as V2.
  pose proof (loop2_keys (map fst sd) sd _ _ _ _ _ _ E2 (fun e He => in_map fst sd e He) K1) as (K3 & _).
  exists sd, (map (fun r => (fst (fst r), snd (fst r))) rs).
  destruct (status_update_frame (aupdate sd done3) rs st3) as (_ & _ & _ & F4 & F5 & _).
  split; [|split; [exact Hsdk|]].
  - exists (n2 ++ n1). split.
    + rewrite F4, T2, T1, <- app_assoc. unfold st1'. cbn [s_trace emit]. destruct A as (_ & _ & -> & _).
      unfold st0. cbn [s_trace emit set_np]. rewrite Hsdk. reflexivity.
    + rewrite forallb_app. apply andb_true_intro. split; apply forallb_forall; intros e He.
      * rewrite forallb_forall in P2. rewrite (P2 e He). apply orb_true_r.
      * rewrite forallb_forall in P1. rewrite (P1 e He). reflexivity.
  - intro t. rewrite F5.
    assert (Hsm : s_smap st3 = s_smap st).
    { destruct C2 as (_ & _ & -> & _). destruct C1 as (_ & _ & -> & _). unfold st1'. simpl.
      destruct A as (_ & _ & _ & _ & _ & -> & _). reflexivity. }
    rewrite Hsm.
    assert (HU : map fst (aupdate sd done3) = map fst sd) by (apply aupdate_keys; apply K3).
    assert (HndU : NoDup (map fst (aupdate sd done3))) by (rewrite HU; exact Hndsd).
    destruct (in_dec Nat.eq_dec t (map fst sd)) as [Hin|Hnin].
    + (* listed by the poll: the entry is the one of done_trials if there is one, else the listed status *)
      assert (Hval : aget t (aupdate sd done3) = Some Failed <-> In (t, Failed) sd).
      { destruct (aget t done3) as [v|] eqn:Ed.
        - rewrite (aget_aupdate_in _ _ _ _ (proj1 K3) Ed). split; intro Hx.
          + injection Hx as ->. apply V2 in Ed. destruct Ed as [Hi|Hd]; [exact Hi|exfalso; apply (V1 t Hd)].
          + assert (Hf : aget t done3 = Some Failed) by (apply V2; left; exact Hx). congruence.
        - assert (Hnd3 : ~ In t (map fst done3)) by (apply aget_none_notin; exact Ed).
          rewrite aget_aupdate_notin by exact Hnd3. split; intro Hx.
          + apply aget_In. exact Hx.
          + exfalso. assert (Hf : aget t done3 = Some Failed) by (apply V2; left; exact Hx). congruence. }
      destruct (aget t (aupdate sd done3)) as [v|] eqn:Ev.
      * rewrite (aget_aupdate_in _ _ _ _ HndU Ev). rewrite <- Hval. split; [intro Hx; left; exact Hx|intros [Hx|[Hx _]]; [exact Hx|contradiction]].
      * exfalso. apply aget_none_notin in Ev. rewrite HU in Ev. contradiction.
    + rewrite aget_aupdate_notin by (rewrite HU; exact Hnin). split.
      * intro Hx. right. split; assumption.
      * intros [Hx|[_ Hx]]; [exfalso; apply Hnin; apply in_map_iff; exists (t, Failed); auto|exact Hx].
Qed.

End Eval.

(* ---- the whole-run failure count ---------------------------------------------------------------------------------
   [lastobs t tr]: the status trial t was last OBSERVED in on the (newest-first) trace: by the status dictionary a poll
   handed to the callbacks (ECbFetch), or InProgress by its own start / resume. *)
Fixpoint lastobs (t : nat) (tr : list event) : option status :=
  match tr with
  | [] => None
  | e :: tr' =>
      match e with
      | ECbFetch sd _ => match aget t sd with Some s => Some s | None => lastobs t tr' end
      | EBStart t' _ _ => if Nat.eqb t' t then Some InProgress else lastobs t tr'
      | EBResume t' _ => if Nat.eqb t' t then Some InProgress else lastobs t tr'
      | _ => lastobs t tr'
      end
  end.
Definition obs_failed (tr : list event) (t : nat) : bool :=
  match lastobs t tr with Some Failed => true | _ => false end.
Definition obs_free (e : event) : bool :=
  match e with ECbFetch _ _ | EBStart _ _ _ | EBResume _ _ => false | _ => true end.

Lemma lastobs_app_free t new tr : forallb obs_free new = true -> lastobs t (new ++ tr) = lastobs t tr.
Proof.
  induction new as [|e new IH]; simpl; [reflexivity|]. intro H. apply andb_prop in H. destruct H as [He Hn].
  destruct e; simpl in He; try discriminate; apply IH; exact Hn.
Qed.

Lemma ne_eqb (a b : nat) : a <> b -> Nat.eqb b a = false.
Proof. intro H. apply Nat.eqb_neq. auto. Qed.

Section FailCount.
Variable prm : params.
Variable o : oracles.

Definition FInv (st : state) : Prop :=
  forall t, aget t (s_smap st) = Some Failed <-> lastobs t (s_trace st) = Some Failed.

Lemma FInv_quiet st st' new :
  s_trace st' = new ++ s_trace st -> forallb obs_free new = true -> s_smap st' = s_smap st -> FInv st -> FInv st'.
Proof. intros Ht Hn Hs HF t. rewrite Ht, Hs, lastobs_app_free by exact Hn. apply HF. Qed.

Lemma poll_FInv st st' : poll prm o st = (st', None) -> NoDup (s_running st) -> FInv st -> FInv st'.
Proof.
  unfold poll. destruct (process_new_results prm o (emit ECbLoopStart st)) as [[st1 done] err1] eqn:E.
  destruct err1 as [e|]; [discriminate|]. intros H Hnd HF. injection H as <-.
  apply failures_recorded in E; [|exact Hnd]. destruct E as (sd & rs & (post & Htr & Hpost) & Hk & Hiff).
  assert (Hndsd : NoDup (map fst sd)) by (rewrite Hk; apply poll_order_NoDup; exact Hnd).
  intro t. cbn [s_smap s_trace set_running set_doneall]. rewrite Hiff, Htr.
  rewrite lastobs_app_free.
  2:{ apply forallb_forall. intros e He. rewrite forallb_forall in Hpost. specialize (Hpost e He).
      destruct e; simpl in Hpost; try discriminate; reflexivity. }
  cbn [lastobs s_trace emit s_smap]. destruct (aget t sd) as [v|] eqn:Eg.
  - assert (Hin : In t (map fst sd)) by (apply in_map_iff; exists (t, v); split; [reflexivity|apply aget_In; exact Eg]).
    split.
    + intros [Hx|[Hx _]]; [|contradiction]. apply In_aget_nodup in Hx; [|exact Hndsd]. congruence.
    + intro Hx. injection Hx as ->. left. apply aget_In. exact Eg.
  - assert (Hnin : ~ In t (map fst sd)) by (apply aget_none_notin; exact Eg).
    rewrite <- (HF t). split.
    + intros [Hx|[_ Hx]]; [|exact Hx]. exfalso. apply Hnin. apply in_map_iff. exists (t, Failed). auto.
    + intro Hx. right. split; assumption.
Qed.

(* a start or a resume writes InProgress for its trial and shows InProgress on the trace *)
Lemma FInv_start st st' t new :
  s_trace st' = new ++ s_trace st -> s_smap st' = aset t InProgress (s_smap st) ->
  lastobs t (new ++ s_trace st) = Some InProgress ->
  (forall x, x <> t -> lastobs x (new ++ s_trace st) = lastobs x (s_trace st)) -> FInv st -> FInv st'.
Proof.
  intros Ht Hs Hl Ho HF x. rewrite Ht, Hs. destruct (Nat.eq_dec x t) as [->|Hne].
  - rewrite aget_aset_same, Hl. split; discriminate.
  - rewrite aget_aset_other by exact Hne. rewrite Ho by exact Hne. apply HF.
Qed.

Lemma schedule_new_task_FInv st st' r : schedule_new_task o st = (st', r) -> FInv st -> FInv st'.
Proof.
  unfold schedule_new_task. intros H HF. set (n := s_ntrials st) in *.
  destruct (o_sug o (s_ns st)) as [|cfg ck|id cfg].
  - injection H as <- <-. apply (FInv_quiet st _ [ESSuggest n SNothing]); auto.
  - injection H as <- <-.
    apply (FInv_start st _ n [ECbStart n; ESAdd n; EBStart n cfg ck; ESSuggest n (SStart cfg ck)]); auto.
    + simpl. rewrite Nat.eqb_refl. reflexivity.
    + intros x Hx. simpl. rewrite ne_eqb by auto. reflexivity.
  - destruct (Nat.ltb id n).
    2:{ injection H as <- <-. apply (FInv_quiet st _ [ESSuggest n (SResume id cfg)]); auto. }
    destruct (b_td _); injection H as <- <-;
      try (apply (FInv_quiet st _ [ESSuggest n (SResume id cfg)]); auto; fail).
    apply (FInv_start st _ id [ECbResume id; EBResume id cfg; ESSuggest n (SResume id cfg)]); auto.
    + simpl. rewrite Nat.eqb_refl. reflexivity.
    + intros x Hx. simpl. rewrite ne_eqb by auto. reflexivity.
Qed.

Lemma schedule_k_FInv k : forall st st' r, schedule_k o k st = (st', r) -> FInv st -> FInv st'.
Proof.
  induction k as [|k IH]; intros st st' r H HF; simpl in H; [injection H as <- <-; exact HF|].
  destruct (ckpt_missing o st) as [j|].
  { injection H as <- <-. apply (FInv_quiet st _ [ESSuggest (s_ntrials st) (o_sug o (s_ns st))]); auto. }
  destruct (schedule_new_task o st) as [st1 r1] eqn:E1. apply schedule_new_task_FInv in E1; [|exact HF].
  destruct r1; [eauto| |]; injection H as <- <-; exact E1.
Qed.

Lemma schedule_new_tasks_FInv st st' r : schedule_new_tasks prm o st = (st', r) -> FInv st -> FInv st'.
Proof.
  apply (schedule_new_tasks_inv prm o FInv).
  - intros s0 s1 [->|[busy Hb]] HF; [exact HF|]. apply busy_look_spec in Hb.
    destruct Hb as (_ & _ & Ht & _ & _ & Hs & _). apply (FInv_quiet s0 s1 [EBBusy busy]); auto.
  - intros s0 HF. apply (FInv_quiet s0 _ [ECbSleep]); auto.
  - intros k s0 s2 r2 Hk _. eapply schedule_k_FInv; eauto.
Qed.

Lemma iteration_end_FInv st st' c : iteration_end prm o st = (st', c) -> FInv st -> FInv st'.
Proof.
  unfold iteration_end, stop_condition. intros H HF. injection H as <- _.
  eapply (FInv_quiet st _ [_; _]); auto; reflexivity.
Qed.

(* at every iteration boundary and at every normal exit of the loop: the status map says Failed for exactly the trials
   whose last observation on the trace is Failed *)
Theorem run_loop_FInv fuel st x :
  run_loop prm o fuel = (st, x) -> x = LFuel \/ x = LExit None -> FInv st.
Proof.
  unfold run_loop. destruct (stop_condition prm o (emit ECbTuningStart init_state)) as [st0 c0] eqn:E0. intros H Hx.
  revert Hx. eapply (loop_rule2 prm o
    (fun s _ _ => binv prm s /\ FInv s) (fun s _ _ => binv prm s /\ FInv s)
    (fun s x => x = LFuel \/ x = LExit None -> FInv s)); [| | | | | |exact H|].
  - intros s c ex [_ B] _. exact B.
  - intros s c ex [_ B] _ _. exact B.
  - intros s c ex s' err (A & B) _ Ep. destruct err as [e|].
    + intros [Hx|Hx]; discriminate.
    + split; [eapply poll_budget; eauto|]. eapply poll_FInv; eauto. apply A.
  - intros s c ex [_ B] _ _ _. exact B.
  - intros s c ex s' c' (A & B) _ _ Ei. split.
    + eapply iteration_end_budget; [exact Ei|apply binv_emit; exact A].
    + eapply iteration_end_FInv; [exact Ei|]. apply (FInv_quiet s _ [ECbSleep]); auto.
  - intros s c ex s2 r (A & B) _ Es.
    pose proof (schedule_new_tasks_FInv _ _ _ Es B) as HF2.
    pose proof (schedule_new_tasks_budget _ _ _ _ _ Es A) as (Hb2 & _).
    destruct r.
    + intros s3 c' Ei. split; [eapply iteration_end_budget; eauto|eapply iteration_end_FInv; eauto].
    + intros s3 c' Ei. split; [eapply iteration_end_budget; eauto|eapply iteration_end_FInv; eauto].
    + intros [Hx|Hx]; discriminate.
  - unfold stop_condition in E0. injection E0 as <- _. split.
    + unfold binv. simpl. repeat split; [constructor|lia|intros t Ht; lia].
    + intro t. simpl. split; discriminate.
Qed.

(* counting: with one status-map entry per started trial, in id order *)
Lemma num_status_seq p : forall (m : list (nat * status)) a n, map fst m = seq a n ->
  num_status p m = length (filter (fun t => match aget t m with Some s => p s | None => false end) (seq a n)).
Proof.
  unfold num_status. induction m as [|[k v] m IH]; intros a n Hk.
  - destruct n; [reflexivity|discriminate].
  - destruct n as [|n]; [discriminate|]. simpl in Hk. injection Hk as -> Hk.
    set (F := fun t => match aget t ((a, v) :: m) with Some s => p s | None => false end).
    assert (Hf : filter F (seq (S a) n) =
                 filter (fun t => match aget t m with Some s => p s | None => false end) (seq (S a) n)).
    { apply filter_ext_in. intros t Ht. apply in_seq in Ht. unfold F. cbn [aget]. rewrite ne_eqb by lia. reflexivity. }
    assert (Ha : F a = p v) by (unfold F; cbn [aget]; rewrite Nat.eqb_refl; reflexivity).
    specialize (IH (S a) n Hk). cbn [seq filter snd]. rewrite Ha, Hf.
    destruct (p v); cbn [length]; rewrite IH; reflexivity.
Qed.

Lemma FInv_count st : map fst (s_smap st) = seq 0 (s_ntrials st) -> FInv st ->
  num_status is_failed (s_smap st) = length (filter (obs_failed (s_trace st)) (seq 0 (s_ntrials st))).
Proof.
  intros Hk HF. rewrite (num_status_seq is_failed _ 0 (s_ntrials st) Hk). f_equal. apply filter_ext. intro t.
  unfold obs_failed. specialize (HF t).
  destruct (aget t (s_smap st)) as [[]|] eqn:E1; destruct (lastobs t (s_trace st)) as [[]|] eqn:E2; simpl; try reflexivity;
    try (destruct HF as [HF _]; specialize (HF eq_refl); discriminate);
    try (destruct HF as [_ HF]; specialize (HF eq_refl); discriminate).
Qed.

(* WHOLE-RUN failure count, at every iteration boundary and at a normal loop exit *)
Theorem run_loop_failed_count fuel st x :
  run_loop prm o fuel = (st, x) -> x = LFuel \/ x = LExit None ->
  num_status is_failed (s_smap st) = length (filter (obs_failed (s_trace st)) (seq 0 (s_ntrials st))).
Proof.
  intros H Hx. apply FInv_count; [|eapply run_loop_FInv; eauto]. apply run_loop_sinv in H. apply H.
Qed.

(* ... and when run() returns after a loop that ended without an exception (normally, or with the failure-limit
   error raised after stop_all): the count the failure limit is compared with *)
Theorem run_failed_count fuel st out st0 :
  run prm o fuel = (st, out) -> run_loop prm o fuel = (st0, LExit None) ->
  num_status is_failed (s_smap st) = length (filter (obs_failed (s_trace st)) (seq 0 (s_ntrials st))).
Proof.
  intros H Hl. unfold run in H. rewrite Hl in H.
  pose proof (finalize_spec _ _ _ _ _ _ H) as (_ & Hn & _ & _ & Hsm & (stops & Htr & Hst) & _).
  pose proof (run_loop_FInv _ _ _ Hl (or_intror eq_refl)) as HF.
  pose proof (run_loop_sinv _ _ _ _ _ Hl) as (S1 & _).
  apply FInv_count; [rewrite Hsm, Hn, mark_stopped_keys; exact S1|].
  intro t. rewrite Hsm, Htr.
  change (stops ++ EBStopAll :: ECbTuningEnd :: s_trace st0) with (stops ++ [EBStopAll; ECbTuningEnd] ++ s_trace st0).
  rewrite app_assoc.
  rewrite lastobs_app_free.
  2:{ rewrite forallb_app. apply andb_true_intro. split; [|reflexivity]. apply forallb_forall. intros e He.
      rewrite forallb_forall in Hst. specialize (Hst e He). destruct e; try discriminate; reflexivity. }
  rewrite <- (HF t). unfold mark_stopped. clear. induction (s_smap st0) as [|[k v] m IH]; simpl; [tauto|].
  destruct (Nat.eqb t k); [|exact IH]. destruct v; simpl; split; congruence.
Qed.

End FailCount.
