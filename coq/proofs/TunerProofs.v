(* TunerProofs.v — lemmas about model/Tuner.v (C01, C12). *)
From Verif Require Import model.Base model.Tuner.
From Coq Require Import Lia.
Local Open Scope nat_scope.

(* ---- generalities --------------------------------------------------------- *)
Lemma mem_nat_In x l : mem_nat x l = true <-> In x l.
Proof.
  induction l as [|y l IH]; simpl; [split; [discriminate|tauto]|].
  rewrite orb_true_iff, IH, Nat.eqb_eq. split; intros [H|H]; auto.
Qed.

Lemma mem_nat_false x l : mem_nat x l = false <-> ~ In x l.
Proof. rewrite <- mem_nat_In. destruct (mem_nat x l); split; congruence. Qed.

Lemma fold_left_inv {A B} (P : A -> Prop) (f : A -> B -> A) l :
  (forall a b, P a -> P (f a b)) -> forall a, P a -> P (fold_left f l a).
Proof. intros H. induction l as [|x l IH]; simpl; auto. Qed.

Lemma fold_left_inv_in {A B} (P : A -> Prop) (f : A -> B -> A) l :
  (forall a b, In b l -> P a -> P (f a b)) -> forall a, P a -> P (fold_left f l a).
Proof.
  induction l as [|x l IH]; simpl; [auto|]. intros H a Ha. apply IH; [intros; apply H; auto|apply H; auto].
Qed.

Lemma upd_same {A} (f : nat -> A) k v : upd f k v k = v.
Proof. unfold upd. rewrite Nat.eqb_refl. reflexivity. Qed.
Lemma upd_other {A} (f : nat -> A) k v x : x <> k -> upd f k v x = f x.
Proof. unfold upd. intro H. apply Nat.eqb_neq in H. rewrite H. reflexivity. Qed.

(* association lists *)
Lemma aget_aset_same {A} k (v : A) m : aget k (aset k v m) = Some v.
Proof.
  induction m as [|[k' v'] m IH]; simpl; [rewrite Nat.eqb_refl; reflexivity|].
  destruct (Nat.eqb k k') eqn:E; simpl; [rewrite Nat.eqb_refl; reflexivity| rewrite E; exact IH].
Qed.
Lemma aget_aset_other {A} k k' (v : A) m : k' <> k -> aget k' (aset k v m) = aget k' m.
Proof.
  intro H. induction m as [|[k2 v2] m IH]; simpl.
  - apply Nat.eqb_neq in H. rewrite H. reflexivity.
  - destruct (Nat.eqb k k2) eqn:E; simpl.
    + apply Nat.eqb_eq in E. subst k2. apply Nat.eqb_neq in H. rewrite H. reflexivity.
    + destruct (Nat.eqb k' k2); [reflexivity|exact IH].
Qed.
Lemma amem_aset {A} k k' (v : A) m : amem k' (aset k v m) = Nat.eqb k' k || amem k' m.
Proof.
  unfold amem. destruct (Nat.eqb k' k) eqn:E.
  - apply Nat.eqb_eq in E. subst. rewrite aget_aset_same. reflexivity.
  - apply Nat.eqb_neq in E. rewrite aget_aset_other by exact E. reflexivity.
Qed.
Lemma aget_In {A} k (v : A) m : aget k m = Some v -> In (k, v) m.
Proof.
  induction m as [|[k' v'] m IH]; simpl; [discriminate|].
  destruct (Nat.eqb k k') eqn:E; [apply Nat.eqb_eq in E; intro H; injection H as ->; subst; auto | auto].
Qed.
Lemma amem_keys {A} k (m : list (nat * A)) : amem k m = true <-> In k (map fst m).
Proof.
  unfold amem. induction m as [|[k' v'] m IH]; simpl; [split; [discriminate|tauto]|].
  destruct (Nat.eqb k k') eqn:E.
  - apply Nat.eqb_eq in E. subst. split; auto.
  - apply Nat.eqb_neq in E. rewrite IH. split; [auto|intros [H|H]; [congruence|exact H]].
Qed.
Lemma In_aget_nodup {A} k (v : A) m : NoDup (map fst m) -> In (k, v) m -> aget k m = Some v.
Proof.
  induction m as [|[k' v'] m IH]; simpl; [tauto|]. intros Hnd [H|H].
  - injection H as -> ->. rewrite Nat.eqb_refl. reflexivity.
  - inversion Hnd as [|? ? Hni Hnd']; subst. destruct (Nat.eqb k k') eqn:E.
    + apply Nat.eqb_eq in E. subst. exfalso. apply Hni. apply in_map_iff. exists (k', v). auto.
    + auto.
Qed.

Section Proofs.
Variable prm : params.
Variable o : oracles.

Notation w_of st t := (b_w (s_bt st t)).
Notation td_of st t := (b_td (s_bt st t)).

(* ======================================================================== *)
(*  Part 1: frame facts of the backend functions                              *)
(* ======================================================================== *)

(* [st'] differs from [st] only in backend records, world cursor: tuner-side data equal *)
Definition same_tuner (st st' : state) : Prop :=
  s_running st' = s_running st /\ s_ntrials st' = s_ntrials st /\ s_trace st' = s_trace st /\
  s_last st' = s_last st /\ s_sstopped st' = s_sstopped st /\ s_smap st' = s_smap st /\
  s_doneall st' = s_doneall st.

Lemma same_tuner_refl st : same_tuner st st.
Proof. unfold same_tuner. tauto. Qed.
Lemma same_tuner_trans a b c : same_tuner a b -> same_tuner b c -> same_tuner a c.
Proof. unfold same_tuner. intuition congruence. Qed.

(* no worker becomes active, none becomes Paused on its own *)
Definition act_mono (st st' : state) : Prop :=
  forall t, active (w_of st' t) = true -> active (w_of st t) = true.

Lemma act_mono_refl st : act_mono st st.
Proof. intros t H; exact H. Qed.
Lemma act_mono_trans a b c : act_mono a b -> act_mono b c -> act_mono a c.
Proof. intros H1 H2 t H. auto. Qed.

Lemma world_apply_same t st : same_tuner st (world_apply o t st).
Proof.
  unfold world_apply. destruct (active (b_w (s_bt st t))); [|apply same_tuner_refl].
  destruct (o_world o (s_nw st)) as [reps ws]. unfold same_tuner; simpl. tauto.
Qed.

Lemma world_apply_other t st t' : t' <> t -> s_bt (world_apply o t st) t' = s_bt st t'.
Proof.
  intro H. unfold world_apply. destruct (active (b_w (s_bt st t))); [|reflexivity].
  destruct (o_world o (s_nw st)) as [reps ws]. simpl. apply upd_other. exact H.
Qed.

Lemma world_apply_mono t st : act_mono st (world_apply o t st).
Proof.
  intros t' H. destruct (Nat.eq_dec t' t) as [->|Hne].
  - unfold world_apply in H. destruct (active (b_w (s_bt st t))) eqn:E; [reflexivity|]. rewrite E in H. exact H.
  - rewrite world_apply_other in H by exact Hne. exact H.
Qed.

Lemma world_apply_td t st t' : td_of (world_apply o t st) t' = td_of st t'.
Proof.
  destruct (Nat.eq_dec t' t) as [->|Hne]; [|rewrite world_apply_other by exact Hne; reflexivity].
  unfold world_apply. destruct (active (b_w (s_bt st t))); [|reflexivity].
  destruct (o_world o (s_nw st)) as [reps ws]. simpl. rewrite upd_same. reflexivity.
Qed.

Lemma st_of_w_not_paused ws : st_of_w ws <> Paused.
Proof. destruct ws; discriminate. Qed.

(* a worker never shows Paused unless it did before *)
Lemma world_apply_paused t st t' : w_of (world_apply o t st) t' = Paused -> w_of st t' = Paused.
Proof.
  destruct (Nat.eq_dec t' t) as [->|Hne]; [|rewrite world_apply_other by exact Hne; auto].
  unfold world_apply. destruct (active (b_w (s_bt st t))) eqn:E; [|auto].
  destruct (o_world o (s_nw st)) as [reps ws]. simpl. rewrite upd_same. simpl. intro H.
  exfalso. eapply st_of_w_not_paused; eauto.
Qed.

Lemma atr_same ids : forall st, same_tuner st (all_trial_results o ids st).
Proof.
  unfold all_trial_results. induction ids as [|t ids IH]; intro st; simpl; [apply same_tuner_refl|].
  eapply same_tuner_trans; [apply world_apply_same|apply IH].
Qed.
Lemma atr_mono ids : forall st, act_mono st (all_trial_results o ids st).
Proof.
  unfold all_trial_results. induction ids as [|t ids IH]; intro st; simpl; [apply act_mono_refl|].
  eapply act_mono_trans; [apply world_apply_mono|apply IH].
Qed.
Lemma atr_other ids : forall st t, ~ In t ids -> s_bt (all_trial_results o ids st) t = s_bt st t.
Proof.
  unfold all_trial_results. induction ids as [|x ids IH]; intros st t H; simpl; [reflexivity|].
  rewrite IH by (intro; apply H; right; assumption). apply world_apply_other. intro; apply H; left; congruence.
Qed.
Lemma atr_td ids : forall st t, td_of (all_trial_results o ids st) t = td_of st t.
Proof.
  unfold all_trial_results. induction ids as [|x ids IH]; intros st t; simpl; [reflexivity|].
  rewrite IH. apply world_apply_td.
Qed.
Lemma atr_paused ids : forall st t, w_of (all_trial_results o ids st) t = Paused -> w_of st t = Paused.
Proof.
  unfold all_trial_results. induction ids as [|x ids IH]; intros st t; simpl; [auto|].
  intro H. apply IH in H. eapply world_apply_paused; eauto.
Qed.

Lemma number_fst t l : forall i r, In r (number t i l) -> fst (fst r) = t.
Proof. induction l as [|x l IH]; intros i r Hr; simpl in Hr; [tauto|]. destruct Hr as [<-|Hr]; [reflexivity|eauto]. Qed.

(* fetch_one: worker statuses untouched, td := w for the trial *)
Lemma fetch_one_spec st rs t st' rs' :
  fetch_one (st, rs) t = (st', rs') ->
  same_tuner st st' /\ (forall x, w_of st' x = w_of st x) /\
  td_of st' t = w_of st t /\ (forall x, x <> t -> s_bt st' x = s_bt st x) /\
  (forall r, In r rs' -> In r rs \/ (fst (fst r) = t /\ hidden (w_of st t) = false)).
Proof.
  unfold fetch_one. intro H.
  assert (Hgen : forall b', b_w b' = b_w (s_bt st t) ->
            same_tuner st (set_b st t b') /\ (forall x, w_of (set_b st t b') x = w_of st x) /\
            (forall x, x <> t -> s_bt (set_b st t b') x = s_bt st x)).
  { intros b' Hb. split; [unfold same_tuner; simpl; tauto|]. split.
    - intro x. simpl. unfold upd. destruct (Nat.eqb x t) eqn:E; [apply Nat.eqb_eq in E; subst; exact Hb|reflexivity].
    - intros x Hx. simpl. apply upd_other. exact Hx. }
  destruct (b_reports (s_bt st t)) as [|r0 reps] eqn:Er.
  - injection H as <- <-. destruct (Hgen {| b_td := b_w (s_bt st t); b_w := b_w (s_bt st t); b_reports := []; b_seen := b_seen (s_bt st t) |} eq_refl) as (A & B & C).
    repeat split; auto. simpl. rewrite upd_same. reflexivity.
  - destruct (hidden (b_w (s_bt st t))) eqn:Eh.
    + injection H as <- <-. destruct (Hgen {| b_td := b_w (s_bt st t); b_w := b_w (s_bt st t); b_reports := r0 :: reps; b_seen := b_seen (s_bt st t) |} eq_refl) as (A & B & C).
      repeat split; auto. simpl. rewrite upd_same. reflexivity.
    + injection H as <- <-.
      destruct (Hgen {| b_td := b_w (s_bt st t); b_w := b_w (s_bt st t); b_reports := r0 :: reps;
                        b_seen := b_seen (s_bt st t) + length (skipn (b_seen (s_bt st t)) (r0 :: reps)) |} eq_refl) as (A & B & C).
      repeat split; auto.
      * simpl. rewrite upd_same. reflexivity.
      * intros r Hr. apply in_app_or in Hr. destruct Hr as [Hr|Hr]; [left; exact Hr|right].
        split; [|reflexivity].
        eapply number_fst; eauto.
Qed.

Definition results_ok (st : state) (rs : list result) : Prop :=
  forall r, In r rs -> hidden (w_of st (fst (fst r))) = false.

Lemma fetch_fold order : forall st rs st' rs',
  fold_left (fetch_one) order (st, rs) = (st', rs') ->
  same_tuner st st' /\ (forall x, w_of st' x = w_of st x) /\
  (forall t, In t order -> td_of st' t = w_of st t) /\
  (forall t, ~ In t order -> s_bt st' t = s_bt st t) /\
  (forall r, In r rs' -> In r rs \/ (In (fst (fst r)) order /\ hidden (w_of st (fst (fst r))) = false)).
Proof.
  induction order as [|t order IH]; intros st rs st' rs' H; cbn [fold_left] in H.
  - injection H as <- <-. repeat split; auto using same_tuner_refl. intros t [].
  - destruct (fetch_one (st, rs) t) as [st1 rs1] eqn:E1.
    apply fetch_one_spec in E1. destruct E1 as (A1 & B1 & C1 & D1 & F1).
    apply IH in H. destruct H as (A & B & C & D & F).
    split; [eapply same_tuner_trans; eauto|]. split; [intro x; rewrite B; apply B1|]. split; [|split].
    + intros x [<-|Hx].
      * destruct (in_dec Nat.eq_dec t order) as [Hi|Hn]; [rewrite C by exact Hi; apply B1|].
        rewrite D by exact Hn. exact C1.
      * rewrite C by exact Hx. apply B1.
    + intros x Hx. rewrite D by (intro; apply Hx; right; assumption). apply D1. intro; apply Hx; left; congruence.
    + intros r Hr. apply F in Hr. destruct Hr as [Hr|[Hr1 Hr2]].
      * apply F1 in Hr. destruct Hr as [Hr|[Hr1 Hr2]]; [left; exact Hr|right]. split; [left; congruence|congruence].
      * right. split; [right; exact Hr1|]. rewrite B1 in Hr2. exact Hr2.
Qed.

Lemma ins_ts_in r l x : In x (ins_ts r l) <-> x = r \/ In x l.
Proof.
  induction l as [|y l IH]; simpl; [intuition|].
  destruct (Qleb (r_ts (snd y)) (r_ts (snd r))); simpl; [rewrite IH|]; intuition.
Qed.
Lemma sort_ts_in l x : In x (sort_ts l) <-> In x l.
Proof.
  unfold sort_ts. assert (G : forall acc, In x (fold_left (fun acc r => ins_ts r acc) l acc) <-> In x l \/ In x acc).
  { induction l as [|y l IH]; intro acc; simpl; [tauto|]. rewrite IH, ins_ts_in. intuition. }
  rewrite G. simpl. tauto.
Qed.

(* what the tuner gets from a poll *)
Definition sd_ok (st : state) (sd : list (nat * status)) : Prop :=
  forall t s, In (t, s) sd -> w_of st t = s.

Lemma fetch_spec order st st' sd rs :
  fetch o order st = (st', sd, rs) ->
  same_tuner st st' /\ act_mono st st' /\
  (forall t, ~ In t order -> s_bt st' t = s_bt st t) /\
  (forall t, In t order -> td_of st' t = w_of st' t) /\
  (forall t, ~ In t order -> td_of st' t = td_of st t) /\
  (forall t, w_of st' t = Paused -> w_of st t = Paused) /\
  map fst sd = order /\ sd_ok st' sd /\
  (forall r, In r rs -> In (fst (fst r)) order /\ hidden (w_of st' (fst (fst r))) = false).
Proof.
  unfold fetch. intro H.
  destruct (fold_left fetch_one order (all_trial_results o order st, [])) as [st2 rs2] eqn:E.
  injection H as H1 H2 H3. subst st' sd rs. apply fetch_fold in E. destruct E as (A & B & C & D & F).
  split; [eapply same_tuner_trans; [apply atr_same|exact A]|]. split.
  { intros t Ht. rewrite B in Ht. eapply atr_mono; eauto. } split.
  { intros t Ht. rewrite D by exact Ht. apply atr_other. exact Ht. } split.
  { intros t Ht. rewrite C by exact Ht. rewrite B. reflexivity. } split.
  { intros t Ht. rewrite D by exact Ht. apply atr_td. } split.
  { intros t Ht. rewrite B in Ht. eapply atr_paused; eauto. } split.
  { rewrite map_map. simpl. apply map_id. } split.
  { intros t s Hin. apply in_map_iff in Hin. destruct Hin as (x & Hx & Hin). injection Hx as <- <-.
    rewrite C by exact Hin. rewrite B. reflexivity. }
  intros r Hr. rewrite sort_ts_in in Hr. apply F in Hr. destruct Hr as [[]|[H1 H2]]. split; [exact H1|]. rewrite B. exact H2.
Qed.

(* ======================================================================== *)
(*  Part 2: worker budget (C01)                                               *)
(* ======================================================================== *)
Lemma w_set_b st t b x : w_of (set_b st t b) x = if Nat.eqb x t then b_w b else w_of st x.
Proof. simpl. unfold upd. destruct (Nat.eqb x t); reflexivity. Qed.
Lemma td_set_b st t b x : td_of (set_b st t b) x = if Nat.eqb x t then b_td b else td_of st x.
Proof. simpl. unfold upd. destruct (Nat.eqb x t); reflexivity. Qed.

Definition inactive_keys (st : state) (done : list (nat * status)) : Prop :=
  forall t, amem t done = true -> active (w_of st t) = false.
Definition sd_weak (st : state) (sd : list (nat * status)) : Prop :=
  forall t s, In (t, s) sd -> w_of st t = s \/ active (w_of st t) = false.

Lemma sd_status_in t sd s : sd_status t sd = s -> s <> InProgress -> In (t, s) sd.
Proof.
  unfold sd_status. destruct (aget t sd) as [s'|] eqn:E; intros H Hn; [subst; apply aget_In; exact E|congruence].
Qed.

(* tuner-side data other than trace / last / sstopped *)
Definition same_ctl (st st' : state) : Prop :=
  s_running st' = s_running st /\ s_ntrials st' = s_ntrials st /\ s_smap st' = s_smap st /\
  s_doneall st' = s_doneall st.
Lemma same_ctl_refl st : same_ctl st st. Proof. unfold same_ctl; tauto. Qed.
Lemma same_ctl_trans a b c : same_ctl a b -> same_ctl b c -> same_ctl a c.
Proof. unfold same_ctl; intuition congruence. Qed.
Lemma same_tuner_ctl a b : same_tuner a b -> same_ctl a b.
Proof. unfold same_tuner, same_ctl; tauto. Qed.

Lemma backend_stop_spec t st :
  same_ctl st (backend_stop t st) /\ s_trace (backend_stop t st) = EBStop t :: s_trace st /\
  s_last (backend_stop t st) = s_last st /\ s_sstopped (backend_stop t st) = s_sstopped st /\
  (forall x, w_of (backend_stop t st) x = if Nat.eqb x t then Stopped else w_of st x) /\
  (forall x, td_of (backend_stop t st) x = td_of st x).
Proof.
  unfold backend_stop, same_ctl. simpl. repeat split.
  - intro x. unfold upd. destruct (Nat.eqb x t); reflexivity.
  - intro x. unfold upd. destruct (Nat.eqb x t) eqn:E; [apply Nat.eqb_eq in E; subst|]; reflexivity.
Qed.

Lemma backend_pause_spec t st :
  same_ctl st (backend_pause t st) /\ s_trace (backend_pause t st) = EBPause t :: s_trace st /\
  s_last (backend_pause t st) = s_last st /\ s_sstopped (backend_pause t st) = s_sstopped st /\
  (forall x, w_of (backend_pause t st) x = if Nat.eqb x t then Paused else w_of st x) /\
  (forall x, td_of (backend_pause t st) x = if Nat.eqb x t then Paused else td_of st x).
Proof.
  unfold backend_pause, same_ctl. simpl. repeat split; intro x; unfold upd; destruct (Nat.eqb x t); reflexivity.
Qed.

Lemma notify_result_spec sd t idx st st1 s d :
  notify_result o sd t idx st = (st1, s, d) ->
  s = sd_status t sd /\ d = o_dec o (s_nd st) /\ same_ctl st st1 /\ s_bt st1 = s_bt st /\
  s_trace st1 = ECbResult t s idx d :: ESResult t idx d :: s_trace st /\
  s_last st1 = upd (s_last st) t (Some idx) /\ s_sstopped st1 = s_sstopped st.
Proof.
  unfold notify_result. intro H. injection H as <- <- <-. unfold same_ctl. simpl. repeat split.
Qed.

(* effect of the decision dispatch on worker statuses and done_trials *)
Lemma apply_decision_spec t s d st done st' done' :
  apply_decision t s d st done = (st', done') ->
  same_ctl st st' /\ s_last st' = s_last st /\
  match d with
  | CONTINUE => st' = st /\ done' = done
  | PAUSE => done' = aset t Paused done /\ s_sstopped st' = s_sstopped st /\
             s_trace st' = ESRemove t :: EBPause t :: s_trace st /\
             (forall x, w_of st' x = if Nat.eqb x t then Paused else w_of st x) /\
             (forall x, td_of st' x = if Nat.eqb x t then Paused else td_of st x)
  | STOP => s_sstopped st' = t :: s_sstopped st /\ (forall x, td_of st' x = td_of st x) /\
            match s with
            | Completed => done' = aset t Completed done /\ s_trace st' = ESRemove t :: s_trace st /\ s_bt st' = s_bt st
            | _ => done' = aset t Stopped done /\ s_trace st' = ESRemove t :: EBStop t :: s_trace st /\
                   (forall x, w_of st' x = if Nat.eqb x t then Stopped else w_of st x)
            end
  end.
Proof.
  unfold apply_decision. destruct d.
  - intro H; injection H as <- <-. auto using same_ctl_refl.
  - intro H; injection H as <- <-. unfold backend_pause, same_ctl. simpl.
    repeat split; intro x; unfold upd; destruct (Nat.eqb x t); reflexivity.
  - destruct s; intro H; injection H as <- <-; unfold backend_stop, same_ctl; simpl;
      repeat split; intro x; unfold upd; destruct (Nat.eqb x t) eqn:E; try reflexivity;
      apply Nat.eqb_eq in E; subst; reflexivity.
Qed.

Lemma result_step_budget sd st done r st' done' :
  result_step o sd (st, done) r = (st', done') ->
  same_ctl st st' /\ act_mono st st' /\
  (sd_weak st sd -> inactive_keys st done -> sd_weak st' sd /\ inactive_keys st' done').
Proof.
  unfold result_step. destruct r as [[t idx] rep]. destruct (amem t done) eqn:Em.
  { intro H; injection H as <- <-. repeat split; auto using act_mono_refl, same_ctl_refl. }
  destruct (notify_result o sd t idx st) as [[st1 s] d] eqn:En. intro Ha.
  apply notify_result_spec in En. destruct En as (Hs & Hd & Hc1 & Hbt & _).
  apply apply_decision_spec in Ha. destruct Ha as (Hc2 & _ & Ha).
  split; [eapply same_ctl_trans; eauto|].
  assert (Hw1 : forall x, w_of st1 x = w_of st x) by (intro x; rewrite Hbt; reflexivity).
  destruct d.
  - destruct Ha as [-> ->]. split; [intros x Hx; rewrite Hw1 in Hx; exact Hx|].
    intros Hsd Hk. split; [intros x s0 Hin; rewrite Hw1; auto|intros x Hx; rewrite Hw1; auto].
  - destruct Ha as (-> & _ & _ & Hw & _). split.
    + intros x Hx. rewrite Hw in Hx. destruct (Nat.eqb x t); [discriminate|rewrite Hw1 in Hx; exact Hx].
    + intros Hsd Hk. split.
      * intros x s0 Hin. rewrite Hw. destruct (Nat.eqb x t); [right; reflexivity|rewrite Hw1; auto].
      * intros x Hx. rewrite amem_aset in Hx. rewrite Hw. destruct (Nat.eqb x t); [reflexivity|rewrite Hw1; apply Hk; exact Hx].
  - destruct Ha as (_ & _ & Ha).
    assert (Hcase : (s = Completed /\ done' = aset t Completed done /\ s_bt st' = s_bt st1) \/
                    (done' = aset t Stopped done /\ forall x, w_of st' x = if Nat.eqb x t then Stopped else w_of st1 x)).
    { destruct s; try (right; destruct Ha as (A & _ & B); split; [exact A|exact B]).
      left. destruct Ha as (A & _ & B). auto. }
    destruct Hcase as [(Hsc & -> & Hbt')|(-> & Hw)].
    + assert (Hw2 : forall x, w_of st' x = w_of st x) by (intro x; rewrite Hbt', Hbt; reflexivity).
      split; [intros x Hx; rewrite Hw2 in Hx; exact Hx|].
      intros Hsd Hk. split; [intros x s0 Hin; rewrite Hw2; auto|].
      intros x Hx. rewrite amem_aset in Hx. rewrite Hw2. destruct (Nat.eqb x t) eqn:Ex; [|apply Hk; exact Hx].
      apply Nat.eqb_eq in Ex. subst x. rewrite Hsc in Hs. symmetry in Hs. apply sd_status_in in Hs; [|discriminate].
      destruct (Hsd _ _ Hs) as [H|H]; [rewrite H; reflexivity|exact H].
    + split.
      * intros x Hx. rewrite Hw in Hx. destruct (Nat.eqb x t); [discriminate|rewrite Hw1 in Hx; exact Hx].
      * intros Hsd Hk. split.
        -- intros x s0 Hin. rewrite Hw. destruct (Nat.eqb x t); [right; reflexivity|rewrite Hw1; auto].
        -- intros x Hx. rewrite amem_aset in Hx. rewrite Hw. destruct (Nat.eqb x t); [reflexivity|rewrite Hw1; apply Hk; exact Hx].
Qed.

Lemma loop1_budget sd rs : forall st done st' done',
  loop1 o sd rs st done = (st', done') ->
  same_ctl st st' /\ act_mono st st' /\
  (sd_weak st sd -> inactive_keys st done -> sd_weak st' sd /\ inactive_keys st' done').
Proof.
  unfold loop1. induction rs as [|r rs IH]; intros st done st' done' H; cbn [fold_left] in H.
  - injection H as <- <-. auto using same_ctl_refl, act_mono_refl.
  - destruct (result_step o sd (st, done) r) as [st1 done1] eqn:E1.
    apply result_step_budget in E1. destruct E1 as (A1 & B1 & C1).
    apply IH in H. destruct H as (A & B & C).
    split; [eapply same_ctl_trans; eauto|]. split; [eapply act_mono_trans; eauto|].
    intros Hsd Hk. destruct (C1 Hsd Hk) as [Hsd1 Hk1]. auto.
Qed.

Lemma status_step_budget sd st done err e st' done' err' :
  status_step (st, done, err) e = (st', done', err') ->
  same_ctl st st' /\ s_bt st' = s_bt st /\
  (sd_weak st sd -> In e sd -> inactive_keys st done -> inactive_keys st' done').
Proof.
  unfold status_step. destruct err as [e0|].
  { intro H; injection H as <- <- <-. auto using same_ctl_refl. }
  destruct e as [t s].
  assert (Hadd : forall s', sd_weak st sd -> In (t, s) sd -> active s = false -> inactive_keys st done ->
                 inactive_keys st (aset t s' done)).
  { intros s' Hsd Hin Hs Hk x Hx. rewrite amem_aset in Hx. destruct (Nat.eqb x t) eqn:Ex; [|apply Hk; exact Hx].
    apply Nat.eqb_eq in Ex. subst x. destruct (Hsd _ _ Hin) as [H|H]; [rewrite H; exact Hs|exact H]. }
  destruct s; try solve [intro H; injection H as <- <- <-; auto using same_ctl_refl].
  - (* Completed *)
    destruct (s_last st t) as [idx|]; [|intro H; injection H as <- <- <-; auto using same_ctl_refl].
    intro H; injection H as <- <- <-.
    assert (Hbt : forall (b : bool) e1 e2 (c : status), s_bt (match c with Completed => emit e2 (if b then st else emit e1 st) | _ => if b then st else emit e1 st end) = s_bt st)
      by (intros [] e1 e2 []; reflexivity).
    assert (Hctl : forall (b : bool) e1 e2 (c : status), same_ctl st (match c with Completed => emit e2 (if b then st else emit e1 st) | _ => if b then st else emit e1 st end))
      by (intros [] e1 e2 []; unfold same_ctl; simpl; tauto).
    split; [apply Hctl|]. split; [apply Hbt|].
    intros Hsd Hin Hk x Hx. rewrite Hbt. eapply Hadd; eauto.
  - (* Failed *) intro H; injection H as <- <- <-.
    assert (Hbt : s_bt (if amem t done then st else emit (ESError t) st) = s_bt st) by (destruct (amem t done); reflexivity).
    split; [destruct (amem t done); unfold same_ctl; simpl; tauto|]. split; [exact Hbt|].
    intros Hsd Hin Hk x Hx. rewrite Hbt. eapply Hadd; eauto.
  - (* Stopped *) destruct (mem_nat t (s_sstopped st)); intro H; injection H as <- <- <-; auto using same_ctl_refl.
    split; [unfold same_ctl; simpl; tauto|]. split; [reflexivity|].
    intros Hsd Hin Hk. simpl. eapply Hadd; eauto.
Qed.

Lemma loop2_budget sd0 sd : forall st done err st' done' err',
  fold_left status_step sd (st, done, err) = (st', done', err') ->
  same_ctl st st' /\ s_bt st' = s_bt st /\
  (sd_weak st sd0 -> incl sd sd0 -> inactive_keys st done -> inactive_keys st' done').
Proof.
  induction sd as [|e sd IH]; intros st done err st' done' err' H; cbn [fold_left] in H.
  - injection H as <- <- <-. auto using same_ctl_refl.
  - destruct (status_step (st, done, err) e) as [[st1 done1] err1] eqn:E1.
    apply (status_step_budget sd0) in E1. destruct E1 as (A1 & B1 & C1).
    apply IH in H. destruct H as (A & B & C).
    split; [eapply same_ctl_trans; eauto|]. split; [congruence|].
    intros Hsd Hincl Hk. apply C.
    + intros t s Hin. rewrite B1. auto.
    + intros x Hx. apply Hincl. right. exact Hx.
    + apply C1; auto. apply Hincl. left. reflexivity.
Qed.

Lemma stats_add_frame st r :
  s_running (stats_add st r) = s_running st /\ s_ntrials (stats_add st r) = s_ntrials st /\
  s_bt (stats_add st r) = s_bt st /\ s_trace (stats_add st r) = s_trace st /\
  s_smap (stats_add st r) = s_smap st /\ s_doneall (stats_add st r) = s_doneall st /\
  s_last (stats_add st r) = s_last st /\ s_sstopped (stats_add st r) = s_sstopped st.
Proof. unfold stats_add. destruct r as [[t i] rep]. simpl. repeat split. Qed.

Lemma status_update_frame sd rs st :
  let st' := status_update sd rs st in
  s_running st' = s_running st /\ s_ntrials st' = s_ntrials st /\
  s_bt st' = s_bt st /\ s_trace st' = s_trace st /\
  s_smap st' = aupdate (s_smap st) sd /\ s_doneall st' = s_doneall st /\
  s_last st' = s_last st /\ s_sstopped st' = s_sstopped st.
Proof.
  unfold status_update.
  set (P := fun s : state => s_running s = s_running st /\ s_ntrials s = s_ntrials st /\
      s_bt s = s_bt st /\ s_trace s = s_trace st /\ s_smap s = aupdate (s_smap st) sd /\
      s_doneall s = s_doneall st /\ s_last s = s_last st /\ s_sstopped s = s_sstopped st).
  change (P (fold_left stats_add rs (set_smap st (aupdate (s_smap st) sd)))).
  apply fold_left_inv.
  - intros a r Ha. unfold P in *. destruct (stats_add_frame a r) as (A1&A2&A3&A4&A5&A6&A7&A8).
    destruct Ha as (B1&B2&B3&B4&B5&B6&B7&B8). repeat split; congruence.
  - unfold P. simpl. repeat split.
Qed.

Lemma mem_nat_nodup x l : mem_nat x (nodup_nat l) = mem_nat x l.
Proof.
  induction l as [|y l IH]; simpl; [reflexivity|].
  destruct (mem_nat y l) eqn:E; simpl.
  - rewrite IH. destruct (Nat.eqb x y) eqn:Exy; [apply Nat.eqb_eq in Exy; subst; rewrite E; reflexivity|reflexivity].
  - rewrite IH. reflexivity.
Qed.
Lemma nodup_nat_NoDup l : NoDup (nodup_nat l).
Proof.
  induction l as [|y l IH]; simpl; [constructor|].
  destruct (mem_nat y l) eqn:E; [exact IH|]. constructor; [|exact IH].
  rewrite <- mem_nat_In, mem_nat_nodup. congruence.
Qed.

Lemma poll_order_incl running ord t : In t (poll_order running ord) -> In t running.
Proof.
  unfold poll_order. intro H. apply in_app_or in H. destruct H as [H|H]; apply filter_In in H.
  - apply mem_nat_In. tauto.
  - tauto.
Qed.

Lemma NoDup_filter {A} (f : A -> bool) l : NoDup l -> NoDup (filter f l).
Proof.
  induction 1 as [|x l Hx Hnd IH]; simpl; [constructor|].
  destruct (f x); [constructor; [rewrite filter_In; tauto|exact IH]|exact IH].
Qed.

Lemma NoDup_app_intro {A} (l1 l2 : list A) :
  NoDup l1 -> NoDup l2 -> (forall x, In x l1 -> In x l2 -> False) -> NoDup (l1 ++ l2).
Proof.
  induction 1 as [|x l Hx Hnd IH]; simpl; intros H2 Hd; [exact H2|].
  constructor.
  - intro Hin. apply in_app_or in Hin. destruct Hin as [Hin|Hin]; [auto|eapply Hd; eauto].
  - apply IH; [exact H2|]. intros y Hy1 Hy2. eapply Hd; eauto.
Qed.

Lemma poll_order_NoDup running ord : NoDup running -> NoDup (poll_order running ord).
Proof.
  intro Hnd. unfold poll_order. apply NoDup_app_intro.
  - apply NoDup_filter. apply nodup_nat_NoDup.
  - apply NoDup_filter. exact Hnd.
  - intros x H1 H2. apply filter_In in H1. apply filter_In in H2. destruct H1 as [H1 _]. destruct H2 as [_ H2].
    apply mem_nat_In in H1. rewrite mem_nat_nodup in H1. rewrite H1 in H2. discriminate.
Qed.

Lemma loop2_err sd : forall st done err st' done' err',
  fold_left status_step sd (st, done, err) = (st', done', err') ->
  err' = err \/ exists t, err' = Some (ENoMetrics t).
Proof.
  induction sd as [|e sd IH]; intros st done err st' done' err' H; cbn [fold_left] in H.
  - injection H as <- <- <-. auto.
  - destruct (status_step (st, done, err) e) as [[st1 done1] err1] eqn:E1.
    apply IH in H. destruct H as [->|H]; [|right; exact H].
    unfold status_step in E1. destruct err as [e0|]; [injection E1 as <- <- <-; auto|].
    destruct e as [t s]. destruct s; try (injection E1 as <- <- <-; auto; fail).
    + destruct (s_last st t); injection E1 as <- <- <-; eauto.
    + destruct (mem_nat t (s_sstopped st)); injection E1 as <- <- <-; auto.
Qed.

Definition binv (st : state) : Prop :=
  NoDup (s_running st) /\ length (s_running st) <= n_workers prm /\
  (forall t, t < s_ntrials st -> active (w_of st t) = true -> In t (s_running st)).

Lemma pnr_budget st st' done err :
  process_new_results prm o st = (st', done, err) ->
  s_running st' = s_running st /\ s_ntrials st' = s_ntrials st /\ s_doneall st' = s_doneall st /\
  act_mono st st' /\
  (err = None -> inactive_keys st' done) /\
  (err = Some EAssertBudget -> n_workers prm < length (s_running st)).
Proof.
  unfold process_new_results.
  set (order := poll_order (s_running st) (o_ord o (s_np st))).
  set (st0 := emit (EBFetch order) (set_np st (S (s_np st)))).
  destruct (fetch o order st0) as [[st1 sd] rs] eqn:Ef.
  apply fetch_spec in Ef. destruct Ef as (A & B & _ & _ & _ & _ & Hsdk & Hsd & _).
  assert (A0 : same_ctl st st1).
  { apply same_tuner_ctl in A. unfold same_ctl in *. subst st0. simpl in A. exact A. }
  assert (B0 : act_mono st st1) by (intros t Ht; apply B in Ht; exact Ht).
  cbn [s_running emit].
  destruct (Nat.ltb (n_workers prm) (length (s_running st1))) eqn:El.
  { intro H; injection H as <- <- <-. unfold same_ctl in A0. destruct A0 as (R1 & R2 & R3 & R4).
    simpl. repeat split; auto; try discriminate. intros _. apply Nat.ltb_lt in El. rewrite R1 in El. exact El. }
  destruct (loop1 o sd rs (emit (ECbFetch sd (map (fun r => (fst (fst r), snd (fst r))) rs)) st1) []) as [st2 done2] eqn:E1.
  apply loop1_budget in E1. destruct E1 as (A1 & B1 & C1).
  destruct (loop2 sd st2 done2) as [[st3 done3] err3] eqn:E2.
  unfold loop2 in E2. pose proof E2 as E2'. apply (loop2_budget sd) in E2. destruct E2 as (A2 & B2 & C2).
  assert (Hweak : sd_weak (emit (ECbFetch sd (map (fun r => (fst (fst r), snd (fst r))) rs)) st1) sd).
  { intros t s Hin. left. apply (Hsd t s Hin). }
  assert (Hk0 : inactive_keys (emit (ECbFetch sd (map (fun r => (fst (fst r), snd (fst r))) rs)) st1) []).
  { intros t Ht. discriminate. }
  destruct (C1 Hweak Hk0) as [Hweak2 Hk2].
  assert (Hk3 : inactive_keys st3 done3) by (apply C2; auto using incl_refl).
  assert (Actl : same_ctl st st3).
  { eapply same_ctl_trans; [exact A0|]. eapply same_ctl_trans; [|exact A2].
    eapply same_ctl_trans; [|exact A1]. unfold same_ctl; simpl; tauto. }
  assert (Amono : act_mono st st3).
  { intros t Ht. rewrite B2 in Ht. apply B1 in Ht. apply B0. exact Ht. }
  destruct err3 as [e|]; intro H; injection H as <- <- <-.
  - unfold same_ctl in Actl. destruct Actl as (R1 & R2 & R3 & R4). repeat split; auto; try discriminate.
    intro He. injection He as ->. exfalso.
    destruct (loop2_err sd st2 done2 None st3 done3 (Some EAssertBudget) E2') as [H|[t H]]; discriminate.
  - destruct (status_update_frame (aupdate sd done3) rs st3) as (F1 & F2 & F3 & F4 & F5 & F6 & _).
    unfold same_ctl in Actl. destruct Actl as (R1 & R2 & R3 & R4).
    repeat split; try congruence; try discriminate.
    + intros t Ht. rewrite F3 in Ht. apply Amono. exact Ht.
    + intros _ t Ht. rewrite F3. apply Hk3. exact Ht.
Qed.

Lemma remove_all_In xs l t : In t (remove_all xs l) <-> In t l /\ ~ In t xs.
Proof.
  unfold remove_all. rewrite filter_In. rewrite negb_true_iff, mem_nat_false. tauto.
Qed.
Lemma filter_length_le {A} (f : A -> bool) l : length (filter f l) <= length l.
Proof. induction l as [|x l IH]; simpl; [lia|]. destruct (f x); simpl; lia. Qed.

Lemma binv_emit e st : binv (emit e st) <-> binv st.
Proof. unfold binv. simpl. tauto. Qed.

Lemma poll_budget st st' err :
  poll prm o st = (st', err) -> binv st ->
  binv st' /\ err <> Some EAssertBudget /\ s_ntrials st' = s_ntrials st.
Proof.
  unfold poll. destruct (process_new_results prm o (emit ECbLoopStart st)) as [[st1 done] err1] eqn:E.
  apply pnr_budget in E. destruct E as (R1 & R2 & R3 & Hm & Hk & Hassert).
  simpl in R1, R2, Hassert. intros H (I1 & I2 & I3).
  assert (Hna : err1 <> Some EAssertBudget) by (intro He; apply Hassert in He; lia).
  destruct err1 as [e|]; injection H as <- <-.
  - split; [|auto]. unfold binv. rewrite R1, R2. repeat split; auto.
    intros t Ht Ha. apply I3; [exact Ht|]. apply Hm in Ha. exact Ha.
  - split; [|split; [discriminate|exact R2]]. unfold binv. simpl. rewrite R1, R2. repeat split.
    + apply NoDup_filter. exact I1.
    + unfold remove_all. pose proof (filter_length_le (fun t => negb (mem_nat t (map fst done))) (s_running st)). lia.
    + intros t Ht Ha. apply remove_all_In. split.
      * apply I3; [exact Ht|]. apply Hm. exact Ha.
      * intro Hin. apply amem_keys in Hin. apply (Hk eq_refl) in Hin. congruence.
Qed.

(* one pass of the scheduling loop body *)
Lemma schedule_new_task_budget st st' r :
  schedule_new_task o st = (st', r) -> binv st -> length (s_running st) < n_workers prm ->
  binv st' /\ length (s_running st') <= S (length (s_running st)) /\ s_ntrials st <= s_ntrials st'.
Proof.
  unfold schedule_new_task. intros H (I1 & I2 & I3) Hlt.
  assert (Hreg : forall t (l : list nat), NoDup l ->
            NoDup (if mem_nat t l then l else l ++ [t]) /\
            length (if mem_nat t l then l else l ++ [t]) <= S (length l) /\
            In t (if mem_nat t l then l else l ++ [t]) /\
            (forall x, In x l -> In x (if mem_nat t l then l else l ++ [t]))).
  { intros t l Hnd. destruct (mem_nat t l) eqn:Em.
    - apply mem_nat_In in Em. repeat split; auto.
    - apply mem_nat_false in Em. repeat split.
      + apply NoDup_app_intro; [exact Hnd|repeat constructor; simpl; tauto|].
        intros x Hx [<-|[]]. auto.
      + rewrite app_length. simpl. lia.
      + apply in_or_app. right. left. reflexivity.
      + intros x Hx. apply in_or_app. left. exact Hx. }
  destruct (o_sug o (s_ns st)) as [|cfg ck|id cfg].
  - injection H as <- <-. unfold binv. simpl. auto.
  - injection H as <- <-. cbn [s_running s_ntrials set_smap set_running emit set_b set_bt set_ntrials set_ns].
    destruct (Hreg (s_ntrials st) (s_running st) I1) as (N1 & N2 & N3 & N4).
    split; [|split; [exact N2|lia]]. unfold binv.
    cbn [s_running s_ntrials set_smap set_running emit set_b set_bt set_ntrials set_ns s_bt].
    repeat split; [exact N1|lia|].
    intros t Ht Ha. destruct (Nat.eq_dec t (s_ntrials st)) as [->|Hne]; [exact N3|].
    apply N4. apply I3; [lia|]. rewrite upd_other in Ha by exact Hne. exact Ha.
  - destruct (Nat.ltb id (s_ntrials st)) eqn:Eid.
    2:{ injection H as <- <-. unfold binv. simpl. auto. }
    destruct (b_td (s_bt (emit (ESSuggest (s_ntrials st) (SResume id cfg)) (set_ns st (S (s_ns st)))) id)) eqn:Etd;
      try (injection H as <- <-; unfold binv; simpl; auto; fail).
    injection H as <- <-.
    destruct (Hreg id (s_running st) I1) as (N1 & N2 & N3 & N4).
    cbn [s_running s_ntrials set_smap set_running emit set_b set_bt set_ntrials set_ns].
    split; [|split; [exact N2|lia]]. unfold binv.
    cbn [s_running s_ntrials set_smap set_running emit set_b set_bt set_ntrials set_ns s_bt].
    repeat split; [exact N1|lia|].
    intros t Ht Ha. destruct (Nat.eq_dec t id) as [->|Hne]; [exact N3|].
    apply N4. apply I3; [exact Ht|]. rewrite upd_other in Ha by exact Hne. exact Ha.
Qed.

Lemma schedule_k_budget k : forall st st' r,
  schedule_k o k st = (st', r) -> binv st -> length (s_running st) + k <= n_workers prm ->
  binv st' /\ s_ntrials st <= s_ntrials st'.
Proof.
  induction k as [|k IH]; intros st st' r H Hb Hlen; simpl in H.
  - injection H as <- <-. auto.
  - destruct (ckpt_missing o st) as [j|]; [injection H as <- <-; split; [exact Hb|simpl; lia]|].
    destruct (schedule_new_task o st) as [st1 r1] eqn:E1.
    apply schedule_new_task_budget in E1; [|exact Hb|lia]. destruct E1 as (Hb1 & Hl1 & Hn1).
    destruct r1; try (injection H as <- <-; auto; fail).
    apply IH in H; [|exact Hb1|lia]. destruct H as [Hb' Hn']. split; [exact Hb'|lia].
Qed.

(* the invariant also holds between the atomic steps inside one iteration *)
Lemma binv_mono st st' :
  s_running st' = s_running st -> s_ntrials st' = s_ntrials st -> act_mono st st' -> binv st -> binv st'.
Proof.
  intros R1 R2 Hm (I1 & I2 & I3). unfold binv. rewrite R1, R2. repeat split; auto.
Qed.

(* ---- the two ways of counting busy workers (start_jobs_without_delay) ------------------------------------------- *)
(* [blook st st1]: st1 = st, or st1 is st after backend.busy_trial_ids() looked at every active worker *)
Definition blook (st st1 : state) : Prop := st1 = st \/ exists busy, busy_look o st = (st1, busy).

Lemma atr_cursors ids : forall st,
  s_nw st <= s_nw (all_trial_results o ids st) /\ s_nc (all_trial_results o ids st) = s_nc st.
Proof.
  unfold all_trial_results. induction ids as [|t ids IH]; intro st; simpl; [auto|].
  destruct (IH (world_apply o t st)) as [A B].
  assert (C : s_nw st <= s_nw (world_apply o t st) /\ s_nc (world_apply o t st) = s_nc st).
  { unfold world_apply. destruct (active (b_w (s_bt st t))); [|auto]. destruct (o_world o (s_nw st)). simpl. auto. }
  destruct C as [C1 C2]. split; [lia|congruence].
Qed.

Lemma busy_look_spec st st1 busy : busy_look o st = (st1, busy) ->
  s_running st1 = s_running st /\ s_ntrials st1 = s_ntrials st /\ s_trace st1 = EBBusy busy :: s_trace st /\
  s_last st1 = s_last st /\ s_sstopped st1 = s_sstopped st /\ s_smap st1 = s_smap st /\ s_doneall st1 = s_doneall st /\
  act_mono st st1 /\ (forall x, td_of st1 x = td_of st x) /\ (forall x, w_of st1 x = Paused -> w_of st x = Paused) /\
  s_nw st <= s_nw st1 /\ s_nc st1 = s_nc st.
Proof.
  unfold busy_look. intro H. injection H as <- <-.
  pose proof (atr_same (seq 0 (s_ntrials st)) st) as (S1 & S2 & S3 & S4 & S5 & S6 & S7).
  destruct (atr_cursors (seq 0 (s_ntrials st)) st) as [C1 C2].
  simpl. rewrite S3. repeat split; auto.
  - apply atr_mono.
  - intro x. apply atr_td.
  - intro x. apply atr_paused.
Qed.

Lemma schedule_new_tasks_cases st st' r :
  schedule_new_tasks prm o st = (st', r) ->
  exists st1, blook st st1 /\
    ((st' = sleep st1 /\ r = SOk) \/
     (exists k, length (s_running st1) + k <= n_workers prm /\ schedule_k o k st1 = (st', r))).
Proof.
  unfold schedule_new_tasks, count_busy. intro H.
  assert (G : forall st1 nb, length (s_running st1) <= nb ->
            (if Nat.leb (if async prm then n_workers prm else 1) nb then (sleep st1, SOk)
             else schedule_k o (n_workers prm - nb) st1) = (st', r) ->
            (st' = sleep st1 /\ r = SOk) \/
            (exists k, length (s_running st1) + k <= n_workers prm /\ schedule_k o k st1 = (st', r))).
  { intros st1 nb Hnb H1. destruct (Nat.leb _ nb) eqn:El.
    - injection H1 as <- <-. auto.
    - right. exists (n_workers prm - nb). split; [|exact H1]. apply Nat.leb_gt in El. destruct (async prm); lia. }
  destruct (sjwd prm).
  - exists st. split; [left; reflexivity|]. eapply G; [|exact H]. lia.
  - destruct (busy_look o st) as [st1 busy] eqn:Eb. exists st1. split; [right; exists busy; exact Eb|].
    eapply G; [|exact H]. lia.
Qed.

(* an invariant kept by the busy look, by sleeping and by scheduling with free workers is kept by _schedule_new_tasks *)
Lemma schedule_new_tasks_inv (X : state -> Prop) st st' r :
  (forall s s1, blook s s1 -> X s -> X s1) -> (forall s, X s -> X (sleep s)) ->
  (forall k s s2 r2, schedule_k o k s = (s2, r2) -> length (s_running s) + k <= n_workers prm -> X s -> X s2) ->
  schedule_new_tasks prm o st = (st', r) -> X st -> X st'.
Proof.
  intros Hb Hs Hk H HX. apply schedule_new_tasks_cases in H. destruct H as (st1 & Hbl & [[-> ->]|(k & Hlen & Hk')]).
  - apply Hs. eapply Hb; eauto.
  - eapply Hk; eauto.
Qed.

Lemma blook_binv st st1 : blook st st1 -> binv st -> binv st1 /\ s_ntrials st1 = s_ntrials st.
Proof.
  intros [->|[busy H]] Hb; [auto|]. apply busy_look_spec in H. destruct H as (R1 & R2 & _ & _ & _ & _ & _ & Hm & _).
  split; [apply (binv_mono st st1); auto|exact R2].
Qed.

Lemma schedule_new_tasks_budget st st' r :
  schedule_new_tasks prm o st = (st', r) -> binv st -> binv st' /\ s_ntrials st <= s_ntrials st'.
Proof.
  intros H Hb. apply schedule_new_tasks_cases in H. destruct H as (st1 & Hbl & [[-> ->]|(k & Hlen & Hk)]).
  - destruct (blook_binv _ _ Hbl Hb) as [Hb1 Hn]. split; [apply binv_emit; exact Hb1|simpl; lia].
  - destruct (blook_binv _ _ Hbl Hb) as [Hb1 Hn]. destruct (schedule_k_budget _ _ _ _ Hk Hb1 Hlen) as [A B]. split; [exact A|lia].
Qed.

Lemma iteration_end_budget st st' c : iteration_end prm o st = (st', c) -> binv st -> binv st' /\ s_ntrials st' = s_ntrials st.
Proof. unfold iteration_end, stop_condition. intro H. injection H as <- <-. unfold binv. simpl. auto. Qed.


Definition resume_error (e : error) : Prop := exists t, e = EResumeNotPaused t \/ e = EResumeUnknown t.

Lemma schedule_new_task_err st st' e : schedule_new_task o st = (st', SErr e) -> resume_error e.
Proof.
  unfold schedule_new_task. destruct (o_sug o (s_ns st)) as [|cfg ck|id cfg]; try discriminate.
  destruct (Nat.ltb id (s_ntrials st)).
  - destruct (b_td _); intro H; try discriminate; injection H as _ <-; exists id; auto.
  - intro H; injection H as _ <-. exists id; auto.
Qed.
(* what can be raised while new tasks are scheduled: a resume the backend refuses, or a fault while the checkpoint
   of another trial is copied inside start_trial *)
Definition sched_error (e : error) : Prop := resume_error e \/ exists k, e = ECkptMissing k.
Lemma schedule_k_err k : forall st st' e, schedule_k o k st = (st', SErr e) -> sched_error e.
Proof.
  induction k as [|k IH]; intros st st' e H; simpl in H; [discriminate|].
  destruct (ckpt_missing o st) as [j|]; [injection H as _ <-; right; exists j; reflexivity|].
  destruct (schedule_new_task o st) as [st1 r1] eqn:E1. destruct r1.
  - eauto.
  - discriminate.
  - injection H as _ <-. left. eapply schedule_new_task_err; eauto.
Qed.
Lemma schedule_new_tasks_err st st' e : schedule_new_tasks prm o st = (st', SErr e) -> sched_error e.
Proof.
  intro H. apply schedule_new_tasks_cases in H. destruct H as (st1 & _ & [[_ Hr]|(k & _ & Hk)]); [discriminate|].
  eapply schedule_k_err; eauto.
Qed.

(* a start that failed half-way: the last thing that happened is the suggest call; no id was registered *)
Definition failed_start_shape (st : state) (e : error) : Prop :=
  exists j cfg tr, e = ECkptMissing j /\ s_trace st = ESSuggest (s_ntrials st) (SStart cfg (Some j)) :: tr /\
                   s_ntrials st <= j.
Lemma schedule_k_fault k : forall st st' e, schedule_k o k st = (st', SErr e) ->
  resume_error e \/ failed_start_shape st' e.
Proof.
  induction k as [|k IH]; intros st st' e H; simpl in H; [discriminate|].
  destruct (ckpt_missing o st) as [j|] eqn:Ec.
  - injection H as <- <-. right. unfold ckpt_missing in Ec.
    destruct (o_sug o (s_ns st)) as [|cfg [kk|]|id cfg] eqn:Es; try discriminate.
    destruct (Nat.ltb kk (s_ntrials st)) eqn:El; [discriminate|]. injection Ec as ->.
    apply Nat.ltb_ge in El. exists j, cfg, (s_trace st). unfold failed_start. rewrite Es. simpl. auto.
  - destruct (schedule_new_task o st) as [st1 r1] eqn:E1. destruct r1.
    + eauto.
    + discriminate.
    + injection H as _ <-. left. eapply schedule_new_task_err; eauto.
Qed.
Lemma schedule_new_tasks_fault st st' e : schedule_new_tasks prm o st = (st', SErr e) ->
  resume_error e \/ failed_start_shape st' e.
Proof.
  intro H. apply schedule_new_tasks_cases in H. destruct H as (st1 & _ & [[_ Hr]|(k & _ & Hk)]); [discriminate|].
  eapply schedule_k_fault; eauto.
Qed.

Lemma loop_0 st c ex : loop prm o 0 st c ex = (st, LFuel).
Proof. reflexivity. Qed.
Lemma loop_S f st c ex :
  loop prm o (S f) st c ex =
  if while_cond prm st c then
    let '(st, err) := poll prm o st in
    match err with
    | Some e => (st, LExit (Some e))
    | None =>
        if ex || (wait_completion prm && c) then
          match s_running st with
          | [] => (st, LExit None)
          | _ :: _ => let '(st, c') := iteration_end prm o (sleep st) in loop prm o f st c' ex
          end
        else
          let '(st, r) := schedule_new_tasks prm o st in
          match r with
          | SErr e => (st, LExit (Some e))
          | SStopIteration => let '(st, c') := iteration_end prm o st in loop prm o f st c' true
          | SOk => let '(st, c') := iteration_end prm o st in loop prm o f st c' ex
          end
    end
  else (st, LExit None).
Proof. reflexivity. Qed.

Lemma loop_budget fuel : forall st c ex st' x,
  loop prm o fuel st c ex = (st', x) -> binv st ->
  binv st' /\ x <> LExit (Some EAssertBudget).
Proof.
  induction fuel as [|f IH]; intros st c ex st' x H Hb; [rewrite loop_0 in H|rewrite loop_S in H].
  - injection H as <- <-. split; [exact Hb|discriminate].
  - destruct (while_cond prm st c); [|injection H as <- <-; split; [exact Hb|discriminate]].
    destruct (poll prm o st) as [st1 err] eqn:Ep.
    apply poll_budget in Ep; [|exact Hb]. destruct Ep as (Hb1 & Hna & _).
    destruct err as [e|]; [injection H as <- <-; split; [exact Hb1|congruence]|].
    destruct (ex || wait_completion prm && c).
    + destruct (s_running st1) eqn:Er; [injection H as <- <-; split; [exact Hb1|discriminate]|].
      destruct (iteration_end prm o (sleep st1)) as [st2 c'] eqn:Ei.
      apply iteration_end_budget in Ei; [|apply binv_emit; exact Hb1]. destruct Ei as [Hb2 _].
      eapply IH; eauto.
    + destruct (schedule_new_tasks prm o st1) as [st2 r] eqn:Es.
      pose proof Es as Es0.
      apply schedule_new_tasks_budget in Es; [|exact Hb1]. destruct Es as [Hb2 _].
      destruct r as [| |e].
      * destruct (iteration_end prm o st2) as [st3 c'] eqn:Ei.
        apply iteration_end_budget in Ei; [|exact Hb2]. destruct Ei as [Hb3 _]. eapply IH; eauto.
      * destruct (iteration_end prm o st2) as [st3 c'] eqn:Ei.
        apply iteration_end_budget in Ei; [|exact Hb2]. destruct Ei as [Hb3 _]. eapply IH; eauto.
      * injection H as <- <-. split; [exact Hb2|].
        (* scheduling errors are resume errors *)
        intro Hx. injection Hx as ->. apply schedule_new_tasks_err in Es0. destruct Es0 as [[t [H|H]]|[j H]]; discriminate.
Qed.

Lemma run_loop_budget fuel st x :
  run_loop prm o fuel = (st, x) -> binv st /\ x <> LExit (Some EAssertBudget).
Proof.
  unfold run_loop, stop_condition. intro H. eapply loop_budget; eauto.
  unfold binv. simpl. repeat split; [constructor|lia|intros t Ht; lia].
Qed.


Lemma budget_steps :
  (forall order st st' sd rs, fetch o order st = (st', sd, rs) -> binv st -> binv st') /\
  (forall sd st done r st' done', result_step o sd (st, done) r = (st', done') -> binv st -> binv st') /\
  (forall st done err e st' done' err', status_step (st, done, err) e = (st', done', err') -> binv st -> binv st') /\
  (forall st st' r, schedule_new_task o st = (st', r) -> binv st -> length (s_running st) < n_workers prm -> binv st').
Proof.
  split; [|split; [|split]].
  - intros order st st' sd rs H. apply fetch_spec in H. destruct H as (A & B & _).
    unfold same_tuner in A. apply binv_mono; tauto.
  - intros sd st done r st' done' H. apply result_step_budget in H. destruct H as (A & B & _).
    unfold same_ctl in A. apply binv_mono; tauto.
  - intros st done err e st' done' err' H. apply (status_step_budget []) in H. destruct H as (A & B & _).
    unfold same_ctl in A. apply binv_mono; try tauto. intros t Ht. rewrite B in Ht. exact Ht.
  - intros st st' r H Hb Hl. eapply schedule_new_task_budget; eauto.
Qed.

(* every scheduling pass happens with a free worker *)
Lemma schedule_k_free k : forall st, length (s_running st) + k <= n_workers prm -> binv st ->
  forall j st1 r1, j < k -> schedule_k o j st = (st1, r1) -> r1 = SOk -> length (s_running st1) < n_workers prm.
Proof.
  intros st Hlen Hb j. revert k st Hlen Hb. induction j as [|j IH]; intros k st Hlen Hb st1 r1 Hj H Hr; simpl in H.
  - injection H as <- <-. lia.
  - destruct (ckpt_missing o st) as [j0|]; [injection H as <- <-; discriminate|].
    destruct (schedule_new_task o st) as [st2 r2] eqn:E2.
    apply schedule_new_task_budget in E2; [|exact Hb|lia]. destruct E2 as (Hb2 & Hl2 & _).
    destruct r2; try (injection H as <- <-; discriminate).
    destruct k as [|k]; [lia|]. eapply (IH k st2); eauto; lia.
Qed.

(* ======================================================================== *)
(*  Part 3: which events each part of the loop appends to the trace           *)
(* ======================================================================== *)
Definition ext (Q : event -> bool) (st st' : state) : Prop :=
  exists new, s_trace st' = new ++ s_trace st /\ forallb Q new = true.

Lemma ext_refl Q st : ext Q st st.
Proof. exists []. auto. Qed.
Lemma ext_trans Q a b c : ext Q a b -> ext Q b c -> ext Q a c.
Proof.
  intros (n1 & H1 & F1) (n2 & H2 & F2). exists (n2 ++ n1). rewrite H2, H1, app_assoc. split; [reflexivity|].
  rewrite forallb_app, F1, F2. reflexivity.
Qed.
Lemma ext_emit Q e st : Q e = true -> ext Q st (emit e st).
Proof. intro H. exists [e]. simpl. rewrite H. auto. Qed.
Lemma ext_eq Q st st' : s_trace st' = s_trace st -> ext Q st st'.
Proof. intro H. exists []. auto. Qed.
Lemma ext_weaken (Q Q' : event -> bool) st st' : (forall e, Q e = true -> Q' e = true) -> ext Q st st' -> ext Q' st st'.
Proof.
  intros HQ (n & H & F). exists n. split; [exact H|]. rewrite forallb_forall in *. auto.
Qed.

Definition result_ev (e : event) : bool :=
  match e with ESResult _ _ _ | ECbResult _ _ _ _ | EBStop _ | EBPause _ | ESRemove _ => true | _ => false end.
Definition status_ev (e : event) : bool :=
  match e with ESComplete _ _ | ECbComplete _ _ | ESError _ => true | _ => false end.
Definition poll_ev (e : event) : bool :=
  match e with ECbLoopStart | EBFetch _ | ECbFetch _ _ => true | _ => result_ev e || status_ev e end.
Definition sched_ev (e : event) : bool :=
  match e with ESSuggest _ _ | EBStart _ _ _ | ESAdd _ | ECbStart _ | EBResume _ _ | ECbResume _ => true | _ => false end.

Lemma result_step_ext sd st done r st' done' :
  result_step o sd (st, done) r = (st', done') -> ext result_ev st st'.
Proof.
  unfold result_step. destruct r as [[t idx] rep]. destruct (amem t done).
  { intro H; injection H as <- <-. apply ext_refl. }
  destruct (notify_result o sd t idx st) as [[st1 s] d] eqn:En. intro Ha.
  apply notify_result_spec in En. destruct En as (_ & _ & _ & _ & Htr & _).
  apply apply_decision_spec in Ha. destruct Ha as (_ & _ & Ha).
  eapply ext_trans with (b := st1).
  - exists [ECbResult t s idx d; ESResult t idx d]. auto.
  - destruct d.
    + destruct Ha as [-> _]. apply ext_refl.
    + destruct Ha as (_ & _ & Ht & _). exists [ESRemove t; EBPause t]. auto.
    + destruct Ha as (_ & _ & Ha). destruct s;
        try (destruct Ha as (_ & Ht & _); exists [ESRemove t; EBStop t]; auto; fail).
      destruct Ha as (_ & Ht & _). exists [ESRemove t]. auto.
Qed.

Lemma loop1_ext sd rs : forall st done st' done', loop1 o sd rs st done = (st', done') -> ext result_ev st st'.
Proof.
  unfold loop1. induction rs as [|r rs IH]; intros st done st' done' H; cbn [fold_left] in H.
  - injection H as <- <-. apply ext_refl.
  - destruct (result_step o sd (st, done) r) as [st1 done1] eqn:E1.
    apply result_step_ext in E1. eapply ext_trans; eauto.
Qed.

Lemma status_step_ext st done err e st' done' err' :
  status_step (st, done, err) e = (st', done', err') -> ext status_ev st st'.
Proof.
  unfold status_step. destruct err; [intro H; injection H as <- <- <-; apply ext_refl|].
  destruct e as [t s]. destruct s; try solve [intro H; injection H as <- <- <-; apply ext_refl].
  - destruct (s_last st t) as [idx|]; intro H; injection H as <- <- <-; [|apply ext_refl].
    destruct (amem t done); destruct (match aget t done with Some Paused => Paused | _ => Completed end);
      try apply ext_refl; try (apply ext_emit; reflexivity);
      try (eapply ext_trans; apply ext_emit; reflexivity).
  - intro H; injection H as <- <- <-. destruct (amem t done); [apply ext_refl|apply ext_emit; reflexivity].
  - destruct (mem_nat t (s_sstopped st)); intro H; injection H as <- <- <-; [apply ext_refl|apply ext_emit; reflexivity].
Qed.

Lemma loop2_ext sd : forall st done err st' done' err',
  fold_left status_step sd (st, done, err) = (st', done', err') -> ext status_ev st st'.
Proof.
  induction sd as [|e sd IH]; intros st done err st' done' err' H; cbn [fold_left] in H.
  - injection H as <- <- <-. apply ext_refl.
  - destruct (status_step (st, done, err) e) as [[st1 done1] err1] eqn:E1.
    apply status_step_ext in E1. eapply ext_trans; eauto.
Qed.

Lemma pnr_ext st st' done err : process_new_results prm o st = (st', done, err) -> ext poll_ev st st'.
Proof.
  unfold process_new_results.
  set (order := poll_order (s_running st) (o_ord o (s_np st))).
  set (st0 := emit (EBFetch order) (set_np st (S (s_np st)))).
  destruct (fetch o order st0) as [[st1 sd] rs] eqn:Ef.
  apply fetch_spec in Ef. destruct Ef as (A & _).
  assert (E0 : ext poll_ev st st1).
  { exists [EBFetch order]. destruct A as (_ & _ & Ht & _). rewrite Ht. auto. }
  set (st1' := emit (ECbFetch sd (map (fun r => (fst (fst r), snd (fst r))) rs)) st1).
  assert (E1 : ext poll_ev st st1') by (eapply ext_trans; [exact E0|apply ext_emit; reflexivity]).
  destruct (Nat.ltb (n_workers prm) (length (s_running st1'))).
  { intro H; injection H as <- <- <-. exact E1. }
  destruct (loop1 o sd rs st1' []) as [st2 done2] eqn:El1.
  apply loop1_ext in El1.
  destruct (loop2 sd st2 done2) as [[st3 done3] err3] eqn:El2. apply loop2_ext in El2.
  assert (E3 : ext poll_ev st st3).
  { eapply ext_trans; [exact E1|]. eapply ext_trans.
    - eapply ext_weaken; [|exact El1]. intros e He. unfold poll_ev. rewrite He. destruct e; reflexivity.
    - eapply ext_weaken; [|exact El2]. intros e He. unfold poll_ev. rewrite He, orb_true_r. destruct e; reflexivity. }
  destruct err3; intro H; injection H as <- <- <-; [exact E3|].
  eapply ext_trans; [exact E3|]. apply ext_eq.
  destruct (status_update_frame (aupdate sd done3) rs st3) as (_ & _ & _ & F4 & _). exact F4.
Qed.

Lemma poll_ext st st' err : poll prm o st = (st', err) -> ext poll_ev st st'.
Proof.
  unfold poll. destruct (process_new_results prm o (emit ECbLoopStart st)) as [[st1 done] err1] eqn:E.
  apply pnr_ext in E. intro H.
  assert (E' : ext poll_ev st st1) by (apply ext_trans with (b := emit ECbLoopStart st); [apply ext_emit; reflexivity|exact E]).
  destruct err1; injection H as <- <-; [exact E'|]. eapply ext_trans; [exact E'|]. apply ext_eq. reflexivity.
Qed.

Lemma schedule_new_task_ext st st' r : schedule_new_task o st = (st', r) -> ext sched_ev st st'.
Proof.
  unfold schedule_new_task. destruct (o_sug o (s_ns st)) as [|cfg ck|id cfg].
  - intro H; injection H as <- <-. exists [ESSuggest (s_ntrials st) SNothing]. auto.
  - intro H; injection H as <- <-.
    exists [ECbStart (s_ntrials st); ESAdd (s_ntrials st); EBStart (s_ntrials st) cfg ck; ESSuggest (s_ntrials st) (SStart cfg ck)]. auto.
  - destruct (Nat.ltb id (s_ntrials st)).
    + destruct (b_td _); intro H; injection H as <- <-;
        try (exists [ESSuggest (s_ntrials st) (SResume id cfg)]; auto; fail).
      exists [ECbResume id; EBResume id cfg; ESSuggest (s_ntrials st) (SResume id cfg)]. auto.
    + intro H; injection H as <- <-. exists [ESSuggest (s_ntrials st) (SResume id cfg)]. auto.
Qed.

Lemma schedule_k_ext k : forall st st' r, schedule_k o k st = (st', r) -> ext sched_ev st st'.
Proof.
  induction k as [|k IH]; intros st st' r H; simpl in H; [injection H as <- <-; apply ext_refl|].
  destruct (ckpt_missing o st) as [j|].
  { injection H as <- <-. exists [ESSuggest (s_ntrials st) (o_sug o (s_ns st))]. auto. }
  destruct (schedule_new_task o st) as [st1 r1] eqn:E1. apply schedule_new_task_ext in E1.
  destruct r1; [eapply ext_trans; eauto| |]; injection H as <- <-; exact E1.
Qed.

Definition sched_sleep_ev (e : event) : bool := match e with ECbSleep | EBBusy _ => true | _ => sched_ev e end.

Lemma schedule_new_tasks_ext st st' r : schedule_new_tasks prm o st = (st', r) -> ext sched_sleep_ev st st'.
Proof.
  intro H. apply schedule_new_tasks_cases in H. destruct H as (st1 & Hbl & Hc).
  assert (E1 : ext sched_sleep_ev st st1).
  { destruct Hbl as [->|[busy Hb]]; [apply ext_refl|]. apply busy_look_spec in Hb. destruct Hb as (_ & _ & Ht & _).
    exists [EBBusy busy]. split; [exact Ht|reflexivity]. }
  destruct Hc as [[-> ->]|(k & _ & Hk)].
  - eapply ext_trans; [exact E1|apply ext_emit; reflexivity].
  - eapply ext_trans; [exact E1|]. apply schedule_k_ext in Hk. eapply ext_weaken; [|exact Hk].
    intros e He. unfold sched_sleep_ev. rewrite He. destruct e; reflexivity.
Qed.

(* ======================================================================== *)
(*  Part 4: nothing is started once the stop condition holds (C12)            *)
(* ======================================================================== *)
(* value of the most recent _stop_condition evaluation recorded in a (newest first) trace *)
Fixpoint flag_of (tr : list event) : bool :=
  match tr with [] => false | EStopCond _ b :: _ => b | _ :: tr' => flag_of tr' end.
(* every event of class P happened while the most recent evaluation before it was False *)
Fixpoint guarded (P : event -> bool) (tr : list event) : Prop :=
  match tr with [] => True | e :: tr' => guarded P tr' /\ (P e = true -> flag_of tr' = false) end.
Definition is_stop (e : event) : bool := match e with EStopCond _ _ => true | _ => false end.

Lemma flag_of_app new tr : forallb (fun e => negb (is_stop e)) new = true -> flag_of (new ++ tr) = flag_of tr.
Proof.
  induction new as [|e new IH]; simpl; [reflexivity|]. rewrite andb_true_iff. intros [H1 H2].
  destruct e; simpl in H1; try discriminate; auto.
Qed.
Lemma guarded_app P new tr :
  forallb (fun e => negb (is_stop e)) new = true ->
  (flag_of tr = false \/ forallb (fun e => negb (P e)) new = true) ->
  guarded P tr -> guarded P (new ++ tr).
Proof.
  induction new as [|e new IH]; simpl; [auto|]. rewrite andb_true_iff. intros [H1 H2] Hor Hg.
  split.
  - apply IH; auto. destruct Hor as [H|H]; [left; exact H|right]. apply andb_true_iff in H. tauto.
  - intro HP. rewrite flag_of_app by exact H2. destruct Hor as [H|H]; [exact H|].
    apply andb_true_iff in H. destruct H as [H _]. rewrite HP in H. discriminate.
Qed.

Lemma ext_flag Q st st' : (forall e, Q e = true -> is_stop e = false) -> ext Q st st' ->
  flag_of (s_trace st') = flag_of (s_trace st).
Proof.
  intros HQ (new & -> & F). apply flag_of_app. rewrite forallb_forall in *. intros e He.
  rewrite (HQ e (F e He)). reflexivity.
Qed.
Lemma ext_guarded P Q st st' : (forall e, Q e = true -> is_stop e = false) -> ext Q st st' ->
  (flag_of (s_trace st) = false \/ forall e, Q e = true -> P e = false) ->
  guarded P (s_trace st) -> guarded P (s_trace st').
Proof.
  intros HQ (new & -> & F) Hor Hg. rewrite forallb_forall in F. apply guarded_app; auto.
  - apply forallb_forall. intros e He. rewrite (HQ e (F e He)). reflexivity.
  - destruct Hor as [H|H]; [left; exact H|right]. apply forallb_forall. intros e He. rewrite (H e (F e He)). reflexivity.
Qed.

Lemma poll_ev_not_stop e : poll_ev e = true -> is_stop e = false.
Proof. destruct e; simpl; auto; discriminate. Qed.
Lemma poll_ev_not_sched e : poll_ev e = true -> sched_ev e = false.
Proof. destruct e; simpl; auto; discriminate. Qed.
Lemma sched_sleep_not_stop e : sched_sleep_ev e = true -> is_stop e = false.
Proof. destruct e; simpl; auto; discriminate. Qed.

Definition simple_ev (e : event) : bool := match e with ECbSleep | ECbLoopEnd => true | _ => false end.

Lemma iteration_end_guarded P st st' c :
  (forall c f, P (EStopCond c f) = false) ->
  iteration_end prm o st = (st', c) ->
  (flag_of (s_trace st) = false \/ P ECbLoopEnd = false) ->
  guarded P (s_trace st) -> guarded P (s_trace st') /\ flag_of (s_trace st') = c.
Proof.
  unfold iteration_end, stop_condition. intros HP H Hor Hg. injection H as <- <-. simpl.
  split; [|reflexivity]. split; [split; [exact Hg|]|].
  - intro H. destruct Hor as [Hf|Hf]; [exact Hf|congruence].
  - intro H. rewrite HP in H. discriminate.
Qed.


Lemma loop_guarded (P : event -> bool) :
  (forall c f, P (EStopCond c f) = false) ->
  (wait_completion prm = true -> forall e, P e = true -> sched_ev e = true) ->
  forall fuel st c ex st' x, loop prm o fuel st c ex = (st', x) ->
    guarded P (s_trace st) -> flag_of (s_trace st) = c -> guarded P (s_trace st').
Proof.
  intros HP1 HP2. induction fuel as [|f IH]; intros st c ex st' x H Hg Hf.
  - rewrite loop_0 in H. injection H as <- <-. exact Hg.
  - rewrite loop_S in H. destruct (while_cond prm st c) eqn:Ew; [|injection H as <- <-; exact Hg].
    (* inside the body either the flag is false, or wait=true and only non-scheduling events are emitted *)
    assert (Hcase : c = false \/ (c = true /\ wait_completion prm = true)).
    { unfold while_cond in Ew. destruct c; [right|left; reflexivity]. simpl in Ew.
      destruct (wait_completion prm); [auto|discriminate]. }
    destruct (poll prm o st) as [st1 err] eqn:Ep. apply poll_ext in Ep.
    assert (Hg1 : guarded P (s_trace st1)).
    { eapply ext_guarded; [apply poll_ev_not_stop|exact Ep| |exact Hg].
      destruct Hcase as [->|[-> Hw]]; [left; exact Hf|right].
      intros e He. destruct (P e) eqn:EP; [|reflexivity]. apply (HP2 Hw) in EP.
      rewrite (poll_ev_not_sched e He) in EP. discriminate. }
    assert (Hf1 : flag_of (s_trace st1) = c) by (rewrite (ext_flag _ _ _ poll_ev_not_stop Ep); exact Hf).
    destruct err as [e|]; [injection H as <- <-; exact Hg1|].
    assert (Hsimple : forall e, simple_ev e = true -> c = true -> P e = false).
    { intros e He Hc. destruct Hcase as [->|[_ Hw]]; [discriminate|].
      destruct (P e) eqn:EP; [|reflexivity]. apply (HP2 Hw) in EP. destruct e; discriminate. }
    destruct (ex || wait_completion prm && c) eqn:Eb.
    + destruct (s_running st1) eqn:Er; [injection H as <- <-; exact Hg1|].
      destruct (iteration_end prm o (sleep st1)) as [st2 c'] eqn:Ei.
      assert (Hg1' : guarded P (s_trace (sleep st1))).
      { simpl. split; [exact Hg1|]. intro HPs. rewrite Hf1. destruct c; [|reflexivity].
        rewrite (Hsimple ECbSleep eq_refl eq_refl) in HPs. discriminate. }
      apply (iteration_end_guarded P) in Ei; [|exact HP1| |exact Hg1'].
      * destruct Ei as [Hg2 Hf2]. eapply IH; [exact H|exact Hg2|exact Hf2].
      * simpl. rewrite Hf1. destruct c; [right; apply Hsimple; reflexivity|left; reflexivity].
    + (* scheduling: only when the flag is false *)
      assert (Hc : c = false).
      { destruct Hcase as [->|[-> Hw]]; [reflexivity|]. rewrite Hw in Eb. rewrite orb_true_r in Eb. discriminate. }
      rewrite Hc in Hf1.
      destruct (schedule_new_tasks prm o st1) as [st2 r] eqn:Es. apply schedule_new_tasks_ext in Es.
      assert (Hg2 : guarded P (s_trace st2)).
      { eapply ext_guarded; [apply sched_sleep_not_stop|exact Es|left; exact Hf1|exact Hg1]. }
      assert (Hf2 : flag_of (s_trace st2) = false) by (rewrite (ext_flag _ _ _ sched_sleep_not_stop Es); exact Hf1).
      destruct r as [| |e].
      * destruct (iteration_end prm o st2) as [st3 c'] eqn:Ei.
        apply (iteration_end_guarded P) in Ei; [|exact HP1|left; exact Hf2|exact Hg2].
        destruct Ei as [Hg3 Hf3]. eapply IH; [exact H|exact Hg3|exact Hf3].
      * destruct (iteration_end prm o st2) as [st3 c'] eqn:Ei.
        apply (iteration_end_guarded P) in Ei; [|exact HP1|left; exact Hf2|exact Hg2].
        destruct Ei as [Hg3 Hf3]. eapply IH; [exact H|exact Hg3|exact Hf3].
      * injection H as <- <-. exact Hg2.
Qed.

Lemma run_loop_guarded (P : event -> bool) fuel st x :
  (forall c f, P (EStopCond c f) = false) -> P ECbTuningStart = false ->
  (wait_completion prm = true -> forall e, P e = true -> sched_ev e = true) ->
  run_loop prm o fuel = (st, x) -> guarded P (s_trace st).
Proof.
  intros HP1 HP0 HP2. unfold run_loop, stop_condition. intro H.
  eapply (loop_guarded P HP1 HP2); [exact H| |reflexivity].
  simpl. repeat split; intro Hx; congruence.
Qed.

(* ======================================================================== *)
(*  Part 5: the finally block (C12)                                            *)
(* ======================================================================== *)
Lemma w_stop_fold snap s t x :
  w_of (stop_fold snap s t) x = if Nat.eqb x t && status_eqb (b_w (snap t)) InProgress then Stopped else w_of s x.
Proof.
  unfold stop_fold. destruct (backend_stop_spec t s) as (_ & _ & _ & _ & Hw & _).
  destruct (b_w (snap t)); simpl status_eqb; rewrite ?andb_false_r, ?andb_true_r; try reflexivity. apply Hw.
Qed.

Lemma stop_fold_spec snap l : forall s,
  let s' := fold_left (stop_fold snap) l s in
  (forall x, w_of s' x = if mem_nat x l && status_eqb (b_w (snap x)) InProgress then Stopped else w_of s x) /\
  same_ctl s s' /\ ext (fun e => match e with EBStop _ => true | _ => false end) s s'.
Proof.
  induction l as [|t l IH]; intro s; cbn [fold_left].
  - repeat split; auto using same_ctl_refl, ext_refl.
  - destruct (IH (stop_fold snap s t)) as (A & B & C). split; [|split].
    + intro x. rewrite A, w_stop_fold. cbn [mem_nat].
      destruct (Nat.eqb x t) eqn:Ext; [apply Nat.eqb_eq in Ext; subst x|]; simpl;
        destruct (mem_nat _ l); destruct (status_eqb _ InProgress); reflexivity.
    + eapply same_ctl_trans; [|exact B]. unfold stop_fold. destruct (b_w (snap t)); try apply same_ctl_refl.
      apply backend_stop_spec.
    + eapply ext_trans; [|exact C]. unfold stop_fold. destruct (b_w (snap t)); try apply ext_refl.
      destruct (backend_stop_spec t s) as (_ & Ht & _). exists [EBStop t]. auto.
Qed.

Lemma mem_nat_seq x n : mem_nat x (seq 0 n) = Nat.ltb x n.
Proof.
  destruct (Nat.ltb x n) eqn:E.
  - apply mem_nat_In. apply in_seq. apply Nat.ltb_lt in E. lia.
  - apply mem_nat_false. rewrite in_seq. apply Nat.ltb_ge in E. lia.
Qed.

Definition final_ev (e : event) : bool :=
  match e with EBStop _ | EBStopAll | ECbTuningEnd => true | _ => false end.

Lemma stop_all_spec st :
  let st' := stop_all o st in
  (forall t, t < s_ntrials st -> w_of st' t <> InProgress) /\ same_ctl st st' /\
  (exists stops, s_trace st' = stops ++ EBStopAll :: s_trace st /\
                 forallb (fun e => match e with EBStop _ => true | _ => false end) stops = true) /\
  act_mono st st'.
Proof.
  unfold stop_all.
  set (st1 := all_trial_results o (seq 0 (s_ntrials st)) (emit EBStopAll st)).
  assert (S1 : same_tuner (emit EBStopAll st) st1) by apply atr_same.
  assert (M1 : act_mono (emit EBStopAll st) st1) by apply atr_mono.
  destruct (stop_fold_spec (s_bt st1) (seq 0 (s_ntrials st)) st1) as (A & B & C).
  split; [|split; [|split]].
  - intros t Ht. rewrite A. rewrite mem_nat_seq. apply Nat.ltb_lt in Ht. rewrite Ht. simpl.
    destruct (b_w (s_bt st1 t)) eqn:Ew; simpl; congruence.
  - eapply same_ctl_trans; [|exact B]. apply same_tuner_ctl in S1. unfold same_ctl in *. simpl in S1. exact S1.
  - destruct C as (stops & Ht & F). exists stops. split; [|exact F]. rewrite Ht.
    destruct S1 as (_ & _ & Htr & _). rewrite Htr. reflexivity.
  - intros t Ht. rewrite A in Ht.
    destruct (mem_nat t (seq 0 (s_ntrials st)) && status_eqb (b_w (s_bt st1 t)) InProgress); [discriminate|].
    apply M1 in Ht. exact Ht.
Qed.

Lemma finalize_spec st err st' out :
  finalize prm o st err = (st', out) ->
  (forall t, t < s_ntrials st -> w_of st' t <> InProgress) /\
  s_ntrials st' = s_ntrials st /\ s_running st' = s_running st /\ s_doneall st' = s_doneall st /\
  s_smap st' = mark_stopped (s_smap st) /\
  (exists stops, s_trace st' = stops ++ EBStopAll :: ECbTuningEnd :: s_trace st /\
                 forallb (fun e => match e with EBStop _ => true | _ => false end) stops = true) /\
  out <> OutOfFuel /\
  (too_many_failures prm st' = false -> out = match err with Some e => Raised e | None => Normal end) /\
  (too_many_failures prm st' = true ->
     match first_failed (s_doneall st) with
     | Some t => out = Raised (EFailureLimit t)
     | None => out = match err with Some e => Raised e | None => Normal end
     end).
Proof.
  unfold finalize.
  destruct (stop_all_spec (emit ECbTuningEnd st)) as (A & B & C & _).
  set (st1 := stop_all o (emit ECbTuningEnd st)) in *.
  set (st2 := set_smap st1 (mark_stopped (s_smap st1))).
  assert (Hsm : s_smap st1 = s_smap st) by (destruct B as (_ & _ & H & _); exact H).
  assert (Hda : s_doneall st2 = s_doneall st) by (destruct B as (_ & _ & _ & H); exact H).
  intro H.
  assert (Hfacts : (forall t, t < s_ntrials st -> w_of st2 t <> InProgress) /\
    s_ntrials st2 = s_ntrials st /\ s_running st2 = s_running st /\ s_doneall st2 = s_doneall st /\
    s_smap st2 = mark_stopped (s_smap st) /\
    (exists stops, s_trace st2 = stops ++ EBStopAll :: ECbTuningEnd :: s_trace st /\
                 forallb (fun e => match e with EBStop _ => true | _ => false end) stops = true)).
  { destruct B as (B1 & B2 & B3 & B4). simpl in *. rewrite Hsm. repeat split; auto. }
  destruct Hfacts as (F1 & F2 & F3 & F4 & F5 & F6).
  destruct (too_many_failures prm st2) eqn:Et.
  - rewrite Hda in H. destruct (first_failed (s_doneall st)) as [t|] eqn:Ef; injection H as <- <-;
      repeat split; auto; try discriminate; try (rewrite Et; discriminate); destruct err; discriminate.
  - injection H as <- <-. repeat split; auto; try (rewrite Et; discriminate); destruct err; discriminate.
Qed.

Definition loop_ev (e : event) : bool :=
  match e with ECbTuningStart | EStopCond _ _ | ECbLoopEnd => true | _ => poll_ev e || sched_sleep_ev e end.

Lemma iteration_end_ext st st' c : iteration_end prm o st = (st', c) -> ext loop_ev st st'.
Proof.
  unfold iteration_end, stop_condition. intro H. injection H as <- <-.
  eexists [_; _]. simpl. split; reflexivity.
Qed.

Lemma loop_ext fuel : forall st c ex st' x, loop prm o fuel st c ex = (st', x) -> ext loop_ev st st'.
Proof.
  assert (Wp : forall a b, ext poll_ev a b -> ext loop_ev a b).
  { intros a b. apply ext_weaken. intros e He. unfold loop_ev. rewrite He. destruct e; reflexivity. }
  assert (Ws : forall a b, ext sched_sleep_ev a b -> ext loop_ev a b).
  { intros a b. apply ext_weaken. intros e He. unfold loop_ev. rewrite He, orb_true_r. destruct e; reflexivity. }
  induction fuel as [|f IH]; intros st c ex st' x H.
  - rewrite loop_0 in H. injection H as <- <-. apply ext_refl.
  - rewrite loop_S in H. destruct (while_cond prm st c); [|injection H as <- <-; apply ext_refl].
    destruct (poll prm o st) as [st1 err] eqn:Ep. apply poll_ext, Wp in Ep.
    destruct err; [injection H as <- <-; exact Ep|].
    destruct (ex || wait_completion prm && c).
    + destruct (s_running st1); [injection H as <- <-; exact Ep|].
      destruct (iteration_end prm o (sleep st1)) as [st2 c'] eqn:Ei. apply iteration_end_ext in Ei.
      apply IH in H. eapply ext_trans; [exact Ep|]. eapply ext_trans; [|exact H].
      eapply ext_trans; [|exact Ei]. apply ext_emit. reflexivity.
    + destruct (schedule_new_tasks prm o st1) as [st2 r] eqn:Es. apply schedule_new_tasks_ext, Ws in Es.
      assert (E2 : ext loop_ev st st2) by (eapply ext_trans; eauto).
      destruct r.
      * destruct (iteration_end prm o st2) as [st3 c'] eqn:Ei. apply iteration_end_ext in Ei. apply IH in H.
        eapply ext_trans; [exact E2|]. eapply ext_trans; eauto.
      * destruct (iteration_end prm o st2) as [st3 c'] eqn:Ei. apply iteration_end_ext in Ei. apply IH in H.
        eapply ext_trans; [exact E2|]. eapply ext_trans; eauto.
      * injection H as <- <-. exact E2.
Qed.

Lemma run_loop_events fuel st x : run_loop prm o fuel = (st, x) -> forallb loop_ev (s_trace st) = true.
Proof.
  unfold run_loop, stop_condition. intro H. apply loop_ext in H. destruct H as (new & Ht & F).
  rewrite Ht. rewrite forallb_app, F. reflexivity.
Qed.

(* ======================================================================== *)
(*  Part 6: status map, counters, failure limit (C12)                          *)
(* ======================================================================== *)
Lemma aset_keys_in {A} k (v : A) m : In k (map fst m) -> map fst (aset k v m) = map fst m.
Proof.
  induction m as [|[k' v'] m IH]; simpl; [tauto|]. intro H.
  destruct (Nat.eqb k k') eqn:E; simpl; [apply Nat.eqb_eq in E; subst; reflexivity|].
  f_equal. apply IH. destruct H as [H|H]; [apply Nat.eqb_neq in E; congruence|exact H].
Qed.
Lemma aset_keys_new {A} k (v : A) m : ~ In k (map fst m) -> map fst (aset k v m) = map fst m ++ [k].
Proof.
  induction m as [|[k' v'] m IH]; simpl; [reflexivity|]. intro H.
  destruct (Nat.eqb k k') eqn:E; [apply Nat.eqb_eq in E; subst; tauto|]. simpl. f_equal. apply IH. tauto.
Qed.
Lemma aset_keys_incl {A} k (v : A) m x : In x (map fst (aset k v m)) -> x = k \/ In x (map fst m).
Proof.
  destruct (in_dec Nat.eq_dec k (map fst m)) as [H|H].
  - rewrite aset_keys_in by exact H. auto.
  - rewrite aset_keys_new by exact H. intro Hx. apply in_app_or in Hx. destruct Hx as [Hx|[Hx|[]]]; auto.
Qed.
Lemma aset_keys_NoDup {A} k (v : A) m : NoDup (map fst m) -> NoDup (map fst (aset k v m)).
Proof.
  intro Hnd. destruct (in_dec Nat.eq_dec k (map fst m)) as [H|H].
  - rewrite aset_keys_in by exact H. exact Hnd.
  - rewrite aset_keys_new by exact H. apply NoDup_app_intro; [exact Hnd|repeat constructor; simpl; tauto|].
    intros x Hx [<-|[]]. auto.
Qed.
Lemma aupdate_keys {A} (u : list (nat * A)) : forall m,
  (forall k, In k (map fst u) -> In k (map fst m)) -> map fst (aupdate m u) = map fst m.
Proof.
  unfold aupdate. induction u as [|[k v] u IH]; intros m H; simpl; [reflexivity|].
  rewrite IH.
  - apply aset_keys_in. apply H. left. reflexivity.
  - intros x Hx. rewrite aset_keys_in by (apply H; left; reflexivity). apply H. right. exact Hx.
Qed.
Lemma aupdate_keys_incl {A} (u : list (nat * A)) : forall m x,
  In x (map fst (aupdate m u)) -> In x (map fst m) \/ In x (map fst u).
Proof.
  unfold aupdate. induction u as [|[k v] u IH]; intros m x H; simpl in *; [auto|].
  apply IH in H. destruct H as [H|H]; [|auto]. apply aset_keys_incl in H. destruct H as [->|H]; auto.
Qed.
Lemma aget_aupdate_notin {A} (u : list (nat * A)) : forall m k,
  ~ In k (map fst u) -> aget k (aupdate m u) = aget k m.
Proof.
  unfold aupdate. induction u as [|[k' v] u IH]; intros m k H; simpl in *; [reflexivity|].
  rewrite IH by tauto. apply aget_aset_other. intro; subst; tauto.
Qed.
Lemma aget_aupdate_in {A} (u : list (nat * A)) : forall m k v,
  NoDup (map fst u) -> aget k u = Some v -> aget k (aupdate m u) = Some v.
Proof.
  unfold aupdate. induction u as [|[k' v'] u IH]; intros m k v Hnd H; simpl in *; [discriminate|].
  inversion Hnd as [|? ? Hni Hnd']; subst.
  destruct (Nat.eqb k k') eqn:E.
  - apply Nat.eqb_eq in E. subst k'. injection H as ->.
    change (aget k (aupdate (aset k v m) u) = Some v). rewrite aget_aupdate_notin by exact Hni. apply aget_aset_same.
  - apply IH; auto.
Qed.
Lemma aget_none_notin {A} k (m : list (nat * A)) : aget k m = None <-> ~ In k (map fst m).
Proof. rewrite <- amem_keys. unfold amem. destruct (aget k m); split; congruence. Qed.

Definition keys_ok (done : list (nat * status)) (ks : list nat) : Prop :=
  NoDup (map fst done) /\ forall x, In x (map fst done) -> In x ks.

Lemma keys_ok_aset done ks t v : keys_ok done ks -> In t ks -> keys_ok (aset t v done) ks.
Proof.
  intros [H1 H2] Ht. split; [apply aset_keys_NoDup; exact H1|].
  intros x Hx. apply aset_keys_incl in Hx. destruct Hx as [->|Hx]; auto.
Qed.

Lemma result_step_keys sd st done r st' done' ks :
  result_step o sd (st, done) r = (st', done') -> In (fst (fst r)) ks -> keys_ok done ks ->
  keys_ok done' ks /\ (forall x, amem x done = true -> amem x done' = true).
Proof.
  unfold result_step. destruct r as [[t idx] rep]. cbn [fst]. destruct (amem t done) eqn:Em.
  { intro H; injection H as <- <-. auto. }
  destruct (notify_result o sd t idx st) as [[st1 s] d] eqn:En. intros Ha Ht Hk.
  apply apply_decision_spec in Ha. destruct Ha as (_ & _ & Ha).
  assert (Hmono : forall v x, amem x done = true -> amem x (aset t v done) = true)
    by (intros v x Hx; rewrite amem_aset, Hx; apply orb_true_r).
  destruct d.
  - destruct Ha as [_ Hd]. rewrite Hd. auto.
  - destruct Ha as (-> & _). split; [apply keys_ok_aset; auto|apply Hmono].
  - destruct Ha as (_ & _ & Ha). destruct s; destruct Ha as (-> & _); (split; [apply keys_ok_aset; auto|apply Hmono]).
Qed.

Lemma loop1_keys sd rs ks : forall st done st' done',
  loop1 o sd rs st done = (st', done') -> (forall r, In r rs -> In (fst (fst r)) ks) -> keys_ok done ks ->
  keys_ok done' ks.
Proof.
  unfold loop1. induction rs as [|r rs IH]; intros st done st' done' H Hrs Hk; cbn [fold_left] in H.
  - injection H as <- <-. exact Hk.
  - destruct (result_step o sd (st, done) r) as [st1 done1] eqn:E1.
    eapply result_step_keys in E1; [|apply Hrs; left; reflexivity|exact Hk]. destruct E1 as [Hk1 _].
    eapply IH; eauto. intros r' Hr'. apply Hrs. right. exact Hr'.
Qed.

Lemma status_step_keys st done err e st' done' err' ks :
  status_step (st, done, err) e = (st', done', err') -> In (fst e) ks -> keys_ok done ks ->
  keys_ok done' ks /\ (forall x, amem x done = true -> amem x done' = true) /\
  (err = None -> err' = None -> snd e = Failed -> amem (fst e) done' = true) /\
  (err <> None -> err' <> None).
Proof.
  unfold status_step. destruct err as [e0|].
  { intros H Ht Hk; injection H as <- <- <-. split; [exact Hk|]. repeat split; auto; congruence. }
  destruct e as [t s]. cbn [fst snd]. intros H Ht Hk.
  assert (Hmono : forall v x, amem x done = true -> amem x (aset t v done) = true)
    by (intros v x Hx; rewrite amem_aset, Hx; apply orb_true_r).
  destruct s; try solve [injection H as <- <- <-; split; [exact Hk|]; repeat split; auto; congruence].
  - destruct (s_last st t); injection H as <- <- <-.
    + split; [apply keys_ok_aset; auto|]. repeat split; auto; congruence.
    + split; [exact Hk|]. repeat split; auto; congruence.
  - injection H as <- <- <-. split; [apply keys_ok_aset; auto|]. repeat split; auto; try congruence.
    rewrite amem_aset, Nat.eqb_refl. reflexivity.
  - destruct (mem_nat t (s_sstopped st)); injection H as <- <- <-.
    + split; [exact Hk|]. repeat split; auto; congruence.
    + split; [apply keys_ok_aset; auto|]. repeat split; auto; congruence.
Qed.

Lemma loop2_keys ks sd : forall st done err st' done' err',
  fold_left status_step sd (st, done, err) = (st', done', err') ->
  (forall e, In e sd -> In (fst e) ks) -> keys_ok done ks ->
  keys_ok done' ks /\ (forall x, amem x done = true -> amem x done' = true) /\
  (err = None -> err' = None -> forall t, In (t, Failed) sd -> amem t done' = true) /\
  (err <> None -> err' <> None).
Proof.
  induction sd as [|e sd IH]; intros st done err st' done' err' H Hsd Hk; cbn [fold_left] in H.
  - injection H as <- <- <-. split; [exact Hk|]. split; [auto|]. split; [intros _ _ t []|auto].
  - destruct (status_step (st, done, err) e) as [[st1 done1] err1] eqn:E1.
    eapply status_step_keys in E1; [|apply Hsd; left; reflexivity|exact Hk].
    destruct E1 as (K1 & M1 & F1 & N1).
    apply IH in H; [|intros e' He'; apply Hsd; right; exact He'|exact K1].
    destruct H as (K & M & F & N). repeat split; auto.
    + apply K.
    + apply K.
    + intros He He' t [Hin|Hin].
      * subst e. apply M. apply F1; auto. destruct err1; [exfalso; apply N; congruence|reflexivity].
      * apply F; auto. destruct err1; [exfalso; apply N; congruence|reflexivity].
Qed.

Lemma pnr_smap st st' done :
  process_new_results prm o st = (st', done, None) ->
  exists sd, map fst sd = poll_order (s_running st) (o_ord o (s_np st)) /\
    s_smap st' = aupdate (s_smap st) (aupdate sd done) /\ keys_ok done (map fst sd) /\
    (forall t, In (t, Failed) sd -> amem t done = true).
Proof.
  unfold process_new_results.
  set (order := poll_order (s_running st) (o_ord o (s_np st))).
  set (st0 := emit (EBFetch order) (set_np st (S (s_np st)))).
  destruct (fetch o order st0) as [[st1 sd] rs] eqn:Ef.
  apply fetch_spec in Ef. destruct Ef as (A & _ & _ & _ & _ & _ & Hsdk & _ & Hrs).
  set (st1' := emit (ECbFetch sd (map (fun r => (fst (fst r), snd (fst r))) rs)) st1).
  destruct (Nat.ltb (n_workers prm) (length (s_running st1'))); [discriminate|].
  destruct (loop1 o sd rs st1' []) as [st2 done2] eqn:E1.
  pose proof E1 as E1c. apply loop1_budget in E1c. destruct E1c as (C1 & _).
  apply (loop1_keys sd rs (map fst sd)) in E1.
  2:{ intros r Hr. rewrite Hsdk. apply Hrs. exact Hr. }
  2:{ split; [constructor|intros x []]. }
  destruct (loop2 sd st2 done2) as [[st3 done3] err3] eqn:E2. unfold loop2 in E2.
  pose proof E2 as E2c. apply (loop2_budget sd) in E2c. destruct E2c as (C2 & _).
  apply (loop2_keys (map fst sd)) in E2; [|intros e He; apply in_map; exact He|exact E1].
  destruct E2 as (K & _ & F & _).
  destruct err3; [discriminate|]. intro H. injection H as <- <-.
  exists sd. split; [exact Hsdk|]. split; [|split; [exact K|apply F; reflexivity]].
  destruct (status_update_frame (aupdate sd done3) rs st3) as (_ & _ & _ & _ & F5 & _). rewrite F5.
  f_equal. destruct C2 as (_ & _ & -> & _). destruct C1 as (_ & _ & -> & _).
  unfold st1'. cbn [s_smap emit]. destruct A as (_ & _ & _ & _ & _ & -> & _). reflexivity.
Qed.

Definition sinv (st : state) : Prop :=
  map fst (s_smap st) = seq 0 (s_ntrials st) /\
  (forall t, In t (s_running st) -> t < s_ntrials st) /\
  (forall t, aget t (s_smap st) = Some Failed -> aget t (s_doneall st) = Some Failed).

Lemma aupdate_sd_done_keys sd done :
  keys_ok done (map fst sd) -> map fst (aupdate sd done) = map fst sd.
Proof. intros [_ H]. apply aupdate_keys. exact H. Qed.

Lemma poll_sinv st st' err : poll prm o st = (st', err) -> binv st -> sinv st -> sinv st'.
Proof.
  unfold poll. destruct (process_new_results prm o (emit ECbLoopStart st)) as [[st1 done] err1] eqn:E.
  pose proof E as Eb. apply pnr_budget in Eb. destruct Eb as (R1 & R2 & R3 & _).
  simpl in R1, R2, R3. intros H Hb (S1 & S2 & S3).
  destruct err1 as [e|].
  - injection H as <- <-.
    (* an exception inside _process_new_results: neither status map nor done_trials_statuses were updated *)
    assert (Hsm : s_smap st1 = s_smap st).
    { clear - E. unfold process_new_results in E.
      set (order := poll_order (s_running (emit ECbLoopStart st)) (o_ord o (s_np (emit ECbLoopStart st)))) in *.
      set (st0 := emit (EBFetch order) (set_np (emit ECbLoopStart st) (S (s_np (emit ECbLoopStart st))))) in *.
      destruct (fetch o order st0) as [[st1' sd] rs] eqn:Ef.
      apply fetch_spec in Ef. destruct Ef as (A & _).
      set (st1'' := emit (ECbFetch sd (map (fun r => (fst (fst r), snd (fst r))) rs)) st1') in *.
      destruct (Nat.ltb (n_workers prm) (length (s_running st1''))).
      { injection E as <- _ _. unfold st1''. cbn [s_smap emit]. destruct A as (_ & _ & _ & _ & _ & -> & _). reflexivity. }
      destruct (loop1 o sd rs st1'' []) as [st2 done2] eqn:E1.
      apply loop1_budget in E1. destruct E1 as (C1 & _).
      destruct (loop2 sd st2 done2) as [[st3 done3] err3] eqn:E2. unfold loop2 in E2.
      apply (loop2_budget sd) in E2. destruct E2 as (C2 & _).
      destruct err3; [|discriminate]. injection E as <- _ _.
      destruct C2 as (_ & _ & -> & _). destruct C1 as (_ & _ & -> & _).
      unfold st1''. cbn [s_smap emit]. destruct A as (_ & _ & _ & _ & _ & -> & _). reflexivity. }
    unfold sinv. rewrite Hsm, R1, R2, R3. auto.
  - injection H as <- <-.
    apply pnr_smap in E. destruct E as (sd & Hk & Hsm & Hkeys & HF). simpl in Hk, Hsm.
    assert (Hord : forall t, In t (map fst sd) -> t < s_ntrials st).
    { intros t Ht. rewrite Hk in Ht. apply poll_order_incl in Ht. auto. }
    assert (Hnd : NoDup (map fst sd)) by (rewrite Hk; apply poll_order_NoDup; apply Hb).
    assert (HU : map fst (aupdate sd done) = map fst sd) by (apply aupdate_sd_done_keys; exact Hkeys).
    unfold sinv. cbn [s_smap s_ntrials s_running s_doneall set_running set_doneall]. rewrite R2. split; [|split].
    + rewrite Hsm. rewrite aupdate_keys; [exact S1|]. intros k Hk'. rewrite HU in Hk'.
      rewrite S1. apply in_seq. specialize (Hord k Hk'). lia.
    + intros t Ht. apply remove_all_In in Ht. rewrite R1 in Ht. apply S2. tauto.
    + intros t Ht. rewrite Hsm in Ht. rewrite R3.
      destruct (in_dec Nat.eq_dec t (map fst (aupdate sd done))) as [Hin|Hnin].
      * (* the entry was written by this poll *)
        assert (HndU : NoDup (map fst (aupdate sd done))) by (rewrite HU; exact Hnd).
        destruct (aget t (aupdate sd done)) as [v|] eqn:Ev; [|apply aget_none_notin in Ev; tauto].
        rewrite (aget_aupdate_in _ _ _ _ HndU Ev) in Ht. injection Ht as ->.
        destruct (aget t done) as [v|] eqn:Ed.
        -- rewrite (aget_aupdate_in _ _ _ _ (proj1 Hkeys) Ed) in Ev. injection Ev as ->.
           apply aget_aupdate_in; [apply Hkeys|exact Ed].
        -- exfalso. assert (Hnd' : ~ In t (map fst done)) by (apply aget_none_notin; exact Ed).
           rewrite aget_aupdate_notin in Ev by exact Hnd'. apply aget_In in Ev. apply HF in Ev.
           unfold amem in Ev. rewrite Ed in Ev. discriminate.
      * rewrite aget_aupdate_notin in Ht by exact Hnin.
        rewrite aget_aupdate_notin; [apply S3; exact Ht|].
        intro Hd. apply Hnin. rewrite HU. apply Hkeys. exact Hd.
Qed.

Lemma sinv_frame st st' :
  s_smap st' = s_smap st -> s_ntrials st' = s_ntrials st -> s_running st' = s_running st ->
  s_doneall st' = s_doneall st -> sinv st -> sinv st'.
Proof. unfold sinv. intros -> -> -> ->. auto. Qed.

Lemma schedule_new_task_sinv st st' r : schedule_new_task o st = (st', r) -> sinv st -> sinv st'.
Proof.
  unfold schedule_new_task. intros H (S1 & S2 & S3).
  assert (Hreg : forall t (l : list nat) x, In x (if mem_nat t l then l else l ++ [t]) -> x = t \/ In x l).
  { intros t l x. destruct (mem_nat t l); [auto|]. intro Hx. apply in_app_or in Hx. destruct Hx as [Hx|[Hx|[]]]; auto. }
  assert (HF : forall t, forall x, aget x (aset t InProgress (s_smap st)) = Some Failed -> aget x (s_doneall st) = Some Failed).
  { intros t x Hx. destruct (Nat.eq_dec x t) as [->|Hne]; [rewrite aget_aset_same in Hx; discriminate|].
    rewrite aget_aset_other in Hx by exact Hne. auto. }
  destruct (o_sug o (s_ns st)) as [|cfg ck|id cfg].
  - injection H as <- <-. eapply sinv_frame; try reflexivity. repeat split; auto.
  - injection H as <- <-. unfold sinv.
    cbn [s_running s_ntrials s_smap s_doneall set_smap set_running emit set_b set_bt set_ntrials set_ns].
    split; [|split].
    + rewrite aset_keys_new; [rewrite S1; symmetry; apply seq_S|]. rewrite S1, in_seq. lia.
    + intros t Ht. apply Hreg in Ht. destruct Ht as [->|Ht]; [lia|]. apply S2 in Ht. lia.
    + apply HF.
  - destruct (Nat.ltb id (s_ntrials st)) eqn:Eid.
    2:{ injection H as <- <-. eapply sinv_frame; try reflexivity. repeat split; auto. }
    apply Nat.ltb_lt in Eid.
    destruct (b_td (s_bt (emit (ESSuggest (s_ntrials st) (SResume id cfg)) (set_ns st (S (s_ns st)))) id)) eqn:Etd;
      try (injection H as <- <-; eapply sinv_frame; try reflexivity; repeat split; auto; fail).
    injection H as <- <-. unfold sinv.
    cbn [s_running s_ntrials s_smap s_doneall set_smap set_running emit set_b set_bt set_ntrials set_ns].
    split; [|split].
    + rewrite aset_keys_in; [exact S1|]. rewrite S1, in_seq. lia.
    + intros t Ht. apply Hreg in Ht. destruct Ht as [->|Ht]; [exact Eid|]. apply S2 in Ht. exact Ht.
    + apply HF.
Qed.

Lemma schedule_k_sinv k : forall st st' r, schedule_k o k st = (st', r) -> sinv st -> sinv st'.
Proof.
  induction k as [|k IH]; intros st st' r H Hs; simpl in H; [injection H as <- <-; exact Hs|].
  destruct (ckpt_missing o st) as [j|]; [injection H as <- <-; exact Hs|].
  destruct (schedule_new_task o st) as [st1 r1] eqn:E1. apply schedule_new_task_sinv in E1; [|exact Hs].
  destruct r1; [eauto| |]; injection H as <- <-; exact E1.
Qed.

Lemma schedule_new_tasks_sinv st st' r : schedule_new_tasks prm o st = (st', r) -> sinv st -> sinv st'.
Proof.
  apply (schedule_new_tasks_inv sinv).
  - intros s0 s1 [->|[busy Hb]] Hs; [exact Hs|]. apply busy_look_spec in Hb.
    destruct Hb as (R1 & R2 & _ & _ & _ & R6 & R7 & _). eapply sinv_frame; eauto.
  - intros s0 Hs. eapply sinv_frame; try reflexivity. exact Hs.
  - intros k s0 s2 r2 Hk _. eapply schedule_k_sinv; eauto.
Qed.

Lemma iteration_end_sinv st st' c : iteration_end prm o st = (st', c) -> sinv st -> sinv st'.
Proof.
  unfold iteration_end, stop_condition. intros H Hs. injection H as <- <-. eapply sinv_frame; try reflexivity. exact Hs.
Qed.

Lemma loop_sinv fuel : forall st c ex st' x,
  loop prm o fuel st c ex = (st', x) -> binv st -> sinv st -> sinv st'.
Proof.
  induction fuel as [|f IH]; intros st c ex st' x H Hb Hs.
  - rewrite loop_0 in H. injection H as <- <-. exact Hs.
  - rewrite loop_S in H. destruct (while_cond prm st c); [|injection H as <- <-; exact Hs].
    destruct (poll prm o st) as [st1 err] eqn:Ep.
    pose proof Ep as Ep'. apply poll_budget in Ep'; [|exact Hb]. destruct Ep' as (Hb1 & _ & _).
    apply poll_sinv in Ep; [|exact Hb|exact Hs].
    destruct err; [injection H as <- <-; exact Ep|].
    destruct (ex || wait_completion prm && c).
    + destruct (s_running st1) eqn:Er; [injection H as <- <-; exact Ep|].
      destruct (iteration_end prm o (sleep st1)) as [st2 c'] eqn:Ei.
      pose proof Ei as Ei'. apply iteration_end_budget in Ei'; [|apply binv_emit; exact Hb1].
      apply iteration_end_sinv in Ei; [|eapply sinv_frame; try reflexivity; exact Ep].
      eapply IH; [exact H|apply Ei'|exact Ei].
    + destruct (schedule_new_tasks prm o st1) as [st2 r] eqn:Es.
      pose proof Es as Es'. apply schedule_new_tasks_budget in Es'; [|exact Hb1]. destruct Es' as [Hb2 _].
      apply schedule_new_tasks_sinv in Es; [|exact Ep].
      destruct r.
      * destruct (iteration_end prm o st2) as [st3 c'] eqn:Ei.
        pose proof Ei as Ei'. apply iteration_end_budget in Ei'; [|exact Hb2].
        apply iteration_end_sinv in Ei; [|exact Es]. eapply IH; [exact H|apply Ei'|exact Ei].
      * destruct (iteration_end prm o st2) as [st3 c'] eqn:Ei.
        pose proof Ei as Ei'. apply iteration_end_budget in Ei'; [|exact Hb2].
        apply iteration_end_sinv in Ei; [|exact Es]. eapply IH; [exact H|apply Ei'|exact Ei].
      * injection H as <- <-. exact Es.
Qed.

Lemma run_loop_sinv fuel st x : run_loop prm o fuel = (st, x) -> sinv st.
Proof.
  unfold run_loop, stop_condition. intro H. eapply loop_sinv; [exact H| |].
  - unfold binv. simpl. repeat split; [constructor|lia|intros t Ht; lia].
  - unfold sinv. simpl. repeat split; [intros t []|discriminate].
Qed.

(* counters *)
Lemma mark_stopped_keys m : map fst (mark_stopped m) = map fst m.
Proof. unfold mark_stopped. rewrite map_map. reflexivity. Qed.
Lemma mark_stopped_not_in_progress m : num_status is_in_progress (mark_stopped m) = 0.
Proof.
  unfold num_status, mark_stopped. induction m as [|[k v] m IH]; simpl; [reflexivity|].
  destruct v; simpl; exact IH.
Qed.
Lemma mark_stopped_failed m : num_status is_failed (mark_stopped m) = num_status is_failed m.
Proof.
  unfold num_status, mark_stopped. induction m as [|[k v] m IH]; simpl; [reflexivity|].
  destruct v; simpl; rewrite IH; reflexivity.
Qed.
Lemma mark_stopped_aget m t : aget t (mark_stopped m) = Some Failed -> aget t m = Some Failed.
Proof.
  unfold mark_stopped. induction m as [|[k v] m IH]; simpl; [discriminate|].
  destruct (Nat.eqb t k); [destruct v; intro H; try discriminate; exact H|exact IH].
Qed.

Lemma num_failed_pos m : 0 < num_status is_failed m -> exists t, In (t, Failed) m.
Proof.
  unfold num_status. induction m as [|[k v] m IH]; simpl; [lia|].
  destruct v; simpl; try (intro H; destruct (IH H) as [t Ht]; exists t; auto; fail).
  intros _. exists k. auto.
Qed.

Lemma first_failed_some m t : In (t, Failed) m -> exists t', first_failed m = Some t' /\ In (t', Failed) m.
Proof.
  induction m as [|[k v] m IH]; simpl; [tauto|]. intros [H|H].
  - injection H as -> ->. exists t. auto.
  - destruct v; try (destruct (IH H) as (t' & H1 & H2); exists t'; auto; fail). exists k. auto.
Qed.
Lemma mark_stopped_in_failed m t : In (t, Failed) (mark_stopped m) -> In (t, Failed) m.
Proof.
  unfold mark_stopped. intro H. apply in_map_iff in H. destruct H as ([k v] & Hx & Hin). simpl in Hx.
  destruct v; injection Hx as <-; try discriminate. exact Hin.
Qed.

(* run = run_loop followed by the finally block *)
Lemma run_spec fuel st out :
  run prm o fuel = (st, out) -> out <> OutOfFuel ->
  exists st0 err, run_loop prm o fuel = (st0, LExit err) /\ finalize prm o st0 err = (st, out).
Proof.
  unfold run. destruct (run_loop prm o fuel) as [st0 x] eqn:E. destruct x as [err|].
  - intros H _. exists st0, err. auto.
  - intro H. injection H as <- <-. congruence.
Qed.

Lemma run_failure_limit fuel st out :
  run prm o fuel = (st, out) -> out <> OutOfFuel -> too_many_failures prm st = true ->
  exists t, out = Raised (EFailureLimit t) /\ In (t, Failed) (s_doneall st).
Proof.
  intros H Hne Ht. apply run_spec in H; [|exact Hne]. destruct H as (st0 & err & Hl & Hf).
  apply run_loop_sinv in Hl. destruct Hl as (S1 & S2 & S3).
  apply finalize_spec in Hf. destruct Hf as (_ & _ & _ & Hda & Hsm & _ & _ & _ & Hlim).
  specialize (Hlim Ht). unfold too_many_failures in Ht. apply Nat.ltb_lt in Ht. rewrite Hsm in Ht.
  destruct (num_failed_pos (mark_stopped (s_smap st0))) as [t Hin]; [lia|].
  apply mark_stopped_in_failed in Hin.
  assert (Hget : aget t (s_smap st0) = Some Failed).
  { apply In_aget_nodup; [rewrite S1; apply seq_NoDup|exact Hin]. }
  apply S3, aget_In in Hget. destruct (first_failed_some _ _ Hget) as (t' & Hff & Hin').
  rewrite Hff in Hlim. exists t'. rewrite Hda. auto.
Qed.

Lemma run_counters fuel st out :
  run prm o fuel = (st, out) -> out <> OutOfFuel ->
  map fst (s_smap st) = seq 0 (s_ntrials st) /\ num_status is_in_progress (s_smap st) = 0 /\
  (forall t, t < s_ntrials st -> w_of st t <> InProgress).
Proof.
  intros H Hne. apply run_spec in H; [|exact Hne]. destruct H as (st0 & err & Hl & Hf).
  apply run_loop_sinv in Hl. destruct Hl as (S1 & _).
  apply finalize_spec in Hf. destruct Hf as (Hw & Hn & _ & _ & Hsm & _).
  rewrite Hsm, Hn, mark_stopped_keys. split; [exact S1|]. split; [apply mark_stopped_not_in_progress|].
  intros t Ht. apply Hw. exact Ht.
Qed.

Definition count_ev (p : event -> bool) (tr : list event) : nat := length (filter p tr).
Lemma count_ev_app p a b : count_ev p (a ++ b) = count_ev p a + count_ev p b.
Proof. unfold count_ev. rewrite filter_app, app_length. reflexivity. Qed.
Lemma count_ev_none p q l : forallb q l = true -> (forall e, q e = true -> p e = false) -> count_ev p l = 0.
Proof.
  unfold count_ev. intros H Hq. rewrite forallb_forall in H. induction l as [|e l IH]; simpl; [reflexivity|].
  rewrite (Hq e) by (apply H; left; reflexivity). apply IH. intros x Hx. apply H. right. exact Hx.
Qed.

Definition is_tuning_end (e : event) : bool := match e with ECbTuningEnd => true | _ => false end.
Definition is_stop_all (e : event) : bool := match e with EBStopAll => true | _ => false end.

Lemma run_finally_once fuel st out :
  run prm o fuel = (st, out) -> out <> OutOfFuel ->
  count_ev is_tuning_end (s_trace st) = 1 /\ count_ev is_stop_all (s_trace st) = 1 /\
  exists stops st0 err, run_loop prm o fuel = (st0, LExit err) /\
    s_trace st = stops ++ EBStopAll :: ECbTuningEnd :: s_trace st0 /\
    forallb (fun e => match e with EBStop _ => true | _ => false end) stops = true.
Proof.
  intros H Hne. apply run_spec in H; [|exact Hne]. destruct H as (st0 & err & Hl & Hf).
  pose proof (run_loop_events _ _ _ Hl) as Hev.
  apply finalize_spec in Hf. destruct Hf as (_ & _ & _ & _ & _ & (stops & Htr & Hst) & _).
  rewrite Htr. repeat split.
  - rewrite count_ev_app. change (EBStopAll :: ECbTuningEnd :: s_trace st0) with ([EBStopAll; ECbTuningEnd] ++ s_trace st0).
    rewrite count_ev_app.
    rewrite (count_ev_none _ _ _ Hst) by (intros e He; destruct e; simpl in *; congruence).
    rewrite (count_ev_none _ _ _ Hev) by (intros e He; destruct e; simpl in *; congruence). reflexivity.
  - rewrite count_ev_app. change (EBStopAll :: ECbTuningEnd :: s_trace st0) with ([EBStopAll; ECbTuningEnd] ++ s_trace st0).
    rewrite count_ev_app.
    rewrite (count_ev_none _ _ _ Hst) by (intros e He; destruct e; simpl in *; congruence).
    rewrite (count_ev_none _ _ _ Hev) by (intros e He; destruct e; simpl in *; congruence). reflexivity.
  - exists stops, st0, err. auto.
Qed.

(* ======================================================================== *)
(*  Part 7: a Hoare-style rule for the loop                                    *)
(* ======================================================================== *)
Lemma loop_rule (Ihead Imid : state -> bool -> Prop) (Final : state -> Prop) :
  (forall st c, Ihead st c -> Final st) ->
  (forall st c st' err, Ihead st c -> while_cond prm st c = true -> poll prm o st = (st', err) ->
     (err = None -> Imid st' c) /\ (err <> None -> Final st')) ->
  (forall st c, Imid st c -> Final st) ->
  (forall st c ex st' c', Imid st c -> ex || wait_completion prm && c = true -> s_running st <> [] ->
     iteration_end prm o (sleep st) = (st', c') -> Ihead st' c') ->
  (forall st c ex st2 r, Imid st c -> ex || wait_completion prm && c = false ->
     schedule_new_tasks prm o st = (st2, r) ->
     match r with
     | SErr _ => Final st2
     | _ => forall st3 c', iteration_end prm o st2 = (st3, c') -> Ihead st3 c'
     end) ->
  forall fuel st c ex st' x, loop prm o fuel st c ex = (st', x) -> Ihead st c -> Final st'.
Proof.
  intros Hfin Hpoll Hmid Hwait Hsched. induction fuel as [|f IH]; intros st c ex st' x H Hi.
  - rewrite loop_0 in H. injection H as <- <-. eapply Hfin; eauto.
  - rewrite loop_S in H. destruct (while_cond prm st c) eqn:Ew; [|injection H as <- <-; eapply Hfin; eauto].
    destruct (poll prm o st) as [st1 err] eqn:Ep.
    destruct (Hpoll _ _ _ _ Hi Ew Ep) as [Hp1 Hp2].
    destruct err as [e|]; [injection H as <- <-; apply Hp2; discriminate|].
    specialize (Hp1 eq_refl).
    destruct (ex || wait_completion prm && c) eqn:Eb.
    + destruct (s_running st1) eqn:Er; [injection H as <- <-; eapply Hmid; eauto|].
      destruct (iteration_end prm o (sleep st1)) as [st2 c'] eqn:Ei.
      eapply IH; [exact H|]. eapply Hwait; eauto. rewrite Er. discriminate.
    + destruct (schedule_new_tasks prm o st1) as [st2 r] eqn:Es.
      pose proof (Hsched _ _ _ _ _ Hp1 Eb Es) as Hs.
      destruct r.
      * destruct (iteration_end prm o st2) as [st3 c'] eqn:Ei. eapply IH; [exact H|]. apply Hs. reflexivity.
      * destruct (iteration_end prm o st2) as [st3 c'] eqn:Ei. eapply IH; [exact H|]. apply Hs. reflexivity.
      * injection H as <- <-. exact Hs.
Qed.

Lemma while_cond_true_c st : while_cond prm st true = true -> wait_completion prm = true.
Proof. unfold while_cond. simpl. destruct (wait_completion prm); [reflexivity|discriminate]. Qed.

Lemma stop_condition_false st st' :
  stop_condition prm o st = (st', false) -> criterion prm st (o_clk o (s_nc st)) = false.
Proof.
  unfold stop_condition. intro H. injection H as _ H. apply orb_false_iff in H. destruct H as [H _].
  apply orb_false_iff in H. tauto.
Qed.

(* ======================================================================== *)
(*  Part 8: overshoot of trial-count budgets (C12)                             *)
(* ======================================================================== *)
Lemma num_status_aset p k v m : num_status p (aset k v m) <= S (num_status p m).
Proof.
  unfold num_status. induction m as [|[k' v'] m IH]; simpl.
  - destruct (p v); simpl; lia.
  - destruct (Nat.eqb k k'); simpl.
    + destruct (p v); destruct (p v'); simpl; lia.
    + destruct (p v'); simpl; lia.
Qed.
Lemma num_status_aset_false p k v m : p v = false -> num_status p (aset k v m) <= num_status p m.
Proof.
  intro Hv. unfold num_status. induction m as [|[k' v'] m IH]; simpl.
  - rewrite Hv. simpl. lia.
  - destruct (Nat.eqb k k'); simpl.
    + rewrite Hv. destruct (p v'); simpl; lia.
    + destruct (p v'); simpl; lia.
Qed.
Lemma num_status_aupdate p u : forall m, num_status p (aupdate m u) <= num_status p m + length u.
Proof.
  unfold aupdate. induction u as [|[k v] u IH]; intro m; simpl; [lia|].
  specialize (IH (aset k v m)). pose proof (num_status_aset p k v m). lia.
Qed.

Lemma pnr_err_smap st st' done e :
  process_new_results prm o st = (st', done, Some e) -> s_smap st' = s_smap st.
Proof.
  unfold process_new_results.
  set (order := poll_order (s_running st) (o_ord o (s_np st))).
  set (st0 := emit (EBFetch order) (set_np st (S (s_np st)))).
  destruct (fetch o order st0) as [[st1' sd] rs] eqn:Ef.
  apply fetch_spec in Ef. destruct Ef as (A & _).
  set (st1'' := emit (ECbFetch sd (map (fun r => (fst (fst r), snd (fst r))) rs)) st1').
  destruct (Nat.ltb (n_workers prm) (length (s_running st1''))).
  { intro E. injection E as <- _ _. unfold st1''. cbn [s_smap emit]. destruct A as (_ & _ & _ & _ & _ & -> & _). reflexivity. }
  destruct (loop1 o sd rs st1'' []) as [st2 done2] eqn:E1.
  apply loop1_budget in E1. destruct E1 as (C1 & _).
  destruct (loop2 sd st2 done2) as [[st3 done3] err3] eqn:E2. unfold loop2 in E2.
  apply (loop2_budget sd) in E2. destruct E2 as (C2 & _).
  destruct err3; [|discriminate]. intro E. injection E as <- _ _.
  destruct C2 as (_ & _ & -> & _). destruct C1 as (_ & _ & -> & _).
  unfold st1''. cbn [s_smap emit]. destruct A as (_ & _ & _ & _ & _ & -> & _). reflexivity.
Qed.

Lemma poll_count p st st' err :
  poll prm o st = (st', err) -> binv st ->
  num_status p (s_smap st') <= num_status p (s_smap st) + n_workers prm.
Proof.
  unfold poll. destruct (process_new_results prm o (emit ECbLoopStart st)) as [[st1 done] err1] eqn:E.
  intros H Hb. destruct err1 as [e|]; injection H as <- <-.
  - apply pnr_err_smap in E. rewrite E. simpl. lia.
  - apply pnr_smap in E. destruct E as (sd & Hk & Hsm & Hkeys & _). simpl in Hk, Hsm.
    cbn [s_smap set_running set_doneall]. rewrite Hsm.
    pose proof (num_status_aupdate p (aupdate sd done) (s_smap st)) as Hn.
    assert (Hlen : length (aupdate sd done) <= n_workers prm).
    { rewrite <- (map_length fst), (aupdate_sd_done_keys _ _ Hkeys), Hk.
      assert (Hl : length (poll_order (s_running st) (o_ord o (s_np st))) <= length (s_running st)).
      { apply NoDup_incl_length; [apply poll_order_NoDup; apply Hb|]. intros x Hx. eapply poll_order_incl; eauto. }
      destruct Hb as (_ & I2 & _). lia. }
    lia.
Qed.

Lemma schedule_new_task_count p st st' r :
  p InProgress = false -> schedule_new_task o st = (st', r) ->
  num_status p (s_smap st') <= num_status p (s_smap st) /\ s_ntrials st' <= S (s_ntrials st).
Proof.
  intro Hp. unfold schedule_new_task. destruct (o_sug o (s_ns st)) as [|cfg ck|id cfg].
  - intro H; injection H as <- <-. simpl. lia.
  - intro H; injection H as <- <-. cbn [s_smap s_ntrials set_smap set_running emit set_b set_bt set_ntrials set_ns].
    split; [apply num_status_aset_false; exact Hp|lia].
  - destruct (Nat.ltb id (s_ntrials st)); [|intro H; injection H as <- <-; simpl; lia].
    destruct (b_td _); intro H; injection H as <- <-; try (simpl; lia).
    cbn [s_smap s_ntrials set_smap set_running emit set_b set_bt set_ntrials set_ns].
    split; [apply num_status_aset_false; exact Hp|lia].
Qed.
Lemma schedule_k_count p k : forall st st' r,
  p InProgress = false -> schedule_k o k st = (st', r) ->
  num_status p (s_smap st') <= num_status p (s_smap st) /\ s_ntrials st' <= s_ntrials st + k.
Proof.
  induction k as [|k IH]; intros st st' r Hp H; simpl in H; [injection H as <- <-; lia|].
  destruct (ckpt_missing o st) as [j|]; [injection H as <- <-; simpl; lia|].
  destruct (schedule_new_task o st) as [st1 r1] eqn:E1. apply (schedule_new_task_count p) in E1; [|exact Hp].
  destruct r1; [apply IH in H; [lia|exact Hp]| |]; injection H as <- <-; lia.
Qed.
Lemma schedule_new_tasks_count p st st' r :
  p InProgress = false -> schedule_new_tasks prm o st = (st', r) ->
  num_status p (s_smap st') <= num_status p (s_smap st) /\ s_ntrials st' <= s_ntrials st + n_workers prm.
Proof.
  intros Hp H. apply schedule_new_tasks_cases in H. destruct H as (st1 & Hbl & Hc).
  assert (E1 : s_smap st1 = s_smap st /\ s_ntrials st1 = s_ntrials st).
  { destruct Hbl as [->|[busy Hb]]; [auto|]. apply busy_look_spec in Hb. tauto. }
  destruct E1 as [E1 E2]. destruct Hc as [[-> ->]|(k & Hlen & Hk)].
  - simpl. rewrite E1, E2. lia.
  - apply (schedule_k_count p) in Hk; [|exact Hp]. rewrite E1, E2 in Hk. lia.
Qed.

(* a criterion that is False bounds every count it names *)
Lemma criterion_false_counts st now :
  criterion prm st now = false ->
  zgt (length (s_smap st)) (c_started prm) = false /\
  zgt (num_status is_completed (s_smap st)) (c_completed prm) = false /\
  zgt (num_status is_finished (s_smap st)) (c_finished prm) = false /\
  match c_evals prm with Some v => Z.ltb v (s_count st) = false | None => True end.
Proof.
  unfold criterion. intro H. repeat (apply orb_false_iff in H; destruct H as [H ?]).
  repeat split; auto. destruct (c_evals prm); auto.
Qed.
Lemma zgt_false x b : zgt x (Some b) = false -> (Z.of_nat x <= b)%Z.
Proof. unfold zgt. intro H. apply Z.ltb_ge in H. exact H. Qed.

Lemma iteration_end_false st st' :
  iteration_end prm o st = (st', false) ->
  criterion prm st (o_clk o (s_nc st)) = false /\ s_smap st' = s_smap st /\ s_ntrials st' = s_ntrials st /\ s_count st' = s_count st.
Proof.
  unfold iteration_end. intro H. pose proof H as H'. apply stop_condition_false in H'.
  unfold stop_condition in H. injection H as <- _. simpl in *. auto.
Qed.
Lemma iteration_end_frame st st' c :
  iteration_end prm o st = (st', c) -> s_smap st' = s_smap st /\ s_ntrials st' = s_ntrials st /\ s_count st' = s_count st.
Proof. unfold iteration_end, stop_condition. intro H. injection H as <- _. simpl. auto. Qed.

Lemma poll_ntrials st st' err : poll prm o st = (st', err) -> s_ntrials st' = s_ntrials st.
Proof.
  unfold poll. destruct (process_new_results prm o (emit ECbLoopStart st)) as [[st1 done] err1] eqn:E.
  apply pnr_budget in E. destruct E as (_ & R2 & _). simpl in R2.
  destruct err1; intro H; injection H as <- <-; simpl; exact R2.
Qed.

(* max_num_trials_started: both settings of wait_trial_completion_when_stopping *)
Lemma overshoot_started b fuel st x :
  c_started prm = Some b -> (0 <= b)%Z -> run_loop prm o fuel = (st, x) ->
  (Z.of_nat (length (s_smap st)) <= b + Z.of_nat (n_workers prm))%Z.
Proof.
  intros Hb Hb0 H.
  set (N := fun s : state => Z.of_nat (s_ntrials s)).
  set (lim := (b + Z.of_nat (n_workers prm))%Z).
  assert (G : binv st /\ sinv st /\ (N st <= lim)%Z).
  { unfold run_loop in H. destruct (stop_condition prm o (emit ECbTuningStart init_state)) as [st0 c0] eqn:E0.
    eapply (loop_rule
      (fun s c => binv s /\ sinv s /\ (N s <= lim)%Z /\ (c = false -> (N s <= b)%Z))
      (fun s c => binv s /\ sinv s /\ (N s <= lim)%Z /\ (c = false -> (N s <= b)%Z) /\ (c = true -> wait_completion prm = true))
      (fun s => binv s /\ sinv s /\ (N s <= lim)%Z)); [| | | | |exact H|].
    - intros s c (A & B & C & _). auto.
    - intros s c s' err (A & B & C & D) Ew Ep.
      pose proof (poll_ntrials _ _ _ Ep) as Hn. pose proof (poll_sinv _ _ _ Ep A B) as Hs.
      apply poll_budget in Ep; [|exact A]. destruct Ep as (Hb1 & _).
      assert (HN : N s' = N s) by (unfold N; rewrite Hn; reflexivity).
      split.
      + intros _. split; [exact Hb1|]. split; [exact Hs|]. split; [rewrite HN; exact C|].
        split; [intro Hc; rewrite HN; auto|]. intros ->. eapply while_cond_true_c; eauto.
      + intros _. split; [exact Hb1|]. split; [exact Hs|]. rewrite HN; exact C.
    - intros s c (A & B & C & _). auto.
    - intros s c ex s' c' (A & B & C & D & E) _ _ Ei.
      pose proof (iteration_end_frame _ _ _ Ei) as (F1 & F2 & _).
      assert (HN : N s' = N s) by (unfold N; rewrite F2; reflexivity).
      split; [eapply iteration_end_budget; [exact Ei|apply binv_emit; exact A]|].
      split; [eapply iteration_end_sinv; [exact Ei|eapply sinv_frame; try reflexivity; exact B]|].
      split; [rewrite HN; exact C|]. intros ->.
      apply iteration_end_false in Ei. destruct Ei as (Hc & _).
      apply criterion_false_counts in Hc. destruct Hc as (Hc & _). rewrite Hb in Hc. apply zgt_false in Hc.
      simpl in Hc. destruct B as (S1 & _). rewrite <- (map_length fst), S1, seq_length in Hc. unfold N. rewrite F2. exact Hc.
    - intros s c ex s2 r (A & B & C & D & E) Eb Es.
      assert (Hc : c = false).
      { destruct c; [|reflexivity]. rewrite (E eq_refl) in Eb. rewrite orb_true_r in Eb. discriminate. }
      pose proof (schedule_new_tasks_count is_completed _ _ _ eq_refl Es) as (_ & Hn).
      pose proof (schedule_new_tasks_sinv _ _ _ Es B) as Hs2.
      pose proof (schedule_new_tasks_budget _ _ _ Es A) as (Hb2 & _).
      assert (HN2 : (N s2 <= lim)%Z) by (unfold N, lim in *; specialize (D Hc); lia).
      destruct r; [| |auto].
      + intros s3 c' Ei. pose proof (iteration_end_frame _ _ _ Ei) as (F1 & F2 & _).
        split; [eapply iteration_end_budget; eauto|]. split; [eapply iteration_end_sinv; eauto|].
        unfold N. rewrite F2. split; [exact HN2|]. intros ->.
        apply iteration_end_false in Ei. destruct Ei as (Hcr & _).
        apply criterion_false_counts in Hcr. destruct Hcr as (Hcr & _). rewrite Hb in Hcr. apply zgt_false in Hcr.
        destruct Hs2 as (S1 & _). rewrite <- (map_length fst), S1, seq_length in Hcr. exact Hcr.
      + intros s3 c' Ei. pose proof (iteration_end_frame _ _ _ Ei) as (F1 & F2 & _).
        split; [eapply iteration_end_budget; eauto|]. split; [eapply iteration_end_sinv; eauto|].
        unfold N. rewrite F2. split; [exact HN2|]. intros ->.
        apply iteration_end_false in Ei. destruct Ei as (Hcr & _).
        apply criterion_false_counts in Hcr. destruct Hcr as (Hcr & _). rewrite Hb in Hcr. apply zgt_false in Hcr.
        destruct Hs2 as (S1 & _). rewrite <- (map_length fst), S1, seq_length in Hcr. exact Hcr.
    - unfold stop_condition in E0. injection E0 as <- _.
      assert (N0 : N (emit (EStopCond (criterion prm (emit ECbTuningStart init_state) (o_clk o 0) || o_ext o 0)
                  (criterion prm (emit ECbTuningStart init_state) (o_clk o 0) || o_ext o 0 || too_many_failures prm (emit ECbTuningStart init_state)))
                  (set_nc (emit ECbTuningStart init_state) 1)) = 0%Z) by reflexivity.
      split; [unfold binv; simpl; repeat split; [constructor|lia|intros t Ht; lia]|].
      split; [unfold sinv; simpl; repeat split; [intros t []|discriminate]|].
      rewrite N0. unfold lim. split; lia. }
  destruct G as (_ & (S1 & _) & HN). unfold N in HN. rewrite <- (map_length fst), S1, seq_length. exact HN.
Qed.

(* max_num_trials_completed / max_num_trials_finished with wait_trial_completion_when_stopping=False *)
Lemma overshoot_count (p : status -> bool) (budget : option Z) b fuel st x :
  p InProgress = false -> wait_completion prm = false -> budget = Some b -> (0 <= b)%Z ->
  (forall s now, criterion prm s now = false -> zgt (num_status p (s_smap s)) budget = false) ->
  run_loop prm o fuel = (st, x) ->
  (Z.of_nat (num_status p (s_smap st)) <= b + Z.of_nat (n_workers prm))%Z.
Proof.
  intros Hp Hw Hbud Hb0 Hcrit H.
  set (N := fun s : state => Z.of_nat (num_status p (s_smap s))).
  set (lim := (b + Z.of_nat (n_workers prm))%Z).
  assert (G : binv st /\ (N st <= lim)%Z); [|apply G].
  unfold run_loop in H. destruct (stop_condition prm o (emit ECbTuningStart init_state)) as [st0 c0] eqn:E0.
  assert (Hend : forall s s' c', iteration_end prm o s = (s', c') -> c' = false -> (N s' <= b)%Z).
  { intros s s' c' Ei ->. apply iteration_end_false in Ei. destruct Ei as (Hc & Hsm & _).
    apply Hcrit in Hc. rewrite Hbud in Hc. apply zgt_false in Hc. unfold N. rewrite Hsm. exact Hc. }
  eapply (loop_rule
    (fun s c => binv s /\ (N s <= lim)%Z /\ (c = false -> (N s <= b)%Z))
    (fun s c => binv s /\ (N s <= lim)%Z /\ c = false)
    (fun s => binv s /\ (N s <= lim)%Z)); [| | | | |exact H|].
  - intros s c (A & C & _). auto.
  - intros s c s' err (A & C & D) Ew Ep.
    assert (Hc : c = false).
    { destruct c; [|reflexivity]. apply while_cond_true_c in Ew. congruence. }
    pose proof (poll_count p _ _ _ Ep A) as Hcnt.
    apply poll_budget in Ep; [|exact A]. destruct Ep as (Hb1 & _).
    assert (HN : (N s' <= lim)%Z) by (unfold N, lim in *; specialize (D Hc); lia).
    split; intros _; auto.
  - intros s c (A & C & _). auto.
  - intros s c ex s' c' (A & C & D) _ _ Ei.
    pose proof (iteration_end_frame _ _ _ Ei) as (F1 & _).
    split; [eapply iteration_end_budget; [exact Ei|apply binv_emit; exact A]|].
    split; [unfold N; rewrite F1; exact C|]. apply (Hend _ _ _ Ei).
  - intros s c ex s2 r (A & C & D) Eb Es.
    pose proof (schedule_new_tasks_count p _ _ _ Hp Es) as (Hn & _).
    pose proof (schedule_new_tasks_budget _ _ _ Es A) as (Hb2 & _).
    assert (HN2 : (N s2 <= lim)%Z) by (unfold N in *; lia).
    destruct r; [| |auto].
    + intros s3 c' Ei. pose proof (iteration_end_frame _ _ _ Ei) as (F1 & _).
      split; [eapply iteration_end_budget; eauto|]. split; [unfold N; rewrite F1; exact HN2|]. apply (Hend _ _ _ Ei).
    + intros s3 c' Ei. pose proof (iteration_end_frame _ _ _ Ei) as (F1 & _).
      split; [eapply iteration_end_budget; eauto|]. split; [unfold N; rewrite F1; exact HN2|]. apply (Hend _ _ _ Ei).
  - unfold stop_condition in E0. injection E0 as <- _.
    split; [unfold binv; simpl; repeat split; [constructor|lia|intros t Ht; lia]|].
    unfold N, lim. simpl. split; lia.
Qed.

(* evaluations: what can be proved is "budget + results returned by the last poll" *)
Lemma stats_add_count st r : s_count (stats_add st r) = (s_count st + 1)%Z.
Proof. unfold stats_add. destruct r as [[t i] rep]. reflexivity. Qed.

Lemma evals_bound_at_false_end st st' v :
  c_evals prm = Some v -> iteration_end prm o st = (st', false) -> (s_count st' <= v)%Z.
Proof.
  intros Hv Ei. apply iteration_end_false in Ei. destruct Ei as (Hc & _ & _ & Hcnt).
  apply criterion_false_counts in Hc. destruct Hc as (_ & _ & _ & Hc). rewrite Hv in Hc.
  apply Z.ltb_ge in Hc. rewrite Hcnt. exact Hc.
Qed.

(* ======================================================================== *)
(*  Part 9: trial ids (C01)                                                    *)
(* ======================================================================== *)
Definition is_start (e : event) : bool := match e with EBStart _ _ _ => true | _ => false end.
Definition count_starts (tr : list event) : nat := count_ev is_start tr.
(* every start_trial returns the number of earlier starts; suggest is asked for that id *)
Fixpoint ids_ok (tr : list event) : Prop :=
  match tr with
  | [] => True
  | e :: tr' => ids_ok tr' /\
      match e with
      | EBStart t _ _ => t = count_starts tr'
      | ESSuggest n _ => n = count_starts tr'
      | _ => True
      end
  end.
Definition id_free (e : event) : bool := match e with EBStart _ _ _ | ESSuggest _ _ => false | _ => true end.

Lemma ids_ok_app new tr : forallb id_free new = true -> ids_ok tr ->
  ids_ok (new ++ tr) /\ count_starts (new ++ tr) = count_starts tr.
Proof.
  induction new as [|e new IH]; simpl; [auto|]. rewrite andb_true_iff. intros [H1 H2] Hok.
  destruct (IH H2 Hok) as [A B]. split.
  - split; [exact A|]. destruct e; auto; discriminate.
  - unfold count_starts, count_ev in *. simpl. destruct e; simpl; auto; discriminate.
Qed.

Definition idinv (st : state) : Prop := ids_ok (s_trace st) /\ s_ntrials st = count_starts (s_trace st).

Lemma idinv_ext Q st st' : (forall e, Q e = true -> id_free e = true) -> ext Q st st' ->
  s_ntrials st' = s_ntrials st -> idinv st -> idinv st'.
Proof.
  intros HQ (new & Ht & F) Hn [A B]. unfold idinv. rewrite Ht, Hn.
  assert (F' : forallb id_free new = true).
  { rewrite forallb_forall in *. auto. }
  destruct (ids_ok_app new _ F' A) as [A' B']. split; [exact A'|congruence].
Qed.

Lemma schedule_new_task_idinv st st' r : schedule_new_task o st = (st', r) -> idinv st -> idinv st'.
Proof.
  unfold schedule_new_task, idinv. intros H [A B].
  destruct (o_sug o (s_ns st)) as [|cfg ck|id cfg].
  - injection H as <- <-. simpl. auto.
  - injection H as <- <-. simpl. unfold count_starts, count_ev in *. simpl. rewrite <- B. repeat split; auto.
  - destruct (Nat.ltb id (s_ntrials st)); [|injection H as <- <-; simpl; auto].
    destruct (b_td _); injection H as <- <-; simpl; auto.
Qed.
Lemma schedule_k_idinv k : forall st st' r, schedule_k o k st = (st', r) -> idinv st -> idinv st'.
Proof.
  induction k as [|k IH]; intros st st' r H Hi; simpl in H; [injection H as <- <-; exact Hi|].
  destruct (ckpt_missing o st) as [j|].
  { injection H as <- <-. destruct Hi as [A B]. unfold idinv, failed_start. simpl. auto. }
  destruct (schedule_new_task o st) as [st1 r1] eqn:E1. apply schedule_new_task_idinv in E1; [|exact Hi].
  destruct r1; [eauto| |]; injection H as <- <-; exact E1.
Qed.
Lemma schedule_new_tasks_idinv st st' r : schedule_new_tasks prm o st = (st', r) -> idinv st -> idinv st'.
Proof.
  apply (schedule_new_tasks_inv idinv).
  - intros s0 s1 [->|[busy Hb]] Hi; [exact Hi|]. apply busy_look_spec in Hb. destruct Hb as (_ & R2 & Ht & _).
    destruct Hi as [A B]. unfold idinv. rewrite Ht, R2. simpl. unfold count_starts, count_ev in *. simpl. auto.
  - intros s0 [A B]. unfold idinv. simpl. auto.
  - intros k s0 s2 r2 Hk _. eapply schedule_k_idinv; eauto.
Qed.

Lemma poll_ev_id_free e : poll_ev e = true -> id_free e = true.
Proof. destruct e; simpl; auto; discriminate. Qed.

Lemma run_loop_idinv fuel st x : run_loop prm o fuel = (st, x) -> idinv st.
Proof.
  unfold run_loop. destruct (stop_condition prm o (emit ECbTuningStart init_state)) as [st0 c0] eqn:E0. intro H.
  assert (Hend : forall s s' c', iteration_end prm o s = (s', c') -> idinv s -> idinv s').
  { intros s s' c' Ei [A B]. unfold iteration_end, stop_condition in Ei. injection Ei as <- _. unfold idinv. simpl. auto. }
  eapply (loop_rule (fun s _ => idinv s) (fun s _ => idinv s) idinv); [| | | | |exact H|].
  - auto.
  - intros s c s' err Hi _ Ep. pose proof (poll_ntrials _ _ _ Ep) as Hn. apply poll_ext in Ep.
    assert (Hi' : idinv s') by (eapply idinv_ext; [apply poll_ev_id_free|exact Ep|exact Hn|exact Hi]). auto.
  - auto.
  - intros s c ex s' c' Hi _ _ Ei. apply (Hend _ _ _ Ei). destruct Hi as [A B]. unfold idinv. simpl. auto.
  - intros s c ex s2 r Hi _ Es. apply schedule_new_tasks_idinv in Es; [|exact Hi].
    destruct r; auto; intros s3 c' Ei; apply (Hend _ _ _ Ei Es).
  - unfold stop_condition in E0. injection E0 as <- _. unfold idinv. simpl. auto.
Qed.

(* ======================================================================== *)
(*  Part 10: trial life cycle and scheduler notifications (C01)                *)
(* ======================================================================== *)
(* events of the trace that concern trial [t], seen from scheduler and backend *)
Inductive tev := TStart | TAdd | TRes (d : decision) | TStop | TPause | TRemove | TComplete | TError | TResume.
Definition tev_of (t : nat) (e : event) : option tev :=
  match e with
  | EBStart t' _ _ => if Nat.eqb t' t then Some TStart else None
  | ESAdd t' => if Nat.eqb t' t then Some TAdd else None
  | ESResult t' _ d => if Nat.eqb t' t then Some (TRes d) else None
  | EBStop t' => if Nat.eqb t' t then Some TStop else None
  | EBPause t' => if Nat.eqb t' t then Some TPause else None
  | ESRemove t' => if Nat.eqb t' t then Some TRemove else None
  | ESComplete t' _ => if Nat.eqb t' t then Some TComplete else None
  | ESError t' => if Nat.eqb t' t then Some TError else None
  | EBResume t' _ => if Nat.eqb t' t then Some TResume else None
  | _ => None
  end.
(* PN not started, PA started (on_trial_add pending), PR running/reporting, PS1 STOP decided,
   PS2 backend stopped, PP1 PAUSE decided, PP2 backend paused, PZ paused, PE ended, PBad illegal *)
Inductive phase := PN | PA | PR | PS1 | PS2 | PP1 | PP2 | PZ | PE | PBad.
Definition pstep (p : phase) (x : tev) : phase :=
  match p, x with
  | PN, TStart => PA
  | PA, TAdd => PR
  | PR, TRes CONTINUE => PR
  | PR, TRes STOP => PS1
  | PR, TRes PAUSE => PP1
  | PS1, TStop => PS2
  | PS1, TRemove => PE          (* STOP on a trial the poll showed as Completed: no backend call *)
  | PS2, TRemove => PE
  | PP1, TPause => PP2
  | PP2, TRemove => PZ
  | PR, TComplete => PE
  | PR, TError => PE
  | PZ, TResume => PR
  | _, _ => PBad
  end.
(* [tr] newest first *)
Fixpoint phase_of (t : nat) (tr : list event) : phase :=
  match tr with
  | [] => PN
  | e :: tr' => match tev_of t e with Some x => pstep (phase_of t tr') x | None => phase_of t tr' end
  end.

Lemma phase_of_app_none t new tr :
  (forall e, In e new -> tev_of t e = None) -> phase_of t (new ++ tr) = phase_of t tr.
Proof.
  induction new as [|e new IH]; simpl; [reflexivity|]. intro H.
  rewrite (H e) by (left; reflexivity). apply IH. intros e' He'. apply H. right. exact He'.
Qed.

Definition LI (st : state) : Prop :=
  (forall t, phase_of t (s_trace st) <> PBad) /\
  (forall t, s_ntrials st <= t -> phase_of t (s_trace st) = PN) /\
  (forall t, td_of st t = Paused \/ w_of st t = Paused -> phase_of t (s_trace st) = PZ).

(* trials of [ks] not yet in done_trials are running/reporting *)
Definition PRok (st : state) (ks : list nat) (done : list (nat * status)) : Prop :=
  forall t, In t ks -> amem t done = false -> phase_of t (s_trace st) = PR.

Lemma fetch_LI order st st' sd rs :
  fetch o order st = (st', sd, rs) -> LI st -> LI st' /\ (forall t, phase_of t (s_trace st') = phase_of t (s_trace st)).
Proof.
  intros H (L1 & L3 & L4). apply fetch_spec in H.
  destruct H as (A & _ & _ & Htd & Htd' & Hp & _).
  destruct A as (_ & Hn & Htr & _).
  split; [|intro t; rewrite Htr; reflexivity].
  unfold LI. rewrite Htr, Hn. split; [exact L1|]. split; [exact L3|].
  intros t [H|H].
  - destruct (in_dec Nat.eq_dec t order) as [Hi|Hni].
    + rewrite (Htd t Hi) in H. apply L4. right. apply Hp. exact H.
    + rewrite (Htd' t Hni) in H. apply L4. left. exact H.
  - apply L4. right. apply Hp. exact H.
Qed.

(* a group of events about one trial [t] that was not in phase PN *)
Lemma LI_step st st' t new p0 p' :
  s_trace st' = new ++ s_trace st ->
  (forall x, x <> t -> forall e, In e new -> tev_of x e = None) ->
  phase_of t (s_trace st) = p0 -> p0 <> PN ->
  phase_of t (s_trace st') = p' -> p' <> PBad ->
  s_ntrials st' = s_ntrials st ->
  (forall x, x <> t -> td_of st' x = td_of st x /\ w_of st' x = w_of st x) ->
  (td_of st' t = Paused \/ w_of st' t = Paused -> p' = PZ) ->
  LI st -> LI st' /\ (forall x, x <> t -> phase_of x (s_trace st') = phase_of x (s_trace st)).
Proof.
  intros Htr Hnone Hp0 Hp0n Hp' Hp'n Hn Hbt Hz (L1 & L3 & L4).
  assert (Hother : forall x, x <> t -> phase_of x (s_trace st') = phase_of x (s_trace st)).
  { intros x Hx. rewrite Htr. apply phase_of_app_none. intros e He. apply (Hnone x Hx e He). }
  split; [|exact Hother]. unfold LI. split; [|split].
  - intro x. destruct (Nat.eq_dec x t) as [->|Hx]; [rewrite Hp'; exact Hp'n|rewrite Hother by exact Hx; apply L1].
  - intros x Hx. rewrite Hn in Hx. destruct (Nat.eq_dec x t) as [->|Hxt].
    + exfalso. apply Hp0n. rewrite <- Hp0. apply L3. exact Hx.
    + rewrite Hother by exact Hxt. apply L3. exact Hx.
  - intros x Hx. destruct (Nat.eq_dec x t) as [->|Hxt].
    + rewrite Hp'. apply Hz. exact Hx.
    + rewrite Hother by exact Hxt. apply L4. destruct (Hbt x Hxt) as [E1 E2]. rewrite E1, E2 in Hx. exact Hx.
Qed.

Lemma result_step_life sd ks st done r st' done' :
  result_step o sd (st, done) r = (st', done') -> In (fst (fst r)) ks ->
  LI st -> PRok st ks done -> LI st' /\ PRok st' ks done'.
Proof.
  unfold result_step. destruct r as [[t idx] rep]. cbn [fst]. destruct (amem t done) eqn:Em.
  { intro H; injection H as <- <-. auto. }
  destruct (notify_result o sd t idx st) as [[st1 s] d] eqn:En. intros Ha Ht HLI HPR.
  apply notify_result_spec in En. destruct En as (_ & _ & Hc1 & Hbt1 & Htr1 & _).
  apply apply_decision_spec in Ha. destruct Ha as (Hc2 & _ & Ha).
  assert (Hpt : phase_of t (s_trace st) = PR) by (apply HPR; auto).
  assert (Hnt : s_ntrials st1 = s_ntrials st) by (apply Hc1).
  assert (Hnt2 : s_ntrials st' = s_ntrials st1) by (apply Hc2).
  assert (Hneq : forall x, x <> t -> Nat.eqb t x = false) by (intros x Hx; apply Nat.eqb_neq; congruence).
  assert (Hpaused : td_of st t = Paused \/ w_of st t = Paused -> False).
  { intro H. destruct HLI as (_ & _ & L4). apply L4 in H. congruence. }
  assert (HPRupd : forall (stx : state) dn, LI stx ->
            (forall x, x <> t -> phase_of x (s_trace stx) = phase_of x (s_trace st)) ->
            (amem t dn = false -> phase_of t (s_trace stx) = PR) ->
            (forall x, amem x dn = false -> amem x done = false) -> LI stx /\ PRok stx ks dn).
  { intros stx dn HL Ho Htt Hdn. split; [exact HL|]. intros x Hx Hxm.
    destruct (Nat.eq_dec x t) as [->|Hxt]; [auto|]. rewrite Ho by exact Hxt. apply HPR; auto. }
  destruct d.
  - (* CONTINUE *) destruct Ha as [-> ->].
    destruct (LI_step st st1 t [ECbResult t s idx CONTINUE; ESResult t idx CONTINUE] PR PR) as [HL Ho]; auto; try discriminate.
    + intros x Hx e [<-|[<-|[]]]; simpl; rewrite ?(Hneq x Hx); reflexivity.
    + rewrite Htr1. simpl. rewrite Nat.eqb_refl, Hpt. reflexivity.
    + intros x _. rewrite Hbt1. auto.
    + rewrite Hbt1. intro H. exfalso. auto.
    + apply HPRupd; auto. intros _. rewrite Htr1. simpl. rewrite Nat.eqb_refl, Hpt. reflexivity.
  - (* PAUSE *) destruct Ha as (-> & _ & Htr2 & Hw2 & Htd2).
    destruct (LI_step st st' t [ESRemove t; EBPause t; ECbResult t s idx PAUSE; ESResult t idx PAUSE] PR PZ) as [HL Ho]; auto; try discriminate.
    + rewrite Htr2, Htr1. reflexivity.
    + intros x Hx e [<-|[<-|[<-|[<-|[]]]]]; simpl; rewrite ?(Hneq x Hx); reflexivity.
    + rewrite Htr2, Htr1. simpl. rewrite Nat.eqb_refl, Hpt. reflexivity.
    + congruence.
    + intros x Hx. rewrite Hw2, Htd2, Hbt1. apply Nat.eqb_neq in Hx. rewrite Hx. auto.
    + apply HPRupd; auto.
      * intro H. rewrite amem_aset, Nat.eqb_refl in H. discriminate.
      * intros x Hx. rewrite amem_aset in Hx. apply orb_false_iff in Hx. tauto.
  - (* STOP *) destruct Ha as (_ & Htd2 & Ha).
    assert (Hcase : exists new dn, done' = aset t dn done /\ s_trace st' = new ++ s_trace st /\
              phase_of t (new ++ s_trace st) = PE /\
              (forall x, x <> t -> forall e, In e new -> tev_of x e = None) /\
              (forall x, x <> t -> w_of st' x = w_of st x) /\ w_of st' t <> Paused).
    { destruct s;
        try (destruct Ha as (-> & Htr2 & Hw2);
             eexists [ESRemove t; EBStop t; ECbResult t _ idx STOP; ESResult t idx STOP], Stopped;
             split; [reflexivity|]; split; [rewrite Htr2, Htr1; reflexivity|];
             split; [simpl; rewrite Nat.eqb_refl, Hpt; reflexivity|];
             split; [intros x Hx e [<-|[<-|[<-|[<-|[]]]]]; simpl; rewrite ?(Hneq x Hx); reflexivity|];
             split; [intros x Hx; rewrite Hw2, Hbt1; apply Nat.eqb_neq in Hx; rewrite Hx; reflexivity|];
             rewrite Hw2, Nat.eqb_refl; discriminate).
      destruct Ha as (-> & Htr2 & Hbt2).
      exists [ESRemove t; ECbResult t Completed idx STOP; ESResult t idx STOP], Completed.
      split; [reflexivity|]. split; [rewrite Htr2, Htr1; reflexivity|].
      split; [simpl; rewrite Nat.eqb_refl, Hpt; reflexivity|].
      split; [intros x Hx e [<-|[<-|[<-|[]]]]; simpl; rewrite ?(Hneq x Hx); reflexivity|].
      split; [intros x Hx; rewrite Hbt2, Hbt1; reflexivity|].
      rewrite Hbt2, Hbt1. intro H. apply Hpaused. auto. }
    destruct Hcase as (new & dn & -> & Htr' & Hph & Hnone & Hwo & Hwt).
    destruct (LI_step st st' t new PR PE) as [HL Ho]; auto; try discriminate.
    + rewrite Htr'. exact Hph.
    + congruence.
    + intros x Hx. rewrite Htd2, Hbt1, (Hwo x Hx). auto.
    + intros [H|H]; [|contradiction]. exfalso. apply Hpaused. left. rewrite Htd2, Hbt1 in H. exact H.
    + apply HPRupd; auto.
      * intro H. rewrite amem_aset, Nat.eqb_refl in H. discriminate.
      * intros x Hx. rewrite amem_aset in Hx. apply orb_false_iff in Hx. tauto.
Qed.

Lemma LI_quiet st st' new :
  s_trace st' = new ++ s_trace st -> (forall x e, In e new -> tev_of x e = None) ->
  s_ntrials st' = s_ntrials st -> s_bt st' = s_bt st ->
  LI st -> LI st' /\ (forall x, phase_of x (s_trace st') = phase_of x (s_trace st)).
Proof.
  intros Htr Hnone Hn Hbt (L1 & L3 & L4).
  assert (Ho : forall x, phase_of x (s_trace st') = phase_of x (s_trace st)).
  { intro x. rewrite Htr. apply phase_of_app_none. intros e He. eapply Hnone; eauto. }
  split; [|exact Ho]. unfold LI. rewrite Hn, Hbt. repeat split; intro x; rewrite Ho; auto.
Qed.

Lemma PRok_aset_in st st' ks done t v :
  (forall x, x <> t -> phase_of x (s_trace st') = phase_of x (s_trace st)) ->
  PRok st ks done -> PRok st' ks (aset t v done).
Proof.
  intros Ho HPR x Hx Hm. rewrite amem_aset in Hm. apply orb_false_iff in Hm. destruct Hm as [Hxt Hm].
  apply Nat.eqb_neq in Hxt. rewrite Ho by exact Hxt. apply HPR; auto.
Qed.

Lemma status_step_life ks st done err e st' done' err' :
  status_step (st, done, err) e = (st', done', err') -> In (fst e) ks ->
  LI st -> PRok st ks done -> (amem (fst e) done = true -> hidden (snd e) = false) ->
  LI st' /\ PRok st' ks done'.
Proof.
  unfold status_step. destruct err as [e0|].
  { intro H; injection H as <- <- <-. auto. }
  destruct e as [t s]. cbn [fst snd]. intros H Ht HLI HPR Hhid.
  assert (Hneq : forall x, x <> t -> Nat.eqb t x = false) by (intros x Hx; apply Nat.eqb_neq; congruence).
  assert (Hpaused : phase_of t (s_trace st) = PR -> td_of st t = Paused \/ w_of st t = Paused -> False).
  { intros Hp Hx. destruct HLI as (_ & _ & L4). apply L4 in Hx. congruence. }
  (* the trial's run ends here with one notification [ev] *)
  assert (Hend : forall ev extra v, amem t done = false -> tev_of t ev = Some TComplete \/ tev_of t ev = Some TError ->
            (forall x, x <> t -> tev_of x ev = None) -> (forall x e, In e extra -> tev_of x e = None) ->
            forall stx, s_trace stx = extra ++ ev :: s_trace st -> s_ntrials stx = s_ntrials st -> s_bt stx = s_bt st ->
            LI stx /\ PRok stx ks (aset t v done)).
  { intros ev extra v Hm Hev Hevo Hex stx Htr Hn Hbt.
    assert (Hpt : phase_of t (s_trace st) = PR) by (apply HPR; auto).
    destruct (LI_step st stx t (extra ++ [ev]) PR PE) as [HL Ho]; auto; try discriminate.
    - rewrite Htr, <- app_assoc. reflexivity.
    - intros x Hx e He. apply in_app_or in He. destruct He as [He|[<-|[]]]; [eapply Hex; eauto|apply Hevo; exact Hx].
    - rewrite Htr. rewrite phase_of_app_none by (intros e He; eapply Hex; eauto). simpl.
      destruct Hev as [-> | ->]; rewrite Hpt; reflexivity.
    - intros x _. rewrite Hbt. auto.
    - rewrite Hbt. intro Hx. exfalso. eapply Hpaused; eauto.
    - split; [exact HL|]. eapply PRok_aset_in; eauto. }
  (* nothing about any trial is emitted *)
  assert (Hquiet : forall extra v, (forall x e, In e extra -> tev_of x e = None) ->
            forall stx, s_trace stx = extra ++ s_trace st -> s_ntrials stx = s_ntrials st -> s_bt stx = s_bt st ->
            amem t done = true -> LI stx /\ PRok stx ks (aset t v done)).
  { intros extra v Hex stx Htr Hn Hbt Hm.
    destruct (LI_quiet st stx extra) as [HL Ho]; auto.
    split; [exact HL|]. eapply PRok_aset_in; eauto. }
  destruct s; try solve [injection H as <- <- <-; auto].
  - (* Completed *)
    destruct (s_last st t) as [idx|]; [|injection H as <- <- <-; auto].
    destruct (amem t done) eqn:Em.
    + destruct (match aget t done with Some Paused => Paused | _ => Completed end) eqn:Es';
        injection H as <- <- <-;
        try (apply (Hquiet [] _); auto; intros x e []; fail).
      apply (Hquiet [ECbComplete t idx]); auto. intros x e [<-|[]]. reflexivity.
    + assert (Hnone : aget t done = None) by (unfold amem in Em; destruct (aget t done); [discriminate|reflexivity]).
      rewrite Hnone in H. injection H as <- <- <-.
      apply (Hend (ESComplete t idx) [ECbComplete t idx]); auto.
      * left. simpl. rewrite Nat.eqb_refl. reflexivity.
      * intros x Hx. simpl. rewrite (Hneq x Hx). reflexivity.
      * intros x e [<-|[]]. reflexivity.
  - (* Failed *)
    destruct (amem t done) eqn:Em; injection H as <- <- <-.
    + apply (Hquiet []); auto. intros x e [].
    + apply (Hend (ESError t) []); auto.
      * right. simpl. rewrite Nat.eqb_refl. reflexivity.
      * intros x Hx. simpl. rewrite (Hneq x Hx). reflexivity.
      * intros x e [].
  - (* Stopped *)
    destruct (mem_nat t (s_sstopped st)); injection H as <- <- <-; [auto|].
    destruct (amem t done) eqn:Em; [specialize (Hhid eq_refl); discriminate|].
    apply (Hend (ESError t) []); auto.
    + right. simpl. rewrite Nat.eqb_refl. reflexivity.
    + intros x Hx. simpl. rewrite (Hneq x Hx). reflexivity.
    + intros x e [].
Qed.

Lemma result_step_newkey sd st done r st' done' x :
  result_step o sd (st, done) r = (st', done') -> amem x done' = true -> amem x done = true \/ x = fst (fst r).
Proof.
  unfold result_step. destruct r as [[t idx] rep]. cbn [fst]. destruct (amem t done).
  { intro H; injection H as <- <-. auto. }
  destruct (notify_result o sd t idx st) as [[st1 s] d]. intro Ha.
  apply apply_decision_spec in Ha. destruct Ha as (_ & _ & Ha).
  assert (G : forall v, amem x (aset t v done) = true -> amem x done = true \/ x = t).
  { intros v Hx. rewrite amem_aset in Hx. apply orb_true_iff in Hx. destruct Hx as [Hx|Hx]; [right; apply Nat.eqb_eq; exact Hx|auto]. }
  destruct d.
  - destruct Ha as [_ ->]. auto.
  - destruct Ha as (-> & _). apply G.
  - destruct Ha as (_ & _ & Ha). destruct s; destruct Ha as (-> & _); apply G.
Qed.

Lemma status_step_newkey st done err e st' done' err' x :
  status_step (st, done, err) e = (st', done', err') -> amem x done' = true -> amem x done = true \/ x = fst e.
Proof.
  unfold status_step. destruct err; [intro H; injection H as <- <- <-; auto|].
  destruct e as [t s]. cbn [fst].
  assert (G : forall v, amem x (aset t v done) = true -> amem x done = true \/ x = t).
  { intros v Hx. rewrite amem_aset in Hx. apply orb_true_iff in Hx. destruct Hx as [Hx|Hx]; [right; apply Nat.eqb_eq; exact Hx|auto]. }
  destruct s; try solve [intro H; injection H as <- <- <-; auto].
  - destruct (s_last st t); intro H; injection H as <- <- <-; [apply G|auto].
  - intro H; injection H as <- <- <-. apply G.
  - destruct (mem_nat t (s_sstopped st)); intro H; injection H as <- <- <-; [auto|apply G].
Qed.

Lemma loop1_life sd ks rs : forall st done st' done',
  loop1 o sd rs st done = (st', done') ->
  (forall r, In r rs -> In (fst (fst r)) ks /\ hidden (sd_status (fst (fst r)) sd) = false) ->
  LI st -> PRok st ks done -> (forall x, amem x done = true -> hidden (sd_status x sd) = false) ->
  LI st' /\ PRok st' ks done' /\ (forall x, amem x done' = true -> hidden (sd_status x sd) = false).
Proof.
  unfold loop1. induction rs as [|r rs IH]; intros st done st' done' H Hrs HLI HPR HK; cbn [fold_left] in H.
  - injection H as <- <-. auto.
  - destruct (result_step o sd (st, done) r) as [st1 done1] eqn:E1.
    destruct (Hrs r (or_introl eq_refl)) as [Hr1 Hr2].
    pose proof (result_step_life _ _ _ _ _ _ _ E1 Hr1 HLI HPR) as [HLI1 HPR1].
    eapply IH; [exact H| | | |]; auto.
    + intros r' Hr'. apply Hrs. right. exact Hr'.
    + intros x Hx. destruct (result_step_newkey _ _ _ _ _ _ _ E1 Hx) as [Hx'| ->]; auto.
Qed.

Lemma loop2_life ks sd : forall st done err st' done' err',
  fold_left status_step sd (st, done, err) = (st', done', err') ->
  NoDup (map fst sd) -> (forall e, In e sd -> In (fst e) ks) ->
  LI st -> PRok st ks done ->
  (forall e, In e sd -> amem (fst e) done = true -> hidden (snd e) = false) ->
  LI st' /\ PRok st' ks done'.
Proof.
  induction sd as [|e sd IH]; intros st done err st' done' err' H Hnd Hks HLI HPR HK; cbn [fold_left] in H.
  - injection H as <- <- <-. auto.
  - destruct (status_step (st, done, err) e) as [[st1 done1] err1] eqn:E1.
    inversion Hnd as [|? ? Hni Hnd']; subst.
    pose proof (status_step_life ks _ _ _ _ _ _ _ E1 (Hks e (or_introl eq_refl)) HLI HPR (HK e (or_introl eq_refl))) as [HLI1 HPR1].
    eapply IH; [exact H|exact Hnd'| | | |]; auto.
    + intros e' He'. apply Hks. right. exact He'.
    + intros e' He' Hm. destruct (status_step_newkey _ _ _ _ _ _ _ _ E1 Hm) as [Hm'|Heq].
      * apply HK; [right; exact He'|exact Hm'].
      * exfalso. apply Hni. rewrite <- Heq. apply in_map. exact He'.
Qed.

Lemma poll_order_complete running ord t : In t running -> In t (poll_order running ord).
Proof.
  intro H. unfold poll_order. apply in_or_app. destruct (mem_nat t ord) eqn:E.
  - left. apply filter_In. split; [|apply mem_nat_In; exact H].
    apply mem_nat_In. rewrite mem_nat_nodup. exact E.
  - right. apply filter_In. split; [exact H|]. rewrite E. reflexivity.
Qed.

Lemma sd_status_w st sd t : sd_ok st sd -> In t (map fst sd) -> sd_status t sd = w_of st t.
Proof.
  intros Hok Hin. unfold sd_status. destruct (aget t sd) as [s|] eqn:E.
  - apply aget_In in E. symmetry. apply Hok. exact E.
  - apply aget_none_notin in E. contradiction.
Qed.

(* life cycle through _process_new_results: [done] lists the trials whose run ended *)
Lemma pnr_life st st' done err :
  process_new_results prm o st = (st', done, err) -> NoDup (s_running st) ->
  LI st -> (forall t, In t (s_running st) -> phase_of t (s_trace st) = PR) ->
  LI st' /\ (err = None -> forall t, In t (s_running st) -> amem t done = false -> phase_of t (s_trace st') = PR).
Proof.
  unfold process_new_results.
  set (order := poll_order (s_running st) (o_ord o (s_np st))).
  set (st0 := emit (EBFetch order) (set_np st (S (s_np st)))).
  destruct (fetch o order st0) as [[st1 sd] rs] eqn:Ef.
  intros H Hnd HLI HR.
  assert (HLI0 : LI st0 /\ forall x, phase_of x (s_trace st0) = phase_of x (s_trace st)).
  { apply (LI_quiet st st0 [EBFetch order]); auto. intros x e [<-|[]]. reflexivity. }
  destruct HLI0 as [HLI0 Hph0].
  pose proof (fetch_LI _ _ _ _ _ Ef HLI0) as [HLI1 Hph1].
  apply fetch_spec in Ef. destruct Ef as (A & _ & _ & _ & _ & _ & Hsdk & Hsd & Hrs).
  set (st1' := emit (ECbFetch sd (map (fun r => (fst (fst r), snd (fst r))) rs)) st1) in *.
  assert (HLI1' : LI st1' /\ forall x, phase_of x (s_trace st1') = phase_of x (s_trace st1)).
  { apply (LI_quiet st1 st1' [ECbFetch sd (map (fun r => (fst (fst r), snd (fst r))) rs)]); auto.
    intros x e [<-|[]]. reflexivity. }
  destruct HLI1' as [HLI1' Hph1'].
  assert (HPR1 : PRok st1' order []).
  { intros t Ht _. rewrite Hph1', Hph1, Hph0. apply HR. eapply poll_order_incl; eauto. }
  destruct (Nat.ltb (n_workers prm) (length (s_running st1'))).
  { injection H as <- <- <-. split; [exact HLI1'|discriminate]. }
  destruct (loop1 o sd rs st1' []) as [st2 done2] eqn:E1.
  apply (loop1_life sd order) in E1; auto.
  2:{ intros r Hr. destruct (Hrs r Hr) as [Hr1 Hr2]. split; [exact Hr1|].
      rewrite (sd_status_w st1 sd); [exact Hr2|exact Hsd|rewrite Hsdk; exact Hr1]. }
  2:{ intros x Hx. discriminate. }
  destruct E1 as (HLI2 & HPR2 & HK2).
  destruct (loop2 sd st2 done2) as [[st3 done3] err3] eqn:E2. unfold loop2 in E2.
  apply (loop2_life order) in E2; auto.
  2:{ rewrite Hsdk. apply poll_order_NoDup. exact Hnd. }
  2:{ intros e He. rewrite <- Hsdk. apply in_map. exact He. }
  2:{ intros [t s] He Hm. cbn [fst snd] in *. specialize (HK2 t Hm).
      unfold sd_status in HK2. rewrite (In_aget_nodup t s sd) in HK2; [exact HK2| |exact He].
      rewrite Hsdk. apply poll_order_NoDup. exact Hnd. }
  destruct E2 as [HLI3 HPR3].
  destruct err3; injection H as <- <- <-.
  - split; [exact HLI3|discriminate].
  - destruct (status_update_frame (aupdate sd done3) rs st3) as (_ & F2 & F3 & F4 & _).
    split.
    + destruct HLI3 as (L1 & L3 & L4). unfold LI. rewrite F2, F3, F4. auto.
    + intros _ t Ht Hm. rewrite F4. apply HPR3; [|exact Hm]. apply poll_order_complete. exact Ht.
Qed.

Definition LInv (st : state) : Prop :=
  LI st /\ (forall t, In t (s_running st) -> phase_of t (s_trace st) = PR).

Lemma poll_life st st' err :
  poll prm o st = (st', err) -> binv st -> LInv st -> LI st' /\ (err = None -> LInv st').
Proof.
  unfold poll. destruct (process_new_results prm o (emit ECbLoopStart st)) as [[st1 done] err1] eqn:E.
  intros H Hb [HLI HR].
  assert (HLI0 : LI (emit ECbLoopStart st) /\ forall x, phase_of x (s_trace (emit ECbLoopStart st)) = phase_of x (s_trace st)).
  { apply (LI_quiet st (emit ECbLoopStart st) [ECbLoopStart]); auto. intros x e [<-|[]]. reflexivity. }
  destruct HLI0 as [HLI0 Hph0].
  pose proof E as Eb. apply pnr_budget in Eb. destruct Eb as (R1 & _). simpl in R1.
  apply pnr_life in E; [|apply Hb|exact HLI0|intros t Ht; rewrite Hph0; apply HR; exact Ht].
  destruct E as [HLI1 HR1]. destruct err1; injection H as <- <-.
  - split; [exact HLI1|discriminate].
  - assert (HLI2 : LI (set_running (set_doneall st1 (aupdate (s_doneall st1) done))
                     (remove_all (map fst done) (s_running (set_doneall st1 (aupdate (s_doneall st1) done)))))).
    { destruct HLI1 as (L1 & L3 & L4). unfold LI. simpl. auto. }
    split; [exact HLI2|]. intros _. split; [exact HLI2|].
    cbn [s_running s_trace set_running set_doneall]. intros t Ht. apply remove_all_In in Ht. destruct Ht as [Ht Hnd].
    apply (HR1 eq_refl); [simpl; rewrite <- R1; exact Ht|].
    destruct (amem t done) eqn:Em; [|reflexivity]. apply amem_keys in Em. contradiction.
Qed.

Lemma schedule_new_task_life st st' r : schedule_new_task o st = (st', r) -> LInv st -> LInv st'.
Proof.
  unfold schedule_new_task. intros H [HLI HR].
  set (n := s_ntrials st) in *.
  assert (Hreg : forall t (l : list nat) x, In x (if mem_nat t l then l else l ++ [t]) -> x = t \/ In x l).
  { intros t l x. destruct (mem_nat t l); [auto|]. intro Hx. apply in_app_or in Hx. destruct Hx as [Hx|[Hx|[]]]; auto. }
  assert (Hq : forall sg stx, s_trace stx = [ESSuggest n sg] ++ s_trace st -> s_ntrials stx = s_ntrials st ->
             s_bt stx = s_bt st -> s_running stx = s_running st -> LInv stx).
  { intros sg stx Htr Hn Hbt Hrun. destruct (LI_quiet st stx [ESSuggest n sg]) as [HL Ho]; auto.
    - intros x e [<-|[]]. reflexivity.
    - split; [exact HL|]. intros t Ht. rewrite Ho. apply HR. rewrite <- Hrun. exact Ht. }
  destruct (o_sug o (s_ns st)) as [|cfg ck|id cfg].
  - injection H as <- <-. apply (Hq SNothing); reflexivity.
  - injection H as <- <-.
    destruct HLI as (L1 & L3 & L4).
    assert (Hpn : phase_of n (s_trace st) = PN) by (apply L3; unfold n; lia).
    set (new := [ECbStart n; ESAdd n; EBStart n cfg ck; ESSuggest n (SStart cfg ck)]).
    assert (Ho : forall x, x <> n -> phase_of x (new ++ s_trace st) = phase_of x (s_trace st)).
    { intros x Hx. apply phase_of_app_none. assert (Hne : Nat.eqb n x = false) by (apply Nat.eqb_neq; congruence).
      intros e [<-|[<-|[<-|[<-|[]]]]]; simpl; rewrite ?Hne; reflexivity. }
    assert (Hn' : phase_of n (new ++ s_trace st) = PR).
    { simpl. rewrite Nat.eqb_refl, Hpn. reflexivity. }
    unfold LInv, LI.
    cbn [s_running s_ntrials s_trace s_bt set_smap set_running emit set_b set_bt set_ntrials set_ns].
    change (ECbStart n :: ESAdd n :: EBStart n cfg ck :: ESSuggest n (SStart cfg ck) :: s_trace st) with (new ++ s_trace st).
    split; [split; [|split]|].
    + intro x. destruct (Nat.eq_dec x n) as [->|Hx]; [rewrite Hn'; discriminate|rewrite Ho by exact Hx; apply L1].
    + intros x Hx. rewrite Ho by lia. apply L3. unfold n in *. lia.
    + intros x Hx. destruct (Nat.eq_dec x n) as [->|Hxn].
      * rewrite upd_same in Hx. simpl in Hx. destruct Hx; discriminate.
      * rewrite upd_other in Hx by exact Hxn. rewrite Ho by exact Hxn. apply L4. exact Hx.
    + intros t Ht. apply Hreg in Ht. destruct Ht as [->|Ht]; [exact Hn'|].
      assert (Htn : t <> n) by (intros ->; apply HR in Ht; congruence).
      rewrite Ho by exact Htn. apply HR. exact Ht.
  - destruct (Nat.ltb id n) eqn:Eid.
    2:{ injection H as <- <-. apply (Hq (SResume id cfg)); reflexivity. }
    destruct (b_td (s_bt (emit (ESSuggest n (SResume id cfg)) (set_ns st (S (s_ns st)))) id)) eqn:Etd;
      try (injection H as <- <-; apply (Hq (SResume id cfg)); reflexivity).
    injection H as <- <-. simpl in Etd.
    assert (Hpz : phase_of id (s_trace st) = PZ) by (destruct HLI as (_ & _ & L4); apply L4; left; exact Etd).
    set (new := [ECbResume id; EBResume id cfg; ESSuggest n (SResume id cfg)]).
    match goal with |- LInv ?s => set (stx := s) end.
    destruct (LI_step st stx id new PZ PR) as [HL Ho]; auto; try discriminate.
    + intros x Hx e He. assert (Hne : Nat.eqb id x = false) by (apply Nat.eqb_neq; congruence).
      destruct He as [<-|[<-|[<-|[]]]]; simpl; rewrite ?Hne; reflexivity.
    + unfold stx. simpl. rewrite Nat.eqb_refl, Hpz. reflexivity.
    + intros x Hx. unfold stx. simpl. rewrite upd_other by exact Hx. auto.
    + unfold stx. simpl. rewrite upd_same. simpl. intros [Hx|Hx]; discriminate.
    + split; [exact HL|]. unfold stx. cbn [s_running set_smap set_running]. intros t Ht. apply Hreg in Ht.
      destruct Ht as [->|Ht].
      * simpl. rewrite Nat.eqb_refl, Hpz. reflexivity.
      * assert (Htn : t <> id) by (intros ->; apply HR in Ht; congruence).
        fold stx. rewrite Ho by exact Htn. apply HR. exact Ht.
Qed.

Lemma schedule_k_life k : forall st st' r, schedule_k o k st = (st', r) -> LInv st -> LInv st'.
Proof.
  induction k as [|k IH]; intros st st' r H Hi; simpl in H; [injection H as <- <-; exact Hi|].
  destruct (ckpt_missing o st) as [j|].
  { injection H as <- <-. destruct Hi as [HLI HR].
    destruct (LI_quiet st (failed_start o st) [ESSuggest (s_ntrials st) (o_sug o (s_ns st))]) as [HL Ho]; auto.
    - intros x e [<-|[]]. reflexivity.
    - split; [exact HL|]. intros t Ht. rewrite Ho. apply HR. exact Ht. }
  destruct (schedule_new_task o st) as [st1 r1] eqn:E1. apply schedule_new_task_life in E1; [|exact Hi].
  destruct r1; [eauto| |]; injection H as <- <-; exact E1.
Qed.

Lemma LInv_emit_quiet e st : (forall x, tev_of x e = None) -> LInv st -> LInv (emit e st).
Proof.
  intros He [HLI HR]. destruct (LI_quiet st (emit e st) [e]) as [HL Ho]; auto.
  - intros x e' [<-|[]]. apply He.
  - split; [exact HL|]. intros t Ht. rewrite Ho. apply HR. exact Ht.
Qed.

Lemma schedule_new_tasks_life st st' r : schedule_new_tasks prm o st = (st', r) -> LInv st -> LInv st'.
Proof.
  apply (schedule_new_tasks_inv LInv).
  - intros s0 s1 [->|[busy Hb]] Hi; [exact Hi|]. apply busy_look_spec in Hb.
    destruct Hb as (R1 & R2 & Ht & _ & _ & _ & _ & _ & Htd & Hp & _).
    destruct Hi as [(L1 & L3 & L4) HR].
    assert (Hph : forall x, phase_of x (s_trace s1) = phase_of x (s_trace s0)) by (intro x; rewrite Ht; reflexivity).
    split; [split; [|split]|].
    + intro x. rewrite Hph. apply L1.
    + intros x Hx. rewrite Hph. apply L3. rewrite <- R2. exact Hx.
    + intros x Hx. rewrite Hph. apply L4. destruct Hx as [Hx|Hx]; [left; rewrite <- Htd; exact Hx|right; apply Hp; exact Hx].
    + intros x Hx. rewrite Hph. apply HR. rewrite <- R1. exact Hx.
  - intros s0 Hi. apply LInv_emit_quiet; [reflexivity|exact Hi].
  - intros k s0 s2 r2 Hk _. eapply schedule_k_life; eauto.
Qed.

Lemma iteration_end_life st st' c : iteration_end prm o st = (st', c) -> LInv st -> LInv st'.
Proof.
  unfold iteration_end, stop_condition. intros H Hi. injection H as <- _.
  match goal with |- LInv (emit ?e (set_nc ?s ?v)) => change (emit e (set_nc s v)) with (set_nc (emit e s) v) end.
  assert (G : forall s v, LInv s -> LInv (set_nc s v)).
  { intros s v [(L1 & L3 & L4) HR]. unfold LInv, LI. simpl. auto. }
  apply G. apply LInv_emit_quiet; [reflexivity|]. apply LInv_emit_quiet; [reflexivity|exact Hi].
Qed.

Theorem run_loop_life fuel st x :
  run_loop prm o fuel = (st, x) -> forall t, phase_of t (s_trace st) <> PBad.
Proof.
  unfold run_loop. destruct (stop_condition prm o (emit ECbTuningStart init_state)) as [st0 c0] eqn:E0. intro H.
  assert (G : LI st); [|apply G].
  eapply (loop_rule (fun s _ => binv s /\ LInv s) (fun s _ => binv s /\ LInv s) LI); [| | | | |exact H|].
  - intros s c (_ & HL & _). exact HL.
  - intros s c s' err (A & B) _ Ep. pose proof (poll_life _ _ _ Ep A B) as [HL HI].
    apply poll_budget in Ep; [|exact A]. destruct Ep as (Hb1 & _). split; [auto|intros _; exact HL].
  - intros s c (_ & HL & _). exact HL.
  - intros s c ex s' c' (A & B) _ _ Ei. split.
    + eapply iteration_end_budget; [exact Ei|apply binv_emit; exact A].
    + eapply iteration_end_life; [exact Ei|]. apply LInv_emit_quiet; [reflexivity|exact B].
  - intros s c ex s2 r (A & B) _ Es.
    pose proof (schedule_new_tasks_life _ _ _ Es B) as HL2.
    pose proof (schedule_new_tasks_budget _ _ _ Es A) as (Hb2 & _).
    destruct r; [| |apply HL2]; intros s3 c' Ei; (split; [eapply iteration_end_budget; eauto|eapply iteration_end_life; eauto]).
  - unfold stop_condition in E0. injection E0 as <- _. split.
    + unfold binv. simpl. repeat split; [constructor|lia|intros t Ht; lia].
    + unfold LInv, LI. simpl. repeat split; auto; try discriminate.
      * intros t [Hx|Hx]; discriminate.
      * intros t [].
Qed.

(* ======================================================================== *)
(*  Part 11: how the loop ends (C12)                                           *)
(* ======================================================================== *)
Lemma loop_rule2 (Ihead Imid : state -> bool -> bool -> Prop) (Final : state -> loop_exit -> Prop) :
  (forall st c ex, Ihead st c ex -> Final st LFuel) ->
  (forall st c ex, Ihead st c ex -> while_cond prm st c = false -> Final st (LExit None)) ->
  (forall st c ex st' err, Ihead st c ex -> while_cond prm st c = true -> poll prm o st = (st', err) ->
     match err with None => Imid st' c ex | Some e => Final st' (LExit (Some e)) end) ->
  (forall st c ex, Imid st c ex -> ex || wait_completion prm && c = true -> s_running st = [] -> Final st (LExit None)) ->
  (forall st c ex st' c', Imid st c ex -> ex || wait_completion prm && c = true -> s_running st <> [] ->
     iteration_end prm o (sleep st) = (st', c') -> Ihead st' c' ex) ->
  (forall st c ex st2 r, Imid st c ex -> ex || wait_completion prm && c = false ->
     schedule_new_tasks prm o st = (st2, r) ->
     match r with
     | SErr e => Final st2 (LExit (Some e))
     | SStopIteration => forall st3 c', iteration_end prm o st2 = (st3, c') -> Ihead st3 c' true
     | SOk => forall st3 c', iteration_end prm o st2 = (st3, c') -> Ihead st3 c' ex
     end) ->
  forall fuel st c ex st' x, loop prm o fuel st c ex = (st', x) -> Ihead st c ex -> Final st' x.
Proof.
  intros Hfuel Hexit Hpoll Hbreak Hwait Hsched. induction fuel as [|f IH]; intros st c ex st' x H Hi.
  - rewrite loop_0 in H. injection H as <- <-. eapply Hfuel; eauto.
  - rewrite loop_S in H. destruct (while_cond prm st c) eqn:Ew; [|injection H as <- <-; eapply Hexit; eauto].
    destruct (poll prm o st) as [st1 err] eqn:Ep.
    pose proof (Hpoll _ _ _ _ _ Hi Ew Ep) as Hp.
    destruct err as [e|]; [injection H as <- <-; exact Hp|].
    destruct (ex || wait_completion prm && c) eqn:Eb.
    + destruct (s_running st1) eqn:Er; [injection H as <- <-; eapply Hbreak; eauto|].
      destruct (iteration_end prm o (sleep st1)) as [st2 c'] eqn:Ei.
      eapply IH; [exact H|]. eapply Hwait; eauto. rewrite Er. discriminate.
    + destruct (schedule_new_tasks prm o st1) as [st2 r] eqn:Es.
      pose proof (Hsched _ _ _ _ _ Hp Eb Es) as Hs.
      destruct r.
      * destruct (iteration_end prm o st2) as [st3 c'] eqn:Ei. eapply IH; [exact H|]. apply Hs. reflexivity.
      * destruct (iteration_end prm o st2) as [st3 c'] eqn:Ei. eapply IH; [exact H|]. apply Hs. reflexivity.
      * injection H as <- <-. exact Hs.
Qed.

(* suggest returned None at some point of the (newest first) trace *)
Definition exhausted (tr : list event) : bool :=
  existsb (fun e => match e with ESSuggest _ SNothing => true | _ => false end) tr.
Definition is_suggest (e : event) : bool := match e with ESSuggest _ _ => true | _ => false end.
(* suggest is never called again after it returned None *)
Fixpoint no_suggest_after_none (tr : list event) : Prop :=
  match tr with [] => True | e :: tr' => no_suggest_after_none tr' /\ (is_suggest e = true -> exhausted tr' = false) end.

Lemma exhausted_app new tr : forallb (fun e => negb (is_suggest e)) new = true -> exhausted (new ++ tr) = exhausted tr.
Proof.
  unfold exhausted. induction new as [|e new IH]; simpl; [reflexivity|]. rewrite andb_true_iff. intros [H1 H2].
  rewrite IH by exact H2. destruct e; simpl in *; try reflexivity. discriminate.
Qed.
Lemma nsan_app new tr : forallb (fun e => negb (is_suggest e)) new = true ->
  no_suggest_after_none tr -> no_suggest_after_none (new ++ tr).
Proof.
  induction new as [|e new IH]; simpl; [auto|]. rewrite andb_true_iff. intros [H1 H2] Hn.
  split; [auto|]. intro Hs. rewrite Hs in H1. discriminate.
Qed.

Definition xinv (st : state) (ex : bool) : Prop :=
  no_suggest_after_none (s_trace st) /\ exhausted (s_trace st) = ex.

Lemma xinv_ext Q st st' ex : (forall e, Q e = true -> is_suggest e = false) -> ext Q st st' -> xinv st ex -> xinv st' ex.
Proof.
  intros HQ (new & Ht & F) [A B]. unfold xinv. rewrite Ht.
  assert (F' : forallb (fun e => negb (is_suggest e)) new = true).
  { rewrite forallb_forall in *. intros e He. rewrite (HQ e (F e He)). reflexivity. }
  split; [apply nsan_app; auto|rewrite exhausted_app; auto].
Qed.

Lemma schedule_new_task_xinv st st' r : schedule_new_task o st = (st', r) -> xinv st false ->
  match r with SStopIteration => xinv st' true | SOk => xinv st' false | SErr _ => no_suggest_after_none (s_trace st') end.
Proof.
  unfold schedule_new_task, xinv. intros H [A B].
  destruct (o_sug o (s_ns st)) as [|cfg ck|id cfg].
  - injection H as <- <-. simpl. repeat split; auto.
  - injection H as <- <-. simpl. unfold exhausted in *. simpl. repeat split; auto; discriminate.
  - destruct (Nat.ltb id (s_ntrials st)); [|injection H as <- <-; simpl; repeat split; auto].
    destruct (b_td _); injection H as <- <-; simpl; unfold exhausted in *; simpl; repeat split; auto; discriminate.
Qed.
Lemma schedule_k_xinv k : forall st st' r, schedule_k o k st = (st', r) -> xinv st false ->
  match r with SStopIteration => xinv st' true | SOk => xinv st' false | SErr _ => no_suggest_after_none (s_trace st') end.
Proof.
  induction k as [|k IH]; intros st st' r H Hi; simpl in H; [injection H as <- <-; exact Hi|].
  destruct (ckpt_missing o st) as [j|].
  { injection H as <- <-. destruct Hi as [A B]. unfold failed_start. simpl. repeat split; auto. }
  destruct (schedule_new_task o st) as [st1 r1] eqn:E1. apply schedule_new_task_xinv in E1; [|exact Hi].
  destruct r1; [exact (IH _ _ _ H E1)| |]; injection H as <- <-; exact E1.
Qed.
Lemma schedule_new_tasks_xinv st st' r : schedule_new_tasks prm o st = (st', r) -> xinv st false ->
  match r with SStopIteration => xinv st' true | SOk => xinv st' false | SErr _ => no_suggest_after_none (s_trace st') end.
Proof.
  intros H Hx. apply schedule_new_tasks_cases in H. destruct H as (st1 & Hbl & Hc).
  assert (Hx1 : xinv st1 false).
  { destruct Hbl as [->|[busy Hb]]; [exact Hx|]. apply busy_look_spec in Hb. destruct Hb as (_ & _ & Ht & _).
    destruct Hx as [A B]. unfold xinv. rewrite Ht. simpl. unfold exhausted in *. simpl. repeat split; auto; discriminate. }
  destruct Hc as [[-> ->]|(k & _ & Hk)].
  - destruct Hx1 as [A B]. unfold xinv. simpl. repeat split; auto; discriminate.
  - eapply schedule_k_xinv; eauto.
Qed.

(* how run_loop can end *)
Definition exit_ok (st : state) (x : loop_exit) : Prop :=
  no_suggest_after_none (s_trace st) /\
  (x = LExit None ->
     (flag_of (s_trace st) = true \/ (exhausted (s_trace st) = true /\ s_running st = [])) /\
     (wait_completion prm = true -> s_running st = [])).

Lemma run_loop_exit fuel st x : run_loop prm o fuel = (st, x) -> exit_ok st x.
Proof.
  unfold run_loop. destruct (stop_condition prm o (emit ECbTuningStart init_state)) as [st0 c0] eqn:E0. intro H.
  assert (Hend : forall s s' c' ex, iteration_end prm o s = (s', c') -> xinv s ex -> xinv s' ex /\ flag_of (s_trace s') = c').
  { intros s s' c' ex Ei [A B]. unfold iteration_end, stop_condition in Ei. injection Ei as <- <-. unfold xinv. simpl.
    unfold exhausted in *. simpl. repeat split; auto; discriminate. }
  eapply (loop_rule2
    (fun s c ex => xinv s ex /\ flag_of (s_trace s) = c)
    (fun s c ex => xinv s ex /\ flag_of (s_trace s) = c /\ (c = true -> wait_completion prm = true))
    exit_ok); [| | | | | |exact H|].
  - intros s c ex ([A B] & _). split; [exact A|discriminate].
  - intros s c ex ([A B] & Hf) Ew. split; [exact A|]. intros _. unfold while_cond in Ew.
    apply orb_false_iff in Ew. destruct Ew as [Ec Ew]. apply negb_false_iff in Ec. subst c. split; [left; exact Ec|].
    intro Hw. rewrite Hw in Ew. simpl in Ew. apply negb_false_iff, Nat.eqb_eq in Ew.
    destruct (s_running s); [reflexivity|discriminate].
  - intros s c ex s' err (Hx & Hf) Ew Ep. apply poll_ext in Ep.
    assert (Hx' : xinv s' ex) by (eapply xinv_ext; [|exact Ep|exact Hx]; intros e He; destruct e; simpl in *; auto; discriminate).
    destruct err.
    + split; [apply Hx'|discriminate].
    + split; [exact Hx'|]. split; [rewrite (ext_flag _ _ _ poll_ev_not_stop Ep); exact Hf|].
      intros ->. eapply while_cond_true_c; eauto.
  - intros s c ex ([A B] & Hf & Hw) Eb Er. split; [exact A|]. intros _. split; [|intros _; exact Er].
    apply orb_true_iff in Eb. destruct Eb as [->|Eb]; [right; auto|].
    apply andb_true_iff in Eb. destruct Eb as [_ ->]. left. exact Hf.
  - intros s c ex s' c' (Hx & Hf & Hw) _ _ Ei. apply (Hend _ _ _ ex Ei).
    destruct Hx as [A B]. unfold xinv. simpl. unfold exhausted in *. simpl. repeat split; auto; discriminate.
  - intros s c ex s2 r (Hx & Hf & Hw) Eb Es.
    assert (Hex : ex = false) by (apply orb_false_iff in Eb; tauto). subst ex.
    apply schedule_new_tasks_xinv in Es; [|exact Hx].
    destruct r.
    + intros s3 c' Ei. apply (Hend _ _ _ false Ei Es).
    + intros s3 c' Ei. apply (Hend _ _ _ true Ei Es).
    + split; [exact Es|discriminate].
  - unfold stop_condition in E0. injection E0 as <- <-. unfold xinv. simpl. repeat split; auto; discriminate.
Qed.

(* ======================================================================== *)
(*  Part 12: delivered results reach the scheduler once, in order (C01)        *)
(* ======================================================================== *)
(* specification: walking through the results returned by the poll, a result is passed to
   scheduler.on_trial_result unless an earlier result of the same trial in this batch got STOP/PAUSE *)
Fixpoint told (nd : nat) (gone : list nat) (rs : list result) : list (nat * nat * decision) :=
  match rs with
  | [] => []
  | (t, idx, _) :: rs' =>
      if mem_nat t gone then told nd gone rs'
      else let d := o_dec o nd in
           (t, idx, d) :: told (S nd) (match d with CONTINUE => gone | _ => t :: gone end) rs'
  end.
(* on_trial_result calls recorded in a (newest first) trace, in chronological order *)
Fixpoint sres (tr : list event) : list (nat * nat * decision) :=
  match tr with
  | [] => []
  | ESResult t i d :: tr' => sres tr' ++ [(t, i, d)]
  | _ :: tr' => sres tr'
  end.

Lemma sres_app new tr : sres (new ++ tr) = sres tr ++ sres new.
Proof.
  induction new as [|e new IH]; simpl; [rewrite app_nil_r; reflexivity|].
  destruct e; rewrite ?IH, ?app_assoc; reflexivity.
Qed.

Lemma result_step_told sd st done r st' done' gone :
  result_step o sd (st, done) r = (st', done') -> (forall x, amem x done = mem_nat x gone) ->
  exists gone', (forall x, amem x done' = mem_nat x gone') /\
    sres (s_trace st') ++ told (s_nd st') gone' [] = sres (s_trace st) ++ told (s_nd st) gone [r] /\
    (forall rs, told (s_nd st) gone (r :: rs) = told (s_nd st) gone [r] ++ told (s_nd st') gone' rs).
Proof.
  unfold result_step. destruct r as [[t idx] rep]. intros H Hg. cbn [told].
  rewrite <- (Hg t). destruct (amem t done) eqn:Em.
  { injection H as <- <-. exists gone. split; [exact Hg|]. split; [reflexivity|]. intro rs. reflexivity. }
  unfold notify_result, apply_decision in H. cbn [s_nd set_last] in H.
  destruct (o_dec o (s_nd st)) eqn:Ed.
  - injection H as <- <-. exists gone. simpl. split; [exact Hg|]. split; [rewrite app_nil_r; reflexivity|]. intro rs. reflexivity.
  - injection H as <- <-. exists (t :: gone). simpl. split.
    + intro x. rewrite amem_aset. rewrite Hg. reflexivity.
    + split; [rewrite app_nil_r; reflexivity|]. intro rs. reflexivity.
  - destruct (sd_status t sd); injection H as <- <-; exists (t :: gone); simpl;
      (split; [intro x; rewrite amem_aset, Hg; reflexivity|]);
      (split; [rewrite app_nil_r; reflexivity|intro rs; reflexivity]).
Qed.

Lemma loop1_told sd rs : forall st done st' done' gone,
  loop1 o sd rs st done = (st', done') -> (forall x, amem x done = mem_nat x gone) ->
  sres (s_trace st') = sres (s_trace st) ++ told (s_nd st) gone rs.
Proof.
  unfold loop1. induction rs as [|r rs IH]; intros st done st' done' gone H Hg; cbn [fold_left] in H.
  - injection H as <- <-. simpl. rewrite app_nil_r. reflexivity.
  - destruct (result_step o sd (st, done) r) as [st1 done1] eqn:E1.
    destruct (result_step_told _ _ _ _ _ _ _ E1 Hg) as (gone' & Hg' & Hs & Ht).
    rewrite (IH _ _ _ _ _ H Hg'). rewrite Ht, app_assoc. f_equal.
    simpl in Hs. rewrite app_nil_r in Hs. exact Hs.
Qed.

(* resume_trial is only reached for a trial the backend holds as Paused; otherwise the run ends
   with the backend's assertion error and nothing is resumed *)
Lemma resume_only_paused st st' r id cfg :
  o_sug o (s_ns st) = SResume id cfg -> schedule_new_task o st = (st', r) ->
  (id < s_ntrials st /\ td_of st id = Paused /\ r = SOk /\
   s_trace st' = ECbResume id :: EBResume id cfg :: ESSuggest (s_ntrials st) (SResume id cfg) :: s_trace st) \/
  ((r = SErr (EResumeNotPaused id) \/ r = SErr (EResumeUnknown id)) /\
   (id < s_ntrials st -> td_of st id <> Paused) /\
   s_trace st' = ESSuggest (s_ntrials st) (SResume id cfg) :: s_trace st).
Proof.
  unfold schedule_new_task. intros -> H.
  destruct (Nat.ltb id (s_ntrials st)) eqn:Eid.
  - apply Nat.ltb_lt in Eid. simpl in H.
    destruct (b_td (s_bt st id)) eqn:Etd; injection H as <- <-;
      try (right; split; [left; reflexivity|]; split; [intros _; first [discriminate|rewrite Etd; discriminate]|reflexivity]).
    left. split; [exact Eid|]. split; [reflexivity|]. split; reflexivity.
  - injection H as <- <-. right. split; [right; reflexivity|]. split; [|reflexivity].
    intro Hlt. apply Nat.ltb_ge in Eid. lia.
Qed.

Lemma overshoot_completed b fuel st x :
  wait_completion prm = false -> c_completed prm = Some b -> (0 <= b)%Z -> run_loop prm o fuel = (st, x) ->
  (Z.of_nat (num_status is_completed (s_smap st)) <= b + Z.of_nat (n_workers prm))%Z.
Proof.
  intros Hw Hb Hb0 H. eapply (overshoot_count is_completed); eauto.
  intros s now Hc. apply criterion_false_counts in Hc. tauto.
Qed.
Lemma overshoot_finished b fuel st x :
  wait_completion prm = false -> c_finished prm = Some b -> (0 <= b)%Z -> run_loop prm o fuel = (st, x) ->
  (Z.of_nat (num_status is_finished (s_smap st)) <= b + Z.of_nat (n_workers prm))%Z.
Proof.
  intros Hw Hb Hb0 H. eapply (overshoot_count is_finished); eauto.
  intros s now Hc. apply criterion_false_counts in Hc. tauto.
Qed.

(* events a loop iteration can emit *)
Definition body_ev (e : event) : bool :=
  match e with ECbLoopEnd => true | _ => poll_ev e || sched_sleep_ev e end.

Lemma exit_at_first_true fuel st x :
  wait_completion prm = false -> run_loop prm o fuel = (st, x) -> guarded body_ev (s_trace st).
Proof.
  intros Hw H. eapply run_loop_guarded; eauto. congruence.
Qed.
Lemma no_start_after_stop fuel st x :
  run_loop prm o fuel = (st, x) -> guarded sched_ev (s_trace st).
Proof. intro H. eapply run_loop_guarded; eauto. Qed.

Lemma run_outcome_not_assert fuel st out : run prm o fuel = (st, out) -> out <> Raised EAssertBudget.
Proof.
  unfold run. destruct (run_loop prm o fuel) as [st0 x] eqn:E. apply run_loop_budget in E. destruct E as [_ Hx].
  destruct x as [err|]; [|intro H; injection H as <- <-; discriminate].
  intro H. apply finalize_spec in H. destruct H as (_ & _ & _ & _ & _ & _ & _ & H1 & H2).
  destruct (too_many_failures prm st) eqn:Et.
  - specialize (H2 eq_refl). destruct (first_failed (s_doneall st0)); [rewrite H2; discriminate|].
    rewrite H2. destruct err as [e|]; [|discriminate]. intro Hc. injection Hc as ->. apply Hx. reflexivity.
  - rewrite (H1 eq_refl). destruct err as [e|]; [|discriminate]. intro Hc. injection Hc as ->. apply Hx. reflexivity.
Qed.

End Proofs.
