(* CheckpointSyncProofs.v — the synchronous-Hyperband instance of the resume theorem (C20):
   invariant of the bracket manager model (model/Checkpoint.v, layer 2b) and the proof that
   sync_sched satisfies the interface of CheckpointProofs.resume_has_checkpoint. *)
From Verif Require Import model.Base model.Checkpoint proofs.CheckpointProofs.
From Coq Require Import Lia Permutation.

(* ---- generic list lemmas -------------------------------------------------------------- *)
Lemma NoDup_app_iff {A} (a b : list A) :
  NoDup (a ++ b) <-> NoDup a /\ NoDup b /\ (forall x, In x a -> ~ In x b).
Proof.
  induction a as [|y a IH]; simpl.
  - split; [intros H; repeat split; [constructor|exact H|tauto] | tauto].
  - split.
    + intros H. inversion H as [|? ? Hy Hn]; subst. apply IH in Hn as [H1 [H2 H3]].
      split; [constructor; [intros Hin; apply Hy; apply in_or_app; now left|exact H1]|].
      split; [exact H2|]. intros x [<-|Hx]; [intros Hin; apply Hy; apply in_or_app; now right | now apply H3].
    + intros [H1 [H2 H3]]. inversion H1 as [|? ? Hy Hn]; subst. constructor.
      * intros Hin. apply in_app_or in Hin as [Hin|Hin]; [contradiction | exact (H3 y (or_introl eq_refl) Hin)].
      * apply IH. split; [exact Hn|]. split; [exact H2|]. intros x Hx. apply H3. now right.
Qed.

Lemma NoDup_mid_sub {A} (a x y c : list A) :
  NoDup (a ++ x ++ c) -> NoDup y -> incl y x -> NoDup (a ++ y ++ c).
Proof.
  rewrite !NoDup_app_iff. intros [Ha [[Hx [Hc Hxc]] Hax]] Hy Hi.
  split; [exact Ha|]. split.
  - split; [exact Hy|]. split; [exact Hc|]. intros z Hz. apply Hxc. now apply Hi.
  - intros z Hz Hin. apply (Hax z Hz). apply in_or_app. apply in_app_or in Hin as [Hin|Hin]; [left; now apply Hi | now right].
Qed.

Lemma NoDup_mid_insert {A} (a p q c : list A) (i : A) :
  NoDup (a ++ (p ++ q) ++ c) -> ~ In i (a ++ (p ++ q) ++ c) -> NoDup (a ++ (p ++ i :: q) ++ c).
Proof.
  intros H Hi. apply (Permutation_NoDup (l := i :: a ++ (p ++ q) ++ c)); [|constructor; assumption].
  replace (a ++ (p ++ q) ++ c) with ((a ++ p) ++ (q ++ c)) by (now rewrite <- !app_assoc).
  replace (a ++ (p ++ i :: q) ++ c) with ((a ++ p) ++ i :: (q ++ c)) by (rewrite <- !app_assoc; reflexivity).
  apply Permutation_middle.
Qed.

Lemma NoDup_firstn {A} n (l : list A) : NoDup l -> NoDup (firstn n l).
Proof. intros H. rewrite <- (firstn_skipn n l) in H. now apply NoDup_app_iff in H as [H _]. Qed.

Lemma firstn_In_sub {A} n (l : list A) x : In x (firstn n l) -> In x l.
Proof. intros H. rewrite <- (firstn_skipn n l). apply in_or_app. now left. Qed.

Lemma upd_nth_length {A} (l : list A) : forall k x, length (upd_nth l k x) = length l.
Proof. induction l as [|y l IH]; intros [|k] x; simpl; auto. Qed.

Lemma nth_upd_nth_eq {A} (l : list A) : forall k x d, (k < length l)%nat -> nth k (upd_nth l k x) d = x.
Proof. induction l as [|y l IH]; intros [|k] x d H; simpl in *; try lia; auto. apply IH. lia. Qed.

Lemma nth_upd_nth_neq {A} (l : list A) : forall k k' x d, k <> k' -> nth k' (upd_nth l k x) d = nth k' l d.
Proof.
  induction l as [|y l IH]; intros [|k] [|k'] x d H; simpl; auto; try congruence.
Qed.

(* replacing one element of a list under flat_map: the same context around it, and every other
   element's contribution lies in that context *)
Lemma flat_map_upd_nth {A B} (f : A -> list B) (l : list A) : forall k d, (k < length l)%nat ->
  exists P Q, (forall x, flat_map f (upd_nth l k x) = P ++ f x ++ Q) /\ flat_map f l = P ++ f (nth k l d) ++ Q /\
              (forall k2, k2 <> k -> (k2 < length l)%nat -> incl (f (nth k2 l d)) (P ++ Q)).
Proof.
  induction l as [|y l IH]; intros [|k] d H; simpl in *; try lia.
  - exists [], (flat_map f l). split; [intros x; reflexivity|]. split; [reflexivity|].
    intros [|k2] Hn Hl; [congruence|]. simpl. intros z Hz. apply in_flat_map. exists (nth k2 l d).
    split; [apply nth_In; lia|exact Hz].
  - destruct (IH k d) as [P [Q [H1 [H2 H3]]]]; [lia|]. exists (f y ++ P), Q. split; [|split].
    + intros x. rewrite H1. now rewrite <- app_assoc.
    + rewrite H2. now rewrite <- app_assoc.
    + intros [|k2] Hn Hl z Hz.
      * apply in_or_app. left. apply in_or_app. now left.
      * rewrite <- app_assoc. apply in_or_app. right. apply (H3 k2); [congruence|lia|exact Hz].
Qed.

Lemma In_upd_nth {A} (l : list A) : forall k x y, In y (upd_nth l k x) -> y = x \/ In y l.
Proof.
  induction l as [|z l IH]; intros [|k] x y; simpl; auto.
  - intros [<-|H]; auto.
  - intros [<-|H]; auto. destruct (IH _ _ _ H); auto.
Qed.

Lemma nth_app_left {A} (l l' : list A) k d : (k < length l)%nat -> nth k (l ++ l') d = nth k l d.
Proof. intros H. now apply app_nth1. Qed.

(* ---- ids of a rung / bracket / all brackets ------------------------------------------- *)
Notation slot := (option Z * option (option Q))%type.
Definition dslot : slot := (None, None).
Definition dbr : sbracket := new_bracket [].
Definition sid (sl : slot) : list Z := match fst sl with Some t => [t] | None => [] end.
Definition sids (cur : list slot) : list Z := flat_map sid cur.
Definition bids (b : sbracket) : list Z := sids (b_cur b).
Definition all_ids (brs : list sbracket) : list Z := flat_map bids brs.

Lemma sids_In cur x : In x (sids cur) <-> exists sl, In sl cur /\ fst sl = Some x.
Proof.
  unfold sids. rewrite in_flat_map. split.
  - intros [sl [H1 H2]]. exists sl. split; [exact H1|]. unfold sid in H2. destruct (fst sl); [|contradiction].
    destruct H2 as [->|[]]. reflexivity.
  - intros [sl [H1 H2]]. exists sl. split; [exact H1|]. unfold sid. rewrite H2. now left.
Qed.

Lemma sids_repeat_none n : sids (repeat dslot n) = [].
Proof. induction n; simpl; auto. Qed.

Lemma sids_top l : sids (map (fun t : Z => (Some t, @None (option Q))) l) = l.
Proof. induction l as [|x l IH]; [reflexivity|]. unfold sids in *. simpl. f_equal. exact IH. Qed.

Lemma occupied_In cur t m : In (t, m) (occupied cur) -> In (Some t, Some m) cur.
Proof.
  induction cur as [|[[a|] [b|]] cur IH]; simpl; try tauto; try (intros H; right; now apply IH).
  intros [H|H]; [injection H as <- <-; now left | right; now apply IH].
Qed.

Lemma occupied_ids_incl cur x : In x (map fst (occupied cur)) -> In x (sids cur).
Proof.
  intros H. apply in_map_iff in H as [[t m] [<- H]]. apply occupied_In in H.
  apply sids_In. exists (Some t, Some m). split; [exact H|reflexivity].
Qed.

Lemma occupied_NoDup cur : NoDup (sids cur) -> NoDup (map fst (occupied cur)).
Proof.
  induction cur as [|[[a|] [b|]] cur IH]; simpl; intros H.
  - constructor.
  - inversion H; subst. constructor; [|now apply IH]. intros Hin. apply H2. now apply occupied_ids_incl.
  - inversion H; subst. now apply IH.
  - now apply IH.
  - now apply IH.
Qed.

Lemma valid_of_In r x : In x (map fst (valid_of r)) -> In x (map fst r).
Proof.
  induction r as [|[t [m|]] r IH]; simpl; [tauto| |]; intros H.
  - destruct H as [<-|H]; [now left | right; now apply IH].
  - right. now apply IH.
Qed.
Lemma invalid_of_In r x : In x (invalid_of r) -> In x (map fst r).
Proof.
  induction r as [|[t [m|]] r IH]; simpl; [tauto| |]; intros H.
  - right. now apply IH.
  - destruct H as [<-|H]; [now left | right; now apply IH].
Qed.
Lemma valid_invalid_NoDup r : NoDup (map fst r) ->
  NoDup (map fst (valid_of r)) /\ NoDup (invalid_of r) /\
  (forall x, In x (map fst (valid_of r)) -> ~ In x (invalid_of r)).
Proof.
  induction r as [|[t [m|]] r IH]; simpl; intros H.
  - repeat split; try constructor. tauto.
  - inversion H; subst. destruct (IH H3) as [A [B C]]. repeat split.
    + constructor; [|exact A]. intros Hin. apply H2. now apply valid_of_In.
    + exact B.
    + intros x [<-|Hx]; [intros Hin; apply H2; now apply invalid_of_In | now apply C].
  - inversion H; subst. destruct (IH H3) as [A [B C]]. repeat split.
    + exact A.
    + constructor; [|exact B]. intros Hin. apply H2. now apply invalid_of_In.
    + intros x Hx [<-|Hin]; [apply H2; now apply valid_of_In | exact (C x Hx Hin)].
Qed.

Lemma insert_by_perm le x l : Permutation (insert_by le x l) (x :: l).
Proof.
  induction l as [|y l IH]; simpl; [apply Permutation_refl|].
  destruct (le (snd y) (snd x)); [|apply Permutation_refl].
  eapply perm_trans; [apply perm_skip, IH | apply perm_swap].
Qed.

Lemma stable_sort_perm mx l : Permutation (stable_sort mx l) l.
Proof.
  unfold stable_sort.
  assert (forall le l acc, Permutation (fold_left (fun acc x => insert_by le x acc) l acc) (l ++ acc)) as K.
  { intros le. induction l0 as [|x l0 IH]; intros acc; simpl; [apply Permutation_refl|].
    eapply perm_trans; [apply IH|]. eapply perm_trans; [apply Permutation_app_head, insert_by_perm|].
    apply Permutation_sym, Permutation_middle. }
  specialize (K (if mx then fun a b : Q => Qleb b a else Qleb) l []). now rewrite app_nil_r in K.
Qed.

Lemma top_list_incl mx r n x : In x (top_list mx r n) -> In x (map fst r).
Proof.
  unfold top_list. destruct (Nat.leb n (length (valid_of r))).
  - intros H. apply in_map_iff in H as [y [<- H]]. apply firstn_In_sub in H.
    apply (Permutation_in _ (stable_sort_perm mx (valid_of r))) in H.
    apply valid_of_In. now apply in_map.
  - intros H. apply in_app_or in H as [H|H]; [now apply valid_of_In|].
    apply firstn_In_sub in H. now apply invalid_of_In.
Qed.

Lemma top_list_NoDup mx r n : NoDup (map fst r) -> NoDup (top_list mx r n).
Proof.
  intros H. destruct (valid_invalid_NoDup r H) as [A [B C]]. unfold top_list.
  destruct (Nat.leb n (length (valid_of r))).
  - rewrite <- firstn_map. apply NoDup_firstn.
    apply (Permutation_NoDup (l := map fst (valid_of r))); [|exact A].
    apply Permutation_map, Permutation_sym, stable_sort_perm.
  - apply NoDup_app_iff. split; [exact A|]. split; [now apply NoDup_firstn|].
    intros x Hx Hin. apply firstn_In_sub in Hin. exact (C x Hx Hin).
Qed.

Lemma remaining_list_spec r top x : In x (remaining_list r top) -> In x (map fst r) /\ ~ In x top.
Proof.
  unfold remaining_list. rewrite filter_In, negb_true_iff. intros [H1 H2]. split; [exact H1|].
  intros Hin. apply mem_Z_In in Hin. congruence.
Qed.

Global Arguments dslot : simpl never.
Global Arguments dbr : simpl never.

(* ---- the invariant of the bracket manager ---------------------------------------------- *)
Definition pend_ids (s : sync) : list Z := map fst (s_pending s).
Definition sync_needed (s : sync) : list Z := pend_ids s ++ all_ids (s_brs s).

(* a bracket that still hands out slots: the free position is inside the rung and the slots
   from it on have no result yet *)
Definition bwf (b : sbracket) : Prop :=
  b_done b = false ->
  (b_free b <= length (b_cur b))%nat /\
  forall pos, (b_free b <= pos)%nat -> snd (nth pos (b_cur b) dslot) = None.

(* a pending job (trial t runs for slot pos of bracket k): the slot was handed out, has no
   result yet, and holds t (a promoted trial) or nothing (a new trial, known nowhere else) *)
Definition pend_ok (brs : list sbracket) (e : Z * (nat * nat)) : Prop :=
  let k := fst (snd e) in let pos := snd (snd e) in let t := fst e in
  (k < length brs)%nat /\
  b_done (nth k brs dbr) = false /\ (pos < b_free (nth k brs dbr))%nat /\
  (nth pos (b_cur (nth k brs dbr)) dslot = (Some t, None) \/
   (nth pos (b_cur (nth k brs dbr)) dslot = (None, None) /\ ~ In t (all_ids brs))).

Definition tbl_ok (tbl : list (list (nat * Z))) : Prop :=
  tbl <> [] /\ Forall (fun rungs => exists sz lv r, rungs = (Datatypes.S sz, lv) :: r) tbl.

Record sync_inv (n : Z) (s : sync) : Prop := {
  si_n : (0 <= n)%Z;
  si_tbl : tbl_ok (s_tbl s);
  si_bound : forall x, In x (sync_needed s ++ s_rem s) -> (0 <= x < n)%Z;
  si_nodup : NoDup (all_ids (s_brs s));
  si_pnodup : NoDup (pend_ids s);
  si_pend : Forall (pend_ok (s_brs s)) (s_pending s);
  si_slots : forall t t' k pos, In (t, (k, pos)) (s_pending s) -> In (t', (k, pos)) (s_pending s) -> t = t';
  si_bwf : Forall bwf (s_brs s);
  si_rem : forall x, In x (s_rem s) -> ~ In x (sync_needed s) }.

Lemma pending_of_In l i x : pending_of l i = Some x -> In (i, x) l.
Proof.
  induction l as [|[j y] l IH]; simpl; [discriminate|].
  destruct (Z.eqb j i) eqn:E; [intros H; injection H as <-; apply Z.eqb_eq in E; subst; now left | intros H; right; auto].
Qed.

Lemma pending_of_None l i : pending_of l i = None -> ~ In i (map fst l).
Proof.
  induction l as [|[j y] l IH]; simpl; [tauto|].
  destruct (Z.eqb j i) eqn:E; [discriminate|]. apply Z.eqb_neq in E. intros H [Hj|Hj]; [congruence | exact (IH H Hj)].
Qed.

Lemma remove_pending_In l i e : In e (remove_pending l i) <-> In e l /\ fst e <> i.
Proof. unfold remove_pending. rewrite filter_In, negb_true_iff, Z.eqb_neq. tauto. Qed.

Lemma remove_pending_ids l i x : In x (map fst (remove_pending l i)) <-> In x (map fst l) /\ x <> i.
Proof.
  rewrite !in_map_iff. split.
  - intros [e [<- He]]. apply remove_pending_In in He as [H1 H2]. split; [exists e; auto|exact H2].
  - intros [[e [<- He]] Hn]. exists e. split; [reflexivity|]. apply remove_pending_In. auto.
Qed.

Lemma remove_pending_NoDup l i : NoDup (map fst l) -> NoDup (map fst (remove_pending l i)).
Proof.
  induction l as [|[j y] l IH]; simpl; intros H; [constructor|]. inversion H; subst.
  destruct (negb (Z.eqb j i)); simpl; [|now apply IH]. constructor; [|now apply IH].
  intros Hin. apply H2. apply remove_pending_ids in Hin. tauto.
Qed.

Lemma all_occupied_nth cur pos : all_occupied cur = true -> (pos < length cur)%nat ->
  snd (nth pos cur dslot) <> None.
Proof.
  unfold all_occupied. rewrite forallb_forall. intros H Hl.
  specialize (H (nth pos cur dslot) (nth_In _ _ Hl)). destruct (snd (nth pos cur dslot)); [discriminate|discriminate].
Qed.

Lemma Forall_upd_nth {A} (P : A -> Prop) (l : list A) k x : Forall P l -> P x -> Forall P (upd_nth l k x).
Proof.
  intros Hl Hx. apply Forall_forall. intros y Hy. apply In_upd_nth in Hy as [->|Hy]; [exact Hx|].
  rewrite Forall_forall in Hl. now apply Hl.
Qed.

Lemma bids_in_all brs k x : (k < length brs)%nat -> In x (bids (nth k brs dbr)) -> In x (all_ids brs).
Proof. intros Hk Hx. unfold all_ids. apply in_flat_map. exists (nth k brs dbr). split; [now apply nth_In|exact Hx]. Qed.

Lemma slot_in_sids cur pos t a : (pos < length cur)%nat -> nth pos cur dslot = (Some t, a) -> In t (sids cur).
Proof. intros Hl E. apply sids_In. exists (Some t, a). split; [rewrite <- E; now apply nth_In|reflexivity]. Qed.

(* ---- creating a bracket -------------------------------------------------------------------- *)
Lemma all_ids_app a b : all_ids (a ++ b) = all_ids a ++ all_ids b.
Proof. unfold all_ids. apply flat_map_app. Qed.

Lemma new_bracket_ids rungs : bids (new_bracket rungs) = [].
Proof. destruct rungs as [|[sz lv] r]; simpl; [reflexivity|]. unfold bids. simpl. apply sids_repeat_none. Qed.

Lemma nth_repeat_dslot n pos : nth pos (repeat dslot n) dslot = dslot.
Proof. revert pos. induction n; intros [|pos]; simpl; auto. Qed.

Lemma new_bracket_bwf rungs : bwf (new_bracket rungs).
Proof.
  destruct rungs as [|[sz lv] r]; simpl; intros H; [discriminate|]. simpl. split; [lia|].
  intros pos _. fold dslot. now rewrite nth_repeat_dslot.
Qed.

Lemma pend_ok_app brs nb e : bids nb = [] -> pend_ok brs e -> pend_ok (brs ++ [nb]) e.
Proof.
  intros Hnb [Hk [Hd [Hp Hs]]]. unfold pend_ok. rewrite app_length. simpl.
  rewrite (nth_app_left brs [nb] _ dbr Hk). split; [lia|]. split; [exact Hd|]. split; [exact Hp|].
  destruct Hs as [Hs|[Hs Hn]]; [now left|right]. split; [exact Hs|].
  rewrite all_ids_app. replace (all_ids [nb]) with (@nil Z); [now rewrite app_nil_r|].
  unfold all_ids. simpl. now rewrite Hnb.
Qed.

Lemma create_bracket_inv n s p : sync_inv n s ->
  let s' := create_bracket s in
  sync_inv n {| s_tbl := s_tbl s'; s_max := s_max s'; s_brs := s_brs s'; s_primary := p;
                s_pending := s_pending s'; s_rem := s_rem s' |}.
Proof.
  intros H. simpl.
  set (nb := new_bracket (nth (Nat.modulo (length (s_brs s)) (length (s_tbl s))) (s_tbl s) [])).
  assert (all_ids (s_brs s ++ [nb]) = all_ids (s_brs s)) as Eids.
  { rewrite all_ids_app. replace (all_ids [nb]) with (@nil Z); [now rewrite app_nil_r|].
    unfold all_ids. simpl. unfold nb. now rewrite new_bracket_ids. }
  destruct H. constructor; simpl; auto.
  - unfold sync_needed, pend_ids in *. simpl. now rewrite Eids.
  - now rewrite Eids.
  - eapply Forall_impl; [|exact si_pend0]. intros e He. apply pend_ok_app; [apply new_bracket_ids|exact He].
  - apply Forall_app. split; [exact si_bwf0|]. constructor; [apply new_bracket_bwf|constructor].
  - unfold sync_needed, pend_ids in *. simpl. now rewrite Eids.
Qed.

(* ---- delivering a result (or NaN) for a pending trial ---------------------------------------- *)
Lemma bids_mk cur lv fr lt dn : bids {| b_cur := cur; b_level := lv; b_free := fr; b_later := lt; b_done := dn |} = sids cur.
Proof. reflexivity. Qed.

Lemma nth_top_slot (top : list Z) pos :
  snd (nth pos (map (fun t : Z => (Some t, @None (option Q))) top) dslot) = None.
Proof. revert pos. induction top as [|x top IH]; intros [|pos]; simpl; auto. Qed.

Lemma deliver_inv n s i k pos m : sync_inv n s -> In (i, (k, pos)) (s_pending s) ->
  let s' := sync_deliver s i k pos m in
  sync_inv n s' /\ incl (sync_needed s') (sync_needed s) /\
  (forall x, In x (pend_ids s) -> x <> i -> In x (pend_ids s')).
Proof.
  intros HI Hin.
  pose proof HI as [H0 Htbl Hbound Hnd Hpnd Hpend Hslots Hbwf Hrem].
  set (brs := s_brs s) in *. set (b := nth k brs dbr) in *. set (cur := b_cur b) in *.
  set (sl := (Some i, Some m) : slot). set (cur' := upd_nth cur pos sl).
  (* the pending entry *)
  pose proof (proj1 (Forall_forall _ _) Hpend _ Hin) as [Hk [Hbd [Hpf Hslot]]]. simpl in Hk, Hbd, Hpf, Hslot.
  fold brs in Hk, Hbd, Hpf, Hslot. fold b in Hbd, Hpf, Hslot. fold cur in Hslot.
  assert (bwf b) as Hb by (apply (proj1 (Forall_forall _ _) Hbwf); apply nth_In; exact Hk).
  destruct (Hb Hbd) as [Hfl Hun]. fold cur in Hfl, Hun.
  assert (pos < length cur)%nat as Hpl by lia.
  (* contexts *)
  destruct (flat_map_upd_nth sid cur pos dslot Hpl) as [P [Q [HPQ1 [HPQ2 HPQ3]]]].
  destruct (flat_map_upd_nth bids brs k dbr Hk) as [A [C [HAC1 [HAC2 HAC3]]]].
  fold (sids cur) in HPQ2. fold (all_ids brs) in HAC2. fold b in HAC2.
  assert (sids cur' = P ++ i :: Q) as EX' by (unfold cur', sids; rewrite HPQ1; reflexivity).
  assert (NoDup (A ++ sids cur' ++ C) /\ incl (sids cur') (i :: sids cur)) as [HND' HXi].
  { rewrite EX'. destruct Hslot as [Hs|[Hs Hni]]; rewrite Hs in HPQ2; simpl in HPQ2.
    - split; [|intros x Hx; right; rewrite HPQ2; exact Hx].
      replace (P ++ i :: Q) with (sids cur) by exact HPQ2. unfold bids in HAC2. fold cur in HAC2. rewrite <- HAC2. exact Hnd.
    - split.
      + apply NoDup_mid_insert; unfold bids in HAC2; fold cur in HAC2; rewrite HPQ2 in HAC2; rewrite <- HAC2; assumption.
      + intros x Hx. apply in_app_or in Hx as [Hx|[<-|Hx]]; [right|now left|right]; rewrite HPQ2; apply in_or_app; tauto. }
  assert (incl (sids cur) (all_ids brs)) as Hcur_all by (intros x Hx; apply (bids_in_all brs k x Hk Hx)).
  assert (In i (pend_ids s)) as Hip by (apply in_map_iff; exists (i, (k, pos)); auto).
  (* no other pending job in bracket k once all slots have a result *)
  assert (all_occupied cur' = true -> forall t p2, In (t, (k, p2)) (s_pending s) -> t = i) as HnoK.
  { intros Hocc t p2 Ht. destruct (Z.eq_dec t i) as [->|Hne]; [reflexivity|exfalso].
    assert (p2 <> pos) as Hp2 by (intros ->; apply Hne; exact (Hslots _ _ _ _ Ht Hin)).
    pose proof (proj1 (Forall_forall _ _) Hpend _ Ht) as [_ [_ [Hpf2 Hs2]]]. simpl in Hpf2, Hs2.
    fold brs in Hpf2, Hs2. fold b in Hpf2, Hs2. fold cur in Hs2.
    apply (all_occupied_nth cur' p2 Hocc); [unfold cur'; rewrite upd_nth_length; lia|].
    unfold cur'. rewrite nth_upd_nth_neq; [|congruence]. destruct Hs2 as [Hs2|[Hs2 _]]; now rewrite Hs2. }
  (* generic reconstruction of the invariant for a new bracket b' and a new list of removable trials *)
  assert (forall b' L p,
            incl (bids b') (sids cur') -> NoDup (bids b') -> bwf b' ->
            (forall t p2, In (t, (k, p2)) (s_pending s) -> t <> i ->
               b_done b' = false /\ (p2 < b_free b')%nat /\ nth p2 (b_cur b') dslot = nth p2 cur dslot) ->
            (forall x, In x L -> In x (sids cur') /\ ~ In x (bids b') /\ (x <> i -> ~ In x (pend_ids s))) ->
            let s1 := {| s_tbl := s_tbl s; s_max := s_max s; s_brs := upd_nth brs k b'; s_primary := p;
                         s_pending := remove_pending (s_pending s) i; s_rem := s_rem s ++ L |} in
            sync_inv n s1 /\ incl (sync_needed s1) (sync_needed s) /\
            (forall x, In x (pend_ids s) -> x <> i -> In x (pend_ids s1))) as K.
  { intros b' L p Hb'i Hb'n Hb'w Hb'p HL s1.
    assert (all_ids (upd_nth brs k b') = A ++ bids b' ++ C) as Eall by apply HAC1.
    assert (incl (all_ids (upd_nth brs k b')) (i :: all_ids brs)) as Hall_i.
    { rewrite Eall, HAC2. intros x Hx. apply in_app_or in Hx as [Hx|Hx]; [right; apply in_or_app; now left|].
      apply in_app_or in Hx as [Hx|Hx]; [|right; apply in_or_app; right; apply in_or_app; now right].
      apply Hb'i, HXi in Hx. destruct Hx as [<-|Hx]; [now left|right]. apply in_or_app. right. apply in_or_app. left. exact Hx. }
    assert (incl (sync_needed s1) (sync_needed s)) as Hneed.
    { unfold sync_needed, pend_ids. simpl. intros x Hx. apply in_app_or in Hx as [Hx|Hx].
      - apply remove_pending_ids in Hx. apply in_or_app. left. tauto.
      - apply Hall_i in Hx. destruct Hx as [<-|Hx]; apply in_or_app; [left; exact Hip | now right]. }
    split; [|split; [exact Hneed|]].
    2:{ intros x Hx Hn. unfold pend_ids. simpl. apply remove_pending_ids. auto. }
    constructor; simpl; auto.
    - (* bounds *)
      intros x Hx. apply in_app_or in Hx as [Hx|Hx]; [apply Hbound; apply in_or_app; left; now apply Hneed|].
      apply in_app_or in Hx as [Hx|Hx]; [apply Hbound; apply in_or_app; now right|].
      destruct (HL x Hx) as [Hx1 _]. apply HXi in Hx1. apply Hbound. apply in_or_app. left. unfold sync_needed.
      destruct Hx1 as [<-|Hx1]; apply in_or_app; [left; exact Hip | right; now apply Hcur_all].
    - (* NoDup of all ids *)
      rewrite Eall. eapply NoDup_mid_sub; eauto.
    - now apply remove_pending_NoDup.
    - (* pending jobs *)
      apply Forall_forall. intros [t [k2 p2]] He. apply remove_pending_In in He as [He Hne]. simpl in Hne.
      pose proof (proj1 (Forall_forall _ _) Hpend _ He) as [Hk2 [Hd2 [Hp2 Hs2]]]. simpl in Hk2, Hd2, Hp2, Hs2.
      unfold pend_ok. simpl. rewrite upd_nth_length. split; [exact Hk2|].
      destruct (Nat.eq_dec k2 k) as [->|Hkk].
      + rewrite nth_upd_nth_eq; [|exact Hk]. destruct (Hb'p t p2 He Hne) as [B1 [B2 B3]].
        split; [exact B1|]. split; [exact B2|]. rewrite B3. fold brs b cur in Hs2.
        destruct Hs2 as [Hs2|[Hs2 Hn2]]; [now left|right]. split; [exact Hs2|].
        intros Hx. apply Hall_i in Hx. destruct Hx as [Hx|Hx]; [congruence|exact (Hn2 Hx)].
      + rewrite nth_upd_nth_neq; [|congruence]. split; [exact Hd2|]. split; [exact Hp2|].
        destruct Hs2 as [Hs2|[Hs2 Hn2]]; [now left|right]. split; [exact Hs2|].
        intros Hx. apply Hall_i in Hx. destruct Hx as [Hx|Hx]; [congruence|exact (Hn2 Hx)].
    - intros t t' k2 p2 H1 H2. apply remove_pending_In in H1 as [H1 _]. apply remove_pending_In in H2 as [H2 _]. eauto.
    - now apply Forall_upd_nth.
    - (* removable trials are not needed any more *)
      intros x Hx Hnx. apply in_app_or in Hx as [Hx|Hx]; [exact (Hrem x Hx (Hneed x Hnx))|].
      destruct (HL x Hx) as [Hx1 [Hx2 Hx3]]. unfold sync_needed, pend_ids in Hnx. simpl in Hnx.
      apply in_app_or in Hnx as [Hnx|Hnx].
      + apply remove_pending_ids in Hnx as [Hnx Hne]. exact (Hx3 Hne Hnx).
      + rewrite Eall in Hnx. apply NoDup_app_iff in HND' as [_ [HND2 HAx]]. apply NoDup_app_iff in HND2 as [_ [_ HxC]].
        apply in_app_or in Hnx as [Hnx|Hnx]; [apply (HAx x Hnx); apply in_or_app; now left|].
        apply in_app_or in Hnx as [Hnx|Hnx]; [contradiction | exact (HxC x Hx1 Hnx)]. }
  (* the three cases of SynchronousBracket.on_result *)
  cbv zeta. unfold sync_deliver, bracket_on_result. change (new_bracket []) with dbr. fold brs. fold b. fold cur. fold sl. fold cur'.
  assert (forall s1, sync_inv n s1 ->
            forall cnd p', sync_inv n (if cnd : bool then
               let s2 := create_bracket s1 in
               {| s_tbl := s_tbl s2; s_max := s_max s2; s_brs := s_brs s2; s_primary := p';
                  s_pending := s_pending s2; s_rem := s_rem s2 |} else s1)) as Kc.
  { intros s1 H1 cnd p'. destruct cnd; [now apply create_bracket_inv|exact H1]. }
  assert (NoDup (sids cur')) as HNDc.
  { apply NoDup_app_iff in HND' as [_ [H2 _]]. now apply NoDup_app_iff in H2 as [H2 _]. }
  destruct (Nat.leb (length cur') (b_free b) && all_occupied cur') eqn:Ecmp.
  - apply andb_true_iff in Ecmp as [_ Hocc].
    destruct (b_later b) as [|[sz lv] later] eqn:El.
    + (* last rung: the bracket is complete *)
      cbv beta iota zeta.
      match goal with |- context [upd_nth brs k ?bb] => set (b' := bb) end.
      destruct (K b' [] (if Nat.eqb k (s_primary s) then advance_primary (upd_nth brs k b') (s_primary s) (length (upd_nth brs k b')) else s_primary s))
        as [K1 [K2 K3]].
      * unfold b'. rewrite bids_mk. apply incl_refl.
      * unfold b'. rewrite bids_mk. exact HNDc.
      * unfold b', bwf. simpl. discriminate.
      * intros t p2 Ht Hne. exfalso. apply Hne. exact (HnoK Hocc t p2 Ht).
      * intros x [].
      * simpl in *. rewrite app_nil_r in *.
        match goal with |- context [if ?cnd then _ else _] => destruct cnd end.
        -- split; [|split].
           ++ apply (create_bracket_inv n _ _ K1).
           ++ simpl. unfold sync_needed, pend_ids in *. simpl in *. rewrite all_ids_app.
              replace (all_ids [new_bracket _]) with (@nil Z) by (unfold all_ids; simpl; now rewrite new_bracket_ids).
              now rewrite app_nil_r.
           ++ exact K3.
        -- auto.
    + (* rung complete: promote the top list, the rest can be removed *)
      cbv beta iota zeta.
      set (rung := occupied cur'). set (top := top_list (s_max s) rung sz).
      match goal with |- context [upd_nth brs k ?bb] => set (b' := bb) end.
      assert (incl top (sids cur')) as Htop.
      { intros x Hx. apply top_list_incl in Hx. now apply occupied_ids_incl. }
      destruct (K b' (remaining_list rung top)
                  (if Nat.eqb k (s_primary s) then advance_primary (upd_nth brs k b') (s_primary s) (length (upd_nth brs k b')) else s_primary s))
        as [K1 [K2 K3]].
      * unfold b'. rewrite bids_mk, sids_top. exact Htop.
      * unfold b'. rewrite bids_mk, sids_top. apply top_list_NoDup. now apply occupied_NoDup.
      * unfold b', bwf. simpl. intros _. split; [lia|]. intros p _. apply nth_top_slot.
      * intros t p2 Ht Hne. exfalso. apply Hne. exact (HnoK Hocc t p2 Ht).
      * intros x Hx. apply remaining_list_spec in Hx as [Hx1 Hx2]. split; [now apply occupied_ids_incl|].
        split; [unfold b'; now rewrite bids_mk, sids_top|].
        intros Hne Hxp. apply in_map_iff in Hxp as [[t [k2 p2]] [Ht1 Ht2]]. simpl in Ht1. subst t.
        pose proof (proj1 (Forall_forall _ _) Hpend _ Ht2) as [Hk2 [_ [_ Hs2]]]. simpl in Hk2, Hs2. fold brs in Hk2, Hs2.
        assert (In x (sids cur)) as Hxc.
        { apply occupied_ids_incl, HXi in Hx1. destruct Hx1 as [Hx1|Hx1]; [congruence|exact Hx1]. }
        destruct Hs2 as [Hs2|[_ Hn2]]; [|apply Hn2; now apply Hcur_all].
        destruct (Nat.eq_dec k2 k) as [->|Hkk]; [apply Hne; exact (HnoK Hocc x p2 Ht2)|].
        (* x would occur in two different brackets *)
        assert (In x (bids (nth k2 brs dbr))) as Hx2'.
        { pose proof (proj1 (Forall_forall _ _) Hpend _ Ht2) as [_ [Hd2 [Hp2 _]]]. simpl in Hd2, Hp2. fold brs in Hd2, Hp2.
          assert (bwf (nth k2 brs dbr)) as Hb2 by (apply (proj1 (Forall_forall _ _) Hbwf); now apply nth_In).
          destruct (Hb2 Hd2) as [Hfl2 _]. apply (slot_in_sids _ p2 x None); [lia|exact Hs2]. }
        apply (HAC3 k2 Hkk Hk2) in Hx2'. rewrite HAC2 in Hnd. unfold bids in Hnd at 1. fold cur in Hnd.
        apply NoDup_app_iff in Hnd as [_ [Hn2 HAx]]. apply NoDup_app_iff in Hn2 as [_ [_ HxC]].
        apply in_app_or in Hx2' as [Hx2'|Hx2']; [apply (HAx x Hx2'); apply in_or_app; now left | exact (HxC x Hxc Hx2')].
      * simpl in *.
        match goal with |- context [if ?cnd then _ else _] => destruct cnd end.
        -- split; [|split].
           ++ apply (create_bracket_inv n _ _ K1).
           ++ simpl. unfold sync_needed, pend_ids in *. simpl in *. rewrite all_ids_app.
              replace (all_ids [new_bracket _]) with (@nil Z) by (unfold all_ids; simpl; now rewrite new_bracket_ids).
              now rewrite app_nil_r.
           ++ exact K3.
        -- auto.
  - (* the rung is not complete yet *)
    cbv beta iota zeta.
    match goal with |- context [upd_nth brs k ?bb] => set (b' := bb) end.
    destruct (K b' [] (if Nat.eqb k (s_primary s) then advance_primary (upd_nth brs k b') (s_primary s) (length (upd_nth brs k b')) else s_primary s))
      as [K1 [K2 K3]].
    * unfold b'. rewrite bids_mk. apply incl_refl.
    * unfold b'. rewrite bids_mk. exact HNDc.
    * unfold b', bwf. simpl. intros _. unfold cur'. rewrite upd_nth_length. split; [exact Hfl|].
      intros p Hp. rewrite nth_upd_nth_neq; [now apply Hun|lia].
    * intros t p2 Ht Hne. unfold b'. simpl.
      pose proof (proj1 (Forall_forall _ _) Hpend _ Ht) as [_ [_ [Hp2 _]]]. simpl in Hp2. fold brs b in Hp2.
      split; [exact Hbd|]. split; [exact Hp2|]. unfold cur'. apply nth_upd_nth_neq.
      intros ->. apply Hne. exact (Hslots _ _ _ _ Ht Hin).
    * intros x [].
    * simpl in *. rewrite app_nil_r in *.
      match goal with |- context [if ?cnd then _ else _] => destruct cnd end.
      -- split; [|split].
         ++ apply (create_bracket_inv n _ _ K1).
         ++ simpl. unfold sync_needed, pend_ids in *. simpl in *. rewrite all_ids_app.
            replace (all_ids [new_bracket _]) with (@nil Z) by (unfold all_ids; simpl; now rewrite new_bracket_ids).
            now rewrite app_nil_r.
         ++ exact K3.
      -- auto.
Qed.

(* ---- handing out a slot (next_job) and registering the job ------------------------------------ *)
Lemma next_free_slot_spec b b' pos tid : next_free_slot b = Some (b', pos, tid) ->
  b_done b = false /\ (b_free b < length (b_cur b))%nat /\ pos = b_free b /\
  tid = fst (nth pos (b_cur b) dslot) /\
  b' = {| b_cur := b_cur b; b_level := b_level b; b_free := Datatypes.S (b_free b); b_later := b_later b; b_done := b_done b |}.
Proof.
  unfold next_free_slot. destruct (b_done b); [discriminate|].
  destruct (Nat.leb (length (b_cur b)) (b_free b)) eqn:E; [discriminate|].
  apply Nat.leb_gt in E. intros H. injection H as <- <- <-. repeat split; auto.
Qed.

Lemma find_slot_spec : forall brs k0 from k b' pos tid, find_slot brs k0 from = Some (k, b', pos, tid) ->
  (k0 <= k)%nat /\ (k - k0 < length brs)%nat /\ next_free_slot (nth (k - k0) brs dbr) = Some (b', pos, tid).
Proof.
  induction brs as [|b brs IH]; intros k0 from k b' pos tid; simpl; [discriminate|].
  assert (forall H : find_slot brs (Datatypes.S k0) from = Some (k, b', pos, tid),
            (k0 <= k)%nat /\ (k - k0 < Datatypes.S (length brs))%nat /\
            next_free_slot (nth (k - k0) (b :: brs) dbr) = Some (b', pos, tid)) as K.
  { intros H. destruct (IH _ _ _ _ _ _ H) as [H1 [H2 H3]]. split; [lia|]. split; [lia|].
    replace (k - k0)%nat with (Datatypes.S (k - Datatypes.S k0)) by lia. exact H3. }
  destruct (Nat.ltb k0 from); [exact K|].
  destruct (next_free_slot b) as [[[b1 p1] t1]|] eqn:E; [|exact K].
  intros H. injection H as <- <- <- <-. rewrite Nat.sub_diag. simpl. split; [lia|]. split; [lia|exact E].
Qed.

Lemma register_inv n s k b' pos tid p : sync_inv n s -> (k < length (s_brs s))%nat ->
  next_free_slot (nth k (s_brs s) dbr) = Some (b', pos, tid) ->
  match tid with
  | Some t =>
      let s2 := {| s_tbl := s_tbl s; s_max := s_max s; s_brs := upd_nth (s_brs s) k b'; s_primary := p;
                   s_pending := (t, (k, pos)) :: s_pending s; s_rem := s_rem s |} in
      sync_inv n s2 /\ incl (sync_needed s2) (sync_needed s) /\ In t (sync_needed s) /\
      incl (t :: pend_ids s) (pend_ids s2)
  | None =>
      let s2 := {| s_tbl := s_tbl s; s_max := s_max s; s_brs := upd_nth (s_brs s) k b'; s_primary := p;
                   s_pending := (n, (k, pos)) :: s_pending s; s_rem := s_rem s |} in
      sync_inv (n + 1)%Z s2 /\ incl (sync_needed s2) (n :: sync_needed s) /\ incl (n :: pend_ids s) (pend_ids s2)
  end.
Proof.
  intros HI Hk Hnf.
  pose proof HI as [H0 Htbl Hbound Hnd Hpnd Hpend Hslots Hbwf Hrem].
  set (brs := s_brs s) in *. set (b := nth k brs dbr) in *. set (cur := b_cur b) in *.
  destruct (next_free_slot_spec _ _ _ _ Hnf) as [Hbd [Hlt [-> [-> ->]]]]. fold cur.
  assert (bwf b) as Hb by (apply (proj1 (Forall_forall _ _) Hbwf); apply nth_In; exact Hk).
  destruct (Hb Hbd) as [Hfl Hun]. fold cur in Hfl, Hun, Hlt.
  set (pos := b_free b) in *.
  set (b' := {| b_cur := cur; b_level := b_level b; b_free := Datatypes.S pos; b_later := b_later b; b_done := b_done b |}).
  destruct (flat_map_upd_nth bids brs k dbr Hk) as [A [C [HAC1 [HAC2 HAC3]]]].
  fold (all_ids brs) in HAC2. fold b in HAC2.
  assert (all_ids (upd_nth brs k b') = all_ids brs) as Eall.
  { unfold all_ids at 1. rewrite HAC1, HAC2. reflexivity. }
  assert (snd (nth pos cur dslot) = None) as Hsnd by (apply Hun; lia).
  assert (nth pos cur dslot = (fst (nth pos cur dslot), None)) as Hnth.
  { rewrite <- Hsnd. now destruct (nth pos cur dslot). }
  assert (bwf b') as Hb'.
  { unfold b', bwf. simpl. intros _. split; [lia|]. intros q Hq. apply Hun. lia. }
  (* old pending jobs stay well-formed *)
  assert (forall e, In e (s_pending s) -> pend_ok (upd_nth brs k b') e) as Hold.
  { intros [t [k2 p2]] He. pose proof (proj1 (Forall_forall _ _) Hpend _ He) as [Hk2 [Hd2 [Hp2 Hs2]]].
    simpl in Hk2, Hd2, Hp2, Hs2. unfold pend_ok. simpl. rewrite upd_nth_length, Eall. split; [exact Hk2|].
    destruct (Nat.eq_dec k2 k) as [->|Hkk].
    - rewrite nth_upd_nth_eq; [|exact Hk]. unfold b'. simpl. fold brs b in Hd2, Hp2, Hs2. fold cur in Hs2. fold pos in Hp2.
      split; [exact Hd2|]. split; [lia|exact Hs2].
    - rewrite nth_upd_nth_neq; [|congruence]. auto. }
  assert (forall t', ~ In (t', (k, pos)) (s_pending s)) as Hfresh_slot.
  { intros t' Ht'. pose proof (proj1 (Forall_forall _ _) Hpend _ Ht') as [_ [_ [Hp2 _]]]. simpl in Hp2.
    fold brs b in Hp2. fold pos in Hp2. lia. }
  assert (forall t t' k2 p2 e0, fst (snd e0) = k -> snd (snd e0) = pos ->
            In (t, (k2, p2)) (e0 :: s_pending s) -> In (t', (k2, p2)) (e0 :: s_pending s) -> t = t') as Hsl.
  { intros t t' k2 p2 [t0 [k0 p0]] Ek Ep [H1|H1] [H2|H2]; simpl in Ek, Ep; subst.
    - congruence.
    - injection H1 as -> -> ->. exfalso. exact (Hfresh_slot _ H2).
    - injection H2 as -> -> ->. exfalso. exact (Hfresh_slot _ H1).
    - eauto. }
  destruct (fst (nth pos cur dslot)) as [t|] eqn:Etid.
  - (* a promoted trial is resumed *)
    assert (In t (sids cur)) as Htc by (apply (slot_in_sids cur pos t None); [lia|exact Hnth]).
    assert (In t (all_ids brs)) as Hta by (apply (bids_in_all brs k t Hk); exact Htc).
    assert (~ In t (pend_ids s)) as Htp.
    { intros Hin. apply in_map_iff in Hin as [[t1 [k2 p2]] [Ht1 Ht2]]. simpl in Ht1. subst t1.
      pose proof (proj1 (Forall_forall _ _) Hpend _ Ht2) as [Hk2 [Hd2 [Hp2 Hs2]]]. simpl in Hk2, Hd2, Hp2, Hs2.
      fold brs in Hk2, Hd2, Hp2, Hs2.
      destruct Hs2 as [Hs2|[_ Hn2]]; [|exact (Hn2 Hta)].
      rewrite HAC2 in Hnd. unfold bids in Hnd at 1. fold cur in Hnd.
      apply NoDup_app_iff in Hnd as [_ [Hn2 HAx]]. apply NoDup_app_iff in Hn2 as [Hnc [_ HxC]].
      destruct (Nat.eq_dec k2 k) as [->|Hkk].
      - fold b in Hp2, Hs2. fold cur in Hs2. fold pos in Hp2.
        destruct (flat_map_upd_nth sid cur pos dslot Hlt) as [P [Q [_ [HPQ2 HPQ3]]]].
        fold (sids cur) in HPQ2. rewrite Hnth in HPQ2. simpl in HPQ2.
        assert (In t (P ++ Q)) as HtPQ.
        { apply (HPQ3 p2); [lia|lia|]. rewrite Hs2. simpl. now left. }
        rewrite HPQ2 in Hnc. apply NoDup_remove_2 in Hnc. exact (Hnc HtPQ).
      - assert (bwf (nth k2 brs dbr)) as Hb2 by (apply (proj1 (Forall_forall _ _) Hbwf); now apply nth_In).
        destruct (Hb2 Hd2) as [Hfl2 _].
        assert (In t (bids (nth k2 brs dbr))) as Ht2' by (apply (slot_in_sids _ p2 t None); [lia|exact Hs2]).
        apply (HAC3 k2 Hkk Hk2) in Ht2'.
        apply in_app_or in Ht2' as [Ht2'|Ht2']; [apply (HAx t Ht2'); apply in_or_app; now left | exact (HxC t Htc Ht2')]. }
    simpl. split; [|split; [|split]].
    + constructor; simpl; auto.
      * intros x Hx. apply Hbound. unfold sync_needed, pend_ids in *. simpl in Hx. rewrite Eall in Hx.
        destruct Hx as [<-|Hx]; [apply in_or_app; left; apply in_or_app; now right | exact Hx].
      * now rewrite Eall.
      * constructor; assumption.
      * constructor; [|apply Forall_forall; exact Hold].
        unfold pend_ok. simpl. rewrite upd_nth_length, nth_upd_nth_eq; [|exact Hk]. unfold b'. simpl.
        split; [exact Hk|]. split; [exact Hbd|]. split; [lia|left; exact Hnth].
      * intros t1 t2 k2 p2. apply (Hsl t1 t2 k2 p2 (t, (k, pos))); reflexivity.
      * now apply Forall_upd_nth.
      * intros x Hx Hnx. apply (Hrem x Hx). unfold sync_needed, pend_ids in *. simpl in Hnx. rewrite Eall in Hnx.
        destruct Hnx as [<-|Hnx]; [apply in_or_app; now right | exact Hnx].
    + unfold sync_needed, pend_ids. simpl. rewrite Eall. intros x [<-|Hx]; [apply in_or_app; now right | exact Hx].
    + unfold sync_needed. apply in_or_app. now right.
    + unfold pend_ids. simpl. apply incl_refl.
  - (* a new trial (id n) gets the slot *)
    assert (~ In n (sync_needed s ++ s_rem s)) as Hn by (intros Hin; apply Hbound in Hin; lia).
    simpl. split; [|split].
    + constructor; simpl; auto; try lia.
      * intros x Hx. unfold sync_needed, pend_ids in *. simpl in Hx. rewrite Eall in Hx.
        destruct Hx as [<-|Hx]; [lia|]. specialize (Hbound x Hx). lia.
      * now rewrite Eall.
      * constructor; [|exact Hpnd]. intros Hin. apply Hn. apply in_or_app. left. apply in_or_app. now left.
      * constructor; [|apply Forall_forall; exact Hold].
        unfold pend_ok. simpl. rewrite upd_nth_length, nth_upd_nth_eq, Eall; [|exact Hk]. unfold b'. simpl.
        split; [exact Hk|]. split; [exact Hbd|]. split; [lia|right]. split; [exact Hnth|].
        intros Hin. apply Hn. apply in_or_app. left. apply in_or_app. now right.
      * intros t1 t2 k2 p2. apply (Hsl t1 t2 k2 p2 (n, (k, pos))); reflexivity.
      * now apply Forall_upd_nth.
      * intros x Hx Hnx. unfold sync_needed, pend_ids in *. simpl in Hnx. rewrite Eall in Hnx.
        destruct Hnx as [<-|Hnx]; [apply Hn; apply in_or_app; now right | exact (Hrem x Hx Hnx)].
    + unfold sync_needed, pend_ids. simpl. rewrite Eall. intros x [<-|Hx]; [now left | now right].
    + unfold pend_ids. simpl. apply incl_refl.
Qed.

(* ---- sync_sched satisfies the interface of the resume theorem --------------------------------- *)
Lemma sync_H_res : forall n s i r s' d cl, sync_inv n s -> In i (pend_ids s) ->
  on_result sync_sched s i r = (s', d, cl) ->
  sync_inv n s' /\ incl (sync_needed s') (sync_needed s) /\ (d = STOP -> ~ In i (sync_needed s')) /\
  (forall j, cl = Some j -> In j (sync_needed s)) /\
  (forall x, In x (pend_ids s) -> x <> i \/ d = CONTINUE -> In x (pend_ids s')).
Proof.
  intros n s i r s' d cl HI Hip E. simpl in E. unfold sync_on_result in E.
  destruct (pending_of (s_pending s) i) as [[k pos]|] eqn:Ep.
  2:{ exfalso. exact (pending_of_None _ _ Ep Hip). }
  apply pending_of_In in Ep.
  destruct (Z.leb _ _).
  - injection E as <- <- <-. destruct (deliver_inv n s i k pos (fst r) HI Ep) as [A [B C]].
    split; [exact A|]. split; [exact B|]. split; [discriminate|]. split; [discriminate|].
    intros x Hx [Hn|Hn]; [now apply C | discriminate].
  - injection E as <- <- <-. split; [exact HI|]. split; [apply incl_refl|]. split; [discriminate|]. split; [discriminate|auto].
Qed.

Lemma sync_H_err : forall n s i, sync_inv n s ->
  sync_inv n (on_error sync_sched s i) /\ incl (sync_needed (on_error sync_sched s i)) (sync_needed s) /\
  (forall x, In x (pend_ids s) -> x <> i -> In x (pend_ids (on_error sync_sched s i))).
Proof.
  intros n s i HI. simpl. unfold sync_on_error.
  destruct (pending_of (s_pending s) i) as [[k pos]|] eqn:Ep.
  - apply pending_of_In in Ep. exact (deliver_inv n s i k pos None HI Ep).
  - split; [exact HI|]. split; [apply incl_refl|auto].
Qed.

Lemma sync_H_rem : forall n s s' l, sync_inv n s -> removables sync_sched s = (s', l) ->
  sync_inv n s' /\ incl (sync_needed s') (sync_needed s) /\ incl (pend_ids s) (pend_ids s') /\
  forall i, In i l -> ~ In i (sync_needed s') /\ (0 <= i < n)%Z.
Proof.
  intros n s s' l HI E. simpl in E. unfold sync_removables in E. injection E as <- <-.
  pose proof HI as [H0 Htbl Hbound Hnd Hpnd Hpend Hslots Hbwf Hrem].
  split; [|split; [apply incl_refl|split; [apply incl_refl|]]].
  - constructor; simpl; auto; try (intros x []).
    intros x Hx. apply Hbound. rewrite app_nil_r in Hx. apply in_or_app. now left.
  - intros i Hi. split; [exact (Hrem i Hi)|]. apply Hbound. apply in_or_app. now right.
Qed.

Lemma create_bracket_same s : sync_needed (create_bracket s) = sync_needed s /\ pend_ids (create_bracket s) = pend_ids s.
Proof.
  unfold sync_needed, pend_ids. simpl. rewrite all_ids_app.
  replace (all_ids [new_bracket _]) with (@nil Z) by (unfold all_ids; simpl; now rewrite new_bracket_ids).
  now rewrite app_nil_r.
Qed.

Lemma sync_H_sug : forall n s g s' sg, sync_inv n s -> suggest sync_sched s n g = (s', sg) ->
  match sg with
  | SNone => sync_inv n s' /\ incl (sync_needed s') (sync_needed s) /\ incl (pend_ids s) (pend_ids s')
  | SNew => sync_inv (n + 1)%Z s' /\ incl (sync_needed s') (n :: sync_needed s) /\ incl (n :: pend_ids s) (pend_ids s')
  | SFrom j => sync_inv (n + 1)%Z s' /\ incl (sync_needed s') (n :: sync_needed s) /\ incl (n :: pend_ids s) (pend_ids s') /\
               (true = true -> In j (sync_needed s))
  | SResume i => sync_inv n s' /\ incl (sync_needed s') (sync_needed s) /\ incl (i :: pend_ids s) (pend_ids s') /\
                 In i (sync_needed s)
  end.
Proof.
  intros n s g s' sg HI E. simpl in E. unfold sync_suggest, next_job in E. change (new_bracket []) with dbr in E.
  destruct (find_slot (s_brs s) 0 (s_primary s)) as [[[[k b'] pos] tid]|] eqn:Ef.
  - destruct (find_slot_spec _ _ _ _ _ _ _ Ef) as [_ [Hk Hnf]]. rewrite Nat.sub_0_r in Hk, Hnf.
    pose proof (register_inv n s k b' pos tid (s_primary s) HI Hk Hnf) as HR.
    destruct tid as [t|]; simpl in E; injection E as <- <-.
    + destruct HR as [A [B [C Dd]]]. auto.
    + exact HR.
  - (* all active brackets are busy: a new bracket is created *)
    pose proof (create_bracket_inv n s (s_primary s) HI) as HI1.
    destruct (create_bracket_same s) as [En Ep].
    set (s1 := create_bracket s) in *.
    assert (length (s_brs s) < length (s_brs s1))%nat as Hk by (unfold s1; simpl; rewrite app_length; simpl; lia).
    pose proof HI as [_ [Htn Htf] _ _ _ _ _ _ _].
    assert (exists sz lv r, nth (length (s_brs s)) (s_brs s1) dbr = new_bracket ((Datatypes.S sz, lv) :: r)) as [sz [lv [r Enb]]].
    { unfold s1. simpl. rewrite app_nth2; [|lia]. rewrite Nat.sub_diag. simpl.
      assert (In (nth (Nat.modulo (length (s_brs s)) (length (s_tbl s))) (s_tbl s) []) (s_tbl s)) as Hin.
      { apply nth_In. apply Nat.mod_upper_bound. destruct (s_tbl s); [congruence|discriminate]. }
      rewrite Forall_forall in Htf. destruct (Htf _ Hin) as [sz [lv [r ->]]]. now exists sz, lv, r. }
    rewrite Enb in E.
    assert (next_free_slot (nth (length (s_brs s)) (s_brs s1) dbr) =
            Some ({| b_cur := repeat (None, None) (Datatypes.S sz); b_level := lv; b_free := 1; b_later := r; b_done := false |}, 0%nat, None)) as Hnf.
    { rewrite Enb. reflexivity. }
    cbn [new_bracket next_free_slot b_done b_cur b_free b_level b_later length repeat Nat.leb nth fst] in E.
    pose proof (register_inv n s1 _ _ _ _ (s_primary s1) HI1 Hk Hnf) as HR. simpl in HR.
    simpl in E. injection E as <- <-. rewrite <- En, <- Ep. exact HR.
Qed.

Lemma sync0_inv tbl mx : tbl_ok tbl -> sync_inv 0%Z (sync0 tbl mx).
Proof.
  intros Ht. unfold sync0.
  apply (create_bracket_inv 0%Z {| s_tbl := tbl; s_max := mx; s_brs := []; s_primary := 0; s_pending := []; s_rem := [] |} 0%nat).
  constructor; simpl; auto; try lia; try constructor; try tauto.
Qed.

Theorem sync_resume_has_checkpoint : forall c tbl mx its pre i post, tbl_ok tbl -> speculative c = false ->
  run sync_sched c (init (sync0 tbl mx)) its = pre ++ EResume i :: post ->
  forall w, ~ In (EDelete i w) pre.
Proof.
  intros c tbl mx its pre i post Ht Hs E.
  exact (resume_has_checkpoint sync_sched c Hs true sync_needed pend_ids sync_inv sync_H_res sync_H_sug sync_H_rem
           sync_H_err (sync0 tbl mx) its pre i post (sync0_inv tbl mx Ht) E).
Qed.

(* ==== DEHB: dehb_sched satisfies the interface of the resume theorem ========================== *)
Definition dpend_ids (s : dehb) : list Z := map fst (d_pending s).
Definition b0ids (s : dehb) : list Z :=
  map fst (d_prev0 s) ++ map fst (occupied (b_cur (nth 0 (d_brs s) dbr))).
Definition dehb_needed (s : dehb) : list Z := dpend_ids s ++ (if d_support s then b0ids s else []).

(* all ids known; the brackets exist; a job running for a bracket other than the first one is not a
   trial kept (paused) by the first bracket *)
Definition dehb_inv (n : Z) (s : dehb) : Prop :=
  (0 <= n)%Z /\ (forall x, In x (dpend_ids s ++ b0ids s) -> (0 <= x < n)%Z) /\
  (0 < length (d_brs s))%nat /\
  (forall t k pos, In (t, (k, pos)) (d_pending s) -> k <> 0%nat -> ~ In t (b0ids s)).

Lemma occupied_upd cur : forall pos i m x,
  In x (map fst (occupied (upd_nth cur pos (Some i, Some m)))) -> x = i \/ In x (map fst (occupied cur)).
Proof.
  induction cur as [|[[a|] [b|]] cur IH]; intros [|pos] i m x; simpl; auto.
  - intros [<-|H]; auto.
  - intros [<-|H]; [right; now left|]. destruct (IH _ _ _ _ H); auto.
  - intros [<-|H]; auto.
  - intros H. destruct (IH _ _ _ _ H); auto.
  - intros [<-|H]; auto.
  - intros H. destruct (IH _ _ _ _ H); auto.
  - intros [<-|H]; auto.
  - intros H. destruct (IH _ _ _ _ H); auto.
Qed.

Lemma occupied_repeat_none n : occupied (repeat (@None Z, @None (option Q)) n) = [].
Proof. induction n; simpl; auto. Qed.

Lemma nth0_app {A} (l l' : list A) d : (0 < length l)%nat -> nth 0 (l ++ l') d = nth 0 l d.
Proof. destruct l; simpl; [lia|reflexivity]. Qed.

Lemma dehb_deliver_inv n s i k pos m : dehb_inv n s -> In (i, (k, pos)) (d_pending s) ->
  let s' := dehb_deliver s i k pos m in
  dehb_inv n s' /\ d_support s' = d_support s /\
  incl (b0ids s') (if Nat.eqb k 0 then i :: b0ids s else b0ids s) /\
  (forall x, In x (dpend_ids s') <-> In x (dpend_ids s) /\ x <> i).
Proof.
  intros [H0 [Hb [Hl Hsep]]] Hin. cbv zeta. unfold dehb_deliver. change (new_bracket []) with dbr.
  set (b := nth k (d_brs s) dbr). set (cur' := upd_nth (b_cur b) pos (Some i, Some m)).
  assert (In i (dpend_ids s)) as Hip by (apply in_map_iff; exists (i, (k, pos)); auto).
  (* state s1 for a given new bracket b' and completion flag *)
  assert (forall b' (complete : bool) p,
            (k = 0%nat -> incl (map fst (occupied (b_cur b'))) (i :: map fst (occupied (b_cur b))) /\
                          (complete = true -> incl (map fst (occupied (b_cur b'))) (map fst (occupied cur')))) ->
            let s1 := {| d_tbl := d_tbl s; d_max := d_max s; d_support := d_support s; d_brs := upd_nth (d_brs s) k b';
                         d_primary := p; d_pending := remove_pending (d_pending s) i;
                         d_rung0 := if Nat.eqb k 0 && complete then Datatypes.S (d_rung0 s) else d_rung0 s;
                         d_prev0 := if Nat.eqb k 0 && complete then occupied cur' else d_prev0 s |} in
            dehb_inv n s1 /\ incl (b0ids s1) (if Nat.eqb k 0 then i :: b0ids s else b0ids s) /\
            (forall x, In x (dpend_ids s1) <-> In x (dpend_ids s) /\ x <> i)) as K.
  { intros b' complete p Hb' s1.
    assert (incl (b0ids s1) (if Nat.eqb k 0 then i :: b0ids s else b0ids s)) as Hinc.
    { unfold b0ids, s1. simpl. destruct (Nat.eqb k 0) eqn:Ek.
      - apply Nat.eqb_eq in Ek. subst k. destruct (Hb' eq_refl) as [A B].
        rewrite nth_upd_nth_eq; [|exact Hl]. fold b. simpl.
        assert (incl (map fst (occupied cur')) (i :: map fst (occupied (b_cur b)))) as Hc
          by (intros x Hx; destruct (occupied_upd _ _ _ _ _ Hx); [left; auto | now right]).
        intros x Hx. apply in_app_or in Hx as [Hx|Hx].
        + destruct complete; simpl in Hx.
          * apply Hc in Hx. destruct Hx as [Hx|Hx]; [now left | right; apply in_or_app; now right].
          * right. apply in_or_app. now left.
        + apply A in Hx. destruct Hx as [Hx|Hx]; [now left | right; apply in_or_app; now right].
      - apply Nat.eqb_neq in Ek. simpl. rewrite nth_upd_nth_neq; [apply incl_refl|exact Ek]. }
    assert (forall x, In x (dpend_ids s1) <-> In x (dpend_ids s) /\ x <> i) as Hpi
      by (intros x; unfold dpend_ids, s1; simpl; apply remove_pending_ids).
    split; [|split; [exact Hinc|exact Hpi]].
    split; [exact H0|]. split; [|split].
    - intros x Hx. apply Hb. apply in_app_or in Hx as [Hx|Hx].
      + apply Hpi in Hx. apply in_or_app. left. tauto.
      + apply Hinc in Hx. destruct (Nat.eqb k 0); [destruct Hx as [<-|Hx]|]; apply in_or_app; auto.
    - unfold s1. simpl. now rewrite upd_nth_length.
    - intros t k2 p2 Ht Hk2 Hx. unfold s1 in Ht. simpl in Ht. apply remove_pending_In in Ht as [Ht Hne]. simpl in Hne.
      apply Hinc in Hx. destruct (Nat.eqb k 0); [destruct Hx as [Hx|Hx]; [congruence|]|]; exact (Hsep _ _ _ Ht Hk2 Hx). }
  (* the new-bracket wrapper keeps everything *)
  assert (forall s1, dehb_inv n s1 ->
            let s2 := {| d_tbl := d_tbl s1; d_max := d_max s1; d_support := d_support s1; d_brs := dehb_new_bracket s1;
                         d_primary := length (d_brs s1); d_pending := d_pending s1; d_rung0 := d_rung0 s1; d_prev0 := d_prev0 s1 |} in
            dehb_inv n s2 /\ b0ids s2 = b0ids s1 /\ dpend_ids s2 = dpend_ids s1) as Kn.
  { intros s1 [A0 [Ab [Al As]]] s2.
    assert (b0ids s2 = b0ids s1) as Eb.
    { unfold b0ids, s2, dehb_new_bracket. simpl. now rewrite nth0_app. }
    split; [|split; [exact Eb|reflexivity]].
    split; [exact A0|]. split; [|split].
    - intros x Hx. apply Ab. unfold dpend_ids in *. simpl in Hx. now rewrite Eb in Hx.
    - unfold s2, dehb_new_bracket. simpl. rewrite app_length. lia.
    - intros t k2 p2 Ht Hk2. rewrite Eb. exact (As _ _ _ Ht Hk2). }
  unfold de_bracket_on_result. fold cur'.
  assert (forall b' complete p, (k = 0%nat -> incl (map fst (occupied (b_cur b'))) (i :: map fst (occupied (b_cur b))) /\
                          (complete = true -> incl (map fst (occupied (b_cur b'))) (map fst (occupied cur')))) ->
            forall cnd : bool,
            let s1 := {| d_tbl := d_tbl s; d_max := d_max s; d_support := d_support s; d_brs := upd_nth (d_brs s) k b';
                         d_primary := p; d_pending := remove_pending (d_pending s) i;
                         d_rung0 := if Nat.eqb k 0 && complete then Datatypes.S (d_rung0 s) else d_rung0 s;
                         d_prev0 := if Nat.eqb k 0 && complete then occupied cur' else d_prev0 s |} in
            let s' := if cnd then {| d_tbl := d_tbl s1; d_max := d_max s1; d_support := d_support s1; d_brs := dehb_new_bracket s1;
                         d_primary := length (d_brs s1); d_pending := d_pending s1; d_rung0 := d_rung0 s1; d_prev0 := d_prev0 s1 |} else s1 in
            dehb_inv n s' /\ d_support s' = d_support s /\
            incl (b0ids s') (if Nat.eqb k 0 then i :: b0ids s else b0ids s) /\
            (forall x, In x (dpend_ids s') <-> In x (dpend_ids s) /\ x <> i)) as KK.
  { intros b' complete p Hb' cnd s1 s'. destruct (K b' complete p Hb') as [A [B C]]. fold s1 in A, B, C.
    destruct cnd; unfold s'.
    - destruct (Kn s1 A) as [A2 [B2 C2]]. split; [exact A2|]. split; [reflexivity|]. rewrite B2, C2. auto.
    - split; [exact A|]. split; [reflexivity|auto]. }
  assert (incl (map fst (occupied cur')) (i :: map fst (occupied (b_cur b)))) as Hc
    by (intros x Hx; destruct (occupied_upd _ _ _ _ _ Hx); [left; auto | now right]).
  destruct (Nat.leb (length cur') (b_free b) && all_occupied cur').
  - destruct (b_later b) as [|[sz lv] later]; cbv beta iota zeta.
    + apply KK. intros _. simpl. split; [exact Hc|intros _; apply incl_refl].
    + apply KK. intros _. simpl. rewrite occupied_repeat_none. simpl. split; intros; intros x [].
  - cbv beta iota zeta. apply KK. intros _. simpl. split; [exact Hc|discriminate].
Qed.

Lemma dehb_H_res : forall n s i r s' d cl, dehb_inv n s -> In i (dpend_ids s) ->
  on_result dehb_sched s i r = (s', d, cl) ->
  dehb_inv n s' /\ incl (dehb_needed s') (dehb_needed s) /\ (d = STOP -> ~ In i (dehb_needed s')) /\
  (forall j, cl = Some j -> In j (dehb_needed s)) /\
  (forall x, In x (dpend_ids s) -> x <> i \/ d = CONTINUE -> In x (dpend_ids s')).
Proof.
  intros n s i r s' d cl HI Hip E. simpl in E. unfold dehb_on_result in E.
  destruct (pending_of (d_pending s) i) as [[k pos]|] eqn:Ep.
  2:{ exfalso. exact (pending_of_None _ _ Ep Hip). }
  apply pending_of_In in Ep.
  destruct (Z.leb _ _).
  2:{ injection E as <- <- <-. split; [exact HI|]. split; [apply incl_refl|]. split; [discriminate|]. split; [discriminate|auto]. }
  destruct (dehb_deliver_inv n s i k pos (fst r) HI Ep) as [A [Bs [Bi Cp]]].
  injection E as <- <- <-. split; [exact A|].
  assert (incl (dehb_needed (dehb_deliver s i k pos (fst r))) (dehb_needed s)) as Hn.
  { unfold dehb_needed. rewrite Bs. intros x Hx. apply in_app_or in Hx as [Hx|Hx].
    - apply Cp in Hx. apply in_or_app. left. tauto.
    - destruct (d_support s); [|destruct Hx]. apply Bi in Hx.
      destruct (Nat.eqb k 0); [destruct Hx as [<-|Hx]|]; apply in_or_app; auto. }
  split; [exact Hn|]. split; [|split; [discriminate|]].
  - intros Hd Hx. unfold dehb_needed in Hx. rewrite Bs in Hx. apply in_app_or in Hx as [Hx|Hx].
    + apply Cp in Hx. tauto.
    + destruct (d_support s) eqn:Es; [|destruct Hx]. simpl in Hd.
      destruct (Nat.eqb k 0) eqn:Ek; [discriminate|]. apply Nat.eqb_neq in Ek. apply Bi in Hx.
      destruct HI as [_ [_ [_ Hsep]]]. exact (Hsep _ _ _ Ep Ek Hx).
  - intros x Hx [Hne|Hc]; [apply Cp; auto|]. destruct (d_support s && Nat.eqb k 0); discriminate.
Qed.

Lemma dehb_H_err : forall n s i, dehb_inv n s ->
  dehb_inv n (on_error dehb_sched s i) /\ incl (dehb_needed (on_error dehb_sched s i)) (dehb_needed s) /\
  (forall x, In x (dpend_ids s) -> x <> i -> In x (dpend_ids (on_error dehb_sched s i))).
Proof.
  intros n s i HI. simpl. unfold dehb_on_error.
  destruct (pending_of (d_pending s) i) as [[k pos]|] eqn:Ep.
  2:{ split; [exact HI|]. split; [apply incl_refl|auto]. }
  apply pending_of_In in Ep.
  assert (In i (dpend_ids s)) as Hip by (apply in_map_iff; exists (i, (k, pos)); auto).
  destruct (dehb_deliver_inv n s i k pos None HI Ep) as [A [Bs [Bi Cp]]].
  split; [exact A|]. split; [|intros x Hx Hne; apply Cp; auto].
  unfold dehb_needed. rewrite Bs. intros x Hx. apply in_app_or in Hx as [Hx|Hx].
  - apply Cp in Hx. apply in_or_app. left. tauto.
  - destruct (d_support s); [|destruct Hx]. apply Bi in Hx.
    destruct (Nat.eqb k 0); [destruct Hx as [<-|Hx]|]; apply in_or_app; auto.
Qed.

Lemma dehb_H_rem : forall n s s' l, dehb_inv n s -> removables dehb_sched s = (s', l) ->
  dehb_inv n s' /\ incl (dehb_needed s') (dehb_needed s) /\ incl (dpend_ids s) (dpend_ids s') /\
  forall i, In i l -> ~ In i (dehb_needed s') /\ (0 <= i < n)%Z.
Proof.
  intros n s s' l HI E. simpl in E. injection E as <- <-.
  split; [exact HI|]. split; [apply incl_refl|]. split; [apply incl_refl|]. intros i [].
Qed.

(* handing out a slot does not touch the results stored in the first bracket *)
Lemma dehb_handout_cur0 s : (0 < length (d_brs s))%nat ->
  forall brs1 k pos,
  (match find_slot (d_brs s) 0 (d_primary s) with
   | Some (k, b', pos, _) => (upd_nth (d_brs s) k b', k, pos)
   | None =>
       let brs := dehb_new_bracket s in
       let k := length (d_brs s) in
       match next_free_slot (nth k brs dbr) with
       | Some (b', pos, _) => (upd_nth brs k b', k, pos)
       | None => (brs, k, 0%nat)
       end
   end) = (brs1, k, pos) ->
  b_cur (nth 0 brs1 dbr) = b_cur (nth 0 (d_brs s) dbr) /\ (0 < length brs1)%nat.
Proof.
  intros Hl brs1 k pos E.
  destruct (find_slot (d_brs s) 0 (d_primary s)) as [[[[k1 b'] p1] tid]|] eqn:Ef.
  - injection E as <- <- <-. destruct (find_slot_spec _ _ _ _ _ _ _ Ef) as [_ [Hk Hnf]]. rewrite Nat.sub_0_r in Hk, Hnf.
    destruct (next_free_slot_spec _ _ _ _ Hnf) as [_ [_ [_ [_ ->]]]]. rewrite upd_nth_length. split; [|exact Hl].
    destruct k1; [rewrite nth_upd_nth_eq; [reflexivity|exact Hl] | rewrite nth_upd_nth_neq; [reflexivity|discriminate]].
  - cbv zeta in E. unfold dehb_new_bracket in E.
    assert (nth 0 (d_brs s ++ [new_bracket (nth (Nat.modulo (length (d_brs s)) (length (d_tbl s))) (d_tbl s) [])]) dbr
            = nth 0 (d_brs s) dbr) as E0 by (now apply nth0_app).
    destruct (next_free_slot _) as [[[b' p1] tid]|] eqn:En.
    + injection E as <- <- <-. destruct (next_free_slot_spec _ _ _ _ En) as [_ [_ [_ [_ ->]]]].
      rewrite upd_nth_length, app_length. split; [|lia].
      rewrite nth_upd_nth_neq; [exact (f_equal b_cur E0)|]. lia.
    + injection E as <- <- <-. rewrite app_length. split; [exact (f_equal b_cur E0)|lia].
Qed.

Lemma dehb_H_sug : forall n s g s' sg, dehb_inv n s -> suggest dehb_sched s n g = (s', sg) ->
  match sg with
  | SNone => dehb_inv n s' /\ incl (dehb_needed s') (dehb_needed s) /\ incl (dpend_ids s) (dpend_ids s')
  | SNew => dehb_inv (n + 1)%Z s' /\ incl (dehb_needed s') (n :: dehb_needed s) /\ incl (n :: dpend_ids s) (dpend_ids s')
  | SFrom j => dehb_inv (n + 1)%Z s' /\ incl (dehb_needed s') (n :: dehb_needed s) /\ incl (n :: dpend_ids s) (dpend_ids s') /\
               (true = true -> In j (dehb_needed s))
  | SResume i => dehb_inv n s' /\ incl (dehb_needed s') (dehb_needed s) /\ incl (i :: dpend_ids s) (dpend_ids s') /\
                 In i (dehb_needed s)
  end.
Proof.
  intros n s g s' sg [H0 [Hb [Hl Hsep]]] E. simpl in E. unfold dehb_suggest in E. change (new_bracket []) with dbr in E.
  match type of E with context [match ?X with (_, _) => _ end] => destruct X as [[brs1 k] pos] eqn:Eh end.
  destruct (dehb_handout_cur0 s Hl brs1 k pos Eh) as [Ecur Hl1].
  assert (forall pend, b0ids (dehb_set s brs1 pend) = b0ids s) as Eb0 by (intros; unfold b0ids; simpl; now rewrite Ecur).
  match type of E with context [match ?X with Some _ => _ | None => _ end] => destruct X as [t|] eqn:Epr end;
    injection E as <- <-.
  - (* promotion by resuming trial t of the previous rung of the first bracket *)
    destruct (Nat.eqb k 0 && negb (Nat.eqb (d_rung0 s) 0) && d_support s) eqn:Ec; [|discriminate].
    apply andb_true_iff in Ec as [Ec Esup]. apply andb_true_iff in Ec as [Ek _]. apply Nat.eqb_eq in Ek. subst k.
    assert (In t (b0ids s)) as Ht.
    { apply nth_error_In in Epr. apply top_list_incl in Epr. unfold b0ids. apply in_or_app. now left. }
    split; [|split; [|split]].
    + split; [exact H0|]. split; [|split; [exact Hl1|]].
      * intros x Hx. rewrite Eb0 in Hx. unfold dpend_ids in Hx. simpl in Hx. apply Hb.
        destruct Hx as [<-|Hx]; [apply in_or_app; now right | exact Hx].
      * intros t2 k2 p2 Hin Hk2. rewrite Eb0. simpl in Hin. destruct Hin as [Hin|Hin]; [congruence|exact (Hsep _ _ _ Hin Hk2)].
    + unfold dehb_needed. rewrite Eb0. simpl. rewrite Esup. intros x [<-|Hx]; [apply in_or_app; now right | exact Hx].
    + unfold dpend_ids. simpl. apply incl_refl.
    + unfold dehb_needed. rewrite Esup. apply in_or_app. now right.
  - (* a new trial *)
    split; [|split].
    + split; [lia|]. split; [|split; [exact Hl1|]].
      * intros x Hx. rewrite Eb0 in Hx. unfold dpend_ids in Hx. simpl in Hx.
        destruct Hx as [<-|Hx]; [lia|]. specialize (Hb x Hx). lia.
      * intros t2 k2 p2 Hin Hk2. rewrite Eb0. simpl in Hin. destruct Hin as [Hin|Hin]; [|exact (Hsep _ _ _ Hin Hk2)].
        injection Hin as <- _ _. intros Hx. assert (0 <= n < n)%Z; [|lia]. apply Hb. apply in_or_app. now right.
    + unfold dehb_needed. rewrite Eb0. simpl. intros x [<-|Hx]; [now left | now right].
    + unfold dpend_ids. simpl. apply incl_refl.
Qed.

Lemma dehb0_inv tbl mx sup : dehb_inv 0%Z (dehb0 tbl mx sup).
Proof.
  split; [lia|]. split; [|split; [simpl; lia|intros t k pos []]].
  intros x Hx. exfalso. unfold dpend_ids, b0ids, dehb0 in Hx. simpl in Hx.
  destruct (nth 0 tbl []) as [|[sz lv] r]; simpl in Hx; [exact Hx|]. now rewrite occupied_repeat_none in Hx.
Qed.

Theorem dehb_resume_has_checkpoint : forall c tbl mx sup its pre i post, speculative c = false ->
  run dehb_sched c (init (dehb0 tbl mx sup)) its = pre ++ EResume i :: post ->
  forall w, ~ In (EDelete i w) pre.
Proof.
  intros c tbl mx sup its pre i post Hs E.
  exact (resume_has_checkpoint dehb_sched c Hs true dehb_needed dpend_ids dehb_inv dehb_H_res dehb_H_sug dehb_H_rem
           dehb_H_err (dehb0 tbl mx sup) its pre i post (dehb0_inv tbl mx sup) E).
Qed.

(* ==== the promotion-type rung system: promo2_sched satisfies the interface ==================== *)
Definition q_unprom (ents : list (Z * Z * bool)) : list Z :=
  map (fun e => snd (fst e)) (filter (fun e => negb (snd e)) ents).
Definition q_run_ids (s : promo2) : list Z := map fst (q_run s).
Definition promo2_needed (s : promo2) : list Z := q_unprom (q_ents s) ++ q_run_ids s.
(* a trial is registered as not promoted at most once, and never while it runs *)
Definition promo2_inv (n : Z) (s : promo2) : Prop :=
  (0 <= n)%Z /\ (forall x, In x (promo2_needed s) -> (0 <= x < n)%Z) /\
  NoDup (q_unprom (q_ents s)) /\ (forall x, In x (q_unprom (q_ents s)) -> ~ In x (q_run_ids s)).

Lemma q_lookup_In l i m : q_lookup l i = Some m -> In i (map fst l).
Proof.
  induction l as [|[j y] l IH]; simpl; [discriminate|].
  destruct (Z.eqb j i) eqn:E; [intros _; left; now apply Z.eqb_eq | intros H; right; auto].
Qed.
Lemma q_lookup_None l i : q_lookup l i = None -> ~ In i (map fst l).
Proof.
  induction l as [|[j y] l IH]; simpl; [tauto|].
  destruct (Z.eqb j i) eqn:E; [discriminate|]. apply Z.eqb_neq in E. intros H [Hj|Hj]; [congruence|exact (IH H Hj)].
Qed.
Lemma q_remove_ids l i x : In x (map fst (q_remove l i)) <-> In x (map fst l) /\ x <> i.
Proof.
  unfold q_remove. rewrite !in_map_iff. split.
  - intros [e [<- He]]. apply filter_In in He as [H1 H2]. apply negb_true_iff, Z.eqb_neq in H2. split; [exists e; auto|exact H2].
  - intros [[e [<- He]] Hn]. exists e. split; [reflexivity|]. apply filter_In. split; [exact He|].
    now apply negb_true_iff, Z.eqb_neq.
Qed.

Lemma q_mark_unprom ents lv t : existsb (q_is_unprom lv t) ents = true -> NoDup (q_unprom ents) ->
  incl (q_unprom (q_mark ents lv t)) (q_unprom ents) /\ NoDup (q_unprom (q_mark ents lv t)) /\
  ~ In t (q_unprom (q_mark ents lv t)) /\ In t (q_unprom ents).
Proof.
  induction ents as [|[[l x] p] ents IH]; simpl; [discriminate|]. unfold q_unprom in *.
  destruct (q_is_unprom lv t (l, x, p)) eqn:Eq; simpl.
  - unfold q_is_unprom in Eq. simpl in Eq. apply andb_true_iff in Eq as [Eq Ep]. apply andb_true_iff in Eq as [_ Ex].
    apply Z.eqb_eq in Ex. apply negb_true_iff in Ep. subst x p. simpl. intros _ Hnd. inversion Hnd; subst.
    split; [apply incl_tl, incl_refl|]. split; [assumption|]. split; [assumption|now left].
  - intros He Hnd. destruct p; simpl in *.
    + destruct (IH He Hnd) as [A [B [C Dd]]]. auto.
    + inversion Hnd; subst. destruct (IH He H2) as [A [B [C Dd]]]. split; [|split; [|split]].
      * intros y [<-|Hy]; [now left | right; now apply A].
      * constructor; [|exact B]. intros Hin. apply H1. now apply A.
      * intros [Hx|Hin]; [|exact (C Hin)]. subst x.
        unfold q_is_unprom in Eq. simpl in Eq. rewrite Z.eqb_refl, andb_true_r in Eq.
        (* same trial, other level: then t is registered twice, excluded by NoDup *)
        apply H1. exact Dd.
      * now right.
Qed.

Lemma promo2_H_res : forall n s i r s' d cl, promo2_inv n s -> In i (q_run_ids s) ->
  on_result promo2_sched s i r = (s', d, cl) ->
  promo2_inv n s' /\ incl (promo2_needed s') (promo2_needed s) /\ (d = STOP -> ~ In i (promo2_needed s')) /\
  (forall j, cl = Some j -> In j (promo2_needed s)) /\
  (forall x, In x (q_run_ids s) -> x <> i \/ d = CONTINUE -> In x (q_run_ids s')).
Proof.
  intros n s i r s' d cl [H0 [Hb [Hnd Hdis]]] Hir E. simpl in E. unfold promo2_on_result in E.
  destruct (q_lookup (q_run s) i) as [ms|] eqn:El.
  2:{ exfalso. exact (q_lookup_None _ _ El Hir). }
  assert (~ In i (q_unprom (q_ents s))) as Hiu by (intros H; exact (Hdis i H Hir)).
  destruct (Z.leb (q_max_t s) r).
  - injection E as <- <- <-. unfold promo2_needed, q_run_ids. simpl.
    assert (incl (q_unprom (q_ents s) ++ map fst (q_remove (q_run s) i)) (promo2_needed s)) as Hinc.
    { intros x Hx. apply in_app_or in Hx as [Hx|Hx]; apply in_or_app; [now left|right]. apply q_remove_ids in Hx. tauto. }
    split; [|split; [exact Hinc|split; [|split; [discriminate|]]]].
    + split; [exact H0|]. split; [intros x Hx; apply Hb; now apply Hinc|]. split; [exact Hnd|].
      intros x Hx Hr. apply q_remove_ids in Hr. exact (Hdis x Hx (proj1 Hr)).
    + intros _ Hx. apply in_app_or in Hx as [Hx|Hx]; [exact (Hiu Hx)|]. apply q_remove_ids in Hx. tauto.
    + intros x Hx [Hne|Hc]; [apply q_remove_ids; auto | discriminate].
  - destruct (Z.leb ms r).
    + injection E as <- <- <-. unfold promo2_needed, q_run_ids. simpl.
      set (ents' := if mem_Z ms (q_levels s) then (ms, i, false) :: q_ents s else q_ents s).
      assert (incl (q_unprom ents') (i :: q_unprom (q_ents s))) as Hu.
      { unfold ents'. destruct (mem_Z ms (q_levels s)); unfold q_unprom; simpl; [apply incl_refl|apply incl_tl, incl_refl]. }
      assert (NoDup (q_unprom ents')) as Hnd'.
      { unfold ents'. destruct (mem_Z ms (q_levels s)); [|exact Hnd]. unfold q_unprom. simpl. constructor; assumption. }
      assert (incl (q_unprom ents' ++ map fst (q_remove (q_run s) i)) (promo2_needed s)) as Hinc.
      { intros x Hx. apply in_app_or in Hx as [Hx|Hx]; apply in_or_app.
        - apply Hu in Hx. destruct Hx as [<-|Hx]; [now right|now left].
        - right. apply q_remove_ids in Hx. tauto. }
      split; [|split; [exact Hinc|split; [discriminate|split; [discriminate|]]]].
      * split; [exact H0|]. split; [intros x Hx; apply Hb; now apply Hinc|]. split; [exact Hnd'|].
        intros x Hx Hr. apply q_remove_ids in Hr as [Hr Hne]. apply Hu in Hx. destruct Hx as [Hx|Hx]; [congruence|exact (Hdis x Hx Hr)].
      * intros x Hx [Hne|Hc]; [apply q_remove_ids; auto | discriminate].
    + injection E as <- <- <-. split; [exact (conj H0 (conj Hb (conj Hnd Hdis)))|]. split; [apply incl_refl|].
      split; [discriminate|]. split; [discriminate|auto].
Qed.

Lemma promo2_H_sug : forall n s g s' sg, promo2_inv n s -> suggest promo2_sched s n g = (s', sg) ->
  match sg with
  | SNone => promo2_inv n s' /\ incl (promo2_needed s') (promo2_needed s) /\ incl (q_run_ids s) (q_run_ids s')
  | SNew => promo2_inv (n + 1)%Z s' /\ incl (promo2_needed s') (n :: promo2_needed s) /\ incl (n :: q_run_ids s) (q_run_ids s')
  | SFrom j => promo2_inv (n + 1)%Z s' /\ incl (promo2_needed s') (n :: promo2_needed s) /\ incl (n :: q_run_ids s) (q_run_ids s') /\
               (true = true -> In j (promo2_needed s))
  | SResume i => promo2_inv n s' /\ incl (promo2_needed s') (promo2_needed s) /\ incl (i :: q_run_ids s) (q_run_ids s') /\
                 In i (promo2_needed s)
  end.
Proof.
  intros n s g s' sg [H0 [Hb [Hnd Hdis]]] E. simpl in E. unfold promo2_suggest in E.
  assert (forall m, let s1 := {| q_levels := q_levels s; q_max_t := q_max_t s; q_ents := q_ents s; q_run := (n, m) :: q_run s |} in
            promo2_inv (n + 1)%Z s1 /\ incl (promo2_needed s1) (n :: promo2_needed s) /\ incl (n :: q_run_ids s) (q_run_ids s1)) as Kn.
  { intros m s1. assert (incl (promo2_needed s1) (n :: promo2_needed s)) as Hi.
    { unfold promo2_needed, q_run_ids, s1. simpl. intros x Hx. apply in_app_or in Hx as [Hx|[<-|Hx]];
        [right; apply in_or_app; now left | now left | right; apply in_or_app; now right]. }
    split; [|split; [exact Hi|unfold q_run_ids, s1; simpl; apply incl_refl]].
    split; [lia|]. split; [|split; [exact Hnd|]].
    - intros x Hx. apply Hi in Hx. destruct Hx as [<-|Hx]; [lia|]. specialize (Hb x Hx). lia.
    - intros x Hx [Hr|Hr]; [|exact (Hdis x Hx Hr)]. subst x.
      assert (0 <= n < n)%Z; [|lia]. apply Hb. apply in_or_app. now left. }
  destruct (fst g) as [[lv t]|]; [|injection E as <- <-; apply Kn].
  destruct (existsb (q_is_unprom lv t) (q_ents s) && Z.ltb lv (q_max_t s)) eqn:Ec; [|injection E as <- <-; apply Kn].
  apply andb_true_iff in Ec as [Ee _]. injection E as <- <-.
  destruct (q_mark_unprom _ _ _ Ee Hnd) as [A [B [C Dd]]].
  unfold promo2_needed, q_run_ids. simpl. split; [|split; [|split]].
  - split; [exact H0|]. split; [|split; [exact B|]].
    + intros x Hx. apply Hb. apply in_app_or in Hx as [Hx|[<-|Hx]]; apply in_or_app; [left; now apply A | now left | now right].
    + intros x Hx [Hr|Hr]; [subst x; exact (C Hx) | exact (Hdis x (A x Hx) Hr)].
  - intros x Hx. apply in_app_or in Hx as [Hx|[<-|Hx]]; apply in_or_app; [left; now apply A | now left | now right].
  - apply incl_refl.
  - apply in_or_app. now left.
Qed.

Lemma promo2_H_rem : forall n s s' l, promo2_inv n s -> removables promo2_sched s = (s', l) ->
  promo2_inv n s' /\ incl (promo2_needed s') (promo2_needed s) /\ incl (q_run_ids s) (q_run_ids s') /\
  forall i, In i l -> ~ In i (promo2_needed s') /\ (0 <= i < n)%Z.
Proof.
  intros n s s' l HI E. simpl in E. injection E as <- <-.
  split; [exact HI|]. split; [apply incl_refl|]. split; [apply incl_refl|]. intros i [].
Qed.

Lemma promo2_H_err : forall n s i, promo2_inv n s ->
  promo2_inv n (on_error promo2_sched s i) /\ incl (promo2_needed (on_error promo2_sched s i)) (promo2_needed s) /\
  (forall x, In x (q_run_ids s) -> x <> i -> In x (q_run_ids (on_error promo2_sched s i))).
Proof.
  intros n s i [H0 [Hb [Hnd Hdis]]]. simpl. unfold promo2_needed, q_run_ids. simpl.
  assert (incl (q_unprom (q_ents s) ++ map fst (q_remove (q_run s) i)) (promo2_needed s)) as Hinc.
  { intros x Hx. apply in_app_or in Hx as [Hx|Hx]; apply in_or_app; [now left|right]. apply q_remove_ids in Hx. tauto. }
  split; [|split; [exact Hinc|intros x Hx Hne; apply q_remove_ids; auto]].
  split; [exact H0|]. split; [intros x Hx; apply Hb; now apply Hinc|]. split; [exact Hnd|].
  intros x Hx Hr. apply q_remove_ids in Hr. exact (Hdis x Hx (proj1 Hr)).
Qed.

Theorem promo2_resume_has_checkpoint : forall c levels max_t its pre i post, speculative c = false ->
  run promo2_sched c (init (promo2_0 levels max_t)) its = pre ++ EResume i :: post ->
  forall w, ~ In (EDelete i w) pre.
Proof.
  intros c levels max_t its pre i post Hs E.
  apply (resume_has_checkpoint promo2_sched c Hs true promo2_needed q_run_ids promo2_inv promo2_H_res promo2_H_sug
           promo2_H_rem promo2_H_err (promo2_0 levels max_t) its pre i post); [|exact E].
  split; [lia|]. split; [intros x []|]. split; [constructor|intros x []].
Qed.
