(* CheckpointSyncProofs.v — the synchronous-Hyperband instance of the resume theorem (C20):
   invariant of the bracket manager model (model/Checkpoint.v, layer 2b) and the proof that
   sync_sched satisfies the interface of CheckpointProofs.resume_has_checkpoint. *)
From Verif Require Import model.Base model.Checkpoint proofs.CheckpointProofs.
From Coq Require Import Lia Permutation.

(* ---- generic list lemmas -------------------------------------------------------------- *)
Lemma NoDup_app_iff {A} (a b : list A) :
  NoDup (a ++ b) <-> NoDup a /\ NoDup b /\ (forall x, In x a -> ~ In x b).
Proof.
  induction a as [|y a IH]; simpl.
  - split; [intros H; repeat split; [constructor|exact H|tauto] | tauto].
  - split.
    + intros H. inversion H as [|? ? Hy Hn]; subst. apply IH in Hn as [H1 [H2 H3]].
      split; [constructor; [intros Hin; apply Hy; apply in_or_app; now left|exact H1]|].
      split; [exact H2|]. intros x [<-|Hx]; [intros Hin; apply Hy; apply in_or_app; now right | now apply H3].
    + intros [H1 [H2 H3]]. inversion H1 as [|? ? Hy Hn]; subst. constructor.
      * intros Hin. apply in_app_or in Hin as [Hin|Hin]; [contradiction | exact (H3 y (or_introl eq_refl) Hin)].
      * apply IH. split; [exact Hn|]. split; [exact H2|]. intros x Hx. apply H3. now right.
Qed.

Lemma NoDup_mid_sub {A} (a x y c : list A) :
  NoDup (a ++ x ++ c) -> NoDup y -> incl y x -> NoDup (a ++ y ++ c).
Proof.
  rewrite !NoDup_app_iff. intros [Ha [[Hx [Hc Hxc]] Hax]] Hy Hi.
  split; [exact Ha|]. split.
  - split; [exact Hy|]. split; [exact Hc|]. intros z Hz. apply Hxc. now apply Hi.
  - intros z Hz Hin. apply (Hax z Hz). apply in_or_app. apply in_app_or in Hin as [Hin|Hin]; [left; now apply Hi | now right].
Qed.

Lemma NoDup_mid_insert {A} (a p q c : list A) (i : A) :
  NoDup (a ++ (p ++ q) ++ c) -> ~ In i (a ++ (p ++ q) ++ c) -> NoDup (a ++ (p ++ i :: q) ++ c).
Proof.
  intros H Hi. apply (Permutation_NoDup (l := i :: a ++ (p ++ q) ++ c)); [|constructor; assumption].
  replace (a ++ (p ++ q) ++ c) with ((a ++ p) ++ (q ++ c)) by (now rewrite <- !app_assoc).
  replace (a ++ (p ++ i :: q) ++ c) with ((a ++ p) ++ i :: (q ++ c)) by (rewrite <- !app_assoc; reflexivity).
  apply Permutation_middle.
Qed.

Lemma NoDup_firstn {A} n (l : list A) : NoDup l -> NoDup (firstn n l).
Proof. intros H. rewrite <- (firstn_skipn n l) in H. now apply NoDup_app_iff in H as [H _]. Qed.

Lemma firstn_In_sub {A} n (l : list A) x : In x (firstn n l) -> In x l.
Proof. intros H. rewrite <- (firstn_skipn n l). apply in_or_app. now left. Qed.

Lemma upd_nth_length {A} (l : list A) : forall k x, length (upd_nth l k x) = length l.
Proof. induction l as [|y l IH]; intros [|k] x; simpl; auto. Qed.

Lemma nth_upd_nth_eq {A} (l : list A) : forall k x d, (k < length l)%nat -> nth k (upd_nth l k x) d = x.
Proof. induction l as [|y l IH]; intros [|k] x d H; simpl in *; try lia; auto. apply IH. lia. Qed.

Lemma nth_upd_nth_neq {A} (l : list A) : forall k k' x d, k <> k' -> nth k' (upd_nth l k x) d = nth k' l d.
Proof.
  induction l as [|y l IH]; intros [|k] [|k'] x d H; simpl; auto; try congruence.
Qed.

(* replacing one element of a list under flat_map: the same context around it, and every other
   element's contribution lies in that context *)
Lemma flat_map_upd_nth {A B} (f : A -> list B) (l : list A) : forall k d, (k < length l)%nat ->
  exists P Q, (forall x, flat_map f (upd_nth l k x) = P ++ f x ++ Q) /\ flat_map f l = P ++ f (nth k l d) ++ Q /\
              (forall k2, k2 <> k -> (k2 < length l)%nat -> incl (f (nth k2 l d)) (P ++ Q)).
Proof.
  induction l as [|y l IH]; intros [|k] d H; simpl in *; try lia.
  - exists [], (flat_map f l). split; [intros x; reflexivity|]. split; [reflexivity|].
    intros [|k2] Hn Hl; [congruence|]. simpl. intros z Hz. apply in_flat_map. exists (nth k2 l d).
    split; [apply nth_In; lia|exact Hz].
  - destruct (IH k d) as [P [Q [H1 [H2 H3]]]]; [lia|]. exists (f y ++ P), Q. split; [|split].
    + intros x. rewrite H1. now rewrite <- app_assoc.
    + rewrite H2. now rewrite <- app_assoc.
    + intros [|k2] Hn Hl z Hz.
      * apply in_or_app. left. apply in_or_app. now left.
      * rewrite <- app_assoc. apply in_or_app. right. apply (H3 k2); [congruence|lia|exact Hz].
Qed.

Lemma In_upd_nth {A} (l : list A) : forall k x y, In y (upd_nth l k x) -> y = x \/ In y l.
Proof.
  induction l as [|z l IH]; intros [|k] x y; simpl; auto.
  - intros [<-|H]; auto.
  - intros [<-|H]; auto. destruct (IH _ _ _ H); auto.
Qed.

Lemma nth_app_left {A} (l l' : list A) k d : (k < length l)%nat -> nth k (l ++ l') d = nth k l d.
Proof. intros H. now apply app_nth1. Qed.

(* ---- ids of a rung / bracket / all brackets ------------------------------------------- *)
Definition slot := (option Z * option (option Q))%type.
Definition dslot : slot := (None, None).
Definition dbr : sbracket := new_bracket [].
Definition sid (sl : slot) : list Z := match fst sl with Some t => [t] | None => [] end.
Definition sids (cur : list slot) : list Z := flat_map sid cur.
Definition bids (b : sbracket) : list Z := sids (b_cur b).
Definition all_ids (brs : list sbracket) : list Z := flat_map bids brs.

Lemma sids_In cur x : In x (sids cur) <-> exists sl, In sl cur /\ fst sl = Some x.
Proof.
  unfold sids. rewrite in_flat_map. split.
  - intros [sl [H1 H2]]. exists sl. split; [exact H1|]. unfold sid in H2. destruct (fst sl); [|contradiction].
    destruct H2 as [->|[]]. reflexivity.
  - intros [sl [H1 H2]]. exists sl. split; [exact H1|]. unfold sid. rewrite H2. now left.
Qed.

Lemma sids_repeat_none n : sids (repeat dslot n) = [].
Proof. induction n; simpl; auto. Qed.

Lemma sids_top l : sids (map (fun t : Z => (Some t, @None (option Q))) l) = l.
Proof. induction l as [|x l IH]; [reflexivity|]. unfold sids in *. simpl. f_equal. exact IH. Qed.

Lemma occupied_In cur t m : In (t, m) (occupied cur) -> In (Some t, Some m) cur.
Proof.
  induction cur as [|[[a|] [b|]] cur IH]; simpl; try tauto; try (intros H; right; now apply IH).
  intros [H|H]; [injection H as <- <-; now left | right; now apply IH].
Qed.

Lemma occupied_ids_incl cur x : In x (map fst (occupied cur)) -> In x (sids cur).
Proof.
  intros H. apply in_map_iff in H as [[t m] [<- H]]. apply occupied_In in H.
  apply sids_In. exists (Some t, Some m). split; [exact H|reflexivity].
Qed.

Lemma occupied_NoDup cur : NoDup (sids cur) -> NoDup (map fst (occupied cur)).
Proof.
  induction cur as [|[[a|] [b|]] cur IH]; simpl; intros H.
  - constructor.
  - inversion H; subst. constructor; [|now apply IH]. intros Hin. apply H2. now apply occupied_ids_incl.
  - inversion H; subst. now apply IH.
  - now apply IH.
  - now apply IH.
Qed.

Lemma valid_of_In r x : In x (map fst (valid_of r)) -> In x (map fst r).
Proof.
  induction r as [|[t [m|]] r IH]; simpl; [tauto| |]; intros H.
  - destruct H as [<-|H]; [now left | right; now apply IH].
  - right. now apply IH.
Qed.
Lemma invalid_of_In r x : In x (invalid_of r) -> In x (map fst r).
Proof.
  induction r as [|[t [m|]] r IH]; simpl; [tauto| |]; intros H.
  - right. now apply IH.
  - destruct H as [<-|H]; [now left | right; now apply IH].
Qed.
Lemma valid_invalid_NoDup r : NoDup (map fst r) ->
  NoDup (map fst (valid_of r)) /\ NoDup (invalid_of r) /\
  (forall x, In x (map fst (valid_of r)) -> ~ In x (invalid_of r)).
Proof.
  induction r as [|[t [m|]] r IH]; simpl; intros H.
  - repeat split; try constructor. tauto.
  - inversion H; subst. destruct (IH H3) as [A [B C]]. repeat split.
    + constructor; [|exact A]. intros Hin. apply H2. now apply valid_of_In.
    + exact B.
    + intros x [<-|Hx]; [intros Hin; apply H2; now apply invalid_of_In | now apply C].
  - inversion H; subst. destruct (IH H3) as [A [B C]]. repeat split.
    + exact A.
    + constructor; [|exact B]. intros Hin. apply H2. now apply invalid_of_In.
    + intros x Hx [<-|Hin]; [apply H2; now apply valid_of_In | exact (C x Hx Hin)].
Qed.

Lemma insert_by_perm le x l : Permutation (insert_by le x l) (x :: l).
Proof.
  induction l as [|y l IH]; simpl; [apply Permutation_refl|].
  destruct (le (snd y) (snd x)); [|apply Permutation_refl].
  eapply perm_trans; [apply perm_skip, IH | apply perm_swap].
Qed.

Lemma stable_sort_perm mx l : Permutation (stable_sort mx l) l.
Proof.
  unfold stable_sort.
  assert (forall le l acc, Permutation (fold_left (fun acc x => insert_by le x acc) l acc) (l ++ acc)) as K.
  { intros le. induction l0 as [|x l0 IH]; intros acc; simpl; [apply Permutation_refl|].
    eapply perm_trans; [apply IH|]. eapply perm_trans; [apply Permutation_app_head, insert_by_perm|].
    apply Permutation_sym, Permutation_middle. }
  specialize (K (if mx then fun a b : Q => Qleb b a else Qleb) l []). now rewrite app_nil_r in K.
Qed.

Lemma top_list_incl mx r n x : In x (top_list mx r n) -> In x (map fst r).
Proof.
  unfold top_list. destruct (Nat.leb n (length (valid_of r))).
  - intros H. apply in_map_iff in H as [y [<- H]]. apply firstn_In_sub in H.
    apply (Permutation_in _ (stable_sort_perm mx (valid_of r))) in H.
    apply valid_of_In. now apply in_map.
  - intros H. apply in_app_or in H as [H|H]; [now apply valid_of_In|].
    apply firstn_In_sub in H. now apply invalid_of_In.
Qed.

Lemma top_list_NoDup mx r n : NoDup (map fst r) -> NoDup (top_list mx r n).
Proof.
  intros H. destruct (valid_invalid_NoDup r H) as [A [B C]]. unfold top_list.
  destruct (Nat.leb n (length (valid_of r))).
  - rewrite <- firstn_map. apply NoDup_firstn.
    apply (Permutation_NoDup (l := map fst (valid_of r))); [|exact A].
    apply Permutation_map, Permutation_sym, stable_sort_perm.
  - apply NoDup_app_iff. split; [exact A|]. split; [now apply NoDup_firstn|].
    intros x Hx Hin. apply firstn_In_sub in Hin. exact (C x Hx Hin).
Qed.

Lemma remaining_list_spec r top x : In x (remaining_list r top) -> In x (map fst r) /\ ~ In x top.
Proof.
  unfold remaining_list. rewrite filter_In, negb_true_iff. intros [H1 H2]. split; [exact H1|].
  intros Hin. apply mem_Z_In in Hin. congruence.
Qed.

(* ---- the invariant of the bracket manager ---------------------------------------------- *)
Definition pend_ids (s : sync) : list Z := map fst (s_pending s).
Definition sync_needed (s : sync) : list Z := pend_ids s ++ all_ids (s_brs s).

(* a bracket that still hands out slots: the free position is inside the rung and the slots
   from it on have no result yet *)
Definition bwf (b : sbracket) : Prop :=
  b_done b = false ->
  (b_free b <= length (b_cur b))%nat /\
  forall pos, (b_free b <= pos)%nat -> snd (nth pos (b_cur b) dslot) = None.

(* a pending job (trial t runs for slot pos of bracket k): the slot was handed out, has no
   result yet, and holds t (a promoted trial) or nothing (a new trial, known nowhere else) *)
Definition pend_ok (brs : list sbracket) (e : Z * (nat * nat)) : Prop :=
  let k := fst (snd e) in let pos := snd (snd e) in let t := fst e in
  (k < length brs)%nat /\
  b_done (nth k brs dbr) = false /\ (pos < b_free (nth k brs dbr))%nat /\
  (nth pos (b_cur (nth k brs dbr)) dslot = (Some t, None) \/
   (nth pos (b_cur (nth k brs dbr)) dslot = (None, None) /\ ~ In t (all_ids brs))).

Definition tbl_ok (tbl : list (list (nat * Z))) : Prop :=
  tbl <> [] /\ Forall (fun rungs => exists sz lv r, rungs = (Datatypes.S sz, lv) :: r) tbl.

Record sync_inv (n : Z) (s : sync) : Prop := {
  si_n : (0 <= n)%Z;
  si_tbl : tbl_ok (s_tbl s);
  si_bound : forall x, In x (sync_needed s ++ s_rem s) -> (0 <= x < n)%Z;
  si_nodup : NoDup (all_ids (s_brs s));
  si_pnodup : NoDup (pend_ids s);
  si_pend : Forall (pend_ok (s_brs s)) (s_pending s);
  si_slots : forall t t' k pos, In (t, (k, pos)) (s_pending s) -> In (t', (k, pos)) (s_pending s) -> t = t';
  si_bwf : Forall bwf (s_brs s);
  si_rem : forall x, In x (s_rem s) -> ~ In x (sync_needed s) }.

Lemma pending_of_In l i x : pending_of l i = Some x -> In (i, x) l.
Proof.
  induction l as [|[j y] l IH]; simpl; [discriminate|].
  destruct (Z.eqb j i) eqn:E; [intros H; injection H as <-; apply Z.eqb_eq in E; subst; now left | intros H; right; auto].
Qed.

Lemma pending_of_None l i : pending_of l i = None -> ~ In i (map fst l).
Proof.
  induction l as [|[j y] l IH]; simpl; [tauto|].
  destruct (Z.eqb j i) eqn:E; [discriminate|]. apply Z.eqb_neq in E. intros H [Hj|Hj]; [congruence | exact (IH H Hj)].
Qed.

Lemma remove_pending_In l i e : In e (remove_pending l i) <-> In e l /\ fst e <> i.
Proof. unfold remove_pending. rewrite filter_In, negb_true_iff, Z.eqb_neq. tauto. Qed.

Lemma remove_pending_ids l i x : In x (map fst (remove_pending l i)) <-> In x (map fst l) /\ x <> i.
Proof.
  rewrite !in_map_iff. split.
  - intros [e [<- He]]. apply remove_pending_In in He as [H1 H2]. split; [exists e; auto|exact H2].
  - intros [[e [<- He]] Hn]. exists e. split; [reflexivity|]. apply remove_pending_In. auto.
Qed.

Lemma remove_pending_NoDup l i : NoDup (map fst l) -> NoDup (map fst (remove_pending l i)).
Proof.
  induction l as [|[j y] l IH]; simpl; intros H; [constructor|]. inversion H; subst.
  destruct (negb (Z.eqb j i)); simpl; [|now apply IH]. constructor; [|now apply IH].
  intros Hin. apply H2. apply remove_pending_ids in Hin. tauto.
Qed.

Lemma all_occupied_nth cur pos : all_occupied cur = true -> (pos < length cur)%nat ->
  snd (nth pos cur dslot) <> None.
Proof.
  unfold all_occupied. rewrite forallb_forall. intros H Hl.
  specialize (H (nth pos cur dslot) (nth_In _ _ Hl)). destruct (snd (nth pos cur dslot)); [discriminate|discriminate].
Qed.

Lemma Forall_upd_nth {A} (P : A -> Prop) (l : list A) k x : Forall P l -> P x -> Forall P (upd_nth l k x).
Proof.
  intros Hl Hx. apply Forall_forall. intros y Hy. apply In_upd_nth in Hy as [->|Hy]; [exact Hx|].
  rewrite Forall_forall in Hl. now apply Hl.
Qed.

Lemma bids_in_all brs k x : (k < length brs)%nat -> In x (bids (nth k brs dbr)) -> In x (all_ids brs).
Proof. intros Hk Hx. unfold all_ids. apply in_flat_map. exists (nth k brs dbr). split; [now apply nth_In|exact Hx]. Qed.

Lemma slot_in_sids cur pos t a : (pos < length cur)%nat -> nth pos cur dslot = (Some t, a) -> In t (sids cur).
Proof. intros Hl E. apply sids_In. exists (Some t, a). split; [rewrite <- E; now apply nth_In|reflexivity]. Qed.
