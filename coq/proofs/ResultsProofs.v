(* ResultsProofs.v — lemmas about model/Results.v (C17). *)
From Coq Require Import ZArith List Bool Lia ZifyBool QArith.
From Verif Require Import model.Base model.Results.
Import ListNotations.

(* ======================================================================== *)
(* order on num                                                             *)
(* ======================================================================== *)

Lemma Qltb_false a b : Qltb a b = false <-> (b <= a)%Q.
Proof.
  split; intro H.
  - destruct (Qlt_le_dec a b) as [L|L]; [|exact L].
    apply Qltb_lt in L. congruence.
  - destruct (Qltb a b) eqn:E; [|reflexivity].
    apply Qltb_lt in E. exfalso. eapply Qlt_not_le; eauto.
Qed.

Lemma num_lt_irrefl a : num_lt a a = false.
Proof. destruct a; simpl; try reflexivity. apply Qltb_false. apply Qle_refl. Qed.

Lemma num_lt_nan_l a : num_lt NaN a = false.
Proof. destruct a; reflexivity. Qed.
Lemma num_lt_nan_r a : num_lt a NaN = false.
Proof. destruct a; reflexivity. Qed.

Lemma num_lt_true_not_nan a b : num_lt a b = true -> a <> NaN /\ b <> NaN.
Proof. destruct a, b; simpl; intro H; split; congruence. Qed.

(* a <= b <= c  (written with "not <") for numbers that are not NaN *)
Lemma num_le_trans a b c : b <> NaN ->
  num_lt b a = false -> num_lt c b = false -> num_lt c a = false.
Proof.
  destruct a, b, c; simpl; intros Hb H1 H2; try reflexivity; try congruence.
  apply Qltb_false. apply Qltb_false in H1. apply Qltb_false in H2. eapply Qle_trans; eauto.
Qed.

(* a < b <= c -> a < c *)
Lemma num_lt_le_trans a b c : c <> NaN ->
  num_lt a b = true -> num_lt c b = false -> num_lt a c = true.
Proof.
  destruct a, b, c; simpl; intros Hc H1 H2; try reflexivity; try congruence.
  apply Qltb_lt. apply Qltb_lt in H1. apply Qltb_false in H2. eapply Qlt_le_trans; eauto.
Qed.

(* a <= b < c -> a < c *)
Lemma num_le_lt_trans a b c : a <> NaN ->
  num_lt b a = false -> num_lt b c = true -> num_lt a c = true.
Proof.
  destruct a, b, c; simpl; intros Ha H1 H2; try reflexivity; try congruence.
  apply Qltb_lt. apply Qltb_lt in H2. apply Qltb_false in H1. eapply Qle_lt_trans; eauto.
Qed.

Lemma num_lt_asym a b : num_lt a b = true -> num_lt b a = false.
Proof.
  destruct a, b; simpl; intro H; try reflexivity; try congruence.
  apply Qltb_false. apply Qltb_lt in H. apply Qlt_le_weak. exact H.
Qed.

Lemma num_lt_neg a b : num_lt (num_neg a) (num_neg b) = num_lt b a.
Proof.
  destruct a, b; simpl; try reflexivity.
  destruct (Qltb q0 q) eqn:E.
  - apply Qltb_lt. apply Qltb_lt in E. apply Qopp_lt_compat. exact E.
  - apply Qltb_false. apply Qltb_false in E. apply Qopp_le_compat. exact E.
Qed.

Lemma num_neg_not_nan a : a <> NaN -> num_neg a <> NaN.
Proof. destruct a; simpl; congruence. Qed.

Lemma num_neg_invol_lt a : num_neg a = NaN -> a = NaN.
Proof. destruct a; simpl; congruence. Qed.

(* ======================================================================== *)
(* association lists                                                        *)
(* ======================================================================== *)

Lemma key_eqb_spec a b : key_eqb a b = true <-> a = b.
Proof.
  destruct a, b; simpl; split; intro H; try reflexivity; try discriminate;
    try (apply Nat.eqb_eq in H; congruence);
    try (injection H as ->; apply Nat.eqb_refl).
Qed.

Lemma key_eqb_refl a : key_eqb a a = true.
Proof. apply key_eqb_spec. reflexivity. Qed.

Lemma key_eqb_neq a b : a <> b -> key_eqb a b = false.
Proof. intro H. destruct (key_eqb a b) eqn:E; [|reflexivity]. apply key_eqb_spec in E. contradiction. Qed.

Section AssocFacts.
  Context {K A : Type} (eqb : K -> K -> bool).
  Hypothesis eqb_spec : forall a b, eqb a b = true <-> a = b.

  Lemma eqb_refl' a : eqb a a = true.
  Proof. apply eqb_spec. reflexivity. Qed.
  Lemma eqb_neq' a b : a <> b -> eqb a b = false.
  Proof. intro H. destruct (eqb a b) eqn:E; [|reflexivity]. apply eqb_spec in E. contradiction. Qed.

  Lemma aget_aset_same k (v : A) d : aget eqb k (aset eqb k v d) = Some v.
  Proof.
    induction d as [|[k' v'] d IH]; simpl.
    - rewrite eqb_refl'. reflexivity.
    - destruct (eqb k k') eqn:E; simpl; rewrite E; [reflexivity | exact IH].
  Qed.

  Lemma aget_aset_other k k' (v : A) d : k <> k' -> aget eqb k (aset eqb k' v d) = aget eqb k d.
  Proof.
    intro Hne. induction d as [|[k2 v2] d IH]; simpl.
    - rewrite (eqb_neq' _ _ Hne). reflexivity.
    - destruct (eqb k' k2) eqn:E; simpl.
      + apply eqb_spec in E. subst k2. rewrite (eqb_neq' _ _ Hne). reflexivity.
      + destruct (eqb k k2); [reflexivity | exact IH].
  Qed.

  Lemma aget_app k (d1 d2 : list (K * A)) :
    aget eqb k (d1 ++ d2) = match aget eqb k d1 with Some v => Some v | None => aget eqb k d2 end.
  Proof.
    induction d1 as [|[k' v'] d1 IH]; simpl; [reflexivity|].
    destruct (eqb k k'); [reflexivity | exact IH].
  Qed.

  Lemma aset_keys k (v : A) d :
    map fst (aset eqb k v d) = match aget eqb k d with Some _ => map fst d | None => map fst d ++ [k] end.
  Proof.
    induction d as [|[k' v'] d IH]; simpl; [reflexivity|].
    destruct (eqb k k') eqn:E; simpl; [reflexivity|].
    rewrite IH. destruct (aget eqb k d); reflexivity.
  Qed.

  Lemma aget_none_notin k (d : list (K * A)) : aget eqb k d = None <-> ~ In k (map fst d).
  Proof.
    induction d as [|[k' v'] d IH]; simpl.
    - split; [intros _ [] | reflexivity].
    - destruct (eqb k k') eqn:E.
      + apply eqb_spec in E. subst. split; [discriminate | intro H; exfalso; apply H; left; reflexivity].
      + rewrite IH. split.
        * intros H [H1|H1]; [subst; rewrite eqb_refl' in E; discriminate | contradiction].
        * intros H H1. apply H. right. exact H1.
  Qed.

  Lemma aget_in_nodup k (v : A) d : NoDup (map fst d) -> In (k, v) d -> aget eqb k d = Some v.
  Proof.
    induction d as [|[k' v'] d IH]; simpl; intros Hnd Hin; [contradiction|].
    inversion Hnd as [|? ? Hni Hnd']; subst.
    destruct Hin as [Heq|Hin].
    - injection Heq as -> ->. rewrite eqb_refl'. reflexivity.
    - destruct (eqb k k') eqn:E.
      + apply eqb_spec in E. subst. exfalso. apply Hni. apply (in_map fst) in Hin. exact Hin.
      + apply IH; assumption.
  Qed.

  Lemma aget_some_in k (v : A) d : aget eqb k d = Some v -> In (k, v) d.
  Proof.
    induction d as [|[k' v'] d IH]; simpl; [discriminate|].
    destruct (eqb k k') eqn:E.
    - intro H. injection H as ->. apply eqb_spec in E. subst. left. reflexivity.
    - intro H. right. apply IH. exact H.
  Qed.
End AssocFacts.

Lemma NoDup_app_snoc {A} (l : list A) x : NoDup l -> ~ In x l -> NoDup (l ++ [x]).
Proof.
  induction l as [|y l IH]; intros Hnd Hni; cbn.
  - constructor; [intros [] | constructor].
  - inversion Hnd as [|? ? Hy Hl]; subst. constructor.
    + intro H. apply in_app_or in H. destruct H as [H|[H|[]]]; [contradiction|]. subst. apply Hni. left. reflexivity.
    + apply IH; [exact Hl|]. intro H. apply Hni. right. exact H.
Qed.

Lemma Zeqb_spec a b : Z.eqb a b = true <-> a = b.
Proof. apply Z.eqb_eq. Qed.
Lemma Nateqb_spec a b : Nat.eqb a b = true <-> a = b.
Proof. apply Nat.eqb_eq. Qed.

(* ======================================================================== *)
(* MetricsStatistics: what happens to one metric                            *)
(* ======================================================================== *)

(* the entries of the four dictionaries for one metric name *)
Record kst := { k_isnum : option bool; k_min : option num; k_max : option num; k_sum : option num }.

Definition kproj (k : key) (s : stats) : kst :=
  {| k_isnum := aget key_eqb k (st_isnum s); k_min := aget key_eqb k (st_min s);
     k_max := aget key_eqb k (st_max s); k_sum := aget key_eqb k (st_sum s) |}.

Definition kst_empty : kst := {| k_isnum := None; k_min := None; k_max := None; k_sum := None |}.

Definition od {A} (o : option A) (d : A) : A := match o with Some v => v | None => d end.

Definition kfirst (ks : kst) (v : value) : option bool :=
  match k_isnum ks with Some b => Some b | None => Some (is_number v) end.

Definition kstep (ks : kst) (v : value) : kst :=
  match od (kfirst ks v) false, v with
  | true, VNum x => {| k_isnum := kfirst ks v;
                       k_min := Some (py_min (od (k_min ks) PInf) x);
                       k_max := Some (py_max (od (k_max ks) NInf) x);
                       k_sum := Some (num_add (od (k_sum ks) (Fin 0)) x) |}
  | _, _ => {| k_isnum := kfirst ks v; k_min := k_min ks; k_max := k_max ks; k_sum := k_sum ks |}
  end.

(* the values reported for metric [k] in one result, in order *)
Definition vals_of (k : key) (r : dict) : list value :=
  map snd (filter (fun kv => key_eqb (fst kv) k) r).

Lemma aget_d_od {A} k (d : list (key * A)) dflt : aget_d key_eqb k d dflt = od (aget key_eqb k d) dflt.
Proof. reflexivity. Qed.

Lemma kproj_add_one_same k s v : kproj k (stats_add_one s k v) = kstep (kproj k s) v.
Proof.
  unfold stats_add_one, kstep, kfirst, kproj. cbn [k_isnum k_min k_max k_sum].
  rewrite !aget_d_od.
  destruct (aget key_eqb k (st_isnum s)) as [b|] eqn:E.
  - rewrite E. cbn [od]. destruct b, v as [x|t]; cbn [st_isnum st_min st_max st_sum];
      rewrite ?(aget_aset_same key_eqb key_eqb_spec), ?E; reflexivity.
  - rewrite (aget_aset_same key_eqb key_eqb_spec). cbn [od].
    destruct v as [x|t]; cbn [is_number st_isnum st_min st_max st_sum];
      rewrite ?(aget_aset_same key_eqb key_eqb_spec); reflexivity.
Qed.

Lemma kproj_add_one_other k k' s v : k <> k' -> kproj k (stats_add_one s k' v) = kproj k s.
Proof.
  intro Hne. unfold stats_add_one, kproj.
  set (isnum' := match aget key_eqb k' (st_isnum s) with Some _ => st_isnum s | None => _ end).
  assert (Hi : aget key_eqb k isnum' = aget key_eqb k (st_isnum s)).
  { unfold isnum'. destruct (aget key_eqb k' (st_isnum s)); [reflexivity|].
    apply (aget_aset_other key_eqb key_eqb_spec _ _ _ _ Hne). }
  destruct (aget_d key_eqb k' isnum' false), v as [x|t]; cbn [st_isnum st_min st_max st_sum];
    rewrite ?(aget_aset_other key_eqb key_eqb_spec _ _ _ _ Hne), Hi; reflexivity.
Qed.

Lemma kproj_fold k r : forall s,
  kproj k (fold_left (fun s kv => stats_add_one s (fst kv) (snd kv)) r s)
  = fold_left kstep (vals_of k r) (kproj k s).
Proof.
  induction r as [|[k' v] r IH]; intro s; [reflexivity|].
  cbn [fold_left]. rewrite IH. unfold vals_of. cbn [filter fst snd].
  destruct (key_eqb k' k) eqn:E.
  - apply key_eqb_spec in E. subst k'. cbn [map fold_left snd]. rewrite kproj_add_one_same. reflexivity.
  - rewrite kproj_add_one_other; [reflexivity|]. intro H. subst. rewrite key_eqb_refl in E. discriminate.
Qed.

Lemma kproj_stats_add k s r : kproj k (stats_add s r) = fold_left kstep (vals_of k r) (kproj k s).
Proof. unfold stats_add. rewrite <- kproj_fold. reflexivity. Qed.

Lemma count_fold r : forall s,
  st_count (fold_left (fun s kv => stats_add_one s (fst kv) (snd kv)) r s) = st_count s.
Proof.
  induction r as [|[k v] r IH]; intro s; [reflexivity|].
  cbn [fold_left]. rewrite IH. unfold stats_add_one. cbn [fst snd].
  destruct (aget_d key_eqb k _ false), v; reflexivity.
Qed.

Lemma count_stats_add s r : st_count (stats_add s r) = S (st_count s).
Proof. unfold stats_add. cbn [st_count]. rewrite count_fold. reflexivity. Qed.

(* the batch statistics of a list of results *)
Definition stats_of (rs : list dict) : stats := fold_left stats_add rs stats_empty.

Lemma stats_of_snoc rs r : stats_of (rs ++ [r]) = stats_add (stats_of rs) r.
Proof. unfold stats_of. rewrite fold_left_app. reflexivity. Qed.

Lemma fold_stats_count rs : forall s, st_count (fold_left stats_add rs s) = (length rs + st_count s)%nat.
Proof.
  induction rs as [|r rs IH]; intro s; [reflexivity|].
  cbn [fold_left length]. rewrite IH, count_stats_add. lia.
Qed.

Lemma stats_of_count rs : st_count (stats_of rs) = length rs.
Proof. unfold stats_of. rewrite fold_stats_count. cbn. lia. Qed.

Lemma fold_stats_kproj k rs : forall s,
  kproj k (fold_left stats_add rs s) = fold_left kstep (flat_map (vals_of k) rs) (kproj k s).
Proof.
  induction rs as [|r rs IH]; intro s; [reflexivity|].
  cbn [fold_left flat_map]. rewrite IH, fold_left_app, kproj_stats_add. reflexivity.
Qed.

Lemma stats_of_kproj k rs :
  kproj k (stats_of rs) = fold_left kstep (flat_map (vals_of k) rs) kst_empty.
Proof. unfold stats_of. rewrite fold_stats_kproj. reflexivity. Qed.

(* ---- closed form of the per-metric fold --------------------------------- *)

(* all numbers among the values *)
Fixpoint nums (vs : list value) : list num :=
  match vs with
  | [] => []
  | VNum x :: r => x :: nums r
  | VTok _ :: r => nums r
  end.

(* the values that count: ALL numbers, provided the first value is a number
   ("the type of the first value of a metric defines its type"); none otherwise *)
Definition counted_vals (vs : list value) : list num :=
  match vs with
  | VNum x :: r => x :: nums r
  | _ => []
  end.

Definition fold_opt (f : num -> num -> num) (np : list num) (old : option num) (dflt : num) : option num :=
  match np with [] => old | _ => Some (fold_left f np (od old dflt)) end.

Lemma fold_opt_some f np a d : fold_opt f np (Some a) d = Some (fold_left f np a).
Proof. destruct np; reflexivity. Qed.

Lemma kstep_false vs : forall ks, k_isnum ks = Some false -> fold_left kstep vs ks = ks.
Proof.
  induction vs as [|v vs IH]; intros ks H; [reflexivity|].
  cbn [fold_left].
  assert (Hs : kstep ks v = ks).
  { destruct ks as [i mn mx sm]. cbn in H. subst i. unfold kstep, kfirst. cbn. destruct v; reflexivity. }
  rewrite Hs. apply IH. exact H.
Qed.

Lemma kfold_true vs : forall ks, k_isnum ks = Some true ->
  fold_left kstep vs ks =
  {| k_isnum := Some true;
     k_min := fold_opt py_min (nums vs) (k_min ks) PInf;
     k_max := fold_opt py_max (nums vs) (k_max ks) NInf;
     k_sum := fold_opt num_add (nums vs) (k_sum ks) (Fin 0) |}.
Proof.
  induction vs as [|v vs IH]; intros ks H.
  - destruct ks as [i mn mx sm]. cbn in H. subst i. reflexivity.
  - cbn [fold_left]. destruct v as [x|t].
    + assert (Hs : kstep ks (VNum x) =
                   {| k_isnum := Some true; k_min := Some (py_min (od (k_min ks) PInf) x);
                      k_max := Some (py_max (od (k_max ks) NInf) x);
                      k_sum := Some (num_add (od (k_sum ks) (Fin 0)) x) |}).
      { unfold kstep, kfirst. rewrite H. reflexivity. }
      rewrite Hs, IH by reflexivity. cbn [k_min k_max k_sum nums]. rewrite !fold_opt_some. reflexivity.
    + assert (Hs : kstep ks (VTok t) = ks).
      { destruct ks as [i mn mx sm]. cbn in H. subst i. reflexivity. }
      rewrite Hs. cbn [nums]. apply IH. exact H.
Qed.

Lemma kfold_empty vs :
  fold_left kstep vs kst_empty =
  {| k_isnum := match vs with [] => None | v :: _ => Some (is_number v) end;
     k_min := fold_opt py_min (counted_vals vs) None PInf;
     k_max := fold_opt py_max (counted_vals vs) None NInf;
     k_sum := fold_opt num_add (counted_vals vs) None (Fin 0) |}.
Proof.
  destruct vs as [|[x|t] vs]; [reflexivity| |].
  - cbn [fold_left]. change (kstep kst_empty (VNum x)) with
      {| k_isnum := Some true; k_min := Some (py_min PInf x); k_max := Some (py_max NInf x);
         k_sum := Some (num_add (Fin 0) x) |}.
    rewrite kfold_true by reflexivity. cbn [k_min k_max k_sum counted_vals is_number].
    rewrite !fold_opt_some. reflexivity.
  - cbn [fold_left]. change (kstep kst_empty (VTok t)) with
      {| k_isnum := Some false; k_min := None; k_max := None; k_sum := None |}.
    rewrite kstep_false by reflexivity. reflexivity.
Qed.

Lemma nums_in x vs : In x (nums vs) <-> In (VNum x) vs.
Proof.
  induction vs as [|[y|t] vs IH]; cbn.
  - tauto.
  - rewrite IH. split; intros [H|H]; [left; congruence | right; exact H | left; congruence | right; exact H].
  - rewrite IH. split; [intro H; right; exact H | intros [H|H]; [discriminate | exact H]].
Qed.

Lemma nums_map_fin qs : nums (map (fun x => VNum (Fin x)) qs) = map Fin qs.
Proof. induction qs as [|x qs IH]; [reflexivity|]. cbn. rewrite IH. reflexivity. Qed.

Lemma counted_vals_map_fin qs : counted_vals (map (fun x => VNum (Fin x)) qs) = map Fin qs.
Proof. destruct qs as [|x qs]; [reflexivity|]. cbn. rewrite nums_map_fin. reflexivity. Qed.

(* ---- what fold_left py_min / py_max / num_add compute -------------------- *)

Lemma pymin_fold np : forall a, a <> NaN ->
  let m := fold_left py_min np a in
  m <> NaN /\ (m = a \/ In m np) /\ num_lt a m = false /\ (forall x, In x np -> num_lt x m = false).
Proof.
  induction np as [|x np IH]; intros a Ha; cbn [fold_left].
  - repeat split; [exact Ha | left; reflexivity | apply num_lt_irrefl | intros x []].
  - assert (Hp : py_min a x <> NaN).
    { unfold py_min. destruct (num_lt x a) eqn:E; [apply num_lt_true_not_nan in E; tauto | exact Ha]. }
    destruct (IH (py_min a x) Hp) as (Hn & Hor & Hle & Hall).
    set (m := fold_left py_min np (py_min a x)) in *.
    assert (Hax : num_lt a (py_min a x) = false /\ num_lt x (py_min a x) = false).
    { unfold py_min. destruct (num_lt x a) eqn:E.
      - split; [apply num_lt_asym; exact E | apply num_lt_irrefl].
      - split; [apply num_lt_irrefl | exact E]. }
    destruct Hax as [H1 H2].
    repeat split.
    + exact Hn.
    + destruct Hor as [Hm|Hm].
      * unfold py_min in Hm. destruct (num_lt x a); [right; left; symmetry; exact Hm | left; exact Hm].
      * right. right. exact Hm.
    + eapply num_le_trans; [exact Hp | exact Hle | exact H1].
    + intros y [->|Hy]; [|apply Hall; exact Hy].
      eapply num_le_trans; [exact Hp | exact Hle | exact H2].
Qed.

Lemma pymax_fold np : forall a, a <> NaN ->
  let m := fold_left py_max np a in
  m <> NaN /\ (m = a \/ In m np) /\ num_lt m a = false /\ (forall x, In x np -> num_lt m x = false).
Proof.
  induction np as [|x np IH]; intros a Ha; cbn [fold_left].
  - repeat split; [exact Ha | left; reflexivity | apply num_lt_irrefl | intros x []].
  - assert (Hp : py_max a x <> NaN).
    { unfold py_max. destruct (num_lt a x) eqn:E; [apply num_lt_true_not_nan in E; tauto | exact Ha]. }
    destruct (IH (py_max a x) Hp) as (Hn & Hor & Hle & Hall).
    set (m := fold_left py_max np (py_max a x)) in *.
    assert (Hax : num_lt (py_max a x) a = false /\ num_lt (py_max a x) x = false).
    { unfold py_max. destruct (num_lt a x) eqn:E.
      - split; [apply num_lt_asym; exact E | apply num_lt_irrefl].
      - split; [apply num_lt_irrefl | exact E]. }
    destruct Hax as [H1 H2].
    repeat split.
    + exact Hn.
    + destruct Hor as [Hm|Hm].
      * unfold py_max in Hm. destruct (num_lt a x); [right; left; symmetry; exact Hm | left; exact Hm].
      * right. right. exact Hm.
    + eapply num_le_trans; [exact Hp | exact H1 | exact Hle].
    + intros y [->|Hy]; [|apply Hall; exact Hy].
      eapply num_le_trans; [exact Hp | exact H2 | exact Hle].
Qed.

(* when every counted value is an ordinary number the sum is the exact sum *)
Lemma sum_fold_fin qs : forall a,
  fold_left num_add (map Fin qs) (Fin a) = Fin (fold_left Qplus qs a).
Proof. induction qs as [|x qs IH]; intro a; [reflexivity|]. cbn [map fold_left num_add]. apply IH. Qed.

Lemma num_add_nan_l x : num_add NaN x = NaN.
Proof. destruct x; reflexivity. Qed.

Lemma sum_fold_nan_acc np : fold_left num_add np NaN = NaN.
Proof. induction np as [|x np IH]; [reflexivity|]. cbn [fold_left]. rewrite num_add_nan_l. exact IH. Qed.

Lemma sum_fold_nan np : forall a, In NaN np -> fold_left num_add np a = NaN.
Proof.
  induction np as [|x np IH]; intros a H; [contradiction|].
  cbn [fold_left]. destruct H as [->|H].
  - replace (num_add a NaN) with NaN by (destruct a; reflexivity). apply sum_fold_nan_acc.
  - apply IH. exact H.
Qed.

(* ======================================================================== *)
(* TuningStatus.update: interleaved folds = batch folds                     *)
(* ======================================================================== *)

Definition of_trial (t : Z) (h : list (Z * dict)) : list dict :=
  map snd (filter (fun tr => Z.eqb (fst tr) t) h).

Lemma of_trial_app t h1 h2 : of_trial t (h1 ++ h2) = of_trial t h1 ++ of_trial t h2.
Proof. unfold of_trial. rewrite filter_app, map_app. reflexivity. Qed.

Definition tinv (ts : tstatus) (h : list (Z * dict)) : Prop :=
  ts_overall ts = stats_of (map snd h) /\
  NoDup (map fst (ts_trials ts)) /\
  (forall t, aget_d Z.eqb t (ts_trials ts) stats_empty = stats_of (of_trial t h)) /\
  (forall t, In t (map fst h) -> In t (map fst (ts_trials ts))).

Lemma touch_get t t0 d : aget_d Z.eqb t (touch t0 d) stats_empty = aget_d Z.eqb t d stats_empty.
Proof.
  unfold touch, aget_d. destruct (aget Z.eqb t0 d) eqn:E; [reflexivity|].
  rewrite aget_app. destruct (aget Z.eqb t d) eqn:E2; [reflexivity|].
  simpl. destruct (Z.eqb t t0); reflexivity.
Qed.

Lemma touch_keys t0 d :
  map fst (touch t0 d) = if existsb (Z.eqb t0) (map fst d) then map fst d else map fst d ++ [t0].
Proof.
  unfold touch. destruct (aget Z.eqb t0 d) eqn:E.
  - assert (H : In t0 (map fst d)).
    { apply (aget_some_in Z.eqb Zeqb_spec) in E. apply (in_map fst) in E. exact E. }
    destruct (existsb (Z.eqb t0) (map fst d)) eqn:X; [reflexivity|].
    exfalso. rewrite <- not_true_iff_false in X. apply X. apply existsb_exists. exists t0. split; [exact H | apply Z.eqb_refl].
  - apply (aget_none_notin Z.eqb Zeqb_spec) in E.
    destruct (existsb (Z.eqb t0) (map fst d)) eqn:X.
    + exfalso. apply existsb_exists in X. destruct X as [y [Hy Hxy]]. apply Z.eqb_eq in Hxy. subst. contradiction.
    + rewrite map_app. reflexivity.
Qed.

Lemma touch_nodup t0 d : NoDup (map fst d) -> NoDup (map fst (touch t0 d)).
Proof.
  intro H. unfold touch. destruct (aget Z.eqb t0 d) eqn:E; [exact H|].
  apply (aget_none_notin Z.eqb Zeqb_spec) in E. rewrite map_app. cbn.
  apply NoDup_app_snoc; assumption.
Qed.

Lemma touch_in t0 d : In t0 (map fst (touch t0 d)).
Proof.
  unfold touch. destruct (aget Z.eqb t0 d) eqn:E.
  - apply (aget_some_in Z.eqb Zeqb_spec) in E. apply (in_map fst) in E. exact E.
  - rewrite map_app. apply in_or_app. right. left. reflexivity.
Qed.

Lemma touch_incl t t0 d : In t (map fst d) -> In t (map fst (touch t0 d)).
Proof.
  unfold touch. destruct (aget Z.eqb t0 d); [tauto|]. rewrite map_app. intro. apply in_or_app. left. assumption.
Qed.

Lemma tinv_init : tinv ts_init [].
Proof.
  unfold tinv, ts_init. cbn. repeat split; [constructor | intros t []].
Qed.

Lemma aget_d_aset t t0 (v : stats) d :
  aget_d Z.eqb t (aset Z.eqb t0 v d) stats_empty = if Z.eqb t t0 then v else aget_d Z.eqb t d stats_empty.
Proof.
  unfold aget_d. destruct (Z.eqb t t0) eqn:E.
  - apply Z.eqb_eq in E. subst. rewrite (aget_aset_same Z.eqb Zeqb_spec). reflexivity.
  - rewrite (aget_aset_other Z.eqb Zeqb_spec); [reflexivity|]. intro H. subst. rewrite Z.eqb_refl in E. discriminate.
Qed.

Lemma tinv_add ts h x : tinv ts h -> tinv (ts_add_result ts x) (h ++ [x]).
Proof.
  intros (Ho & Hnd & Hget & Hin). destruct x as [t0 r]. unfold ts_add_result.
  unfold tinv. cbn [ts_overall ts_trials].
  assert (Hpresent : aget Z.eqb t0 (touch t0 (ts_trials ts)) <> None).
  { intro H. apply (aget_none_notin Z.eqb Zeqb_spec) in H. apply H. apply touch_in. }
  assert (Hkeys : map fst (aset Z.eqb t0 (stats_add (aget_d Z.eqb t0 (touch t0 (ts_trials ts)) stats_empty) r)
                                (touch t0 (ts_trials ts))) = map fst (touch t0 (ts_trials ts))).
  { rewrite aset_keys. destruct (aget Z.eqb t0 (touch t0 (ts_trials ts))); [reflexivity | contradiction]. }
  repeat split.
  - rewrite map_app. cbn [map snd]. rewrite stats_of_snoc, Ho. reflexivity.
  - rewrite Hkeys. apply touch_nodup. exact Hnd.
  - intro t. rewrite aget_d_aset, of_trial_app. unfold of_trial at 2. cbn [filter fst].
    destruct (Z.eqb t t0) eqn:E.
    + apply Z.eqb_eq in E. subst t0. rewrite Z.eqb_refl. cbn [map snd].
      rewrite stats_of_snoc, touch_get, Hget. reflexivity.
    + rewrite Z.eqb_sym, E. cbn [map]. rewrite app_nil_r, touch_get. apply Hget.
  - intros t Ht. rewrite Hkeys. rewrite map_app in Ht. apply in_app_or in Ht. destruct Ht as [Ht|[Ht|[]]].
    + apply touch_incl. apply Hin. exact Ht.
    + cbn in Ht. subst. apply touch_in.
Qed.

Lemma tinv_touch ts h t : tinv ts h -> tinv (ts_touch ts t) h.
Proof.
  intros (Ho & Hnd & Hget & Hin). unfold ts_touch, tinv. cbn [ts_overall ts_trials]. repeat split.
  - exact Ho.
  - apply touch_nodup. exact Hnd.
  - intro t'. rewrite touch_get. apply Hget.
  - intros t' Ht. apply touch_incl. apply Hin. exact Ht.
Qed.

Lemma tinv_fold_add xs : forall ts h, tinv ts h -> tinv (fold_left ts_add_result xs ts) (h ++ xs).
Proof.
  induction xs as [|x xs IH]; intros ts h H; cbn [fold_left].
  - rewrite app_nil_r. exact H.
  - replace (h ++ x :: xs) with ((h ++ [x]) ++ xs) by (rewrite <- app_assoc; reflexivity).
    apply IH. apply tinv_add. exact H.
Qed.

Lemma tinv_fold_touch ids : forall ts h, tinv ts h -> tinv (fold_left ts_touch ids ts) h.
Proof.
  induction ids as [|t ids IH]; intros ts h H; cbn [fold_left]; [exact H|].
  apply IH. apply tinv_touch. exact H.
Qed.

Lemma tinv_update ts h u : tinv ts h -> tinv (ts_update ts u) (h ++ snd u).
Proof.
  intro H. destruct u as [ids res]. unfold ts_update. cbn [snd].
  apply tinv_fold_touch. apply tinv_fold_add. exact H.
Qed.

(* everything handed to the loop, in order *)
Definition handed (history : list (list Z * list (Z * dict))) : list (Z * dict) := flat_map snd history.

Lemma tinv_fold_update hist : forall ts h, tinv ts h -> tinv (fold_left ts_update hist ts) (h ++ handed hist).
Proof.
  induction hist as [|u hist IH]; intros ts h H; cbn [fold_left handed flat_map].
  - rewrite app_nil_r. exact H.
  - rewrite app_assoc. apply IH. apply tinv_update. exact H.
Qed.

Lemma tinv_run hist : tinv (ts_run hist) (handed hist).
Proof. unfold ts_run. apply (tinv_fold_update hist ts_init []). apply tinv_init. Qed.

(* the trials touched through the status dictionaries stay in the table *)
Lemma fold_touch_in ids : forall ts t, In t ids \/ In t (map fst (ts_trials ts)) ->
  In t (map fst (ts_trials (fold_left ts_touch ids ts))).
Proof.
  induction ids as [|t0 ids IH]; intros ts t H; cbn [fold_left].
  - destruct H as [[]|H]; exact H.
  - apply IH. destruct H as [[->|H]|H].
    + right. unfold ts_touch. cbn [ts_trials]. apply touch_in.
    + left. exact H.
    + right. unfold ts_touch. cbn [ts_trials]. apply touch_incl. exact H.
Qed.

Lemma add_keeps_keys ts x t : In t (map fst (ts_trials ts)) -> In t (map fst (ts_trials (ts_add_result ts x))).
Proof.
  destruct x as [t0 r]. unfold ts_add_result. cbn [ts_trials]. intro H.
  rewrite aset_keys.
  destruct (aget Z.eqb t0 (touch t0 (ts_trials ts))).
  - apply touch_incl. exact H.
  - apply in_or_app. left. apply touch_incl. exact H.
Qed.

Lemma fold_add_keeps_keys xs : forall ts t, In t (map fst (ts_trials ts)) ->
  In t (map fst (ts_trials (fold_left ts_add_result xs ts))).
Proof.
  induction xs as [|x xs IH]; intros ts t H; cbn [fold_left]; [exact H|].
  apply IH. apply add_keeps_keys. exact H.
Qed.

Lemma update_keeps_keys ts u t : In t (fst u) \/ In t (map fst (ts_trials ts)) ->
  In t (map fst (ts_trials (ts_update ts u))).
Proof.
  destruct u as [ids res]. unfold ts_update. cbn [fst]. intro H. apply fold_touch_in.
  destruct H as [H|H]; [left; exact H | right; apply fold_add_keeps_keys; exact H].
Qed.

Lemma fold_update_keeps_keys hist : forall ts t,
  In t (flat_map fst hist) \/ In t (map fst (ts_trials ts)) ->
  In t (map fst (ts_trials (fold_left ts_update hist ts))).
Proof.
  induction hist as [|u hist IH]; intros ts t H; cbn [fold_left flat_map] in *.
  - destruct H as [[]|H]; exact H.
  - apply IH. destruct H as [H|H].
    + apply in_app_or in H. destruct H as [H|H]; [right; apply update_keeps_keys; left; exact H | left; exact H].
    + right. apply update_keeps_keys. right. exact H.
Qed.

(* ---- c17_stats ----------------------------------------------------------- *)

(* the counted values of metric [k] in a list of results *)
Definition counted (k : key) (rs : list dict) : list num := counted_vals (flat_map (vals_of k) rs).

Lemma stats_interleaved_is_batch hist :
  let ts := ts_run hist in
  ts_overall ts = stats_of (map snd (handed hist)) /\
  (forall t, aget_d Z.eqb t (ts_trials ts) stats_empty = stats_of (of_trial t (handed hist))) /\
  NoDup (map fst (ts_trials ts)) /\
  (forall t, In t (map fst (handed hist)) \/ In t (flat_map fst hist) -> In t (map fst (ts_trials ts))).
Proof.
  destruct (tinv_run hist) as (Ho & Hnd & Hget & Hin). cbn zeta. repeat split; try assumption.
  intros t [H|H]; [apply Hin; exact H|].
  unfold ts_run. apply fold_update_keeps_keys. left. exact H.
Qed.

(* closed form of the batch statistics, metric by metric *)
Lemma stats_of_closed k rs :
  st_count (stats_of rs) = length rs /\
  aget key_eqb k (st_min (stats_of rs)) = fold_opt py_min (counted k rs) None PInf /\
  aget key_eqb k (st_max (stats_of rs)) = fold_opt py_max (counted k rs) None NInf /\
  aget key_eqb k (st_sum (stats_of rs)) = fold_opt num_add (counted k rs) None (Fin 0).
Proof.
  split; [apply stats_of_count|].
  pose proof (stats_of_kproj k rs) as H. rewrite kfold_empty in H. unfold kproj in H.
  injection H as _ H1 H2 H3. unfold counted. repeat split; assumption.
Qed.

(* which values are counted: ALL numbers of the metric when its first value is a number *)
Lemma counted_first_numeric k rs x r :
  flat_map (vals_of k) rs = VNum x :: r -> counted k rs = nums (flat_map (vals_of k) rs).
Proof. unfold counted. intros ->. reflexivity. Qed.

Lemma counted_first_non_numeric k rs t r :
  flat_map (vals_of k) rs = VTok t :: r -> counted k rs = [].
Proof. unfold counted. intros ->. reflexivity. Qed.

Lemma counted_in_numeric k rs x0 r x :
  flat_map (vals_of k) rs = VNum x0 :: r ->
  (In x (counted k rs) <-> In (VNum x) (flat_map (vals_of k) rs)).
Proof. intro H. rewrite (counted_first_numeric _ _ _ _ H). apply nums_in. Qed.

(* mathematical reading: nothing counted -> no entry; otherwise the entry is the
   minimum (maximum) of the counted values that are not NaN, inf (-inf) when all are NaN *)
Lemma stats_min_spec k rs :
  match aget key_eqb k (st_min (stats_of rs)) with
  | None => counted k rs = []
  | Some m => counted k rs <> [] /\ m <> NaN /\ (m = PInf \/ In m (counted k rs)) /\
              (forall x, In x (counted k rs) -> num_lt x m = false)
  end.
Proof.
  destruct (stats_of_closed k rs) as (_ & H & _ & _). rewrite H. unfold fold_opt.
  destruct (counted k rs) as [|x np] eqn:E; [reflexivity|].
  cbn [od]. destruct (pymin_fold (x :: np) PInf ltac:(discriminate)) as (Hn & Hor & _ & Hall).
  repeat split; [discriminate | exact Hn | exact Hor | exact Hall].
Qed.

Lemma stats_max_spec k rs :
  match aget key_eqb k (st_max (stats_of rs)) with
  | None => counted k rs = []
  | Some m => counted k rs <> [] /\ m <> NaN /\ (m = NInf \/ In m (counted k rs)) /\
              (forall x, In x (counted k rs) -> num_lt m x = false)
  end.
Proof.
  destruct (stats_of_closed k rs) as (_ & _ & H & _). rewrite H. unfold fold_opt.
  destruct (counted k rs) as [|x np] eqn:E; [reflexivity|].
  cbn [od]. destruct (pymax_fold (x :: np) NInf ltac:(discriminate)) as (Hn & Hor & _ & Hall).
  repeat split; [discriminate | exact Hn | exact Hor | exact Hall].
Qed.

(* all values of the metric are ordinary finite numbers: textbook min / max / sum *)
Lemma stats_finite_spec k rs qs : flat_map (vals_of k) rs = map (fun x => VNum (Fin x)) qs -> qs <> [] ->
  exists mn mx,
    aget key_eqb k (st_min (stats_of rs)) = Some (Fin mn) /\ In mn qs /\ (forall x, In x qs -> (mn <= x)%Q) /\
    aget key_eqb k (st_max (stats_of rs)) = Some (Fin mx) /\ In mx qs /\ (forall x, In x qs -> (x <= mx)%Q) /\
    aget key_eqb k (st_sum (stats_of rs)) = Some (Fin (fold_left Qplus qs 0%Q)).
Proof.
  intros Hv Hne.
  assert (Hc : counted k rs = map Fin qs).
  { unfold counted. rewrite Hv. apply counted_vals_map_fin. }
  pose proof (stats_min_spec k rs) as Hmin. pose proof (stats_max_spec k rs) as Hmax.
  destruct (stats_of_closed k rs) as (_ & _ & _ & Hsum).
  rewrite Hc in *.
  destruct (aget key_eqb k (st_min (stats_of rs))) as [m|]; [|destruct qs; [contradiction|discriminate]].
  destruct (aget key_eqb k (st_max (stats_of rs))) as [M|]; [|destruct qs; [contradiction|discriminate]].
  destruct Hmin as (_ & _ & Hor & Hall). destruct Hmax as (_ & _ & Hor' & Hall').
  assert (Hm : exists mn, m = Fin mn /\ In mn qs).
  { destruct Hor as [->|Hi].
    - destruct qs as [|x qs]; [contradiction|]. specialize (Hall (Fin x) (or_introl eq_refl)). discriminate.
    - apply in_map_iff in Hi. destruct Hi as [mn [<- Hi]]. exists mn. split; [reflexivity | exact Hi]. }
  assert (HM : exists mx, M = Fin mx /\ In mx qs).
  { destruct Hor' as [->|Hi].
    - destruct qs as [|x qs]; [contradiction|]. specialize (Hall' (Fin x) (or_introl eq_refl)). discriminate.
    - apply in_map_iff in Hi. destruct Hi as [mx [<- Hi]]. exists mx. split; [reflexivity | exact Hi]. }
  destruct Hm as [mn [-> Hmn]]. destruct HM as [mx [-> Hmx]].
  exists mn, mx. repeat split; try assumption; try reflexivity.
  - intros x Hx. specialize (Hall (Fin x) (in_map Fin _ _ Hx)). cbn in Hall. apply Qltb_false in Hall. exact Hall.
  - intros x Hx. specialize (Hall' (Fin x) (in_map Fin _ _ Hx)). cbn in Hall'. apply Qltb_false in Hall'. exact Hall'.
  - rewrite Hsum. unfold fold_opt. destruct qs as [|x qs]; [contradiction|].
    change (map Fin (x :: qs)) with (map Fin (x :: qs)). cbn [od]. rewrite sum_fold_fin. reflexivity.
Qed.

(* ======================================================================== *)
(* StoreResultsCallback: rows                                               *)
(* ======================================================================== *)

Lemma dget_dset k k' v d : dget k (dset k' v d) = if key_eqb k k' then Some v else dget k d.
Proof.
  unfold dget, dset. destruct (key_eqb k k') eqn:E.
  - apply key_eqb_spec in E. subst. apply (aget_aset_same key_eqb key_eqb_spec).
  - apply (aget_aset_other key_eqb key_eqb_spec). intro H. subst. rewrite key_eqb_refl in E. discriminate.
Qed.

Lemma add_config_snoc cfg x r :
  add_config (cfg ++ [x]) r = dset (KConfig (fst x)) (snd x) (add_config cfg r).
Proof. unfold add_config. rewrite fold_left_app. reflexivity. Qed.

Lemma dget_add_config cfg : forall r k,
  dget k (add_config cfg r) =
  match k with
  | KConfig s => match aget Nat.eqb s (rev cfg) with Some v => Some v | None => dget k r end
  | _ => dget k r
  end.
Proof.
  induction cfg as [|x cfg IH] using rev_ind; intros r k.
  - cbn. destruct k; reflexivity.
  - rewrite add_config_snoc, dget_dset, rev_app_distr. cbn [rev app aget]. destruct x as [s0 v0]. cbn [fst snd].
    rewrite IH. destruct k; cbn [key_eqb]; try reflexivity.
    destruct (Nat.eqb s s0); reflexivity.
Qed.

Lemma cfg_last_binding (cfg : list (nat * value)) s v :
  NoDup (map fst cfg) -> In (s, v) cfg -> aget Nat.eqb s (rev cfg) = Some v.
Proof.
  intros Hnd Hin. apply (aget_in_nodup Nat.eqb Nateqb_spec).
  - rewrite map_rev. apply NoDup_rev. exact Hnd.
  - apply in_rev in Hin. exact Hin.
Qed.

Lemma cfg_no_binding (cfg : list (nat * value)) s : ~ In s (map fst cfg) -> aget Nat.eqb s (rev cfg) = None.
Proof.
  intro H. apply (aget_none_notin Nat.eqb Nateqb_spec). rewrite map_rev. intro H1. apply in_rev in H1. contradiction.
Qed.

Definition stamp_of (w : bool) (e : event) : option value :=
  match dget KTunerTime (ev_result e) with
  | Some v => Some v
  | None => if w then Some (VNum (Fin (ev_clock e))) else None
  end.

(* the row as a map, column by column *)
Lemma make_row_get w e k :
  dget k (make_row_base w e) =
  match k with
  | KTrialId => Some (VNum (Fin (inject_Z (ev_trial e))))
  | KDecision => Some (VTok (ev_decision e))
  | KStatus => Some (VTok (ev_status e))
  | KTunerTime => stamp_of w e
  | KConfig s => match aget Nat.eqb s (rev (ev_config e)) with
                 | Some v => Some v
                 | None => dget k (ev_result e)
                 end
  | _ => dget k (ev_result e)
  end.
Proof.
  unfold make_row_base, set_time_fields, stamp_of.
  set (r3 := dset KTrialId _ _).
  assert (Ht : dget KTunerTime (add_config (ev_config e) r3) = dget KTunerTime (ev_result e)).
  { rewrite dget_add_config. unfold r3. rewrite !dget_dset. reflexivity. }
  destruct w.
  - rewrite Ht. destruct (dget KTunerTime (ev_result e)) eqn:E.
    + rewrite dget_add_config. unfold r3. destruct k; rewrite ?dget_dset; cbn [key_eqb]; try reflexivity.
      exact E.
    + rewrite dget_dset, dget_add_config. unfold r3. destruct k; rewrite ?dget_dset; cbn [key_eqb]; try reflexivity.
  - rewrite dget_add_config. unfold r3. destruct k; rewrite ?dget_dset; cbn [key_eqb]; try reflexivity.
    destruct (dget KTunerTime (ev_result e)); reflexivity.
Qed.

Definition row_reflects_base (w : bool) (e : event) (row : dict) : Prop :=
  dget KTrialId row = Some (VNum (Fin (inject_Z (ev_trial e)))) /\
  dget KDecision row = Some (VTok (ev_decision e)) /\
  dget KStatus row = Some (VTok (ev_status e)) /\
  (NoDup (map fst (ev_config e)) ->
     forall s v, In (s, v) (ev_config e) -> dget (KConfig s) row = Some v) /\
  (forall s, ~ In s (map fst (ev_config e)) -> dget (KConfig s) row = dget (KConfig s) (ev_result e)) /\
  (forall s, dget (KUser s) row = dget (KUser s) (ev_result e)) /\
  (forall s, dget (KSt s) row = dget (KSt s) (ev_result e)) /\
  dget KTunerTime row = stamp_of w e.

Lemma make_row_base_reflects w e : row_reflects_base w e (make_row_base w e).
Proof.
  unfold row_reflects_base.
  split; [rewrite make_row_get; reflexivity|].
  split; [rewrite make_row_get; reflexivity|].
  split; [rewrite make_row_get; reflexivity|].
  split.
  { intros Hnd s v Hin. rewrite make_row_get, (cfg_last_binding _ _ _ Hnd Hin). reflexivity. }
  split.
  { intros s Hs. rewrite make_row_get, (cfg_no_binding _ _ Hs). reflexivity. }
  split; [intro s; rewrite make_row_get; reflexivity|].
  split; [intro s; rewrite make_row_get; reflexivity|].
  rewrite make_row_get. reflexivity.
Qed.

(* the extra columns of the composer for key k: the last binding of k in what it returned *)
Definition extra_binding (e : event) (k : key) : option value :=
  match ev_extra e with Some x => aget key_eqb k (rev x) | None => None end.

Lemma dict_update_snoc x kv r : dict_update (x ++ [kv]) r = dset (fst kv) (snd kv) (dict_update x r).
Proof. unfold dict_update. rewrite fold_left_app. reflexivity. Qed.

Lemma dget_dict_update x : forall r k,
  dget k (dict_update x r) = match aget key_eqb k (rev x) with Some v => Some v | None => dget k r end.
Proof.
  induction x as [|kv x IH] using rev_ind; intros r k; [reflexivity|].
  rewrite dict_update_snoc, dget_dset, rev_app_distr. cbn [rev app aget]. destruct kv as [k0 v0]. cbn [fst snd].
  destruct (key_eqb k k0); [reflexivity | apply IH].
Qed.

(* the row: the columns fixed by [row_reflects_base], overridden / extended by the columns of the
   composer; a composer returning None (or no composer) leaves the row as it is *)
Definition row_reflects (w : bool) (e : event) (row : dict) : Prop :=
  exists base, row_reflects_base w e base /\
    forall k, dget k row = match extra_binding e k with Some v => Some v | None => dget k base end.

Lemma make_row_reflects w e : row_reflects w e (make_row w e).
Proof.
  exists (make_row_base w e). split; [apply make_row_base_reflects|].
  intro k. unfold make_row, append_extra, extra_binding. destruct (ev_extra e) as [x|]; [apply dget_dict_update | reflexivity].
Qed.

Lemma extra_binding_in e x k v : ev_extra e = Some x -> NoDup (map fst x) -> In (k, v) x -> extra_binding e k = Some v.
Proof.
  intros He Hnd Hin. unfold extra_binding. rewrite He. apply (aget_in_nodup key_eqb key_eqb_spec).
  - rewrite map_rev. apply NoDup_rev. exact Hnd.
  - apply in_rev in Hin. exact Hin.
Qed.

Lemma extra_binding_none e k :
  match ev_extra e with Some x => ~ In k (map fst x) | None => True end -> extra_binding e k = None.
Proof.
  unfold extra_binding. destruct (ev_extra e) as [x|]; [|reflexivity]. intro H.
  apply (aget_none_notin key_eqb key_eqb_spec). rewrite map_rev. intro H1. apply in_rev in H1. contradiction.
Qed.

Definition disk_ok (s : cb_state) : Prop :=
  match cb_disk s with None => True | Some d => exists rest, cb_results s = d ++ rest end.

Lemma cb_feed_spec evs : forall s, cb_started s = true -> disk_ok s ->
  exists s', cb_feed s evs = Some s' /\
             cb_results s' = cb_results s ++ map (make_row (cb_wallclock s)) evs /\
             cb_started s' = true /\ cb_wallclock s' = cb_wallclock s /\ disk_ok s'.
Proof.
  induction evs as [|e evs IH]; intros s Hs Hd.
  - exists s. cbn. rewrite app_nil_r. repeat split; assumption.
  - cbn [cb_feed]. unfold cb_on_trial_result. rewrite Hs.
    set (s1 := {| cb_results := cb_results s ++ [make_row (cb_wallclock s) e]; cb_started := true;
                  cb_wallclock := cb_wallclock s; cb_disk := cb_disk s |}).
    set (s2 := if ev_fire e then cb_store s1 else s1).
    assert (H2 : cb_results s2 = cb_results s ++ [make_row (cb_wallclock s) e] /\ cb_started s2 = true /\
                 cb_wallclock s2 = cb_wallclock s /\ disk_ok s2).
    { unfold s2. destruct (ev_fire e); cbn; repeat split; try reflexivity.
      - unfold disk_ok. cbn. exists []. rewrite app_nil_r. reflexivity.
      - unfold disk_ok in *. cbn. destruct (cb_disk s) as [d|]; [|exact I].
        destruct Hd as [rest Hr]. exists (rest ++ [make_row (cb_wallclock s) e]). rewrite Hr, app_assoc. reflexivity. }
    destruct H2 as (Hr & Hst & Hw & Hdk).
    destruct (IH s2 Hst Hdk) as (s' & Hf & Hr' & Hst' & Hw' & Hdk').
    exists s'. repeat split; try assumption.
    + rewrite Hr', Hr, Hw. cbn [map]. rewrite <- app_assoc. reflexivity.
    + rewrite Hw'. exact Hw.
Qed.

Lemma Forall2_map_r {A B} (P : A -> B -> Prop) (f : A -> B) l : (forall a, P a (f a)) -> Forall2 P l (map f l).
Proof. intro H. induction l; cbn; constructor; auto. Qed.

Lemma cb_run_spec w evs :
  exists s, cb_run w evs = Some s /\
            cb_results s = map (make_row w) evs /\
            Forall2 (row_reflects w) evs (cb_results s) /\
            cb_disk s = Some (cb_results s).
Proof.
  unfold cb_run.
  destruct (cb_feed_spec evs (cb_on_tuning_start (cb_init w)) eq_refl I) as (s' & Hf & Hr & _ & _ & _).
  rewrite Hf. exists (cb_on_tuning_end s'). cbn in Hr. cbn [cb_on_tuning_end cb_store cb_results cb_disk].
  repeat split; try assumption.
  rewrite Hr. apply Forall2_map_r. intro e. apply make_row_reflects.
Qed.

(* interrupted and resumed experiments: rows of all phases, in order *)
Lemma cb_phases_spec phases : forall s, disk_ok s ->
  exists s', cb_phases s phases = Some s' /\
             cb_results s' = cb_results s ++ map (make_row (cb_wallclock s)) (concat phases) /\
             cb_wallclock s' = cb_wallclock s /\
             (phases <> [] -> cb_disk s' = Some (cb_results s')) /\ disk_ok s'.
Proof.
  induction phases as [|evs rest IH]; intros s Hd.
  - exists s. cbn. rewrite app_nil_r. repeat split; [congruence | exact Hd].
  - cbn [cb_phases concat].
    destruct (cb_feed_spec evs (cb_on_tuning_start s) eq_refl Hd) as (s1 & Hf & Hr & _ & Hw & _).
    rewrite Hf. cbn [cb_on_tuning_start cb_results cb_wallclock] in Hr, Hw.
    assert (Hd2 : disk_ok (cb_on_tuning_end s1)).
    { unfold disk_ok. cbn. exists []. rewrite app_nil_r. reflexivity. }
    destruct (IH (cb_on_tuning_end s1) Hd2) as (s2 & Hp & Hr2 & Hw2 & Hdisk & Hd3).
    cbn [cb_on_tuning_end cb_store cb_results cb_wallclock] in Hr2, Hw2.
    exists s2. split; [exact Hp|]. split.
    + rewrite Hr2, Hr, Hw, map_app, app_assoc. reflexivity.
    + split; [rewrite Hw2; exact Hw|]. split; [|exact Hd3].
      intros _. destruct rest as [|e2 rest2]; [|apply Hdisk; discriminate].
      cbn in Hp. injection Hp as <-. reflexivity.
Qed.

Lemma cb_run_phases_spec w phases : phases <> [] ->
  exists s, cb_run_phases w phases = Some s /\
            cb_results s = map (make_row w) (concat phases) /\
            Forall2 (row_reflects w) (concat phases) (cb_results s) /\
            cb_disk s = Some (cb_results s).
Proof.
  intro Hne. unfold cb_run_phases.
  destruct (cb_phases_spec phases (cb_init w) I) as (s & Hp & Hr & _ & Hdisk & _).
  exists s. cbn in Hr. repeat split; [exact Hp | exact Hr | | apply Hdisk; exact Hne].
  rewrite Hr. apply Forall2_map_r. intro e. apply make_row_reflects.
Qed.

(* whatever the store frequency, the file always holds a prefix of the rows *)
Lemma cb_disk_prefix w evs s :
  cb_feed (cb_on_tuning_start (cb_init w)) evs = Some s -> disk_ok s.
Proof.
  intro H. destruct (cb_feed_spec evs (cb_on_tuning_start (cb_init w)) eq_refl I) as (s' & Hf & _ & _ & _ & Hd).
  rewrite Hf in H. injection H as <-. exact Hd.
Qed.

Lemma cb_not_started w e : cb_on_trial_result (cb_init w) e = None.
Proof. reflexivity. Qed.

(* ======================================================================== *)
(* print_best_metric_found / Tuner.best_config                              *)
(* ======================================================================== *)

Lemma better_irrefl m a : better m a a = false.
Proof. destruct m; apply num_lt_irrefl. Qed.

Lemma better_asym m a b : better m a b = true -> better m b a = false.
Proof. destruct m; apply num_lt_asym. Qed.

Lemma better_not_nan m a b : better m a b = true -> a <> NaN /\ b <> NaN.
Proof. destruct m; cbn; intro H; apply num_lt_true_not_nan in H; tauto. Qed.

(* a <= b <= c *)
Lemma better_le_trans m a b c : b <> NaN ->
  better m b a = false -> better m c b = false -> better m c a = false.
Proof.
  destruct m; cbn; intros Hb H1 H2.
  - eapply num_le_trans; eauto.
  - eapply (num_le_trans c b a); eauto.
Qed.

(* a < b <= c *)
Lemma better_lt_le_trans m a b c : c <> NaN ->
  better m a b = true -> better m c b = false -> better m a c = true.
Proof.
  destruct m; cbn; intros Hc H1 H2.
  - eapply num_lt_le_trans; eauto.
  - eapply (num_le_lt_trans c b a); eauto.
Qed.

Lemma better_lt_trans m a b c : better m a b = true -> better m b c = true -> better m a c = true.
Proof.
  intros H1 H2. eapply better_lt_le_trans; [|exact H1|apply better_asym; exact H2].
  apply better_not_nan in H2. tauto.
Qed.

Lemma sort_key_better m a b : num_lt (sort_key m a) (sort_key m b) = better m (snd a) (snd b).
Proof. destruct m; cbn; [reflexivity | apply num_lt_neg]. Qed.

Section FirstArgmin.
  Context {A : Type} (keyf : A -> num).

  Fixpoint first_argmin (l : list A) : option A :=
    match l with
    | [] => None
    | x :: r => match first_argmin r with
                | None => Some x
                | Some y => if num_lt (keyf y) (keyf x) then Some y else Some x
                end
    end.

  Lemma hd_sort_insert x l :
    hd_error (sort_insert keyf x l) =
    match hd_error l with None => Some x | Some y => if num_lt (keyf y) (keyf x) then Some y else Some x end.
  Proof. destruct l as [|y l]; cbn; [reflexivity|]. destruct (num_lt (keyf y) (keyf x)); reflexivity. Qed.

  Lemma hd_sorted l : hd_error (py_sorted keyf l) = first_argmin l.
  Proof.
    induction l as [|x l IH]; [reflexivity|].
    cbn [py_sorted fold_right first_argmin]. rewrite hd_sort_insert.
    change (fold_right (sort_insert keyf) [] l) with (py_sorted keyf l). rewrite IH. reflexivity.
  Qed.

  Lemma first_argmin_spec l : (forall y, In y l -> keyf y <> NaN) ->
    match first_argmin l with
    | None => l = []
    | Some x => exists pre post, l = pre ++ x :: post /\
                  (forall y, In y pre -> num_lt (keyf x) (keyf y) = true) /\
                  (forall y, In y post -> num_lt (keyf y) (keyf x) = false)
    end.
  Proof.
    induction l as [|a r IH]; intro Hn; [reflexivity|].
    cbn [first_argmin].
    assert (Hn' : forall y, In y r -> keyf y <> NaN) by (intros y Hy; apply Hn; right; exact Hy).
    specialize (IH Hn'). destruct (first_argmin r) as [y|].
    - destruct IH as (pre & post & Hr & Hpre & Hpost).
      assert (Hy : keyf y <> NaN). { apply Hn'. rewrite Hr. apply in_or_app. right. left. reflexivity. }
      destruct (num_lt (keyf y) (keyf a)) eqn:E.
      + exists (a :: pre), post. rewrite Hr. split; [reflexivity|]. split; [|exact Hpost].
        intros z [<-|Hz]; [exact E | apply Hpre; exact Hz].
      + exists [], r. split; [reflexivity|]. split; [intros z []|].
        intros z Hz. rewrite Hr in Hz. apply in_app_or in Hz.
        assert (Hzy : num_lt (keyf z) (keyf y) = false).
        { destruct Hz as [Hz|[<-|Hz]].
          - apply num_lt_asym. apply Hpre. exact Hz.
          - apply num_lt_irrefl.
          - apply Hpost. exact Hz. }
        eapply num_le_trans; [exact Hy | exact E | exact Hzy].
    - subst r. exists [], []. split; [reflexivity|]. split; intros z [].
  Qed.
End FirstArgmin.

Definition opt_dflt (m : mode) : num := match m with Min => PInf | Max => NInf end.
Definition opt_val (m : mode) (np : list num) : num :=
  match m with Min => fold_left py_min np PInf | Max => fold_left py_max np NInf end.

Lemma opt_val_spec m np :
  opt_val m np <> NaN /\ (opt_val m np = opt_dflt m \/ In (opt_val m np) np) /\
  (forall x, In x np -> better m x (opt_val m np) = false).
Proof.
  destruct m; cbn.
  - destruct (pymin_fold np PInf ltac:(discriminate)) as (H1 & H2 & _ & H4). repeat split; assumption.
  - destruct (pymax_fold np NInf ltac:(discriminate)) as (H1 & H2 & _ & H4). repeat split; assumption.
Qed.

Lemma per_trial_opt_closed m k rs : per_trial_opt m k (stats_of rs) = opt_val m (counted k rs).
Proof.
  destruct (stats_of_closed k rs) as (_ & Hmin & Hmax & _).
  destruct m; unfold per_trial_opt, opt_val, aget_d; [rewrite Hmin | rewrite Hmax];
    unfold fold_opt; destruct (counted k rs); reflexivity.
Qed.

(* the table print_best_metric_found sorts *)
Definition per_table (m : mode) (metric : key) (ts : tstatus) : list (Z * num) :=
  map (fun e => (fst e, per_trial_opt m metric (snd e))) (ts_trials ts).

Lemma print_best_unfold ts metric m :
  print_best ts metric m =
  if Nat.eqb (st_count (ts_overall ts)) 0 then None
  else first_argmin (sort_key m) (per_table m metric ts).
Proof.
  unfold print_best. destruct (Nat.eqb (st_count (ts_overall ts)) 0); [reflexivity|].
  rewrite <- hd_sorted. unfold per_table. destruct (py_sorted _ _); reflexivity.
Qed.

Lemma per_table_entries hist m metric t v :
  In (t, v) (per_table m metric (ts_run hist)) ->
  In t (map fst (ts_trials (ts_run hist))) /\ v = opt_val m (counted metric (of_trial t (handed hist))).
Proof.
  destruct (stats_interleaved_is_batch hist) as (_ & Hget & Hnd & _). cbn zeta in *.
  unfold per_table. intro H. apply in_map_iff in H. destruct H as [[t' s'] [Heq Hin]]. cbn [fst snd] in Heq.
  injection Heq as -> <-. split; [apply (in_map fst) in Hin; exact Hin|].
  specialize (Hget t). unfold aget_d in Hget.
  rewrite (aget_in_nodup Z.eqb Zeqb_spec _ _ _ Hnd Hin) in Hget. rewrite Hget. apply per_trial_opt_closed.
Qed.

Lemma per_table_has hist m metric t :
  In t (map fst (ts_trials (ts_run hist))) ->
  In (t, opt_val m (counted metric (of_trial t (handed hist)))) (per_table m metric (ts_run hist)).
Proof.
  intro H. apply in_map_iff in H. destruct H as [[t' s'] [Heq Hin]]. cbn [fst] in Heq. subst t'.
  assert (Hp : In (t, per_trial_opt m metric s') (per_table m metric (ts_run hist))).
  { unfold per_table. apply in_map_iff. exists (t, s'). split; [reflexivity | exact Hin]. }
  destruct (per_table_entries _ _ _ _ _ Hp) as [_ Hv]. rewrite <- Hv. exact Hp.
Qed.

Lemma counted_nonempty_has_result k t h x : In x (counted k (of_trial t h)) -> In t (map fst h).
Proof.
  intro Hx. unfold counted, of_trial in Hx.
  destruct (filter (fun tr => Z.eqb (fst tr) t) h) as [|tr f] eqn:E; [contradiction|].
  assert (Hin : In tr (filter (fun tr => Z.eqb (fst tr) t) h)) by (rewrite E; left; reflexivity).
  apply filter_In in Hin. destruct Hin as [Hin Heq]. apply Z.eqb_eq in Heq. subst t.
  apply (in_map fst) in Hin. exact Hin.
Qed.

Theorem print_best_spec hist metric m :
  let ts := ts_run hist in
  let h := handed hist in
  (h = [] -> print_best ts metric m = None) /\
  (h <> [] -> exists t v pre post,
      print_best ts metric m = Some (t, v) /\
      per_table m metric ts = pre ++ (t, v) :: post /\
      In t (map fst (ts_trials ts)) /\
      v = opt_val m (counted metric (of_trial t h)) /\
      v <> NaN /\
      (v = opt_dflt m \/ In v (counted metric (of_trial t h))) /\
      (forall e, In e pre -> better m v (snd e) = true) /\
      (forall t' x, In x (counted metric (of_trial t' h)) -> better m x v = false)).
Proof.
  cbn zeta. destruct (stats_interleaved_is_batch hist) as (Ho & Hget & Hnd & Hin). cbn zeta in *.
  rewrite print_best_unfold, Ho, stats_of_count, map_length. split.
  - intros ->. reflexivity.
  - intro Hne. destruct (handed hist) as [|x0 h0] eqn:Eh; [contradiction|].
    cbn [length Nat.eqb]. rewrite <- Eh in *. clear Hne.
    assert (Hkeys : forall e, In e (per_table m metric (ts_run hist)) -> sort_key m e <> NaN).
    { intros [t v] He. apply per_table_entries in He. destruct He as [_ ->].
      destruct (opt_val_spec m (counted metric (of_trial t (handed hist)))) as (Hn & _ & _).
      destruct m; cbn; [exact Hn | apply num_neg_not_nan; exact Hn]. }
    pose proof (first_argmin_spec (sort_key m) _ Hkeys) as Hspec.
    destruct (first_argmin (sort_key m) (per_table m metric (ts_run hist))) as [[t v]|].
    + destruct Hspec as (pre & post & Hsplit & Hpre & Hpost).
      assert (Hent : In (t, v) (per_table m metric (ts_run hist))).
      { rewrite Hsplit. apply in_or_app. right. left. reflexivity. }
      destruct (per_table_entries _ _ _ _ _ Hent) as [Ht Hv].
      destruct (opt_val_spec m (counted metric (of_trial t (handed hist)))) as (Hn & Hor & _).
      exists t, v, pre, post. rewrite <- Hv in Hn, Hor. repeat split; try assumption.
      * intros e He. pose proof (Hpre e He) as Hb. rewrite sort_key_better in Hb. exact Hb.
      * intros t' x Hx.
        assert (Ht' : In t' (map fst (ts_trials (ts_run hist)))).
        { apply Hin. left. eapply counted_nonempty_has_result. exact Hx. }
        pose proof (per_table_has hist m metric t' Ht') as He'.
        set (v' := opt_val m (counted metric (of_trial t' (handed hist)))) in *.
        destruct (opt_val_spec m (counted metric (of_trial t' (handed hist)))) as (Hn' & _ & Hall').
        fold v' in Hn', Hall'.
        assert (Hv' : better m v' v = false).
        { rewrite Hsplit in He'. apply in_app_or in He'. destruct He' as [He'|[He'|He']].
          - apply better_asym. pose proof (Hpre _ He') as Hb. rewrite sort_key_better in Hb. exact Hb.
          - injection He' as _ <-. apply better_irrefl.
          - pose proof (Hpost _ He') as Hb. rewrite sort_key_better in Hb. exact Hb. }
        eapply better_le_trans; [exact Hn' | exact Hv' | apply Hall'; exact Hx].
    + exfalso.
      assert (Ht0 : In (fst x0) (map fst (ts_trials (ts_run hist)))).
      { apply Hin. left. rewrite Eh. left. reflexivity. }
      apply (per_table_has hist m metric) in Ht0. rewrite Hspec in Ht0. exact Ht0.
Qed.

(* every counted value of the metric, in any trial, is an ordinary number:
   the reported value is a reported value of the reported trial and is <= (>=) all of them *)
Lemma print_best_finite hist metric m t v :
  print_best (ts_run hist) metric m = Some (t, v) ->
  (forall t' x, In x (counted metric (of_trial t' (handed hist))) -> exists q, x = Fin q) ->
  (exists t' x, In x (counted metric (of_trial t' (handed hist)))) ->
  exists q, v = Fin q /\ In (Fin q) (counted metric (of_trial t (handed hist))) /\
            forall t' q', In (Fin q') (counted metric (of_trial t' (handed hist))) ->
                          match m with Min => (q <= q')%Q | Max => (q' <= q)%Q end.
Proof.
  intros Hp Hfin (t0 & x0 & Hx0).
  destruct (print_best_spec hist metric m) as [Hnone Hsome]. cbn zeta in *.
  assert (Hne : handed hist <> []).
  { intro E. rewrite E in Hx0. unfold of_trial, counted in Hx0. cbn in Hx0. contradiction. }
  destruct (Hsome Hne) as (t1 & v1 & pre & post & Hp1 & _ & _ & _ & Hn & Hor & _ & Hall).
  rewrite Hp in Hp1. injection Hp1 as <- <-.
  assert (Hin : In v (counted metric (of_trial t (handed hist)))).
  { destruct Hor as [Hd|Hi]; [|exact Hi]. exfalso.
    destruct (Hfin _ _ Hx0) as [q0 ->]. specialize (Hall _ _ Hx0). rewrite Hd in Hall.
    destruct m; cbn in Hall; discriminate. }
  destruct (Hfin _ _ Hin) as [q ->]. exists q. repeat split; [exact Hin|].
  intros t' q' Hq'. specialize (Hall _ _ Hq'). destruct m; cbn in Hall; apply Qltb_false in Hall; exact Hall.
Qed.

(* over ALL numeric values handed to the loop: no number reported by any trial whose
   first value of the metric is a number is strictly better than the reported value *)
Lemma print_best_all_numeric hist metric m t v :
  print_best (ts_run hist) metric m = Some (t, v) ->
  forall t' x0 r x,
    flat_map (vals_of metric) (of_trial t' (handed hist)) = VNum x0 :: r ->
    In (VNum x) (flat_map (vals_of metric) (of_trial t' (handed hist))) ->
    better m x v = false.
Proof.
  intros Hp t' x0 r x Hfirst Hin.
  destruct (print_best_spec hist metric m) as [Hnone Hsome]. cbn zeta in *.
  assert (Hne : handed hist <> []).
  { intro E. rewrite E in Hfirst. cbn in Hfirst. discriminate. }
  destruct (Hsome Hne) as (t1 & v1 & pre & post & Hp1 & _ & _ & _ & _ & _ & _ & Hall).
  rewrite Hp in Hp1. injection Hp1 as <- <-.
  apply (Hall t' x). apply (counted_in_numeric _ _ _ _ _ Hfirst). exact Hin.
Qed.

(* ---- metric_name_mode / Tuner.best_config -------------------------------- *)

Lemma index_of_spec name names i : index_of name names = Some i ->
  nth_error names i = Some name /\ forall j, (j < i)%nat -> nth_error names j <> Some name.
Proof.
  revert i. induction names as [|n names IH]; intros i H; [discriminate|].
  cbn [index_of] in H. destruct (key_eqb name n) eqn:E.
  - injection H as <-. apply key_eqb_spec in E. subst. split; [reflexivity | intros j Hj; lia].
  - destruct (index_of name names) as [i'|]; [|discriminate]. injection H as <-.
    destruct (IH i' eq_refl) as [H1 H2]. split; [exact H1|].
    intros [|j] Hj; cbn.
    + intro H. injection H as ->. rewrite key_eqb_refl in E. discriminate.
    + apply H2. lia.
Qed.

Lemma metric_name_mode_spec names ms metric name m :
  metric_name_mode names ms metric = Some (name, m) ->
  exists i, nth_error names i = Some name /\
            match metric with
            | ByIndex j => j = i
            | ByName n => n = name /\ forall j, (j < i)%nat -> nth_error names j <> Some name
            end /\
            match ms with OneMode m' => m' = m | ModeList l => nth_error l i = Some m end.
Proof.
  unfold metric_name_mode. intro H.
  destruct metric as [j|n].
  - destruct (Nat.ltb j (length names)); [|discriminate].
    destruct (nth_error names j) as [nm|] eqn:En; [|discriminate].
    exists j. destruct ms as [m'|l].
    + injection H as -> ->. repeat split; try reflexivity; exact En.
    + destruct (nth_error l j) eqn:El; [|discriminate]. injection H as -> ->. repeat split; try reflexivity; assumption.
  - destruct (index_of n names) as [i|] eqn:Ei; [|discriminate].
    destruct (index_of_spec _ _ _ Ei) as [H1 H2].
    rewrite H1 in H. exists i. destruct ms as [m'|l].
    + injection H as -> ->. repeat split; try reflexivity; assumption.
    + destruct (nth_error l i) eqn:El; [|discriminate]. injection H as -> ->. repeat split; try reflexivity; assumption.
Qed.

Lemma tuner_best_config_spec names ms metric ts backend t cfg :
  tuner_best_config names ms metric ts backend = Ok (t, cfg) <->
  exists name m v, metric_name_mode names ms metric = Some (name, m) /\
                   print_best ts name m = Some (t, v) /\ aget Z.eqb t backend = Some cfg.
Proof.
  unfold tuner_best_config. split.
  - destruct (metric_name_mode names ms metric) as [[name m]|]; [|discriminate].
    destruct (print_best ts name m) as [[t' v]|] eqn:E2; [|discriminate].
    destruct (aget Z.eqb t' backend) as [c|] eqn:E; [|discriminate].
    intro H. injection H as -> ->. exists name, m, v. split; [reflexivity|]. split; [exact E2 | exact E].
  - intros (name & m & v & -> & -> & ->). reflexivity.
Qed.

Lemma tuner_best_config_no_results names ms metric hist backend :
  handed hist = [] -> tuner_best_config names ms metric (ts_run hist) backend = Err.
Proof.
  intro H. unfold tuner_best_config. destruct (metric_name_mode names ms metric) as [[name m]|]; [|reflexivity].
  destruct (print_best_spec hist name m) as [Hnone _]. cbn zeta in Hnone. rewrite (Hnone H). reflexivity.
Qed.

(* ======================================================================== *)
(* ExperimentResult.best_config                                             *)
(* ======================================================================== *)

Fixpoint cands (m : mode) (col : list cell) (i : nat) : list (nat * num) :=
  match col with
  | [] => []
  | c :: r => (i, cell_fill m c) :: cands m r (S i)
  end.

Definition best_step (m : mode) (b : option (nat * num)) (c : nat * num) : option (nat * num) :=
  match b with
  | None => Some c
  | Some b0 => if better m (snd c) (snd b0) then Some c else Some b0
  end.

Lemma arg_best_fold m col : forall i best,
  arg_best m col i best = fold_left (best_step m) (cands m col i) best.
Proof.
  induction col as [|c col IH]; intros i best; [reflexivity|].
  cbn [arg_best cands]. rewrite IH. cbn [fold_left]. f_equal.
  unfold best_step. destruct best as [[j y]|]; reflexivity.
Qed.

Definition first_best (m : mode) (cs : list (nat * num)) (r : nat * num) : Prop :=
  exists pre post, cs = pre ++ r :: post /\
                   (forall c, In c pre -> better m (snd r) (snd c) = true) /\
                   (forall c, In c post -> better m (snd c) (snd r) = false).

Lemma fold_best_some m cs : forall done b,
  (forall c, In c (done ++ cs) -> snd c <> NaN) ->
  first_best m done b ->
  exists r, fold_left (best_step m) cs (Some b) = Some r /\ first_best m (done ++ cs) r.
Proof.
  induction cs as [|c cs IH]; intros done b Hn Hb.
  - exists b. rewrite app_nil_r. split; [reflexivity | exact Hb].
  - cbn [fold_left best_step].
    assert (Hn' : forall c0, In c0 ((done ++ [c]) ++ cs) -> snd c0 <> NaN).
    { intros c0 H. apply Hn. rewrite <- app_assoc in H. exact H. }
    replace (done ++ c :: cs) with ((done ++ [c]) ++ cs) by (rewrite <- app_assoc; reflexivity).
    destruct Hb as (pre & post & Hd & Hpre & Hpost).
    assert (Hbn : snd b <> NaN). { apply Hn. rewrite Hd. apply in_or_app. left. apply in_or_app. right. left. reflexivity. }
    assert (Hcn : snd c <> NaN). { apply Hn. apply in_or_app. right. left. reflexivity. }
    destruct (better m (snd c) (snd b)) eqn:E.
    + apply IH; [exact Hn'|]. exists done, []. split; [reflexivity|]. split; [|intros c0 []].
      intros d Hdn. rewrite Hd in Hdn. apply in_app_or in Hdn. destruct Hdn as [Hdn|[<-|Hdn]].
      * eapply better_lt_trans; [exact E | apply Hpre; exact Hdn].
      * exact E.
      * eapply better_lt_le_trans; [|exact E | apply Hpost; exact Hdn].
        apply Hn. rewrite Hd. apply in_or_app. left. apply in_or_app. right. right. exact Hdn.
    + apply IH; [exact Hn'|]. exists pre, (post ++ [c]). split.
      * rewrite Hd, <- app_assoc. reflexivity.
      * split; [exact Hpre|]. intros c0 Hc0. apply in_app_or in Hc0. destruct Hc0 as [Hc0|[<-|[]]]; [apply Hpost; exact Hc0 | exact E].
Qed.

Lemma cell_fill_not_nan m c : cell_fill m c <> NaN.
Proof.
  unfold cell_fill. destruct (cell_num c) as [x|] eqn:E.
  - destruct c as [[| | |]| |]; cbn in E; congruence.
  - destruct m; discriminate.
Qed.

Lemma cands_not_nan m col : forall i c, In c (cands m col i) -> snd c <> NaN.
Proof.
  induction col as [|c0 col IH]; intros i c H; [contradiction|].
  cbn [cands] in H. destruct H as [<-|H]; [apply cell_fill_not_nan | eapply IH; exact H].
Qed.

Lemma arg_best_first m col :
  match arg_best m col 0 None with
  | None => col = []
  | Some r => first_best m (cands m col 0) r
  end.
Proof.
  rewrite arg_best_fold. destruct col as [|c0 col]; [reflexivity|].
  cbn [cands fold_left best_step].
  destruct (fold_best_some m (cands m col 1) [(0%nat, cell_fill m c0)] (0%nat, cell_fill m c0)) as (r & Hr & Hf).
  - intros c1 H. apply (cands_not_nan m (c0 :: col) 0). exact H.
  - exists [], []. split; [reflexivity|]. split; intros c1 [].
  - rewrite Hr. exact Hf.
Qed.

Lemma cands_in m col : forall i j x,
  In (j, x) (cands m col i) <-> exists k c, j = (i + k)%nat /\ nth_error col k = Some c /\ x = cell_fill m c.
Proof.
  induction col as [|c0 col IH]; intros i j x.
  - cbn. split; [intros [] | intros (k & c & _ & H & _); destruct k; discriminate].
  - cbn [cands]. split.
    + intros [H|H].
      * injection H as <- <-. exists 0%nat, c0. repeat split. lia.
      * apply IH in H. destruct H as (k & c & -> & Hk & Hc). exists (S k), c. repeat split; [lia | exact Hk | exact Hc].
    + intros (k & c & -> & Hk & Hc). destruct k as [|k].
      * cbn in Hk. injection Hk as ->. left. subst x. f_equal. lia.
      * cbn in Hk. right. replace (i + S k)%nat with (S i + k)%nat by lia.
        apply IH. exists k, c. repeat split; assumption.
Qed.

Lemma cands_lb m col : forall i c, In c (cands m col i) -> (i <= fst c)%nat.
Proof.
  intros i [j x] H. apply cands_in in H. destruct H as (k & _ & -> & _). cbn. lia.
Qed.

Lemma cands_split m col : forall i pre j x post, cands m col i = pre ++ (j, x) :: post ->
  (forall c, In c pre -> (fst c < j)%nat) /\ (forall c, In c post -> (j < fst c)%nat).
Proof.
  induction col as [|c0 col IH]; intros i pre j x post H.
  - destruct pre; discriminate.
  - cbn [cands] in H. destruct pre as [|p pre].
    + cbn in H. injection H as <- _ <-. split; [intros c []|].
      intros c Hc. apply cands_lb in Hc. lia.
    + cbn in H. injection H as <- H. destruct (IH _ _ _ _ _ H) as [H1 H2]. split; [|exact H2].
      intros c [<-|Hc]; [|apply H1; exact Hc]. cbn.
      assert (Hj : In (j, x) (cands m col (S i))) by (rewrite H; apply in_or_app; right; left; reflexivity).
      apply cands_lb in Hj. cbn in Hj. lia.
Qed.

Lemma nth_error_map_cell name (table : list dict) k c :
  nth_error (map (cell_of name) table) k = Some c <->
  (k < length table)%nat /\ c = cell_of name (nth k table []).
Proof.
  revert k. induction table as [|r table IH]; intro k.
  - destruct k; cbn; split; try discriminate; intros [H _]; lia.
  - destruct k as [|k]; cbn [map nth_error nth length].
    + split; [intro H; injection H as <-; split; [lia | reflexivity] | intros [_ ->]; reflexivity].
    + rewrite IH. split; intros [H1 H2]; (split; [lia | exact H2]).
Qed.

Lemma strip_st_get k row : dget k (strip_st row) = if key_is_st k then None else dget k row.
Proof.
  unfold strip_st, dget. induction row as [|[k' v] row IH]; cbn [filter aget fst].
  - destruct (key_is_st k); reflexivity.
  - destruct (key_eqb k k') eqn:E.
    + apply key_eqb_spec in E. subst k'. destruct (key_is_st k) eqn:S; cbn [negb].
      * exact IH.
      * cbn [aget]. rewrite key_eqb_refl. reflexivity.
    + destruct (key_is_st k'); cbn [negb]; [exact IH|]. cbn [aget]. rewrite E. exact IH.
Qed.

Theorem exp_best_spec names ms metric table :
  match exp_best_config names ms metric table with
  | EBest j cfg =>
      exists name m, metric_name_mode names ms metric = Some (name, m) /\
        (j < length table)%nat /\
        cfg = strip_st (nth j table []) /\
        (exists j0, (j0 < length table)%nat /\ cell_num (cell_of name (nth j0 table [])) <> None) /\
        (forall j', (j' < length table)%nat ->
           better m (cell_fill m (cell_of name (nth j' table []))) (cell_fill m (cell_of name (nth j table []))) = false /\
           ((j' < j)%nat ->
            better m (cell_fill m (cell_of name (nth j table []))) (cell_fill m (cell_of name (nth j' table []))) = true))
  | EError =>
      metric_name_mode names ms metric = None \/
      exists name m, metric_name_mode names ms metric = Some (name, m) /\
        forall j, (j < length table)%nat -> cell_num (cell_of name (nth j table [])) = None
  | EUnmodelled =>
      exists name m j, metric_name_mode names ms metric = Some (name, m) /\
        (j < length table)%nat /\ cell_of name (nth j table []) = CObj
  end.
Proof.
  unfold exp_best_config. destruct (metric_name_mode names ms metric) as [[name m]|]; [|left; reflexivity].
  set (col := map (cell_of name) table).
  destruct (existsb _ col) eqn:Ex.
  - apply existsb_exists in Ex. destruct Ex as (c & Hc & Hobj). apply In_nth_error in Hc. destruct Hc as [j Hj].
    apply nth_error_map_cell in Hj. destruct Hj as [Hj ->]. exists name, m, j. repeat split; [exact Hj|].
    destruct (cell_of name (nth j table [])); try discriminate. reflexivity.
  - destruct (forallb is_na col) eqn:Ena.
    + right. exists name, m. split; [reflexivity|]. intros j Hj.
      rewrite forallb_forall in Ena.
      assert (Hin : In (cell_of name (nth j table [])) col).
      { apply (nth_error_In col j). apply nth_error_map_cell. split; [exact Hj | reflexivity]. }
      specialize (Ena _ Hin). unfold is_na in Ena. destruct (cell_num (cell_of name (nth j table []))); [discriminate | reflexivity].
    + assert (Hreal : exists j0, (j0 < length table)%nat /\ cell_num (cell_of name (nth j0 table [])) <> None).
      { destruct (forallb_forall is_na col) as [_ Hb].
        destruct (existsb (fun c => negb (is_na c)) col) eqn:Ee.
        - apply existsb_exists in Ee. destruct Ee as (c & Hc & Hn). apply In_nth_error in Hc. destruct Hc as [j0 Hj0].
          apply nth_error_map_cell in Hj0. destruct Hj0 as [Hj0 ->]. exists j0. split; [exact Hj0|].
          unfold is_na in Hn. destruct (cell_num (cell_of name (nth j0 table []))); [discriminate | discriminate].
        - exfalso. rewrite Hb in Ena; [discriminate|]. intros c Hc.
          destruct (is_na c) eqn:Ec; [reflexivity|]. exfalso.
          rewrite <- not_true_iff_false in Ee. apply Ee. apply existsb_exists. exists c. split; [exact Hc|]. rewrite Ec. reflexivity. }
      pose proof (arg_best_first m col) as Hf. destruct (arg_best m col 0 None) as [[j x]|].
      * destruct Hf as (pre & post & Hsplit & Hpre & Hpost).
        assert (Hin : In (j, x) (cands m col 0)) by (rewrite Hsplit; apply in_or_app; right; left; reflexivity).
        apply cands_in in Hin. destruct Hin as (k & c & Hk & Hnth & Hc). cbn in Hk. subst k.
        apply nth_error_map_cell in Hnth. destruct Hnth as [Hj ->]. subst x.
        exists name, m. split; [reflexivity|]. split; [exact Hj|]. split; [reflexivity|]. split; [exact Hreal|].
        intros j' Hj'.
        assert (Hin' : In (j', cell_fill m (cell_of name (nth j' table []))) (cands m col 0)).
        { apply cands_in. exists j', (cell_of name (nth j' table [])). repeat split.
          apply nth_error_map_cell. split; [exact Hj' | reflexivity]. }
        destruct (cands_split _ _ _ _ _ _ _ Hsplit) as [Hs1 Hs2].
        rewrite Hsplit in Hin'. apply in_app_or in Hin'. split.
        -- destruct Hin' as [Hi|[Hi|Hi]].
           ++ apply better_asym. apply (Hpre _ Hi).
           ++ injection Hi as _ <-. apply better_irrefl.
           ++ apply (Hpost _ Hi).
        -- intro Hlt. destruct Hin' as [Hi|[Hi|Hi]].
           ++ apply (Hpre _ Hi).
           ++ injection Hi as <- _. lia.
           ++ apply Hs2 in Hi. cbn in Hi. lia.
      * exfalso. destruct Hreal as (j0 & Hj0 & _). destruct table; [cbn in Hj0; lia | discriminate].
Qed.

Lemma cell_fill_real m c x : cell_num c = Some x -> cell_fill m c = x.
Proof. unfold cell_fill. intros ->. reflexivity. Qed.

Lemma exp_best_attains names ms metric table j cfg name m j0 x0 :
  exp_best_config names ms metric table = EBest j cfg ->
  metric_name_mode names ms metric = Some (name, m) ->
  (j0 < length table)%nat -> cell_num (cell_of name (nth j0 table [])) = Some x0 ->
  better m x0 (opt_dflt m) = true ->
  exists x, cell_num (cell_of name (nth j table [])) = Some x /\
    forall j' x', (j' < length table)%nat -> cell_num (cell_of name (nth j' table [])) = Some x' ->
                  better m x' x = false.
Proof.
  intros He Hm Hj0 Hx0 Hb. pose proof (exp_best_spec names ms metric table) as H. rewrite He in H.
  destruct H as (name' & m' & Hm' & Hj & _ & _ & Hall). rewrite Hm in Hm'. injection Hm' as <- <-.
  destruct (cell_num (cell_of name (nth j table []))) as [x|] eqn:E.
  - exists x. split; [reflexivity|]. intros j' x' Hj' Hx'. destruct (Hall j' Hj') as [H1 _].
    rewrite (cell_fill_real _ _ _ Hx'), (cell_fill_real _ _ _ E) in H1. exact H1.
  - exfalso. destruct (Hall j0 Hj0) as [H1 _]. rewrite (cell_fill_real _ _ _ Hx0) in H1.
    unfold cell_fill in H1. rewrite E in H1. unfold opt_dflt in Hb. destruct m; congruence.
Qed.

(* ======================================================================== *)
(* the summary printed at the end of Tuner.run()                            *)
(* ======================================================================== *)

(* it is print_best_metric_found for the first metric WITH THAT METRIC'S MODE *)
Lemma final_summary_spec names ms ts r :
  tuner_final_summary names ms ts = Some r ->
  exists name m, metric_name_mode names ms (ByIndex 0) = Some (name, m) /\ print_best ts name m = Some r.
Proof.
  unfold tuner_final_summary. destruct names as [|name names]; [discriminate|].
  destruct (summary_mode ms) as [m|] eqn:E; [|discriminate].
  intro H. exists name, m. split; [|exact H].
  unfold metric_name_mode. cbn. destruct ms as [m'|[|m' l]]; cbn in E; try discriminate; injection E as ->; reflexivity.
Qed.

Lemma final_summary_defined name names ms m ts :
  metric_name_mode (name :: names) ms (ByIndex 0) = Some (name, m) ->
  tuner_final_summary (name :: names) ms ts = print_best ts name m.
Proof.
  unfold metric_name_mode, tuner_final_summary. cbn.
  destruct ms as [m'|[|m' l]]; cbn; intro H; try discriminate; injection H as ->; reflexivity.
Qed.

(* ======================================================================== *)
(* CSV round trip                                                           *)
(* ======================================================================== *)

Lemma existsb_key_in k cs : existsb (key_eqb k) cs = true <-> In k cs.
Proof.
  rewrite existsb_exists. split.
  - intros (x & Hx & He). apply key_eqb_spec in He. subst. exact Hx.
  - intro H. exists k. split; [exact H | apply key_eqb_refl].
Qed.

Definition col_step (cs : list key) (kv : key * value) : list key :=
  if existsb (key_eqb (fst kv)) cs then cs else cs ++ [fst kv].

Lemma col_step_nodup cs kv : NoDup cs -> NoDup (col_step cs kv).
Proof.
  intro H. unfold col_step. destruct (existsb (key_eqb (fst kv)) cs) eqn:E; [exact H|].
  apply NoDup_app_snoc; [exact H|]. intro Hin. apply existsb_key_in in Hin. congruence.
Qed.

Lemma col_step_incl cs kv k : In k cs -> In k (col_step cs kv).
Proof. unfold col_step. destruct (existsb _ cs); [tauto|]. intro. apply in_or_app. left. assumption. Qed.

Lemma col_step_in cs kv : In (fst kv) (col_step cs kv).
Proof.
  unfold col_step. destruct (existsb (key_eqb (fst kv)) cs) eqn:E.
  - apply existsb_key_in. exact E.
  - apply in_or_app. right. left. reflexivity.
Qed.

Lemma add_cols_spec r : forall cs, NoDup cs ->
  NoDup (add_cols cs r) /\ (forall k, In k cs -> In k (add_cols cs r)) /\
  (forall kv, In kv r -> In (fst kv) (add_cols cs r)).
Proof.
  unfold add_cols. induction r as [|kv r IH]; intros cs Hnd; cbn [fold_left].
  - repeat split; [exact Hnd | tauto | intros kv []].
  - fold (col_step cs kv). destruct (IH (col_step cs kv) (col_step_nodup _ _ Hnd)) as (H1 & H2 & H3).
    repeat split.
    + exact H1.
    + intros k Hk. apply H2. apply col_step_incl. exact Hk.
    + intros kv' [<-|Hin]; [apply H2; apply col_step_in | apply H3; exact Hin].
Qed.

Lemma columns_fold rows : forall cs, NoDup cs ->
  NoDup (fold_left add_cols rows cs) /\ (forall k, In k cs -> In k (fold_left add_cols rows cs)) /\
  (forall r kv, In r rows -> In kv r -> In (fst kv) (fold_left add_cols rows cs)).
Proof.
  induction rows as [|r rows IH]; intros cs Hnd; cbn [fold_left].
  - repeat split; [exact Hnd | tauto | intros r kv []].
  - destruct (add_cols_spec r cs Hnd) as (A1 & A2 & A3).
    destruct (IH (add_cols cs r) A1) as (H1 & H2 & H3). repeat split.
    + exact H1.
    + intros k Hk. apply H2. apply A2. exact Hk.
    + intros r' kv [<-|Hin] Hkv; [apply H2; apply A3; exact Hkv | eapply H3; eassumption].
Qed.

Lemma columns_spec rows :
  NoDup (columns rows) /\ forall r k v, In r rows -> dget k r = Some v -> In k (columns rows).
Proof.
  unfold columns. destruct (columns_fold rows [] (NoDup_nil _)) as (H1 & _ & H3). split; [exact H1|].
  intros r k v Hr Hg. apply (aget_some_in key_eqb key_eqb_spec) in Hg. apply (H3 r (k, v) Hr Hg).
Qed.

Lemma dget_fields (h : key -> option value) k cols : NoDup cols ->
  dget k (flat_map (fun c => match h c with Some v => [(c, v)] | None => [] end) cols)
  = if existsb (key_eqb k) cols then h k else None.
Proof.
  induction cols as [|c cs IH]; intro Hnd; [reflexivity|].
  inversion Hnd as [|? ? Hni Hnd']; subst. cbn [flat_map existsb]. unfold dget in *. rewrite aget_app.
  destruct (key_eqb k c) eqn:E.
  - apply key_eqb_spec in E. subst c. cbn [orb]. destruct (h k) as [v|]; cbn [aget].
    + rewrite key_eqb_refl. reflexivity.
    + rewrite (IH Hnd'). destruct (existsb (key_eqb k) cs) eqn:X; [|reflexivity].
      apply existsb_key_in in X. contradiction.
  - cbn [orb]. assert (Hn : aget key_eqb k (match h c with Some v => [(c, v)] | None => [] end) = None).
    { destruct (h c); cbn [aget]; [rewrite E|]; reflexivity. }
    rewrite Hn. apply IH. exact Hnd'.
Qed.

Section CsvRoundTrip.
  Context {T : Type} (render : value -> T) (parse : T -> option value) (is_na : value -> bool).

  Definition back_cell (r : dict) (c : key) : option value :=
    match frame_cell is_na r c with Some v => parse (render v) | None => None end.

  Lemma read_line cols r :
    flat_map (fun cf => read_field parse (fst cf) (snd cf)) (combine cols (csv_line render is_na cols r))
    = flat_map (fun c => match back_cell r c with Some v => [(c, v)] | None => [] end) cols.
  Proof.
    unfold csv_line. induction cols as [|c cs IH]; [reflexivity|].
    cbn [map combine flat_map fst snd]. rewrite IH. f_equal.
    unfold read_field, back_cell. destruct (frame_cell is_na r c); reflexivity.
  Qed.

  (* [R v v'] : what "the same value up to the last digits of its text" means; the
     hypothesis about the text level (repr / float parser of pandas) is explicit *)
  Context (R : value -> value -> Prop).
  Hypothesis text_roundtrip : forall v, is_na v = false -> exists v', parse (render v) = Some v' /\ R v v'.

  Theorem csv_roundtrip rows :
    let back := csv_read parse (csv_write render is_na rows) in
    length back = length rows /\
    forall i r, nth_error rows i = Some r ->
      exists b, nth_error back i = Some b /\
        forall k, match dget k r with
                  | Some v => if is_na v then dget k b = None
                              else exists v', dget k b = Some v' /\ R v v'
                  | None => dget k b = None
                  end.
  Proof.
    cbn zeta. unfold csv_read, csv_write. cbn [fst snd]. rewrite !map_length, map_map. split; [reflexivity|].
    intros i r Hi. destruct (columns_spec rows) as [Hnd Hhas].
    eexists. split; [apply map_nth_error; exact Hi|].
    intro k. rewrite read_line, (dget_fields _ _ _ Hnd). unfold back_cell, frame_cell.
    destruct (dget k r) as [v|] eqn:E.
    - assert (Hin : existsb (key_eqb k) (columns rows) = true).
      { apply existsb_key_in. eapply Hhas; [eapply nth_error_In; exact Hi | exact E]. }
      rewrite Hin. destruct (is_na v) eqn:Ena; [reflexivity|]. apply text_roundtrip. exact Ena.
    - destruct (existsb (key_eqb k) (columns rows)); reflexivity.
  Qed.
End CsvRoundTrip.

(* ======================================================================== *)
(* Tuner.run: body, delivery filter, finally block                          *)
(* ======================================================================== *)

Lemma cb_feed_app a : forall s b,
  cb_feed s (a ++ b) = match cb_feed s a with Some s' => cb_feed s' b | None => None end.
Proof.
  induction a as [|e a IH]; intros s b; [reflexivity|].
  cbn [app cb_feed]. destruct (cb_on_trial_result s e); [apply IH | reflexivity].
Qed.

Lemma cb_feed_spec0 evs : forall s, cb_started s = true ->
  exists s', cb_feed s evs = Some s' /\
             cb_results s' = cb_results s ++ map (make_row (cb_wallclock s)) evs /\
             cb_started s' = true /\ cb_wallclock s' = cb_wallclock s.
Proof.
  induction evs as [|e evs IH]; intros s Hs.
  - exists s. cbn. rewrite app_nil_r. repeat split; assumption.
  - cbn [cb_feed]. unfold cb_on_trial_result. rewrite Hs.
    set (s1 := {| cb_results := cb_results s ++ [make_row (cb_wallclock s) e]; cb_started := true;
                  cb_wallclock := cb_wallclock s; cb_disk := cb_disk s |}).
    set (s2 := if ev_fire e then cb_store s1 else s1).
    assert (H2 : cb_results s2 = cb_results s ++ [make_row (cb_wallclock s) e] /\ cb_started s2 = true /\
                 cb_wallclock s2 = cb_wallclock s).
    { unfold s2. destruct (ev_fire e); cbn; repeat split; reflexivity. }
    destruct H2 as (Hr & Hst & Hw).
    destruct (IH s2 Hst) as (s' & Hf & Hr' & Hst' & Hw').
    exists s'. repeat split; try assumption.
    + rewrite Hr', Hr, Hw. cbn [map]. rewrite <- app_assoc. reflexivity.
    + rewrite Hw'. exact Hw.
Qed.

Lemma run_body_spec steps : forall st answers,
  cb_started (rs_cb st) = true ->
  exists cb', cb_feed (rs_cb st) (run_delivered answers steps) = Some cb' /\
    run_body st answers steps =
      ({| rs_cb := cb'; rs_ts := fold_left ts_update (run_history answers steps) (rs_ts st) |},
       snd (run_trace answers steps)) /\
    cb_started cb' = true.
Proof.
  unfold run_delivered, run_history.
  induction steps as [|stp rest IH]; intros st answers Hs.
  - exists (rs_cb st). destruct st. cbn. repeat split; assumption.
  - destruct stp as [ids items|t|].
    + cbn [run_body run_trace].
      destruct (deliver_batch answers [] items) as [[evs rem] ok] eqn:Edb.
      destruct (cb_feed_spec0 (map fst evs) (rs_cb st) Hs) as (cb1 & Hf & _ & Hs1 & _).
      rewrite Hf. destruct ok.
      * specialize (IH {| rs_cb := cb1; rs_ts := ts_update (rs_ts st) (ids, handed_of items) |} rem Hs1).
        cbn [rs_cb rs_ts] in IH. destruct (run_trace rem rest) as [[es hs] r].
        cbn [fst snd] in *. destruct IH as (cb' & Hf' & Hb & Hs').
        exists cb'. rewrite map_app, cb_feed_app, Hf. repeat split; assumption.
      * cbn [fst snd]. exists cb1. repeat split; try assumption; reflexivity.
    + cbn [run_body run_trace].
      specialize (IH {| rs_cb := rs_cb st; rs_ts := ts_update (rs_ts st) ([t], []) |} answers Hs).
      cbn [rs_cb rs_ts] in IH. destruct (run_trace answers rest) as [[es hs] r]. cbn [fst snd] in *.
      destruct IH as (cb' & Hf' & Hb & Hs'). exists cb'. repeat split; assumption.
    + cbn. exists (rs_cb st). destruct st. cbn. repeat split; assumption.
Qed.

Lemma run_finally_spec fails st :
  fails FPrintBest = false -> fails FCallbacksEnd = false ->
  let '(st', raised, tr) := run_finally fails st finally_block in
  rs_cb st' = cb_on_tuning_end (rs_cb st) /\ rs_ts st' = rs_ts st /\
  raised = (fails FSaveTuner || fails FStopAll || fails FMarkStopped) /\
  (exists tr', tr = FPrintBest :: FCallbacksEnd :: tr') /\
  (raised = false -> tr = finally_block).
Proof.
  intros H1 H2. unfold finally_block. cbn [run_finally]. rewrite H1, H2.
  destruct (fails FSaveTuner), (fails FStopAll), (fails FMarkStopped); cbn;
    repeat split; try reflexivity; try (eexists; reflexivity); try discriminate.
Qed.

Theorem tuner_run_spec w old answers steps fails :
  fails FPrintBest = false -> fails FCallbacksEnd = false ->
  let '(st, raised, tr) := tuner_run w old answers steps fails in
  cb_results (rs_cb st) = map (make_row w) (run_delivered answers steps) /\
  Forall2 (row_reflects w) (run_delivered answers steps) (cb_results (rs_cb st)) /\
  cb_disk (rs_cb st) = Some (cb_results (rs_cb st)) /\
  rs_ts st = ts_run (run_history answers steps) /\
  raised = (snd (run_trace answers steps) || (fails FSaveTuner || fails FStopAll || fails FMarkStopped)) /\
  (exists tr', tr = FPrintBest :: FCallbacksEnd :: tr').
Proof.
  intros H1 H2. unfold tuner_run.
  destruct (run_body_spec steps (run_init w old) answers eq_refl) as (cb' & Hf & Hb & _).
  rewrite Hb.
  pose proof (run_finally_spec fails
               {| rs_cb := cb'; rs_ts := fold_left ts_update (run_history answers steps) (rs_ts (run_init w old)) |}
               H1 H2) as Hfin.
  destruct (run_finally fails _ finally_block) as [[st' r'] tr]. cbn [rs_cb rs_ts] in Hfin.
  destruct Hfin as (Hcb & Hts & Hr & Htr & _).
  destruct (cb_feed_spec0 (run_delivered answers steps) (rs_cb (run_init w old)) eq_refl)
    as (cb2 & Hf2 & Hres & _ & _).
  rewrite Hf in Hf2. injection Hf2 as <-. cbn in Hres.
  rewrite Hcb. cbn [cb_on_tuning_end cb_store cb_results cb_disk].
  repeat split.
  - exact Hres.
  - rewrite Hres. apply Forall2_map_r. intro e. apply make_row_reflects.
  - rewrite Hts. reflexivity.
  - rewrite Hr. reflexivity.
  - exact Htr.
Qed.

(* ---- which results are delivered ----------------------------------------- *)

Lemma mem_Z_in x l : mem_Z x l = true <-> In x l.
Proof.
  induction l as [|y l IH]; cbn; [split; [discriminate | tauto]|].
  rewrite orb_true_iff, IH, Z.eqb_eq. split; intros [H|H]; auto.
Qed.

Lemma deliver_batch_spec batch : forall answers done evs rem ok,
  deliver_batch answers done batch = (evs, rem, ok) ->
  (* every delivered event is one of the batch, of a trial not stopped before *)
  (forall e s, In (e, s) evs ->
     ~ In (ev_trial e) done /\
     exists h a, In h batch /\ e = event_of h a /\ s = an_stops a) /\
  (* nothing is lost: an item is delivered, or its trial was stopped / paused before
     (in [done] or by an earlier delivered result of this batch) *)
  (ok = true -> forall h, In h batch ->
     In (hi_trial h) done \/
     (exists a, In (event_of h a, an_stops a) evs) \/
     (exists e, In (e, true) evs /\ ev_trial e = hi_trial h)) /\
  (* the oracle is consulted once per delivery, in order *)
  (ok = true -> exists used, answers = used ++ rem /\ length used = length evs).
Proof.
  induction batch as [|h rest IH]; intros answers done evs rem ok H; cbn [deliver_batch] in H.
  - injection H as <- <- <-. split; [|split].
    + intros e s [].
    + intros _ h [].
    + intros _. exists []. split; reflexivity.
  - destruct (mem_Z (hi_trial h) done) eqn:Em.
    + destruct (IH _ _ _ _ _ H) as (A & B & C). split; [|split].
      * intros e s Hin. destruct (A e s Hin) as (Hn & h' & a & Hh & He & Hs).
        split; [exact Hn|]. exists h', a. split; [right; exact Hh | split; [exact He | exact Hs]].
      * intros Hok h' [<-|Hh]; [left; apply mem_Z_in; exact Em | apply B; assumption].
      * exact C.
    + destruct answers as [|a answers'].
      * injection H as <- <- <-. split; [|split]; [intros e s [] | discriminate | discriminate].
      * assert (Hnd : ~ In (hi_trial h) done).
        { intro Hin. apply mem_Z_in in Hin. congruence. }
        destruct (an_stops a && an_exec_fails a) eqn:Efail.
        { injection H as <- <- <-. apply andb_true_iff in Efail. destruct Efail as [Es _].
          split; [|split]; [|discriminate|discriminate].
          intros e s [Hin|[]]. injection Hin as <- <-. split; [exact Hnd|]. exists h, a.
          split; [left; reflexivity | split; [reflexivity | symmetry; exact Es]]. }
        destruct (deliver_batch answers' (if an_stops a then hi_trial h :: done else done) rest)
          as [[es rem'] ok'] eqn:E.
        injection H as <- <- <-. destruct (IH _ _ _ _ _ E) as (A & B & C).
        split; [|split].
        -- intros e s [Hin|Hin].
           ++ injection Hin as <- <-. split; [exact Hnd|]. exists h, a.
              split; [left; reflexivity | split; reflexivity].
           ++ destruct (A e s Hin) as (Hn & h' & a' & Hh & He & Hs). split.
              ** intro Hd. apply Hn. destruct (an_stops a); [right|]; exact Hd.
              ** exists h', a'. split; [right; exact Hh | split; [exact He | exact Hs]].
        -- intros Hok h' [<-|Hh].
           ++ right. left. exists a. left. reflexivity.
           ++ destruct (B Hok h' Hh) as [Hd|[[a' Ha']|[e [He Ht]]]].
              ** destruct (an_stops a) eqn:Es.
                 --- destruct Hd as [Heq|Hd]; [|left; exact Hd].
                     right. right. exists (event_of h a). split; [left; reflexivity | cbn; exact Heq].
                 --- left. exact Hd.
              ** right. left. exists a'. right. exact Ha'.
              ** right. right. exists e. split; [right; exact He | exact Ht].
        -- intros Hok. destruct (C Hok) as (used & Hu & Hl). exists (a :: used).
           split; [cbn; rewrite Hu; reflexivity | cbn; rewrite Hl; reflexivity].
Qed.

(* no STOP / PAUSE answer: every handed result is delivered, in order *)
Lemma deliver_batch_all batch : forall answers,
  (length batch <= length answers)%nat ->
  forallb (fun a => negb (an_stops a)) (firstn (length batch) answers) = true ->
  deliver_batch answers [] batch =
    (map (fun ha => (event_of (fst ha) (snd ha), false)) (combine batch answers), skipn (length batch) answers, true).
Proof.
  induction batch as [|h rest IH]; intros answers Hl Hf; [reflexivity|].
  destruct answers as [|a answers']; [cbn in Hl; lia|].
  cbn [length firstn forallb] in Hf. apply andb_true_iff in Hf. destruct Hf as [Ha Hf].
  apply negb_true_iff in Ha. cbn [deliver_batch mem_Z]. rewrite Ha. cbn [andb].
  rewrite (IH answers'); [|cbn in Hl; lia|exact Hf]. cbn [combine map fst snd length skipn]. reflexivity.
Qed.

(* ---- Tuner.best_config, end to end ------------------------------------------ *)
Theorem best_config_attains names ms metric hist backend t cfg :
  tuner_best_config names ms metric (ts_run hist) backend = Ok (t, cfg) ->
  exists i name m v,
    nth_error names i = Some name /\
    match metric with
    | ByIndex j => j = i
    | ByName n => n = name /\ forall j, (j < i)%nat -> nth_error names j <> Some name
    end /\
    match ms with OneMode m' => m' = m | ModeList l => nth_error l i = Some m end /\
    aget Z.eqb t backend = Some cfg /\
    In t (map fst (ts_trials (ts_run hist))) /\
    v = opt_val m (counted name (of_trial t (handed hist))) /\
    (v = opt_dflt m \/ In v (counted name (of_trial t (handed hist)))) /\
    (forall t' x, In x (counted name (of_trial t' (handed hist))) -> better m x v = false).
Proof.
  intro H. apply tuner_best_config_spec in H. destruct H as (name & m & v & Hm & Hp & Hb).
  destruct (metric_name_mode_spec _ _ _ _ _ Hm) as (i & Hn & Hmet & Hms).
  destruct (print_best_spec hist name m) as [Hnone Hsome]. cbn zeta in *.
  assert (Hne : handed hist <> []).
  { intro E. rewrite (Hnone E) in Hp. discriminate. }
  destruct (Hsome Hne) as (t1 & v1 & pre & post & Hp1 & _ & Hin & Hv & _ & Hor & _ & Hall).
  rewrite Hp in Hp1. injection Hp1 as <- <-.
  exists i, name, m, v. repeat split; assumption.
Qed.

(* ======================================================================== *)
(* one Tuner object, several legs                                           *)
(* ======================================================================== *)

Definition leg_ok (l : leg) : Prop := lg_fails l FPrintBest = false /\ lg_fails l FCallbacksEnd = false.

Lemma tuner_leg_spec st l : leg_ok l ->
  let st' := fst (fst (tuner_leg st l)) in
  cb_results (rs_cb st') =
    cb_results (rs_cb st) ++ map (make_row (cb_wallclock (rs_cb st))) (run_delivered (lg_answers l) (lg_steps l)) /\
  cb_disk (rs_cb st') = Some (cb_results (rs_cb st')) /\
  cb_wallclock (rs_cb st') = cb_wallclock (rs_cb st) /\
  rs_ts st' = fold_left ts_update (run_history (lg_answers l) (lg_steps l)) (rs_ts st).
Proof.
  intros [H1 H2]. unfold tuner_leg.
  set (st0 := {| rs_cb := cb_on_tuning_start (rs_cb st); rs_ts := rs_ts st |}).
  destruct (run_body_spec (lg_steps l) st0 (lg_answers l) eq_refl) as (cb' & Hf & Hb & _).
  rewrite Hb.
  pose proof (run_finally_spec (lg_fails l)
               {| rs_cb := cb'; rs_ts := fold_left ts_update (run_history (lg_answers l) (lg_steps l)) (rs_ts st0) |}
               H1 H2) as Hfin.
  destruct (run_finally (lg_fails l) _ finally_block) as [[st2 r2] tr]. cbn [rs_cb rs_ts fst] in *.
  destruct Hfin as (Hcb & Hts & _ & _ & _).
  destruct (cb_feed_spec0 (run_delivered (lg_answers l) (lg_steps l)) (rs_cb st0) eq_refl)
    as (cb2 & Hf2 & Hres & _ & Hw).
  rewrite Hf in Hf2. injection Hf2 as <-. cbn in Hres, Hw.
  rewrite Hcb. cbn [cb_on_tuning_end cb_store cb_results cb_disk cb_wallclock].
  repeat split; [exact Hres | exact Hw | rewrite Hts; reflexivity].
Qed.

Lemma tuner_legs_spec legs : forall st, Forall leg_ok legs ->
  let st' := tuner_legs st legs in
  cb_results (rs_cb st') =
    cb_results (rs_cb st) ++ map (make_row (cb_wallclock (rs_cb st))) (legs_delivered legs) /\
  (legs <> [] -> cb_disk (rs_cb st') = Some (cb_results (rs_cb st'))) /\
  rs_ts st' = fold_left ts_update (legs_history legs) (rs_ts st).
Proof.
  unfold legs_delivered, legs_history.
  induction legs as [|l rest IH]; intros st Hok; cbn [tuner_legs flat_map].
  - cbn. rewrite app_nil_r. repeat split. congruence.
  - inversion Hok as [|? ? Hl Hrest]; subst.
    destruct (tuner_leg_spec st l Hl) as (Hr & Hd & Hw & Hts). cbn zeta in *.
    set (st1 := fst (fst (tuner_leg st l))) in *.
    destruct (IH st1 Hrest) as (Hr2 & Hd2 & Hts2). cbn zeta in *.
    repeat split.
    + rewrite Hr2, Hr, Hw, map_app, app_assoc. reflexivity.
    + intros _. destruct rest as [|l2 rest2]; [cbn; exact Hd | apply Hd2; discriminate].
    + rewrite Hts2, Hts, fold_left_app. reflexivity.
Qed.

Theorem tuner_legs_table w old legs : legs <> [] -> Forall leg_ok legs ->
  let st := tuner_legs (tuner_new w old) legs in
  cb_results (rs_cb st) = map (make_row w) (legs_delivered legs) /\
  Forall2 (row_reflects w) (legs_delivered legs) (cb_results (rs_cb st)) /\
  cb_disk (rs_cb st) = Some (cb_results (rs_cb st)) /\
  rs_ts st = ts_run (legs_history legs).
Proof.
  intros Hne Hok. destruct (tuner_legs_spec legs (tuner_new w old) Hok) as (Hr & Hd & Hts). cbn zeta in *.
  cbn in Hr. repeat split.
  - exact Hr.
  - rewrite Hr. apply Forall2_map_r. intro e. apply make_row_reflects.
  - apply Hd. exact Hne.
  - rewrite Hts. reflexivity.
Qed.

(* one leg = tuner_run *)
Lemma tuner_leg_first w old l :
  tuner_leg (tuner_new w old) l = tuner_run w old (lg_answers l) (lg_steps l) (lg_fails l).
Proof. reflexivity. Qed.

(* ---- the frame: columns and cells ------------------------------------------ *)
Lemma dget_some_of_key k (r : dict) : In k (map fst r) -> exists v, dget k r = Some v.
Proof.
  intro H. unfold dget. destruct (aget key_eqb k r) as [v|] eqn:E; [exists v; reflexivity|].
  apply (aget_none_notin key_eqb key_eqb_spec) in E. contradiction.
Qed.

Lemma add_cols_origin r : forall cs k, In k (add_cols cs r) -> In k cs \/ In k (map fst r).
Proof.
  unfold add_cols. induction r as [|kv r IH]; intros cs k H; cbn [fold_left] in H; [left; exact H|].
  apply IH in H. destruct H as [H|H]; [|right; right; exact H].
  destruct (existsb (key_eqb (fst kv)) cs); [left; exact H|].
  apply in_app_or in H. destruct H as [H|[<-|[]]]; [left; exact H | right; left; reflexivity].
Qed.

Lemma columns_origin rows : forall cs k, In k (fold_left add_cols rows cs) ->
  In k cs \/ exists r, In r rows /\ In k (map fst r).
Proof.
  induction rows as [|r rows IH]; intros cs k H; cbn [fold_left] in H; [left; exact H|].
  apply IH in H. destruct H as [H|(r' & Hr & Hk)].
  - apply add_cols_origin in H. destruct H as [H|H]; [left; exact H | right; exists r; split; [left; reflexivity | exact H]].
  - right. exists r'. split; [right; exact Hr | exact Hk].
Qed.

Theorem frame_spec rows :
  NoDup (columns rows) /\
  (forall k, In k (columns rows) <-> exists r v, In r rows /\ dget k r = Some v) /\
  (forall (is_na : value -> bool) r j, (j < length (columns rows))%nat ->
     nth j (map (frame_cell is_na r) (columns rows)) None = frame_cell is_na r (nth j (columns rows) KTrialId)).
Proof.
  destruct (columns_spec rows) as [Hnd Hhas]. split; [exact Hnd|]. split.
  - intro k. split.
    + intro H. unfold columns in H. apply columns_origin in H. destruct H as [[]|(r & Hr & Hk)].
      destruct (dget_some_of_key k r Hk) as [v Hv]. exists r, v. split; assumption.
    + intros (r & v & Hr & Hv). eapply Hhas; eassumption.
  - intros is_na r j Hj. rewrite (nth_indep _ None (frame_cell is_na r KTrialId)) by (rewrite map_length; exact Hj).
    apply map_nth.
Qed.
